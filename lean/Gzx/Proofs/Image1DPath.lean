/-
  wp imgpath1d — the generic composition: writer front end → rendering → picture → bitmap → scan, for ANY row decoder
  that reads back `paddedRow lq s rq mods` under the geometry the renderer guarantees.
-/
import Gzx.Proofs.Image1DScan
import Gzx.Proofs.RowITFTop
namespace Gzx.Image1DPath
open Gzx Gzx.Image1D Gzx.Image1DScan Gzx.OneD Gzx.WriterFrontend

/-- the geometry `onedWriter_renderResult` guarantees for its pixel row: scale `s ≥ 1`, the margin (in modules, at
    that scale) shared between the two sides, left = ⌊(left+right)/2⌋ -/
theorem rendered_geometry (mods : List Bool) (hn : 1 ≤ mods.length) (width margin : Nat) :
    ∃ lq s rq, renderRow mods width margin = .ok (paddedRow lq s rq mods) ∧ 1 ≤ s ∧ margin * s ≤ lq + rq ∧
      lq = (lq + rq) / 2 ∧ lq + mods.length * s + rq = max width (mods.length + margin) ∧
      s ≤ max 1 width := by
  generalize hW : max width (mods.length + margin) = W
  generalize hS : W / (mods.length + margin) = s
  have hfw : 0 < mods.length + margin := by omega
  have hWge : mods.length + margin ≤ W := by rw [← hW]; exact Nat.le_max_right _ _
  have hs1 : 1 ≤ s := by rw [← hS]; exact (Nat.le_div_iff_mul_le hfw).mpr (by omega)
  have hle : s * (mods.length + margin) ≤ W := by rw [← hS]; exact Nat.div_mul_le_self _ _
  rw [Nat.mul_add] at hle
  have e1 : mods.length * s = s * mods.length := Nat.mul_comm _ _
  have e2 : margin * s = s * margin := Nat.mul_comm _ _
  have hsW : s ≤ max 1 width := by
    by_cases hc : width ≤ mods.length + margin
    · have : W = mods.length + margin := by rw [← hW]; omega
      rw [← hS, this, Nat.div_self hfw]; omega
    · have : W = width := by rw [← hW]; omega
      have h1 : s * 1 ≤ s * (mods.length + margin) := Nat.mul_le_mul_left s hfw
      rw [Nat.mul_add] at h1; omega
  refine ⟨(W - mods.length * s) / 2, s, W - (W - mods.length * s) / 2 - mods.length * s, ?_, hs1, by omega, by omega,
    by omega, hsW⟩
  rw [renderRow_padded mods width margin (by omega), hW, hS]

theorem mem_scaleRow (s : Nat) (hs : 1 ≤ s) (mods : List Bool) (b : Bool) (h : b ∈ mods) : b ∈ scaleRow s mods := by
  unfold scaleRow
  rw [List.mem_flatten]
  exact ⟨List.replicate s b, List.mem_map.mpr ⟨b, h, rfl⟩, by simp; omega⟩

theorem paddedRow_border (lq s rq : Nat) (mods : List Bool) (hs : 1 ≤ s) (hl : 1 ≤ lq) (hr : 1 ≤ rq) (hbar : true ∈ mods) :
    (paddedRow lq s rq mods).head? = some false ∧ (paddedRow lq s rq mods).getLast? = some false ∧
      true ∈ paddedRow lq s rq mods := by
  unfold paddedRow
  refine ⟨?_, ?_, ?_⟩
  · obtain ⟨k, rfl⟩ : ∃ k, lq = k + 1 := ⟨lq - 1, by omega⟩
    simp [List.replicate_succ]
  · obtain ⟨k, rfl⟩ : ∃ k, rq = k + 1 := ⟨rq - 1, by omega⟩
    rw [List.replicate_succ', ← List.append_assoc]
    simp
  · simp only [List.mem_append]
    left; right
    exact mem_scaleRow s hs mods true hbar

/-- **rendering → bitmap → scan**: if the row decoder reads back every padded row with the renderer's geometry (result
    satisfying `P`), then `OneDReader.Decode` on the bitmap (either binariser) of the rendered BitMatrix returns that
    result from the middle row — the first row looked at —, upright, for every requested width, height (also 0: one
    pixel row suffices), TRY_HARDER or not.  Margin ≥ 2: the binarised row never has a black border pixel. -/
theorem path_upright {R : Type} (rd : Int → List Bool → Res R) (mods : List Bool) (hbar : true ∈ mods)
    (width height margin : Nat) (hm : 2 ≤ margin) (binz : Binz) (th : Bool) (P : R → Prop)
    (hrd : ∀ (lq s rq : Nat) (rn : Int), 1 ≤ s → margin * s ≤ lq + rq → lq = (lq + rq) / 2 →
      s ≤ max 1 width → ∃ res, rd rn (paddedRow lq s rq mods) = .ok res ∧ P res) :
    ∃ img res, Render.render1D mods (width : Int) (height : Int) (margin : Int) = .ok img ∧
      decodeImage rd (Bitmap.ofPic binz (Pic.ofImage img)) th = .ok ⟨res, max 1 height / 2, false, false, none⟩ ∧ P res := by
  have hn : 1 ≤ mods.length := List.length_pos_of_mem hbar
  obtain ⟨img, row, himg, hrow, hpic⟩ := ofImage_render1D mods hn width height margin
  obtain ⟨lq, s, rq, hrow', hs, hmarg, hlq, _, hsW⟩ := rendered_geometry mods hn width margin
  rw [hrow] at hrow'
  cases hrow'
  have h2s : 2 * s ≤ margin * s := Nat.mul_le_mul_right s hm
  obtain ⟨hb1, hb2, hb3⟩ := paddedRow_border lq s rq mods hs (by omega) (by omega) hbar
  obtain ⟨res, hres, hP⟩ := hrd lq s rq (((max 1 height) / 2 : Nat) : Int) hs hmarg hlq hsW
  refine ⟨img, res, himg, ?_, hP⟩
  rw [hpic]
  have hh : (Bitmap.ofPic binz (uniform (paddedRow lq s rq mods) (max 1 height))).src.h = max 1 height := rfl
  have := decodeImage_middle_upright rd (Bitmap.ofPic binz (uniform (paddedRow lq s rq mods) (max 1 height))) th
    (by rw [hh]; omega) (paddedRow lq s rq mods)
    (by rw [hh]; exact getBlackRow_uniform binz _ _ _ (by omega) hb1 hb2 hb3) res (by rw [hh]; exact hres)
  rw [hh] at this
  exact this

/-- the picture turned by 180° is the picture of the reversed row -/
theorem uniform_rot180 (row : List Bool) (h : Nat) : (uniform row h).rot180 = uniform row.reverse h := by
  simp [Pic.rot180, uniform]

/-- **upside down**: the same when the rendered BitMatrix is turned by 180° and the row decoder REFUSES the reversed
    symbol with a reader exception: found on the reversed middle row, ORIENTATION 180. -/
theorem path_upside_down {R : Type} (rd : Int → List Bool → Res R) (mods : List Bool) (hbar : true ∈ mods)
    (width height margin : Nat) (hm : 2 ≤ margin) (binz : Binz) (th : Bool) (P : R → Prop)
    (hrd : ∀ (lq s rq : Nat) (rn : Int), 1 ≤ s → margin * s ≤ lq + rq → lq = (lq + rq) / 2 →
      s ≤ max 1 width →
      (∃ e, OneDScan.isReaderException e = true ∧ rd rn (paddedRow lq s rq mods).reverse = .error e) ∧
      ∃ res, rd rn (paddedRow lq s rq mods) = .ok res ∧ P res) :
    ∃ img res, Render.render1D mods (width : Int) (height : Int) (margin : Int) = .ok img ∧
      decodeImage rd (Bitmap.ofPic binz (Pic.ofImage img).rot180) th =
        .ok ⟨res, max 1 height / 2, true, false, some 180⟩ ∧ P res := by
  have hn : 1 ≤ mods.length := List.length_pos_of_mem hbar
  obtain ⟨img, row, himg, hrow, hpic⟩ := ofImage_render1D mods hn width height margin
  obtain ⟨lq, s, rq, hrow', hs, hmarg, hlq, _, hsW⟩ := rendered_geometry mods hn width margin
  rw [hrow] at hrow'
  cases hrow'
  have h2s : 2 * s ≤ margin * s := Nat.mul_le_mul_right s hm
  obtain ⟨hb1, hb2, hb3⟩ := paddedRow_border lq s rq mods hs (by omega) (by omega) hbar
  obtain ⟨⟨e, he, hfail⟩, res, hres, hP⟩ := hrd lq s rq (((max 1 height) / 2 : Nat) : Int) hs hmarg hlq hsW
  refine ⟨img, res, himg, ?_, hP⟩
  rw [hpic, uniform_rot180]
  have hh : (Bitmap.ofPic binz (uniform (paddedRow lq s rq mods).reverse (max 1 height))).src.h = max 1 height := rfl
  have hr1 : (paddedRow lq s rq mods).reverse.head? = some false := by rw [List.head?_reverse]; exact hb2
  have hr2 : (paddedRow lq s rq mods).reverse.getLast? = some false := by rw [List.getLast?_reverse]; exact hb1
  have hr3 : true ∈ (paddedRow lq s rq mods).reverse := List.mem_reverse.mpr hb3
  have := decodeImage_middle_reversed rd (Bitmap.ofPic binz (uniform (paddedRow lq s rq mods).reverse (max 1 height))) th
    (by rw [hh]; omega) (paddedRow lq s rq mods).reverse
    (by rw [hh]; exact getBlackRow_uniform binz _ _ _ (by omega) hr1 hr2 hr3) e he (by rw [hh]; exact hfail)
    res (by rw [hh, List.reverse_reverse]; exact hres)
  rw [hh] at this
  exact this

/-! ## the writer front end -/

theorem onedMargin_hintsOf (dflt : Int) (hd : 0 ≤ dflt) (margin : Option Nat) (forced : Option Nat) :
    onedMargin dflt (hintsOf (margin.map Int.ofNat) forced) = .ok ((margin.map Int.ofNat).getD dflt) := by
  cases margin with
  | none => simp [onedMargin, hintsOf]; omega
  | some m => simp [onedMargin, hintsOf]

/-- `OneDimensionalCodeWriter.Encode` with natural width / height / margin hint on accepted contents is the rendering
    of the module pattern -/
theorem encode1D_render (cfg : OneDCfg) (hd : 0 ≤ cfg.defaultMargin) (contents : List Nat) (hne : contents ≠ [])
    (fmt : Nat) (hfmt : cfg.supported.contains fmt = true) (width height : Nat) (margin forced : Option Nat)
    (mods : List Bool) (hcore : cfg.core contents (hintsOf (margin.map Int.ofNat) forced) = .ok mods) :
    encode1D cfg contents fmt (width : Int) (height : Int) (hintsOf (margin.map Int.ofNat) forced) =
      Render.render1D mods (width : Int) (height : Int) ((margin.map Int.ofNat).getD cfg.defaultMargin) := by
  unfold encode1D
  have h1 : ¬ contents.length = 0 := by cases contents with | nil => exact absurd rfl hne | cons a l => simp
  have h2 : ¬ ((width : Int) < 0 ∨ (height : Int) < 0) := by omega
  rw [if_neg h1, if_neg h2, if_neg (by rw [hfmt]; simp), onedMargin_hintsOf cfg.defaultMargin hd, hcore]

/-! ## a symbol without a single bar cannot be read back: used to show that accepted symbols have one -/

theorem scaleRow_allwhite (s : Nat) (mods : List Bool) (h : ¬ true ∈ mods) :
    scaleRow s mods = List.replicate (mods.length * s) false := by
  induction mods with
  | nil => simp [scaleRow]
  | cons b bs ih =>
    have hb : b = false := by cases b with | false => rfl | true => exact absurd (by simp) h
    have hbs : ¬ true ∈ bs := fun hm => h (by simp [hm])
    have e : scaleRow s (b :: bs) = List.replicate s b ++ scaleRow s bs := by simp [scaleRow]
    rw [e, ih hbs, hb, List.length_cons, Nat.add_mul, Nat.one_mul, Nat.add_comm, List.replicate_append_replicate]

theorem paddedRow_allwhite (lq s rq : Nat) (mods : List Bool) (h : ¬ true ∈ mods) :
    paddedRow lq s rq mods = List.replicate (lq + mods.length * s + rq) false := by
  unfold paddedRow
  rw [scaleRow_allwhite s mods h, List.replicate_append_replicate, List.replicate_append_replicate]

/-- two differently padded rows of a bar-less symbol are the same row -/
theorem paddedRow_allwhite_shift (mods : List Bool) (h : ¬ true ∈ mods) :
    paddedRow 1 1 2 mods = paddedRow 2 1 1 mods := by
  rw [paddedRow_allwhite _ _ _ _ h, paddedRow_allwhite _ _ _ _ h]
  congr 1; omega

/-! ## what the nine symbologies have in common, and the generic pose theorems -/

/-- `Readable`: the writer front end accepts `contents` and renders the module pattern `mods` with an effective margin of
    `m ≥ 2` modules; the symbol has a bar; and the scanning reader's `DecodeRow` reads back every padded row with the
    renderer's geometry, `Decode`'s post-processing turning that into (`sym`, `canonical`). -/
structure Readable (E : Env) (sym : Sym) (ext39 : Bool) (contents : List Nat) (width height : Nat)
    (margin forced : Option Nat) (canonical : List Nat) (mods : List Bool) (m : Nat) : Prop where
  margin_ge : 2 ≤ m
  bar : true ∈ mods
  write : writeImage E.T sym contents (width : Int) (height : Int) (margin.map Int.ofNat) forced =
    Render.render1D mods (width : Int) (height : Int) (m : Int)
  read : ∀ (lq s rq : Nat) (rn : Int), 1 ≤ s → m * s ≤ lq + rq → lq = (lq + rq) / 2 → s ≤ max 1 width →
    ∃ t, rowRead E ext39 (scanSym sym) rn (paddedRow lq s rq mods) = .ok t ∧ finishRead sym t = .ok (sym, canonical)

/-- upright: content and format from the first scanned row, no orientation -/
theorem upright_of_readable {E : Env} {sym : Sym} {ext39 : Bool} {contents : List Nat} {width height : Nat}
    {margin forced : Option Nat} {canonical : List Nat} {mods : List Bool} {m : Nat}
    (hR : Readable E sym ext39 contents width height margin forced canonical mods m) (binz : Binz) (th : Bool) :
    imagePath E sym contents width height (margin.map Int.ofNat) forced .upright binz ext39 th =
      .ok ⟨sym, canonical, max 1 height / 2, false, false, none⟩ := by
  obtain ⟨img, res, himg, hdec, hP⟩ := path_upright (rowRead E ext39 (scanSym sym)) mods hR.bar width height m hR.margin_ge
    binz th (fun t => finishRead sym t = .ok (sym, canonical)) hR.read
  unfold imagePath
  rw [hR.write, himg]
  simp only [Pic.pose]
  rw [readImage_generic, hdec]
  simp only [hP]

/-- upside down, when the scanning reader's `DecodeRow` refuses the reversed rendered rows with a reader exception:
    the same content from the reversed middle row, ORIENTATION 180 -/
theorem upside_down_of_readable {E : Env} {sym : Sym} {ext39 : Bool} {contents : List Nat} {width height : Nat}
    {margin forced : Option Nat} {canonical : List Nat} {mods : List Bool} {m : Nat}
    (hR : Readable E sym ext39 contents width height margin forced canonical mods m)
    (hrefuse : ∀ (lq s rq : Nat) (rn : Int), 1 ≤ s → m * s ≤ lq + rq → lq = (lq + rq) / 2 → s ≤ max 1 width →
      ∃ e, OneDScan.isReaderException e = true ∧
        rowRead E ext39 (scanSym sym) rn (paddedRow lq s rq mods).reverse = .error e)
    (binz : Binz) (th : Bool) :
    imagePath E sym contents width height (margin.map Int.ofNat) forced .upsideDown binz ext39 th =
      .ok ⟨sym, canonical, max 1 height / 2, true, false, some 180⟩ := by
  obtain ⟨img, res, himg, hdec, hP⟩ := path_upside_down (rowRead E ext39 (scanSym sym)) mods hR.bar width height m
    hR.margin_ge binz th (fun t => finishRead sym t = .ok (sym, canonical))
    (fun lq s rq rn h1 h2 h3 h4 => ⟨hrefuse lq s rq rn h1 h2 h3 h4, hR.read lq s rq rn h1 h2 h3 h4⟩)
  unfold imagePath
  rw [hR.write, himg]
  simp only [Pic.pose]
  rw [readImage_generic, hdec]
  simp only [hP]

end Gzx.Image1DPath
