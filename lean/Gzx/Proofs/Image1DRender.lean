/-
  wp imgpath1d — every pixel row of the BitMatrix `onedWriter_renderResult` returns (C14 model `Render.render1D`:
  the list of `SetRegion` calls) IS the one-row model `OneD.renderRow` the row-level read-back theorems talk about:
  `lq` white pixels, every module `s` pixels wide, `rq` white pixels.
-/
import Gzx.Properties.C14
import Gzx.Proofs.UpceanWrite
namespace Gzx.Image1DRender
open Gzx Gzx.Render Gzx.OneD

theorem getElem?_scaleRow (s : Nat) (hs : 0 < s) (code : List Bool) (i : Nat) :
    (scaleRow s code)[i]? = if i < code.length * s then code[i / s]? else none := by
  induction code generalizing i with
  | nil => simp [scaleRow]
  | cons b bs ih =>
    have e : scaleRow s (b :: bs) = List.replicate s b ++ scaleRow s bs := by simp [scaleRow]
    rw [e]
    by_cases hi : i < s
    · rw [List.getElem?_append_left (by simpa using hi)]
      have h0 : i / s = 0 := Nat.div_eq_of_lt hi
      have hlt : i < (b :: bs).length * s := by
        simp only [List.length_cons, Nat.add_mul, Nat.one_mul]; omega
      rw [if_pos hlt, h0]
      simp [List.getElem?_replicate, hi]
    · rw [List.getElem?_append_right (by simpa using Nat.le_of_not_lt hi)]
      simp only [List.length_replicate]
      rw [ih (i - s)]
      have hd : i / s = (i - s) / s + 1 := by
        have : i = (i - s) + s := by omega
        conv => lhs; rw [this]
        rw [Nat.add_div_right _ hs]
      simp only [List.length_cons, Nat.add_mul, Nat.one_mul]
      by_cases hlt : i - s < bs.length * s
      · rw [if_pos hlt, if_pos (by omega), hd]; simp
      · rw [if_neg hlt, if_neg (by omega)]

theorem length_scaleRow (s : Nat) (code : List Bool) : (scaleRow s code).length = code.length * s := by
  induction code with
  | nil => simp [scaleRow]
  | cons b bs ih =>
    have e : scaleRow s (b :: bs) = List.replicate s b ++ scaleRow s bs := by simp [scaleRow]
    rw [e, List.length_append, ih]; simp [Nat.add_mul]; omega

theorem length_paddedRow (lq s rq : Nat) (code : List Bool) :
    (paddedRow lq s rq code).length = lq + code.length * s + rq := by
  simp [paddedRow, length_scaleRow]; omega

theorem getElem?_paddedRow (lq s rq : Nat) (hs : 0 < s) (code : List Bool) (x : Nat) :
    (paddedRow lq s rq code)[x]? =
      if x < lq then some false
      else if x < lq + code.length * s then code[(x - lq) / s]?
      else if x < lq + code.length * s + rq then some false else none := by
  unfold paddedRow
  by_cases h1 : x < lq
  · rw [List.append_assoc, List.getElem?_append_left (by simpa using h1), if_pos h1]
    simp [h1]
  · rw [if_neg h1]
    by_cases h2 : x < lq + code.length * s
    · rw [if_pos h2, List.getElem?_append_left (by simp [length_scaleRow]; omega),
        List.getElem?_append_right (by simp; omega)]
      simp only [List.length_replicate]
      rw [getElem?_scaleRow s hs, if_pos (by omega)]
    · rw [if_neg h2, List.getElem?_append_right (by simp [length_scaleRow]; omega)]
      simp only [List.length_append, List.length_replicate, length_scaleRow, List.getElem?_replicate]
      by_cases h3 : x < lq + code.length * s + rq
      · rw [if_pos h3, if_pos (by omega)]
      · rw [if_neg h3, if_neg (by omega)]

/-- row `y` of the picture drawn by `barLoop` = the padded row -/
theorem bars_row (code : List Bool) (W H lq s : Nat) (hs : 1 ≤ s) (hH : 1 ≤ H) (hr : lq + code.length * s ≤ W)
    (y : Int) (hy0 : 0 ≤ y) (hyH : y < H) :
    Image.row ⟨(W : Int), (H : Int), barLoop (s : Int) (H : Int) (s : Int) code (lq : Int)⟩ y =
      paddedRow lq s (W - lq - code.length * s) code := by
  have hr' : (lq : Int) + (code.length : Int) * (s : Int) ≤ (W : Int) := by
    have : ((lq + code.length * s : Nat) : Int) ≤ (W : Int) := by exact_mod_cast hr
    simpa using this
  apply List.ext_getElem?
  intro x
  rw [row_getElem? _ y hy0 hyH x, getElem?_paddedRow lq s _ (by omega) code x]
  simp only [Int.toNat_natCast]
  by_cases hxW : x < W
  · rw [if_pos hxW]
    have hpx := bars_px code (W : Int) (H : Int) (lq : Int) (s : Int) (by omega) (by omega) (by omega) hr' (x : Int) y
    by_cases h1 : x < lq
    · rw [if_pos h1]
      congr 1
      cases hp : Image.px ⟨(W : Int), (H : Int), barLoop (s : Int) (H : Int) (s : Int) code (lq : Int)⟩ (x : Int) y with
      | false => rfl
      | true => have := (hpx.1 hp).1; omega
    · rw [if_neg h1]
      by_cases h2 : x < lq + code.length * s
      · rw [if_pos h2]
        have hidx : (((x : Int) - (lq : Int)) / (s : Int)).toNat = (x - lq) / s := by
          have : ((x : Int) - (lq : Int)) = ((x - lq : Nat) : Int) := by omega
          rw [this, ← Int.natCast_ediv, Int.toNat_natCast]
        rw [hidx] at hpx
        have hlt : (x - lq) / s < code.length := by
          rw [Nat.div_lt_iff_lt_mul (by omega)]; omega
        rw [List.getElem?_eq_getElem hlt] at hpx ⊢
        congr 1
        have h2' : (x : Int) < (lq : Int) + (code.length : Int) * (s : Int) := by
          have : ((x : Nat) : Int) < ((lq + code.length * s : Nat) : Int) := by exact_mod_cast h2
          simpa using this
        cases hc : code[(x - lq) / s] with
        | true =>
          rw [hc] at hpx
          exact hpx.2 ⟨by omega, h2', hy0, hyH, rfl⟩
        | false =>
          rw [hc] at hpx
          cases hp : Image.px ⟨(W : Int), (H : Int), barLoop (s : Int) (H : Int) (s : Int) code (lq : Int)⟩ (x : Int) y with
          | false => rfl
          | true => have := (hpx.1 hp).2.2.2.2; cases this
      · rw [if_neg h2, if_pos (by omega)]
        congr 1
        cases hp : Image.px ⟨(W : Int), (H : Int), barLoop (s : Int) (H : Int) (s : Int) code (lq : Int)⟩ (x : Int) y with
        | false => rfl
        | true =>
          have := (hpx.1 hp).2.1
          have h2' : ((lq + code.length * s : Nat) : Int) ≤ (x : Int) := by exact_mod_cast Nat.le_of_not_lt h2
          simp only [Int.natCast_add, Int.natCast_mul] at h2'
          omega
  · rw [if_neg hxW, if_neg (by omega), if_neg (by omega), if_neg (by omega)]

/-- **every row of the rendered BitMatrix is `renderRow`** (requested width/height/margin are naturals: the writer
    front end refuses negative ones). -/
theorem render1D_rows (code : List Bool) (hn : 1 ≤ code.length) (width height margin : Nat) :
    ∃ img row, render1D code (width : Int) (height : Int) (margin : Int) = .ok img ∧
      renderRow code width margin = .ok row ∧
      img.w = ((max width (code.length + margin) : Nat) : Int) ∧ img.h = ((max 1 height : Nat) : Int) ∧
      ∀ y : Int, 0 ≤ y → y < img.h → img.row y = row := by
  have hm : (0 : Int) ≤ (margin : Int) := by omega
  have heq := Properties.C14.render1D_eq code (width : Int) (height : Int) (margin : Int) hm hn
  generalize hW : max width (code.length + margin) = W
  generalize hS : W / (code.length + margin) = s
  have hWge : code.length + margin ≤ W := by rw [← hW]; exact Nat.le_max_right _ _
  have hfw : 0 < code.length + margin := by omega
  have hs1 : 1 ≤ s := by rw [← hS]; exact (Nat.le_div_iff_mul_le hfw).mpr (by omega)
  have hle : s * (code.length + margin) ≤ W := by rw [← hS]; exact Nat.div_mul_le_self _ _
  have hns : code.length * s ≤ W := by
    rw [Nat.mul_add] at hle
    rw [Nat.mul_comm]; omega
  have eW : outSize (width : Int) code.length (margin : Int) = (W : Int) := by
    unfold outSize; rw [← hW]; omega
  have eS : axisScale (width : Int) code.length (margin : Int) = (s : Int) := by
    unfold axisScale; rw [eW, ← hS]
    have : ((code.length : Int) + (margin : Int)) = ((code.length + margin : Nat) : Int) := by omega
    rw [this, ← Int.natCast_ediv]
  have eP : padOf (W : Int) code.length (s : Int) = (((W - code.length * s) / 2 : Nat) : Int) := by
    unfold padOf
    have : (W : Int) - (code.length : Int) * (s : Int) = ((W - code.length * s : Nat) : Int) := by
      have : ((code.length * s : Nat) : Int) ≤ (W : Int) := by exact_mod_cast hns
      simp only [Int.natCast_mul] at this
      rw [Int.natCast_sub hns]; simp
    rw [this]; omega
  have eH : max (1 : Int) (height : Int) = ((max 1 height : Nat) : Int) := by omega
  rw [eW, eS, eP, eH] at heq
  refine ⟨_, paddedRow ((W - code.length * s) / 2) s (W - (W - code.length * s) / 2 - code.length * s) code,
    heq, ?_, rfl, rfl, ?_⟩
  · rw [renderRow_padded code width margin (by omega), hW, hS]
  · intro y hy0 hyH
    simp only at hyH
    exact bars_row code W (max 1 height) ((W - code.length * s) / 2) s hs1 (by omega) (by omega) y hy0 hyH

end Gzx.Image1DRender
