/-
  wp imgpath1d — a Code 39 symbol read BACKWARDS is refused by `code39Reader.DecodeRow` (NotFound): the start/stop
  asymmetry.  `code39FindAsteriskPattern` looks at windows of nine runs beginning with a bar.  On the reversed symbol
  * the first window is the reversed asterisk, whose narrow/wide word is not the asterisk word (table condition
    `revStar39`, decidable);
  * every other window begins inside the symbol: the white run in front of it is at most 2 modules wide, the window at
    least 9, so the quiet-zone test `IsRange(patternStart - width/2, patternStart, false)` meets a bar.
-/
import Gzx.Proofs.Image1DStar
import Gzx.Proofs.Row39Code39
import Gzx.Proofs.Row39Total
import Gzx.Proofs.RowITFTop
namespace Gzx.Image1DRev39
open Gzx Gzx.OneD Gzx.Row39 Gzx.Image1DStar

theorem sumL_ge (s : Nat) : ∀ l : List Nat, (∀ c ∈ l, s ≤ c) → l.length * s ≤ sumL l
  | [], _ => by simp [sumL_nil]
  | c :: l, h => by
    have h1 := h c (by simp)
    have h2 := sumL_ge s l (fun c' hc' => h c' (by simp [hc']))
    rw [sumL_cons, List.length_cons, Nat.add_mul, Nat.one_mul]; omega

theorem isRangeWhite_black (row : List Bool) (a b i : Nat) (ha : a ≤ i) (hb : i < b) (hi : row[i]? = some true) :
    isRangeWhite row a b = false := by
  unfold isRangeWhite
  split
  · rfl
  · rw [List.all_eq_false]
    refine ⟨true, ?_, by simp⟩
    have : ((row.drop a).take (b - a))[i - a]? = some true := by
      rw [List.getElem?_take_of_lt (by omega), List.getElem?_drop]
      have : a + (i - a) = i := by omega
      rw [this, hi]
    exact List.mem_of_getElem? this

theorem even_split (A : List Nat) (hne : A ≠ []) (hev : A.length % 2 = 0) : ∃ A' b q, A = A' ++ [b, q] := by
  have hl : 2 ≤ A.length := by
    cases A with
    | nil => exact absurd rfl hne
    | cons a t => cases t with
      | nil => simp at hev
      | cons b t' => simp
  have h2 : (A.drop (A.length - 2)).length = 2 := by simp; omega
  match hd : A.drop (A.length - 2), h2 with
  | [b, q], _ => exact ⟨A.take (A.length - 2), b, q, by rw [← hd, List.take_append_drop]⟩

/-- every window of the search on a row whose runs are `G` (all but the last `s` or `2s` wide) is rejected, provided
    the first nine runs do not classify as the asterisk -/
theorem fill_reject (T : Tables) (row : List Bool) (L s : Nat) (G : List Nat) (hs : 1 ≤ s)
    (hrow : RowAt row L G true) (hG : ∀ A g B, G = A ++ g :: B → B ≠ [] → g = s ∨ g = 2 * s)
    (hs30 : 2 * s ≤ 2147483647) (rv : Nat) (hrv : rv ≠ T.code39Asterisk)
    (hfirst : c39Pattern (G.take 9) = .ok (some rv)) :
    ∀ (R pre : List Nat) (K : Nat) (zs A : List Nat), G = A ++ pre ++ K :: R → A.length % 2 = 0 →
      pre.length + 1 + zs.length = 9 →
      fill (c39Accept T row) pre K zs R (L + sumL (A ++ pre ++ [K])) (L + sumL A) = .error .notFound := by
  intro R
  induction R with
  | nil => intro pre K zs A _ _ _; simp only [fill]
  | cons w R' ih =>
    intro pre K zs A hGe hev hlen
    have hGe' : G = A ++ (pre ++ [K]) ++ w :: R' := by rw [hGe]; simp
    cases zs with
    | cons z zs' =>
      simp only [fill]
      have := ih (pre ++ [K]) w zs' A hGe' hev (by simp at hlen ⊢; omega)
      have e : L + sumL (A ++ pre ++ [K]) + w = L + sumL (A ++ (pre ++ [K]) ++ [w]) := by
        simp only [sumL_append, sumL_cons, sumL_nil]; omega
      rw [e]; exact this
    | nil =>
      have hlen9 : (pre ++ [K]).length = 9 := by simp at hlen ⊢; omega
      -- the window consists of symbol elements
      have hwin : ∀ c ∈ pre ++ [K], c = s ∨ c = 2 * s := by
        intro c hc
        obtain ⟨W1, W2, hW⟩ := List.append_of_mem hc
        exact hG (A ++ W1) c (W2 ++ w :: R') (by rw [hGe', hW]; simp) (by simp)
      obtain ⟨p, hp⟩ := c39Pattern_ok (pre ++ [K]) (by
        intro c hc; rcases hwin c hc with h | h <;> omega)
      have hsum : 9 * s ≤ sumL (pre ++ [K]) := by
        have := sumL_ge s (pre ++ [K]) (by intro c hc; rcases hwin c hc with h | h <;> omega)
        rw [hlen9] at this; exact this
      have hacc : c39Accept T row (pre ++ [K]) (L + sumL A) (L + sumL (A ++ pre ++ [K])) = .ok false := by
        unfold c39Accept
        rw [hp]
        simp only []
        by_cases hpe : p = some T.code39Asterisk
        · rw [if_pos hpe]
          by_cases hA : A = []
          · -- the first window: it is the reversed asterisk
            exfalso
            subst hA
            have : G.take 9 = pre ++ [K] := by
              rw [hGe', List.nil_append, List.take_left' hlen9]
            rw [this, hp] at hfirst
            injection hfirst with h1
            rw [hpe] at h1
            injection h1 with h2
            exact hrv h2.symm
          · obtain ⟨A', b, q, rfl⟩ := even_split A hA hev
            have hq : q = s ∨ q = 2 * s :=
              hG (A' ++ [b]) q ((pre ++ [K]) ++ w :: R') (by rw [hGe']; simp) (by simp)
            have hb : 0 < b := hrow.pos b (by rw [hGe']; simp)
            have hA'ev : A'.length % 2 = 0 := by simp at hev; omega
            have hrow' : RowAt row L (A' ++ ([b, q] ++ (pre ++ [K]) ++ w :: R')) true := by
              have h0 := hrow
              rw [hGe'] at h0
              simpa using h0
            have hadv := hrow'.advance A' ([b, q] ++ (pre ++ [K]) ++ w :: R')
            rw [if_pos hA'ev] at hadv
            have hpix : row[L + sumL A' + (b - 1)]? = some true := by
              have hd := hadv.drop
              have : (row.drop (L + sumL A'))[b - 1]? = some true := by
                rw [hd]
                simp only [List.cons_append, appendPattern]
                rw [List.getElem?_append_left (by simp; omega)]
                simp [List.getElem?_replicate]; omega
              rw [List.getElem?_drop] at this
              exact this
            congr 1
            apply isRangeWhite_black row _ _ (L + sumL A' + (b - 1)) _ _ hpix
            · have e1 : sumL (A' ++ [b, q] ++ pre ++ [K]) = sumL (A' ++ [b, q]) + sumL (pre ++ [K]) := by
                simp only [sumL_append]; omega
              have e2 : sumL (A' ++ [b, q]) = sumL A' + b + q := by
                simp only [sumL_append, sumL_cons, sumL_nil]; omega
              rw [e1, e2]
              rcases hq with h | h <;> omega
            · have e2 : sumL (A' ++ [b, q]) = sumL A' + b + q := by
                simp only [sumL_append, sumL_cons, sumL_nil]; omega
              rw [e2]
              rcases hq with h | h <;> omega
        · rw [if_neg hpe]
      simp only [fill, hacc]
      obtain ⟨c0, c1, tl, hcs⟩ : ∃ c0 c1 tl, pre ++ [K] = c0 :: c1 :: tl := by
        match hm : pre ++ [K], hlen9 with
        | c0 :: c1 :: tl, _ => exact ⟨c0, c1, tl, rfl⟩
      rw [hcs]
      simp only []
      have htl : tl.length = 7 := by rw [hcs] at hlen9; simpa using hlen9
      have := ih tl w [0] (A ++ [c0, c1]) (by rw [hGe', hcs]; simp) (by simp; omega) (by simp; omega)
      have e1 : L + sumL (A ++ pre ++ [K]) + w = L + sumL (A ++ [c0, c1] ++ tl ++ [w]) := by
        have : sumL (A ++ pre ++ [K]) = sumL A + sumL (pre ++ [K]) := by simp only [sumL_append]; omega
        rw [this, hcs]
        simp only [sumL_append, sumL_cons, sumL_nil]; omega
      have e2 : L + sumL A + c0 + c1 = L + sumL (A ++ [c0, c1]) := by
        simp only [sumL_append, sumL_cons, sumL_nil]; omega
      rw [e1, e2]; exact this

/-- table condition: the asterisk word read backwards is not the asterisk word -/
def revStar39 (T : Tables) : Bool :=
  decide (natOfBits (bitsMSB 9 T.code39Asterisk).reverse ≠ T.code39Asterisk)

theorem symbol39_mem (T : Tables) (syms : List Nat) : ∀ c ∈ symbol39 T syms, c = 1 ∨ c = 2 := by
  have hw : ∀ e, ∀ c ∈ code39Widths e, c = 1 ∨ c = 2 := by
    intro e c hc
    unfold code39Widths at hc
    obtain ⟨b, _, rfl⟩ := List.mem_map.mp hc
    cases b <;> simp
  intro c hc
  unfold symbol39 at hc
  simp only [List.mem_append, List.mem_singleton, List.mem_flatten, List.mem_map] at hc
  rcases hc with (h | h) | (⟨l, ⟨i, _, rfl⟩, h⟩ | h)
  · exact hw _ c h
  · left; exact h
  · rcases List.mem_append.mp h with h | h
    · exact hw _ c h
    · left; simpa using h
  · exact hw _ c h

theorem symbol39_length (T : Tables) (syms : List Nat) : (symbol39 T syms).length = 19 + 10 * syms.length := by
  unfold symbol39
  simp only [List.length_append, widths_len, List.length_singleton, List.length_flatten, List.map_map]
  have : (syms.map (List.length ∘ fun i => code39Widths (enc39 T i) ++ [1])) = syms.map (fun _ => 10) := by
    apply List.map_congr_left; intro i _; simp [widths_len]
  rw [this]
  have hs : ∀ l : List Nat, (l.map (fun _ => 10)).sum = 10 * l.length := by
    intro l; induction l with
    | nil => rfl
    | cons a t ih => simp [ih]; omega
  rw [hs]; omega

/-- **Code 39 start/stop asymmetry**: the reversed symbol, at every scale and with any quiet zones, is refused -/
theorem c39_reversed_refused (T : Tables) (hT : WF39Row T = true) (hrev : revStar39 T = true) (syms : List Nat)
    (lq s rq : Nat) (hs : 1 ≤ s) (hs30 : 2 * s ≤ 2147483647) (ck ext : Bool) :
    c39DecodeRow T ck ext (paddedRow lq s rq (appendPattern (symbol39 T syms) true)).reverse = .error .notFound := by
  have f := wf39Facts T hT
  have hlenS := symbol39_length T syms
  have hodd : (symbol39 T syms).length % 2 = 1 := by rw [hlenS]; omega
  rw [RowITF.paddedRow_reverse lq s rq _ hodd]
  have hoddF : (symbol39 T syms).reverse.length % 2 = 1 := by rw [List.length_reverse]; exact hodd
  have hposF : ∀ w ∈ (symbol39 T syms).reverse, 0 < w := by
    intro w hw
    rcases symbol39_mem T syms w (List.mem_reverse.mp hw) with h | h <;> omega
  obtain ⟨hrow, hnext, _⟩ := paddedRow_rowAt (symbol39 T syms).reverse rq s lq (by omega) hoddF hposF
  generalize hrowdef : paddedRow rq s lq (appendPattern (symbol39 T syms).reverse true) = row at hrow hnext
  generalize hGdef : (symbol39 T syms).reverse.map (s * ·) ++ tailQ lq = G at hrow
  -- all runs but the last are symbol elements
  have hG : ∀ A g B, G = A ++ g :: B → B ≠ [] → g = s ∨ g = 2 * s := by
    intro A g B hAB hB
    have hlenG : G.length = A.length + 1 + B.length := by rw [hAB]; simp; omega
    have hBl : 1 ≤ B.length := by cases B with | nil => exact absurd rfl hB | cons _ _ => simp
    have htq : (tailQ lq).length ≤ 1 := by unfold tailQ; split <;> simp
    have hlt : A.length < ((symbol39 T syms).reverse.map (s * ·)).length := by
      have : G.length = ((symbol39 T syms).reverse.map (s * ·)).length + (tailQ lq).length := by rw [← hGdef]; simp
      omega
    have hg : G[A.length]? = some g := by rw [hAB]; simp
    rw [← hGdef, List.getElem?_append_left hlt] at hg
    have hmem := List.mem_of_getElem? hg
    obtain ⟨c, hc, rfl⟩ := List.mem_map.mp hmem
    rcases symbol39_mem T syms c (List.mem_reverse.mp hc) with h | h <;> subst h <;> omega
  -- the first window is the reversed asterisk
  have hstar := f.star
  simp only [word39Ok, Bool.and_eq_true, decide_eq_true_eq, List.contains_eq_mem] at hstar
  obtain ⟨⟨h3, hfalse⟩, _⟩ := hstar
  have hfirst : c39Pattern (G.take 9) = .ok (some (natOfBits (bitsMSB 9 T.code39Asterisk).reverse)) := by
    have htake : G.take 9 = nw (s * 1) (s * 2) (bitsMSB 9 T.code39Asterisk).reverse := by
      rw [← hGdef]
      have h9 : 9 ≤ ((symbol39 T syms).reverse.map (s * ·)).length := by simp [hlenS]; omega
      rw [List.take_append_of_le_length h9, ← List.map_take]
      have : (symbol39 T syms).reverse.take 9 = (code39Widths T.code39Asterisk).reverse := by
        have hrevS : (symbol39 T syms).reverse = (code39Widths T.code39Asterisk).reverse ++
            ((syms.map (fun i => code39Widths (enc39 T i) ++ [1])).flatten.reverse ++
              ([1] ++ (code39Widths T.code39Asterisk).reverse)) := by
          simp [symbol39, List.reverse_append]
        rw [hrevS, List.take_left' (by simp [widths_len])]
      rw [this]
      have hmr : List.map (fun x => s * x) (code39Widths T.code39Asterisk).reverse =
          (List.map (fun x => s * x) (code39Widths T.code39Asterisk)).reverse := by simp [List.map_reverse]
      rw [hmr, widths_scaled]
      simp [nw, List.map_reverse]
    rw [htake]
    exact c39Pattern_nw (s * 1) (s * 2) _ (by omega) (by omega) (by omega)
      (by rw [List.filter_reverse, List.length_reverse]; exact h3) (by simpa using hfalse)
  have hrv : natOfBits (bitsMSB 9 T.code39Asterisk).reverse ≠ T.code39Asterisk := by
    simpa [revStar39] using hrev
  -- the search
  obtain ⟨g0, G', hGc⟩ : ∃ g0 G', G = g0 :: G' := by
    cases hG0 : G with
    | nil =>
      have : G.length = 0 := by rw [hG0]; rfl
      rw [← hGdef] at this; simp [hlenS] at this
    | cons a t => exact ⟨a, t, rfl⟩
  have hfind : c39FindAsterisk T row = .error .notFound := by
    unfold c39FindAsterisk
    simp only [hnext]
    rw [hrow.drop, hGc]
    simp only [appendPattern]
    have := starLoop_fill (c39Accept T row) G' [] 0 g0 (List.replicate 8 0) true rq rq
      (fun r hr => hrow.pos r (by rw [hGc]; simp [hr]))
    simp only [List.nil_append, List.length_nil, Bool.not_true] at this ⊢
    have e9 : List.replicate 9 0 = 0 :: List.replicate 8 0 := rfl
    rw [e9, this]
    have hr := fill_reject T row rq s G hs hrow hG hs30 _ hrv hfirst G' [] g0 (List.replicate 8 0) []
      (by rw [hGc]; simp) (by simp) (by simp)
    simp only [List.nil_append, sumL_cons, sumL_nil, Nat.add_zero] at hr
    rw [Nat.zero_add]
    exact hr
  unfold c39DecodeRow
  rw [hfind]

end Gzx.Image1DRev39
