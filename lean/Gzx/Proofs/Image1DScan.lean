/-
  wp imgpath1d — the glue lemmas of the composed image path:
  * the luminance source built from a picture hands `GetBlackRow` row `y` of the picture (as 0 / 255);
  * a picture whose rows are all one rendered row (white border pixels, a bar): every black row IS that row;
  * `decodeImage` (OneDReader.Decode) finds on the middle row what the row decoder finds there: upright (no
    orientation), or — first attempt refused with a reader exception — on the reversed row (ORIENTATION 180).
-/
import Gzx.Model.Image1D
import Gzx.Proofs.Image1DBin
import Gzx.Proofs.Image1DRender
import Gzx.Properties.C09
namespace Gzx.Image1DScan
open Gzx Gzx.Image1D Gzx.Luminance

theorem lumOfPixel_eq (b : Bool) : lumOfPixel b = Image1DBin.lumBit b := by cases b <;> decide

/-- a picture is well-formed: `h` rows of `w` pixels -/
structure Pic.WF (p : Pic) : Prop where
  nrows : p.rows.length = p.h
  width : ∀ r ∈ p.rows, r.length = p.w

theorem length_flatten_of (rows : List (List Nat)) (w : Nat) (h : ∀ r ∈ rows, r.length = w) :
    rows.flatten.length = w * rows.length := by
  induction rows with
  | nil => simp
  | cons r rs ih =>
    simp only [List.flatten_cons, List.length_append, List.length_cons]
    rw [ih (fun r' hr' => h r' (by simp [hr'])), h r (by simp), Nat.mul_succ]; omega

theorem ofPic_wf (binz : Binz) (p : Pic) (hp : Pic.WF p) : (Bitmap.ofPic binz p).src.WF := by
  unfold Bitmap.ofPic
  apply Properties.C17.ofLuminances_wf
  · rw [List.length_map]
    have := length_flatten_of (p.rows.map (List.map (fun (b : Bool) => (0 : Nat)))) p.w (by
      intro r hr
      obtain ⟨r', hr', rfl⟩ := List.mem_map.mp hr
      simp [hp.width r' hr'])
    have e : p.rows.flatten.length = (p.rows.map (List.map (fun (b : Bool) => (0 : Nat)))).flatten.length := by
      rw [← List.map_flatten, List.length_map]
    rw [e, this, List.length_map, hp.nrows]
  · intro q hq
    obtain ⟨b, _, rfl⟩ := List.mem_map.mp hq
    cases b <;> decide

/-- **GetBlackRow on the source built from a picture** = the row method on that picture row's luminances -/
theorem getBlackRow_ofPic (binz : Binz) (p : Pic) (hp : Pic.WF p) (y : Nat) (hy : y < p.h) (r : List Bool)
    (hr : p.rows[y]? = some r) :
    (Bitmap.ofPic binz p).getBlackRow y = Binarizer.blackRow (r.map Image1DBin.lumBit) := by
  have hwf := ofPic_wf binz p hp
  have hh : (Bitmap.ofPic binz p).src.h = p.h := rfl
  unfold Bitmap.getBlackRow Luminance.getRow
  rw [baseGetRow_ok _ hwf y (by rw [hh]; exact hy) none]
  have hinv : (Bitmap.ofPic binz p).src.inv = false := rfl
  simp only [bind, Except.bind, hinv, Bool.false_eq_true, if_false, bufTail, List.append_nil]
  congr 1
  -- row y of the flat array
  have hrows : ∀ r' ∈ p.rows.map (List.map lumOfPixel), r'.length = p.w := by
    intro r' hr'
    obtain ⟨r'', hr'', rfl⟩ := List.mem_map.mp hr'
    simp [hp.width r'' hr'']
  have hun := unflatten (p.rows.map (List.map lumOfPixel)) p.w hrows
  have hy' : y < (p.rows.map (List.map lumOfPixel)).length := by simp [hp.nrows, hy]
  have := congrArg (fun l => l[y]?) hun
  simp only [List.getElem?_map, List.getElem?_range hy', Option.map_some, hr] at this
  simp only [View.baseRow, Bitmap.ofPic, ofLuminances, Nat.add_zero, List.map_flatten]
  have e := Option.some.inj this
  rw [e]
  apply List.map_congr_left
  intro b _
  exact lumOfPixel_eq b

/-- `h` copies of one row -/
def uniform (row : List Bool) (h : Nat) : Pic := ⟨row.length, h, List.replicate h row⟩

theorem uniform_wf (row : List Bool) (h : Nat) : Pic.WF (uniform row h) :=
  ⟨by simp [uniform], by intro r hr; simp only [uniform] at hr ⊢; rw [(List.mem_replicate.mp hr).2]⟩

/-- every black row of a picture of identical rendered rows is that row -/
theorem getBlackRow_uniform (binz : Binz) (row : List Bool) (h y : Nat) (hy : y < h)
    (hfirst : row.head? = some false) (hlast : row.getLast? = some false) (hbar : true ∈ row) :
    (Bitmap.ofPic binz (uniform row h)).getBlackRow y = .ok row := by
  rw [getBlackRow_ofPic binz _ (uniform_wf row h) y hy row (by simp [uniform, hy])]
  exact Image1DBin.blackRow_bits row hfirst hlast hbar

/-- the BitMatrix the 1-D renderer returns, as a picture, is `max 1 height` copies of `renderRow` -/
theorem ofImage_render1D (code : List Bool) (hn : 1 ≤ code.length) (width height margin : Nat) :
    ∃ img row, Render.render1D code (width : Int) (height : Int) (margin : Int) = .ok img ∧
      OneD.renderRow code width margin = .ok row ∧ Pic.ofImage img = uniform row (max 1 height) := by
  obtain ⟨img, row, himg, hrow, hw, hh, hrows⟩ := Image1DRender.render1D_rows code hn width height margin
  refine ⟨img, row, himg, hrow, ?_⟩
  have hlen : row.length = max width (code.length + margin) := by
    rw [OneD.renderRow_padded code width margin (by omega)] at hrow
    cases hrow
    rw [Image1DRender.length_paddedRow]
    generalize hW : max width (code.length + margin) = W
    generalize hS : W / (code.length + margin) = s
    have hle : s * (code.length + margin) ≤ W := by rw [← hS]; exact Nat.div_mul_le_self _ _
    rw [Nat.mul_add] at hle
    have : code.length * s = s * code.length := Nat.mul_comm _ _
    omega
  unfold Pic.ofImage uniform
  rw [hw, hh, hlen]
  simp only [Int.toNat_natCast, Pic.mk.injEq, true_and]
  unfold Render.Image.rows
  rw [hh, Int.toNat_natCast]
  apply List.ext_getElem?
  intro i
  by_cases hi : i < max 1 height
  · rw [List.getElem?_map, List.getElem?_range hi, List.getElem?_replicate, if_pos hi]
    simp only [Option.map_some]
    rw [hrows (i : Int) (by omega) (by rw [hh]; omega)]
  · rw [List.getElem?_eq_none (by simpa using hi), List.getElem?_eq_none (by simpa using hi)]

/-! ## the scan -/

theorem blackOf_ok (b : Bitmap) (rn : Nat) (bits : List Bool) (h : b.getBlackRow rn = .ok bits) : blackOf b rn = true := by
  simp [blackOf, h]

/-- found upright on the middle row (the first row `doDecode` looks at): no orientation, whatever TRY_HARDER -/
theorem decodeImage_middle_upright {R : Type} (rd : Int → List Bool → Res R) (b : Bitmap) (th : Bool)
    (hh : 0 < b.src.h) (bits : List Bool) (hbits : b.getBlackRow (b.src.h / 2) = .ok bits)
    (res : R) (hres : rd ((b.src.h / 2 : Nat) : Int) bits = .ok res) :
    decodeImage rd b th = .ok ⟨res, b.src.h / 2, false, false, none⟩ := by
  have hatt : attempt rd b (b.src.h / 2) false = .ok res := by
    simp only [attempt, hbits, Bool.false_eq_true, if_false]; exact hres
  have hdec : decOf rd b (b.src.h / 2) false = .ok ⟨attemptKey (b.src.h / 2) false, none, []⟩ := by
    simp [decOf, hatt]
  have hscan := Properties.C09.upright_middle_row b.src.w b.src.h th (blackOf b) (decOf rd b) hh
    (blackOf_ok b _ bits hbits) _ hdec
  have hfetch : ∀ b', fetch rd b b' ⟨attemptKey (b.src.h / 2) false, none, []⟩ =
      .ok ⟨res, b.src.h / 2, false, false, none⟩ := by
    intro b'
    have h1 : attemptKey (b.src.h / 2) false / 2 = b.src.h / 2 := by simp [attemptKey]
    have h2 : (attemptKey (b.src.h / 2) false % 2 == 1) = false := by simp [attemptKey]
    simp only [fetch, isRotated, h1, h2, Bool.false_eq_true, if_false, hatt]
  unfold decodeImage
  simp only []
  cases b.rotate with
  | error e => simp only [hscan]; exact hfetch b
  | ok b' =>
    simp only [OneDScan.decode, hscan]
    exact hfetch b'

/-- refused on the middle row as it is (reader exception), found on the reversed middle row: ORIENTATION 180 -/
theorem decodeImage_middle_reversed {R : Type} (rd : Int → List Bool → Res R) (b : Bitmap) (th : Bool)
    (hh : 0 < b.src.h) (bits : List Bool) (hbits : b.getBlackRow (b.src.h / 2) = .ok bits)
    (e : Fault) (he : OneDScan.isReaderException e = true)
    (hfail : rd ((b.src.h / 2 : Nat) : Int) bits = .error e)
    (res : R) (hres : rd ((b.src.h / 2 : Nat) : Int) bits.reverse = .ok res) :
    decodeImage rd b th = .ok ⟨res, b.src.h / 2, true, false, some 180⟩ := by
  have hatt0 : attempt rd b (b.src.h / 2) false = .error e := by
    simp only [attempt, hbits, Bool.false_eq_true, if_false]; exact hfail
  have hatt : attempt rd b (b.src.h / 2) true = .ok res := by
    simp only [attempt, hbits, if_true]; exact hres
  have hdec0 : decOf rd b (b.src.h / 2) false = .error e := by simp [decOf, hatt0]
  have hdec : decOf rd b (b.src.h / 2) true = .ok ⟨attemptKey (b.src.h / 2) true, none, []⟩ := by
    simp [decOf, hatt]
  have hscan := Properties.C09.reversed_middle_row_gives_180 b.src.w b.src.h th (blackOf b) (decOf rd b) hh
    (blackOf_ok b _ bits hbits) e he hdec0 _ hdec
  have hfetch : ∀ b', fetch rd b b'
      { (⟨attemptKey (b.src.h / 2) true, none, []⟩ : OneDScan.Hit) with
        orientation := some 180, points := OneDScan.flipPoints b.src.w [] } =
      .ok ⟨res, b.src.h / 2, true, false, some 180⟩ := by
    intro b'
    have h1 : attemptKey (b.src.h / 2) true / 2 = b.src.h / 2 := by simp [attemptKey]; omega
    have h2 : (attemptKey (b.src.h / 2) true % 2 == 1) = true := by simp [attemptKey]
    simp only [fetch, isRotated, h1, h2, Bool.false_eq_true, if_false, hatt]
  unfold decodeImage
  simp only []
  cases b.rotate with
  | error e' => simp only [hscan]; exact hfetch b
  | ok b' =>
    simp only [OneDScan.decode, hscan]
    exact hfetch b'

/-- the first attempt on the middle row fails with something that is not a reader exception: returned at once -/
theorem decodeImage_middle_abort {R : Type} (rd : Int → List Bool → Res R) (b : Bitmap) (th : Bool)
    (hh : 0 < b.src.h) (bits : List Bool) (hbits : b.getBlackRow (b.src.h / 2) = .ok bits)
    (e : Fault) (he : OneDScan.isReaderException e = false)
    (hfail : rd ((b.src.h / 2 : Nat) : Int) bits = .error e) :
    decodeImage rd b th = .error e := by
  have hatt0 : attempt rd b (b.src.h / 2) false = .error e := by
    simp only [attempt, hbits, Bool.false_eq_true, if_false]; exact hfail
  have hdec0 : decOf rd b (b.src.h / 2) false = .error e := by simp [decOf, hatt0]
  have hscan : OneDScan.doDecode b.src.w b.src.h th (blackOf b) (decOf rd b) = .error e := by
    unfold OneDScan.doDecode
    have hml : OneDScan.maxLinesOf b.src.h th = (OneDScan.maxLinesOf b.src.h th - 1) + 1 := by
      unfold OneDScan.maxLinesOf; split <;> omega
    rw [hml]
    simp only [OneDScan.scanLoop, OneDScan.rowAt]
    have hr : ((b.src.h / 2 : Nat) : Int) + ((OneDScan.rowStepOf b.src.h th : Nat) : Int) * (((0 + 1) / 2 : Nat) : Int)
        = ((b.src.h / 2 : Nat) : Int) := by simp
    have hin : ¬ (((b.src.h / 2 : Nat) : Int) < 0 ∨ ((b.src.h / 2 : Nat) : Int) ≥ (b.src.h : Int)) := by omega
    simp only [if_true, hr, hin, if_false, Int.toNat_natCast, blackOf_ok b _ bits hbits, Bool.not_true,
      Bool.false_eq_true, OneDScan.scanRow, hdec0, he, Bool.not_false]
  have hne : e ≠ .notFound := by intro h; subst h; simp [OneDScan.isReaderException] at he
  unfold decodeImage
  simp only []
  cases b.rotate with
  | error e' =>
    simp only [hscan]
  | ok b' =>
    simp only [OneDScan.decode, hscan, hne, ne_eq, not_false_eq_true, if_true]

/-! ## `readImage` is the scan over `rowRead` -/

def Found.map {R S : Type} (g : R → S) (f : Found R) : Found S := ⟨g f.res, f.row, f.reversed, f.rotated, f.orientation⟩

theorem attempt_map {R S : Type} (g : R → S) (rd : Int → List Bool → Res R) (b : Bitmap) (rn : Nat) (rev : Bool) :
    attempt (fun rn row => (rd rn row).map g) b rn rev = (attempt rd b rn rev).map g := by
  unfold attempt
  cases b.getBlackRow rn <;> rfl

theorem decOf_map {R S : Type} (g : R → S) (rd : Int → List Bool → Res R) (b : Bitmap) :
    decOf (fun rn row => (rd rn row).map g) b = decOf rd b := by
  funext rn rev
  unfold decOf
  rw [attempt_map]
  cases attempt rd b rn rev <;> rfl

theorem fetch_map {R S : Type} (g : R → S) (rd : Int → List Bool → Res R) (b b' : Bitmap) (h : OneDScan.Hit) :
    fetch (fun rn row => (rd rn row).map g) b b' h = (fetch rd b b' h).map (Found.map g) := by
  unfold fetch
  simp only [attempt_map]
  cases attempt rd (if isRotated h = true then b' else b) (h.text / 2) (h.text % 2 == 1) <;> rfl

/-- mapping the row decoder's results maps the result of `Decode` -/
theorem decodeImage_map {R S : Type} (g : R → S) (rd : Int → List Bool → Res R) (b : Bitmap) (th : Bool) :
    decodeImage (fun rn row => (rd rn row).map g) b th = (decodeImage rd b th).map (Found.map g) := by
  unfold decodeImage
  simp only [decOf_map, fetch_map]
  cases b.rotate with
  | error e =>
    simp only []
    cases OneDScan.doDecode b.src.w b.src.h th (blackOf b) (decOf rd b) with
    | ok hit => rfl
    | error e' =>
      cases e' <;> simp only [] <;> try rfl
      split <;> rfl
  | ok b' =>
    simp only []
    cases OneDScan.decode b.src.w b.src.h th (isRotateSupported b.src) (blackOf b) (decOf rd b) (blackOf b') (decOf rd b') <;> rfl

/-- **`readImage` = scan over `rowRead` (of the scanning reader), then `finishRead`** -/
theorem readImage_generic (E : Env) (sym : Sym) (ext39 : Bool) (b : Bitmap) (th : Bool) :
    readImage E sym ext39 b th =
      match decodeImage (rowRead E ext39 (scanSym sym)) b th with
      | .error e => .error e
      | .ok f =>
        match finishRead sym f.res with
        | .error e => .error e
        | .ok r => .ok ⟨r.1, r.2, f.row, f.reversed, f.rotated, f.orientation⟩ := by
  cases sym
  case upca =>
    simp only [readImage, scanSym]
    have : rowRead E ext39 .ean13 = fun rn row => (upcRow E .ean13 rn row).map (fun r => (Sym.ofEan r.format, r.text)) := by
      funext rn row; rfl
    rw [this, decodeImage_map]
    cases decodeImage (upcRow E .ean13) b th with
    | error e => rfl
    | ok f =>
      simp only [Except.map, Found.map, finishRead, OneDRowExt.maybeReturnResult]
      cases f.res.text with
      | nil => rfl
      | cons c rest =>
        by_cases hc : c = 48 <;> simp [hc, readOfUpc, Sym.ofEan]
  case ean13 =>
    simp only [readImage, scanSym]
    have : rowRead E ext39 .ean13 = fun rn row => (upcRow E .ean13 rn row).map (fun r => (Sym.ofEan r.format, r.text)) := by
      funext rn row; rfl
    rw [this, decodeImage_map]
    cases decodeImage (upcRow E .ean13) b th <;> rfl
  case ean8 =>
    simp only [readImage, scanSym]
    have : rowRead E ext39 .ean8 = fun rn row => (upcRow E .ean8 rn row).map (fun r => (Sym.ofEan r.format, r.text)) := by
      funext rn row; rfl
    rw [this, decodeImage_map]
    cases decodeImage (upcRow E .ean8) b th <;> rfl
  case upce =>
    simp only [readImage, scanSym]
    have : rowRead E ext39 .upce = fun rn row => (upcRow E .upce rn row).map (fun r => (Sym.ofEan r.format, r.text)) := by
      funext rn row; rfl
    rw [this, decodeImage_map]
    cases decodeImage (upcRow E .upce) b th <;> rfl
  case code128 =>
    simp only [readImage, scanSym]
    have : rowRead E ext39 .code128 = fun rn row =>
        ((fun (_ : Int) row => Row128.decodeRow Row128.exactDom E.T.code128 row false) rn row).map (fun o => (Sym.code128, o.text)) := by
      funext rn row; rfl
    rw [this, decodeImage_map]
    cases decodeImage (fun (_ : Int) row => Row128.decodeRow Row128.exactDom E.T.code128 row false) b th <;> rfl
  case itf =>
    simp only [readImage, scanSym]
    have : rowRead E ext39 .itf = fun rn row =>
        ((fun (_ : Int) row => RowITF.decodeRow Row128.exactDom E.I row none) rn row).map (fun o => (Sym.itf, o.text)) := by
      funext rn row; rfl
    rw [this, decodeImage_map]
    cases decodeImage (fun (_ : Int) row => RowITF.decodeRow Row128.exactDom E.I row none) b th <;> rfl
  case code39 =>
    simp only [readImage, scanSym]
    have : rowRead E ext39 .code39 = fun rn row =>
        ((fun (_ : Int) row => Row39.c39DecodeRow E.T false ext39 row) rn row).map (fun o => (Sym.code39, o.text)) := by
      funext rn row; rfl
    rw [this, decodeImage_map]
    cases decodeImage (fun (_ : Int) row => Row39.c39DecodeRow E.T false ext39 row) b th <;> rfl
  case code93 =>
    simp only [readImage, scanSym]
    have : rowRead E ext39 .code93 = fun rn row =>
        ((fun (_ : Int) row => Row39.c93DecodeRow E.T row) rn row).map (fun o => (Sym.code93, o.text)) := by
      funext rn row; rfl
    rw [this, decodeImage_map]
    cases decodeImage (fun (_ : Int) row => Row39.c93DecodeRow E.T row) b th <;> rfl
  case codabar =>
    simp only [readImage, scanSym]
    have : rowRead E ext39 .codabar = fun rn row =>
        ((fun (_ : Int) row => Row39.cbDecodeRow E.T false row) rn row).map (fun o => (Sym.codabar, o.text)) := by
      funext rn row; rfl
    rw [this, decodeImage_map]
    cases decodeImage (fun (_ : Int) row => Row39.cbDecodeRow E.T false row) b th <;> rfl

end Gzx.Image1DScan
