/-
  wp imgpath1d — the sideways pose: a rendered 1-D image turned by 90° clockwise.
  * every pixel row of the turned picture has ONE colour: `GetBlackRow` answers NotFound on a black row (a single
    histogram peak fails the contrast test) and NotFound or an all-white row on a white one;
  * so the upright scan of `OneDReader.Decode` finds nothing, provided the row decoder refuses all-white rows;
  * `RotateCounterClockwise` of the turned picture's bitmap IS the bitmap of the original picture;
  * with TRY_HARDER the rotated scan then finds the symbol on its middle row: ORIENTATION 270.
-/
import Gzx.Proofs.Image1DPath
namespace Gzx.Image1DSide
open Gzx Gzx.Image1D Gzx.Image1DScan Gzx.Image1DBin Gzx.Luminance Gzx.Binarizer

/-! ## one-colour rows -/

theorem countP_replicate_self (H : Nat) (c : Bool) : (List.replicate H c).countP (· == c) = H := by
  induction H with
  | zero => rfl
  | succ n ih => simp [List.replicate_succ, ih]

theorem countP_replicate_other (H : Nat) (c : Bool) : (List.replicate H c).countP (· == !c) = 0 := by
  induction H with
  | zero => rfl
  | succ n ih => rw [List.replicate_succ, List.countP_cons, ih]; cases c <;> rfl

/-- a single populated bucket 0: both peaks are bucket 0, the contrast test fails -/
theorem estimateBlackPoint_black (n : Nat) : estimateBlackPoint (twoPeaks n 0) = .error .notFound := by
  have hlen : (twoPeaks n 0).length = 32 := by simp [twoPeaks]
  unfold estimateBlackPoint
  simp only [hlen, indexed_twoPeaks, List.map_cons, List.map_append, List.map_map, List.map_nil]
  rw [argmax_peaks (n : Int) ((0 : Nat) : Int) (by omega) _ (by
    intro p hp
    obtain ⟨i, _, rfl⟩ := List.mem_map.mp hp
    simp only [Function.comp]; omega)]
  rw [if_neg (show ¬ (((0 : Nat) : Int) > (n : Int)) by omega)]
  simp only []
  rw [argmax_peaks _ _ (by omega) _ (by
    intro p hp
    obtain ⟨i, _, rfl⟩ := List.mem_map.mp hp
    simp only [Function.comp, Nat.zero_mul]; omega)]
  have hq' : sqDist 0 0 = 0 := by decide
  rw [hq']
  simp only [Nat.mul_zero, Nat.zero_mul]
  rw [if_neg (show ¬ (((0 : Nat) : Int) > ((0 : Nat) : Int)) by omega)]
  simp

/-- `GetBlackRow` on a black row: NotFound -/
theorem blackRow_black (H : Nat) : blackRow ((List.replicate H true).map lumBit) = .error .notFound := by
  unfold blackRow
  rw [histogram_bits]
  have h1 := countP_replicate_self H true
  have h2 := countP_replicate_other H true
  simp only [Bool.not_true] at h2
  rw [h1, h2, estimateBlackPoint_black]

/-- `GetBlackRow` on a white row: NotFound, or the all-white row -/
theorem blackRow_white (H : Nat) :
    blackRow ((List.replicate H false).map lumBit) = .error .notFound ∨
    blackRow ((List.replicate H false).map lumBit) = .ok (List.replicate H false) := by
  have hbi : ∀ p ∈ (List.replicate H false).map lumBit, p = 0 ∨ p = 255 := by
    intro p hp
    obtain ⟨b, _, rfl⟩ := List.mem_map.mp hp
    cases b <;> simp [lumBit]
  rcases Properties.C17.blackRow_bilevel _ hbi with h | ⟨bits, hb, hlen, hpx⟩
  · left; exact h
  · right
    rw [hb]
    congr 1
    simp only [List.length_map, List.length_replicate] at hlen hpx
    apply List.ext_getElem?
    intro i
    by_cases hi : i < H
    · rw [hpx i hi]
      simp [lumBit, hi]
    · rw [List.getElem?_eq_none (by omega), List.getElem?_eq_none (by simp; omega)]

/-! ## the turned picture -/

theorem rot90_uniform (row : List Bool) (H : Nat) :
    (uniform row H).rot90 = ⟨H, row.length, row.map (fun c => List.replicate H c)⟩ := by
  unfold Pic.rot90 uniform
  simp only [Pic.mk.injEq, true_and, List.reverse_replicate]
  apply List.ext_getElem?
  intro y
  by_cases hy : y < row.length
  · rw [List.getElem?_map, List.getElem?_range hy, List.getElem?_map, List.getElem?_eq_getElem hy]
    simp only [Option.map_some, Option.some.injEq]
    induction H with
    | zero => rfl
    | succ n ih => rw [List.replicate_succ, List.filterMap_cons, List.getElem?_eq_getElem hy, ih, List.replicate_succ]
  · rw [List.getElem?_eq_none (by simpa using hy), List.getElem?_eq_none (by simpa using hy)]

theorem side_wf (row : List Bool) (H : Nat) : Pic.WF (uniform row H).rot90 := by
  rw [rot90_uniform]
  exact ⟨by simp, by intro r hr; obtain ⟨c, _, rfl⟩ := List.mem_map.mp hr; simp⟩

/-- `GetBlackRow` on any row of the turned picture: NotFound or an all-white row -/
theorem getBlackRow_side (binz : Binz) (row : List Bool) (H : Nat) (y : Nat) (hy : y < row.length) :
    (Bitmap.ofPic binz (uniform row H).rot90).getBlackRow y = .error .notFound ∨
    (Bitmap.ofPic binz (uniform row H).rot90).getBlackRow y = .ok (List.replicate H false) := by
  have hr : (uniform row H).rot90.rows[y]? = some (List.replicate H row[y]) := by
    rw [rot90_uniform]; simp [hy]
  have hh : (uniform row H).rot90.h = row.length := by rw [rot90_uniform]
  rw [getBlackRow_ofPic binz _ (side_wf row H) y (by rw [hh]; exact hy) _ hr]
  cases row[y] with
  | true => left; exact blackRow_black H
  | false => exact blackRow_white H

/-! ## a scan that finds nothing -/

theorem scanLoop_all_next (width height : Nat) (black : Nat → Bool) (dec : Nat → Bool → Res OneDScan.Hit)
    (middle rowStep : Nat)
    (hrows : ∀ y, y < height → black y = false ∨
      ∃ e e', OneDScan.isReaderException e = true ∧ OneDScan.isReaderException e' = true ∧
        dec y false = .error e ∧ dec y true = .error e') :
    ∀ fuel x, OneDScan.scanLoop width height black dec middle rowStep fuel x = .error .notFound := by
  intro fuel
  induction fuel with
  | zero => intro x; rfl
  | succ n ih =>
    intro x
    unfold OneDScan.scanLoop
    simp only []
    split
    · rfl
    · rename_i hin
      have hlt : (OneDScan.rowAt middle rowStep x).toNat < height := by omega
      rcases hrows _ hlt with hb | ⟨e, e', he, he', h0, h1⟩
      · simp only [hb, Bool.not_false, if_true]; exact ih (x + 1)
      · cases hbl : black (OneDScan.rowAt middle rowStep x).toNat with
        | false => simp only [Bool.not_false, if_true]; exact ih (x + 1)
        | true =>
          simp only [Bool.not_true, Bool.false_eq_true, if_false, OneDScan.scanRow, h0, he, h1, he']
          exact ih (x + 1)

/-! ## RotateCounterClockwise of the turned picture -/

theorem getElem?_flatten_uniform {α : Type} (L : List (List α)) (h : Nat) (hL : ∀ r ∈ L, r.length = h)
    (i k : Nat) (hk : k < h) : L.flatten[i * h + k]? = (L[i]?).bind (fun r => r[k]?) := by
  induction L generalizing i with
  | nil => simp
  | cons r rs ih =>
    have hr := hL r (by simp)
    cases i with
    | zero =>
      simp only [Nat.zero_mul, Nat.zero_add, List.flatten_cons, List.getElem?_cons_zero, Option.bind_some]
      rw [List.getElem?_append_left (by omega)]
    | succ j =>
      simp only [List.flatten_cons, List.getElem?_cons_succ]
      rw [List.getElem?_append_right (by rw [hr, Nat.succ_mul]; omega)]
      have : (j + 1) * h + k - r.length = j * h + k := by rw [hr, Nat.succ_mul]; omega
      rw [this]
      exact ih (fun r' hr' => hL r' (by simp [hr'])) j

/-- **the bitmap of the turned picture, rotated counter-clockwise, IS the bitmap of the picture** -/
theorem rotate_side (binz : Binz) (row : List Bool) (H : Nat) :
    (Bitmap.ofPic binz (uniform row H).rot90).rotate = .ok (Bitmap.ofPic binz (uniform row H)) := by
  rw [rot90_uniform]
  unfold Bitmap.rotate Bitmap.ofPic rotateCCW
  simp only [ofLuminances]
  -- every row of the rotated copy is the original row
  have hrow : ∀ j ∈ List.range H,
      rotRow { kind := Kind.img, data := ((row.map (fun c => List.replicate H c)).flatten.map lumOfPixel), dataW := H,
               dataH := row.length, left := 0, top := 0, w := H, h := row.length, inv := false } j =
        .ok (row.map lumOfPixel) := by
    intro j hj
    have hjH : j < H := List.mem_range.mp hj
    unfold rotRow
    simp only [Nat.zero_add]
    have hm := mapME_eq_map
      (fun i => idx ((row.map (fun c => List.replicate H c)).flatten.map lumOfPixel) (i * H + (H - 1 - j)))
      (fun i => lumOfPixel (row.getD i false)) (List.range row.length) (by
        intro i hi
        have hiW : i < row.length := List.mem_range.mp hi
        unfold idx
        rw [List.getElem?_map, getElem?_flatten_uniform _ H (by
          intro r hr; obtain ⟨c, _, rfl⟩ := List.mem_map.mp hr; simp) i (H - 1 - j) (by omega)]
        simp [hiW, List.getElem?_replicate, show H - 1 - j < H by omega])
    rw [hm]
    congr 1
    apply List.ext_getElem?
    intro i
    by_cases hi : i < row.length
    · simp [hi]
    · simp [hi]
  have hall := mapME_eq_map
    (rotRow { kind := Kind.img, data := ((row.map (fun c => List.replicate H c)).flatten.map lumOfPixel), dataW := H,
               dataH := row.length, left := 0, top := 0, w := H, h := row.length, inv := false })
    (fun _ => row.map lumOfPixel) (List.range H) hrow
  simp only [hall, bind, Except.bind]
  congr 2
  simp only [uniform, View.mk.injEq, true_and, and_true]
  rw [List.map_flatten]
  congr 1
  apply List.ext_getElem?
  intro i
  by_cases hi : i < H
  · simp [hi]
  · simp [hi]

/-! ## the sideways read -/

/-- turned by 90° clockwise, read with TRY_HARDER: the upright scan finds nothing, the rotated scan finds the symbol on
    its middle row; ORIENTATION 270 -/
theorem decodeImage_sideways {R : Type} (rd : Int → List Bool → Res R) (binz : Binz) (row : List Bool) (H : Nat)
    (hH : 0 < H) (hfirst : row.head? = some false) (hlast : row.getLast? = some false) (hbar : true ∈ row)
    (hwhite : ∀ (N : Nat) (rn : Int), ∃ e, OneDScan.isReaderException e = true ∧ rd rn (List.replicate N false) = .error e)
    (res : R) (hres : rd ((H / 2 : Nat) : Int) row = .ok res) :
    decodeImage rd (Bitmap.ofPic binz (uniform row H).rot90) true = .ok ⟨res, H / 2, false, true, some 270⟩ := by
  have hw : (Bitmap.ofPic binz (uniform row H).rot90).src.w = H := by rw [rot90_uniform]; rfl
  have hh : (Bitmap.ofPic binz (uniform row H).rot90).src.h = row.length := by rw [rot90_uniform]; rfl
  have hw' : (Bitmap.ofPic binz (uniform row H)).src.w = row.length := rfl
  have hh' : (Bitmap.ofPic binz (uniform row H)).src.h = H := rfl
  -- the upright scan finds nothing
  have hup : OneDScan.doDecode H row.length true (blackOf (Bitmap.ofPic binz (uniform row H).rot90))
      (decOf rd (Bitmap.ofPic binz (uniform row H).rot90)) = .error .notFound := by
    unfold OneDScan.doDecode
    apply scanLoop_all_next
    intro y hy
    rcases getBlackRow_side binz row H y hy with hnf | hok
    · left; simp [blackOf, hnf]
    · right
      obtain ⟨e, he, hfail⟩ := hwhite H (y : Int)
      refine ⟨e, e, he, he, ?_, ?_⟩
      · simp only [decOf, attempt, hok, Bool.false_eq_true, if_false, hfail]
      · simp only [decOf, attempt, hok, if_true, List.reverse_replicate, hfail]
  -- the rotated scan finds the symbol on its middle row
  have hbits := getBlackRow_uniform binz row H (H / 2) (by omega) hfirst hlast hbar
  have hatt : attempt rd (Bitmap.ofPic binz (uniform row H)) (H / 2) false = .ok res := by
    simp only [attempt, hbits, Bool.false_eq_true, if_false]; exact hres
  have hdec : decOf rd (Bitmap.ofPic binz (uniform row H)) (H / 2) false = .ok ⟨attemptKey (H / 2) false, none, []⟩ := by
    simp [decOf, hatt]
  have hrot := Properties.C09.upright_middle_row row.length H true (blackOf (Bitmap.ofPic binz (uniform row H)))
    (decOf rd (Bitmap.ofPic binz (uniform row H))) hH (blackOf_ok _ _ row hbits) _ hdec
  have hdecode := Properties.C09.tryharder_rotation H row.length _ _ _ _ hup _ hrot
  unfold decodeImage
  simp only [rotate_side, hw, hh]
  have hsup : isRotateSupported (Bitmap.ofPic binz (uniform row H).rot90).src = true := rfl
  rw [hsup, hdecode]
  have h1 : attemptKey (H / 2) false / 2 = H / 2 := by simp [attemptKey]
  have h2 : (attemptKey (H / 2) false % 2 == 1) = false := by simp [attemptKey]
  simp only [fetch, isRotated, OneDScan.rotOrientation, h1, h2, if_true, hatt]

end Gzx.Image1DSide
