/-
  wp imgpath1d — run-level view of the start-pattern search `starLoop` (Code 39 / Code 93 `findAsteriskPattern`):
  on a row given by its run lengths the pixel loop is `fill`, which looks at one window of `n` runs after the other
  (shifting by two runs on a reject) and needs one more run after the window to evaluate it.
-/
import Gzx.Proofs.Row39Read
namespace Gzx.Image1DStar
open Gzx Gzx.OneD Gzx.Row39

/-- `pre` = completed counters of the window, `K` = the run being counted (complete), `zs` = counters still to fill,
    `R` = the runs that follow, `x` = pixel index after run `K`, `ps` = patternStart -/
def fill (acc : List Nat → Nat → Nat → Res Bool) :
    List Nat → Nat → List Nat → List Nat → Nat → Nat → Res (Nat × Nat)
  | _, _, _, [], _, _ => .error .notFound
  | pre, K, [], w :: R, x, ps =>
    match acc (pre ++ [K]) ps x with
    | .error e => .error e
    | .ok true => .ok (ps, x)
    | .ok false =>
      match pre ++ [K] with
      | c0 :: c1 :: tl => fill acc tl w [0] R (x + w) (ps + c0 + c1)
      | _ => .error (.panic "index out of range: counters[1]")
  | pre, K, _ :: zs, w :: R, x, ps => fill acc (pre ++ [K]) w zs R (x + w) ps

theorem starLoop_fill (acc : List Nat → Nat → Nat → Res Bool) (R : List Nat) :
    ∀ (pre : List Nat) (k m : Nat) (zs : List Nat) (col : Bool) (x ps : Nat), (∀ r ∈ R, 0 < r) →
    starLoop acc (List.replicate m col ++ appendPattern R (!col)) x (pre ++ k :: zs) pre.length ps (!col)
      = fill acc pre (k + m) zs R (x + m) ps := by
  induction R with
  | nil =>
    intro pre k m zs col x ps _
    rw [starLoop_same]
    cases zs <;> simp [appendPattern, starLoop, fill]
  | cons w R ih =>
    intro pre k m zs col x ps hpos
    have hw : 0 < w := hpos w (by simp)
    have hR : ∀ r ∈ R, 0 < r := fun r hr => hpos r (by simp [hr])
    obtain ⟨w', rfl⟩ : ∃ w', w = w' + 1 := ⟨w - 1, by omega⟩
    rw [starLoop_same]
    have hc : ((!col) != !col) = false := by cases col <;> rfl
    cases zs with
    | nil =>
      have hl : pre.length + 1 = (pre ++ [k + m]).length := by simp
      simp only [appendPattern, List.replicate_succ, List.cons_append, starLoop, hc, Bool.false_eq_true, if_false,
        hl, if_true, fill]
      cases hacc : acc (pre ++ [k + m]) ps (x + m) with
      | error e => rfl
      | ok b =>
        cases b with
        | true => rfl
        | false =>
          simp only []
          cases hcs : pre ++ [k + m] with
          | nil => rfl
          | cons c0 rest =>
            cases rest with
            | nil => rfl
            | cons c1 tl =>
              simp only []
              have htl : (pre ++ [k + m]).length - 1 - 1 = tl.length := by rw [hcs]; simp
              have hpl : pre.length - 1 = tl.length := by
                have := congrArg List.length hcs
                simp at this; omega
              have := ih tl 1 w' [0] (!col) (x + m + 1) (ps + c0 + c1) hR
              simp only [Bool.not_not] at this
              simp only [Bool.not_not]
              rw [hpl, this]
              congr 1 <;> omega
    | cons z zs' =>
      have hl : ¬ pre.length + 1 = (pre ++ (k + m) :: z :: zs').length := by simp
      have hl2 : pre.length + 1 < (pre ++ (k + m) :: z :: zs').length := by simp
      simp only [appendPattern, List.replicate_succ, List.cons_append, starLoop, hc, Bool.false_eq_true, if_false,
        hl, hl2, if_true, fill]
      have hset : (pre ++ (k + m) :: z :: zs').set (pre.length + 1) 1 = (pre ++ [k + m]) ++ 1 :: zs' := by
        rw [List.set_append_right _ _ (by omega)]
        simp
      have hpl : pre.length + 1 = (pre ++ [k + m]).length := by simp
      rw [hset, hpl]
      have := ih (pre ++ [k + m]) 1 w' zs' (!col) (x + m + 1) ps hR
      simp only [Bool.not_not] at this ⊢
      rw [this]
      congr 1 <;> omega

end Gzx.Image1DStar
