/-
  wp imgpath1d — every one of the nine row decoders refuses a row without a single black pixel with NotFound
  (used by the sideways theorem: the pixel rows of a rendered symbol turned by 90° have one colour each).
-/
import Gzx.Proofs.Image1DSide
import Gzx.Properties.C03RowFull
import Gzx.Proofs.Row39Code93
import Gzx.Proofs.Row39Code39
namespace Gzx.Image1DWhite
open Gzx Gzx.Image1D Gzx.OneD

theorem white_all (N : Nat) : ∀ b ∈ List.replicate N false, b = false := fun _ hb => (List.mem_replicate.mp hb).2

theorem getNextSet_white (N : Nat) : getNextSet (List.replicate N false) 0 = N := by
  have := Row39.getNextSet_white _ (white_all N)
  simpa using this

theorem code128_white (P : List (List Nat)) (N : Nat) (gs1 : Bool) :
    Row128.decodeRow Row128.exactDom P (List.replicate N false) gs1 = .error .notFound := by
  unfold Row128.decodeRow Row128.findStartPattern
  simp only [getNextSet_white]
  rw [show (List.replicate N false).drop N = [] by simp]
  rfl

theorem code39_white (T : Tables) (ck ext : Bool) (N : Nat) :
    Row39.c39DecodeRow T ck ext (List.replicate N false) = .error .notFound := by
  unfold Row39.c39DecodeRow Row39.c39FindAsterisk
  simp only [getNextSet_white]
  rw [show (List.replicate N false).drop N = [] by simp]
  rfl

theorem code93_white (T : Tables) (hT : Row39.WF93Row T = true) (N : Nat) :
    Row39.c93DecodeRow T (List.replicate N false) = .error .notFound := by
  have f := Row39.wf93Facts T hT
  have hn : ∃ star, nth T.code93Enc 47 = .ok star := by
    unfold nth
    have : 47 < T.code93Enc.length := by rw [f.encLen]; omega
    rw [List.getElem?_eq_getElem this]
    exact ⟨_, rfl⟩
  obtain ⟨star, hs⟩ := hn
  unfold Row39.c93DecodeRow Row39.c93FindAsterisk
  rw [hs]
  simp only [getNextSet_white]
  rw [show (List.replicate N false).drop N = [] by simp]
  rfl

theorem itf_white (I : RowITF.ItfT) (N : Nat) (allowed : Option (List Int)) :
    RowITF.decodeRow Row128.exactDom I (List.replicate N false) allowed = .error .notFound := by
  unfold RowITF.decodeRow RowITF.decodeStart RowITF.skipWhiteSpace
  simp only [getNextSet_white, List.length_replicate, if_true]
  rfl

theorem cbCountLoop_white (N c : Nat) (acc : List Nat) :
    Row39.cbCountLoop (List.replicate N false) true c acc = ((c + N) :: acc).reverse := by
  induction N generalizing c with
  | zero => rfl
  | succ n ih =>
    rw [List.replicate_succ, Row39.cbCountLoop]
    simp only [bne_iff_ne, ne_eq, Bool.false_eq_true, not_false_eq_true, if_true]
    rw [ih]
    congr 2; omega

theorem codabar_white (T : Tables) (retSE : Bool) (N : Nat) :
    Row39.cbDecodeRow T retSE (List.replicate N false) = .error .notFound := by
  unfold Row39.cbDecodeRow Row39.cbScan Row39.cbSetCounters
  cases N with
  | zero => rfl
  | succ n =>
    have h0 : getNextUnset (List.replicate (n + 1) false) 0 = 0 := by simp [List.replicate_succ, getNextUnset]
    simp only [h0, List.length_replicate, List.drop_zero]
    rw [if_neg (by omega), cbCountLoop_white]
    simp [Row39.cbFindStart, Row39.cbFindStartLoop]

theorem upc_white (E : Env) (k : CheckDigit.EanKind) (rn : Int) (N : Nat) :
    upcRow E k rn (List.replicate N false) = .error .notFound := by
  have hg : OneD.findStartGuardPattern E.T (List.replicate N false) = .error .notFound := by
    unfold OneD.findStartGuardPattern
    simp only [findStartLoop, findGuardPattern, Bool.false_eq_true, if_false, getNextSet_white,
      List.length_replicate, Nat.min_self, guardLoop]
    rw [show (List.replicate N false).drop N = [] by simp]
    rfl
  unfold upcRow OneDRowExt.decodeRow
  rw [Proofs.OneDRowExtExact.findStartGuardPattern_exact, hg]
  rfl

/-- **every reader's `DecodeRow` refuses an all-white row with NotFound** (Code 93: for a well-formed table — the
    asterisk encoding is looked up first) -/
theorem rowRead_white (E : Env) (h93 : Row39.WF93Row E.T = true) (ext39 : Bool) (sym : Sym) (rn : Int) (N : Nat) :
    rowRead E ext39 sym rn (List.replicate N false) = .error .notFound := by
  cases sym <;> simp only [rowRead, upc_white, code128_white, code39_white, code93_white E.T h93, itf_white, codabar_white,
    Except.map]

/-! ## generic pose theorems that need the lemmas above -/

open Gzx.Image1DPath Gzx.Image1DScan Gzx.Image1DSide in
/-- sideways with TRY_HARDER: the same content, found by the rotated scan on its middle row, ORIENTATION 270 -/
theorem sideways_of_readable {E : Env} {sym : Sym} {ext39 : Bool} {contents : List Nat} {width height : Nat}
    {margin forced : Option Nat} {canonical : List Nat} {mods : List Bool} {m : Nat}
    (hR : Readable E sym ext39 contents width height margin forced canonical mods m)
    (h93 : Row39.WF93Row E.T = true) (binz : Binz) :
    imagePath E sym contents width height (margin.map Int.ofNat) forced .sideways binz ext39 true =
      .ok ⟨sym, canonical, max 1 height / 2, false, true, some 270⟩ := by
  have hn : 1 ≤ mods.length := List.length_pos_of_mem hR.bar
  obtain ⟨img, row, himg, hrow, hpic⟩ := ofImage_render1D mods hn width height m
  obtain ⟨lq, s, rq, hrow', hs, hmarg, hlq, _, hsW⟩ := rendered_geometry mods hn width m
  rw [hrow] at hrow'
  cases hrow'
  have h2s : 2 * s ≤ m * s := Nat.mul_le_mul_right s hR.margin_ge
  obtain ⟨hb1, hb2, hb3⟩ := paddedRow_border lq s rq mods hs (by omega) (by omega) hR.bar
  obtain ⟨t, hres, hP⟩ := hR.read lq s rq (((max 1 height) / 2 : Nat) : Int) hs hmarg hlq hsW
  have hdec := decodeImage_sideways (rowRead E ext39 (scanSym sym)) binz (paddedRow lq s rq mods) (max 1 height) (by omega)
    hb1 hb2 hb3 (fun N rn => ⟨.notFound, rfl, rowRead_white E h93 ext39 _ rn N⟩) t hres
  unfold imagePath
  rw [hR.write, himg]
  simp only [Pic.pose]
  rw [readImage_generic, hpic, hdec]
  simp only [hP]

open Gzx.Image1DPath Gzx.Image1DScan in
/-- upside down, in full generality: the outcome is decided by what the scanning reader's `DecodeRow` makes of the
    REVERSED rendered row (the first attempt of `doDecode` on the middle row): a result is returned as it is (upright,
    no orientation); a reader exception leads to the reversed-row retry, which reads the content with ORIENTATION 180;
    any other failure is returned. -/
theorem upside_down_outcome {E : Env} {sym : Sym} {ext39 : Bool} {contents : List Nat} {width height : Nat}
    {margin forced : Option Nat} {canonical : List Nat} {mods : List Bool} {m : Nat}
    (hR : Readable E sym ext39 contents width height margin forced canonical mods m) (binz : Binz) (th : Bool) :
    ∃ lq s rq, OneD.renderRow mods width m = .ok (paddedRow lq s rq mods) ∧
      imagePath E sym contents width height (margin.map Int.ofNat) forced .upsideDown binz ext39 th =
        match rowRead E ext39 (scanSym sym) ((max 1 height / 2 : Nat) : Int) (paddedRow lq s rq mods).reverse with
        | .ok t =>
          (match finishRead sym t with
           | .error e => .error e
           | .ok r => .ok ⟨r.1, r.2, max 1 height / 2, false, false, none⟩)
        | .error e =>
          if OneDScan.isReaderException e then .ok ⟨sym, canonical, max 1 height / 2, true, false, some 180⟩
          else .error e := by
  have hn : 1 ≤ mods.length := List.length_pos_of_mem hR.bar
  obtain ⟨img, row, himg, hrow, hpic⟩ := ofImage_render1D mods hn width height m
  obtain ⟨lq, s, rq, hrow', hs, hmarg, hlq, _, hsW⟩ := rendered_geometry mods hn width m
  refine ⟨lq, s, rq, hrow', ?_⟩
  rw [hrow] at hrow'
  cases hrow'
  have h2s : 2 * s ≤ m * s := Nat.mul_le_mul_right s hR.margin_ge
  obtain ⟨hb1, hb2, hb3⟩ := paddedRow_border lq s rq mods hs (by omega) (by omega) hR.bar
  obtain ⟨t, hres, hP⟩ := hR.read lq s rq (((max 1 height) / 2 : Nat) : Int) hs hmarg hlq hsW
  have hh : (Bitmap.ofPic binz (uniform (paddedRow lq s rq mods).reverse (max 1 height))).src.h = max 1 height := rfl
  have hr1 : (paddedRow lq s rq mods).reverse.head? = some false := by rw [List.head?_reverse]; exact hb2
  have hr2 : (paddedRow lq s rq mods).reverse.getLast? = some false := by rw [List.getLast?_reverse]; exact hb1
  have hr3 : true ∈ (paddedRow lq s rq mods).reverse := List.mem_reverse.mpr hb3
  have hbits := getBlackRow_uniform binz (paddedRow lq s rq mods).reverse (max 1 height) (max 1 height / 2) (by omega) hr1 hr2 hr3
  unfold imagePath
  rw [hR.write, himg]
  simp only [Pic.pose]
  rw [readImage_generic, hpic, uniform_rot180]
  cases hfirst : rowRead E ext39 (scanSym sym) ((max 1 height / 2 : Nat) : Int) (paddedRow lq s rq mods).reverse with
  | ok t' =>
    have := decodeImage_middle_upright (rowRead E ext39 (scanSym sym))
      (Bitmap.ofPic binz (uniform (paddedRow lq s rq mods).reverse (max 1 height))) th (by rw [hh]; omega) _
      (by rw [hh]; exact hbits) t' (by rw [hh]; exact hfirst)
    rw [hh] at this
    rw [this]
    rfl
  | error e =>
    cases he : OneDScan.isReaderException e with
    | true =>
      have := decodeImage_middle_reversed (rowRead E ext39 (scanSym sym))
        (Bitmap.ofPic binz (uniform (paddedRow lq s rq mods).reverse (max 1 height))) th (by rw [hh]; omega) _
        (by rw [hh]; exact hbits) e he (by rw [hh]; exact hfirst) t (by rw [hh, List.reverse_reverse]; exact hres)
      rw [hh] at this
      rw [this]
      simp only [hP, he, if_true]
    | false =>
      have := decodeImage_middle_abort (rowRead E ext39 (scanSym sym))
        (Bitmap.ofPic binz (uniform (paddedRow lq s rq mods).reverse (max 1 height))) th (by rw [hh]; omega) _
        (by rw [hh]; exact hbits) e he (by rw [hh]; exact hfirst)
      rw [this]
      simp only [he, Bool.false_eq_true, if_false]

end Gzx.Image1DWhite
