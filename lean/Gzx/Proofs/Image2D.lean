/-
  Work package imgpath2d — the PURE-BARCODE image path, geometry part.

  `Shows img mw mh m s padX padY`: the bit image `img` shows the `mw x mh` module matrix `m` as `s x s`
  blocks whose top-left corner is `(padX, padY)`, everything else white — exactly what C14 proves of the
  renderers (`renderQR_pixel`, `renderDM_pixel`) and what C17 proves the binarisers keep of a bilevel
  picture.  On such an image:

    * `GetTopLeftOnBit` / `GetBottomRightOnBit` (specification level, Model/PureBits.lean) return the
      corners of the symbol when module (0,0) / module (mw-1, mh-1) are dark;
    * the read-off loops sample the centre of every block and return exactly the module matrix;
    * the Data Matrix `moduleSize` walk along the top row measures `s` when module (1,0) is light;
    * hence `DM.extractPureBits = m` (`dm_extract_shows`).
-/
import Gzx.Proofs.PureBits
import Gzx.Proofs.Render
namespace Gzx.Image2D
open Gzx Gzx.Det Gzx.Det.Pure

/-- the module matrix as rows of cells (row `j`, column `i` ↦ `m i j`), the shape `Bits.rows` has -/
def matrixRows (mw mh : Nat) (m : Nat → Nat → Bool) : List (List Bool) :=
  (List.range mh).map (fun j => (List.range mw).map (fun i => m i j))

/-- `img` shows `m` at scale `s` with its top-left corner at `(padX, padY)`; white elsewhere -/
structure Shows (img : Img) (mw mh : Nat) (m : Nat → Nat → Bool) (s padX padY : Int) : Prop where
  s_pos : 1 ≤ s
  padX_nonneg : 0 ≤ padX
  padY_nonneg : 0 ≤ padY
  fitX : padX + (mw : Int) * s ≤ img.w
  fitY : padY + (mh : Int) * s ≤ img.h
  pix : ∀ x y, img.inside x y → (img.pix x y = true ↔
    (padX ≤ x ∧ x < padX + (mw : Int) * s ∧ padY ≤ y ∧ y < padY + (mh : Int) * s ∧
      m ((x - padX) / s).toNat ((y - padY) / s).toNat = true))

/-- a reader that answers the pixel inside the image (both `rdGo` and `rdStrict` do) -/
def Reads (rd : Reader) (img : Img) : Prop := ∀ x y, img.inside x y → rd x y = .ok (img.pix x y)

theorem reads_rdGo (img : Img) : Reads img.rdGo img := by
  intro x y ⟨h1, h2, h3, h4⟩
  have : img.outside x y = false := by
    simp only [Img.outside, Bool.or_eq_false_iff, decide_eq_false_iff_not]; omega
  simp [Img.rdGo, Img.get, this]

theorem reads_rdStrict (img : Img) : Reads img.rdStrict img := by
  intro x y ⟨h1, h2, h3, h4⟩
  have : img.outside x y = false := by
    simp only [Img.outside, Bool.or_eq_false_iff, decide_eq_false_iff_not]; omega
  simp [Img.rdStrict, this]

namespace Shows
variable {img : Img} {mw mh : Nat} {m : Nat → Nat → Bool} {s padX padY : Int}

/-- pixel `(dx, dy)` of block `(i, j)` lies inside the image and has the colour of module `(i, j)` -/
theorem block (h : Shows img mw mh m s padX padY) (i j : Nat) (hi : i < mw) (hj : j < mh)
    (dx dy : Int) (hdx : 0 ≤ dx ∧ dx < s) (hdy : 0 ≤ dy ∧ dy < s) :
    img.inside (padX + (i : Int) * s + dx) (padY + (j : Int) * s + dy) ∧
    img.pix (padX + (i : Int) * s + dx) (padY + (j : Int) * s + dy) = m i j := by
  have hs0 : 0 < s := by have := h.s_pos; omega
  have ei : ((i : Int) + 1) * s ≤ (mw : Int) * s := Int.mul_le_mul_of_nonneg_right (by omega) (by omega)
  have ej : ((j : Int) + 1) * s ≤ (mh : Int) * s := Int.mul_le_mul_of_nonneg_right (by omega) (by omega)
  rw [Int.add_mul] at ei ej
  have ni : 0 ≤ (i : Int) * s := Int.mul_nonneg (by omega) (by omega)
  have nj : 0 ≤ (j : Int) * s := Int.mul_nonneg (by omega) (by omega)
  have hX := h.fitX; have hY := h.fitY; have hpx := h.padX_nonneg; have hpy := h.padY_nonneg
  have hin : img.inside (padX + (i : Int) * s + dx) (padY + (j : Int) * s + dy) :=
    ⟨by omega, by omega, by omega, by omega⟩
  refine ⟨hin, ?_⟩
  have bi : ((padX + (i : Int) * s + dx - padX) / s).toNat = i :=
    (Render.block_index s _ i hs0 (by omega)).1 ⟨by omega, by omega⟩
  have bj : ((padY + (j : Int) * s + dy - padY) / s).toNat = j :=
    (Render.block_index s _ j hs0 (by omega)).1 ⟨by omega, by omega⟩
  have hp := h.pix _ _ hin
  rw [bi, bj] at hp
  cases hm : m i j with
  | true => rw [hp]; exact ⟨by omega, by omega, by omega, by omega, hm⟩
  | false =>
    cases hq : img.pix (padX + (i : Int) * s + dx) (padY + (j : Int) * s + dy) with
    | false => rfl
    | true => rw [hq] at hp; have := (hp.1 rfl).2.2.2.2; rw [hm] at this; cases this

/-- a cell inside the image but outside the symbol area is white -/
theorem white (h : Shows img mw mh m s padX padY) (x y : Int) (hin : img.inside x y)
    (ho : x < padX ∨ padX + (mw : Int) * s ≤ x ∨ y < padY ∨ padY + (mh : Int) * s ≤ y) :
    img.pix x y = false := by
  cases hq : img.pix x y with
  | false => rfl
  | true =>
    have := (h.pix x y hin).1 hq
    omega

end Shows

/-! ## the corner scans -/

theorem rowFirst_eq (p : Int → Bool) : ∀ (n : Nat) (x r : Int), x ≤ r → r < x + n → p r = true →
    (∀ x', x ≤ x' → x' < r → p x' = false) → rowFirst p n x = some r := by
  intro n
  induction n with
  | zero => intro x r h1 h2 _ _; omega
  | succ n ih =>
    intro x r h1 h2 hp hw
    unfold rowFirst
    by_cases hx : x = r
    · subst hx; simp [hp]
    · have : p x = false := hw x (Int.le_refl _) (by omega)
      simp only [this, Bool.false_eq_true, if_false]
      exact ih (x + 1) r (by omega) (by omega) hp (fun x' a b => hw x' (by omega) b)

theorem rowFirst_none (p : Int → Bool) : ∀ (n : Nat) (x : Int),
    (∀ x', x ≤ x' → x' < x + n → p x' = false) → rowFirst p n x = none := by
  intro n
  induction n with
  | zero => intro x _; rfl
  | succ n ih =>
    intro x hw
    unfold rowFirst
    have : p x = false := hw x (Int.le_refl _) (by omega)
    simp only [this, Bool.false_eq_true, if_false]
    exact ih (x + 1) (fun x' a b => hw x' (by omega) (by omega))

theorem rowLast_eq (p : Int → Bool) : ∀ (n : Nat) (x r : Int), r ≤ x → x - n < r → p r = true →
    (∀ x', r < x' → x' ≤ x → p x' = false) → rowLast p n x = some r := by
  intro n
  induction n with
  | zero => intro x r h1 h2 _ _; omega
  | succ n ih =>
    intro x r h1 h2 hp hw
    unfold rowLast
    by_cases hx : x = r
    · subst hx; simp [hp]
    · have : p x = false := hw x (by omega) (Int.le_refl _)
      simp only [this, Bool.false_eq_true, if_false]
      exact ih (x - 1) r (by omega) (by omega) hp (fun x' a b => hw x' a (by omega))

theorem rowLast_none (p : Int → Bool) : ∀ (n : Nat) (x : Int),
    (∀ x', x - n < x' → x' ≤ x → p x' = false) → rowLast p n x = none := by
  intro n
  induction n with
  | zero => intro x _; rfl
  | succ n ih =>
    intro x hw
    unfold rowLast
    have : p x = false := hw x (by omega) (Int.le_refl _)
    simp only [this, Bool.false_eq_true, if_false]
    exact ih (x - 1) (fun x' a b => hw x' (by omega) (by omega))

theorem topLeftFrom_eq (img : Img) (x0 y0 : Int) : ∀ (n : Nat) (y : Int), y ≤ y0 → y0 < y + n →
    (∀ y', y ≤ y' → y' < y0 → ∀ x', 0 ≤ x' → x' < img.w → img.pix x' y' = false) →
    rowFirst (fun x => img.pix x y0) img.w.toNat 0 = some x0 →
    topLeftFrom img n y = some (x0, y0) := by
  intro n
  induction n with
  | zero => intro y h1 h2 _ _; omega
  | succ n ih =>
    intro y h1 h2 hw hr
    unfold topLeftFrom
    by_cases hy : y = y0
    · subst hy; rw [hr]
    · have : rowFirst (fun x => img.pix x y) img.w.toNat 0 = none :=
        rowFirst_none _ _ _ (fun x' a b => hw y (Int.le_refl _) (by omega) x' a (by omega))
      rw [this]
      exact ih (y + 1) (by omega) (by omega) (fun y' a b => hw y' (by omega) b) hr

theorem bottomRightFrom_eq (img : Img) (x0 y0 : Int) : ∀ (n : Nat) (y : Int), y0 ≤ y → y - n < y0 →
    (∀ y', y0 < y' → y' ≤ y → ∀ x', 0 ≤ x' → x' < img.w → img.pix x' y' = false) →
    rowLast (fun x => img.pix x y0) img.w.toNat (img.w - 1) = some x0 →
    bottomRightFrom img n y = some (x0, y0) := by
  intro n
  induction n with
  | zero => intro y h1 h2 _ _; omega
  | succ n ih =>
    intro y h1 h2 hw hr
    unfold bottomRightFrom
    by_cases hy : y = y0
    · subst hy; rw [hr]
    · have : rowLast (fun x => img.pix x y) img.w.toNat (img.w - 1) = none :=
        rowLast_none _ _ _ (fun x' a b => hw y (by omega) (Int.le_refl _) x' (by omega) (by omega))
      rw [this]
      exact ih (y - 1) (by omega) (by omega) (fun y' a b => hw y' a (by omega)) hr

section corners
variable {img : Img} {mw mh : Nat} {m : Nat → Nat → Bool} {s padX padY : Int}

/-- `GetTopLeftOnBit` on an image that shows `m` with a dark module (0,0): the symbol's top-left pixel -/
theorem topLeft_shows (h : Shows img mw mh m s padX padY) (hw : 1 ≤ mw) (hh : 1 ≤ mh) (h00 : m 0 0 = true) :
    topLeft img = some (padX, padY) := by
  have hs := h.s_pos; have hX := h.fitX; have hY := h.fitY; have hpx := h.padX_nonneg; have hpy := h.padY_nonneg
  have e1 : (1 : Int) * s ≤ (mw : Int) * s := Int.mul_le_mul_of_nonneg_right (by omega) (by omega)
  have e2 : (1 : Int) * s ≤ (mh : Int) * s := Int.mul_le_mul_of_nonneg_right (by omega) (by omega)
  rw [Int.one_mul] at e1 e2
  have hb := h.block 0 0 (by omega) (by omega) 0 0 ⟨by omega, by omega⟩ ⟨by omega, by omega⟩
  simp only [Int.natCast_zero, Int.zero_mul, Int.add_zero] at hb
  unfold topLeft
  refine topLeftFrom_eq img padX padY _ 0 hpy (by omega) ?_ ?_
  · intro y' a b x' c d
    exact h.white x' y' ⟨c, d, a, by omega⟩ (by omega)
  · refine rowFirst_eq _ _ 0 padX hpx (by omega) (by rw [hb.2, h00]) ?_
    intro x' a b
    exact h.white x' padY ⟨a, by omega, hpy, by omega⟩ (by omega)

/-- `GetBottomRightOnBit` with a dark module (mw-1, mh-1): the symbol's bottom-right pixel -/
theorem bottomRight_shows (h : Shows img mw mh m s padX padY) (hw : 1 ≤ mw) (hh : 1 ≤ mh)
    (hll : m (mw - 1) (mh - 1) = true) :
    bottomRight img = some (padX + (mw : Int) * s - 1, padY + (mh : Int) * s - 1) := by
  have hs := h.s_pos; have hX := h.fitX; have hY := h.fitY; have hpx := h.padX_nonneg; have hpy := h.padY_nonneg
  have e1 : (1 : Int) * s ≤ (mw : Int) * s := Int.mul_le_mul_of_nonneg_right (by omega) (by omega)
  have e2 : (1 : Int) * s ≤ (mh : Int) * s := Int.mul_le_mul_of_nonneg_right (by omega) (by omega)
  rw [Int.one_mul] at e1 e2
  have hb := h.block (mw - 1) (mh - 1) (by omega) (by omega) (s - 1) (s - 1) ⟨by omega, by omega⟩ ⟨by omega, by omega⟩
  have cx : padX + ((mw - 1 : Nat) : Int) * s + (s - 1) = padX + (mw : Int) * s - 1 := by
    rw [show ((mw - 1 : Nat) : Int) = (mw : Int) - 1 by omega, Int.sub_mul]; omega
  have cy : padY + ((mh - 1 : Nat) : Int) * s + (s - 1) = padY + (mh : Int) * s - 1 := by
    rw [show ((mh - 1 : Nat) : Int) = (mh : Int) - 1 by omega, Int.sub_mul]; omega
  rw [cx, cy] at hb
  unfold bottomRight
  refine bottomRightFrom_eq img _ _ _ (img.h - 1) (by omega) (by omega) ?_ ?_
  · intro y' a b x' c d
    exact h.white x' y' ⟨c, d, by omega, by omega⟩ (by omega)
  · refine rowLast_eq _ _ (img.w - 1) _ (by omega) (by omega) (by rw [hb.2, hll]) ?_
    intro x' a b
    exact h.white x' _ ⟨by omega, by omega, by omega, by omega⟩ (by omega)

end corners

/-! ## the read-off loops return what the reader answers -/

theorem range_succ_map {α : Type} (n : Nat) (g : Nat → α) :
    (List.range (n + 1)).map g = g 0 :: (List.range n).map (fun i => g (i + 1)) := by
  rw [List.range_succ_eq_map]
  simp [List.map_map, Function.comp_def]

theorem sampleRow_eq {rd : Reader} (w h : Int) (xAt : Int → Int) (yPix y : Int) (f : Int → Bool)
    (hy : 0 ≤ y ∧ y < h) :
    ∀ (n : Nat) (x : Int), 0 ≤ x → x + n ≤ w →
      (∀ x', x ≤ x' → x' < x + n → rd (xAt x') yPix = .ok (f x')) →
      sampleRow rd (some (w, h)) xAt yPix y n x = .ok ((List.range n).map (fun (i : Nat) => f (x + i))) := by
  intro n
  induction n with
  | zero => intro x _ _ _; rfl
  | succ n ih =>
    intro x hx hn hrd
    have hrest := ih (x + 1) (by omega) (by omega) (fun x' h1 h2 => hrd x' (by omega) (by omega))
    have hset : setBit (some (w, h)) x y = .ok () := by
      unfold setBit
      have : ¬ (x < 0 ∨ x ≥ w ∨ y < 0 ∨ y ≥ h) := by omega
      simp only [this, if_false]
    have e : (List.range n).map (fun (i : Nat) => f (x + 1 + i)) =
        (List.range n).map (fun (i : Nat) => f (x + ((i + 1 : Nat) : Int))) := by
      apply List.map_congr_left
      intro i _
      congr 1; omega
    unfold sampleRow
    rw [hrd x (Int.le_refl _) (by omega), hrest, range_succ_map, e]
    cases hfx : f x with
    | true => simp [hfx, hset, bind, Except.bind, pure, Except.pure]
    | false => simp [hfx, bind, Except.bind, pure, Except.pure]

theorem sampleRows_eq {rd : Reader} (w h : Int) (xAt yAt : Int → Int) (f : Int → Int → Bool) (hw : 0 ≤ w) :
    ∀ (n : Nat) (y : Int), 0 ≤ y → y + n ≤ h →
      (∀ x' y', 0 ≤ x' → x' < w → y ≤ y' → y' < y + n → rd (xAt x') (yAt y') = .ok (f x' y')) →
      sampleRows rd (some (w, h)) w xAt yAt n y =
        .ok ((List.range n).map (fun (j : Nat) => (List.range w.toNat).map (fun (i : Nat) => f i (y + j)))) := by
  intro n
  induction n with
  | zero => intro y _ _ _; rfl
  | succ n ih =>
    intro y hy hn hrd
    have hrow := sampleRow_eq (rd := rd) w h xAt (yAt y) y (fun x => f x y) ⟨hy, by omega⟩ w.toNat 0
      (Int.le_refl _) (by omega) (fun x' h1 h2 => hrd x' y h1 (by omega) (Int.le_refl _) (by omega))
    have hrest := ih (y + 1) (by omega) (by omega)
      (fun x' y' h1 h2 h3 h4 => hrd x' y' h1 h2 (by omega) (by omega))
    have e : (List.range n).map (fun (j : Nat) => (List.range w.toNat).map (fun (i : Nat) => f i (y + 1 + j))) =
        (List.range n).map (fun (j : Nat) => (List.range w.toNat).map (fun (i : Nat) => f i (y + ((j + 1 : Nat) : Int)))) := by
      apply List.map_congr_left
      intro j _
      apply List.map_congr_left
      intro i _
      congr 1; omega
    unfold sampleRows
    rw [hrow, hrest, range_succ_map, e]
    simp [bind, Except.bind, pure, Except.pure]

/-- the read-off of an `mw x mh` matrix whose sample points the reader answers with `m`: exactly `m` -/
theorem readOff_eq {rd : Reader} (mw mh : Nat) (m : Nat → Nat → Bool) (xAt yAt : Int → Int)
    (hw : 1 ≤ mw) (hh : 1 ≤ mh)
    (hrd : ∀ i j : Nat, i < mw → j < mh → rd (xAt i) (yAt j) = .ok (m i j)) :
    readOff rd mw mh xAt yAt = .ok { w := mw, h := mh, rows := matrixRows mw mh m } := by
  unfold readOff
  have hnew : newBitMatrix (mw : Int) (mh : Int) = some ((mw : Int), (mh : Int)) := by
    unfold newBitMatrix
    have : ¬ ((mw : Int) < 1 ∨ (mh : Int) < 1) := by omega
    simp [this]
  have hrows := sampleRows_eq (rd := rd) (mw : Int) (mh : Int) xAt yAt
    (fun x y => m x.toNat y.toNat) (by omega) mh 0 (Int.le_refl _) (by omega)
    (by
      intro x' y' h1 h2 h3 h4
      have := hrd x'.toNat y'.toNat (by omega) (by omega)
      rw [show ((x'.toNat : Nat) : Int) = x' by omega, show ((y'.toNat : Nat) : Int) = y' by omega] at this
      exact this)
  simp only [hnew]
  rw [Int.toNat_natCast] at hrows ⊢
  rw [hrows]
  have e : (List.range mh).map (fun (j : Nat) => (List.range mw).map (fun (i : Nat) => m (i : Int).toNat ((0 : Int) + (j : Int)).toNat)) =
      matrixRows mw mh m := by
    unfold matrixRows
    apply List.map_congr_left
    intro j _
    apply List.map_congr_left
    intro i _
    simp
  simp only [bind, Except.bind, pure, Except.pure, e]

/-! ## a run of the counting loop -/

/-- `walk` (step 1) over `k` cells of the walked colour followed by a cell of the other colour, all within
    the limit and the cap: it stops on that cell, having counted `k` -/
theorem walk_run {rd : Reader} (pt : Int → Int × Int) (color : Bool) (lim cap : Int → Bool) :
    ∀ (k n : Nat) (p cnt : Int), k < n →
      (∀ i : Nat, i < k → lim (p + i) = true ∧ rd (pt (p + i)).1 (pt (p + i)).2 = .ok color ∧ cap (cnt + i) = true) →
      lim (p + k) = true → rd (pt (p + k)).1 (pt (p + k)).2 = .ok (!color) →
      walk rd pt color 1 lim cap n p cnt = .ok (p + k, cnt + k) := by
  intro k
  induction k with
  | zero =>
    intro n p cnt hn _ hl hr
    obtain ⟨n', rfl⟩ : ∃ n', n = n' + 1 := ⟨n - 1, by omega⟩
    simp only [Int.natCast_zero, Int.add_zero] at hl hr ⊢
    unfold walk
    simp only [hl, if_true, hr, bind, Except.bind]
    cases color <;> simp
  | succ k ih =>
    intro n p cnt hn hrun hl hr
    obtain ⟨n', rfl⟩ : ∃ n', n = n' + 1 := ⟨n - 1, by omega⟩
    obtain ⟨l0, r0, c0⟩ := hrun 0 (by omega)
    simp only [Int.natCast_zero, Int.add_zero] at l0 r0 c0
    unfold walk
    simp only [l0, if_true, r0, bind, Except.bind, c0, beq_self_eq_true, Bool.and_self]
    have := ih n' (p + 1) (cnt + 1) (by omega)
      (by
        intro i hi
        have := hrun (i + 1) (by omega)
        rw [show p + ((i + 1 : Nat) : Int) = p + 1 + (i : Int) by omega,
            show cnt + ((i + 1 : Nat) : Int) = cnt + 1 + (i : Int) by omega] at this
        exact this)
      (by rw [show p + 1 + (k : Int) = p + ((k + 1 : Nat) : Int) by omega]; exact hl)
      (by rw [show p + 1 + (k : Int) = p + ((k + 1 : Nat) : Int) by omega]; exact hr)
    rw [this]
    congr 2 <;> omega

/-! ## Data Matrix: `moduleSize` and `extractPureBits` on an image that shows `m` -/

section dm
variable {img : Img} {mw mh : Nat} {m : Nat → Nat → Bool} {s padX padY : Int} {rd : Reader}

/-- the walk along the top row from the top-left pixel measures the block size when module (0,0) is
    dark and module (1,0) is light (the alternating track of a Data Matrix symbol) -/
theorem dm_moduleSize_shows (h : Shows img mw mh m s padX padY) (hrd : Reads rd img)
    (hw : 2 ≤ mw) (hh : 1 ≤ mh) (h00 : m 0 0 = true) (h10 : m 1 0 = false) :
    DM.moduleSize rd img.w padX padY = .ok s := by
  have hs := h.s_pos; have hX := h.fitX; have hY := h.fitY; have hpx := h.padX_nonneg; have hpy := h.padY_nonneg
  have e1 : (2 : Int) * s ≤ (mw : Int) * s := Int.mul_le_mul_of_nonneg_right (by omega) (by omega)
  have hrun := walk_run (rd := rd) (fun x => (x, padY)) true (fun x => decide (x < img.w)) (fun _ => true)
    s.toNat (fuelTo img.w padX) padX 0 (by unfold fuelTo; omega)
    (by
      intro i hi
      have hb := h.block 0 0 (by omega) (by omega) (i : Int) 0 ⟨by omega, by omega⟩ ⟨by omega, by omega⟩
      simp only [Int.natCast_zero, Int.zero_mul, Int.add_zero] at hb
      refine ⟨by simp; omega, ?_, rfl⟩
      simp only []
      rw [hrd _ _ hb.1, hb.2, h00])
    (by simp; omega)
    (by
      have hb := h.block 1 0 (by omega) (by omega) 0 0 ⟨by omega, by omega⟩ ⟨by omega, by omega⟩
      simp only [Int.natCast_zero, Int.zero_mul, Int.add_zero, Int.natCast_one, Int.one_mul] at hb
      simp only []
      rw [show padX + ((s.toNat : Nat) : Int) = padX + s by omega, hrd _ _ hb.1, hb.2, h10]
      rfl)
  unfold DM.moduleSize
  rw [hrun]
  simp only [bind, Except.bind, pure, Except.pure]
  have n1 : ¬ (padX + ((s.toNat : Nat) : Int) = img.w) := by omega
  have n2 : ¬ (padX + ((s.toNat : Nat) : Int) - padX = 0) := by omega
  simp only [n1, n2, if_false]
  congr 1; omega

/-- **Data Matrix `extractPureBits` on an image that shows `m` returns exactly `m`**: facts used are the
    three the code relies on — module (0,0) dark (top-left corner of the "L"), module (1,0) light (second
    module of the alternating top track: the run that `moduleSize` measures ends there), module
    (mw-1, mh-1) dark (right end of the solid bottom row) — and `mw ≥ 2`. -/
theorem dm_extract_shows (h : Shows img mw mh m s padX padY) (hrd : Reads rd img)
    (hw : 2 ≤ mw) (hh : 1 ≤ mh) (h00 : m 0 0 = true) (h10 : m 1 0 = false)
    (hll : m (mw - 1) (mh - 1) = true) :
    DM.extractPureBits rd img = .ok { w := mw, h := mh, rows := matrixRows mw mh m } := by
  have hs := h.s_pos
  have hne : s ≠ 0 := by omega
  unfold DM.extractPureBits
  rw [topLeft_shows h (by omega) hh h00, bottomRight_shows h (by omega) hh hll]
  simp only [dm_moduleSize_shows h hrd hw hh h00 h10, bind, Except.bind]
  have d1 : padX + (mw : Int) * s - 1 - padX + 1 = (mw : Int) * s := by omega
  have d2 : padY + (mh : Int) * s - 1 - padY + 1 = (mh : Int) * s := by omega
  simp only [DM.dims, goDiv, hne, if_false, bind, Except.bind, pure, Except.pure, d1, d2,
    Int.mul_tdiv_cancel _ hne]
  have npos : ¬ ((mw : Int) ≤ 0 ∨ (mh : Int) ≤ 0) := by omega
  simp only [npos, if_false, DM.nudged]
  have hn : Int.tdiv s 2 = s / 2 := Int.tdiv_eq_ediv_of_nonneg (by omega)
  rw [hn]
  refine readOff_eq mw mh m _ _ (by omega) hh ?_
  intro i j hi hj
  have hb := h.block i j hi hj (s / 2) (s / 2) ⟨by omega, by omega⟩ ⟨by omega, by omega⟩
  have ex : padX + s / 2 + (i : Int) * s = padX + (i : Int) * s + s / 2 := by omega
  have ey : padY + s / 2 + (j : Int) * s = padY + (j : Int) * s + s / 2 := by omega
  rw [ex, ey, hrd _ _ hb.1, hb.2]

end dm

end Gzx.Image2D
