/-
  Work package imgpath2d — the image → luminance → binariser part of the pure-barcode path:
  the black matrix of a rendered BitMatrix is that BitMatrix again (local method from 40x40 pixels up:
  always; global fallback below: or NotFound), by C17's `hybrid_bilevel_exact` / `global_bilevel_exact_or_notfound`.
-/
import Gzx.Model.ImagePath2D
import Gzx.Proofs.Render
import Gzx.Properties.C17
namespace Gzx.ImagePath
open Gzx Gzx.Det Gzx.Binarizer

theorem lumOfBit_eq (b : Bool) : lumOfBit b = grayAt b := by cases b <;> decide

theorem flatten_getElem?_uniform {α : Type} (E : Nat) : ∀ (L : List (List α)) (b t : Nat),
    (∀ l ∈ L, l.length = E) → b < L.length → t < E → L.flatten[b * E + t]? = (L[b]?).bind (·[t]?) := by
  intro L
  induction L with
  | nil => intro b t _ hb; simp at hb
  | cons l L ih =>
    intro b t hu hb ht
    have hl : l.length = E := hu l List.mem_cons_self
    cases b with
    | zero =>
      simp only [Nat.zero_mul, Nat.zero_add, List.flatten_cons, List.getElem?_cons_zero, Option.bind_some]
      rw [List.getElem?_append_left (by omega)]
    | succ b =>
      simp only [List.flatten_cons, List.getElem?_cons_succ]
      have : (b + 1) * E + t = l.length + (b * E + t) := by rw [Nat.succ_mul, hl]; omega
      rw [this, List.getElem?_append_right (by omega)]
      have h2 : l.length + (b * E + t) - l.length = b * E + t := by omega
      rw [h2]
      exact ih b t (fun l' hl' => hu l' (List.mem_cons_of_mem _ hl')) (by simpa using hb) ht

theorem flatten_length_uniform {α : Type} (E : Nat) : ∀ (L : List (List α)), (∀ l ∈ L, l.length = E) →
    L.flatten.length = E * L.length := by
  intro L
  induction L with
  | nil => intro _; simp
  | cons l L ih =>
    intro h
    simp only [List.flatten_cons, List.length_append, List.length_cons]
    rw [h l (by simp), ih (fun x hx => h x (by simp [hx])), Nat.mul_succ]
    omega

/-- a `w x h` bit picture given as rows -/
def RowsOK (w h : Nat) (rows : List (List Bool)) : Prop := rows.length = h ∧ ∀ r ∈ rows, r.length = w

theorem lumOfRows_size (w h : Nat) (rows : List (List Bool)) (hr : RowsOK w h rows) :
    (lumOfRows rows).size = w * h := by
  unfold lumOfRows
  simp only [List.size_toArray, List.length_map]
  rw [flatten_length_uniform w rows hr.2, hr.1]

theorem lumOfRows_get (w h : Nat) (rows : List (List Bool)) (hr : RowsOK w h rows) (X Y : Nat) (hX : X < w) (hY : Y < h) :
    (lumOfRows rows)[Y * w + X]? = ((rows[Y]?).bind (·[X]?)).map grayAt := by
  unfold lumOfRows
  simp only [List.getElem?_toArray, List.getElem?_map]
  rw [flatten_getElem?_uniform w rows Y X hr.2 (by rw [hr.1]; exact hY) hX]
  cases (rows[Y]?).bind (·[X]?) with
  | none => rfl
  | some b => simp [lumOfBit_eq]

theorem lumOfRows_bilevel (rows : List (List Bool)) : Properties.C17.Bilevel (lumOfRows rows) := by
  intro i p hp
  unfold lumOfRows at hp
  simp only [List.getElem?_toArray, List.getElem?_map] at hp
  cases hb : rows.flatten[i]? with
  | none => rw [hb] at hp; cases hp
  | some b =>
    rw [hb] at hp
    simp only [Option.map_some, Option.some.injEq] at hp
    subst hp
    rw [lumOfBit_eq]
    cases b <;> simp [grayAt]

/-- the pixel function of the black image inside the matrix, given the list of `Set` calls -/
theorem blackImg_pix (w h : Nat) (sets : List (Nat × Nat)) (x y : Int)
    (hin : (blackImg w h sets).inside x y) :
    (blackImg w h sets).pix x y = decide ((x.toNat, y.toNat) ∈ sets) := by
  obtain ⟨h1, h2, h3, h4⟩ := hin
  simp only [blackImg] at h2 h4 ⊢
  have hs := render_spec w h sets x.toNat y.toNat (by omega) (by omega)
  rw [hs]
  have : (0 ≤ x ∧ x < (w : Int) ∧ 0 ≤ y) := ⟨h1, h2, h3⟩
  simp only [this, and_self, decide_true, Bool.true_and]
  cases decide ((x.toNat, y.toNat) ∈ sets) <;> rfl

/-- what "the black matrix is the picture again" means -/
def SamePicture (bm : Img) (w h : Nat) (rows : List (List Bool)) : Prop :=
  bm.w = w ∧ bm.h = h ∧ ∀ X Y : Nat, X < w → Y < h → some (bm.pix X Y) = (rows[Y]?).bind (·[X]?)

theorem samePicture_of_exact (w h : Nat) (rows : List (List Bool)) (hr : RowsOK w h rows) (sets : List (Nat × Nat))
    (hiff : ∀ X Y, X < w → Y < h → ((X, Y) ∈ sets ↔ (lumOfRows rows)[Y * w + X]? = some 0)) :
    SamePicture (blackImg w h sets) w h rows := by
  refine ⟨rfl, rfl, ?_⟩
  intro X Y hX hY
  have hin : (blackImg w h sets).inside (X : Int) (Y : Int) := by
    simp only [Img.inside, blackImg]; omega
  rw [blackImg_pix w h sets _ _ hin]
  simp only [Int.toNat_natCast]
  have hg := lumOfRows_get w h rows hr X Y hX hY
  have hrow : ∃ b, (rows[Y]?).bind (·[X]?) = some b := by
    have hY' : Y < rows.length := by rw [hr.1]; exact hY
    rw [List.getElem?_eq_getElem hY']
    have hl : rows[Y].length = w := hr.2 _ (List.getElem_mem hY')
    exact ⟨rows[Y][X]'(by omega), by simp [List.getElem?_eq_getElem (show X < rows[Y].length by omega)]⟩
  obtain ⟨b, hb⟩ := hrow
  rw [hb] at hg ⊢
  have := hiff X Y hX hY
  rw [hg] at this
  cases b with
  | true =>
    have hm : (X, Y) ∈ sets := this.2 (by simp [grayAt])
    simp [hm]
  | false =>
    have hm : ¬ (X, Y) ∈ sets := fun hm => by
      have := this.1 hm
      simp [grayAt] at this
    simp [hm]

/-- **local method**: from 40x40 pixels up the black matrix of a bit picture is the picture -/
theorem blackMatrixOfRows_local (w h : Nat) (rows : List (List Bool)) (hr : RowsOK w h rows) (hw : 40 ≤ w) (hh : 40 ≤ h) :
    ∃ bm, blackMatrixOfRows w h rows = .ok bm ∧ SamePicture bm w h rows := by
  obtain ⟨sets, hs, _, hiff⟩ := Properties.C17.hybrid_bilevel_exact (lumOfRows rows) w h hw hh
    (lumOfRows_size w h rows hr) (lumOfRows_bilevel rows)
  refine ⟨blackImg w h sets, ?_, samePicture_of_exact w h rows hr sets hiff⟩
  unfold blackMatrixOfRows
  rw [hs]

/-- **every non-empty size** (global histogram method below 40 pixels): the picture, or NotFound -/
theorem blackMatrixOfRows_any (w h : Nat) (rows : List (List Bool)) (hr : RowsOK w h rows) (hw : 1 ≤ w) (hh : 1 ≤ h) :
    blackMatrixOfRows w h rows = .error .notFound ∨
    ∃ bm, blackMatrixOfRows w h rows = .ok bm ∧ SamePicture bm w h rows := by
  rcases Properties.C17.hybrid_bilevel_exact_or_notfound (lumOfRows rows) w h hw hh
    (lumOfRows_size w h rows hr) (lumOfRows_bilevel rows) with hnf | ⟨sets, hs, _, hiff⟩
  · left; unfold blackMatrixOfRows; rw [hnf]
  · right
    refine ⟨blackImg w h sets, ?_, samePicture_of_exact w h rows hr sets hiff⟩
    unfold blackMatrixOfRows
    rw [hs]

/-! ## rendered BitMatrix -/

theorem image_rowsOK (img : Render.Image) : RowsOK img.w.toNat img.h.toNat img.rows := by
  refine ⟨by simp [Render.Image.rows], ?_⟩
  intro r hr
  simp only [Render.Image.rows, List.mem_map, List.mem_range] at hr
  obtain ⟨y, _, rfl⟩ := hr
  simp [Render.Image.row]

theorem image_rows_get (img : Render.Image) (X Y : Nat) (hX : X < img.w.toNat) (hY : Y < img.h.toNat) :
    (img.rows[Y]?).bind (·[X]?) = some (img.px X Y) := by
  simp only [Render.Image.rows, List.getElem?_map, List.getElem?_range hY, Option.map_some, Option.bind_some]
  rw [Render.row_getElem? img (Y : Int) (by omega) (by omega) X]
  simp [hX]

/-- the black matrix `bm` of the rendered BitMatrix `img` has its dimensions and pixels -/
def SameAsImage (bm : Img) (img : Render.Image) : Prop :=
  bm.w = img.w ∧ bm.h = img.h ∧ ∀ x y, bm.inside x y → bm.pix x y = img.px x y

theorem sameAsImage_of (bm : Img) (img : Render.Image) (hw : 0 ≤ img.w) (hh : 0 ≤ img.h)
    (h : SamePicture bm img.w.toNat img.h.toNat img.rows) : SameAsImage bm img := by
  obtain ⟨h1, h2, h3⟩ := h
  refine ⟨by omega, by omega, ?_⟩
  intro x y ⟨a, b, c, d⟩
  have := h3 x.toNat y.toNat (by omega) (by omega)
  rw [image_rows_get img _ _ (by omega) (by omega)] at this
  rw [show ((x.toNat : Nat) : Int) = x by omega, show ((y.toNat : Nat) : Int) = y by omega] at this
  exact Option.some.inj this

theorem blackMatrix_local (img : Render.Image) (hw : 40 ≤ img.w) (hh : 40 ≤ img.h) :
    ∃ bm, blackMatrix img = .ok bm ∧ SameAsImage bm img := by
  obtain ⟨bm, hb, hs⟩ := blackMatrixOfRows_local img.w.toNat img.h.toNat img.rows (image_rowsOK img) (by omega) (by omega)
  exact ⟨bm, hb, sameAsImage_of bm img (by omega) (by omega) hs⟩

theorem blackMatrix_any (img : Render.Image) (hw : 1 ≤ img.w) (hh : 1 ≤ img.h) :
    blackMatrix img = .error .notFound ∨ ∃ bm, blackMatrix img = .ok bm ∧ SameAsImage bm img := by
  rcases blackMatrixOfRows_any img.w.toNat img.h.toNat img.rows (image_rowsOK img) (by omega) (by omega) with h | ⟨bm, hb, hs⟩
  · left; exact h
  · right; exact ⟨bm, hb, sameAsImage_of bm img (by omega) (by omega) hs⟩

end Gzx.ImagePath
