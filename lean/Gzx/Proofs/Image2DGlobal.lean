/-
  Work package imgpath2d — what the global histogram fallback (images below 40 pixels on an axis) needs to be exact
  on a pure black/white picture: ONE WHITE PIXEL AMONG THE SAMPLED ONES (rows `h·k/5`, k = 1..4, columns
  `w/5 .. 4w/5 − 1`).  Then the two histogram peaks are bucket 0 / bucket 31 (or bucket 31 and the initial 0), the
  contrast test passes, and `global_bilevel_exact_or_notfound` (C17) leaves only the exact alternative.
  (All sampled pixels black ⇒ both peaks are bucket 0 ⇒ NotFound: the condition is also necessary.)
-/
import Gzx.Proofs.Image2DBin
namespace Gzx.Binarizer
open Gzx

/-! ## `argmaxStrict`: the result dominates, and a result other than the start value is strictly better -/

theorem argmaxStrict_ge (cands : List (Nat × Int)) : ∀ best : Nat × Int,
    best.2 ≤ (argmaxStrict best cands).2 ∧ ∀ c ∈ cands, c.2 ≤ (argmaxStrict best cands).2 := by
  induction cands with
  | nil => intro best; exact ⟨Int.le_refl _, by simp⟩
  | cons c cs ih =>
    intro best
    obtain ⟨x, s⟩ := c
    unfold argmaxStrict
    split
    · rename_i hgt
      obtain ⟨h1, h2⟩ := ih (x, s)
      refine ⟨by simp only at h1; omega, ?_⟩
      intro c hc
      rcases List.mem_cons.mp hc with rfl | hc
      · exact h1
      · exact h2 c hc
    · rename_i hle
      obtain ⟨h1, h2⟩ := ih best
      refine ⟨h1, ?_⟩
      intro c hc
      rcases List.mem_cons.mp hc with rfl | hc
      · simp only at hle ⊢; omega
      · exact h2 c hc

theorem argmaxStrict_start_or_better (cands : List (Nat × Int)) : ∀ best : Nat × Int,
    argmaxStrict best cands = best ∨
      (argmaxStrict best cands ∈ cands ∧ best.2 < (argmaxStrict best cands).2) := by
  induction cands with
  | nil => intro best; left; rfl
  | cons c cs ih =>
    intro best
    obtain ⟨x, s⟩ := c
    unfold argmaxStrict
    split
    · rename_i hgt
      right
      rcases ih (x, s) with h | ⟨h1, h2⟩
      · rw [h]; exact ⟨by simp, hgt⟩
      · exact ⟨by simp [h1], by simp only at h2; omega⟩
    · rcases ih best with h | ⟨h1, h2⟩
      · left; exact h
      · right; exact ⟨by simp [h1], h2⟩

theorem mem_indexed (bs : List Nat) (x c : Nat) : (x, c) ∈ indexed bs ↔ bs[x]? = some c := by
  unfold indexed
  constructor
  · intro h
    obtain ⟨i, hi⟩ := List.mem_iff_getElem?.mp h
    rw [List.getElem?_zip_eq_some] at hi
    obtain ⟨h1, h2⟩ := hi
    have hlt : i < bs.length := by
      rcases Nat.lt_or_ge i bs.length with h | h
      · exact h
      · rw [List.getElem?_eq_none (by simpa using h)] at h1; cases h1
    rw [List.getElem?_range hlt] at h1
    cases h1
    exact h2
  · intro h
    have hlt : x < bs.length := by
      rcases Nat.lt_or_ge x bs.length with h' | h'
      · exact h'
      · rw [List.getElem?_eq_none h'] at h; cases h
    apply List.mem_iff_getElem?.mpr
    exact ⟨x, by rw [List.getElem?_zip_eq_some]; exact ⟨List.getElem?_range hlt, h⟩⟩

/-- a histogram with two possible peaks only: every bucket strictly between 0 and 31 is empty, bucket 31 is not -/
structure TwoPeaks (buckets : List Nat) : Prop where
  len : buckets.length = 32
  mid : ∀ x c, buckets[x]? = some c → 0 < c → x = 0 ∨ x = 31
  white : ∃ nw, buckets[31]? = some nw ∧ 0 < nw

theorem sqDist_pos (x p : Nat) (h : x ≠ p) : 0 < sqDist x p := by
  unfold sqDist
  split
  · exact Nat.mul_pos (by omega) (by omega)
  · exact Nat.mul_pos (by omega) (by omega)

theorem sqDist_self (x : Nat) : sqDist x x = 0 := by simp [sqDist]

/-- the contrast test of `estimateBlackPoint` passes on such a histogram: a black point is returned -/
theorem estimateBlackPoint_twoPeaks (buckets : List Nat) (h : TwoPeaks buckets) :
    ∃ bp, estimateBlackPoint buckets = .ok bp := by
  obtain ⟨nw, hnw, hpos⟩ := h.white
  unfold estimateBlackPoint
  simp only
  generalize hfirst : argmaxStrict (0, 0) ((indexed buckets).map (fun (x, c) => (x, (c : Int)))) = first
  generalize hsecond : argmaxStrict (0, 0)
    ((indexed buckets).map (fun (x, c) => (x, ((c * sqDist x first.1 : Nat) : Int)))) = second
  -- a candidate with a positive score sits on bucket 0 or 31
  have cand : ∀ (f : Nat → Nat → Nat) (r : Nat × Int),
      r ∈ (indexed buckets).map (fun (x, c) => (x, ((f x c : Nat) : Int))) → 0 < r.2 →
      ∃ c, buckets[r.1]? = some c ∧ r.2 = ((f r.1 c : Nat) : Int) := by
    intro f r hr _
    obtain ⟨⟨x, c⟩, hm, he⟩ := List.mem_map.mp hr
    rw [← he]
    exact ⟨c, (mem_indexed buckets x c).mp hm, rfl⟩
  -- the first peak is bucket 0 or bucket 31
  have hf : first.1 = 0 ∨ first.1 = 31 := by
    rcases argmaxStrict_start_or_better ((indexed buckets).map (fun (x, c) => (x, (c : Int)))) (0, 0) with e | ⟨e1, e2⟩
    · rw [hfirst] at e; left; rw [e]
    · rw [hfirst] at e1 e2
      obtain ⟨c, hc, hv⟩ := cand (fun _ c => c) first e1 e2
      exact h.mid first.1 c hc (by simp only at hv e2; omega)
  have hcontrast : ¬ (max first.1 second.1 - min first.1 second.1 ≤ buckets.length / 16) := by
    rw [h.len]
    rcases hf with hf0 | hf31
    · -- first peak 0: the second peak dominates the score of bucket 31, which is positive
      have hge := (argmaxStrict_ge ((indexed buckets).map (fun (x, c) => (x, ((c * sqDist x first.1 : Nat) : Int)))) (0, 0)).2
        (31, ((nw * sqDist 31 first.1 : Nat) : Int))
        (List.mem_map.mpr ⟨(31, nw), (mem_indexed buckets 31 nw).mpr hnw, rfl⟩)
      rw [hsecond, hf0] at hge
      have hp : 0 < nw * sqDist 31 0 := Nat.mul_pos hpos (sqDist_pos 31 0 (by decide))
      rcases argmaxStrict_start_or_better ((indexed buckets).map (fun (x, c) => (x, ((c * sqDist x first.1 : Nat) : Int)))) (0, 0) with e | ⟨e1, e2⟩
      · rw [hsecond] at e; rw [e] at hge; simp only at hge; omega
      · rw [hsecond] at e1 e2
        obtain ⟨c, hc, hv⟩ := cand (fun x c => c * sqDist x first.1) second e1 e2
        have hcpos : 0 < c * sqDist second.1 first.1 := by simp only at hv e2; omega
        have hc0 : 0 < c := Nat.pos_of_mul_pos_right hcpos
        rcases h.mid second.1 c hc hc0 with h0 | h31
        · rw [h0, hf0, sqDist_self] at hcpos; omega
        · rw [hf0, h31]; decide
    · -- first peak 31: the second peak is bucket 0 (a positive score excludes 31) or the initial 0
      have hs0 : second.1 = 0 := by
        rcases argmaxStrict_start_or_better ((indexed buckets).map (fun (x, c) => (x, ((c * sqDist x first.1 : Nat) : Int)))) (0, 0) with e | ⟨e1, e2⟩
        · rw [hsecond] at e; rw [e]
        · rw [hsecond] at e1 e2
          obtain ⟨c, hc, hv⟩ := cand (fun x c => c * sqDist x first.1) second e1 e2
          have hcpos : 0 < c * sqDist second.1 first.1 := by simp only at hv e2; omega
          have hc0 : 0 < c := Nat.pos_of_mul_pos_right hcpos
          rcases h.mid second.1 c hc hc0 with h0 | h31
          · exact h0
          · rw [h31, hf31, sqDist_self] at hcpos; omega
      rw [hf31, hs0]; decide
  rw [if_neg hcontrast]
  exact ⟨_, rfl⟩

/-- a histogram whose only non-empty bucket (if any) is bucket 0: both peaks are bucket 0, the contrast test fails -/
theorem estimateBlackPoint_onePeak (buckets : List Nat) (hlen : buckets.length = 32)
    (h : ∀ x c, buckets[x]? = some c → 0 < c → x = 0) :
    estimateBlackPoint buckets = .error .notFound := by
  unfold estimateBlackPoint
  simp only
  generalize hfirst : argmaxStrict (0, 0) ((indexed buckets).map (fun (x, c) => (x, (c : Int)))) = first
  generalize hsecond : argmaxStrict (0, 0)
    ((indexed buckets).map (fun (x, c) => (x, ((c * sqDist x first.1 : Nat) : Int)))) = second
  have hf : first.1 = 0 := by
    rcases argmaxStrict_start_or_better ((indexed buckets).map (fun (x, c) => (x, (c : Int)))) (0, 0) with e | ⟨e1, e2⟩
    · rw [hfirst] at e; rw [e]
    · rw [hfirst] at e1 e2
      obtain ⟨⟨x, c⟩, hm, he⟩ := List.mem_map.mp e1
      rw [← he] at e2 ⊢
      exact h x c ((mem_indexed buckets x c).mp hm) (by simp only at e2; omega)
  have hs : second.1 = 0 := by
    rcases argmaxStrict_start_or_better ((indexed buckets).map (fun (x, c) => (x, ((c * sqDist x first.1 : Nat) : Int)))) (0, 0) with e | ⟨e1, e2⟩
    · rw [hsecond] at e; rw [e]
    · rw [hsecond] at e1 e2
      obtain ⟨⟨x, c⟩, hm, he⟩ := List.mem_map.mp e1
      rw [← he] at e2 ⊢
      have hpos : 0 < c * sqDist x first.1 := by simp only at e2; omega
      exact h x c ((mem_indexed buckets x c).mp hm) (Nat.pos_of_mul_pos_right hpos)
  have hc : max first.1 second.1 - min first.1 second.1 ≤ buckets.length / 16 := by
    rw [hf, hs, hlen]; decide
  rw [if_pos hc]

/-! ## the histogram of bilevel samples with a white one -/

theorem histogram_get (ps : List Nat) (x : Nat) (hx : x < 32) :
    (histogram ps)[x]? = some (ps.countP (fun p => bucketOf p == x)) := by
  unfold histogram LUMINANCE_BUCKETS
  rw [List.getElem?_map, List.getElem?_range hx]
  rfl

theorem histogram_twoPeaks (ps : List Nat) (hbi : ∀ p ∈ ps, p = 0 ∨ p = 255) (hw : 255 ∈ ps) :
    TwoPeaks (histogram ps) := by
  refine ⟨by simp [histogram, LUMINANCE_BUCKETS], ?_, ?_⟩
  · intro x c hc hpos
    have hx : x < 32 := by
      rcases Nat.lt_or_ge x 32 with h | h
      · exact h
      · rw [List.getElem?_eq_none (by simp [histogram, LUMINANCE_BUCKETS]; omega)] at hc; cases hc
    rw [histogram_get ps x hx] at hc
    cases hc
    obtain ⟨p, hp, hb⟩ := List.countP_pos_iff.mp hpos
    rcases hbi p hp with rfl | rfl
    · left; simp [bucketOf] at hb; omega
    · right; simp [bucketOf] at hb; omega
  · refine ⟨_, histogram_get ps 31 (by decide), ?_⟩
    exact List.countP_pos_iff.mpr ⟨255, hw, by simp [bucketOf]⟩

theorem histogram_onePeak (ps : List Nat) (hb : ∀ p ∈ ps, p = 0) :
    ∀ x c, (histogram ps)[x]? = some c → 0 < c → x = 0 := by
  intro x c hc hpos
  have hx : x < 32 := by
    rcases Nat.lt_or_ge x 32 with h | h
    · exact h
    · rw [List.getElem?_eq_none (by simp [histogram, LUMINANCE_BUCKETS]; omega)] at hc; cases hc
  rw [histogram_get ps x hx] at hc
  cases hc
  obtain ⟨p, hp, hbk⟩ := List.countP_pos_iff.mp hpos
  rw [hb p hp] at hbk
  simp [bucketOf] at hbk
  omega

/-! ## the samples -/

theorem samples_spec (lum : Array Nat) (w h : Nat) (ps : List Nat) (hs : samples lum w h = .ok ps) :
    (∀ p ∈ ps, ∃ k x : Nat, k ∈ [1, 2, 3, 4] ∧ w / 5 ≤ x ∧ x < w * 4 / 5 ∧ lum[(h * k / 5) * w + x]? = some p) ∧
    (∀ (k x p : Nat), k ∈ [1, 2, 3, 4] → w / 5 ≤ x → x < w * 4 / 5 → lum[(h * k / 5) * w + x]? = some p → p ∈ ps) := by
  unfold samples at hs
  split at hs
  · cases hs
  · rename_i rows hrows
    cases hs
    refine ⟨?_, ?_⟩
    · intro p hp
      obtain ⟨row, hrow, hpr⟩ := List.mem_flatten.mp hp
      obtain ⟨k, hkm, hk⟩ := mapME_mem_right _ _ _ hrows row hrow
      unfold sampleRowAt sampleRow at hk
      obtain ⟨x, hxm, hx⟩ := mapME_mem_right _ _ _ hk p hpr
      have hx2 : x < w * 4 / 5 := List.mem_range.mp (List.mem_of_mem_drop hxm)
      have hx1 : w / 5 ≤ x := by
        obtain ⟨i, hi⟩ := List.mem_iff_getElem?.mp hxm
        rw [List.getElem?_drop] at hi
        have hlt : w / 5 + i < w * 4 / 5 := by
          rcases Nat.lt_or_ge (w / 5 + i) (w * 4 / 5) with h' | h'
          · exact h'
          · rw [List.getElem?_eq_none (by simpa using h')] at hi; cases hi
        rw [List.getElem?_range hlt] at hi
        cases hi
        omega
      exact ⟨k, x, hkm, hx1, hx2, rd_inv lum _ p hx⟩
    · intro k x p hk h1 h2 hl
      obtain ⟨row, hrow, hkr⟩ := mapME_mem_left _ _ _ hrows k hk
      unfold sampleRowAt sampleRow at hkr
      have hxm : x ∈ (List.range (w * 4 / 5)).drop (w / 5) := by
        apply List.mem_iff_getElem?.mpr
        refine ⟨x - w / 5, ?_⟩
        rw [List.getElem?_drop, List.getElem?_range (by omega)]
        congr 1; omega
      obtain ⟨q, hq, hrdq⟩ := mapME_mem_left _ _ _ hkr x hxm
      have := rd_inv lum _ q hrdq
      rw [hl] at this
      cases this
      exact List.mem_flatten.mpr ⟨row, hrow, hq⟩

/-- **the global method on a pure black/white image with a white pixel among the sampled ones is exact** -/
theorem global_bilevel_exact_of_white_sample (lum : Array Nat) (w h : Nat) (hw : 1 ≤ w) (hh : 1 ≤ h)
    (hsz : lum.size = w * h) (hbi : Properties.C17.Bilevel lum)
    (hwhite : ∃ k x, k ∈ [1, 2, 3, 4] ∧ w / 5 ≤ x ∧ x < w * 4 / 5 ∧ lum[(h * k / 5) * w + x]? = some 255) :
    ∃ sets, globalSets lum w h = .ok sets ∧
      (∀ X Y, (X, Y) ∈ sets → X < w ∧ Y < h) ∧
      (∀ X Y, X < w → Y < h → ((X, Y) ∈ sets ↔ lum[Y * w + X]? = some 0)) := by
  rcases Properties.C17.global_bilevel_exact_or_notfound lum w h hw hh hsz hbi with hnf | hex
  · exfalso
    obtain ⟨ps, hps⟩ := samples_ok lum w h hsz hh
    obtain ⟨s1, s2⟩ := samples_spec lum w h ps hps
    obtain ⟨k, x, hk, h1, h2, hl⟩ := hwhite
    have hmem : 255 ∈ ps := s2 k x 255 hk h1 h2 hl
    have hbi' : ∀ p ∈ ps, p = 0 ∨ p = 255 := fun p hp => by
      obtain ⟨k', x', _, _, _, hi⟩ := s1 p hp
      exact hbi _ p hi
    obtain ⟨bp, hbp⟩ := estimateBlackPoint_twoPeaks _ (histogram_twoPeaks ps hbi' hmem)
    obtain ⟨sets, hsets, _⟩ := scanRect_spec lum w h 0 0 w h (fun p => decide (p < bp)) hsz (by omega) (by omega)
    unfold globalSets at hnf
    have hn : ¬ (w < 1 ∨ h < 1) := by omega
    simp only [hn, if_false, hps, hbp, hsets] at hnf
    cases hnf
  · exact hex

/-- **… and it needs it**: with no white pixel among the sampled ones (also when nothing is sampled, `w ≤ 1`) the
    global method answers NotFound on a pure black/white image -/
theorem global_bilevel_notfound_of_no_white_sample (lum : Array Nat) (w h : Nat) (hw : 1 ≤ w) (hh : 1 ≤ h)
    (hsz : lum.size = w * h) (hbi : Properties.C17.Bilevel lum)
    (hno : ¬ ∃ k x, k ∈ [1, 2, 3, 4] ∧ w / 5 ≤ x ∧ x < w * 4 / 5 ∧ lum[(h * k / 5) * w + x]? = some 255) :
    globalSets lum w h = .error .notFound := by
  obtain ⟨ps, hps⟩ := samples_ok lum w h hsz hh
  obtain ⟨s1, _⟩ := samples_spec lum w h ps hps
  have hb : ∀ p ∈ ps, p = 0 := by
    intro p hp
    obtain ⟨k, x, hk, h1, h2, hl⟩ := s1 p hp
    rcases hbi _ p hl with rfl | rfl
    · rfl
    · exact absurd ⟨k, x, hk, h1, h2, hl⟩ hno
  have hbp := estimateBlackPoint_onePeak (histogram ps) (by simp [histogram, LUMINANCE_BUCKETS]) (histogram_onePeak ps hb)
  unfold globalSets
  have hn : ¬ (w < 1 ∨ h < 1) := by omega
  simp only [hn, if_false, hps, hbp]

end Gzx.Binarizer

namespace Gzx.ImagePath
open Gzx Gzx.Det Gzx.Binarizer

/-- the picture has a white pixel among those the global method samples -/
def WhiteSampleRows (w h : Nat) (rows : List (List Bool)) : Prop :=
  ∃ k x, k ∈ [1, 2, 3, 4] ∧ w / 5 ≤ x ∧ x < w * 4 / 5 ∧ (rows[h * k / 5]?).bind (·[x]?) = some false

/-- **every size, given a white sample**: the black matrix of the bit picture is the picture -/
theorem blackMatrixOfRows_white (w h : Nat) (rows : List (List Bool)) (hr : RowsOK w h rows) (hw : 1 ≤ w) (hh : 1 ≤ h)
    (hwhite : WhiteSampleRows w h rows) :
    ∃ bm, blackMatrixOfRows w h rows = .ok bm ∧ SamePicture bm w h rows := by
  by_cases hbig : 40 ≤ w ∧ 40 ≤ h
  · exact blackMatrixOfRows_local w h rows hr hbig.1 hbig.2
  · obtain ⟨k, x, hk, h1, h2, hpx⟩ := hwhite
    have hk4 : k ≤ 4 := by simp only [List.mem_cons, List.mem_nil_iff, or_false] at hk; omega
    have hrow : h * k / 5 < h := by
      have : h * k ≤ h * 4 := Nat.mul_le_mul_left h hk4
      omega
    have hl := lumOfRows_get w h rows hr x (h * k / 5) (by omega) hrow
    rw [hpx] at hl
    obtain ⟨sets, hs, _, hiff⟩ := global_bilevel_exact_of_white_sample (lumOfRows rows) w h hw hh
      (lumOfRows_size w h rows hr) (lumOfRows_bilevel rows) ⟨k, x, hk, h1, h2, by rw [hl]; rfl⟩
    refine ⟨blackImg w h sets, ?_, samePicture_of_exact w h rows hr sets hiff⟩
    unfold blackMatrixOfRows
    rw [Properties.C17.hybrid_small_is_global _ w h (by omega), hs]

/-- a rendered BitMatrix with a white pixel among those the global method samples -/
def WhiteSample (img : Render.Image) : Prop :=
  ∃ k x : Nat, k ∈ [1, 2, 3, 4] ∧ img.w.toNat / 5 ≤ x ∧ x < img.w.toNat * 4 / 5 ∧
    img.px (x : Int) ((img.h.toNat * k / 5 : Nat) : Int) = false

theorem blackMatrix_white (img : Render.Image) (hw : 1 ≤ img.w) (hh : 1 ≤ img.h) (hwhite : WhiteSample img) :
    ∃ bm, blackMatrix img = .ok bm ∧ SameAsImage bm img := by
  obtain ⟨k, x, hk, h1, h2, hpx⟩ := hwhite
  have hk4 : k ≤ 4 := by simp only [List.mem_cons, List.mem_nil_iff, or_false] at hk; omega
  have hrow : img.h.toNat * k / 5 < img.h.toNat := by
    have : img.h.toNat * k ≤ img.h.toNat * 4 := Nat.mul_le_mul_left _ hk4
    omega
  obtain ⟨bm, hb, hs⟩ := blackMatrixOfRows_white img.w.toNat img.h.toNat img.rows (image_rowsOK img) (by omega) (by omega)
    ⟨k, x, hk, h1, h2, by rw [image_rows_get img x _ (by omega) hrow, hpx]⟩
  exact ⟨bm, hb, sameAsImage_of bm img (by omega) (by omega) hs⟩

/-- the converse: below 40 pixels on an axis and with no white pixel among the sampled ones the bitmap yields NotFound -/
theorem blackMatrixOfRows_no_white (w h : Nat) (rows : List (List Bool)) (hr : RowsOK w h rows) (hw : 1 ≤ w) (hh : 1 ≤ h)
    (hsmall : w < 40 ∨ h < 40) (hno : ¬ WhiteSampleRows w h rows) :
    blackMatrixOfRows w h rows = .error .notFound := by
  unfold blackMatrixOfRows
  rw [Properties.C17.hybrid_small_is_global _ w h hsmall,
    global_bilevel_notfound_of_no_white_sample (lumOfRows rows) w h hw hh (lumOfRows_size w h rows hr)
      (lumOfRows_bilevel rows) ?_]
  rintro ⟨k, x, hk, h1, h2, hl⟩
  apply hno
  have hk4 : k ≤ 4 := by simp only [List.mem_cons, List.mem_nil_iff, or_false] at hk; omega
  have hrow : h * k / 5 < h := by
    have : h * k ≤ h * 4 := Nat.mul_le_mul_left h hk4
    omega
  rw [lumOfRows_get w h rows hr x (h * k / 5) (by omega) hrow] at hl
  refine ⟨k, x, hk, h1, h2, ?_⟩
  cases hb : (rows[h * k / 5]?).bind (·[x]?) with
  | none => rw [hb] at hl; cases hl
  | some b =>
    rw [hb] at hl
    cases b with
    | false => rfl
    | true => simp [grayAt] at hl

theorem blackMatrix_no_white (img : Render.Image) (hw : 1 ≤ img.w) (hh : 1 ≤ img.h)
    (hsmall : img.w < 40 ∨ img.h < 40) (hno : ¬ WhiteSample img) : blackMatrix img = .error .notFound := by
  refine blackMatrixOfRows_no_white img.w.toNat img.h.toNat img.rows (image_rowsOK img) (by omega) (by omega) (by omega) ?_
  rintro ⟨k, x, hk, h1, h2, hpx⟩
  apply hno
  have hk4 : k ≤ 4 := by simp only [List.mem_cons, List.mem_nil_iff, or_false] at hk; omega
  have hrow : img.h.toNat * k / 5 < img.h.toNat := by
    have : img.h.toNat * k ≤ img.h.toNat * 4 := Nat.mul_le_mul_left _ hk4
    omega
  rw [image_rows_get img x _ (by omega) hrow] at hpx
  exact ⟨k, x, hk, h1, h2, Option.some.inj hpx⟩

end Gzx.ImagePath
