/-
  Work package imgpath2d — QR: `QRCodeReader.moduleSize` / `extractPureBits` on an image that shows a module
  matrix with the QR finder structure (Gzx.Image2D.Shows, Proofs/Image2D.lean).

  Facts of the matrix the code uses:
    * the diagonal through the top-left finder pattern and its separator, modules (i,i) for i = 0..7:
      dark, light, dark, dark, dark, light, dark, light — the five transitions `moduleSize` counts; the walk ends
      on module (7,7) after 7·s pixels, so the module size is `float64(7s)/7.0`;
    * module (0,0) dark: `GetTopLeftOnBit` is the symbol's corner;
    * the last module row has a dark module in some column ≥ 1 (the bottom-left finder): `GetBottomRightOnBit`
      lies in the symbol's last pixel row; if the bottom-right module itself is light the code's "special case"
      (`right = left + (bottom - top)`) recovers the right edge.
  Float64 enters through `FOps`; the accuracy needed is `QRFloatExact o s n` (three equations), which every
  interpretation that is exact on the integers involved satisfies (`ExactOps`, e.g. the integer toy model;
  IEEE binary64 for values below 2^53 — checked on the Go side by the `img2d qrfloat` correspondence).
-/
import Gzx.Proofs.Image2D
namespace Gzx.Image2D
open Gzx Gzx.Det Gzx.Det.Pure

/-! ## one segment of the diagonal walk -/

/-- `L` cells of the current colour `c`, then a cell of the other colour, all inside `width x height`: the loop
    counts one transition; at the fifth it stops on that cell, otherwise it goes on behind it with the colour flipped -/
theorem msLoop_seg {rd : Reader} (width height left top : Int) (c : Bool) :
    ∀ (L n : Nat) (k tr : Int), L < n →
      (∀ i : Nat, i ≤ L → left + (k + i) < width ∧ top + (k + i) < height) →
      (∀ i : Nat, i < L → rd (left + (k + i)) (top + (k + i)) = .ok c) →
      rd (left + (k + L)) (top + (k + L)) = .ok (!c) →
      QR.msLoop rd width height left top n k c tr =
        if tr + 1 = 5 then .ok (k + L)
        else QR.msLoop rd width height left top (n - L - 1) (k + L + 1) (!c) (tr + 1) := by
  intro L
  induction L with
  | zero =>
    intro n k tr hn hlim _ hlast
    obtain ⟨n', rfl⟩ : ∃ n', n = n' + 1 := ⟨n - 1, by omega⟩
    have h0 := hlim 0 (Nat.le_refl _)
    simp only [Int.natCast_zero, Int.add_zero] at h0 hlast ⊢
    rw [QR.msLoop]
    simp only [h0, and_self, if_true, hlast, bind, Except.bind]
    have : (c != !c) = true := by cases c <;> rfl
    simp only [this, if_true]
    rfl
  | succ L ih =>
    intro n k tr hn hlim hrun hlast
    obtain ⟨n', rfl⟩ : ∃ n', n = n' + 1 := ⟨n - 1, by omega⟩
    have h0 := hlim 0 (Nat.zero_le _)
    have r0 := hrun 0 (Nat.succ_pos _)
    simp only [Int.natCast_zero, Int.add_zero] at h0 r0
    rw [QR.msLoop]
    simp only [h0, and_self, if_true, r0, bind, Except.bind]
    have : (c != c) = false := by cases c <;> rfl
    simp only [this, Bool.false_eq_true, if_false]
    have e : ∀ i : Nat, k + 1 + (i : Int) = k + ((i + 1 : Nat) : Int) := fun i => by omega
    rw [ih n' (k + 1) tr (by omega)
      (fun i hi => by rw [e]; exact hlim (i + 1) (by omega))
      (fun i hi => by rw [e]; exact hrun (i + 1) (by omega))
      (by rw [e]; exact hlast)]
    rw [show k + 1 + (L : Int) = k + ((L + 1 : Nat) : Int) by omega,
        show n' - L - 1 = n' + 1 - (L + 1) - 1 by omega]

/-! ## the finder diagonal -/

/-- colour of module `(i, i)`, `i < 8`, of any QR symbol: finder pattern and separator along the diagonal -/
def finderDiag (i : Nat) : Bool := i != 1 && i != 5 && i != 7

/-- what the QR pure-barcode code uses of an `n x n` module matrix -/
structure QRFinderFacts (n : Nat) (m : Nat → Nat → Bool) : Prop where
  size : 8 ≤ n
  diag : ∀ i, i < 8 → m i i = finderDiag i
  bottomRow : ∃ j, 1 ≤ j ∧ j < n ∧ m j (n - 1) = true

/-- the accuracy needed of float64 for module pitch `s` and dimension `n`: with `moduleSize = float64(7s)/7.0`,
    `Round(float64(n·s)/moduleSize) = n`, `int(moduleSize/2.0) = ⌊s/2⌋`, `int(float64(a)·moduleSize) = a·s` for
    `0 ≤ a < n` -/
structure QRFloatExact {F : Type} (o : FOps F) (s n : Int) : Prop where
  round_dim : o.round (o.div (o.ofInt (n * s)) (QR.msOf o (7 * s))) = n
  half : o.toInt (o.div (QR.msOf o (7 * s)) (o.ofInt 2)) = s / 2
  offs : ∀ a, 0 ≤ a → a < n → o.toInt (o.mul (o.ofInt a) (QR.msOf o (7 * s))) = a * s

/-- an interpretation that is exact on integers (quotients that are integers, products, halves) -/
structure ExactOps {F : Type} (o : FOps F) : Prop where
  div_exact : ∀ a b : Int, 0 < b → o.div (o.ofInt (a * b)) (o.ofInt b) = o.ofInt a
  mul_exact : ∀ a b : Int, o.mul (o.ofInt a) (o.ofInt b) = o.ofInt (a * b)
  toInt_ofInt : ∀ a : Int, o.toInt (o.ofInt a) = a
  round_ofInt : ∀ a : Int, 0 ≤ a → o.round (o.ofInt a) = a
  half_ofInt : ∀ a : Int, 0 ≤ a → o.toInt (o.div (o.ofInt a) (o.ofInt 2)) = a / 2

theorem ExactOps.qrFloatExact {F : Type} {o : FOps F} (h : ExactOps o) (s n : Int) (hs : 1 ≤ s) (hn : 0 ≤ n) :
    QRFloatExact o s n := by
  have hms : QR.msOf o (7 * s) = o.ofInt s := by
    unfold QR.msOf
    rw [Int.mul_comm 7 s]
    exact h.div_exact s 7 (by decide)
  refine ⟨?_, ?_, ?_⟩
  · rw [hms, h.div_exact n s (by omega)]
    exact h.round_ofInt n hn
  · rw [hms]; exact h.half_ofInt s (by omega)
  · intro a _ _
    rw [hms, h.mul_exact, h.toInt_ofInt]

namespace Shows
variable {img : Img} {mw mh : Nat} {m : Nat → Nat → Bool} {s padX padY : Int}

/-- pixel `k` of the diagonal that starts in the symbol's top-left corner -/
theorem diagPix (h : Shows img mw mh m s padX padY) (k : Int) (hk0 : 0 ≤ k)
    (hkx : k < (mw : Int) * s) (hky : k < (mh : Int) * s) :
    img.inside (padX + k) (padY + k) ∧ img.pix (padX + k) (padY + k) = m (k / s).toNat (k / s).toNat := by
  have hX := h.fitX; have hY := h.fitY; have hpx := h.padX_nonneg; have hpy := h.padY_nonneg
  have hin : img.inside (padX + k) (padY + k) := ⟨by omega, by omega, by omega, by omega⟩
  refine ⟨hin, ?_⟩
  have hp := h.pix _ _ hin
  rw [show padX + k - padX = k by omega, show padY + k - padY = k by omega] at hp
  cases hm : m (k / s).toNat (k / s).toNat with
  | true => rw [hp]; exact ⟨by omega, by omega, by omega, by omega, hm⟩
  | false =>
    cases hq : img.pix (padX + k) (padY + k) with
    | false => rfl
    | true => rw [hq] at hp; have := (hp.1 rfl).2.2.2.2; rw [hm] at this; cases this

end Shows

/-- module index of a pixel offset: `a·s ≤ k < b·s → a ≤ ⌊k/s⌋ < b` -/
theorem idx_range (s k : Int) (a b : Nat) (hs : 0 < s) (h1 : (a : Int) * s ≤ k) (h2 : k < (b : Int) * s) :
    a ≤ (k / s).toNat ∧ (k / s).toNat < b := by
  have c1 : (a : Int) ≤ k / s := (Int.le_ediv_iff_mul_le hs).2 h1
  have c2 : k / s < (b : Int) := (Int.ediv_lt_iff_lt_mul hs).2 h2
  omega

section qr
variable {img : Img} {n : Nat} {m : Nat → Nat → Bool} {s padX padY : Int} {rd : Reader}

/-- colour of diagonal pixel `k` when `a·s ≤ k < b·s` and modules `a..b-1` of the diagonal all have colour `c` -/
theorem diag_colour (h : Shows img n n m s padX padY) (hrd : Reads rd img) (hf : QRFinderFacts n m)
    (a b : Nat) (c : Bool) (hb : b ≤ 8) (hc : ∀ i, a ≤ i → i < b → finderDiag i = c)
    (k : Int) (h1 : (a : Int) * s ≤ k) (h2 : k < (b : Int) * s) :
    (padX + k < img.w ∧ padY + k < img.h) ∧ rd (padX + k) (padY + k) = .ok c := by
  have hs : 0 < s := by have := h.s_pos; omega
  have hn := hf.size
  have e8 : (b : Int) * s ≤ (n : Int) * s := Int.mul_le_mul_of_nonneg_right (by omega) (by omega)
  have ea : 0 ≤ (a : Int) * s := Int.mul_nonneg (by omega) (by omega)
  obtain ⟨hin, hp⟩ := h.diagPix k (by omega) (by omega) (by omega)
  obtain ⟨i1, i2⟩ := idx_range s k a b hs h1 h2
  refine ⟨⟨hin.2.1, hin.2.2.2⟩, ?_⟩
  rw [hrd _ _ hin, hp, hf.diag _ (by omega), hc _ i1 i2]

/-- **the diagonal walk of `QRCodeReader.moduleSize` ends after exactly seven modules** -/
theorem qr_moduleSize_shows {F : Type} (o : FOps F) (h : Shows img n n m s padX padY) (hrd : Reads rd img)
    (hf : QRFinderFacts n m) :
    QR.moduleSize o rd img.w img.h padX padY = .ok (QR.msOf o (7 * s), 7 * s) := by
  have hs := h.s_pos
  have hn := hf.size
  have hX := h.fitX; have hY := h.fitY; have hpx := h.padX_nonneg
  have e8 : (8 : Int) * s ≤ (n : Int) * s := Int.mul_le_mul_of_nonneg_right (by omega) (by omega)
  -- colours of the five runs
  have col := fun (a b : Nat) (c : Bool) (hb : b ≤ 8) (hc : ∀ i, a ≤ i → i < b → finderDiag i = c) =>
    diag_colour (rd := rd) h hrd hf a b c hb hc
  have dk : ∀ (a b : Nat), (∀ i, a ≤ i → i < b → finderDiag i = true) → b ≤ 8 → ∀ k : Int, (a : Int) * s ≤ k → k < (b : Int) * s →
      (padX + k < img.w ∧ padY + k < img.h) ∧ rd (padX + k) (padY + k) = .ok true :=
    fun a b hc hb k h1 h2 => col a b true hb hc k h1 h2
  have lt : ∀ (a b : Nat), (∀ i, a ≤ i → i < b → finderDiag i = false) → b ≤ 8 → ∀ k : Int, (a : Int) * s ≤ k → k < (b : Int) * s →
      (padX + k < img.w ∧ padY + k < img.h) ∧ rd (padX + k) (padY + k) = .ok false :=
    fun a b hc hb k h1 h2 => col a b false hb hc k h1 h2
  have c0 : ∀ i, 0 ≤ i → i < 1 → finderDiag i = true := fun i _ _ => by
    have : i = 0 := by omega
    subst this; rfl
  have c1 : ∀ i, 1 ≤ i → i < 2 → finderDiag i = false := fun i _ _ => by
    have : i = 1 := by omega
    subst this; rfl
  have c2 : ∀ i, 2 ≤ i → i < 5 → finderDiag i = true := fun i _ _ => by
    have : i = 2 ∨ i = 3 ∨ i = 4 := by omega
    rcases this with rfl | rfl | rfl <;> rfl
  have c5 : ∀ i, 5 ≤ i → i < 6 → finderDiag i = false := fun i _ _ => by
    have : i = 5 := by omega
    subst this; rfl
  have c6 : ∀ i, 6 ≤ i → i < 7 → finderDiag i = true := fun i _ _ => by
    have : i = 6 := by omega
    subst this; rfl
  have c7 : ∀ i, 7 ≤ i → i < 8 → finderDiag i = false := fun i _ _ => by
    have : i = 7 := by omega
    subst this; rfl
  -- a uniform way to discharge the hypotheses of `msLoop_seg` for the run [k, k+L) inside modules [a,b) and the cell k+L in [b, b')
  have seg : ∀ (c : Bool) (a b b' : Nat) (k : Int) (L N : Nat) (tr : Int),
      (∀ k' : Int, (a : Int) * s ≤ k' → k' < (b : Int) * s → (padX + k' < img.w ∧ padY + k' < img.h) ∧ rd (padX + k') (padY + k') = .ok c) →
      (∀ k' : Int, (b : Int) * s ≤ k' → k' < (b' : Int) * s → (padX + k' < img.w ∧ padY + k' < img.h) ∧ rd (padX + k') (padY + k') = .ok (!c)) →
      (a : Int) * s ≤ k → k + (L : Int) = (b : Int) * s → (b : Int) < b' → L < N →
      QR.msLoop rd img.w img.h padX padY N k c tr =
        if tr + 1 = 5 then .ok (k + L)
        else QR.msLoop rd img.w img.h padX padY (N - L - 1) (k + L + 1) (!c) (tr + 1) := by
    intro c a b b' k L N tr hA hB hk hkL hbb hN
    have eb : ((b : Int) + 1) * s ≤ (b' : Int) * s := Int.mul_le_mul_of_nonneg_right (by omega) (by omega)
    rw [Int.add_mul, Int.one_mul] at eb
    refine msLoop_seg img.w img.h padX padY c L N k tr hN ?_ ?_ ?_
    · intro i hi
      by_cases hi' : i < L
      · exact (hA (k + i) (by omega) (by omega)).1
      · have : i = L := by omega
        subst this
        exact (hB (k + i) (by omega) (by omega)).1
    · intro i hi
      exact (hA (k + i) (by omega) (by omega)).2
    · exact (hB (k + L) (by omega) (by omega)).2
  unfold QR.moduleSize
  have hst : s.toNat = s := by omega
  -- run 1: module 0 (dark), stops on module 1
  have s1 := seg true 0 1 2 0 s.toNat ((img.w - padX).toNat + 1) 0 (dk 0 1 c0 (by omega)) (lt 1 2 c1 (by omega))
    (by omega) (by omega) (by omega) (by omega)
  -- run 2: rest of module 1 (light), stops on module 2
  have s2 := seg false 1 2 5 (s + 1) (s - 1).toNat ((img.w - padX).toNat + 1 - s.toNat - 1) 1 (lt 1 2 c1 (by omega)) (dk 2 5 c2 (by omega))
    (by omega) (by omega) (by omega) (by omega)
  -- run 3: modules 2..4 (dark), stops on module 5
  have s3 := seg true 2 5 6 (2 * s + 1) (3 * s - 1).toNat ((img.w - padX).toNat + 1 - s.toNat - 1 - (s - 1).toNat - 1) 2
    (dk 2 5 c2 (by omega)) (lt 5 6 c5 (by omega)) (by omega) (by omega) (by omega) (by omega)
  -- run 4: module 5 (light), stops on module 6
  have s4 := seg false 5 6 7 (5 * s + 1) (s - 1).toNat
    ((img.w - padX).toNat + 1 - s.toNat - 1 - (s - 1).toNat - 1 - (3 * s - 1).toNat - 1) 3
    (lt 5 6 c5 (by omega)) (dk 6 7 c6 (by omega)) (by omega) (by omega) (by omega) (by omega)
  -- run 5: module 6 (dark), fifth transition on module 7
  have s5 := seg true 6 7 8 (6 * s + 1) (s - 1).toNat
    ((img.w - padX).toNat + 1 - s.toNat - 1 - (s - 1).toNat - 1 - (3 * s - 1).toNat - 1 - (s - 1).toNat - 1) 4
    (dk 6 7 c6 (by omega)) (lt 7 8 c7 (by omega)) (by omega) (by omega) (by omega) (by omega)
  simp only [Bool.not_true, Bool.not_false] at s1 s2 s3 s4 s5
  have k1 : (0 : Int) + (s.toNat : Int) + 1 = s + 1 := by omega
  have k2 : s + 1 + ((s - 1).toNat : Int) + 1 = 2 * s + 1 := by omega
  have k3 : 2 * s + 1 + ((3 * s - 1).toNat : Int) + 1 = 5 * s + 1 := by omega
  have k4 : 5 * s + 1 + ((s - 1).toNat : Int) + 1 = 6 * s + 1 := by omega
  have k5 : 6 * s + 1 + ((s - 1).toNat : Int) = 7 * s := by omega
  rw [k1] at s1; rw [k2] at s2; rw [k3] at s3; rw [k4] at s4; rw [k5] at s5
  have t1 : ¬ ((0 : Int) + 1 = 5) := by decide
  have t2 : ¬ ((1 : Int) + 1 = 5) := by decide
  have t3 : ¬ ((2 : Int) + 1 = 5) := by decide
  have t4 : ¬ ((3 : Int) + 1 = 5) := by decide
  have t5 : (4 : Int) + 1 = 5 := by decide
  simp only [t1, t2, t3, t4, t5, if_false, if_true] at s1 s2 s3 s4 s5
  rw [s1, show (0 : Int) + 1 = 1 by decide, s2, show (1 : Int) + 1 = 2 by decide, s3,
    show (2 : Int) + 1 = 3 by decide, s4, show (3 : Int) + 1 = 4 by decide, s5]
  simp only [bind, Except.bind, pure, Except.pure]
  have n1 : ¬ (padX + 7 * s = img.w ∨ padY + 7 * s = img.h) := by omega
  simp only [n1, if_false]
  rw [show padX + 7 * s - padX = 7 * s by omega]
  rfl

end qr

/-! ## the last dark module of a row -/

theorem exists_last (p : Nat → Bool) : ∀ (n j : Nat), j < n → p j = true →
    ∃ J, j ≤ J ∧ J < n ∧ p J = true ∧ ∀ j', J < j' → j' < n → p j' = false := by
  intro n
  induction n with
  | zero => intro j hj; omega
  | succ n ih =>
    intro j hj hp
    by_cases hl : p n = true
    · exact ⟨n, by omega, by omega, hl, fun j' a b => by omega⟩
    · have hjn : j < n := by
        rcases Nat.lt_or_ge j n with h | h
        · exact h
        · have : j = n := by omega
          subst this; exact absurd hp hl
      obtain ⟨J, h1, h2, h3, h4⟩ := ih j hjn hp
      refine ⟨J, h1, by omega, h3, ?_⟩
      intro j' a b
      by_cases hj' : j' = n
      · subst hj'; simpa using hl
      · exact h4 j' a (by omega)

section qr2
variable {img : Img} {mw mh : Nat} {m : Nat → Nat → Bool} {s padX padY : Int}

/-- `GetBottomRightOnBit` when the last module row's last dark module is in column `J` -/
theorem bottomRight_shows_col (h : Shows img mw mh m s padX padY) (hh : 1 ≤ mh) (J : Nat) (hJ : J < mw)
    (hd : m J (mh - 1) = true) (hlast : ∀ j', J < j' → j' < mw → m j' (mh - 1) = false) :
    bottomRight img = some (padX + ((J : Int) + 1) * s - 1, padY + (mh : Int) * s - 1) := by
  have hs := h.s_pos; have hX := h.fitX; have hY := h.fitY; have hpx := h.padX_nonneg; have hpy := h.padY_nonneg
  have hs0 : 0 < s := by omega
  have e2 : (1 : Int) * s ≤ (mh : Int) * s := Int.mul_le_mul_of_nonneg_right (by omega) (by omega)
  rw [Int.one_mul] at e2
  have eJ : ((J : Int) + 1) * s ≤ (mw : Int) * s := Int.mul_le_mul_of_nonneg_right (by omega) (by omega)
  have nJ : 0 ≤ (J : Int) * s := Int.mul_nonneg (by omega) (by omega)
  have hb := h.block J (mh - 1) hJ (by omega) (s - 1) (s - 1) ⟨by omega, by omega⟩ ⟨by omega, by omega⟩
  have cx : padX + (J : Int) * s + (s - 1) = padX + ((J : Int) + 1) * s - 1 := by rw [Int.add_mul]; omega
  have cy : padY + ((mh - 1 : Nat) : Int) * s + (s - 1) = padY + (mh : Int) * s - 1 := by
    rw [show ((mh - 1 : Nat) : Int) = (mh : Int) - 1 by omega, Int.sub_mul]; omega
  rw [cx, cy] at hb
  rw [Int.add_mul, Int.one_mul] at eJ
  unfold bottomRight
  refine bottomRightFrom_eq img _ _ _ (img.h - 1) (by omega) (by omega) ?_ ?_
  · intro y' a b x' c d
    exact h.white x' y' ⟨c, d, by omega, by omega⟩ (by omega)
  · refine rowLast_eq _ _ (img.w - 1) _ (by rw [Int.add_mul]; omega) (by rw [Int.add_mul]; omega) (by rw [hb.2, hd]) ?_
    intro x' a b
    rw [Int.add_mul, Int.one_mul] at a
    have hin : img.inside x' (padY + (mh : Int) * s - 1) := ⟨by omega, by omega, by omega, by omega⟩
    cases hq : img.pix x' (padY + (mh : Int) * s - 1) with
    | false => rfl
    | true =>
      exfalso
      obtain ⟨p1, p2, p3, p4, p5⟩ := (h.pix _ _ hin).1 hq
      -- the module column of x' lies right of J
      have i1 : J + 1 ≤ ((x' - padX) / s).toNat ∧ ((x' - padX) / s).toNat < mw :=
        idx_range s (x' - padX) (J + 1) mw hs0 (by rw [Int.natCast_add, Int.add_mul]; simp; omega) (by omega)
      have i2 : mh - 1 ≤ ((padY + (mh : Int) * s - 1 - padY) / s).toNat ∧ ((padY + (mh : Int) * s - 1 - padY) / s).toNat < mh :=
        idx_range s _ (mh - 1) mh hs0
          (by rw [show ((mh - 1 : Nat) : Int) = (mh : Int) - 1 by omega, Int.sub_mul]; omega) (by omega)
      have : ((padY + (mh : Int) * s - 1 - padY) / s).toNat = mh - 1 := by omega
      rw [this] at p5
      rw [hlast _ (by omega) i1.2] at p5
      cases p5

end qr2

section qr3
variable {img : Img} {n : Nat} {m : Nat → Nat → Bool} {s padX padY : Int} {rd : Reader}

/-- **QR `extractPureBits` on an image that shows `m` returns exactly `m`**, for every float interpretation that is
    accurate enough for this pitch and dimension -/
theorem qr_extract_shows {F : Type} (o : FOps F) (h : Shows img n n m s padX padY) (hrd : Reads rd img)
    (hf : QRFinderFacts n m) (ho : QRFloatExact o s n) :
    QR.extractPureBits o rd img = .ok { w := n, h := n, rows := matrixRows n n m } := by
  have hs := h.s_pos
  have hn := hf.size
  have hX := h.fitX; have hY := h.fitY; have hpx := h.padX_nonneg; have hpy := h.padY_nonneg
  obtain ⟨j, hj1, hjn, hjd⟩ := hf.bottomRow
  obtain ⟨J, hJ1, hJn, hJd, hJlast⟩ := exists_last (fun j => m j (n - 1)) n j hjn hjd
  have e2 : (2 : Int) * s ≤ ((J : Int) + 1) * s := Int.mul_le_mul_of_nonneg_right (by omega) (by omega)
  have eJ : ((J : Int) + 1) * s ≤ (n : Int) * s := Int.mul_le_mul_of_nonneg_right (by omega) (by omega)
  have e8 : (8 : Int) * s ≤ (n : Int) * s := Int.mul_le_mul_of_nonneg_right (by omega) (by omega)
  have h00 : m 0 0 = true := by rw [hf.diag 0 (by omega)]; rfl
  unfold QR.extractPureBits
  rw [topLeft_shows h (by omega) (by omega) h00,
    bottomRight_shows_col h (by omega) J hJn hJd (fun j' a b => hJlast j' a b)]
  simp only [qr_moduleSize_shows o h hrd hf, bind, Except.bind]
  have sane : ¬ (padX ≥ padX + ((J : Int) + 1) * s - 1 ∨ padY ≥ padY + (n : Int) * s - 1) := by omega
  simp only [sane, if_false]
  -- the right edge, in both cases
  have hright : (if padY + (n : Int) * s - 1 - padY ≠ padX + ((J : Int) + 1) * s - 1 - padX then
        (if padX + (padY + (n : Int) * s - 1 - padY) ≥ img.w then (.error .notFound : Res Int)
          else .ok (padX + (padY + (n : Int) * s - 1 - padY)))
      else .ok (padX + ((J : Int) + 1) * s - 1)) = .ok (padX + (n : Int) * s - 1) := by
    by_cases hJe : J + 1 = n
    · have : ((J : Int) + 1) * s = (n : Int) * s := by rw [← hJe]; simp
      have hc : ¬ (padY + (n : Int) * s - 1 - padY ≠ padX + ((J : Int) + 1) * s - 1 - padX) := by omega
      simp only [hc, if_false]
      rw [this]
    · have hlt : ((J : Int) + 1 + 1) * s ≤ (n : Int) * s := Int.mul_le_mul_of_nonneg_right (by omega) (by omega)
      rw [Int.add_mul _ 1 s, Int.one_mul] at hlt
      have hc : padY + (n : Int) * s - 1 - padY ≠ padX + ((J : Int) + 1) * s - 1 - padX := by omega
      have hw : ¬ (padX + (padY + (n : Int) * s - 1 - padY) ≥ img.w) := by omega
      simp only [hc, ne_eq, not_false_eq_true, if_true, hw, if_false]
      congr 1; omega
  rw [hright]
  simp only []
  have d1 : padX + (n : Int) * s - 1 - padX + 1 = (n : Int) * s := by omega
  have d2 : padY + (n : Int) * s - 1 - padY + 1 = (n : Int) * s := by omega
  rw [d1, d2]
  have hms : ∀ x, o.div (o.ofInt x) (o.ofInt 7) = QR.msOf o x := fun _ => rfl
  simp only [ho.round_dim, ho.half]
  have npos : ¬ ((n : Int) ≤ 0 ∨ (n : Int) ≤ 0) := by omega
  have neq : ¬ ((n : Int) ≠ (n : Int)) := by simp
  simp only [npos, neq, if_false]
  have o1 := ho.offs ((n : Int) - 1) (by omega) (by omega)
  rw [o1]
  have far1 : ¬ (padX + s / 2 + ((n : Int) - 1) * s - (padX + (n : Int) * s - 1) > 0) := by
    rw [Int.sub_mul]; omega
  have far2 : ¬ (padY + s / 2 + ((n : Int) - 1) * s - (padY + (n : Int) * s - 1) > 0) := by
    rw [Int.sub_mul]; omega
  simp only [QR.unNudge, far1, far2, if_false]
  refine readOff_eq n n m _ _ (by omega) (by omega) ?_
  intro i k hi hk
  have hb := h.block i k hi hk (s / 2) (s / 2) ⟨by omega, by omega⟩ ⟨by omega, by omega⟩
  rw [ho.offs i (by omega) (by omega), ho.offs k (by omega) (by omega)]
  have ex : padX + s / 2 + (i : Int) * s = padX + (i : Int) * s + s / 2 := by omega
  have ey : padY + s / 2 + (k : Int) * s = padY + (k : Int) * s + s / 2 := by omega
  rw [ex, ey, hrd _ _ hb.1, hb.2]

end qr3

end Gzx.Image2D
