/-
  Proof of the C18 non-interference invariant: by induction over the schedule, every reachable
  state is determined by the program counters alone and each goroutine's view coincides with
  its solo execution.
-/
import Gzx.Model.Interference
namespace Gzx.Interference

theorem upd_same {α : Type} (f : Nat → α) (i : Nat) (v : α) : upd f i v i = v := by simp [upd]
theorem upd_other {α : Type} (f : Nat → α) (i j : Nat) (v : α) (h : j ≠ i) : upd f i v j = f j := by
  simp [upd, h]

/-- one more step of a solo run -/
theorem alone_succ (prog : List Step) (p0 : PStore) (G0 : GStore) (k : Nat) (s : Step)
    (h : prog[k]? = some s) : alone prog p0 G0 (k + 1) = exec s (alone prog p0 G0 k) := by
  unfold alone
  rw [List.take_add_one, h]
  simp [List.foldl_append]

/-- a step that does not write `loc` leaves it alone -/
theorem exec_frame (s : Step) (st : PStore × GStore) (loc : Loc) (h : ¬ s.writes loc) :
    (exec s st).2 loc = st.2 loc := by
  obtain ⟨p, G⟩ := st
  cases s with
  | read r l => rfl
  | write l e =>
    have : loc ≠ l := fun e' => h (by simp [Step.writes, e'])
    simp [exec, upd, this]
  | localStep f => rfl

/-- a goroutine that never writes `loc` sees the initial value there throughout its solo run -/
theorem alone_frame (prog : List Step) (p0 : PStore) (G0 : GStore) (loc : Loc)
    (h : ∀ s, s ∈ prog → ¬ s.writes loc) (k : Nat) : (alone prog p0 G0 k).2 loc = G0 loc := by
  induction k with
  | zero => simp [alone]
  | succ k ih =>
    cases hk : prog[k]? with
    | none =>
      have hlen : prog.length ≤ k := by
        rcases Nat.lt_or_ge k prog.length with hlt | hge
        · rw [List.getElem?_eq_getElem hlt] at hk; cases hk
        · exact hge
      have e1 : prog.take (k + 1) = prog := List.take_of_length_le (by omega)
      have e2 : prog.take k = prog := List.take_of_length_le hlen
      unfold alone at ih ⊢
      rw [e1]; rw [e2] at ih; exact ih
    | some s =>
      rw [alone_succ prog p0 G0 k s hk, exec_frame s _ loc (h s (List.mem_of_getElem? hk)), ih]

/-- the invariant: the state is a function of the program counters -/
structure Inv (prog : Gid → List Step) (Shared : Loc → Prop) (owner : Loc → Gid)
    (P0 : Gid → PStore) (G0 : GStore) (st : State) : Prop where
  priv : ∀ g, st.P g = (alone (prog g) (P0 g) G0 (st.pc g)).1
  shared : ∀ loc, Shared loc → st.G loc = G0 loc
  owned : ∀ loc, ¬ Shared loc →
    st.G loc = (alone (prog (owner loc)) (P0 (owner loc)) G0 (st.pc (owner loc))).2 loc

theorem inv_init (prog : Gid → List Step) (Shared : Loc → Prop) (owner : Loc → Gid)
    (P0 : Gid → PStore) (G0 : GStore) : Inv prog Shared owner P0 G0 (init P0 G0) :=
  ⟨fun _ => by simp [init, alone], fun _ _ => rfl, fun _ _ => by simp [init, alone]⟩

theorem inv_step (prog : Gid → List Step) (Shared : Loc → Prop) (owner : Loc → Gid)
    (P0 : Gid → PStore) (G0 : GStore) (hI : Independent prog Shared owner)
    (st : State) (hinv : Inv prog Shared owner P0 G0 st) (g : Gid) :
    Inv prog Shared owner P0 G0 (stepOf prog st g) := by
  unfold stepOf
  cases hs : (prog g)[st.pc g]? with
  | none => exact hinv
  | some s =>
    have hmem : s ∈ prog g := List.mem_of_getElem? hs
    have hsucc := alone_succ (prog g) (P0 g) G0 (st.pc g) s hs
    have hp := hinv.priv g
    -- the solo state of g before this step
    generalize hA : alone (prog g) (P0 g) G0 (st.pc g) = A at hsucc hp
    -- what g can see of the global store equals what it sees when running alone
    have hview : ∀ loc, s.accesses loc → st.G loc = A.2 loc := by
      intro loc hacc
      by_cases hsh : Shared loc
      · rw [hinv.shared loc hsh]
        have := alone_frame (prog g) (P0 g) G0 loc (fun s' hs' hw => hI.noSharedWrite g s' hs' loc hw hsh) (st.pc g)
        rw [hA] at this; exact this.symm
      · have ho := hI.ownInstances g s hmem loc hacc hsh
        have := hinv.owned loc hsh
        rw [ho, hA] at this; exact this
    cases s with
    | read r l =>
      have hv : st.G l = A.2 l := hview l (Or.inl rfl)
      refine ⟨?_, ?_, ?_⟩
      · intro g'
        by_cases e : g' = g
        · subst e
          simp only [upd_same]
          rw [hsucc]
          obtain ⟨a1, a2⟩ := A
          simp only [exec] at hv ⊢
          simp only at hp
          rw [hp, hv]
        · simp only [upd_other _ _ _ _ e]
          exact hinv.priv g'
      · intro loc hsh; exact hinv.shared loc hsh
      · intro loc hsh
        by_cases e : owner loc = g
        · simp only [e, upd_same]
          rw [hsucc]
          have := hinv.owned loc hsh
          rw [e, hA] at this
          obtain ⟨a1, a2⟩ := A
          simpa [exec] using this
        · simp only [upd_other _ _ _ _ e]
          exact hinv.owned loc hsh
    | write l e =>
      have hnsh : ¬ Shared l := hI.noSharedWrite g _ hmem l rfl
      have hown : owner l = g := hI.ownInstances g _ hmem l (Or.inr rfl) hnsh
      refine ⟨?_, ?_, ?_⟩
      · intro g'
        by_cases e' : g' = g
        · subst e'
          simp only [upd_same]
          rw [hsucc]
          obtain ⟨a1, a2⟩ := A
          simp only [exec]
          exact hp
        · simp only [upd_other _ _ _ _ e']
          exact hinv.priv g'
      · intro loc hsh
        have hne : loc ≠ l := fun h => hnsh (h ▸ hsh)
        simp only [exec, upd_other _ _ _ _ hne]
        exact hinv.shared loc hsh
      · intro loc hsh
        by_cases e' : owner loc = g
        · simp only [e', upd_same]
          rw [hsucc]
          have hold := hinv.owned loc hsh
          rw [e', hA] at hold
          obtain ⟨a1, a2⟩ := A
          simp only at hp
          simp only [exec]
          by_cases hl : loc = l
          · subst hl; simp only [upd_same]; rw [hp]
          · simp only [upd_other _ _ _ _ hl]; exact hold
        · have hne : loc ≠ l := fun h => e' (h ▸ hown)
          simp only [exec, upd_other _ _ _ _ hne, upd_other _ _ _ _ e']
          exact hinv.owned loc hsh
    | localStep f =>
      refine ⟨?_, ?_, ?_⟩
      · intro g'
        by_cases e : g' = g
        · subst e
          simp only [upd_same]
          rw [hsucc]
          obtain ⟨a1, a2⟩ := A
          simp only [exec]
          simp only at hp
          rw [hp]
        · simp only [upd_other _ _ _ _ e]
          exact hinv.priv g'
      · intro loc hsh; exact hinv.shared loc hsh
      · intro loc hsh
        by_cases e : owner loc = g
        · simp only [e, upd_same]
          rw [hsucc]
          have := hinv.owned loc hsh
          rw [e, hA] at this
          obtain ⟨a1, a2⟩ := A
          simpa [exec] using this
        · simp only [upd_other _ _ _ _ e]
          exact hinv.owned loc hsh

theorem inv_run (prog : Gid → List Step) (Shared : Loc → Prop) (owner : Loc → Gid)
    (P0 : Gid → PStore) (G0 : GStore) (hI : Independent prog Shared owner)
    (sched : List Gid) (st : State) (hinv : Inv prog Shared owner P0 G0 st) :
    Inv prog Shared owner P0 G0 (run prog sched st) := by
  induction sched generalizing st with
  | nil => exact hinv
  | cons g rest ih =>
    simp only [run, List.foldl_cons]
    exact ih _ (inv_step prog Shared owner P0 G0 hI st hinv g)

/-! ### program counters after a schedule -/

def countG (g : Gid) (sched : List Gid) : Nat := (sched.filter (fun x => x == g)).length

theorem pc_step (prog : Gid → List Step) (st : State) (g g' : Gid) (h : st.pc g' ≤ (prog g').length) :
    (stepOf prog st g).pc g' = (if g = g' then min (st.pc g' + 1) (prog g').length else st.pc g') ∧
    (stepOf prog st g).pc g' ≤ (prog g').length := by
  unfold stepOf
  cases hs : (prog g)[st.pc g]? with
  | none =>
    have hlen : (prog g).length ≤ st.pc g := by
      rcases Nat.lt_or_ge (st.pc g) (prog g).length with hlt | hge
      · rw [List.getElem?_eq_getElem hlt] at hs; cases hs
      · exact hge
    by_cases e : g = g'
    · subst e
      simp only [if_true]
      exact ⟨by omega, h⟩
    · simp only [e, if_false]
      exact ⟨trivial, h⟩
  | some s =>
    have hlt : st.pc g < (prog g).length := by
      rcases Nat.lt_or_ge (st.pc g) (prog g).length with hlt | hge
      · exact hlt
      · rw [List.getElem?_eq_none hge] at hs; cases hs
    by_cases e : g = g'
    · subst e
      simp only [upd_same, if_true]
      exact ⟨by omega, by omega⟩
    · have e' : g' ≠ g := fun h => e h.symm
      simp only [upd_other _ _ _ _ e', e, if_false]
      exact ⟨trivial, h⟩

theorem pc_run (prog : Gid → List Step) (sched : List Gid) (st : State)
    (h : ∀ g, st.pc g ≤ (prog g).length) (g : Gid) :
    (run prog sched st).pc g = min (st.pc g + countG g sched) (prog g).length := by
  induction sched generalizing st with
  | nil => simp [run, countG]; exact (Nat.min_eq_left (h g)).symm
  | cons x rest ih =>
    simp only [run, List.foldl_cons]
    have hb : ∀ g', (stepOf prog st x).pc g' ≤ (prog g').length := fun g' => (pc_step prog st x g' (h g')).2
    have := ih (stepOf prog st x) hb
    simp only [run] at this
    rw [this, (pc_step prog st x g (h g)).1]
    have hg := h g
    by_cases e : x = g
    · subst e
      simp only [if_true, countG, List.filter_cons, beq_self_eq_true, List.length_cons]
      omega
    · have : (x == g) = false := by simpa using e
      simp only [e, if_false, countG, List.filter_cons, this]
      simp

end Gzx.Interference
