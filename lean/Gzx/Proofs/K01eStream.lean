/-
  wp k01dec2 — `readBits_refines`: the cursor model of BitSource (`BitSource.readBits`) and the bit-list model
  (`QRDec.readBits`) agree (see Proofs/K01eStreamBits.lean for the statement of intent and the list lemmas).
-/
import Gzx.Proofs.K01eStreamBits
namespace Gzx.BitSource
open Gzx.QRDec (natOfBits natToBits bytesToBits)

/-- all elements are bytes -/
def Bytes (s : BitSource) : Prop := ∀ b ∈ s.bytes, b < 256

theorem byteAt_drop (s : BitSource) (off : Nat) (h : off < s.bytes.length) :
    ∃ b, byteAt s off = .ok b ∧ s.bytes.drop off = b :: s.bytes.drop (off + 1) ∧ b ∈ s.bytes := by
  refine ⟨s.bytes[off], ?_, ?_, List.getElem_mem h⟩
  · unfold byteAt; rw [List.getElem?_eq_getElem h]
  · rw [List.drop_eq_getElem_cons h]

theorem shl_or_eq (a x m : Nat) (hx : x < 2 ^ m) : (a <<< m) ||| x = a * 2 ^ m + x := by
  rw [← Nat.shiftLeft_add_eq_or_of_lt hx a, Nat.shiftLeft_eq]

/-- the whole-byte loop: the accumulator is extended by the bits of the next `k` bytes -/
theorem readWhole_val (s : BitSource) (hb : Bytes s) :
    ∀ (k off acc : Nat), off + k ≤ s.bytes.length →
      readWhole s k off acc =
        .ok (acc * 2 ^ (8 * k) + natOfBits (bytesToBits ((s.bytes.drop off).take k)), off + k) := by
  intro k
  induction k with
  | zero => intro off acc _; simp [readWhole, bytesToBits, natOfBits]
  | succ k ih =>
    intro off acc hlen
    obtain ⟨b, hbyte, hdrop, hmem⟩ := byteAt_drop s off (by omega)
    have hb8 : b < 256 := hb b hmem
    have hand : b &&& 0xFF = b := by
      have := Nat.and_two_pow_sub_one_eq_mod b 8
      simp at this
      rw [this]; exact Nat.mod_eq_of_lt hb8
    simp only [readWhole, hbyte, hand]
    rw [ih (off + 1) _ (by omega), hdrop, List.take_succ_cons, bytesToBits_cons, natOfBits_append,
      byte_whole b hb8, bytesToBits_length, shl_or_eq acc b 8 (by omega)]
    have hl : ((s.bytes.drop (off + 1)).take k).length = k := by
      rw [List.length_take, List.length_drop]; omega
    rw [hl]
    congr 2
    · have e : 2 ^ (8 * (k + 1)) = 2 ^ 8 * 2 ^ (8 * k) := by rw [← Nat.pow_add]; congr 1; omega
      rw [e, Nat.add_mul, Nat.mul_assoc, Nat.add_assoc]
    · omega

/-- phases 2 and 3 from a byte boundary: the accumulator is extended by the next `n1` bits of the buffer -/
theorem readRest_val (s : BitSource) (hb : Bytes s) (r n1 byo : Nat) (hn1 : n1 > 0)
    (hav : 8 * byo + n1 ≤ 8 * s.bytes.length) :
    ∃ s', readRest s r n1 byo 0 =
        .ok (r * 2 ^ n1 + natOfBits ((bytesToBits (s.bytes.drop byo)).take n1), s') ∧
      position s' = 8 * byo + n1 ∧ s'.bytes = s.bytes := by
  unfold readRest
  rw [if_pos hn1, readWhole_val s hb (n1 / 8) byo r (by omega)]
  simp only
  have hsplit : (bytesToBits (s.bytes.drop byo)).take n1 =
      bytesToBits ((s.bytes.drop byo).take (n1 / 8)) ++ ((bytesToBits (s.bytes.drop (byo + n1 / 8))).take (n1 % 8)) := by
    have e : n1 = 8 * (n1 / 8) + n1 % 8 := by omega
    conv => lhs; rw [e, List.take_add, bytesToBits_take, bytesToBits_drop, List.drop_drop]
  have hpow : 2 ^ n1 = 2 ^ (8 * (n1 / 8)) * 2 ^ (n1 % 8) := by rw [← Nat.pow_add]; congr 1; omega
  by_cases hn2 : n1 % 8 > 0
  · rw [if_pos hn2]
    obtain ⟨b, hbyte, hdrop, hmem⟩ := byteAt_drop s (byo + n1 / 8) (by omega)
    have hb8 : b < 256 := hb b hmem
    simp only [hbyte]
    refine ⟨{ s with byteOffset := byo + n1 / 8, bitOffset := 0 + n1 % 8 }, ?_, by simp only [position]; omega, rfl⟩
    congr 2
    have hx : (b >>> (8 - n1 % 8)) % 2 ^ (n1 % 8) < 2 ^ (n1 % 8) := Nat.mod_lt _ (Nat.two_pow_pos _)
    have htk : ((bytesToBits (s.bytes.drop (byo + n1 / 8))).take (n1 % 8)) = ((natToBits 8 b).drop 0).take (n1 % 8) := by
      rw [hdrop, bytesToBits_cons, List.take_append_of_le_length (by rw [natToBits_length]; omega), List.drop_zero]
    have hsl := byte_slice b hb8 0 (by decide) (n1 % 8) (by omega) (by omega)
    have hlen : (((natToBits 8 b).drop 0).take (n1 % 8)).length = n1 % 8 := by
      rw [List.drop_zero, List.length_take, natToBits_length]; omega
    rw [shl_or_eq _ _ _ hx, hsplit, natOfBits_append, htk, hlen, hsl, hpow]
    simp only [Nat.sub_zero]
    rw [Nat.add_mul, Nat.mul_assoc, Nat.add_assoc]
  · rw [if_neg hn2]
    have h0 : n1 % 8 = 0 := by omega
    refine ⟨{ s with byteOffset := byo + n1 / 8, bitOffset := 0 }, ?_, by simp only [position]; omega, rfl⟩
    congr 2
    rw [hsplit, h0, List.take_zero, List.append_nil, hpow, h0]
    simp

/-- the bits of the buffer from the cursor on: the state of the bit-list model -/
def unread (s : BitSource) : List Bool := (bytesToBits s.bytes).drop (position s)

theorem unread_length (s : BitSource) : (unread s).length = 8 * s.bytes.length - position s := by
  unfold unread; rw [List.length_drop, bytesToBits_length]

theorem unread_split (s : BitSource) (hbo : s.bitOffset ≤ 8) (hlt : s.byteOffset < s.bytes.length) :
    ∃ b, byteAt s s.byteOffset = .ok b ∧ b ∈ s.bytes ∧
      unread s = (natToBits 8 b).drop s.bitOffset ++ bytesToBits (s.bytes.drop (s.byteOffset + 1)) := by
  obtain ⟨b, hbyte, hdrop, hmem⟩ := byteAt_drop s s.byteOffset hlt
  refine ⟨b, hbyte, hmem, ?_⟩
  unfold unread position
  rw [← List.drop_drop, bytesToBits_drop, hdrop, bytesToBits_cons,
    List.drop_append_of_le_length (by rw [natToBits_length]; exact hbo)]

/-- the VALUE of `ReadBits`: the big-endian number of the next `n` unread bits -/
theorem readBits_val (s : BitSource) (hs : WF s) (hb : Bytes s) (n : Nat) (h1 : 1 ≤ n) (h32 : n ≤ 32)
    (hav : (n : Int) ≤ available s) :
    ∃ s', readBits s (n : Int) = .ok (natOfBits ((unread s).take n), s') ∧ position s' = position s + n ∧
      s'.bytes = s.bytes := by
  obtain ⟨h8, hle, hlt⟩ := hs
  have hav' : 8 * s.byteOffset + s.bitOffset + n ≤ 8 * s.bytes.length := by unfold available at hav; omega
  unfold readBits
  rw [if_neg (by omega), Int.toNat_natCast]
  unfold readFirst
  by_cases hbio : s.bitOffset > 0
  · rw [if_pos hbio]
    have hlen := hlt hbio
    obtain ⟨b, hbyte, hmem, hun⟩ := unread_split s (by omega) hlen
    have hb8 : b < 256 := hb b hmem
    simp only [hbyte]
    have hA : ((natToBits 8 b).drop s.bitOffset).length = 8 - s.bitOffset := by
      rw [List.length_drop, natToBits_length]
    by_cases hsmall : n < 8 - s.bitOffset
    · have hne : ¬ (s.bitOffset + n = 8) := by omega
      simp only [hsmall, if_true, hne, if_false]
      have hz : ¬ (n - n > 0) := by omega
      unfold readRest
      rw [if_neg hz]
      refine ⟨{ s with byteOffset := s.byteOffset, bitOffset := s.bitOffset + n }, ?_, by simp only [position]; omega, rfl⟩
      congr 2
      rw [hun, List.take_append_of_le_length (by rw [hA]; omega),
        byte_slice b hb8 s.bitOffset (by omega) n (by omega) (by omega)]
    · have he : s.bitOffset + (8 - s.bitOffset) = 8 := by omega
      simp only [hsmall, if_false, he, if_true]
      have hsl := byte_slice b hb8 s.bitOffset (by omega) (8 - s.bitOffset) (by omega) (by omega)
      have hAll : ((natToBits 8 b).drop s.bitOffset).take (8 - s.bitOffset) = (natToBits 8 b).drop s.bitOffset :=
        List.take_of_length_le (by rw [hA]; exact Nat.le_refl _)
      rw [hAll] at hsl
      by_cases hn1 : n - (8 - s.bitOffset) > 0
      · obtain ⟨s', hr, hp, hby⟩ := readRest_val s hb ((b >>> (8 - s.bitOffset - (8 - s.bitOffset))) % 2 ^ (8 - s.bitOffset))
          (n - (8 - s.bitOffset)) (s.byteOffset + 1) hn1 (by omega)
        refine ⟨s', ?_, by rw [hp]; simp only [position]; omega, hby⟩
        rw [hr]
        congr 2
        have hlen2 : ((bytesToBits (s.bytes.drop (s.byteOffset + 1))).take (n - (8 - s.bitOffset))).length = n - (8 - s.bitOffset) := by
          rw [List.length_take, bytesToBits_length, List.length_drop]; omega
        have hT : ((natToBits 8 b).drop s.bitOffset).take n = (natToBits 8 b).drop s.bitOffset :=
          List.take_of_length_le (by rw [hA]; omega)
        rw [hun, List.take_append, hT, hA, natOfBits_append, hlen2, hsl]
      · unfold readRest
        rw [if_neg hn1]
        refine ⟨{ s with byteOffset := s.byteOffset + 1, bitOffset := 0 }, ?_, by simp only [position]; omega, rfl⟩
        congr 2
        have hn : n = 8 - s.bitOffset := by omega
        rw [hun, List.take_append_of_le_length (by rw [hA]; omega), hn, hAll, hsl]
  · rw [if_neg hbio]
    have h0 : s.bitOffset = 0 := by omega
    simp only
    obtain ⟨s', hr, hp, hby⟩ := readRest_val s hb 0 n s.byteOffset (by omega) (by omega)
    refine ⟨s', ?_, by rw [hp]; simp only [position]; omega, hby⟩
    rw [hr]
    congr 2
    unfold unread position
    rw [h0, Nat.add_zero, bytesToBits_drop]
    simp

end Gzx.BitSource
