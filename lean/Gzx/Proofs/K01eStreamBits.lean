/-
  wp k01dec2 — the two models of `common/bit_source.go` are the same function:

    * `Model/BitSource.lean` (`BitSource.readBits`): the CURSOR model — bytes, byteOffset, bitOffset and the three phases of the Go
      code (rest of the current byte, whole bytes, a partial byte); it carries C06's totality theorems and is what the regenerated
      `ReadBits` is proved equal to (`Obligations/K01eBits.lean`);
    * `Model/QRBits.lean` (`QRDec.readBits`): the BIT-LIST model — the list of unread bits, `ReadBits(n)` = the big-endian number of
      the next `n` bits; it carries C01's round-trip and C05's tolerance theorems.

  Until now the two were tied to each other by correspondence only.  `readBits_refines`: for every well-formed source over bytes
  (< 256) and every `n`, the cursor model returns exactly the value and the remaining bits of the bit-list model on
  `unread s` = the bits of the buffer from the cursor on.
-/
import Gzx.Proofs.BitSource
import Gzx.Model.QRBits
namespace Gzx.BitSource
open Gzx.QRDec (natOfBits natToBits bytesToBits)

/-! ### big-endian numbers of bit lists -/

theorem foldl_bits (bs : List Bool) : ∀ acc : Nat,
    bs.foldl (fun a b => 2 * a + b.toNat) acc = acc * 2 ^ bs.length + natOfBits bs := by
  induction bs with
  | nil => intro acc; simp [natOfBits]
  | cons b bs ih =>
    intro acc
    have h0 := ih (2 * 0 + b.toNat)
    have h1 := ih (2 * acc + b.toNat)
    simp only [natOfBits, List.foldl, List.length_cons] at *
    rw [h1, h0]
    have e1 : (2 * acc + b.toNat) * 2 ^ bs.length = 2 * (acc * 2 ^ bs.length) + b.toNat * 2 ^ bs.length := by
      rw [Nat.add_mul, Nat.mul_assoc]
    have e2 : acc * 2 ^ (bs.length + 1) = 2 * (acc * 2 ^ bs.length) := by
      rw [Nat.pow_succ, ← Nat.mul_assoc, Nat.mul_comm]
    have e3 : (2 * 0 + b.toNat) * 2 ^ bs.length = b.toNat * 2 ^ bs.length := by simp
    rw [e1, e2, e3]
    omega

theorem natOfBits_append (xs ys : List Bool) : natOfBits (xs ++ ys) = natOfBits xs * 2 ^ ys.length + natOfBits ys := by
  unfold natOfBits
  rw [List.foldl_append, foldl_bits ys]
  rfl

theorem natToBits_length : ∀ (w n : Nat), (natToBits w n).length = w
  | 0, _ => rfl
  | w + 1, n => by simp [natToBits, natToBits_length w]

theorem bytesToBits_cons (b : Nat) (bs : List Nat) : bytesToBits (b :: bs) = natToBits 8 b ++ bytesToBits bs := by
  simp [bytesToBits]

theorem bytesToBits_length : ∀ bs : List Nat, (bytesToBits bs).length = 8 * bs.length
  | [] => rfl
  | b :: bs => by rw [bytesToBits_cons, List.length_append, natToBits_length, bytesToBits_length bs, List.length_cons]; omega

theorem bytesToBits_drop : ∀ (j : Nat) (bs : List Nat), (bytesToBits bs).drop (8 * j) = bytesToBits (bs.drop j)
  | 0, _ => rfl
  | j + 1, [] => by simp [bytesToBits]
  | j + 1, b :: bs => by
    have h0 : (natToBits 8 b).drop (8 * (j + 1)) = [] := List.drop_eq_nil_of_le (by rw [natToBits_length]; omega)
    have e : 8 * (j + 1) - (natToBits 8 b).length = 8 * j := by rw [natToBits_length]; omega
    rw [bytesToBits_cons, List.drop_append, h0, e, List.nil_append, bytesToBits_drop j bs]; rfl

theorem bytesToBits_take : ∀ (k : Nat) (bs : List Nat), (bytesToBits bs).take (8 * k) = bytesToBits (bs.take k)
  | 0, _ => rfl
  | k + 1, [] => by simp [bytesToBits]
  | k + 1, b :: bs => by
    have h0 : (natToBits 8 b).take (8 * (k + 1)) = natToBits 8 b := List.take_of_length_le (by rw [natToBits_length]; omega)
    have e : 8 * (k + 1) - (natToBits 8 b).length = 8 * k := by rw [natToBits_length]; omega
    rw [bytesToBits_cons, List.take_append, h0, e, bytesToBits_take k bs, List.take_succ_cons, bytesToBits_cons]

/-- `t` bits of a byte from bit `i` on (most significant first) = shift and mask -/
theorem byte_slice : ∀ b, b < 256 → ∀ i, i < 9 → ∀ t, t < 9 → i + t ≤ 8 →
    natOfBits (((natToBits 8 b).drop i).take t) = (b >>> (8 - i - t)) % 2 ^ t := by
  decide +kernel

theorem byte_whole (b : Nat) (h : b < 256) : natOfBits (natToBits 8 b) = b := by
  have := byte_slice b h 0 (by decide) 8 (by decide) (by decide)
  have e : ((natToBits 8 b).drop 0).take 8 = natToBits 8 b := by
    rw [List.drop_zero, List.take_of_length_le (by rw [natToBits_length]; exact Nat.le_refl 8)]
  rw [e] at this
  rw [this]
  simp
  omega

end Gzx.BitSource
