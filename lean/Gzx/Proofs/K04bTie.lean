/-
  Lemmas for the kernel theorems of `Obligations/K04b*.lean` (work package c04tie): the Reed-Solomon / GF polynomial
  code regenerated from /repo on every run (`Gzx.Gen.K04b`, value-passing target of the translator) against the
  hand-written model of `Model/GF.lean` + `Model/RS.lean`.  Nothing here mentions the text of a generated definition.

  Conventions: a model value (`Nat`, `List Nat`) appears in regenerated code as `Int` / `List Int` through `Int.ofNat` /
  `ints`; a Go function with an `error` result renders a model result through `expE` (`(zero value, true)` for a checked
  failure, the fault itself for a panic or for exhausted fuel).
-/
import Gzx.GoMV
import Gzx.Proofs.GoMTie
import Gzx.Model.RS
import Gzx.Proofs.Poly
import Gzx.Proofs.Forney
namespace Gzx.K04bTie
open Gzx Gzx.GoM Gzx.GoVal Gzx.RS

/-- Go `[]int` contents of a model coefficient list / table -/
abbrev ints (l : List Nat) : List Int := l.map Int.ofNat

theorem ints_length (l : List Nat) : (ints l).length = l.length := by simp [ints]
theorem len_ints (l : List Nat) : len (ints l) = (l.length : Int) := by simp [len, ints]

/-- how a Go function `(T, error)` renders a model result: value and `nil`, or zero value and a non-nil error for a
    checked failure; a panic (and exhausted fuel) is the fault itself -/
def expE {α β : Type} (dflt : α) (emb : β → α) : Res β → Res (α × Bool)
  | .ok b => .ok (emb b, false)
  | .error (.panic w) => .error (.panic w)
  | .error .fuel => .error .fuel
  | .error _ => .ok (dflt, true)

@[simp] theorem expE_ok {α β : Type} (d : α) (emb : β → α) (b : β) : expE d emb (.ok b) = .ok (emb b, false) := rfl
@[simp] theorem expE_illegal {α β : Type} (d : α) (emb : β → α) : expE d emb (.error .illegalArg : Res β) = .ok (d, true) := rfl
@[simp] theorem expE_panic {α β : Type} (d : α) (emb : β → α) (w : String) :
    expE d emb (.error (.panic w) : Res β) = .error (.panic w) := rfl

/-- the only way the model's field / polynomial operations fail: a Go panic or the checked `IllegalArgumentException` -/
def PanicOrArg (e : Fault) : Prop := (∃ w, e = .panic w) ∨ e = .illegalArg

/-! ### checked reads of a model table -/

theorem idx_ints (l : List Nat) (e : Int) (n : Nat) (h : e = n) :
    GoM.idx (ints l) e = match l[n]? with | some v => .ok (v : Int) | none => .error oob := by
  subst h
  unfold GoM.idx
  have : ¬ ((n : Int) < 0) := by omega
  simp only [this, if_false, Int.toNat_natCast, ints, List.getElem?_map]
  cases l[n]? <;> rfl

theorem idx_arr (t : Array Nat) (e : Int) (n : Nat) (h : e = n) :
    GoM.idx (ints t.toList) e = (GF.idx t n).map Int.ofNat := by
  rw [idx_ints _ _ n h]
  unfold GF.idx
  rw [Array.getElem?_toList]
  cases t[n]? <;> rfl

theorem tmod_cast (x y : Nat) (e1 e2 : Int) (h1 : e1 = x) (h2 : e2 = y) : Int.tmod e1 e2 = ((x % y : Nat) : Int) := by
  subst h1 h2; exact (Int.ofNat_tmod x y).symm

theorem gomod_cast (x y : Nat) (hy : y ≠ 0) (e1 e2 : Int) (h1 : e1 = x) (h2 : e2 = y) :
    GoM.mod e1 e2 = .ok ((x % y : Nat) : Int) := by
  unfold GoM.mod
  have : ¬ e2 = 0 := by omega
  rw [if_neg this, tmod_cast x y e1 e2 h1 h2]

theorem natCast_beq_zero (n : Nat) : (((n : Int) == 0) : Bool) = (n == 0) := by
  cases n <;> rfl

theorem natCast_beq (n m : Nat) : (((n : Int) == (m : Int)) : Bool) = (n == m) := by
  by_cases h : n = m
  · subst h; rw [beq_self_eq_true, beq_self_eq_true]
  · have : ¬ (n : Int) = m := by omega
    rw [beq_eq_false_iff_ne.mpr h, beq_eq_false_iff_ne.mpr this]


/-! ### control values over model states -/

variable {σ ρ τ : Type}

/-- a control value over model states, seen through the embedding `R` of the state -/
def mapS (R : τ → σ) : Ctl τ ρ → Ctl σ ρ
  | .next t => .next (R t)
  | .brk t => .brk (R t)
  | .ret r => .ret r
  | .panic f => .panic f

@[simp] theorem mapS_next (R : τ → σ) (t : τ) : mapS R (.next t : Ctl τ ρ) = .next (R t) := rfl
@[simp] theorem mapS_brk (R : τ → σ) (t : τ) : mapS R (.brk t : Ctl τ ρ) = .brk (R t) := rfl
@[simp] theorem mapS_ret (R : τ → σ) (r : ρ) : mapS R (.ret r : Ctl τ ρ) = .ret r := rfl
@[simp] theorem mapS_panic (R : τ → σ) (f : Fault) : mapS R (.panic f : Ctl τ ρ) = .panic f := rfl

theorem mapS_thenR (R : τ → σ) (c : Ctl τ ρ) (k : σ → Res ρ) : (mapS R c).thenR k = c.thenR (fun t => k (R t)) := by
  cases c <;> rfl

theorem mapS_thenC {σ' : Type} (R : τ → σ') (c : Ctl τ ρ) (k : σ' → Ctl σ ρ) :
    (mapS R c).thenC k = c.thenC (fun t => k (R t)) := by
  cases c <;> rfl

/-- a model step (`Res`) as a control value -/
def stepC : Res τ → Ctl τ ρ
  | .ok t => .next t
  | .error f => .panic f

@[simp] theorem stepC_ok (t : τ) : (stepC (.ok t) : Ctl τ ρ) = .next t := rfl
@[simp] theorem stepC_error (f : Fault) : (stepC (.error f : Res τ) : Ctl τ ρ) = .panic f := rfl

/-- list-driven iteration: step `i` consumes the next element -/
def iterL (g : Nat → Nat → τ → Ctl τ ρ) : Nat → List Nat → τ → Ctl τ ρ
  | _, [], t => .next t
  | i, x :: xs, t =>
    match g i x t with
    | .next t' => iterL g (i + 1) xs t'
    | .brk t' => .brk t'
    | .ret r => .ret r
    | .panic f => .panic f

/-- `for i := a; i < a + len(l); i++` whose `j`-th step is the model step `g` on `l[j]` -/
theorem loop_list (R : τ → σ) (body : Int → σ → Ctl σ ρ) (g : Nat → Nat → τ → Ctl τ ρ) :
    ∀ (l : List Nat) (a : Nat) (t : τ),
      (∀ j (hj : j < l.length) t, body ((a + j : Nat) : Int) (R t) = mapS R (g (a + j) l[j] t)) →
      loop body 1 l.length (a : Int) (R t) = mapS R (iterL g a l t) := by
  intro l
  induction l with
  | nil => intro a t _; rfl
  | cons x xs ih =>
    intro a t hb
    have h0 := hb 0 (by simp) t
    simp only [Nat.add_zero, List.getElem_cons_zero] at h0
    rw [List.length_cons, loop_succ, h0]
    simp only [iterL]
    cases hg : g a x t with
    | next t' =>
      simp only [mapS_next]
      have e : (a : Int) + 1 = ((a + 1 : Nat) : Int) := by omega
      rw [e]
      refine ih (a + 1) t' (fun j hj t => ?_)
      have := hb (j + 1) (by simp; omega) t
      simp only [List.getElem_cons_succ] at this
      rw [show a + 1 + j = a + (j + 1) by omega]
      exact this
    | brk t' => rfl
    | ret r => rfl
    | panic f => rfl

theorem loop_list' (R : τ → σ) (g : Nat → Nat → τ → Ctl τ ρ) (l : List Nat) (a : Nat) (t : τ)
    {body : Int → σ → Ctl σ ρ} {n : Nat} {i0 : Int} {s : σ}
    (hs : s = R t) (hn : n = l.length) (hi : i0 = (a : Int))
    (hb : ∀ j (hj : j < l.length) t, body ((a + j : Nat) : Int) (R t) = mapS R (g (a + j) l[j] t)) :
    loop body 1 n i0 s = mapS R (iterL g a l t) := by
  subst hs hn hi; exact loop_list R body g l a t hb

/-- the same for states satisfying an invariant that the steps preserve -/
theorem loop_list_inv (R : τ → σ) (Inv : τ → Prop) (body : Int → σ → Ctl σ ρ) (g : Nat → Nat → τ → Ctl τ ρ) :
    ∀ (l : List Nat) (a : Nat) (t : τ), Inv t →
      (∀ j (hj : j < l.length) t, Inv t → body ((a + j : Nat) : Int) (R t) = mapS R (g (a + j) l[j] t)) →
      (∀ j (hj : j < l.length) t t', Inv t → g (a + j) l[j] t = .next t' → Inv t') →
      loop body 1 l.length (a : Int) (R t) = mapS R (iterL g a l t) := by
  intro l
  induction l with
  | nil => intro a t _ _ _; rfl
  | cons x xs ih =>
    intro a t ht hb hinv
    have h0 := hb 0 (by simp) t ht
    simp only [Nat.add_zero, List.getElem_cons_zero] at h0
    rw [List.length_cons, loop_succ, h0]
    simp only [iterL]
    cases hg : g a x t with
    | next t' =>
      simp only [mapS_next]
      have e : (a : Int) + 1 = ((a + 1 : Nat) : Int) := by omega
      rw [e]
      have ht' : Inv t' := by
        have := hinv 0 (by simp) t t' ht
        simp only [Nat.add_zero, List.getElem_cons_zero] at this
        exact this hg
      refine ih (a + 1) t' ht' (fun j hj t ht => ?_) (fun j hj t t' ht hs => ?_)
      · have := hb (j + 1) (by simp; omega) t ht
        simp only [List.getElem_cons_succ] at this
        rw [show a + 1 + j = a + (j + 1) by omega]
        exact this
      · have := hinv (j + 1) (by simp; omega) t t' ht
        simp only [List.getElem_cons_succ] at this
        rw [show a + 1 + j = a + (j + 1) by omega] at hs
        exact this hs
    | brk t' => rfl
    | ret r => rfl
    | panic f => rfl

theorem loop_list_inv' (R : τ → σ) (Inv : τ → Prop) (g : Nat → Nat → τ → Ctl τ ρ) (l : List Nat) (a : Nat) (t : τ)
    {body : Int → σ → Ctl σ ρ} {n : Nat} {i0 : Int} {s : σ}
    (hs : s = R t) (hn : n = l.length) (hi : i0 = (a : Int)) (ht : Inv t)
    (hinv : ∀ j (hj : j < l.length) t t', Inv t → g (a + j) l[j] t = .next t' → Inv t')
    (hb : ∀ j (hj : j < l.length) t, Inv t → body ((a + j : Nat) : Int) (R t) = mapS R (g (a + j) l[j] t)) :
    loop body 1 n i0 s = mapS R (iterL g a l t) := by
  subst hs hn hi; exact loop_list_inv R Inv body g l a t ht hb hinv

/-- `for i, x := range l` -/
theorem forRange_list (R : τ → σ) (body : Int → Int → σ → Ctl σ ρ) (g : Nat → Nat → τ → Ctl τ ρ) :
    ∀ (l : List Nat) (a : Nat) (t : τ),
      (∀ j (hj : j < l.length) t, body ((a + j : Nat) : Int) ((l[j] : Nat) : Int) (R t) = mapS R (g (a + j) l[j] t)) →
      forRange body (ints l) (a : Int) (R t) = mapS R (iterL g a l t) := by
  intro l
  induction l with
  | nil => intro a t _; rfl
  | cons x xs ih =>
    intro a t hb
    have h0 := hb 0 (by simp) t
    simp only [Nat.add_zero, List.getElem_cons_zero] at h0
    simp only [ints, List.map_cons, forRange, iterL]
    rw [show Int.ofNat x = (x : Int) from rfl, h0]
    cases hg : g a x t with
    | next t' =>
      simp only [mapS_next]
      have e : (a : Int) + 1 = ((a + 1 : Nat) : Int) := by omega
      rw [e]
      refine ih (a + 1) t' (fun j hj t => ?_)
      have := hb (j + 1) (by simp; omega) t
      simp only [List.getElem_cons_succ] at this
      rw [show a + 1 + j = a + (j + 1) by omega]
      exact this
    | brk t' => rfl
    | ret r => rfl
    | panic f => rfl

theorem forRange_list' (R : τ → σ) (g : Nat → Nat → τ → Ctl τ ρ) (l : List Nat) (a : Nat) (t : τ)
    {body : Int → Int → σ → Ctl σ ρ} {xs : List Int} {i0 : Int} {s : σ}
    (hx : xs = ints l) (hs : s = R t) (hi : i0 = (a : Int))
    (hb : ∀ j (hj : j < l.length) t, body ((a + j : Nat) : Int) ((l[j] : Nat) : Int) (R t) = mapS R (g (a + j) l[j] t)) :
    forRange body xs i0 s = mapS R (iterL g a l t) := by
  subst hx hs hi; exact forRange_list R body g l a t hb

/-- a `for cond` loop whose body is a model step on related states -/
theorem while_map (R : τ → σ) (body : σ → Ctl σ ρ) (f : τ → Ctl τ ρ) (hb : ∀ t, body (R t) = mapS R (f t)) :
    ∀ (n : Nat) (t : τ), whileLoop body n (R t) = mapS R (whileLoop f n t) := by
  intro n
  induction n with
  | zero => intro t; rfl
  | succ n ih =>
    intro t
    rw [whileLoop_succ, whileLoop_succ, hb t]
    cases f t with
    | next t' => exact ih t'
    | brk t' => rfl
    | ret r => rfl
    | panic f => rfl

/-! ### faults of the model's field operations are panics -/

/-- a Go panic (not a checked error, not exhausted fuel) -/
def IsPanic (e : Fault) : Prop := ∃ w, e = .panic w

theorem expE_of_panic {α β : Type} (d : α) (emb : β → α) {e : Fault} (h : IsPanic e) :
    expE d emb (.error e : Res β) = .error e := by
  obtain ⟨w, rfl⟩ := h; rfl

theorem gfidx_error {t : Array Nat} {i : Nat} {e : Fault} (h : GF.idx t i = .error e) : IsPanic e := by
  unfold GF.idx at h
  cases hg : t[i]? with
  | some v => rw [hg] at h; cases h
  | none => rw [hg] at h; cases h; exact ⟨_, rfl⟩

theorem mul_error {F : GF.GF} {a b : Nat} {e : Fault} (h : F.mul a b = .error e) : IsPanic e := by
  unfold GF.GF.mul at h
  split at h
  · cases h
  · simp only [bind, Except.bind] at h
    cases h1 : GF.idx F.log a with
    | error e1 => rw [h1] at h; cases h; exact gfidx_error h1
    | ok la =>
      rw [h1] at h
      cases h2 : GF.idx F.log b with
      | error e2 => rw [h2] at h; cases h; exact gfidx_error h2
      | ok lb =>
        rw [h2] at h
        simp only [] at h
        split at h
        · cases h; exact ⟨_, rfl⟩
        · exact gfidx_error h

theorem mapM_error {f : Nat → Res Nat} (hf : ∀ x e, f x = .error e → IsPanic e) :
    ∀ (l : List Nat) (e : Fault), l.mapM f = .error e → IsPanic e := by
  intro l
  induction l with
  | nil => intro e h; simp [pure, Except.pure] at h
  | cons x xs ih =>
    intro e h
    rw [List.mapM_cons] at h
    simp only [bind, Except.bind] at h
    cases hx : f x with
    | error e1 => rw [hx] at h; cases h; exact hf x _ hx
    | ok m =>
      rw [hx] at h
      cases hxs : xs.mapM f with
      | error e2 => rw [hxs] at h; cases h; exact ih _ hxs
      | ok ms => rw [hxs] at h; cases h

/-! ### loops that fill a fresh slice -/

/-- `prod[i] = f(x)` for the `i`-th element `x` -/
def mapStep (f : Nat → Res Nat) (i x : Nat) (prod : List Nat) : Ctl (List Nat) ρ :=
  match f x with
  | .ok m => stepC (Bits.setWord prod i m)
  | .error e => .panic e

theorem iterL_map (f : Nat → Res Nat) (tailLen : Nat) : ∀ (l pre : List Nat),
    iterL (ρ := ρ) (mapStep f) pre.length l (pre ++ List.replicate (l.length + tailLen) 0) =
      stepC ((l.mapM f).map (fun ms => pre ++ ms ++ List.replicate tailLen 0)) := by
  intro l
  induction l with
  | nil => intro pre; simp [iterL, pure, Except.pure, Except.map]
  | cons x xs ih =>
    intro pre
    rw [List.mapM_cons]
    simp only [iterL, mapStep, bind, Except.bind]
    cases hx : f x with
    | error e => rfl
    | ok m =>
      have hset : Bits.setWord (pre ++ List.replicate ((x :: xs).length + tailLen) 0) pre.length m =
          .ok ((pre ++ [m]) ++ List.replicate (xs.length + tailLen) 0) := by
        unfold Bits.setWord
        rw [if_pos (by simp; omega)]
        congr 1
        rw [List.set_append_right _ _ (Nat.le_refl _), Nat.sub_self, List.length_cons,
          show xs.length + 1 + tailLen = (xs.length + tailLen) + 1 by omega, List.replicate_succ, List.set_cons_zero]
        simp
      simp only [hset, stepC_ok]
      have := ih (pre ++ [m])
      rw [List.length_append, List.length_singleton] at this
      rw [this]
      cases xs.mapM f with
      | error e => rfl
      | ok ms => simp [Except.map, pure, Except.pure]

/-! ### checked failures of callees inside loop bodies / at function level -/

/-- what a failing model call means for the enclosing Go function: a panic (or exhausted fuel) propagates, every other
    fault is the checked-error exit `c` of the caller -/
def failK {γ : Type} (c : γ) (lift : Fault → γ) : Fault → γ
  | .panic w => lift (.panic w)
  | .fuel => lift .fuel
  | _ => c

theorem failK_panic_of {γ : Type} {c : γ} {lift : Fault → γ} {e : Fault} (h : ∃ w, e = .panic w) : failK c lift e = lift e := by
  obtain ⟨w, rfl⟩ := h; rfl

theorem tryC_expE {α β : Type} (d : α) (emb : β → α) (r : Res β) (kT kF : α × Bool → Ctl σ ρ) :
    (tryC (expE d emb r) fun t => if t.2 = true then kT t else kF t) =
      match r with
      | .ok b => kF (emb b, false)
      | .error e => failK (kT (d, true)) Ctl.panic e := by
  cases r with
  | ok b => rfl
  | error e => cases e <;> rfl

theorem tryR_expE {α β : Type} (d : α) (emb : β → α) (r : Res β) (kT kF : α × Bool → Res ρ) :
    (tryR (expE d emb r) fun t => if t.2 = true then kT t else kF t) =
      match r with
      | .ok b => kF (emb b, false)
      | .error e => failK (kT (d, true)) Except.error e := by
  cases r with
  | ok b => rfl
  | error e => cases e <;> rfl

/-- a model step with checked failures as the outcome of a loop body whose function returns `dflt` on a checked error -/
def stepE (dflt : ρ) : Res τ → Ctl τ ρ
  | .ok t => .next t
  | .error e => failK (.ret dflt) Ctl.panic e

@[simp] theorem stepE_ok (d : ρ) (t : τ) : stepE d (.ok t) = .next t := rfl

theorem stepE_bind {β : Type} (d : ρ) (r : Res β) (k : β → Res τ) :
    stepE d (r >>= k) = match r with | .ok b => stepE d (k b) | .error e => failK (.ret d) Ctl.panic e := by
  cases r <;> rfl

theorem mapS_failK (R : τ → σ) (c : ρ) (e : Fault) :
    mapS R (failK (Ctl.ret c) Ctl.panic e : Ctl τ ρ) = failK (Ctl.ret c) Ctl.panic e := by
  cases e <;> rfl

/-- `for cond` loop, body = model step on related states, for states satisfying an invariant the step preserves -/
theorem while_map_inv (R : τ → σ) (Inv : τ → Prop) (body : σ → Ctl σ ρ) (f : τ → Ctl τ ρ)
    (hb : ∀ t, Inv t → body (R t) = mapS R (f t)) (hinv : ∀ t t', Inv t → f t = .next t' → Inv t') :
    ∀ (n : Nat) (t : τ), Inv t → whileLoop body n (R t) = mapS R (whileLoop f n t) := by
  intro n
  induction n with
  | zero => intro t _; rfl
  | succ n ih =>
    intro t ht
    rw [whileLoop_succ, whileLoop_succ, hb t ht]
    cases hf : f t with
    | next t' => exact ih t' (hinv t t' ht hf)
    | brk t' => rfl
    | ret r => rfl
    | panic f => rfl

theorem while_map_inv' (R : τ → σ) (Inv : τ → Prop) (f : τ → Ctl τ ρ) (t : τ) {body : σ → Ctl σ ρ} {s : σ} {n : Nat}
    (hs : s = R t) (ht : Inv t) (hinv : ∀ t t', Inv t → f t = .next t' → Inv t')
    (hb : ∀ t, Inv t → body (R t) = mapS R (f t)) :
    whileLoop body n s = mapS R (whileLoop f n t) := by
  subst hs; exact while_map_inv R Inv body f hb hinv n t ht

/-! ### polynomials stay non-empty -/

theorem mkPoly_ne {cs v : List Nat} (h : mkPoly cs = .ok v) : v ≠ [] := by
  unfold mkPoly at h
  split at h
  · cases h
  · cases h; exact Proofs.Poly.normalize_ne_nil cs

theorem addOrSubtract_ne {p q v : List Nat} (hp : p ≠ []) (hq : q ≠ []) (h : addOrSubtract p q = .ok v) : v ≠ [] := by
  unfold addOrSubtract at h
  split at h
  · cases h; exact hq
  · split at h
    · cases h; exact hp
    · exact mkPoly_ne h

theorem buildMonomial_ne {d c : Nat} {v : List Nat} (h : buildMonomial d c = .ok v) : v ≠ [] := by
  unfold buildMonomial at h
  split at h
  · cases h; simp
  · exact mkPoly_ne h

theorem multiplyByMonomial_ne {F : GF.GF} {p v : List Nat} {d c : Nat} (h : multiplyByMonomial F p d c = .ok v) : v ≠ [] := by
  unfold multiplyByMonomial at h
  split at h
  · cases h; simp
  · simp only [bind, Except.bind] at h
    cases hm : p.mapM (fun x => F.mul x c) with
    | error e => rw [hm] at h; cases h
    | ok ms => rw [hm] at h; exact mkPoly_ne h

theorem multiply_ne {F : GF.GF} {p q v : List Nat} (h : multiply F p q = .ok v) : v ≠ [] := by
  unfold multiply at h
  split at h
  · cases h; simp
  · simp only [bind, Except.bind] at h
    cases hm : mulRaw F p q with
    | error e => rw [hm] at h; cases h
    | ok ms => rw [hm] at h; exact mkPoly_ne h

theorem multiplyBy_ne {F : GF.GF} {p v : List Nat} {s : Nat} (hp : p ≠ []) (h : multiplyBy F p s = .ok v) : v ≠ [] := by
  unfold multiplyBy at h
  split at h
  · cases h; simp
  · split at h
    · cases h; exact hp
    · simp only [bind, Except.bind] at h
      cases hm : p.mapM (fun x => F.mul x s) with
      | error e => rw [hm] at h; cases h
      | ok ms => rw [hm] at h; exact mkPoly_ne h

/-! ### the division loop of `GenericGFPoly.Divide` on model states -/

/-- embedding of a pair of polynomials -/
def ints2 (t : Poly × Poly) : List Int × List Int := (ints t.1, ints t.2)

/-- one round of `Divide`'s loop (state: quotient, remainder); `D` is what the Go function returns on a checked error -/
def divStep (F : GF.GF) (other : Poly) (inv : Nat) (D : ρ) (st : Poly × Poly) : Ctl (Poly × Poly) ρ :=
  if degree st.2 ≥ degree other && !isZero st.2 then
    stepE D (do
      let lead ← getCoefficient st.2 (degree st.2)
      let scale ← F.mul lead inv
      let term ← multiplyByMonomial F other (degree st.2 - degree other) scale
      let iq ← buildMonomial (degree st.2 - degree other) scale
      let q' ← addOrSubtract st.1 iq
      let r' ← addOrSubtract st.2 term
      pure (q', r'))
  else .brk st

/-- a round keeps both polynomials non-empty -/
theorem divStep_inv {F : GF.GF} {other : Poly} {inv : Nat} {D : ρ} {t t' : Poly × Poly}
    (ht : t.1 ≠ [] ∧ t.2 ≠ []) (h : divStep F other inv D t = .next t') : t'.1 ≠ [] ∧ t'.2 ≠ [] := by
  unfold divStep at h
  split at h
  · simp only [bind, Except.bind] at h
    cases h1 : getCoefficient t.2 (degree t.2) with
    | error e => simp only [h1] at h; cases e <;> cases h
    | ok lead' =>
      simp only [h1] at h
      cases h2 : GF.GF.mul F lead' inv with
      | error e => simp only [h2] at h; cases e <;> cases h
      | ok scale =>
        simp only [h2] at h
        cases h3 : multiplyByMonomial F other (degree t.2 - degree other) scale with
        | error e => simp only [h3] at h; cases e <;> cases h
        | ok term =>
          simp only [h3] at h
          cases h4 : buildMonomial (degree t.2 - degree other) scale with
          | error e => simp only [h4] at h; cases e <;> cases h
          | ok iq =>
            simp only [h4] at h
            cases h5 : addOrSubtract t.1 iq with
            | error e => simp only [h5] at h; cases e <;> cases h
            | ok q' =>
              simp only [h5] at h
              cases h6 : addOrSubtract t.2 term with
              | error e => simp only [h6] at h; cases e <;> cases h
              | ok r' =>
                simp only [h6, pure, Except.pure, stepE_ok] at h
                cases h
                exact ⟨addOrSubtract_ne ht.1 (buildMonomial_ne h4) h5, addOrSubtract_ne ht.2 (multiplyByMonomial_ne h3) h6⟩
  · cases h

theorem divLoop_succ (F : GF.GF) (other : Poly) (inv : Nat) (m : Nat) (q r : Poly) :
    divLoop F other inv (m + 1) q r =
      if degree r ≥ degree other && !isZero r then
        (do
          let lead ← getCoefficient r (degree r)
          let scale ← F.mul lead inv
          let term ← multiplyByMonomial F other (degree r - degree other) scale
          let iq ← buildMonomial (degree r - degree other) scale
          let q' ← addOrSubtract q iq
          let r' ← addOrSubtract r term
          pure (q', r')) >>= fun t => divLoop F other inv m t.1 t.2
      else .ok (q, r) := by
  rw [divLoop]
  split
  · simp only [bind_assoc, pure_bind]
  · rfl

/-- the loop run on model states is the model's `divLoop` (whenever that does not run out of its own fuel) -/
theorem divStep_run (F : GF.GF) (other : Poly) (inv : Nat) (D : ρ) : ∀ (m : Nat) (q r : Poly) (n : Nat), m ≤ n →
    divLoop F other inv m q r ≠ .error .fuel →
    whileLoop (divStep F other inv D) n (q, r) =
      match divLoop F other inv m q r with
      | .ok t => .brk t
      | .error e => failK (.ret D) Ctl.panic e := by
  intro m
  induction m with
  | zero => intro q r n _ h; exact absurd rfl h
  | succ m ih =>
    intro q r n hn hnf
    obtain ⟨n, rfl⟩ : ∃ k, n = k + 1 := ⟨n - 1, by omega⟩
    rw [whileLoop_succ]
    rw [divLoop_succ] at hnf ⊢
    unfold divStep
    simp only []
    by_cases hc : (decide (degree r ≥ degree other) && !isZero r) = true
    · simp only [hc, if_true] at hnf ⊢
      generalize (do
          let lead ← getCoefficient r (degree r)
          let scale ← F.mul lead inv
          let term ← multiplyByMonomial F other (degree r - degree other) scale
          let iq ← buildMonomial (degree r - degree other) scale
          let q' ← addOrSubtract q iq
          let r' ← addOrSubtract r term
          pure (q', r') : Res (Poly × Poly)) = blk at hnf ⊢
      cases blk with
      | error e => cases e <;> first | rfl | exact absurd rfl hnf
      | ok t =>
        simp only [stepE_ok]
        exact ih t.1 t.2 n (by omega) hnf
    · simp only [hc, if_false]
      rfl

/-! ### the double loop of `GenericGFPoly.Multiply` on model states -/

theorem mapM_length {f : Nat → Res Nat} : ∀ (l ms : List Nat), l.mapM f = .ok ms → ms.length = l.length := by
  intro l
  induction l with
  | nil => intro ms h; simp [pure, Except.pure] at h; subst h; rfl
  | cons x xs ih =>
    intro ms h
    rw [List.mapM_cons] at h
    simp only [bind, Except.bind] at h
    cases hx : f x with
    | error e => simp only [hx] at h; cases h
    | ok m =>
      simp only [hx] at h
      cases hxs : xs.mapM f with
      | error e => simp only [hxs] at h; cases h
      | ok ms' =>
        simp only [hxs, pure, Except.pure] at h
        cases h
        simp [ih ms' hxs]

theorem addInto_length : ∀ (row acc : List Nat), (addInto row acc).length = max row.length acc.length
  | [], acc => by simp [addInto]
  | r :: rs, [] => by simp [addInto]
  | r :: rs, x :: xs => by simp [addInto, addInto_length rs xs]

theorem mulRaw_length (F : GF.GF) (b : List Nat) (hb : b ≠ []) : ∀ (a m : List Nat), mulRaw F a b = .ok m →
    m.length = a.length + b.length - 1 := by
  have hbl : 0 < b.length := List.length_pos_iff.mpr hb
  intro a
  induction a with
  | nil => intro m h; simp only [mulRaw] at h; cases h; simp
  | cons a0 as ih =>
    intro m h
    simp only [mulRaw, bind, Except.bind] at h
    cases hrow : b.mapM (fun bj => F.mul a0 bj) with
    | error e => simp only [hrow] at h; cases h
    | ok row =>
      simp only [hrow] at h
      cases hrest : mulRaw F as b with
      | error e => simp only [hrest] at h; cases h
      | ok rest =>
        simp only [hrest] at h
        cases h
        rw [addInto_length, mapM_length _ _ hrow, List.length_cons, ih rest hrest]
        simp; omega

/-- xor-ing a row into the accumulator commutes with the later xor of the remaining rows -/
theorem zipWith_addInto : ∀ (row cur z : List Nat), cur.length = z.length →
    List.zipWith (· ^^^ ·) cur (addInto row z) = List.zipWith (· ^^^ ·) (addInto row cur) z
  | [], cur, z, _ => by simp [addInto]
  | r :: rs, [], z, h => by
    have : z = [] := List.eq_nil_of_length_eq_zero (by simpa using h.symm)
    subst this; simp [addInto]
  | r :: rs, x :: xs, [], h => by simp at h
  | r :: rs, x :: xs, y :: ys, h => by
    simp only [addInto, List.zipWith_cons_cons]
    rw [zipWith_addInto rs xs ys (by simpa using h)]
    congr 1
    rw [← Nat.xor_assoc, Nat.xor_comm x r]

theorem zipWith_zeros_right : ∀ (cur : List Nat), List.zipWith (· ^^^ ·) cur (List.replicate cur.length 0) = cur
  | [] => rfl
  | x :: xs => by simp [List.replicate_succ, zipWith_zeros_right xs]

/-- one step of the inner loop: `product[i+j] ^= a_i * b_j` -/
def mulInner (F : GF.GF) (ai i : Nat) (j y : Nat) (prod : List Nat) : Ctl (List Nat) ρ :=
  match prod[i + j]? with
  | none => .panic oob
  | some v =>
    match F.mul ai y with
    | .error e => .panic e
    | .ok m => stepC (Bits.setWord prod (i + j) (v ^^^ m))

theorem iterL_mulInner (F : GF.GF) (ai i : Nat) : ∀ (bs pre cur : List Nat) (j : Nat), pre.length = i + j →
    bs.length ≤ cur.length →
    iterL (ρ := ρ) (mulInner F ai i) j bs (pre ++ cur) =
      match bs.mapM (fun bj => F.mul ai bj) with
      | .ok row => .next (pre ++ addInto row cur)
      | .error e => .panic e := by
  intro bs
  induction bs with
  | nil => intro pre cur j _ _; simp [iterL, pure, Except.pure, addInto]
  | cons y ys ih =>
    intro pre cur j hpre hlen
    cases cur with
    | nil => simp at hlen
    | cons x xs =>
      rw [List.mapM_cons]
      have hget : (pre ++ x :: xs)[i + j]? = some x := by
        rw [← hpre, List.getElem?_append_right (Nat.le_refl _), Nat.sub_self]; rfl
      simp only [iterL, mulInner, hget, bind, Except.bind]
      cases hm : F.mul ai y with
      | error e => rfl
      | ok m =>
        have hset : Bits.setWord (pre ++ x :: xs) (i + j) (x ^^^ m) = .ok ((pre ++ [x ^^^ m]) ++ xs) := by
          unfold Bits.setWord
          rw [if_pos (by simp; omega)]
          congr 1
          rw [← hpre, List.set_append_right _ _ (Nat.le_refl _), Nat.sub_self, List.set_cons_zero]
          simp
        simp only [hset, stepC_ok]
        rw [ih (pre ++ [x ^^^ m]) xs (j + 1) (by simp; omega) (by simpa using hlen)]
        cases ys.mapM (fun bj => F.mul ai bj) with
        | error e => rfl
        | ok row => simp [pure, Except.pure, addInto, Nat.xor_comm m x]

/-- one step of the outer loop: the whole row `a_i * b` is xor-ed into `product` at offset `i` -/
def mulOuter (F : GF.GF) (b : List Nat) (i x : Nat) (prod : List Nat) : Ctl (List Nat) ρ :=
  (iterL (ρ := ρ) (mulInner F x i) 0 b prod).thenC fun p => .next p

theorem iterL_mulOuter (F : GF.GF) (b : List Nat) (hb : b ≠ []) : ∀ (a pre cur : List Nat), cur.length = a.length + b.length - 1 →
    iterL (ρ := ρ) (mulOuter F b) pre.length a (pre ++ cur) =
      match mulRaw F a b with
      | .ok m => .next (pre ++ List.zipWith (· ^^^ ·) cur m)
      | .error e => .panic e := by
  have hbl : 0 < b.length := List.length_pos_iff.mpr hb
  intro a
  induction a with
  | nil =>
    intro pre cur hlen
    simp only [iterL, mulRaw]
    have : b.length - 1 = cur.length := by simp at hlen; omega
    rw [this, zipWith_zeros_right]
  | cons a0 as ih =>
    intro pre cur hlen
    simp only [iterL, mulOuter, mulRaw, bind, Except.bind]
    rw [iterL_mulInner F a0 pre.length b pre cur 0 rfl (by simp at hlen; omega)]
    cases hrow : b.mapM (fun bj => F.mul a0 bj) with
    | error e => rfl
    | ok row =>
      simp only [next_thenC]
      have hrl : row.length = b.length := mapM_length _ _ hrow
      have hal : (addInto row cur).length = cur.length := by
        rw [addInto_length, hrl]; simp at hlen; omega
      cases hacc : addInto row cur with
      | nil => rw [hacc] at hal; simp at hal hlen; omega
      | cons c0 ctl =>
        have := ih (pre ++ [c0]) ctl (by rw [hacc] at hal; simp at hal hlen; omega)
        rw [List.length_append, List.length_singleton, List.append_assoc, List.singleton_append] at this
        rw [this]
        cases hrest : mulRaw F as b with
        | error e => rfl
        | ok rest =>
          simp only []
          have hrestl := mulRaw_length F b hb as rest hrest
          rw [zipWith_addInto row cur (0 :: rest) (by simp [hrestl]; simp at hlen; omega), hacc]
          simp

/-! ### the generator cache of `ReedSolomonEncoder.buildGenerator` -/

/-- `for i := a; i < a + n; i++` whose step depends on the index only -/
theorem loop_range (R : τ → σ) (g : Nat → τ → Ctl τ ρ) (a k : Nat) (t : τ)
    {body : Int → σ → Ctl σ ρ} {n : Nat} {i0 : Int} {s : σ}
    (hs : s = R t) (hn : n = k) (hi : i0 = (a : Int))
    (hb : ∀ i, a ≤ i → i < a + k → ∀ t, body (i : Int) (R t) = mapS R (g i t)) :
    loop body 1 n i0 s = mapS R (iterL (fun _ d t => g d t) a (List.range' a k) t) := by
  refine loop_list' R (fun _ d t => g d t) (List.range' a k) a t hs (by rw [hn, List.length_range']) hi (fun j hj t => ?_)
  rw [List.length_range'] at hj
  rw [List.getElem_range', Nat.one_mul]
  exact hb (a + j) (by omega) (by omega) t

theorem mulRaw_error {F : GF.GF} {b : List Nat} : ∀ (a : List Nat) (e : Fault), mulRaw F a b = .error e → IsPanic e := by
  intro a
  induction a with
  | nil => intro e h; simp only [mulRaw] at h; cases h
  | cons a0 as ih =>
    intro e h
    simp only [mulRaw, bind, Except.bind] at h
    cases hrow : b.mapM (fun bj => F.mul a0 bj) with
    | error e1 => simp only [hrow] at h; cases h; exact mapM_error (fun x e h => mul_error h) _ _ hrow
    | ok row =>
      simp only [hrow] at h
      cases hrest : mulRaw F as b with
      | error e2 => simp only [hrest] at h; cases h; exact ih _ hrest
      | ok rest => simp only [hrest] at h; cases h

/-- `for i := a; i < a + n; i++`, step depending on the index only, states under an invariant -/
theorem loop_range_inv (R : τ → σ) (Inv : τ → Prop) (g : Nat → τ → Ctl τ ρ) (a k : Nat) (t : τ)
    {body : Int → σ → Ctl σ ρ} {n : Nat} {i0 : Int} {s : σ}
    (hs : s = R t) (hn : n = k) (hi : i0 = (a : Int)) (ht : Inv t)
    (hinv : ∀ i t t', Inv t → g i t = .next t' → Inv t')
    (hb : ∀ i, a ≤ i → i < a + k → ∀ t, Inv t → body (i : Int) (R t) = mapS R (g i t)) :
    loop body 1 n i0 s = mapS R (iterL (fun _ d t => g d t) a (List.range' a k) t) := by
  subst hs hi
  have hl : n = (List.range' a k).length := by rw [hn, List.length_range']
  rw [hl]
  refine loop_list_inv R Inv body (fun _ d t => g d t) (List.range' a k) a t ht (fun j hj t ht => ?_) (fun j hj t t' ht hs => ?_)
  · rw [List.length_range'] at hj
    rw [List.getElem_range', Nat.one_mul]
    exact hb (a + j) (by omega) (by omega) t ht
  · exact hinv _ t t' ht hs

theorem multiply_error {F : GF.GF} {p q : Poly} {e : Fault} (hp : p ≠ []) (hq : q ≠ []) (h : multiply F p q = .error e) :
    IsPanic e := by
  unfold multiply at h
  split at h
  · cases h
  · simp only [bind, Except.bind] at h
    cases hm : mulRaw F p q with
    | error e1 =>
      simp only [hm] at h; cases h
      exact mulRaw_error _ _ hm
    | ok m =>
      simp only [hm] at h
      have hl := mulRaw_length F q hq p m hm
      have hpl : 0 < p.length := List.length_pos_iff.mpr hp
      have hql : 0 < q.length := List.length_pos_iff.mpr hq
      unfold mkPoly at h
      cases m with
      | nil => simp at hl; omega
      | cons x xs => cases h

/-- one stage of the generator recursion: `g_d = g_{d-1} · (x + α^(d-1+base))` -/
def genStage (F : GF.GF) (d : Nat) (last : Poly) : Res Poly := do
  let e ← F.expAt (d - 1 + F.base)
  let f ← mkPoly [1, e]
  multiply F last f

theorem buildGenerator_succ (F : GF.GF) (d : Nat) :
    buildGenerator F (d + 1) = buildGenerator F d >>= fun g => genStage F (d + 1) g := by
  simp only [buildGenerator, genStage, Nat.add_sub_cancel]

theorem buildGenerator_ne (F : GF.GF) : ∀ (d : Nat) (g : Poly), buildGenerator F d = .ok g → g ≠ [] := by
  intro d
  cases d with
  | zero => intro g h; simp only [buildGenerator] at h; cases h; simp
  | succ d =>
    intro g h
    rw [buildGenerator_succ] at h
    simp only [bind, Except.bind] at h
    cases hg : buildGenerator F d with
    | error e => simp only [hg] at h; cases h
    | ok g0 =>
      simp only [hg, genStage, bind, Except.bind] at h
      cases he : F.expAt (d + 1 - 1 + F.base) with
      | error e => simp only [he] at h; cases h
      | ok ev =>
        simp only [he] at h
        cases hf : mkPoly [1, ev] with
        | error e => simp only [hf] at h; cases h
        | ok f => simp only [hf] at h; exact multiply_ne h

theorem buildGenerator_error_mono (F : GF.GF) {d : Nat} {e : Fault} (h : buildGenerator F d = .error e) :
    ∀ k, buildGenerator F (d + k) = .error e := by
  intro k
  induction k with
  | zero => exact h
  | succ k ih => rw [← Nat.add_assoc, buildGenerator_succ, ih]; rfl

/-- what the encoder's cache holds: generators 0, 1, … (at least g_0) -/
def CacheOK (F : GF.GF) (cache : List Poly) : Prop :=
  cache ≠ [] ∧ ∀ i (h : i < cache.length), buildGenerator F i = .ok cache[i]

/-- one round of the cache-filling loop (state: cache, last generator) -/
def cacheStep (F : GF.GF) (d : Nat) (st : List Poly × Poly) : Ctl (List Poly × Poly) ρ :=
  match genStage F d st.2 with
  | .ok g => .next (st.1 ++ [g], g)
  | .error e => .panic e

theorem cache_run (F : GF.GF) : ∀ (n s : Nat) (cache : List Poly) (last : Poly), 1 ≤ s → cache.length = s →
    (∀ i (h : i < cache.length), buildGenerator F i = .ok cache[i]) → buildGenerator F (s - 1) = .ok last → 1 ≤ n →
    match buildGenerator F (s + n - 1) with
    | .ok g => ∃ cache', iterL (ρ := ρ) (fun _ d t => cacheStep F d t) s (List.range' s n) (cache, last) = .next (cache', g) ∧
        cache'.length = s + n ∧ (∀ i (h : i < cache'.length), buildGenerator F i = .ok cache'[i])
    | .error e => iterL (ρ := ρ) (fun _ d t => cacheStep F d t) s (List.range' s n) (cache, last) = .panic e := by
  intro n
  induction n with
  | zero => intro s cache last _ _ _ _ h; omega
  | succ n ih =>
    intro s cache last hs hlen hc hlast _
    obtain ⟨s', rfl⟩ : ∃ k, s = k + 1 := ⟨s - 1, by omega⟩
    have hstage : buildGenerator F (s' + 1) = genStage F (s' + 1) last := by
      rw [buildGenerator_succ]; simp only [Nat.add_sub_cancel] at hlast; rw [hlast]; rfl
    simp only [List.range'_succ, iterL, cacheStep]
    cases hg : genStage F (s' + 1) last with
    | error e =>
      have := buildGenerator_error_mono F (hstage.trans hg) n
      rw [show s' + 1 + (n + 1) - 1 = s' + 1 + n by omega, this]
    | ok g =>
      simp only []
      have hbg : buildGenerator F (s' + 1) = .ok g := hstage.trans hg
      have hc' : ∀ i (h : i < (cache ++ [g]).length), buildGenerator F i = .ok (cache ++ [g])[i] := by
        intro i hi
        by_cases hlt : i < cache.length
        · rw [List.getElem_append_left hlt]; exact hc i hlt
        · have : i = s' + 1 := by simp at hi; omega
          subst this
          rw [List.getElem_append_right (by omega)]
          simp [hlen, hbg]
      by_cases hn : n = 0
      · subst hn
        simp only [List.range'_zero, iterL]
        rw [show s' + 1 + (0 + 1) - 1 = s' + 1 by omega, hbg]
        exact ⟨_, rfl, by simp [hlen], hc'⟩
      · have := ih (s' + 1 + 1) (cache ++ [g]) g (by omega) (by simp [hlen]) hc' (by simpa using hbg) (by omega)
        rw [show s' + 1 + 1 + n - 1 = s' + 1 + (n + 1) - 1 by omega] at this
        cases hfin : buildGenerator F (s' + 1 + (n + 1) - 1) with
        | error e => rw [hfin] at this; exact this
        | ok gg =>
          rw [hfin] at this
          obtain ⟨cache', h1, h2, h3⟩ := this
          exact ⟨cache', h1, by omega, h3⟩

/-! ### the tail of `ReedSolomonEncoder.Encode`: zero fill and copy of the remainder -/

/-- `for i := 0; i < n; i++ { toEncode[k+i] = 0 }` on model states -/
theorem fill_zero' (k : Nat) : ∀ (mid pre post : List Nat) (j : Nat), pre.length = k + j →
    iterL (ρ := ρ) (fun _ i t => stepC (Bits.setWord t (k + i) 0)) j (List.range' j mid.length) (pre ++ mid ++ post) =
      .next (pre ++ List.replicate mid.length 0 ++ post) := by
  intro mid
  induction mid with
  | nil => intro pre post j _; simp [iterL]
  | cons m ms ih =>
    intro pre post j hpre
    simp only [List.length_cons, List.range'_succ, iterL]
    have hset : Bits.setWord (pre ++ (m :: ms) ++ post) (k + j) 0 = .ok ((pre ++ [0]) ++ ms ++ post) := by
      unfold Bits.setWord
      rw [if_pos (by simp; omega)]
      congr 1
      rw [← hpre, List.append_assoc, List.set_append_right _ _ (Nat.le_refl _), Nat.sub_self]
      simp
    simp only [hset, stepC_ok]
    rw [ih (pre ++ [0]) post (j + 1) (by simp; omega)]
    simp [List.replicate_succ]

theorem fill_zero (k n : Nat) (te : List Nat) (h : k + n ≤ te.length) :
    iterL (ρ := ρ) (fun _ i t => stepC (Bits.setWord t (k + i) 0)) 0 (List.range' 0 n) te =
      .next (te.take k ++ List.replicate n 0 ++ te.drop (k + n)) := by
  have hdec : te = te.take k ++ (te.drop k).take n ++ te.drop (k + n) := by
    rw [List.append_assoc, ← List.drop_drop, List.take_append_drop, List.take_append_drop]
  have hml : ((te.drop k).take n).length = n := by simp; omega
  have := fill_zero' (ρ := ρ) k ((te.drop k).take n) (te.take k) (te.drop (k + n)) 0 (by simp; omega)
  rw [hml, ← hdec] at this
  exact this

/-- `copy(dst[a:], src)` when `src` exactly fills the tail -/
theorem copySeg_tail (dst src : List Nat) (a : Nat) (e1 e2 : Int) (h1 : e1 = a) (h2 : e2 = dst.length) (ha : a ≤ dst.length)
    (hs : src.length = dst.length - a) :
    copySeg (ints dst) e1 e2 (ints src) = .ok (ints (dst.take a ++ src)) := by
  subst h1 h2
  unfold copySeg
  rw [if_pos (by simp [ints_length]; omega)]
  congr 1
  simp only [Int.toNat_natCast, copyL, ints, List.length_map, List.length_take, List.length_drop]
  rw [show min (dst.length - a) (dst.length - a) = dst.length - a by omega, ← hs]
  have e1 : List.take src.length (List.map Int.ofNat src) = List.map Int.ofNat src := by
    rw [List.take_of_length_le (by simp)]
  have e2 : List.drop src.length (List.take src.length (List.drop a (List.map Int.ofNat dst))) = [] := by
    rw [List.drop_eq_nil_iff]; simp only [List.length_take, List.length_drop, List.length_map]; omega
  have e3 : List.drop dst.length (List.map Int.ofNat dst) = [] := by
    rw [List.drop_eq_nil_iff]; simp
  rw [e1, e2, e3, List.append_nil, List.append_nil, List.map_append, List.map_take]

theorem copySeg_neg (dst src : List Int) (e1 e2 : Int) (h : e1 < 0) :
    copySeg dst e1 e2 src = .error (.panic "slice bounds out of range") := by
  unfold copySeg
  rw [if_neg (by omega)]

theorem copyL_zeros (k : Nat) (te : List Nat) (h : k ≤ te.length) :
    copyL (words (List.replicate k 0)) (ints te) = ints (te.take k) := by
  unfold copyL
  simp only [words, ints, List.length_map, List.length_replicate, List.map_take]
  rw [List.drop_of_length_le (by simp; omega), List.append_nil]

theorem multiplyByMonomial_error {F : GF.GF} {p : Poly} {d c : Nat} {e : Fault} (hp : p ≠ [])
    (h : multiplyByMonomial F p d c = .error e) : IsPanic e := by
  unfold multiplyByMonomial at h
  split at h
  · cases h
  · simp only [bind, Except.bind] at h
    cases hm : p.mapM (fun x => F.mul x c) with
    | error e1 => simp only [hm] at h; cases h; exact mapM_error (fun x e h => mul_error h) _ _ hm
    | ok ms =>
      simp only [hm] at h
      have hl := mapM_length _ _ hm
      have : 0 < p.length := List.length_pos_iff.mpr hp
      unfold mkPoly at h
      cases hms : ms ++ List.replicate d 0 with
      | nil =>
        have := congrArg List.length hms
        simp only [List.length_append, List.length_replicate, List.length_nil] at this; omega
      | cons x xs => rw [hms] at h; cases h

theorem multiplyByMonomial_length_le {F : GF.GF} {p v : Poly} {d c : Nat} (hp : p ≠ [])
    (h : multiplyByMonomial F p d c = .ok v) : v.length ≤ p.length + d := by
  have hpl : 0 < p.length := List.length_pos_iff.mpr hp
  unfold multiplyByMonomial at h
  split at h
  · cases h; simp; omega
  · simp only [bind, Except.bind] at h
    cases hm : p.mapM (fun x => F.mul x c) with
    | error e1 => simp only [hm] at h; cases h
    | ok ms =>
      simp only [hm] at h
      have hl := mapM_length _ _ hm
      have hne : ms ++ List.replicate d 0 ≠ [] := by
        intro h0; have := congrArg List.length h0; simp only [List.length_append, List.length_replicate, List.length_nil] at this; omega
      rw [Proofs.Poly.mkPoly_ok _ hne] at h
      cases h
      have := Proofs.Poly.normalize_length_le _ hne
      simp at this; omega

theorem buildGenerator_error (F : GF.GF) : ∀ (d : Nat) (e : Fault), buildGenerator F d = .error e → IsPanic e := by
  intro d
  induction d with
  | zero => intro e h; simp only [buildGenerator] at h; cases h
  | succ d ih =>
    intro e h
    rw [buildGenerator_succ] at h
    simp only [bind, Except.bind] at h
    cases hg : buildGenerator F d with
    | error e1 => simp only [hg] at h; cases h; exact ih _ hg
    | ok g =>
      simp only [hg, genStage, bind, Except.bind] at h
      cases he : F.expAt (d + 1 - 1 + F.base) with
      | error e1 => simp only [he] at h; cases h; exact gfidx_error he
      | ok ev =>
        simp only [he] at h
        have hmk : mkPoly [1, ev] = .ok [1, ev] := by unfold mkPoly normalize; rfl
        simp only [hmk] at h
        exact multiply_error (buildGenerator_ne F d g hg) (by simp) h

/-! ### Forney's formula (`findErrorMagnitudes`) on model states -/

/-- the "plus one" of the source (`term | 1` for an even, `term & ^1` for an odd value) -/
def tp1 (t : Nat) : Nat := if t &&& 1 = 0 then t ||| 1 else t - 1

theorem tp1_eq_xor (t : Nat) : tp1 t = t ^^^ 1 := Proofs.Forney.termPlus1_eq t

theorem iand_neg2 (t : Nat) (h : ¬ t &&& 1 = 0) : GoVal.iand (t : Int) (-2) = ((t - 1 : Nat) : Int) := by
  have h1 : t % 2 = 1 := by rw [Nat.and_one_is_mod] at h; omega
  unfold GoVal.iand
  have e : (-(-2 : Int) - 1).toNat = 1 := by decide
  have ha : (t : Int) ≥ 0 := by omega
  have hb : ¬ ((-2 : Int) ≥ 0) := by decide
  rw [if_pos ha, if_neg hb, Int.toNat_natCast, e, Nat.and_one_is_mod, h1]
  show (t : Int) - ((1 : Nat) : Int) = _
  omega

/-- the source's two-branch form of "plus one", as a control value -/
theorem tp1_ctl (t : Nat) (k : Int → Ctl σ ρ) :
    (Ctl.thenC (σ' := Int) (if (GoVal.iand (t : Int) 1 == 0) = true then Ctl.next (GoVal.ior (t : Int) 1)
      else Ctl.next (GoVal.iand (t : Int) (-2))) k) = k ((tp1 t : Nat) : Int) := by
  unfold tp1
  rw [show (1 : Int) = ((1 : Nat) : Int) from rfl, iand_natCast, natCast_beq_zero]
  by_cases h : t &&& 1 = 0
  · rw [if_pos (by rw [h]; rfl), if_pos h, ior_natCast]; rfl
  · rw [if_neg (by rw [beq_iff_eq]; exact h), if_neg h]
    have := iand_neg2 t h
    rw [this]; rfl

/-- one factor of the denominator: `den *= 1 + X_j·X_i⁻¹` for `j ≠ i` -/
def denStep (F : GF.GF) (xiInv i : Nat) (j xj den : Nat) : Ctl Nat ρ :=
  if i ≠ j then stepC (do let term ← F.mul xj xiInv; F.mul den (tp1 term)) else .next den

theorem iterL_den (F : GF.GF) (xiInv i : Nat) : ∀ (rest : List Nat) (j den : Nat),
    iterL (ρ := ρ) (denStep F xiInv i) j rest den = stepC (magDenominator F xiInv i rest j den) := by
  intro rest
  induction rest with
  | nil => intro j den; rfl
  | cons xj rest ih =>
    intro j den
    simp only [iterL, denStep, magDenominator]
    by_cases hij : i ≠ j
    · simp only [hij, ne_eq, not_false_eq_true, if_true, bind, Except.bind]
      cases F.mul xj xiInv with
      | error e => rfl
      | ok term =>
        simp only []
        cases hm : F.mul den (tp1 term) with
        | error e => simp only [tp1] at hm; simp only [hm]; rfl
        | ok den' => simp only [tp1] at hm; simp only [hm, stepC_ok]; exact ih (j + 1) den'
    · simp only [hij, if_false]; exact ih (j + 1) den

theorem magDenominator_error {F : GF.GF} {xiInv i : Nat} : ∀ (rest : List Nat) (j den : Nat) (e : Fault),
    magDenominator F xiInv i rest j den = .error e → IsPanic e := by
  intro rest
  induction rest with
  | nil => intro j den e h; simp only [magDenominator] at h; cases h
  | cons xj rest ih =>
    intro j den e h
    simp only [magDenominator] at h
    split at h
    · simp only [bind, Except.bind] at h
      cases h1 : F.mul xj xiInv with
      | error e1 => simp only [h1] at h; cases h; exact mul_error h1
      | ok term =>
        simp only [h1] at h
        cases h2 : F.mul den (if term &&& 1 = 0 then term ||| 1 else term - 1) with
        | error e2 => simp only [h2] at h; cases h; exact mul_error h2
        | ok den' => simp only [h2] at h; exact ih _ _ _ h
    · exact ih _ _ _ h

theorem evalLoop_error {F : GF.GF} {a : Nat} : ∀ (cs : List Nat) (r : Nat) (e : Fault), evalLoop F a cs r = .error e → IsPanic e := by
  intro cs
  induction cs with
  | nil => intro r e h; simp only [evalLoop] at h; cases h
  | cons c cs ih =>
    intro r e h
    simp only [evalLoop, bind, Except.bind] at h
    cases h1 : F.mul a r with
    | error e1 => simp only [h1] at h; cases h; exact mul_error h1
    | ok m => simp only [h1] at h; exact ih _ _ h

theorem evaluateAt_error {F : GF.GF} {p : Poly} {a : Nat} {e : Fault} (h : evaluateAt F p a = .error e) : IsPanic e := by
  unfold evaluateAt at h
  split at h
  · unfold getCoefficient at h
    split at h
    · cases h; exact ⟨_, rfl⟩
    · split at h
      · cases h
      · cases h; exact ⟨_, rfl⟩
  · split at h
    · cases h
    · split at h
      · cases h; exact ⟨_, rfl⟩
      · exact evalLoop_error _ _ _ h

/-- one magnitude written into the result slice -/
def magStep (F : GF.GF) (omega locs : List Nat) (D : ρ) (i xi : Nat) (res : List Nat) : Ctl (List Nat) ρ :=
  match errorMagnitude F omega locs i xi with
  | .ok m => stepC (Bits.setWord res i m)
  | .error e => failK (.ret D) Ctl.panic e

theorem iterL_mag (F : GF.GF) (omega locs : List Nat) (D : ρ) : ∀ (rest pre : List Nat),
    iterL (magStep F omega locs D) pre.length rest (pre ++ List.replicate rest.length 0) =
      match magLoop F omega locs rest pre.length with
      | .ok ms => .next (pre ++ ms)
      | .error e => failK (.ret D) Ctl.panic e := by
  intro rest
  induction rest with
  | nil => intro pre; simp [iterL, magLoop]
  | cons xi rest ih =>
    intro pre
    simp only [iterL, magStep, magLoop, bind, Except.bind]
    cases hm : errorMagnitude F omega locs pre.length xi with
    | error e => cases e <;> rfl
    | ok m =>
      have hset : Bits.setWord (pre ++ List.replicate (xi :: rest).length 0) pre.length m =
          .ok ((pre ++ [m]) ++ List.replicate rest.length 0) := by
        unfold Bits.setWord
        rw [if_pos (by simp)]
        congr 1
        rw [List.set_append_right _ _ (Nat.le_refl _), Nat.sub_self, List.length_cons, List.replicate_succ, List.set_cons_zero]
        simp
      simp only [hset, stepC_ok]
      have := ih (pre ++ [m])
      rw [List.length_append, List.length_singleton] at this
      rw [this]
      cases magLoop F omega locs rest (pre.length + 1) with
      | error e => cases e <;> rfl
      | ok ms => simp

/-! ### Chien search (`findErrorLocations`) on model states -/

/-- one candidate of the Chien search (state: locations found so far, candidate `i`) -/
def chienStep (F : GF.GF) (sigma : Poly) (ne : Nat) (D : ρ) (st : List Nat × Nat) : Ctl (List Nat × Nat) ρ :=
  if st.2 < F.size ∧ st.1.length < ne then
    match evaluateAt F sigma st.2 with
    | .error e => .panic e
    | .ok v =>
      if v = 0 then
        match F.inv st.2 with
        | .ok x => .next (st.1 ++ [x], st.2 + 1)
        | .error e => failK (.ret D) Ctl.panic e
      else .next (st.1, st.2 + 1)
  else .brk st

theorem chien_run (F : GF.GF) (sigma : Poly) (ne : Nat) (D : ρ) : ∀ (n i : Nat) (acc : List Nat) (fuel : Nat),
    i + n = F.size → n + 1 ≤ fuel →
    match chien F sigma ne (List.range' i n) acc with
    | .ok found => ∃ i', whileLoop (chienStep F sigma ne D) fuel (acc, i) = .brk (found, i')
    | .error e => whileLoop (chienStep F sigma ne D) fuel (acc, i) = failK (.ret D) Ctl.panic e := by
  intro n
  induction n with
  | zero =>
    intro i acc fuel hi hf
    obtain ⟨fuel, rfl⟩ : ∃ k, fuel = k + 1 := ⟨fuel - 1, by omega⟩
    simp only [List.range'_zero, chien]
    refine ⟨i, ?_⟩
    rw [whileLoop_succ]
    simp only [chienStep]
    rw [if_neg (by omega)]
  | succ n ih =>
    intro i acc fuel hi hf
    obtain ⟨fuel, rfl⟩ : ∃ k, fuel = k + 1 := ⟨fuel - 1, by omega⟩
    simp only [List.range'_succ, chien]
    rw [whileLoop_succ]
    simp only [chienStep]
    by_cases hfull : acc.length ≥ ne
    · rw [if_pos hfull, if_neg (by omega)]
      exact ⟨i, rfl⟩
    · rw [if_neg hfull, if_pos (by omega)]
      simp only [bind, Except.bind]
      cases hev : evaluateAt F sigma i with
      | error e => simp only []; rw [failK_panic_of (evaluateAt_error hev)]
      | ok v =>
        simp only []
        by_cases hv : v = 0
        · simp only [hv, if_true]
          cases hinv : F.inv i with
          | error e => cases e <;> rfl
          | ok x => exact ih (i + 1) (acc ++ [x]) fuel (by omega) (by omega)
        · simp only [hv, if_false]
          exact ih (i + 1) acc fuel (by omega) (by omega)

/-! ### the Euclidean algorithm of the decoder on model states -/

/-- what a failing decoder step means for the enclosing Go function (`DErr`: the decoder's own failure reasons) -/
def failD {γ : Type} (c : γ) (lift : Fault → γ) : DErr → γ
  | .base (.panic w) => lift (.panic w)
  | .base .fuel => lift .fuel
  | _ => c

/-- a decoder step as the outcome of a loop body -/
def stepD (dflt : ρ) : DRes τ → Ctl τ ρ
  | .ok t => .next t
  | .error e => failD (.ret dflt) Ctl.panic e

theorem mapS_failD (R : τ → σ) (c : ρ) (e : DErr) :
    mapS R (failD (Ctl.ret c) Ctl.panic e : Ctl τ ρ) = failD (Ctl.ret c) Ctl.panic e := by
  cases e with
  | base f => cases f <;> rfl
  | _ => rfl

theorem failD_base {γ : Type} (c : γ) (lift : Fault → γ) (e : Fault) : failD c lift (.base e) = failK c lift e := by
  cases e <;> rfl

/-- one round of the inner division loop of `runEuclideanAlgorithm` (state: r, q — the order of the Go locals) -/
def edivStep (F : GF.GF) (rLast : Poly) (dlt : Nat) (D : ρ) (st : Poly × Poly) : Ctl (Poly × Poly) ρ :=
  if degree st.1 ≥ degree rLast && !isZero st.1 then
    stepE D (do
      let lead ← getCoefficient st.1 (degree st.1)
      let scale ← F.mul lead dlt
      let monomial ← buildMonomial (degree st.1 - degree rLast) scale
      let q' ← addOrSubtract st.2 monomial
      let polynomial ← multiplyByMonomial F rLast (degree st.1 - degree rLast) scale
      let r' ← addOrSubtract st.1 polynomial
      pure (r', q'))
  else .brk st

theorem euclidDivLoop_succ (F : GF.GF) (rLast : Poly) (dlt : Nat) (m : Nat) (q r : Poly) :
    euclidDivLoop F rLast dlt (m + 1) q r =
      if degree r ≥ degree rLast && !isZero r then
        (do
          let lead ← getCoefficient r (degree r)
          let scale ← F.mul lead dlt
          let monomial ← buildMonomial (degree r - degree rLast) scale
          let q' ← addOrSubtract q monomial
          let polynomial ← multiplyByMonomial F rLast (degree r - degree rLast) scale
          let r' ← addOrSubtract r polynomial
          pure (r', q')) >>= fun t => euclidDivLoop F rLast dlt m t.2 t.1
      else .ok (q, r) := by
  rw [euclidDivLoop]
  split
  · simp only [bind_assoc, pure_bind]
  · rfl

/-- the inner loop on model states is the model's `euclidDivLoop` run on the SAME fuel (exhaustion included) -/
theorem edivStep_run (F : GF.GF) (rLast : Poly) (dlt : Nat) (D : ρ) : ∀ (n : Nat) (q r : Poly),
    whileLoop (edivStep F rLast dlt D) n (r, q) =
      match euclidDivLoop F rLast dlt n q r with
      | .ok t => .brk (t.2, t.1)
      | .error e => failK (.ret D) Ctl.panic e := by
  intro n
  induction n with
  | zero => intro q r; rfl
  | succ n ih =>
    intro q r
    rw [whileLoop_succ, euclidDivLoop_succ]
    unfold edivStep
    simp only []
    by_cases hc : (decide (degree r ≥ degree rLast) && !isZero r) = true
    · simp only [hc, if_true]
      generalize (do
          let lead ← getCoefficient r (degree r)
          let scale ← F.mul lead dlt
          let monomial ← buildMonomial (degree r - degree rLast) scale
          let q' ← addOrSubtract q monomial
          let polynomial ← multiplyByMonomial F rLast (degree r - degree rLast) scale
          let r' ← addOrSubtract r polynomial
          pure (r', q') : Res (Poly × Poly)) = blk
      cases blk with
      | error e => cases e <;> rfl
      | ok t => simp only [stepE_ok]; exact ih t.2 t.1
    · simp only [hc, if_false]
      rfl

/-- more fuel does not change a run that did not exhaust its fuel -/
theorem euclidDivLoop_mono (F : GF.GF) (rLast : Poly) (dlt : Nat) : ∀ (m n : Nat) (q r : Poly), m ≤ n →
    euclidDivLoop F rLast dlt m q r ≠ .error .fuel → euclidDivLoop F rLast dlt n q r = euclidDivLoop F rLast dlt m q r := by
  intro m
  induction m with
  | zero => intro n q r _ h; exact absurd rfl h
  | succ m ih =>
    intro n q r hn hnf
    obtain ⟨n, rfl⟩ : ∃ k, n = k + 1 := ⟨n - 1, by omega⟩
    rw [euclidDivLoop_succ] at hnf ⊢
    rw [euclidDivLoop_succ]
    by_cases hc : (decide (degree r ≥ degree rLast) && !isZero r) = true
    · simp only [hc, if_true] at hnf ⊢
      generalize (do
          let lead ← getCoefficient r (degree r)
          let scale ← F.mul lead dlt
          let monomial ← buildMonomial (degree r - degree rLast) scale
          let q' ← addOrSubtract q monomial
          let polynomial ← multiplyByMonomial F rLast (degree r - degree rLast) scale
          let r' ← addOrSubtract r polynomial
          pure (r', q') : Res (Poly × Poly)) = blk at hnf ⊢
      cases blk with
      | error e => rfl
      | ok t => exact ih n t.2 t.1 (by omega) hnf
    · rw [if_neg hc, if_neg hc]

theorem edivStep_inv {F : GF.GF} {rLast : Poly} {dlt : Nat} {D : ρ} {t t' : Poly × Poly}
    (ht : t.1 ≠ [] ∧ t.2 ≠ []) (h : edivStep F rLast dlt D t = .next t') : t'.1 ≠ [] ∧ t'.2 ≠ [] := by
  unfold edivStep at h
  split at h
  · simp only [bind, Except.bind] at h
    cases h1 : getCoefficient t.1 (degree t.1) with
    | error e => simp only [h1] at h; cases e <;> cases h
    | ok lead' =>
      simp only [h1] at h
      cases h2 : GF.GF.mul F lead' dlt with
      | error e => simp only [h2] at h; cases e <;> cases h
      | ok scale =>
        simp only [h2] at h
        cases h4 : buildMonomial (degree t.1 - degree rLast) scale with
        | error e => simp only [h4] at h; cases e <;> cases h
        | ok iq =>
          simp only [h4] at h
          cases h5 : addOrSubtract t.2 iq with
          | error e => simp only [h5] at h; cases e <;> cases h
          | ok q' =>
            simp only [h5] at h
            cases h3 : multiplyByMonomial F rLast (degree t.1 - degree rLast) scale with
            | error e => simp only [h3] at h; cases e <;> cases h
            | ok term =>
              simp only [h3] at h
              cases h6 : addOrSubtract t.1 term with
              | error e => simp only [h6] at h; cases e <;> cases h
              | ok r' =>
                simp only [h6, pure, Except.pure, stepE_ok] at h
                cases h
                exact ⟨addOrSubtract_ne ht.1 (multiplyByMonomial_ne h3) h6, addOrSubtract_ne ht.2 (buildMonomial_ne h4) h5⟩
  · cases h

/-- the inner loop keeps quotient and remainder non-empty -/
theorem euclidDivLoop_ne (F : GF.GF) (rLast : Poly) (dlt : Nat) : ∀ (m : Nat) (q r : Poly) (t : Poly × Poly), q ≠ [] → r ≠ [] →
    euclidDivLoop F rLast dlt m q r = .ok t → t.1 ≠ [] ∧ t.2 ≠ [] := by
  intro m
  induction m with
  | zero => intro q r t _ _ h; cases h
  | succ m ih =>
    intro q r t hq hr h
    have hw := edivStep_run (ρ := Unit) F rLast dlt () (m + 1) q r
    rw [h] at hw
    rw [whileLoop_succ] at hw
    cases hs : edivStep (ρ := Unit) F rLast dlt () (r, q) with
    | next t' =>
      rw [hs] at hw
      simp only [] at hw
      have hne := edivStep_inv (t := (r, q)) ⟨hr, hq⟩ hs
      have hw2 := edivStep_run (ρ := Unit) F rLast dlt () m t'.2 t'.1
      rw [show ((t'.1, t'.2) : Poly × Poly) = t' from rfl, hw] at hw2
      cases hm : euclidDivLoop F rLast dlt m t'.2 t'.1 with
      | ok t2 =>
        rw [hm] at hw2
        simp only [Ctl.brk.injEq] at hw2
        have := ih t'.2 t'.1 t2 hne.2 hne.1 hm
        have e1 : t.1 = t2.1 := by have := congrArg Prod.snd hw2; simpa using this
        have e2 : t.2 = t2.2 := by have := congrArg Prod.fst hw2; simpa using this
        rw [e1, e2]; exact this
      | error e => rw [hm] at hw2; cases e <;> cases hw2
    | brk t' =>
      rw [hs] at hw
      simp only [Ctl.brk.injEq] at hw
      unfold edivStep at hs
      split at hs
      · generalize (do
          let lead ← getCoefficient (r, q).1 (degree (r, q).1)
          let scale ← F.mul lead dlt
          let monomial ← buildMonomial (degree (r, q).1 - degree rLast) scale
          let q' ← addOrSubtract (r, q).2 monomial
          let polynomial ← multiplyByMonomial F rLast (degree (r, q).1 - degree rLast) scale
          let r' ← addOrSubtract (r, q).1 polynomial
          pure (r', q') : Res (Poly × Poly)) = blk at hs
        cases blk with
        | ok v => cases hs
        | error e => cases e <;> cases hs
      · cases hs
        have e1 : t.1 = q := by have := congrArg Prod.snd hw; simpa using this.symm
        have e2 : t.2 = r := by have := congrArg Prod.fst hw; simpa using this.symm
        rw [e1, e2]; exact ⟨hq, hr⟩
    | ret x => rw [hs] at hw; cases hw
    | panic f => rw [hs] at hw; cases hw

/-- one round of the outer loop of `runEuclideanAlgorithm`, the inner division running on fuel `f`:
    (rLast, r, tLast, t) ↦ (r, rLast mod r, t, q·t + tLast) -/
def euclidBlk (F : GF.GF) (f : Nat) (rLast r tLast t : Poly) : DRes (Poly × Poly × Poly × Poly) := do
  if isZero r then throw DErr.rLastZero
  let dlt ← liftD (getCoefficient r (degree r))
  let dltInverse ← liftD (F.inv dlt)
  let qr ← liftD (euclidDivLoop F r dltInverse f [0] rLast)
  let q ← liftD (multiply F qr.1 t)
  let t' ← liftD (addOrSubtract q tLast)
  if degree qr.2 ≥ degree r then throw DErr.illegalState
  pure (r, qr.2, t, t')

theorem euclidLoop_succ (F : GF.GF) (R m : Nat) (rLast r tLast t : Poly) :
    euclidLoop F R (m + 1) rLast r tLast t =
      if 2 * degree r ≥ R then
        euclidBlk F (rLast.length + 1) rLast r tLast t >>= fun s => euclidLoop F R m s.1 s.2.1 s.2.2.1 s.2.2.2
      else .ok (t, r) := by
  rw [euclidLoop]
  split
  · unfold euclidBlk
    by_cases hz : isZero r = true
    · simp only [hz, if_true]; rfl
    · simp only [hz, Bool.false_eq_true, if_false]
      simp only [bind, Except.bind, pure, Except.pure]
      cases liftD (getCoefficient r (degree r)) with
      | error e => rfl
      | ok dlt =>
        simp only []
        cases liftD (F.inv dlt) with
        | error e => rfl
        | ok dltInverse =>
          simp only []
          cases liftD (euclidDivLoop F r dltInverse (rLast.length + 1) [0] rLast) with
          | error e => rfl
          | ok qr =>
            obtain ⟨q, r'⟩ := qr
            simp only []
            cases liftD (multiply F q t) with
            | error e => rfl
            | ok q2 =>
              simp only []
              cases liftD (addOrSubtract q2 tLast) with
              | error e => rfl
              | ok t' =>
                simp only []
                by_cases hd : degree r' ≥ degree r
                · simp only [hd, if_true]; rfl
                · simp only [hd, if_false]
  · rfl

theorem liftD_ne_fuel {α : Type} {r : Res α} (h : r ≠ .error .fuel) : liftD r ≠ .error (.base .fuel) := by
  cases r with
  | ok v => intro h2; cases h2
  | error e => intro h2; simp only [liftD] at h2; cases h2; exact h rfl

/-- the round does not depend on the inner fuel once that suffices -/
theorem euclidBlk_mono (F : GF.GF) (f1 f2 : Nat) (hf : f1 ≤ f2) (rLast r tLast t : Poly)
    (hnf : euclidBlk F f1 rLast r tLast t ≠ .error (.base .fuel)) :
    euclidBlk F f2 rLast r tLast t = euclidBlk F f1 rLast r tLast t := by
  unfold euclidBlk at hnf ⊢
  by_cases hz : isZero r = true
  · simp only [hz, if_true]; rfl
  · simp only [hz, Bool.false_eq_true, if_false] at hnf ⊢
    simp only [bind, Except.bind, pure, Except.pure] at hnf ⊢
    cases h1 : liftD (getCoefficient r (degree r)) with
    | error e => rfl
    | ok dlt =>
      simp only [h1] at hnf ⊢
      cases h2 : liftD (F.inv dlt) with
      | error e => rfl
      | ok dltInverse =>
        simp only [h2] at hnf ⊢
        have hin : euclidDivLoop F r dltInverse f1 [0] rLast ≠ .error .fuel := by
          intro h; rw [h] at hnf; exact hnf rfl
        rw [euclidDivLoop_mono F r dltInverse f1 f2 [0] rLast hf hin]

/-- what a successful round returns -/
theorem euclidBlk_ok {F : GF.GF} {f : Nat} {rLast r tLast t : Poly} {s : Poly × Poly × Poly × Poly}
    (h : euclidBlk F f rLast r tLast t = .ok s) : s.1 = r ∧ degree s.2.1 < degree r := by
  unfold euclidBlk at h
  by_cases hz : isZero r = true
  · simp only [hz, if_true] at h; cases h
  · simp only [hz, Bool.false_eq_true, if_false] at h
    simp only [bind, Except.bind, pure, Except.pure] at h
    cases h1 : liftD (getCoefficient r (degree r)) with
    | error e => simp only [h1] at h; cases h
    | ok dlt =>
      simp only [h1] at h
      cases h2 : liftD (F.inv dlt) with
      | error e => simp only [h2] at h; cases h
      | ok dltInverse =>
        simp only [h2] at h
        cases h3 : liftD (euclidDivLoop F r dltInverse f [0] rLast) with
        | error e => simp only [h3] at h; cases h
        | ok qr =>
          simp only [h3] at h
          cases h4 : liftD (multiply F qr.1 t) with
          | error e => simp only [h4] at h; cases h
          | ok q2 =>
            simp only [h4] at h
            cases h5 : liftD (addOrSubtract q2 tLast) with
            | error e => simp only [h5] at h; cases h
            | ok t' =>
              simp only [h5] at h
              by_cases hd : degree qr.2 ≥ degree r
              · simp only [hd, if_true] at h; cases h
              · simp only [hd, if_false] at h
                cases h
                refine ⟨rfl, ?_⟩
                show degree qr.2 < degree r
                omega

/-- one round of the outer loop as a control value (state: rLast, r, tLast, t) -/
def euclidStep (F : GF.GF) (R : Nat) (D : ρ) (f : Nat) (st : Poly × Poly × Poly × Poly) : Ctl (Poly × Poly × Poly × Poly) ρ :=
  if 2 * degree st.2.1 ≥ R then stepD D (euclidBlk F f st.1 st.2.1 st.2.2.1 st.2.2.2) else .brk st

/-- the outer loop on model states, inner divisions on fuel `f`, is the model's `euclidLoop` whenever that does not exhaust
    its own budgets and `f` covers the lengths of the two remainders -/
theorem euclid_run (F : GF.GF) (R : Nat) (D : ρ) (f : Nat) : ∀ (m : Nat) (rLast r tLast t : Poly) (n : Nat), m ≤ n →
    rLast.length + 1 ≤ f → r.length + 1 ≤ f → euclidLoop F R m rLast r tLast t ≠ .error (.base .fuel) →
    match euclidLoop F R m rLast r tLast t with
    | .ok tr => ∃ rl tl, whileLoop (euclidStep F R D f) n (rLast, r, tLast, t) = .brk (rl, tr.2, tl, tr.1)
    | .error e => whileLoop (euclidStep F R D f) n (rLast, r, tLast, t) = failD (.ret D) Ctl.panic e := by
  intro m
  induction m with
  | zero => intro rLast r tLast t n _ _ _ h; exact absurd rfl h
  | succ m ih =>
    intro rLast r tLast t n hn hl1 hl2 hnf
    obtain ⟨n, rfl⟩ : ∃ k, n = k + 1 := ⟨n - 1, by omega⟩
    rw [euclidLoop_succ] at hnf ⊢
    rw [whileLoop_succ]
    simp only [euclidStep]
    by_cases hc : 2 * degree r ≥ R
    · simp only [hc, if_true] at hnf ⊢
      have hblk : euclidBlk F (rLast.length + 1) rLast r tLast t ≠ .error (.base .fuel) := by
        intro h; rw [h] at hnf; exact hnf rfl
      rw [euclidBlk_mono F (rLast.length + 1) f hl1 rLast r tLast t hblk]
      cases hb : euclidBlk F (rLast.length + 1) rLast r tLast t with
      | error e =>
        simp only [bind, Except.bind, stepD]
        cases e with
        | base fl => cases fl <;> rfl
        | _ => rfl
      | ok s =>
        rw [hb] at hnf
        simp only [bind, Except.bind, stepD] at hnf ⊢
        obtain ⟨hs1, hs2⟩ := euclidBlk_ok hb
        have := ih s.1 s.2.1 s.2.2.1 s.2.2.2 n (by omega) (by rw [hs1]; exact hl2) (by unfold degree at hs2; omega) hnf
        exact this
    · simp only [hc, if_false]
      exact ⟨rLast, tLast, rfl⟩

/-- an invariant that every continuing and every leaving step preserves holds of the state a `for cond` loop leaves with -/
theorem while_inv_brk (Inv : τ → Prop) (f : τ → Ctl τ ρ) (hnext : ∀ t t', Inv t → f t = .next t' → Inv t')
    (hbrk : ∀ t t', Inv t → f t = .brk t' → Inv t') : ∀ (n : Nat) (t t' : τ), Inv t → whileLoop f n t = .brk t' → Inv t' := by
  intro n
  induction n with
  | zero => intro t t' _ h; cases h
  | succ n ih =>
    intro t t' ht h
    rw [whileLoop_succ] at h
    cases hf : f t with
    | next t2 => rw [hf] at h; exact ih t2 t' (hnext t t2 ht hf) h
    | brk t2 => rw [hf] at h; simp only [Ctl.brk.injEq] at h; subst h; exact hbrk t t2 ht hf
    | ret r => rw [hf] at h; cases h
    | panic e => rw [hf] at h; cases h

theorem multiplyBy_error {F : GF.GF} {p : Poly} {s : Nat} {e : Fault} (hp : p ≠ []) (h : multiplyBy F p s = .error e) : IsPanic e := by
  unfold multiplyBy at h
  split at h
  · cases h
  · split at h
    · cases h
    · simp only [bind, Except.bind] at h
      cases hm : p.mapM (fun x => F.mul x s) with
      | error e1 => simp only [hm] at h; cases h; exact mapM_error (fun x e h => mul_error h) _ _ hm
      | ok ms =>
        simp only [hm] at h
        have hl := mapM_length _ _ hm
        have : 0 < p.length := List.length_pos_iff.mpr hp
        unfold mkPoly at h
        cases ms with
        | nil => simp at hl; omega
        | cons x xs => cases h

/-! ### `Decode`: the syndrome loop and the correction loop on model states -/

/-- one syndrome: `S_i = poly(α^(i+base))`, stored at `len-1-i`; `noError` stays true while the values are 0 -/
def synStep (F : GF.GF) (poly : Poly) (i : Nat) (st : List Nat × Bool) : Ctl (List Nat × Bool) ρ :=
  match (do let x ← F.expAt (i + F.base); evaluateAt F poly x) with
  | .error e => .panic e
  | .ok ev =>
    match Bits.setWord st.1 (st.1.length - 1 - i) ev with
    | .error e => .panic e
    | .ok sc => .next (sc, if ev ≠ 0 then false else st.2)

theorem iterL_syn (F : GF.GF) (poly : Poly) : ∀ (n i : Nat) (accRev : List Nat) (ne : Bool), accRev.length = i →
    iterL (ρ := ρ) (fun _ d t => synStep F poly d t) i (List.range' i n) (List.replicate n 0 ++ accRev, ne) =
      match syndromes F poly n i with
      | .ok rest => .next (rest.reverse ++ accRev, ne && rest.all (· == 0))
      | .error e => .panic e := by
  intro n
  induction n with
  | zero => intro i accRev ne _; simp [iterL, syndromes]
  | succ n ih =>
    intro i accRev ne hacc
    have hset : ∀ ev, Bits.setWord (List.replicate (n + 1) 0 ++ accRev) ((List.replicate (n + 1) 0 ++ accRev).length - 1 - i) ev =
        .ok (List.replicate n 0 ++ (ev :: accRev)) := by
      intro ev
      unfold Bits.setWord
      have hpos : (List.replicate (n + 1) 0 ++ accRev).length - 1 - i = n := by simp; omega
      rw [hpos, if_pos (by simp; omega)]
      congr 1
      rw [List.replicate_succ', List.append_assoc, List.set_append_right _ _ (by simp), List.length_replicate, Nat.sub_self]
      rfl
    have hstep : synStep (ρ := ρ) F poly i (List.replicate (n + 1) 0 ++ accRev, ne) =
        match (do let x ← F.expAt (i + F.base); evaluateAt F poly x) with
        | .error e => .panic e
        | .ok ev => .next (List.replicate n 0 ++ (ev :: accRev), if ev ≠ 0 then false else ne) := by
      unfold synStep
      cases (do let x ← F.expAt (i + F.base); evaluateAt F poly x : Res Nat) with
      | error e => rfl
      | ok ev => simp only [hset]
    simp only [List.range'_succ, iterL]
    rw [hstep]
    simp only [syndromes, bind, Except.bind]
    cases hx : F.expAt (i + F.base) with
    | error e => rfl
    | ok x =>
      simp only []
      cases hev : evaluateAt F poly x with
      | error e => rfl
      | ok ev =>
        simp only []
        rw [ih (i + 1) (ev :: accRev) _ (by simp [hacc])]
        cases syndromes F poly n (i + 1) with
        | error e => rfl
        | ok rest =>
          simp only [List.reverse_cons, List.append_assoc, List.singleton_append, List.all_cons]
          congr 2
          by_cases hz : ev = 0
          · subst hz; simp
          · have : (ev == 0) = false := beq_eq_false_iff_ne.mpr hz
            simp [hz, this]

theorem syndromes_error {F : GF.GF} {poly : Poly} : ∀ (n i : Nat) (e : Fault), syndromes F poly n i = .error e → IsPanic e := by
  intro n
  induction n with
  | zero => intro i e h; simp only [syndromes] at h; cases h
  | succ n ih =>
    intro i e h
    simp only [syndromes, bind, Except.bind] at h
    cases hx : F.expAt (i + F.base) with
    | error e1 => simp only [hx] at h; cases h; exact gfidx_error hx
    | ok x =>
      simp only [hx] at h
      cases hev : evaluateAt F poly x with
      | error e1 => simp only [hev] at h; cases h; exact evaluateAt_error hev
      | ok ev =>
        simp only [hev] at h
        cases hr : syndromes F poly n (i + 1) with
        | error e1 => simp only [hr] at h; cases h; exact ih _ _ hr
        | ok rest => simp only [hr] at h; cases h

theorem syndromes_length {F : GF.GF} {poly : Poly} : ∀ (n i : Nat) (s : List Nat), syndromes F poly n i = .ok s → s.length = n := by
  intro n
  induction n with
  | zero => intro i s h; simp only [syndromes] at h; cases h; rfl
  | succ n ih =>
    intro i s h
    simp only [syndromes, bind, Except.bind] at h
    cases hx : F.expAt (i + F.base) with
    | error e1 => simp only [hx] at h; cases h
    | ok x =>
      simp only [hx] at h
      cases hev : evaluateAt F poly x with
      | error e1 => simp only [hev] at h; cases h
      | ok ev =>
        simp only [hev] at h
        cases hr : syndromes F poly n (i + 1) with
        | error e1 => simp only [hr] at h; cases h
        | ok rest => simp only [hr] at h; cases h; simp [ih _ _ hr]

/-- one correction: `received[len-1-log(X_i)] ^= magnitude_i`; a zero location or a location outside the word ends `Decode`
    with a checked error (the slice as corrected so far) -/
def corrStep (F : GF.GF) (mags : List Nat) (i loc : Nat) (rec : List Nat) : Ctl (List Nat) (Bool × List Int) :=
  match F.logOf loc with
  | .error e => failK (.ret (true, ints rec)) Ctl.panic e
  | .ok log =>
    if rec.length < log + 1 then .ret (true, ints rec)
    else
      match rec[rec.length - 1 - log]? with
      | none => .panic oob
      | some v =>
        match mags[i]? with
        | none => .panic oob
        | some m => stepC (Bits.setWord rec (rec.length - 1 - log) (v ^^^ m))

theorem iterL_corr (F : GF.GF) (mags : List Nat) : ∀ (locs restM : List Nat) (i : Nat) (rec : List Nat),
    mags.drop i = restM → restM.length = locs.length →
    match applyCorrections F locs restM rec with
    | .ok w => iterL (corrStep F mags) i locs rec = .next w
    | .error (.base (.panic s)) => iterL (corrStep F mags) i locs rec = .panic (.panic s)
    | .error (.base .fuel) => iterL (corrStep F mags) i locs rec = .panic .fuel
    | .error _ => ∃ w', iterL (corrStep F mags) i locs rec = .ret (true, w') := by
  intro locs
  induction locs with
  | nil => intro restM i rec _ _; simp [applyCorrections, iterL]
  | cons loc locs ih =>
    intro restM i rec hd hl
    cases restM with
    | nil => simp at hl
    | cons m ms =>
      have hmi : mags[i]? = some m := by
        have := congrArg List.head? hd
        rwa [List.head?_drop] at this
      have hd' : mags.drop (i + 1) = ms := by rw [← List.drop_drop, hd]; rfl
      simp only [applyCorrections, iterL, corrStep, bind, Except.bind, liftD]
      cases hlog : F.logOf loc with
      | error e => cases e <;> first | rfl | exact ⟨_, rfl⟩
      | ok log =>
        simp only []
        by_cases hbad : rec.length < log + 1
        · simp only [hbad, if_true]
          exact ⟨_, rfl⟩
        · simp only [hbad, if_false]
          have hlt : rec.length - 1 - log < rec.length := by omega
          simp only [List.getElem?_eq_getElem hlt, hmi]
          have hset : Bits.setWord rec (rec.length - 1 - log) (rec[rec.length - 1 - log] ^^^ m) =
              .ok (rec.set (rec.length - 1 - log) (rec[rec.length - 1 - log] ^^^ m)) := by
            unfold Bits.setWord; rw [if_pos hlt]
          simp only [hset, stepC_ok]
          exact ih ms (i + 1) _ hd' (by simpa using hl)

theorem magLoop_length {F : GF.GF} {omega locs : List Nat} : ∀ (rest : List Nat) (i : Nat) (ms : List Nat),
    magLoop F omega locs rest i = .ok ms → ms.length = rest.length := by
  intro rest
  induction rest with
  | nil => intro i ms h; simp only [magLoop] at h; cases h; rfl
  | cons xi rest ih =>
    intro i ms h
    simp only [magLoop, bind, Except.bind] at h
    cases hm : errorMagnitude F omega locs i xi with
    | error e => simp only [hm] at h; cases h
    | ok m =>
      simp only [hm] at h
      cases hr : magLoop F omega locs rest (i + 1) with
      | error e => simp only [hr] at h; cases h
      | ok ms' => simp only [hr] at h; cases h; simp [ih _ _ hr]

theorem while_map' (R : τ → σ) (f : τ → Ctl τ ρ) (t : τ) {body : σ → Ctl σ ρ} {s : σ} {n : Nat}
    (hs : s = R t) (hb : ∀ t, body (R t) = mapS R (f t)) :
    whileLoop body n s = mapS R (whileLoop f n t) := by
  subst hs; exact while_map R body f hb n t

end Gzx.K04bTie
