/-
  Lemmas for the kernel theorems of `Obligations/K04b*.lean` (work package c04tie): the Reed-Solomon / GF polynomial
  code regenerated from /repo on every run (`Gzx.Gen.K04b`, value-passing target of the translator) against the
  hand-written model of `Model/GF.lean` + `Model/RS.lean`.  Nothing here mentions the text of a generated definition.

  Conventions: a model value (`Nat`, `List Nat`) appears in regenerated code as `Int` / `List Int` through `Int.ofNat` /
  `ints`; a Go function with an `error` result renders a model result through `expE` (`(zero value, true)` for a checked
  failure, the fault itself for a panic or for exhausted fuel).
-/
import Gzx.GoMV
import Gzx.Proofs.GoMTie
import Gzx.Model.RS
namespace Gzx.K04bTie
open Gzx Gzx.GoM Gzx.GoVal Gzx.RS

/-- Go `[]int` contents of a model coefficient list / table -/
abbrev ints (l : List Nat) : List Int := l.map Int.ofNat

theorem ints_length (l : List Nat) : (ints l).length = l.length := by simp [ints]
theorem len_ints (l : List Nat) : len (ints l) = (l.length : Int) := by simp [len, ints]

/-- how a Go function `(T, error)` renders a model result: value and `nil`, or zero value and a non-nil error for a
    checked failure; a panic (and exhausted fuel) is the fault itself -/
def expE {α β : Type} (dflt : α) (emb : β → α) : Res β → Res (α × Bool)
  | .ok b => .ok (emb b, false)
  | .error (.panic w) => .error (.panic w)
  | .error .fuel => .error .fuel
  | .error _ => .ok (dflt, true)

@[simp] theorem expE_ok {α β : Type} (d : α) (emb : β → α) (b : β) : expE d emb (.ok b) = .ok (emb b, false) := rfl
@[simp] theorem expE_illegal {α β : Type} (d : α) (emb : β → α) : expE d emb (.error .illegalArg : Res β) = .ok (d, true) := rfl
@[simp] theorem expE_panic {α β : Type} (d : α) (emb : β → α) (w : String) :
    expE d emb (.error (.panic w) : Res β) = .error (.panic w) := rfl

/-- the only way the model's field / polynomial operations fail: a Go panic or the checked `IllegalArgumentException` -/
def PanicOrArg (e : Fault) : Prop := (∃ w, e = .panic w) ∨ e = .illegalArg

/-! ### checked reads of a model table -/

theorem idx_ints (l : List Nat) (e : Int) (n : Nat) (h : e = n) :
    GoM.idx (ints l) e = match l[n]? with | some v => .ok (v : Int) | none => .error oob := by
  subst h
  unfold GoM.idx
  have : ¬ ((n : Int) < 0) := by omega
  simp only [this, if_false, Int.toNat_natCast, ints, List.getElem?_map]
  cases l[n]? <;> rfl

theorem idx_arr (t : Array Nat) (e : Int) (n : Nat) (h : e = n) :
    GoM.idx (ints t.toList) e = (GF.idx t n).map Int.ofNat := by
  rw [idx_ints _ _ n h]
  unfold GF.idx
  rw [Array.getElem?_toList]
  cases t[n]? <;> rfl

theorem tmod_cast (x y : Nat) (e1 e2 : Int) (h1 : e1 = x) (h2 : e2 = y) : Int.tmod e1 e2 = ((x % y : Nat) : Int) := by
  subst h1 h2; exact (Int.ofNat_tmod x y).symm

theorem gomod_cast (x y : Nat) (hy : y ≠ 0) (e1 e2 : Int) (h1 : e1 = x) (h2 : e2 = y) :
    GoM.mod e1 e2 = .ok ((x % y : Nat) : Int) := by
  unfold GoM.mod
  have : ¬ e2 = 0 := by omega
  rw [if_neg this, tmod_cast x y e1 e2 h1 h2]

theorem natCast_beq_zero (n : Nat) : (((n : Int) == 0) : Bool) = (n == 0) := by
  cases n <;> rfl

theorem natCast_beq (n m : Nat) : (((n : Int) == (m : Int)) : Bool) = (n == m) := by
  by_cases h : n = m
  · subst h; rw [beq_self_eq_true, beq_self_eq_true]
  · have : ¬ (n : Int) = m := by omega
    rw [beq_eq_false_iff_ne.mpr h, beq_eq_false_iff_ne.mpr this]


/-! ### control values over model states -/

variable {σ ρ τ : Type}

/-- a control value over model states, seen through the embedding `R` of the state -/
def mapS (R : τ → σ) : Ctl τ ρ → Ctl σ ρ
  | .next t => .next (R t)
  | .brk t => .brk (R t)
  | .ret r => .ret r
  | .panic f => .panic f

@[simp] theorem mapS_next (R : τ → σ) (t : τ) : mapS R (.next t : Ctl τ ρ) = .next (R t) := rfl
@[simp] theorem mapS_brk (R : τ → σ) (t : τ) : mapS R (.brk t : Ctl τ ρ) = .brk (R t) := rfl
@[simp] theorem mapS_ret (R : τ → σ) (r : ρ) : mapS R (.ret r : Ctl τ ρ) = .ret r := rfl
@[simp] theorem mapS_panic (R : τ → σ) (f : Fault) : mapS R (.panic f : Ctl τ ρ) = .panic f := rfl

theorem mapS_thenR (R : τ → σ) (c : Ctl τ ρ) (k : σ → Res ρ) : (mapS R c).thenR k = c.thenR (fun t => k (R t)) := by
  cases c <;> rfl

theorem mapS_thenC {σ' : Type} (R : τ → σ') (c : Ctl τ ρ) (k : σ' → Ctl σ ρ) :
    (mapS R c).thenC k = c.thenC (fun t => k (R t)) := by
  cases c <;> rfl

/-- a model step (`Res`) as a control value -/
def stepC : Res τ → Ctl τ ρ
  | .ok t => .next t
  | .error f => .panic f

@[simp] theorem stepC_ok (t : τ) : (stepC (.ok t) : Ctl τ ρ) = .next t := rfl
@[simp] theorem stepC_error (f : Fault) : (stepC (.error f : Res τ) : Ctl τ ρ) = .panic f := rfl

/-- list-driven iteration: step `i` consumes the next element -/
def iterL (g : Nat → Nat → τ → Ctl τ ρ) : Nat → List Nat → τ → Ctl τ ρ
  | _, [], t => .next t
  | i, x :: xs, t =>
    match g i x t with
    | .next t' => iterL g (i + 1) xs t'
    | .brk t' => .brk t'
    | .ret r => .ret r
    | .panic f => .panic f

/-- `for i := a; i < a + len(l); i++` whose `j`-th step is the model step `g` on `l[j]` -/
theorem loop_list (R : τ → σ) (body : Int → σ → Ctl σ ρ) (g : Nat → Nat → τ → Ctl τ ρ) :
    ∀ (l : List Nat) (a : Nat) (t : τ),
      (∀ j (hj : j < l.length) t, body ((a + j : Nat) : Int) (R t) = mapS R (g (a + j) l[j] t)) →
      loop body 1 l.length (a : Int) (R t) = mapS R (iterL g a l t) := by
  intro l
  induction l with
  | nil => intro a t _; rfl
  | cons x xs ih =>
    intro a t hb
    have h0 := hb 0 (by simp) t
    simp only [Nat.add_zero, List.getElem_cons_zero] at h0
    rw [List.length_cons, loop_succ, h0]
    simp only [iterL]
    cases hg : g a x t with
    | next t' =>
      simp only [mapS_next]
      have e : (a : Int) + 1 = ((a + 1 : Nat) : Int) := by omega
      rw [e]
      refine ih (a + 1) t' (fun j hj t => ?_)
      have := hb (j + 1) (by simp; omega) t
      simp only [List.getElem_cons_succ] at this
      rw [show a + 1 + j = a + (j + 1) by omega]
      exact this
    | brk t' => rfl
    | ret r => rfl
    | panic f => rfl

theorem loop_list' (R : τ → σ) (g : Nat → Nat → τ → Ctl τ ρ) (l : List Nat) (a : Nat) (t : τ)
    {body : Int → σ → Ctl σ ρ} {n : Nat} {i0 : Int} {s : σ}
    (hs : s = R t) (hn : n = l.length) (hi : i0 = (a : Int))
    (hb : ∀ j (hj : j < l.length) t, body ((a + j : Nat) : Int) (R t) = mapS R (g (a + j) l[j] t)) :
    loop body 1 n i0 s = mapS R (iterL g a l t) := by
  subst hs hn hi; exact loop_list R body g l a t hb

/-- `for i, x := range l` -/
theorem forRange_list (R : τ → σ) (body : Int → Int → σ → Ctl σ ρ) (g : Nat → Nat → τ → Ctl τ ρ) :
    ∀ (l : List Nat) (a : Nat) (t : τ),
      (∀ j (hj : j < l.length) t, body ((a + j : Nat) : Int) ((l[j] : Nat) : Int) (R t) = mapS R (g (a + j) l[j] t)) →
      forRange body (ints l) (a : Int) (R t) = mapS R (iterL g a l t) := by
  intro l
  induction l with
  | nil => intro a t _; rfl
  | cons x xs ih =>
    intro a t hb
    have h0 := hb 0 (by simp) t
    simp only [Nat.add_zero, List.getElem_cons_zero] at h0
    simp only [ints, List.map_cons, forRange, iterL]
    rw [show Int.ofNat x = (x : Int) from rfl, h0]
    cases hg : g a x t with
    | next t' =>
      simp only [mapS_next]
      have e : (a : Int) + 1 = ((a + 1 : Nat) : Int) := by omega
      rw [e]
      refine ih (a + 1) t' (fun j hj t => ?_)
      have := hb (j + 1) (by simp; omega) t
      simp only [List.getElem_cons_succ] at this
      rw [show a + 1 + j = a + (j + 1) by omega]
      exact this
    | brk t' => rfl
    | ret r => rfl
    | panic f => rfl

theorem forRange_list' (R : τ → σ) (g : Nat → Nat → τ → Ctl τ ρ) (l : List Nat) (a : Nat) (t : τ)
    {body : Int → Int → σ → Ctl σ ρ} {xs : List Int} {i0 : Int} {s : σ}
    (hx : xs = ints l) (hs : s = R t) (hi : i0 = (a : Int))
    (hb : ∀ j (hj : j < l.length) t, body ((a + j : Nat) : Int) ((l[j] : Nat) : Int) (R t) = mapS R (g (a + j) l[j] t)) :
    forRange body xs i0 s = mapS R (iterL g a l t) := by
  subst hx hs hi; exact forRange_list R body g l a t hb

/-- a `for cond` loop whose body is a model step on related states -/
theorem while_map (R : τ → σ) (body : σ → Ctl σ ρ) (f : τ → Ctl τ ρ) (hb : ∀ t, body (R t) = mapS R (f t)) :
    ∀ (n : Nat) (t : τ), whileLoop body n (R t) = mapS R (whileLoop f n t) := by
  intro n
  induction n with
  | zero => intro t; rfl
  | succ n ih =>
    intro t
    rw [whileLoop_succ, whileLoop_succ, hb t]
    cases f t with
    | next t' => exact ih t'
    | brk t' => rfl
    | ret r => rfl
    | panic f => rfl

/-! ### faults of the model's field operations are panics -/

/-- a Go panic (not a checked error, not exhausted fuel) -/
def IsPanic (e : Fault) : Prop := ∃ w, e = .panic w

theorem expE_of_panic {α β : Type} (d : α) (emb : β → α) {e : Fault} (h : IsPanic e) :
    expE d emb (.error e : Res β) = .error e := by
  obtain ⟨w, rfl⟩ := h; rfl

theorem gfidx_error {t : Array Nat} {i : Nat} {e : Fault} (h : GF.idx t i = .error e) : IsPanic e := by
  unfold GF.idx at h
  cases hg : t[i]? with
  | some v => rw [hg] at h; cases h
  | none => rw [hg] at h; cases h; exact ⟨_, rfl⟩

theorem mul_error {F : GF.GF} {a b : Nat} {e : Fault} (h : F.mul a b = .error e) : IsPanic e := by
  unfold GF.GF.mul at h
  split at h
  · cases h
  · simp only [bind, Except.bind] at h
    cases h1 : GF.idx F.log a with
    | error e1 => rw [h1] at h; cases h; exact gfidx_error h1
    | ok la =>
      rw [h1] at h
      cases h2 : GF.idx F.log b with
      | error e2 => rw [h2] at h; cases h; exact gfidx_error h2
      | ok lb =>
        rw [h2] at h
        simp only [] at h
        split at h
        · cases h; exact ⟨_, rfl⟩
        · exact gfidx_error h

theorem mapM_error {f : Nat → Res Nat} (hf : ∀ x e, f x = .error e → IsPanic e) :
    ∀ (l : List Nat) (e : Fault), l.mapM f = .error e → IsPanic e := by
  intro l
  induction l with
  | nil => intro e h; simp [pure, Except.pure] at h
  | cons x xs ih =>
    intro e h
    rw [List.mapM_cons] at h
    simp only [bind, Except.bind] at h
    cases hx : f x with
    | error e1 => rw [hx] at h; cases h; exact hf x _ hx
    | ok m =>
      rw [hx] at h
      cases hxs : xs.mapM f with
      | error e2 => rw [hxs] at h; cases h; exact ih _ hxs
      | ok ms => rw [hxs] at h; cases h

/-! ### loops that fill a fresh slice -/

/-- `prod[i] = f(x)` for the `i`-th element `x` -/
def mapStep (f : Nat → Res Nat) (i x : Nat) (prod : List Nat) : Ctl (List Nat) ρ :=
  match f x with
  | .ok m => stepC (Bits.setWord prod i m)
  | .error e => .panic e

theorem iterL_map (f : Nat → Res Nat) (tailLen : Nat) : ∀ (l pre : List Nat),
    iterL (ρ := ρ) (mapStep f) pre.length l (pre ++ List.replicate (l.length + tailLen) 0) =
      stepC ((l.mapM f).map (fun ms => pre ++ ms ++ List.replicate tailLen 0)) := by
  intro l
  induction l with
  | nil => intro pre; simp [iterL, pure, Except.pure, Except.map]
  | cons x xs ih =>
    intro pre
    rw [List.mapM_cons]
    simp only [iterL, mapStep, bind, Except.bind]
    cases hx : f x with
    | error e => rfl
    | ok m =>
      have hset : Bits.setWord (pre ++ List.replicate ((x :: xs).length + tailLen) 0) pre.length m =
          .ok ((pre ++ [m]) ++ List.replicate (xs.length + tailLen) 0) := by
        unfold Bits.setWord
        rw [if_pos (by simp; omega)]
        congr 1
        rw [List.set_append_right _ _ (Nat.le_refl _), Nat.sub_self, List.length_cons,
          show xs.length + 1 + tailLen = (xs.length + tailLen) + 1 by omega, List.replicate_succ, List.set_cons_zero]
        simp
      simp only [hset, stepC_ok]
      have := ih (pre ++ [m])
      rw [List.length_append, List.length_singleton] at this
      rw [this]
      cases xs.mapM f with
      | error e => rfl
      | ok ms => simp [Except.map, pure, Except.pure]

theorem while_map' (R : τ → σ) (f : τ → Ctl τ ρ) (t : τ) {body : σ → Ctl σ ρ} {s : σ} {n : Nat}
    (hs : s = R t) (hb : ∀ t, body (R t) = mapS R (f t)) :
    whileLoop body n s = mapS R (whileLoop f n t) := by
  subst hs; exact while_map R body f hb n t

end Gzx.K04bTie
