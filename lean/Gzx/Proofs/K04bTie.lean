/-
  Lemmas for the kernel theorems of `Obligations/K04b*.lean` (work package c04tie): the Reed-Solomon / GF polynomial
  code regenerated from /repo on every run (`Gzx.Gen.K04b`, value-passing target of the translator) against the
  hand-written model of `Model/GF.lean` + `Model/RS.lean`.  Nothing here mentions the text of a generated definition.

  Conventions: a model value (`Nat`, `List Nat`) appears in regenerated code as `Int` / `List Int` through `Int.ofNat` /
  `ints`; a Go function with an `error` result renders a model result through `expE` (`(zero value, true)` for a checked
  failure, the fault itself for a panic or for exhausted fuel).
-/
import Gzx.GoMV
import Gzx.Proofs.GoMTie
import Gzx.Model.RS
namespace Gzx.K04bTie
open Gzx Gzx.GoM Gzx.GoVal Gzx.RS

/-- Go `[]int` contents of a model coefficient list / table -/
abbrev ints (l : List Nat) : List Int := l.map Int.ofNat

theorem ints_length (l : List Nat) : (ints l).length = l.length := by simp [ints]
theorem len_ints (l : List Nat) : len (ints l) = (l.length : Int) := by simp [len, ints]

/-- how a Go function `(T, error)` renders a model result: value and `nil`, or zero value and a non-nil error for a
    checked failure; a panic (and exhausted fuel) is the fault itself -/
def expE {α β : Type} (dflt : α) (emb : β → α) : Res β → Res (α × Bool)
  | .ok b => .ok (emb b, false)
  | .error (.panic w) => .error (.panic w)
  | .error .fuel => .error .fuel
  | .error _ => .ok (dflt, true)

@[simp] theorem expE_ok {α β : Type} (d : α) (emb : β → α) (b : β) : expE d emb (.ok b) = .ok (emb b, false) := rfl
@[simp] theorem expE_illegal {α β : Type} (d : α) (emb : β → α) : expE d emb (.error .illegalArg : Res β) = .ok (d, true) := rfl
@[simp] theorem expE_panic {α β : Type} (d : α) (emb : β → α) (w : String) :
    expE d emb (.error (.panic w) : Res β) = .error (.panic w) := rfl

/-- the only way the model's field / polynomial operations fail: a Go panic or the checked `IllegalArgumentException` -/
def PanicOrArg (e : Fault) : Prop := (∃ w, e = .panic w) ∨ e = .illegalArg

/-! ### checked reads of a model table -/

theorem idx_ints (l : List Nat) (e : Int) (n : Nat) (h : e = n) :
    GoM.idx (ints l) e = match l[n]? with | some v => .ok (v : Int) | none => .error oob := by
  subst h
  unfold GoM.idx
  have : ¬ ((n : Int) < 0) := by omega
  simp only [this, if_false, Int.toNat_natCast, ints, List.getElem?_map]
  cases l[n]? <;> rfl

theorem idx_arr (t : Array Nat) (e : Int) (n : Nat) (h : e = n) :
    GoM.idx (ints t.toList) e = (GF.idx t n).map Int.ofNat := by
  rw [idx_ints _ _ n h]
  unfold GF.idx
  rw [Array.getElem?_toList]
  cases t[n]? <;> rfl

theorem tmod_cast (x y : Nat) (e1 e2 : Int) (h1 : e1 = x) (h2 : e2 = y) : Int.tmod e1 e2 = ((x % y : Nat) : Int) := by
  subst h1 h2; exact (Int.ofNat_tmod x y).symm

theorem gomod_cast (x y : Nat) (hy : y ≠ 0) (e1 e2 : Int) (h1 : e1 = x) (h2 : e2 = y) :
    GoM.mod e1 e2 = .ok ((x % y : Nat) : Int) := by
  unfold GoM.mod
  have : ¬ e2 = 0 := by omega
  rw [if_neg this, tmod_cast x y e1 e2 h1 h2]

theorem natCast_beq_zero (n : Nat) : (((n : Int) == 0) : Bool) = (n == 0) := by
  cases n <;> rfl

theorem natCast_beq (n m : Nat) : (((n : Int) == (m : Int)) : Bool) = (n == m) := by
  by_cases h : n = m
  · subst h; rw [beq_self_eq_true, beq_self_eq_true]
  · have : ¬ (n : Int) = m := by omega
    rw [beq_eq_false_iff_ne.mpr h, beq_eq_false_iff_ne.mpr this]

end Gzx.K04bTie
