/-
  Lemmas for `Obligations/K08c.lean` (work package kfinish): the reference placement program `DMRef.placeState` (ISO/IEC 16022
  Annex F) seen as a sequence of steps — equation lemmas, "a good final state has only good predecessors", and the picture
  `paint` that the Go code's `bits` array holds after the assignments of a state.  Nothing here mentions a generated definition.
-/
import Gzx.Ref.DMPlacement
import Gzx.Proofs.GoMTie
namespace Gzx.K08c
open Gzx Gzx.GoM Gzx.DMRef

theorem setIdx_nat (s : List Int) (i : Nat) (v : Int) (h : i < s.length) : setIdx s (i : Int) v = .ok (s.set i v) := by
  unfold setIdx
  have : ¬ ((i : Int) < 0) := by omega
  simp [this, h]

/-! ### the reference program, step by step -/

/-- the wrap-around rules of `module` -/
def wrapRC (nrow ncol : Nat) (row col : Int) : Int × Int :=
  let rc : Int × Int := if row < 0 then (row + nrow, col + (4 - (((nrow + 4) % 8 : Nat) : Int))) else (row, col)
  if rc.2 < 0 then (rc.1 + (4 - (((ncol + 4) % 8 : Nat) : Int)), rc.2 + ncol) else rc

theorem module_eq (nrow ncol : Nat) (st : PState) (row col : Int) :
    module nrow ncol st row col =
      match cellOf nrow ncol (wrapRC nrow ncol row col).1 (wrapRC nrow ncol row col).2 with
      | some c => { st with occ := st.occ ||| (1 <<< c), seq := c :: st.seq, dup := st.dup || st.occ.testBit c }
      | none => { st with bad := true } := rfl

theorem cellOf_some {nrow ncol : Nat} {row col : Int} {c : Nat} (h : cellOf nrow ncol row col = some c) :
    0 ≤ row ∧ row < nrow ∧ 0 ≤ col ∧ col < ncol ∧ c = row.toNat * ncol + col.toNat := by
  unfold cellOf at h
  split at h
  · rename_i hc
    injection h with h
    exact ⟨hc.1, hc.2.1, hc.2.2.1, hc.2.2.2, h.symm⟩
  · cases h

theorem cell_lt {nrow ncol : Nat} {row col : Int} {c : Nat} (h : cellOf nrow ncol row col = some c) : c < nrow * ncol := by
  obtain ⟨h0, h1, h2, h3, rfl⟩ := cellOf_some h
  have hr : row.toNat + 1 ≤ nrow := by omega
  have := Nat.mul_le_mul_right ncol hr
  rw [Nat.add_mul] at this
  omega

theorem cell_cast {nrow ncol : Nat} {row col : Int} {c : Nat} (h : cellOf nrow ncol row col = some c) :
    row * (ncol : Int) + col = (c : Int) := by
  obtain ⟨h0, h1, h2, h3, rfl⟩ := cellOf_some h
  rw [Int.natCast_add, Int.natCast_mul, Int.toNat_of_nonneg h0, Int.toNat_of_nonneg h2]

theorem sweepUp_succ (nrow ncol f : Nat) (st : PState) (r c : Int) :
    sweepUp nrow ncol (f + 1) st r c =
      if r - 2 ≥ 0 ∧ c + 2 < ncol then
        sweepUp nrow ncol f (if r < nrow ∧ c ≥ 0 then tryUtah nrow ncol st r c else st) (r - 2) (c + 2)
      else ((if r < nrow ∧ c ≥ 0 then tryUtah nrow ncol st r c else st), r - 2, c + 2) := rfl

theorem sweepDown_succ (nrow ncol f : Nat) (st : PState) (r c : Int) :
    sweepDown nrow ncol (f + 1) st r c =
      if r + 2 < nrow ∧ c - 2 ≥ 0 then
        sweepDown nrow ncol f (if r ≥ 0 ∧ c < ncol then tryUtah nrow ncol st r c else st) (r + 2) (c - 2)
      else ((if r ≥ 0 ∧ c < ncol then tryUtah nrow ncol st r c else st), r + 2, c - 2) := rfl

/-- one round of the outer loop: the state and position after the two sweeps -/
def roundOf (nrow ncol : Nat) (st : PState) (row col : Int) : PState × Int × Int :=
  let up := sweepUp nrow ncol (nrow + ncol) (corners nrow ncol st row col) row col
  sweepDown nrow ncol (nrow + ncol) up.1 (up.2.1 + 1) (up.2.2 + 3)

theorem placeLoop_succ (nrow ncol f : Nat) (st : PState) (row col : Int) :
    placeLoop nrow ncol (f + 1) st row col =
      if (roundOf nrow ncol st row col).2.1 + 3 < nrow ∨ (roundOf nrow ncol st row col).2.2 + 1 < ncol then
        placeLoop nrow ncol f (roundOf nrow ncol st row col).1 ((roundOf nrow ncol st row col).2.1 + 3)
          ((roundOf nrow ncol st row col).2.2 + 1)
      else (roundOf nrow ncol st row col).1 := rfl

/-- what `tryUtah` does when the probed cell is inside the array -/
theorem occupied_inside {nrow ncol : Nat} {st : PState} {row col : Int} {o : Bool}
    (h : occupied nrow ncol st row col = (o, false)) :
    0 ≤ row * (ncol : Int) + col ∧ row * (ncol : Int) + col < (nrow : Int) * (ncol : Int) ∧
      o = st.occ.testBit (row * (ncol : Int) + col).toNat := by
  unfold occupied at h
  simp only [] at h
  split at h
  · rename_i hc
    injection h with h1 _
    exact ⟨hc.1, hc.2.1, h1.symm⟩
  · injection h with _ h2
    cases h2

theorem tryUtah_eq (nrow ncol : Nat) (st : PState) (row col : Int) :
    tryUtah nrow ncol st row col =
      (let st' := if (occupied nrow ncol st row col).2 then { st with bad := true } else st
       if (occupied nrow ncol st row col).1 then st' else moduleList nrow ncol st' (utahCells row col)) := by
  unfold tryUtah
  cases occupied nrow ncol st row col
  rfl

/-! ### a good final state has only good predecessors -/

/-- nothing went wrong so far and the codeword vector (`L` codewords) is long enough for the assignments made -/
def Good (L : Nat) (st : PState) : Prop := st.bad = false ∧ st.seq.length ≤ 8 * L

variable {L nrow ncol : Nat}

theorem good_module {st : PState} {row col : Int} (h : Good L (module nrow ncol st row col)) : Good L st := by
  rw [module_eq] at h
  cases hc : cellOf nrow ncol (wrapRC nrow ncol row col).1 (wrapRC nrow ncol row col).2 with
  | none => rw [hc] at h; exact absurd h.1 (by simp)
  | some c =>
    rw [hc] at h
    refine ⟨h.1, ?_⟩
    have := h.2
    simp only [List.length_cons] at this
    omega

theorem good_moduleList : ∀ (l : List (Int × Int)) (st : PState), Good L (moduleList nrow ncol st l) → Good L st
  | [], _, h => h
  | (_, _) :: rest, _, h => good_module (good_moduleList rest _ h)

theorem not_good_bad {st : PState} : ¬ Good L { st with bad := true } := fun h => by
  have := h.1; simp at this

theorem good_tryUtah {st : PState} {row col : Int} (h : Good L (tryUtah nrow ncol st row col)) :
    Good L st ∧ (occupied nrow ncol st row col).2 = false := by
  rw [tryUtah_eq] at h
  simp only [] at h
  by_cases hb : (occupied nrow ncol st row col).2 = true
  · simp only [hb, if_true] at h
    by_cases ho : (occupied nrow ncol st row col).1 = true
    · simp only [ho, if_true] at h; exact absurd h not_good_bad
    · simp only [ho, if_false] at h; exact absurd (good_moduleList _ _ h) not_good_bad
  · have hb' : (occupied nrow ncol st row col).2 = false := by simpa using hb
    simp only [hb', Bool.false_eq_true, if_false] at h
    refine ⟨?_, hb'⟩
    by_cases ho : (occupied nrow ncol st row col).1 = true
    · simp only [ho, if_true] at h; exact h
    · simp only [ho, if_false] at h; exact good_moduleList _ _ h

theorem good_ite_tryUtah {st : PState} {row col : Int} {p : Prop} [Decidable p]
    (h : Good L (if p then tryUtah nrow ncol st row col else st)) : Good L st := by
  by_cases hp : p
  · simp only [hp, if_true] at h; exact (good_tryUtah h).1
  · simp only [hp, if_false] at h; exact h

theorem good_sweepUp : ∀ (f : Nat) (st : PState) (r c : Int), Good L (sweepUp nrow ncol f st r c).1 → Good L st
  | 0, st, r, c, h => absurd h (by unfold sweepUp; exact not_good_bad)
  | f + 1, st, r, c, h => by
    rw [sweepUp_succ] at h
    by_cases hc : r - 2 ≥ 0 ∧ c + 2 < ncol
    · simp only [hc, and_self, if_true] at h
      exact good_ite_tryUtah (good_sweepUp f _ _ _ h)
    · simp only [hc, if_false] at h
      exact good_ite_tryUtah h

theorem good_sweepDown : ∀ (f : Nat) (st : PState) (r c : Int), Good L (sweepDown nrow ncol f st r c).1 → Good L st
  | 0, st, r, c, h => absurd h (by unfold sweepDown; exact not_good_bad)
  | f + 1, st, r, c, h => by
    rw [sweepDown_succ] at h
    by_cases hc : r + 2 < nrow ∧ c - 2 ≥ 0
    · simp only [hc, and_self, if_true] at h
      exact good_ite_tryUtah (good_sweepDown f _ _ _ h)
    · simp only [hc, if_false] at h
      exact good_ite_tryUtah h

theorem good_ite_moduleList {st : PState} {l : List (Int × Int)} {p : Prop} [Decidable p]
    (h : Good L (if p then moduleList nrow ncol st l else st)) : Good L st := by
  by_cases hp : p
  · simp only [hp, if_true] at h; exact good_moduleList _ _ h
  · simp only [hp, if_false] at h; exact h

/-- the four corner tests one after the other -/
def corner1Of (nrow ncol : Nat) (st : PState) (row col : Int) : PState :=
  if row = nrow ∧ col = 0 then moduleList nrow ncol st (corner1Cells nrow ncol) else st
def corner2Of (nrow ncol : Nat) (st : PState) (row col : Int) : PState :=
  if row = (nrow : Int) - 2 ∧ col = 0 ∧ ncol % 4 ≠ 0 then moduleList nrow ncol st (corner2Cells nrow ncol) else st
def corner3Of (nrow ncol : Nat) (st : PState) (row col : Int) : PState :=
  if row = (nrow : Int) - 2 ∧ col = 0 ∧ ncol % 8 = 4 then moduleList nrow ncol st (corner3Cells nrow ncol) else st
def corner4Of (nrow ncol : Nat) (st : PState) (row col : Int) : PState :=
  if row = (nrow : Int) + 4 ∧ col = 2 ∧ ncol % 8 = 0 then moduleList nrow ncol st (corner4Cells nrow ncol) else st

theorem corners_eq (nrow ncol : Nat) (st : PState) (row col : Int) :
    corners nrow ncol st row col =
      corner4Of nrow ncol (corner3Of nrow ncol (corner2Of nrow ncol (corner1Of nrow ncol st row col) row col) row col) row col := rfl

theorem good_roundOf {st : PState} {row col : Int} (h : Good L (roundOf nrow ncol st row col).1) :
    Good L (sweepUp nrow ncol (nrow + ncol) (corners nrow ncol st row col) row col).1 :=
  good_sweepDown _ _ _ _ h

theorem good_placeLoop : ∀ (f : Nat) (st : PState) (row col : Int), Good L (placeLoop nrow ncol f st row col) →
    Good L (roundOf nrow ncol st row col).1
  | 0, st, _, _, h => absurd h (by unfold placeLoop; exact not_good_bad)
  | f + 1, st, row, col, h => by
    rw [placeLoop_succ] at h
    by_cases hc : (roundOf nrow ncol st row col).2.1 + 3 < nrow ∨ (roundOf nrow ncol st row col).2.2 + 1 < ncol
    · simp only [hc, if_true] at h
      have h1 := good_placeLoop f _ _ _ h
      have h2 := good_roundOf h1
      have h3 := good_sweepUp _ _ _ _ h2
      rw [corners_eq] at h3
      -- the next round starts from a good state
      have g4 := good_ite_moduleList (p := _) h3
      have g3 := good_ite_moduleList (p := _) g4
      have g2 := good_ite_moduleList (p := _) g3
      exact good_ite_moduleList (p := _) g2
    · simp only [hc, if_false] at h
      exact h

/-! ### the picture the Go array holds -/

/-- what `module` stores for assignment number `k` (bit `k % 8`, most significant first, of codeword `k / 8`) -/
def bitVal (cw : List Nat) (k : Nat) : Int := if (cw.getD (k / 8) 0 &&& (1 <<< (7 - k % 8))) != 0 then 1 else 0

theorem bitVal_nonneg (cw : List Nat) (k : Nat) : 0 ≤ bitVal cw k := by
  unfold bitVal; split <;> decide

/-- the array after the assignments `cells` (numbered from `k`) -/
def paint (cw : List Nat) : List Nat → Nat → List Int → List Int
  | [], _, B => B
  | c :: cs, k, B => paint cw cs (k + 1) (B.set c (bitVal cw k))

theorem paint_snoc (cw : List Nat) : ∀ (cs : List Nat) (k : Nat) (B : List Int) (c : Nat),
    paint cw (cs ++ [c]) k B = (paint cw cs k B).set c (bitVal cw (k + cs.length))
  | [], k, B, c => by simp [paint]
  | x :: cs, k, B, c => by
    simp only [List.cons_append, paint, List.length_cons]
    rw [paint_snoc cw cs (k + 1) _ c]
    congr 2; omega

theorem paint_length (cw : List Nat) : ∀ (cs : List Nat) (k : Nat) (B : List Int), (paint cw cs k B).length = B.length
  | [], _, _ => rfl
  | c :: cs, k, B => by simp [paint, paint_length cw cs]

/-- the Go array `B` and the reference state `st` describe the same moment of the placement -/
structure Inv (nrow ncol : Nat) (cw : List Nat) (B : List Int) (st : PState) : Prop where
  len : B.length = nrow * ncol
  occ : ∀ c, c < nrow * ncol → st.occ.testBit c = decide (B.getD c (-1) ≥ 0)
  val : B = paint cw st.seq.reverse 0 (List.replicate (nrow * ncol) (-1))

theorem inv_init (nrow ncol : Nat) (cw : List Nat) : Inv nrow ncol cw (List.replicate (nrow * ncol) (-1)) {} := by
  refine ⟨by simp, ?_, rfl⟩
  intro c hc
  simp [List.getD_eq_getElem?_getD, hc]

/-- one assignment -/
theorem inv_assign {cw : List Nat} {B : List Int} {st : PState} (h : Inv nrow ncol cw B st) (c : Nat) (hc : c < nrow * ncol) :
    Inv nrow ncol cw (B.set c (bitVal cw st.seq.length))
      { st with occ := st.occ ||| (1 <<< c), seq := c :: st.seq, dup := st.dup || st.occ.testBit c } := by
  refine ⟨by simp [h.len], ?_, ?_⟩
  · intro x hx
    simp only [Nat.testBit_or, Nat.testBit_shiftLeft, Nat.testBit_one_eq_true_iff_self_eq_zero]
    rw [h.occ x hx]
    simp only [List.getD_eq_getElem?_getD, List.getElem?_set]
    by_cases hxc : c = x
    · subst hxc
      have hl : c < B.length := by rw [h.len]; exact hc
      have := bitVal_nonneg cw st.seq.length
      simp [hl, this]
    · simp only [hxc, if_false]
      have : (decide (x ≥ c) && Nat.testBit 1 (x - c)) = false := by
        rw [Bool.and_eq_false_iff]
        by_cases hge : x ≥ c
        · right
          cases ht : Nat.testBit 1 (x - c) with
          | false => rfl
          | true => have := Nat.testBit_one_eq_true_iff_self_eq_zero.mp ht; omega
        · left; simp [hge]
      simp [this]
  · show B.set c _ = paint cw (c :: st.seq).reverse 0 _
    rw [List.reverse_cons, paint_snoc, ← h.val]
    simp

/-! ### the picture read through `GetBit` is the reference mapping matrix -/

theorem allBits_length : ∀ cw : List Nat, (allBits cw).length = 8 * cw.length
  | [] => rfl
  | v :: vs => by simp [allBits, bitsOf, allBits_length vs]; omega

theorem and_two_pow' (v j : Nat) : v &&& 2 ^ j = if v.testBit j then 2 ^ j else 0 := by
  apply Nat.eq_of_testBit_eq; intro i
  rw [Nat.testBit_and, Nat.testBit_two_pow]
  by_cases hji : j = i
  · subst hji; cases h : v.testBit j <;> simp
  · cases h : v.testBit j <;> simp [hji]

theorem mask_ne_zero (v j : Nat) : ((v &&& (1 <<< j)) != 0) = (v / 2 ^ j % 2 == 1) := by
  rw [Nat.one_shiftLeft, and_two_pow']
  have h2 : 0 < 2 ^ j := Nat.pow_pos (by decide)
  have ht : v.testBit j = decide (v / 2 ^ j % 2 = 1) := Nat.testBit_eq_decide_div_mod_eq
  rw [ht]
  by_cases h : v / 2 ^ j % 2 = 1
  · simp [h]
  · simp [h]

theorem bitsOf_getElem? (v k : Nat) (hk : k < 8) : (bitsOf v)[k]? = some (v / 2 ^ (7 - k) % 2 == 1) := by
  have : k = 0 ∨ k = 1 ∨ k = 2 ∨ k = 3 ∨ k = 4 ∨ k = 5 ∨ k = 6 ∨ k = 7 := by omega
  rcases this with rfl | rfl | rfl | rfl | rfl | rfl | rfl | rfl <;> simp [bitsOf]

theorem allBits_getElem? : ∀ (cw : List Nat) (k : Nat), k < 8 * cw.length → (allBits cw)[k]? = some (bitVal cw k == 1)
  | [], k, h => by simp at h
  | v :: vs, k, h => by
    have hb : ∀ x : Int, ((if x = 0 then (0 : Int) else 1) == 1) = !(decide (x = 0)) := by
      intro x; by_cases hx : x = 0 <;> simp [hx]
    unfold allBits bitVal
    by_cases hk : k < 8
    · rw [List.getElem?_append_left (by simp [bitsOf]; exact hk), bitsOf_getElem? v k hk]
      have e1 : k / 8 = 0 := by omega
      have e2 : k % 8 = k := by omega
      rw [e1, e2]
      simp only [List.getD_cons_zero]
      rw [mask_ne_zero]
      cases (v / 2 ^ (7 - k) % 2 == 1) <;> simp
    · rw [List.getElem?_append_right (by simp [bitsOf]; omega)]
      have hlen : (bitsOf v).length = 8 := by simp [bitsOf]
      rw [hlen, allBits_getElem? vs (k - 8) (by simp at h; omega)]
      unfold bitVal
      have e1 : k / 8 = (k - 8) / 8 + 1 := by omega
      have e2 : k % 8 = (k - 8) % 8 := by omega
      rw [e1, e2, List.getD_cons_succ]

theorem paint_scatter (cw : List Nat) : ∀ (cells : List Nat) (k : Nat) (B : List Int) (g : Array Bool),
    B.length = g.size → k + cells.length ≤ 8 * cw.length → (∀ c, (B.getD c (-1) == 1) = g.getD c false) →
    ∀ c, ((paint cw cells k B).getD c (-1) == 1) = (scatter cells ((allBits cw).drop k) g).getD c false := by
  intro cells
  induction cells with
  | nil => intro k B g _ _ h c; simpa [paint, scatter] using h c
  | cons c0 cs ih =>
    intro k B g hlen hk h c
    simp only [List.length_cons] at hk
    have hkl : k < (allBits cw).length := by rw [allBits_length]; omega
    have hd : (allBits cw).drop k = (bitVal cw k == 1) :: (allBits cw).drop (k + 1) := by
      have hg := allBits_getElem? cw k (by omega)
      rw [List.getElem?_eq_getElem hkl] at hg
      injection hg with hg
      rw [← hg]
      exact (List.getElem_cons_drop hkl).symm
    rw [hd]
    simp only [paint, scatter]
    apply ih (k + 1) _ _ (by simp [hlen]) (by omega)
    intro x
    simp only [List.getD_eq_getElem?_getD, List.getElem?_set, Array.getD_eq_getD_getElem?, Array.getElem?_setIfInBounds]
    have hx := h x
    simp only [List.getD_eq_getElem?_getD, Array.getD_eq_getD_getElem?] at hx
    by_cases hc : c0 = x
    · subst hc
      by_cases hl : c0 < B.length
      · have hl' : c0 < g.size := by omega
        simp [hl, hl']
      · have hl' : ¬ c0 < g.size := by omega
        simp [hl, hl']
    · simp only [hc, if_false]
      exact hx

end Gzx.K08c
