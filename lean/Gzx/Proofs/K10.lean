/-
  Model-side lemmas for the regenerated check-digit kernels (Obligations/K10.lean).  Nothing here
  depends on `Gzx.Gen`: these are facts about the hand-written model (`Gzx.CheckDigit`) and about folds
  (`Gzx.GoM.foldC/foldC2`), proved once.
-/
import Gzx.Proofs.GoM
import Gzx.Proofs.CheckDigit
namespace Gzx.K10
open Gzx Gzx.GoM Gzx.CheckDigit

/-! ## alternating sums: elements 0, 2, 4, … of a list -/

def evens : List Nat → Nat
  | [] => 0
  | [v] => v
  | v :: _ :: rest => v + evens rest

theorem evens_cons (v : Nat) (r : List Nat) : evens (v :: r) = v + evens r.tail := by
  cases r <;> simp [evens]

/-- weights `a, b, a, b …` from the RIGHT end -/
def W (a b : Nat) : List Nat → Nat
  | [] => 0
  | d :: ds => (if ds.length % 2 = 0 then a else b) * d + W a b ds

theorem W_append (a b : Nat) (xs : List Nat) (v : Nat) : W a b (xs ++ [v]) = a * v + W b a xs := by
  induction xs with
  | nil => simp [W]
  | cons x xs ih =>
    simp only [List.cons_append, W, ih, List.length_append, List.length_cons, List.length_nil]
    by_cases h : xs.length % 2 = 0
    · have : ¬ (xs.length + (0 + 1)) % 2 = 0 := by omega
      simp only [h, this, if_true, if_false]; omega
    · have : (xs.length + (0 + 1)) % 2 = 0 := by omega
      simp only [h, this, if_true, if_false]; omega

theorem W_reverse (a b : Nat) (r : List Nat) : W a b r.reverse = a * evens r + b * evens r.tail := by
  induction r generalizing a b with
  | nil => simp [W, evens]
  | cons v r ih =>
    rw [List.reverse_cons, W_append, ih, evens_cons, List.tail_cons, Nat.mul_add]
    omega

theorem eanSumAux_eq_W (ds : List Nat) : eanSumAux ds = (W 3 1 ds, decide (ds.length % 2 = 0)) := by
  induction ds with
  | nil => simp [eanSumAux, W]
  | cons d ds ih =>
    simp only [eanSumAux, ih, W, List.length_cons]
    by_cases h : ds.length % 2 = 0
    · have : ¬ (ds.length + 1) % 2 = 0 := by omega
      simp [h, this]; omega
    · have : (ds.length + 1) % 2 = 0 := by omega
      simp [h, this]; omega

theorem eanSum_eq (ds : List Nat) : eanSum ds = 3 * evens ds.reverse + evens ds.reverse.tail := by
  have := W_reverse 3 1 ds.reverse
  rw [List.reverse_reverse] at this
  rw [eanSum, eanSumAux_eq_W]; simp only [this]; omega

theorem ext5SumAux_eq_W (ds : List Nat) : ext5SumAux ds = (W 3 9 ds, decide (ds.length % 2 = 0)) := by
  induction ds with
  | nil => simp [ext5SumAux, W]
  | cons d ds ih =>
    simp only [ext5SumAux, ih, W, List.length_cons]
    by_cases h : ds.length % 2 = 0
    · have : ¬ (ds.length + 1) % 2 = 0 := by omega
      simp [h, this]; omega
    · have : (ds.length + 1) % 2 = 0 := by omega
      simp [h, this]; omega

theorem ext5Checksum_eq (ds : List Nat) :
    ext5Checksum ds = (3 * evens ds.reverse + 9 * evens ds.reverse.tail) % 10 := by
  have := W_reverse 3 9 ds.reverse
  rw [List.reverse_reverse] at this
  rw [ext5Checksum, ext5SumAux_eq_W]; simp only [this]

/-! ## the digit test of the UPC/EAN loops on bytes -/

/-- every byte at position 0, 2, 4, … is an ASCII digit -/
def ok2 : List Nat → Bool
  | [] => true
  | [v] => isDigitByte v
  | v :: _ :: rest => isDigitByte v && ok2 rest

/-- Σ (byte - 48) over positions 0, 2, 4, … -/
def sumE : List Nat → Nat
  | [] => 0
  | [v] => v - 48
  | v :: _ :: rest => (v - 48) + sumE rest

theorem ok2_cons (v : Nat) (r : List Nat) : ok2 (v :: r) = (isDigitByte v && ok2 r.tail) := by
  cases r <;> simp [ok2]

theorem all_eq_ok2 (r : List Nat) : r.all isDigitByte = (ok2 r && ok2 r.tail) := by
  induction r with
  | nil => simp [ok2]
  | cons v r ih =>
    rw [List.all_cons, ih, ok2_cons, List.tail_cons]
    cases isDigitByte v <;> cases ok2 r <;> cases ok2 r.tail <;> rfl

theorem sumE_digitBytes (q : List Nat) : sumE (digitBytes q) = evens q := by
  unfold digitBytes
  induction q using evens.induct with
  | case1 => simp [sumE, evens]
  | case2 v => simp [sumE, evens]
  | case3 v w rest ih => simp only [List.map_cons, sumE, evens, ih]; omega

theorem digitBytes_reverse (q : List Nat) : (digitBytes q).reverse = digitBytes q.reverse := by
  simp [digitBytes, List.map_reverse]

theorem digitBytes_tail (q : List Nat) : (digitBytes q).tail = digitBytes q.tail := by
  cases q <;> simp [digitBytes]

/-- the step of both loops of `getStandardUPCEANChecksum`: `digit := s[i]-'0'` (byte arithmetic);
    a non-digit returns `(0, FormatException)`, a digit is added -/
def gDigit (v : Int) (st : Int) : Ctl Int (Int × Bool) :=
  if 48 ≤ v ∧ v ≤ 57 then .next (st + (v - 48)) else .ret (0, true)

theorem foldC2_gDigit (r : List Nat) (st : Int) :
    foldC2 gDigit (bytes r) st = if ok2 r then .next (st + (sumE r : Nat)) else .ret (0, true) := by
  induction r using ok2.induct generalizing st with
  | case1 => simp [bytes, foldC2, ok2, sumE]
  | case2 v =>
    simp only [bytes, List.map_cons, List.map_nil, foldC2, ok2, sumE, gDigit, isDigitByte, Int.ofNat_eq_natCast]
    by_cases h : 48 ≤ v ∧ v ≤ 57
    · have h' : (48 : Int) ≤ v ∧ (v : Int) ≤ 57 := by omega
      simp only [h', and_self, if_true, h, decide_true, Bool.and_self]
      congr 2; omega
    · have h' : ¬ ((48 : Int) ≤ v ∧ (v : Int) ≤ 57) := by omega
      simp only [h', if_false]
      have : (decide (48 ≤ v) && decide (v ≤ 57)) = false := by simp; omega
      simp [this]
  | case3 v w rest ih =>
    simp only [bytes, List.map_cons, foldC2, ok2, sumE, gDigit, isDigitByte, Int.ofNat_eq_natCast] at ih ⊢
    by_cases h : 48 ≤ v ∧ v ≤ 57
    · have h' : (48 : Int) ≤ v ∧ (v : Int) ≤ 57 := by omega
      have hd : (decide (48 ≤ v) && decide (v ≤ 57)) = true := by simp; omega
      simp only [h', and_self, if_true, hd, Bool.true_and]
      rw [ih]
      split
      · congr 1; omega
      · rfl
    · have h' : ¬ ((48 : Int) ≤ v ∧ (v : Int) ≤ 57) := by omega
      have hd : (decide (48 ≤ v) && decide (v ≤ 57)) = false := by simp; omega
      simp [h', hd]

/-- the steps of the two loops of `extensionChecksum` agree on digits: plain addition of `s[i]-'0'` -/
def gPlain (v : Int) (st : Int) : Ctl Int Int := .next (st + (v - 48))

theorem foldC2_gPlain_digits (q : List Nat) (st : Int) :
    foldC2 gPlain (bytes (digitBytes q)) st = .next (st + (evens q : Nat)) := by
  induction q using evens.induct generalizing st with
  | case1 => simp [bytes, digitBytes, foldC2, evens]
  | case2 v => simp [bytes, digitBytes, foldC2, evens, gPlain]
  | case3 v w rest ih =>
    simp only [bytes, digitBytes, List.map_cons, foldC2, evens, gPlain, Int.ofNat_eq_natCast] at ih ⊢
    rw [ih]; congr 1; omega

/-! ## Code 93: weights cycling 1..max from the right -/

/-- the step of the Code 93 loops on an alphabet INDEX `c`: state = (weight, total) -/
def g93 {ρ : Type} (maxW : Int) (c : Int) (st : Int × Int) : Ctl (Int × Int) ρ :=
  .next (if st.1 + 1 > maxW then 1 else st.1 + 1, st.2 + st.1 * c)

theorem foldC_g93 {ρ : Type} (F : Int → Int) (c : Nat → Nat) (r : List Nat)
    (hF : ∀ b ∈ r, F (b : Int) = (c b : Int)) (maxW : Nat) :
    ∀ (w : Nat) (tot : Int), ∃ w' : Nat,
      foldC (ρ := ρ) (fun v st => g93 (maxW : Int) (F v) st) (bytes r) ((w : Int), tot) =
        .next ((w' : Int), tot + (c93SumRev maxW w (r.map c) : Nat)) := by
  induction r with
  | nil => intro w tot; exact ⟨w, by simp [bytes, foldC, c93SumRev]⟩
  | cons b r ih =>
    intro w tot
    have hb := hF b (by simp)
    obtain ⟨w', hw'⟩ := ih (fun x hx => hF x (by simp [hx])) (c93Next maxW w) (tot + (w : Int) * (c b : Int))
    refine ⟨w', ?_⟩
    have hnext : (if (w : Int) + 1 > (maxW : Int) then (1 : Int) else (w : Int) + 1) = ((c93Next maxW w : Nat) : Int) := by
      unfold c93Next
      split <;> split <;> omega
    simp only [bytes, List.map_cons, foldC, g93, Int.ofNat_eq_natCast, hb, hnext] at hw' ⊢
    rw [hw']
    simp only [c93SumRev, Int.natCast_add, Int.natCast_mul]
    congr 2
    rw [Int.mul_comm (c b : Int) (w : Int)]; omega

/-! ## table scans `for d := 0; d < n; d++ { if lg == T[d] { return d, nil } }` -/

theorem loop_scan (T : List Nat) (lg : Nat) (body : Int → Unit → Ctl Unit (Int × Bool))
    (hb : ∀ (i : Nat) (h : i < T.length), body (i : Int) () = if T[i] = lg then .ret ((i : Int), false) else .next ()) :
    ∀ (n a : Nat), a + n ≤ T.length →
      loop body 1 n (a : Int) () =
        match indexOf? lg ((T.drop a).take n) with
        | some d => .ret (((a + d : Nat) : Int), false)
        | none => .next () := by
  intro n
  induction n with
  | zero => intro a _; simp [loop, indexOf?]
  | succ n ih =>
    intro a ha
    have hlt : a < T.length := by omega
    have e : (T.drop a).take (n + 1) = T[a] :: (T.drop (a + 1)).take n := by
      rw [List.drop_eq_getElem_cons hlt, List.take_succ_cons]
    rw [e, loop_succ, hb a hlt]
    simp only [indexOf?]
    by_cases c : T[a] = lg
    · simp [c]
    · simp only [c, if_false]
      have e2 : (a : Int) + 1 = ((a + 1 : Nat) : Int) := by omega
      rw [e2, ih (a + 1) (by omega)]
      cases indexOf? lg ((T.drop (a + 1)).take n) with
      | none => rfl
      | some d => simp only [Option.map_some]; congr 3; omega

end Gzx.K10
