/-
  Lemmas for `Obligations/K17.lean` (work package k17k20): the loops of the regenerated binariser kernels against
  the hand-written `Model/Binarizer.lean` — pure list facts, nothing here mentions a generated definition.
-/
import Gzx.Proofs.K20
import Gzx.Model.Binarizer
namespace Gzx.K17
open Gzx Gzx.GoM Gzx.Binarizer

/-- position `i` of the indexed bucket list -/
theorem indexed_getElem (bs : List Nat) (i : Nat) (h : i < (indexed bs).length) :
    (indexed bs)[i] = (i, bs[i]'(by simpa [indexed] using h)) := by
  simp [indexed]

theorem indexed_length (bs : List Nat) : (indexed bs).length = bs.length := by simp [indexed]

/-- `indexed (pre ++ suf)` from position `|pre|` on -/
theorem indexed_drop (pre suf : List Nat) :
    (indexed (pre ++ suf)).drop pre.length = (List.range' pre.length suf.length).zip suf := by
  apply List.ext_getElem
  · simp [indexed]
  · intro i h1 h2
    simp [indexed, List.getElem_append_right]

/-- `(x - p)²` in `int` arithmetic is the model's squared distance -/
theorem sq_cast (x p : Nat) : ((x : Int) - p) * ((x : Int) - p) = ((sqDist x p : Nat) : Int) := by
  unfold sqDist
  by_cases h : x ≥ p
  · simp only [h, if_true]
    rw [Int.natCast_mul, Int.natCast_sub h]
  · simp only [h, if_false]
    rw [Int.natCast_mul, Int.natCast_sub (by omega : x ≤ p)]
    have e : ((x : Int) - p) = -((p : Int) - x) := by omega
    rw [e, Int.neg_mul_neg]

/-- the peak found by `argmaxStrict` is the start value or an index of the list -/
theorem argmaxStrict_fst (l : List (Nat × Int)) (n : Nat) (hl : ∀ p ∈ l, p.1 < n) :
    ∀ best : Nat × Int, (argmaxStrict best l).1 = best.1 ∨ (argmaxStrict best l).1 < n := by
  induction l with
  | nil => intro best; left; rfl
  | cons p rest ih =>
    intro best
    obtain ⟨x, s⟩ := p
    unfold argmaxStrict
    have hr : ∀ p ∈ rest, p.1 < n := fun q hq => hl q (List.mem_cons_of_mem _ hq)
    split
    · rcases ih hr (x, s) with h | h
      · right; rw [h]; exact hl (x, s) (List.mem_cons_self)
      · right; exact h
    · exact ih hr best

theorem mem_indexed_lt (bs : List Nat) (p : Nat × Nat) (h : p ∈ indexed bs) : p.1 < bs.length := by
  obtain ⟨i, hi, rfl⟩ := List.mem_iff_getElem.mp h
  rw [indexed_getElem]; simpa [indexed] using hi

/-- the valley candidates: the indexed buckets strictly between the peaks, last first -/
theorem cands_eq (bs : List Nat) (fp sp : Nat) (hsp : sp ≤ bs.length) (hfs : fp < sp) :
    ((indexed bs).filter (fun (x, _) => decide (fp < x ∧ x < sp))).reverse =
      (((indexed bs).drop (fp + 1)).take (sp - fp - 1)).reverse := by
  congr 1
  have hsplit : indexed bs = (indexed bs).take (fp + 1) ++ (((indexed bs).drop (fp + 1)).take (sp - fp - 1) ++
      ((indexed bs).drop (fp + 1)).drop (sp - fp - 1)) := by
    rw [List.take_append_drop, List.take_append_drop]
  have hlen := indexed_length bs
  conv => lhs; rw [hsplit]
  rw [List.filter_append, List.filter_append]
  have h1 : ((indexed bs).take (fp + 1)).filter (fun (x, _) => decide (fp < x ∧ x < sp)) = [] := by
    rw [List.filter_eq_nil_iff]
    intro p hp
    obtain ⟨i, hi, rfl⟩ := List.mem_iff_getElem.mp hp
    simp only [List.length_take] at hi
    rw [List.getElem_take, indexed_getElem]
    simp; omega
  have h3 : (((indexed bs).drop (fp + 1)).drop (sp - fp - 1)).filter (fun (x, _) => decide (fp < x ∧ x < sp)) = [] := by
    rw [List.filter_eq_nil_iff]
    intro p hp
    obtain ⟨i, hi, rfl⟩ := List.mem_iff_getElem.mp hp
    rw [List.getElem_drop, List.getElem_drop, indexed_getElem]
    simp; omega
  have h2 : (((indexed bs).drop (fp + 1)).take (sp - fp - 1)).filter (fun (x, _) => decide (fp < x ∧ x < sp)) =
      ((indexed bs).drop (fp + 1)).take (sp - fp - 1) := by
    rw [List.filter_eq_self]
    intro p hp
    obtain ⟨i, hi, rfl⟩ := List.mem_iff_getElem.mp hp
    simp only [List.length_take, List.length_drop] at hi
    rw [List.getElem_take, List.getElem_drop, indexed_getElem]
    simp; omega
  rw [h1, h2, h3]; simp

end Gzx.K17
