/-
  Lemmas for `Obligations/K17.lean` (work package k17k20): the loops of the regenerated binariser kernels against
  the hand-written `Model/Binarizer.lean` — pure list facts, nothing here mentions a generated definition.
-/
import Gzx.Proofs.K20
import Gzx.Model.Binarizer
namespace Gzx.K17
open Gzx Gzx.GoM Gzx.Binarizer

/-- position `i` of the indexed bucket list -/
theorem indexed_getElem (bs : List Nat) (i : Nat) (h : i < (indexed bs).length) :
    (indexed bs)[i] = (i, bs[i]'(by simpa [indexed] using h)) := by
  simp [indexed]

theorem indexed_length (bs : List Nat) : (indexed bs).length = bs.length := by simp [indexed]

/-- `indexed (pre ++ suf)` from position `|pre|` on -/
theorem indexed_drop (pre suf : List Nat) :
    (indexed (pre ++ suf)).drop pre.length = (List.range' pre.length suf.length).zip suf := by
  apply List.ext_getElem
  · simp [indexed]
  · intro i h1 h2
    simp [indexed, List.getElem_append_right]

/-- `(x - p)²` in `int` arithmetic is the model's squared distance -/
theorem sq_cast (x p : Nat) : ((x : Int) - p) * ((x : Int) - p) = ((sqDist x p : Nat) : Int) := by
  unfold sqDist
  by_cases h : x ≥ p
  · simp only [h, if_true]
    rw [Int.natCast_mul, Int.natCast_sub h]
  · simp only [h, if_false]
    rw [Int.natCast_mul, Int.natCast_sub (by omega : x ≤ p)]
    have e : ((x : Int) - p) = -((p : Int) - x) := by omega
    rw [e, Int.neg_mul_neg]

/-- the peak found by `argmaxStrict` is the start value or an index of the list -/
theorem argmaxStrict_fst (l : List (Nat × Int)) (n : Nat) (hl : ∀ p ∈ l, p.1 < n) :
    ∀ best : Nat × Int, (argmaxStrict best l).1 = best.1 ∨ (argmaxStrict best l).1 < n := by
  induction l with
  | nil => intro best; left; rfl
  | cons p rest ih =>
    intro best
    obtain ⟨x, s⟩ := p
    unfold argmaxStrict
    have hr : ∀ p ∈ rest, p.1 < n := fun q hq => hl q (List.mem_cons_of_mem _ hq)
    split
    · rcases ih hr (x, s) with h | h
      · right; rw [h]; exact hl (x, s) (List.mem_cons_self)
      · right; exact h
    · exact ih hr best

theorem mem_indexed_lt (bs : List Nat) (p : Nat × Nat) (h : p ∈ indexed bs) : p.1 < bs.length := by
  obtain ⟨i, hi, rfl⟩ := List.mem_iff_getElem.mp h
  rw [indexed_getElem]; simpa [indexed] using hi

/-- the valley candidates: the indexed buckets strictly between the peaks, last first -/
theorem cands_eq (bs : List Nat) (fp sp : Nat) (hsp : sp ≤ bs.length) (hfs : fp < sp) :
    ((indexed bs).filter (fun (x, _) => decide (fp < x ∧ x < sp))).reverse =
      (((indexed bs).drop (fp + 1)).take (sp - fp - 1)).reverse := by
  congr 1
  have hsplit : indexed bs = (indexed bs).take (fp + 1) ++ (((indexed bs).drop (fp + 1)).take (sp - fp - 1) ++
      ((indexed bs).drop (fp + 1)).drop (sp - fp - 1)) := by
    rw [List.take_append_drop, List.take_append_drop]
  have hlen := indexed_length bs
  conv => lhs; rw [hsplit]
  rw [List.filter_append, List.filter_append]
  have h1 : ((indexed bs).take (fp + 1)).filter (fun (x, _) => decide (fp < x ∧ x < sp)) = [] := by
    rw [List.filter_eq_nil_iff]
    intro p hp
    obtain ⟨i, hi, rfl⟩ := List.mem_iff_getElem.mp hp
    simp only [List.length_take] at hi
    rw [List.getElem_take, indexed_getElem]
    simp; omega
  have h3 : (((indexed bs).drop (fp + 1)).drop (sp - fp - 1)).filter (fun (x, _) => decide (fp < x ∧ x < sp)) = [] := by
    rw [List.filter_eq_nil_iff]
    intro p hp
    obtain ⟨i, hi, rfl⟩ := List.mem_iff_getElem.mp hp
    rw [List.getElem_drop, List.getElem_drop, indexed_getElem]
    simp; omega
  have h2 : (((indexed bs).drop (fp + 1)).take (sp - fp - 1)).filter (fun (x, _) => decide (fp < x ∧ x < sp)) =
      ((indexed bs).drop (fp + 1)).take (sp - fp - 1) := by
    rw [List.filter_eq_self]
    intro p hp
    obtain ⟨i, hi, rfl⟩ := List.mem_iff_getElem.mp hp
    simp only [List.length_take, List.length_drop] at hi
    rw [List.getElem_take, List.getElem_drop, indexed_getElem]
    simp; omega
  rw [h1, h2, h3]; simp

/-! ### loops that fill / rewrite a byte slice element by element -/

/-- a fold over `0 … n-1` that is fine up to `k` and fails at `k < n` fails -/
theorem foldlM_range_error {τ : Type} (f : τ → Nat → Res τ) (t0 t : τ) (k n : Nat) (e : Fault) (hk : k < n)
    (h1 : (List.range' 0 k).foldlM f t0 = .ok t) (h2 : f t k = .error e) :
    (List.range' 0 n).foldlM f t0 = .error e := by
  have hs : List.range' 0 n = List.range' 0 k ++ List.range' k (n - k) := by
    have := List.range'_append_1 (s := 0) (m := k) (n := n - k)
    rw [Nat.zero_add, show k + (n - k) = n by omega] at this
    exact this.symm
  obtain ⟨m, hm⟩ : ∃ m, n - k = m + 1 := ⟨n - k - 1, by omega⟩
  rw [hs, List.foldlM_append, h1, hm, List.range'_succ]
  simp only [bind, Except.bind, List.foldlM, h2]

/-- one step of `dst[i] = g(src[i])` -/
def fillStep (src : List Int) (g : Int → Int) (t : List Int) (i : Nat) : Res (List Int) :=
  match idx src (i : Int) with
  | .error e => .error e
  | .ok v => setIdx t (i : Int) (g v)

theorem foldlM_fill_prefix (src : List Int) (g : Int → Int) (dst : List Int) :
    ∀ k, k ≤ dst.length → k ≤ src.length →
      (List.range' 0 k).foldlM (fillStep src g) dst = .ok ((src.take k).map g ++ dst.drop k) := by
  intro k
  induction k with
  | zero => intro _ _; simp [pure, Except.pure]
  | succ k ih =>
    intro h1 h2
    rw [List.range'_1_concat, List.foldlM_append, ih (by omega) (by omega)]
    simp only [bind, Except.bind, List.foldlM, Nat.zero_add, pure, Except.pure, fillStep]
    rw [idx_ofNat _ _ (by omega)]
    simp only []
    rw [setIdx_ofNat _ _ _ (by simp; omega)]
    simp only []
    congr 1
    apply List.ext_getElem
    · simp; omega
    · intro i hi1 hi2
      simp only [List.getElem_set, List.getElem_append, List.length_map, List.length_take, List.getElem_map,
        List.getElem_take, List.getElem_drop]
      by_cases hi : i < k
      · have : ¬ k = i := by omega
        simp [this, hi, Nat.min_eq_left (by omega : k ≤ src.length), Nat.min_eq_left (by omega : k + 1 ≤ src.length)]
        omega
      · by_cases hn : k = i
        · subst hn
          simp [Nat.min_eq_left (by omega : k ≤ src.length), Nat.min_eq_left (by omega : k + 1 ≤ src.length)]
        · have h3 : ¬ i < k + 1 := by omega
          simp [hn, hi, h3, Nat.min_eq_left (by omega : k ≤ src.length), Nat.min_eq_left (by omega : k + 1 ≤ src.length)]
          congr 1; omega

/-- `for i := 0; i < n; i++ { dst[i] = g(src[i]) }` on a destination of at least `n` elements: the first `n` elements of
    `src` through `g`, or the index panic of a too short `src` -/
theorem foldlM_fill (src : List Int) (g : Int → Int) (dst : List Int) (n : Nat) (hd : n ≤ dst.length) :
    (List.range' 0 n).foldlM (fillStep src g) dst =
      if src.length < n then .error oob else .ok ((src.take n).map g ++ dst.drop n) := by
  by_cases h : src.length < n
  · simp only [h, if_true]
    refine foldlM_range_error _ dst _ src.length n oob h (foldlM_fill_prefix src g dst src.length (by omega) (Nat.le_refl _)) ?_
    simp [fillStep, idx_ge]
  · simp only [h, if_false]
    exact foldlM_fill_prefix src g dst n hd (by omega)

/-- one step of `xs[i] = g(xs[i])` -/
def mapStep (g : Int → Int) (t : List Int) (i : Nat) : Res (List Int) :=
  match idx t (i : Int) with
  | .error e => .error e
  | .ok v => setIdx t (i : Int) (g v)

theorem foldlM_mapInPlace_prefix (g : Int → Int) (xs : List Int) :
    ∀ k, k ≤ xs.length →
      (List.range' 0 k).foldlM (mapStep g) xs = .ok ((xs.take k).map g ++ xs.drop k) := by
  intro k
  induction k with
  | zero => intro _; simp [pure, Except.pure]
  | succ k ih =>
    intro h1
    rw [List.range'_1_concat, List.foldlM_append, ih (by omega)]
    simp only [bind, Except.bind, List.foldlM, Nat.zero_add, pure, Except.pure, mapStep]
    rw [idx_ofNat _ _ (by simp; omega)]
    simp only []
    rw [setIdx_ofNat _ _ _ (by simp; omega)]
    simp only []
    congr 1
    apply List.ext_getElem
    · simp; omega
    · intro i hi1 hi2
      simp only [List.getElem_set, List.getElem_append, List.length_map, List.length_take, List.getElem_map,
        List.getElem_take, List.getElem_drop]
      by_cases hi : i < k
      · have : ¬ k = i := by omega
        simp [this, hi, Nat.min_eq_left (by omega : k ≤ xs.length), Nat.min_eq_left (by omega : k + 1 ≤ xs.length)]
        omega
      · by_cases hn : k = i
        · subst hn
          simp [Nat.min_eq_left (by omega : k ≤ xs.length), Nat.min_eq_left (by omega : k + 1 ≤ xs.length)]
        · have h3 : ¬ i < k + 1 := by omega
          simp [hn, hi, h3, Nat.min_eq_left (by omega : k ≤ xs.length), Nat.min_eq_left (by omega : k + 1 ≤ xs.length)]
          congr 1; omega

/-- `for i := 0; i < n; i++ { xs[i] = g(xs[i]) }` -/
theorem foldlM_mapInPlace (g : Int → Int) (xs : List Int) (n : Nat) :
    (List.range' 0 n).foldlM (mapStep g) xs =
      if xs.length < n then .error oob else .ok ((xs.take n).map g ++ xs.drop n) := by
  by_cases h : xs.length < n
  · simp only [h, if_true]
    refine foldlM_range_error _ xs _ xs.length n oob h (foldlM_mapInPlace_prefix g xs xs.length (Nat.le_refl _)) ?_
    simp [mapStep, idx_ge]
  · simp only [h, if_false]
    exact foldlM_mapInPlace_prefix g xs n (by omega)

/-! ### rectangle scans (`thresholdBlock`, the global `GetBlackMatrix` loop): read, test, `Set` — pixel by pixel -/

open Gzx.Bits in
/-- `BitMatrix.Set(x, y)` on the word slice of a matrix with row size `rs` (`WMat.set` without the record around it) -/
def setW (rs : Nat) (ws : List Nat) (x y : Nat) : Res (List Nat) :=
  updWord ws (y * rs + x / 32) (fun w => w ||| 1 <<< (x % 32))

/-- one pixel as the Go loops run it: checked read of `luminances[(y0+yy)*w + x0 + xx]`, test, `Set(x0+xx, y0+yy)` -/
def cellW (lum : List Nat) (w x0 y0 : Nat) (test : Nat → Bool) (rs yy : Nat) (ws : List Nat) (xx : Nat) : Res (List Nat) :=
  match lum[(y0 + yy) * w + x0 + xx]? with
  | none => .error oob
  | some p => if test (p % 256) then setW rs ws (x0 + xx) (y0 + yy) else .ok ws

def rowW (lum : List Nat) (w x0 y0 nx : Nat) (test : Nat → Bool) (rs : Nat) (ws : List Nat) (yy : Nat) : Res (List Nat) :=
  (List.range' 0 nx).foldlM (cellW lum w x0 y0 test rs yy) ws

def rectW (lum : List Nat) (w x0 y0 nx ny : Nat) (test : Nat → Bool) (rs : Nat) (ws : List Nat) : Res (List Nat) :=
  (List.range' 0 ny).foldlM (rowW lum w x0 y0 nx test rs) ws

/-- the `Set` calls of the model, applied in order -/
def applySets (rs : Nat) (ws : List Nat) (l : List (Nat × Nat)) : Res (List Nat) :=
  l.foldlM (fun ws p => setW rs ws p.1 p.2) ws

/-- the mirror and the model's list of `Set` calls say the same -/
def ScanAgrees (rs : Nat) (ws : List Nat) (mirror : Res (List Nat)) : Res (List (Nat × Nat)) → Prop
  | .ok l => mirror = applySets rs ws l
  | .error _ => ∃ e, mirror = .error e

theorem applySets_append (rs : Nat) (ws : List Nat) (l1 l2 : List (Nat × Nat)) :
    applySets rs ws (l1 ++ l2) = (applySets rs ws l1).bind (fun ws' => applySets rs ws' l2) := by
  simp [applySets, List.foldlM_append, bind]

theorem cells_agree (lum : List Nat) (w x0 y0 : Nat) (test : Nat → Bool) (rs yy : Nat) :
    ∀ (xs : List Nat) (ws : List Nat),
      match mapME (scanCell lum.toArray w x0 y0 test yy) xs with
      | .ok cells => xs.foldlM (cellW lum w x0 y0 test rs yy) ws = applySets rs ws (cells.filterMap keepSet)
      | .error _ => ∃ e, xs.foldlM (cellW lum w x0 y0 test rs yy) ws = .error e := by
  intro xs
  induction xs with
  | nil => intro ws; simp [mapME, applySets, pure, Except.pure]
  | cons x xs ih =>
    intro ws
    simp only [mapME, scanCell, rd, List.getElem?_toArray, List.foldlM, cellW]
    cases hl : lum[(y0 + yy) * w + x0 + x]? with
    | none => simp [bind, Except.bind]
    | some p =>
      simp only [bind, Except.bind]
      by_cases ht : test (p % 256) = true
      · simp only [ht, if_true]
        cases hs : setW rs ws (x0 + x) (y0 + yy) with
        | error e =>
          cases mapME (scanCell lum.toArray w x0 y0 test yy) xs with
          | error e' => exact ⟨e, rfl⟩
          | ok cells => simp [keepSet, applySets, hs, bind, Except.bind]
        | ok ws' =>
          have := ih ws'
          cases hm : mapME (scanCell lum.toArray w x0 y0 test yy) xs with
          | error e' => rw [hm] at this; exact this
          | ok cells =>
            rw [hm] at this
            simp only [] at this ⊢
            rw [this]
            simp [keepSet, applySets, hs, bind, Except.bind]
      · have ht' : test (p % 256) = false := by simpa using ht
        simp only [ht', Bool.false_eq_true, if_false]
        have := ih ws
        cases hm : mapME (scanCell lum.toArray w x0 y0 test yy) xs with
        | error e' => rw [hm] at this; exact this
        | ok cells =>
          rw [hm] at this
          simp only [] at this ⊢
          rw [this]
          simp [keepSet]

/-- **rectangle scan**: the pixel-by-pixel mirror of the Go loops and `Binarizer.scanRect` agree — the same `Set` calls in the
    same order when every read succeeds, a panic otherwise -/
theorem rectW_agrees (lum : List Nat) (w x0 y0 nx ny : Nat) (test : Nat → Bool) (rs : Nat) (ws : List Nat) :
    ScanAgrees rs ws (rectW lum w x0 y0 nx ny test rs ws) (scanRect lum.toArray w x0 y0 nx ny test) := by
  unfold rectW scanRect
  rw [List.range_eq_range']
  have key : ∀ (ys : List Nat) (ws : List Nat),
      match mapME (scanCells lum.toArray w x0 y0 nx test) ys with
      | .ok rows => ys.foldlM (rowW lum w x0 y0 nx test rs) ws = applySets rs ws (rows.flatten.filterMap keepSet)
      | .error _ => ∃ e, ys.foldlM (rowW lum w x0 y0 nx test rs) ws = .error e := by
    intro ys
    induction ys with
    | nil => intro ws; simp [mapME, applySets, pure, Except.pure]
    | cons y ys ih =>
      intro ws
      simp only [mapME, List.foldlM, scanCells, rowW]
      rw [List.range_eq_range']
      have hc := cells_agree lum w x0 y0 test rs y (List.range' 0 nx) ws
      cases hcm : mapME (scanCell lum.toArray w x0 y0 test y) (List.range' 0 nx) with
      | error e =>
        rw [hcm] at hc
        obtain ⟨e', he'⟩ := hc
        simp only []
        exact ⟨e', by rw [he']; rfl⟩
      | ok cells =>
        rw [hcm] at hc
        simp only [] at hc ⊢
        rw [hc]
        cases hr : applySets rs ws (List.filterMap keepSet cells) with
        | error e =>
          simp only [bind, Except.bind]
          cases mapME (scanCells lum.toArray w x0 y0 nx test) ys with
          | error e' => exact ⟨e, rfl⟩
          | ok rows =>
            simp only [List.flatten_cons, List.filterMap_append, applySets_append, hr]
            rfl
        | ok ws' =>
          simp only [bind, Except.bind]
          have := ih ws'
          cases hm : mapME (scanCells lum.toArray w x0 y0 nx test) ys with
          | error e' => rw [hm] at this; exact this
          | ok rows =>
            rw [hm] at this
            simp only [] at this ⊢
            rw [this]
            simp only [List.flatten_cons, List.filterMap_append, applySets_append, hr]
            rfl
  have := key (List.range' 0 ny) ws
  cases hm : mapME (scanCells lum.toArray w x0 y0 nx test) (List.range' 0 ny) with
  | error e => rw [hm] at this; exact this
  | ok rows => rw [hm] at this; exact this

/-! ### the bucket-filling loop -/

theorem histogram_length (ps : List Nat) : (histogram ps).length = 32 := by simp [histogram, LUMINANCE_BUCKETS]

theorem bucketOf_lt (p : Nat) : bucketOf p < 32 := by
  unfold bucketOf
  have := Nat.mod_lt p (by decide : 256 > 0)
  omega

theorem histogram_getElem (ps : List Nat) (i : Nat) (h : i < (histogram ps).length) :
    (histogram ps)[i] = ps.countP (fun p => bucketOf p == i) := by
  simp [histogram]

/-- one more sampled pixel: its bucket is incremented -/
theorem histogram_snoc (ps : List Nat) (p : Nat) :
    histogram (ps ++ [p]) = (histogram ps).set (bucketOf p) ((histogram ps)[bucketOf p]'(by rw [histogram_length]; exact bucketOf_lt p) + 1) := by
  apply List.ext_getElem
  · simp [histogram_length]
  · intro i h1 h2
    rw [histogram_getElem, List.getElem_set, List.countP_append]
    by_cases hb : bucketOf p = i
    · subst hb
      simp [histogram_getElem, List.countP_cons]
    · have : (bucketOf p == i) = false := by simpa using hb
      simp [hb, histogram_getElem, List.countP_cons, this]

open Gzx.Bits in
/-- one iteration of `localBuckets[(localLuminances[x]&0xff)>>3]++` -/
def histStep (lum : List Nat) (acc : List Nat) (x : Nat) : Res (List Nat) :=
  match lum[x]? with
  | none => .error oob
  | some p => updWord acc (bucketOf p) (· + 1)

theorem foldlM_hist_prefix (lum : List Nat) :
    ∀ k, k ≤ lum.length → (List.range' 0 k).foldlM (histStep lum) (histogram []) = .ok (histogram (lum.take k)) := by
  intro k
  induction k with
  | zero => intro _; simp [pure, Except.pure]
  | succ k ih =>
    intro h
    rw [List.range'_1_concat, List.foldlM_append, ih (by omega)]
    simp only [bind, Except.bind, List.foldlM, Nat.zero_add, pure, Except.pure, histStep]
    rw [List.getElem?_eq_getElem (by omega)]
    simp only [Bits.updWord]
    rw [List.getElem?_eq_getElem (by rw [histogram_length]; exact bucketOf_lt _)]
    simp only []
    rw [List.take_succ_eq_append_getElem (by omega), histogram_snoc]

theorem foldlM_hist (lum : List Nat) (n : Nat) :
    (List.range' 0 n).foldlM (histStep lum) (histogram []) =
      if lum.length < n then .error oob else .ok (histogram (lum.take n)) := by
  by_cases h : lum.length < n
  · simp only [h, if_true]
    refine foldlM_range_error _ _ _ lum.length n oob h (foldlM_hist_prefix lum lum.length (Nat.le_refl _)) ?_
    simp [histStep]
  · simp only [h, if_false]
    exact foldlM_hist_prefix lum n (by omega)

end Gzx.K17
