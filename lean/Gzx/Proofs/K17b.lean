/-
  Lemmas for `Obligations/K17b.lean` (work package kfinish): word-level mirrors of the K17 kernels that `k17k20` left without a
  theorem, and their agreement with the hand-written models of `Model/Binarizer.lean` / `Model/Luminance.lean`.  Pure list facts:
  nothing here mentions a generated definition.
-/
import Gzx.Proofs.K17
import Gzx.Model.Luminance
namespace Gzx.K17b
open Gzx Gzx.GoM Gzx.Bits Gzx.Binarizer Gzx.K17

/-! ### `BitArray.Set` on the word slice, and rows of conditional `Set` calls -/

/-- `BitArray.Set(i)` on the word slice (`WArr.set` without the record around it) -/
def setA (ws : List Nat) (i : Nat) : Res (List Nat) :=
  updWord ws (i / 32) (fun w => w ||| 1 <<< (i % 32))

theorem setA_eq_WArr (a : WArr) (i : Nat) : (WArr.set a i).map (fun a' => a'.words) = setA a.words i := by
  unfold WArr.set setA
  cases updWord a.words (i / 32) _ <;> rfl

/-- the `Set` calls of a row, applied in order -/
def applyA (ws : List Nat) (l : List Nat) : Res (List Nat) := l.foldlM setA ws

/-- a loop of `if P x { row.Set(x) }` performs the `Set` calls of the indices that pass -/
theorem foldlM_cond_filter (P : Nat → Bool) : ∀ (l : List Nat) (ws : List Nat),
    l.foldlM (fun t x => if P x then setA t x else .ok t) ws = applyA ws (l.filter P) := by
  intro l
  induction l with
  | nil => intro ws; rfl
  | cons x l ih =>
    intro ws
    by_cases h : P x = true
    · simp only [List.foldlM, h, if_true, List.filter_cons_of_pos, applyA, bind, Except.bind]
      cases setA ws x with
      | error e => rfl
      | ok ws' => exact ih ws'
    · have h' : P x = false := by simpa using h
      simp only [List.foldlM, h', Bool.false_eq_true, if_false, bind, Except.bind]
      rw [List.filter_cons_of_neg (by simp [h'])]
      exact ih ws

/-- the indices of the set bits of a row of booleans -/
def trueIdx (bits : List Bool) : List Nat := (List.range' 0 bits.length).filter (fun i => bits.getD i false)

/-! ### the sharpening loop of `GetBlackRow` -/

/-- pixel `x` of the small-row loop (`width < 3`): checked read, `pixel < blackPoint`, `Set(x)` -/
def smallStep (lum : List Nat) (bp : Nat) (ws : List Nat) (x : Nat) : Res (List Nat) :=
  match lum[x]? with
  | none => .error oob
  | some p => if p % 256 < bp then setA ws x else .ok ws

/-- the filter value at `x` computed from the three neighbouring luminances -/
def sharpAt (lum : List Nat) (bp x : Nat) : Bool :=
  decide (Int.tdiv (((lum.getD x 0 % 256 : Nat) : Int) * 4 - ((lum.getD (x - 1) 0 % 256 : Nat) : Int) -
    ((lum.getD (x + 1) 0 % 256 : Nat) : Int)) 2 < (bp : Int))

/-- pixel `x` of the `-1 4 -1` loop: checked read of `localLuminances[x+1]`, `left` / `center` carried from the previous rounds -/
def sharpStep (lum : List Nat) (bp : Nat) (ws : List Nat) (x : Nat) : Res (List Nat) :=
  match lum[x + 1]? with
  | none => .error oob
  | some _ => if sharpAt lum bp x then setA ws x else .ok ws

/-- the last statement of `GetBlackRow` as the Go code runs it -/
def sharpenW (ws : List Nat) (width : Nat) (lum : List Nat) (bp : Nat) : Res (List Nat) :=
  if width < 3 then (List.range' 0 width).foldlM (smallStep lum bp) ws
  else
    match lum[0]?, lum[1]? with
    | some _, some _ => (List.range' 1 (width - 2)).foldlM (sharpStep lum bp) ws
    | _, _ => .error oob

/-- the row of bits `Binarizer.blackRow` returns once the black point is known -/
def rowBits (bp : Nat) (row : List Nat) : List Bool :=
  if row.length < 3 then row.map (fun p => decide (p % 256 < bp))
  else false :: sharpen bp (row.map (· % 256)) ++ [false]

theorem blackRow_eq (row : List Nat) :
    blackRow row = (estimateBlackPoint (histogram row)).map (fun bp => rowBits bp row) := by
  unfold blackRow rowBits
  cases estimateBlackPoint (histogram row) with
  | error e => rfl
  | ok bp => by_cases h : row.length < 3 <;> simp [h, Except.map]

theorem sharpen_length (bp : Nat) : ∀ l : List Nat, (sharpen bp l).length = l.length - 2
  | [] => rfl
  | [_] => rfl
  | [_, _] => rfl
  | a :: b :: c :: rest => by
    rw [sharpen, List.length_cons, sharpen_length bp (b :: c :: rest)]
    simp

theorem sharpen_getD (bp : Nat) : ∀ (l : List Nat) (i : Nat), i + 2 < l.length →
    (sharpen bp l).getD i false =
      decide (Int.tdiv (((l.getD (i + 1) 0 : Nat) : Int) * 4 - ((l.getD i 0 : Nat) : Int) - ((l.getD (i + 2) 0 : Nat) : Int)) 2 < (bp : Int))
  | [], i, h => by simp at h
  | [_], i, h => by simp at h
  | [_, _], i, h => by simp at h; omega
  | a :: b :: c :: rest, 0, _ => by simp [sharpen]
  | a :: b :: c :: rest, i + 1, h => by
    rw [sharpen]
    have := sharpen_getD bp (b :: c :: rest) i (by simp at h ⊢; omega)
    simpa using this

theorem getD_map_mod (l : List Nat) (i : Nat) : (l.map (· % 256)).getD i 0 = l.getD i 0 % 256 := by
  simp only [List.getD_eq_getElem?_getD, List.getElem?_map]
  cases l[i]? <;> simp

/-- bit `x` of `rowBits` for a row of at least three pixels -/
theorem rowBits_getD (bp : Nat) (row : List Nat) (h3 : ¬ row.length < 3) (x : Nat) (hx : x < row.length) :
    (rowBits bp row).getD x false = (decide (1 ≤ x ∧ x + 1 < row.length) && sharpAt row bp x) := by
  unfold rowBits
  simp only [h3, if_false]
  have hsl : (sharpen bp (row.map (· % 256))).length = row.length - 2 := by rw [sharpen_length]; simp
  cases x with
  | zero => simp
  | succ x =>
    rw [List.cons_append, List.getD_cons_succ]
    by_cases hlast : x + 2 < row.length
    · rw [List.getD_eq_getElem?_getD, List.getElem?_append_left (by rw [hsl]; omega), ← List.getD_eq_getElem?_getD,
        sharpen_getD bp _ x (by simp; omega)]
      simp only [getD_map_mod, sharpAt, Nat.add_sub_cancel]
      have : (1 ≤ x + 1 ∧ x + 1 + 1 < row.length) := ⟨by omega, by omega⟩
      simp [this]
    · rw [List.getD_eq_getElem?_getD, List.getElem?_append_right (by rw [hsl]; omega)]
      have e : x - (sharpen bp (row.map (· % 256))).length = 0 := by rw [hsl]; omega
      have : ¬ (x + 1 + 1 < row.length) := by omega
      simp [e, this]

theorem rowBits_length (bp : Nat) (row : List Nat) : (rowBits bp row).length = row.length := by
  unfold rowBits
  by_cases h : row.length < 3
  · simp [h]
  · simp only [h, if_false, List.length_cons, List.length_append, List.length_nil, sharpen_length, List.length_map]
    omega

/-- a fold whose step function agrees on the visited indices -/
theorem foldlM_congr_mem {τ : Type} (f g : τ → Nat → Res τ) : ∀ (l : List Nat) (t : τ),
    (∀ x ∈ l, ∀ t, f t x = g t x) → l.foldlM f t = l.foldlM g t := by
  intro l
  induction l with
  | nil => intro t _; rfl
  | cons x l ih =>
    intro t h
    simp only [List.foldlM, bind, Except.bind]
    rw [h x List.mem_cons_self t]
    cases g t x with
    | error e => rfl
    | ok t' => exact ih t' (fun y hy => h y (List.mem_cons_of_mem _ hy))

/-- **the sharpening loop, mirror to model**: on a row of `width` luminances the Go loop performs exactly the `Set(x)` calls of the
    bits that `Binarizer.blackRow` reports (in increasing `x`) -/
theorem sharpenW_agrees (ws : List Nat) (lum : List Nat) (bp : Nat) :
    sharpenW ws lum.length lum bp = applyA ws (trueIdx (rowBits bp lum)) := by
  unfold sharpenW trueIdx
  rw [rowBits_length]
  by_cases h3 : lum.length < 3
  · simp only [h3, if_true]
    rw [← foldlM_cond_filter]
    apply foldlM_congr_mem
    intro x hx t
    have hx' : x < lum.length := by simp [List.mem_range'_1] at hx; exact hx
    simp only [smallStep, List.getElem?_eq_getElem hx']
    have : (rowBits bp lum).getD x false = decide (lum[x] % 256 < bp) := by
      unfold rowBits
      simp only [h3, if_true, List.getD_eq_getElem?_getD, List.getElem?_map, List.getElem?_eq_getElem hx', Option.map_some,
        Option.getD_some]
    rw [this]
    by_cases hp : lum[x] % 256 < bp <;> simp [hp]
  · simp only [h3, if_false]
    rw [List.getElem?_eq_getElem (by omega), List.getElem?_eq_getElem (by omega)]
    simp only []
    -- the end pixels are never set
    have hsplit : List.range' 0 lum.length = [0] ++ List.range' 1 (lum.length - 2) ++ [lum.length - 1] := by
      have h1 : List.range' 0 lum.length = List.range' 0 1 ++ List.range' 1 (lum.length - 1) := by
        have := List.range'_append_1 (s := 0) (m := 1) (n := lum.length - 1)
        rw [show 1 + (lum.length - 1) = lum.length by omega] at this
        exact this.symm
      have h2 : List.range' 1 (lum.length - 1) = List.range' 1 (lum.length - 2) ++ List.range' (lum.length - 1) 1 := by
        have := List.range'_append_1 (s := 1) (m := lum.length - 2) (n := 1)
        rw [show 1 + (lum.length - 2) = lum.length - 1 by omega, show lum.length - 2 + 1 = lum.length - 1 by omega] at this
        exact this.symm
      rw [h1, h2]; simp [List.range'_succ]
    rw [hsplit, List.filter_append, List.filter_append]
    have e0 : [0].filter (fun i => (rowBits bp lum).getD i false) = [] := by
      rw [List.filter_eq_nil_iff]; intro a ha
      simp only [List.mem_singleton] at ha; subst ha
      rw [rowBits_getD bp lum h3 0 (by omega)]; simp
    have e1 : [lum.length - 1].filter (fun i => (rowBits bp lum).getD i false) = [] := by
      rw [List.filter_eq_nil_iff]; intro a ha
      simp only [List.mem_singleton] at ha; subst ha
      rw [rowBits_getD bp lum h3 _ (by omega)]
      have : ¬ (1 ≤ lum.length - 1 ∧ lum.length - 1 + 1 < lum.length) := by omega
      simp [this]
    rw [e0, e1, List.nil_append, List.append_nil, ← foldlM_cond_filter]
    apply foldlM_congr_mem
    intro x hx t
    have hx' : 1 ≤ x ∧ x + 1 < lum.length := by simp [List.mem_range'_1] at hx; omega
    simp only [sharpStep, List.getElem?_eq_getElem hx'.2]
    rw [rowBits_getD bp lum h3 x (by omega)]
    simp [hx']

/-! ### the four sampled rows of `GlobalHistogramBinarizer.GetBlackMatrix` -/

/-- row `r` of a `w`-wide luminance matrix, as `GetRow(r, _)` of a whole-image source returns it -/
def rowOf (lum : List Nat) (w r : Nat) : List Nat := (lum.drop (r * w)).take w

theorem rowOf_getElem? (lum : List Nat) (w r x : Nat) (hx : x < w) : (rowOf lum w r)[x]? = lum[r * w + x]? := by
  unfold rowOf
  rw [List.getElem?_take_of_lt hx, List.getElem?_drop]

/-- bucket updates over a list of sampled positions = the histogram of the sampled pixels appended -/
theorem foldlM_hist_list (l : List Nat) : ∀ (xs : List Nat) (ps0 : List Nat),
    xs.foldlM (histStep l) (histogram ps0) =
      match mapME (fun x => (match l[x]? with | some v => Except.ok v | none => Except.error oob : Res Nat)) xs with
      | .ok ps => .ok (histogram (ps0 ++ ps))
      | .error _ => .error oob := by
  intro xs
  induction xs with
  | nil => intro ps0; simp [mapME, pure, Except.pure]
  | cons x xs ih =>
    intro ps0
    simp only [List.foldlM, mapME, histStep, bind, Except.bind]
    cases hl : l[x]? with
    | none => rfl
    | some p =>
      simp only [Bits.updWord]
      rw [List.getElem?_eq_getElem (by rw [histogram_length]; exact bucketOf_lt p)]
      simp only []
      rw [← histogram_snoc, ih (ps0 ++ [p])]
      cases mapME _ xs with
      | error e => rfl
      | ok ps => simp

/-- the mirror of the sampling loops: rows `h*y/5` for `y = 1..4`, columns `w/5 .. w*4/5 - 1`, through `getRow` -/
def sampleRowW (getRow : Nat → List Nat) (w h : Nat) (t : List Nat) (y : Nat) : Res (List Nat) :=
  (List.range' (w / 5) (w * 4 / 5 - w / 5)).foldlM (histStep (getRow (h * y / 5))) t

def sampleW (getRow : Nat → List Nat) (w h : Nat) (acc : List Nat) : Res (List Nat) :=
  (List.range' 1 4).foldlM (sampleRowW getRow w h) acc

theorem range_drop (n a : Nat) : (List.range n).drop a = List.range' a (n - a) := by
  rw [List.range_eq_range', List.drop_range']
  simp

/-- the model's sampled row through `rowOf` -/
theorem sampleRow_rowOf (lum : List Nat) (w row : Nat) :
    sampleRow lum.toArray w row =
      match mapME (fun x => (match (rowOf lum w row)[x]? with | some v => Except.ok v | none => Except.error oob : Res Nat))
          (List.range' (w / 5) (w * 4 / 5 - w / 5)) with
      | .ok ps => .ok ps
      | .error _ => .error (.panic "luminances index out of range") := by
  unfold sampleRow
  rw [range_drop]
  have key : ∀ xs : List Nat, (∀ x ∈ xs, x < w) →
      mapME (fun x => rd lum.toArray (row * w + x)) xs =
        match mapME (fun x => (match (rowOf lum w row)[x]? with | some v => Except.ok v | none => Except.error oob : Res Nat)) xs with
        | .ok ps => .ok ps
        | .error _ => .error (.panic "luminances index out of range") := by
    intro xs
    induction xs with
    | nil => intro _; rfl
    | cons x xs ih =>
      intro hx
      have ih' := ih (fun y hy => hx y (List.mem_cons_of_mem _ hy))
      simp only [mapME, rd, List.getElem?_toArray] at ih' ⊢
      rw [rowOf_getElem? lum w row x (hx x List.mem_cons_self)]
      cases lum[row * w + x]? with
      | none => rfl
      | some v =>
        simp only []
        rw [ih']
        cases mapME _ xs <;> rfl
  apply key
  intro x hx
  simp [List.mem_range'_1] at hx
  omega

/-- **the sampling loops, mirror to model**: on a whole-image source the four sampled rows fill the histogram of
    `Binarizer.samples` (or the read panics where the model's read fails) -/
theorem sampleW_agrees (lum : List Nat) (w h : Nat) :
    sampleW (rowOf lum w) w h (histogram []) =
      match samples lum.toArray w h with
      | .ok ps => .ok (histogram ps)
      | .error _ => .error oob := by
  unfold sampleW samples
  have key : ∀ (ys : List Nat) (ps0 : List Nat),
      ys.foldlM (sampleRowW (rowOf lum w) w h) (histogram ps0) =
        match mapME (sampleRowAt lum.toArray w h) ys with
        | .ok rows => .ok (histogram (ps0 ++ rows.flatten))
        | .error _ => .error oob := by
    intro ys
    induction ys with
    | nil => intro ps0; simp [mapME, pure, Except.pure]
    | cons y ys ih =>
      intro ps0
      simp only [List.foldlM, mapME, sampleRowAt, sampleRowW, bind, Except.bind]
      rw [foldlM_hist_list, sampleRow_rowOf]
      cases mapME _ (List.range' (w / 5) (w * 4 / 5 - w / 5)) with
      | error e => rfl
      | ok ps =>
        simp only []
        rw [ih (ps0 ++ ps)]
        cases mapME _ ys with
        | error e => rfl
        | ok rows => simp
  have := key [1, 2, 3, 4] []
  simp only [List.nil_append] at this
  rw [show List.range' 1 4 = [1, 2, 3, 4] from rfl, this]
  cases mapME (sampleRowAt lum.toArray w h) [1, 2, 3, 4] <;> rfl

/-! ### block copies into a fresh array: `GetMatrix` (row by row) and `RotateCounterClockwise` (column by column) -/

open Gzx.Luminance in
/-- a `Fault` as a view error -/
def liftV {α : Type} : Res α → Luminance.VRes α
  | .ok a => .ok a
  | .error f => .error (.fault f)

theorem mapME_liftV {α β : Type} (f : β → Res α) : ∀ l : List β, mapME (fun a => liftV (f a)) l = liftV (mapME f l)
  | [] => rfl
  | a :: l => by
    simp only [mapME]
    rw [mapME_liftV f l]
    cases f a with
    | error e => rfl
    | ok b => cases mapME f l <;> rfl

theorem mapME_append_single {ε α β : Type} (f : α → Except ε β) : ∀ (l : List α) (a : α),
    mapME f (l ++ [a]) =
      match mapME f l with
      | .error e => .error e
      | .ok bs => match f a with
        | .error e => .error e
        | .ok b => .ok (bs ++ [b])
  | [], a => by simp only [List.nil_append, mapME]; cases f a <;> rfl
  | x :: l, a => by
    simp only [List.cons_append, mapME]
    cases f x with
    | error e => rfl
    | ok b =>
      simp only []
      rw [mapME_append_single f l a]
      cases mapME f l with
      | error e => rfl
      | ok bs => cases f a <;> rfl

/-- `xs[a:b]` (capacity = length) on a model byte list, as a `Fault` -/
def sliceN (l : List Nat) (a b : Nat) : Res (List Nat) :=
  if a ≤ b ∧ b ≤ l.length then .ok ((l.drop a).take (b - a)) else .error (.panic "slice bounds out of range")

theorem slice_eq_liftV (l : List Nat) (a b : Nat) : Luminance.slice l a b = liftV (sliceN l a b) := by
  unfold Luminance.slice sliceN
  by_cases h : a ≤ b ∧ b ≤ l.length <;> simp [h, liftV, Luminance.vpanic]

theorem sliceN_length (l : List Nat) (a w : Nat) (r : List Nat) (h : sliceN l a (a + w) = .ok r) : r.length = w := by
  unfold sliceN at h
  split at h
  · injection h with h; subst h; simp; omega
  · cases h

/-- `copy(dst[lo:hi], src)` on model byte lists -/
def copySegN (dst : List Nat) (lo hi : Nat) (src : List Nat) : Res (List Nat) :=
  if lo ≤ hi ∧ hi ≤ dst.length then
    .ok (dst.take lo ++ copyInto ((dst.drop lo).take (hi - lo)) src ++ dst.drop hi)
  else .error (.panic "slice bounds out of range")

/-- a block of `bw` elements copied to position `lo` with either upper bound the Go code uses (`lo+bw` or `len dst`) -/
theorem copySegN_block (dst : List Nat) (lo hi : Nat) (src : List Nat) (hl : lo + src.length ≤ dst.length)
    (hh : hi = lo + src.length ∨ hi = dst.length) :
    copySegN dst lo hi src = .ok (dst.take lo ++ src ++ dst.drop (lo + src.length)) := by
  unfold copySegN copyInto
  have hc : lo ≤ hi ∧ hi ≤ dst.length := by omega
  simp only [hc, and_self, if_true]
  congr 1
  rcases hh with hh | hh
  · subst hh
    have e1 : ((dst.drop lo).take (lo + src.length - lo)).length = src.length := by simp; omega
    rw [e1, List.take_length, List.drop_eq_nil_of_le (by rw [e1]; omega)]
    simp
  · subst hh
    have e0 : (dst.drop lo).take (dst.length - lo) = dst.drop lo := List.take_of_length_le (by simp)
    rw [e0, List.length_drop, List.take_of_length_le (by omega : src.length ≤ dst.length - lo), List.drop_drop,
      List.drop_eq_nil_of_le (Nat.le_refl dst.length)]
    simp

theorem drop_append_len {α : Type} (l1 l2 : List α) (n i : Nat) (h : l1.length = n) : (l1 ++ l2).drop (n + i) = l2.drop i := by
  subst h; simp

/-- **filling a fresh array block by block**: a step that puts block `j` (of `bw` elements) at `j*bw` turns `t0` into the blocks so
    far followed by the untouched rest; errors are those of the first failing block -/
theorem foldlM_blocks {ε : Type} (bw n : Nat) (rowF : Nat → Except ε (List Nat)) (step : List Nat → Nat → Except ε (List Nat))
    (hrow : ∀ j r, rowF j = .ok r → r.length = bw)
    (hstep : ∀ t j, j < n → t.length = n * bw → step t j =
      match rowF j with
      | .ok r => .ok (t.take (j * bw) ++ r ++ t.drop (j * bw + bw))
      | .error e => .error e) :
    ∀ k, k ≤ n → ∀ t0 : List Nat, t0.length = n * bw →
      (List.range' 0 k).foldlM step t0 =
        match mapME rowF (List.range' 0 k) with
        | .ok rows => .ok (rows.flatten ++ t0.drop (k * bw))
        | .error e => .error e := by
  intro k
  induction k with
  | zero => intro _ t0 _; simp [mapME, pure, Except.pure]
  | succ k ih =>
    intro hk t0 ht0
    rw [List.range'_1_concat, List.foldlM_append, ih (by omega) t0 ht0, mapME_append_single, Nat.zero_add]
    have hlen : ∀ rows, mapME rowF (List.range' 0 k) = .ok rows → rows.flatten.length = k * bw := by
      have gen : ∀ (l : List Nat) rows, mapME rowF l = .ok rows → rows.flatten.length = l.length * bw := by
        intro l
        induction l with
        | nil => intro rows h; simp only [mapME, Except.ok.injEq] at h; subst h; simp
        | cons a l ihl =>
          intro rows h
          simp only [mapME] at h
          cases hfa : rowF a with
          | error e => simp [hfa] at h
          | ok r =>
            cases hm : mapME rowF l with
            | error e => simp [hfa, hm] at h
            | ok rs =>
              simp only [hfa, hm, Except.ok.injEq] at h
              subst h
              simp only [List.flatten_cons, List.length_append, List.length_cons, hrow a r hfa, ihl rs hm]
              rw [Nat.add_mul]; omega
      intro rows h
      have := gen _ rows h
      simpa using this
    cases hm : mapME rowF (List.range' 0 k) with
    | error e => simp [bind, Except.bind]
    | ok rows =>
      have hl := hlen rows hm
      have hkb : k * bw + bw ≤ n * bw := by
        have : (k + 1) * bw ≤ n * bw := Nat.mul_le_mul_right bw hk
        rw [Nat.add_mul] at this; omega
      simp only [bind, Except.bind, List.foldlM, pure, Except.pure]
      rw [hstep _ k (by omega) (by simp [hl, ht0]; omega)]
      cases hr : rowF k with
      | error e => rfl
      | ok r =>
        simp only []
        congr 1
        have hrl := hrow k r hr
        have hX1 : (rows.flatten ++ t0.drop (k * bw)).take (k * bw) = rows.flatten := List.take_left' hl
        have hX2 : (rows.flatten ++ t0.drop (k * bw)).drop (k * bw + bw) = t0.drop ((k + 1) * bw) := by
          rw [drop_append_len _ _ (k * bw) bw hl, List.drop_drop, Nat.add_mul, Nat.one_mul]
        rw [hX1, hX2, List.flatten_append, List.flatten_singleton]

/-- the rows `GetMatrix` copies: `luminances[off + y*dataW : off + y*dataW + w]` -/
def cropRow (data : List Nat) (dataW w off y : Nat) : Res (List Nat) := sliceN data (off + y * dataW) (off + y * dataW + w)

theorem rowsCopy_eq (data : List Nat) (dataW w off : Nat) : ∀ (n s : Nat),
    Luminance.rowsCopy data dataW w (off + s * dataW) n =
      liftV ((mapME (cropRow data dataW w off) (List.range' s n)).map List.flatten)
  | 0, s => rfl
  | n + 1, s => by
    simp only [Luminance.rowsCopy, List.range'_succ, mapME, cropRow, bind, Except.bind]
    rw [slice_eq_liftV]
    cases sliceN data (off + s * dataW) (off + s * dataW + w) with
    | error e => rfl
    | ok r =>
      simp only [liftV]
      have e : off + s * dataW + dataW = off + (s + 1) * dataW := by rw [Nat.add_mul]; omega
      rw [e, rowsCopy_eq data dataW w off n (s + 1)]
      cases mapME (cropRow data dataW w off) (List.range' (s + 1) n) <;> rfl

/-- one row of the row-by-row copy with the upper bound `hiF len y` of the destination slice -/
def cropStep (data : List Nat) (dataW w off : Nat) (hiF : Nat → Nat → Nat) (t : List Nat) (y : Nat) : Res (List Nat) :=
  match cropRow data dataW w off y with
  | .error e => .error e
  | .ok r => copySegN t (y * w) (hiF t.length y) r

/-- the mirror of `GetMatrix` of the RGB (`hiF = fun _ y => y*w + w`) and YUV (`hiF = fun len _ => len`) sources -/
def getMatrixW (data : List Nat) (dataW dataH left top w h : Nat) (hiF : Nat → Nat → Nat) : Res (List Nat) :=
  if w = dataW ∧ h = dataH then .ok data
  else if w = dataW then (sliceN data (top * dataW + left) (top * dataW + left + w * h)).map
      (fun s => copyInto (List.replicate (w * h) 0) s)
  else (List.range' 0 h).foldlM (cropStep data dataW w (top * dataW + left) hiF) (List.replicate (w * h) 0)

/-- **GetMatrix, mirror to model**: `Luminance.baseGetMatrix` for every view -/
theorem getMatrixW_agrees (v : Luminance.View) (hiF : Nat → Nat → Nat)
    (hh : ∀ len y, hiF len y = y * v.w + v.w ∨ hiF len y = len) :
    Luminance.baseGetMatrix v = liftV (getMatrixW v.data v.dataW v.dataH v.left v.top v.w v.h hiF) := by
  unfold Luminance.baseGetMatrix getMatrixW
  by_cases h1 : v.w = v.dataW ∧ v.h = v.dataH
  · simp only [h1, and_self, if_true]; rfl
  · simp only [h1, if_false]
    by_cases h2 : v.w = v.dataW
    · simp only [h2, if_true]
      rw [slice_eq_liftV]
      cases hs : sliceN v.data (v.top * v.dataW + v.left) (v.top * v.dataW + v.left + v.dataW * v.h) with
      | error e => rfl
      | ok s =>
        have hl := sliceN_length _ _ _ _ hs
        simp only [Except.map, liftV]
        congr 1
        unfold copyInto
        simp only [List.length_replicate, hl, Nat.le_refl, List.drop_eq_nil_of_le, List.append_nil]
        rw [← hl, List.take_length]
    · simp only [h2, if_false]
      have h0 := rowsCopy_eq v.data v.dataW v.w (v.top * v.dataW + v.left) v.h 0
      simp only [Nat.zero_mul, Nat.add_zero] at h0
      rw [h0]
      have hb := foldlM_blocks v.w v.h (cropRow v.data v.dataW v.w (v.top * v.dataW + v.left))
        (cropStep v.data v.dataW v.w (v.top * v.dataW + v.left) hiF)
        (fun j r hr => sliceN_length _ _ _ _ hr)
        (by
          intro t j hj ht
          unfold cropStep
          cases hr : cropRow v.data v.dataW v.w (v.top * v.dataW + v.left) j with
          | error e => rfl
          | ok r =>
            have hrl : r.length = v.w := sliceN_length _ _ _ _ hr
            have hjb : j * v.w + v.w ≤ v.h * v.w := by
              have : (j + 1) * v.w ≤ v.h * v.w := Nat.mul_le_mul_right v.w hj
              rw [Nat.add_mul] at this; omega
            simp only []
            have hhi : hiF t.length j = j * v.w + r.length ∨ hiF t.length j = t.length := by
              rcases hh t.length j with h | h
              · left; omega
              · right; omega
            rw [copySegN_block t (j * v.w) _ r (by omega) hhi, hrl])
        v.h (Nat.le_refl _) (List.replicate (v.w * v.h) 0) (by simp [Nat.mul_comm])
      rw [hb]
      cases mapME _ (List.range' 0 v.h) with
      | error e => rfl
      | ok rows =>
        simp only [Except.map, liftV]
        congr 1
        rw [List.drop_of_length_le (by simp [Nat.mul_comm])]
        simp

/-- `oldLuminas[i]` -/
def rdR (l : List Nat) (i : Nat) : Res Nat :=
  match l[i]? with
  | some v => .ok v
  | none => .error oob

theorem idx_eq_liftV (l : List Nat) (i : Nat) : Luminance.idx l i = liftV (rdR l i) := by
  unfold Luminance.idx rdR
  cases l[i]? <;> rfl

/-- column `left+width-1-j` of the view, top to bottom: row `j` of the rotated copy -/
def rotRowR (data : List Nat) (dataW left top w h j : Nat) : Res (List Nat) :=
  mapME (fun i => rdR data ((top + i) * dataW + (left + w - 1 - j))) (List.range' 0 h)

/-- one element of the rotation loop: `newLuminas[j*height+i] = oldLuminas[(top+i)*dataWidth + x]` -/
def rotCell (data : List Nat) (dataW left top w h j : Nat) (t : List Nat) (i : Nat) : Res (List Nat) :=
  match rdR data ((top + i) * dataW + (left + w - 1 - j)) with
  | .error e => .error e
  | .ok v => setWord t (j * h + i) v

def rotColW (data : List Nat) (dataW left top w h : Nat) (t : List Nat) (j : Nat) : Res (List Nat) :=
  (List.range' 0 h).foldlM (rotCell data dataW left top w h j) t

/-- the mirror of the rotation loops on the fresh array -/
def rotateW (data : List Nat) (dataW left top w h : Nat) : Res (List Nat) :=
  (List.range' 0 w).foldlM (rotColW data dataW left top w h) (List.replicate (w * h) 0)

/-- one column written element by element = the column placed as a block -/
theorem rotColW_block (data : List Nat) (dataW left top w h j : Nat) (t : List Nat) (hl : j * h + h ≤ t.length) :
    rotColW data dataW left top w h t j =
      match rotRowR data dataW left top w h j with
      | .ok r => .ok (t.take (j * h) ++ r ++ t.drop (j * h + h))
      | .error e => .error e := by
  unfold rotColW rotRowR
  have key : ∀ k, k ≤ h →
      (List.range' 0 k).foldlM (rotCell data dataW left top w h j) t =
        match mapME (fun i => rdR data ((top + i) * dataW + (left + w - 1 - j))) (List.range' 0 k) with
        | .ok r => .ok (t.take (j * h) ++ r ++ t.drop (j * h + k))
        | .error e => .error e := by
    intro k
    induction k with
    | zero => intro _; simp [mapME, pure, Except.pure]
    | succ k ih =>
      intro hk
      rw [List.range'_1_concat, List.foldlM_append, ih (by omega), mapME_append_single, Nat.zero_add]
      have hlen : ∀ (l : List Nat) r, mapME (fun i => rdR data ((top + i) * dataW + (left + w - 1 - j))) l = .ok r →
          r.length = l.length := by
        intro l
        induction l with
        | nil => intro r h; simp only [mapME, Except.ok.injEq] at h; subst h; rfl
        | cons a l ihl =>
          intro r h
          simp only [mapME] at h
          cases hfa : rdR data ((top + a) * dataW + (left + w - 1 - j)) with
          | error e => simp [hfa] at h
          | ok b =>
            cases hm : mapME (fun i => rdR data ((top + i) * dataW + (left + w - 1 - j))) l with
            | error e => simp [hfa, hm] at h
            | ok rs =>
              simp only [hfa, hm, Except.ok.injEq] at h
              subst h; simp [ihl rs hm]
      cases hm : mapME (fun i => rdR data ((top + i) * dataW + (left + w - 1 - j))) (List.range' 0 k) with
      | error e => simp [bind, Except.bind]
      | ok r =>
        have hrl : r.length = k := by simpa using hlen _ r hm
        simp only [bind, Except.bind, List.foldlM, pure, Except.pure, rotCell]
        cases rdR data ((top + k) * dataW + (left + w - 1 - j)) with
        | error e => rfl
        | ok v =>
          simp only [setWord]
          have hlt : j * h + k < (t.take (j * h) ++ r ++ t.drop (j * h + k)).length := by
            simp [hrl]; omega
          simp only [hlt, if_true]
          congr 1
          have e1 : (t.take (j * h) ++ r).length = j * h + k := by simp [hrl]; omega
          rw [List.set_append_right _ _ (by rw [e1]; omega), e1, Nat.sub_self]
          have hd : t.drop (j * h + k) = t[j * h + k]'(by omega) :: t.drop (j * h + (k + 1)) := by
            rw [show j * h + (k + 1) = j * h + k + 1 by omega]
            exact (List.getElem_cons_drop (by omega)).symm
          rw [hd]
          simp
  rw [key h (Nat.le_refl _)]
  cases mapME (fun i => rdR data ((top + i) * dataW + (left + w - 1 - j))) (List.range' 0 h) <;> rfl

/-- **RotateCounterClockwise, mirror to model**: the rotation loops fill the fresh array with the model's rotated rows -/
theorem rotateW_agrees (v : Luminance.View) :
    (mapME (Luminance.rotRow v) (List.range v.w) |>.map List.flatten) =
      liftV (rotateW v.data v.dataW v.left v.top v.w v.h) := by
  unfold rotateW
  have hrow : ∀ j, Luminance.rotRow v j = liftV (rotRowR v.data v.dataW v.left v.top v.w v.h j) := by
    intro j
    unfold Luminance.rotRow rotRowR
    rw [List.range_eq_range', ← mapME_liftV]
    congr 1
    funext i
    exact idx_eq_liftV _ _
  have hm : mapME (Luminance.rotRow v) (List.range v.w) =
      liftV (mapME (rotRowR v.data v.dataW v.left v.top v.w v.h) (List.range' 0 v.w)) := by
    rw [List.range_eq_range', ← mapME_liftV]
    congr 1
    funext j
    exact hrow j
  rw [hm]
  have hlen : ∀ j r, rotRowR v.data v.dataW v.left v.top v.w v.h j = .ok r → r.length = v.h := by
    intro j r h
    unfold rotRowR at h
    have gen : ∀ (l : List Nat) r, mapME (fun i => rdR v.data ((v.top + i) * v.dataW + (v.left + v.w - 1 - j))) l = .ok r →
        r.length = l.length := by
      intro l
      induction l with
      | nil => intro r h; simp only [mapME, Except.ok.injEq] at h; subst h; rfl
      | cons a l ihl =>
        intro r h
        simp only [mapME] at h
        cases hfa : rdR v.data ((v.top + a) * v.dataW + (v.left + v.w - 1 - j)) with
        | error e => simp [hfa] at h
        | ok b =>
          cases hm : mapME (fun i => rdR v.data ((v.top + i) * v.dataW + (v.left + v.w - 1 - j))) l with
          | error e => simp [hfa, hm] at h
          | ok rs =>
            simp only [hfa, hm, Except.ok.injEq] at h
            subst h; simp [ihl rs hm]
    simpa using gen _ r h
  have hb := foldlM_blocks v.h v.w (rotRowR v.data v.dataW v.left v.top v.w v.h)
    (rotColW v.data v.dataW v.left v.top v.w v.h) hlen
    (by
      intro t j hj ht
      have hjb : j * v.h + v.h ≤ v.w * v.h := by
        have : (j + 1) * v.h ≤ v.w * v.h := Nat.mul_le_mul_right v.h hj
        rw [Nat.add_mul] at this; omega
      rw [rotColW_block v.data v.dataW v.left v.top v.w v.h j t (by omega)]
      cases rotRowR v.data v.dataW v.left v.top v.w v.h j <;> rfl)
    v.w (Nat.le_refl _) (List.replicate (v.w * v.h) 0) (by simp)
  rw [hb]
  cases mapME _ (List.range' 0 v.w) with
  | error e => rfl
  | ok rows =>
    simp only [Except.map, liftV]
    congr 1
    rw [List.drop_of_length_le (by simp)]
    simp

end Gzx.K17b
