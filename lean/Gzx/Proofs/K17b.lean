/-
  Lemmas for `Obligations/K17b.lean` (work package kfinish): word-level mirrors of the K17 kernels that `k17k20` left without a
  theorem, and their agreement with the hand-written models of `Model/Binarizer.lean` / `Model/Luminance.lean`.  Pure list facts:
  nothing here mentions a generated definition.
-/
import Gzx.Proofs.K17
import Gzx.Model.Luminance
namespace Gzx.K17b
open Gzx Gzx.GoM Gzx.Bits Gzx.Binarizer Gzx.K17

/-! ### `BitArray.Set` on the word slice, and rows of conditional `Set` calls -/

/-- `BitArray.Set(i)` on the word slice (`WArr.set` without the record around it) -/
def setA (ws : List Nat) (i : Nat) : Res (List Nat) :=
  updWord ws (i / 32) (fun w => w ||| 1 <<< (i % 32))

theorem setA_eq_WArr (a : WArr) (i : Nat) : (WArr.set a i).map (fun a' => a'.words) = setA a.words i := by
  unfold WArr.set setA
  cases updWord a.words (i / 32) _ <;> rfl

/-- the `Set` calls of a row, applied in order -/
def applyA (ws : List Nat) (l : List Nat) : Res (List Nat) := l.foldlM setA ws

/-- a loop of `if P x { row.Set(x) }` performs the `Set` calls of the indices that pass -/
theorem foldlM_cond_filter (P : Nat → Bool) : ∀ (l : List Nat) (ws : List Nat),
    l.foldlM (fun t x => if P x then setA t x else .ok t) ws = applyA ws (l.filter P) := by
  intro l
  induction l with
  | nil => intro ws; rfl
  | cons x l ih =>
    intro ws
    by_cases h : P x = true
    · simp only [List.foldlM, h, if_true, List.filter_cons_of_pos, applyA, bind, Except.bind]
      cases setA ws x with
      | error e => rfl
      | ok ws' => exact ih ws'
    · have h' : P x = false := by simpa using h
      simp only [List.foldlM, h', Bool.false_eq_true, if_false, bind, Except.bind]
      rw [List.filter_cons_of_neg (by simp [h'])]
      exact ih ws

/-- the indices of the set bits of a row of booleans -/
def trueIdx (bits : List Bool) : List Nat := (List.range' 0 bits.length).filter (fun i => bits.getD i false)

/-! ### the sharpening loop of `GetBlackRow` -/

/-- pixel `x` of the small-row loop (`width < 3`): checked read, `pixel < blackPoint`, `Set(x)` -/
def smallStep (lum : List Nat) (bp : Nat) (ws : List Nat) (x : Nat) : Res (List Nat) :=
  match lum[x]? with
  | none => .error oob
  | some p => if p % 256 < bp then setA ws x else .ok ws

/-- the filter value at `x` computed from the three neighbouring luminances -/
def sharpAt (lum : List Nat) (bp x : Nat) : Bool :=
  decide (Int.tdiv (((lum.getD x 0 % 256 : Nat) : Int) * 4 - ((lum.getD (x - 1) 0 % 256 : Nat) : Int) -
    ((lum.getD (x + 1) 0 % 256 : Nat) : Int)) 2 < (bp : Int))

/-- pixel `x` of the `-1 4 -1` loop: checked read of `localLuminances[x+1]`, `left` / `center` carried from the previous rounds -/
def sharpStep (lum : List Nat) (bp : Nat) (ws : List Nat) (x : Nat) : Res (List Nat) :=
  match lum[x + 1]? with
  | none => .error oob
  | some _ => if sharpAt lum bp x then setA ws x else .ok ws

/-- the last statement of `GetBlackRow` as the Go code runs it -/
def sharpenW (ws : List Nat) (width : Nat) (lum : List Nat) (bp : Nat) : Res (List Nat) :=
  if width < 3 then (List.range' 0 width).foldlM (smallStep lum bp) ws
  else
    match lum[0]?, lum[1]? with
    | some _, some _ => (List.range' 1 (width - 2)).foldlM (sharpStep lum bp) ws
    | _, _ => .error oob

/-- the row of bits `Binarizer.blackRow` returns once the black point is known -/
def rowBits (bp : Nat) (row : List Nat) : List Bool :=
  if row.length < 3 then row.map (fun p => decide (p % 256 < bp))
  else false :: sharpen bp (row.map (· % 256)) ++ [false]

theorem blackRow_eq (row : List Nat) :
    blackRow row = (estimateBlackPoint (histogram row)).map (fun bp => rowBits bp row) := by
  unfold blackRow rowBits
  cases estimateBlackPoint (histogram row) with
  | error e => rfl
  | ok bp => by_cases h : row.length < 3 <;> simp [h, Except.map]

theorem sharpen_length (bp : Nat) : ∀ l : List Nat, (sharpen bp l).length = l.length - 2
  | [] => rfl
  | [_] => rfl
  | [_, _] => rfl
  | a :: b :: c :: rest => by
    rw [sharpen, List.length_cons, sharpen_length bp (b :: c :: rest)]
    simp

theorem sharpen_getD (bp : Nat) : ∀ (l : List Nat) (i : Nat), i + 2 < l.length →
    (sharpen bp l).getD i false =
      decide (Int.tdiv (((l.getD (i + 1) 0 : Nat) : Int) * 4 - ((l.getD i 0 : Nat) : Int) - ((l.getD (i + 2) 0 : Nat) : Int)) 2 < (bp : Int))
  | [], i, h => by simp at h
  | [_], i, h => by simp at h
  | [_, _], i, h => by simp at h; omega
  | a :: b :: c :: rest, 0, _ => by simp [sharpen]
  | a :: b :: c :: rest, i + 1, h => by
    rw [sharpen]
    have := sharpen_getD bp (b :: c :: rest) i (by simp at h ⊢; omega)
    simpa using this

theorem getD_map_mod (l : List Nat) (i : Nat) : (l.map (· % 256)).getD i 0 = l.getD i 0 % 256 := by
  simp only [List.getD_eq_getElem?_getD, List.getElem?_map]
  cases l[i]? <;> simp

/-- bit `x` of `rowBits` for a row of at least three pixels -/
theorem rowBits_getD (bp : Nat) (row : List Nat) (h3 : ¬ row.length < 3) (x : Nat) (hx : x < row.length) :
    (rowBits bp row).getD x false = (decide (1 ≤ x ∧ x + 1 < row.length) && sharpAt row bp x) := by
  unfold rowBits
  simp only [h3, if_false]
  have hsl : (sharpen bp (row.map (· % 256))).length = row.length - 2 := by rw [sharpen_length]; simp
  cases x with
  | zero => simp
  | succ x =>
    rw [List.cons_append, List.getD_cons_succ]
    by_cases hlast : x + 2 < row.length
    · rw [List.getD_eq_getElem?_getD, List.getElem?_append_left (by rw [hsl]; omega), ← List.getD_eq_getElem?_getD,
        sharpen_getD bp _ x (by simp; omega)]
      simp only [getD_map_mod, sharpAt, Nat.add_sub_cancel]
      have : (1 ≤ x + 1 ∧ x + 1 + 1 < row.length) := ⟨by omega, by omega⟩
      simp [this]
    · rw [List.getD_eq_getElem?_getD, List.getElem?_append_right (by rw [hsl]; omega)]
      have e : x - (sharpen bp (row.map (· % 256))).length = 0 := by rw [hsl]; omega
      have : ¬ (x + 1 + 1 < row.length) := by omega
      simp [e, this]

theorem rowBits_length (bp : Nat) (row : List Nat) : (rowBits bp row).length = row.length := by
  unfold rowBits
  by_cases h : row.length < 3
  · simp [h]
  · simp only [h, if_false, List.length_cons, List.length_append, List.length_nil, sharpen_length, List.length_map]
    omega

/-- a fold whose step function agrees on the visited indices -/
theorem foldlM_congr_mem {τ : Type} (f g : τ → Nat → Res τ) : ∀ (l : List Nat) (t : τ),
    (∀ x ∈ l, ∀ t, f t x = g t x) → l.foldlM f t = l.foldlM g t := by
  intro l
  induction l with
  | nil => intro t _; rfl
  | cons x l ih =>
    intro t h
    simp only [List.foldlM, bind, Except.bind]
    rw [h x List.mem_cons_self t]
    cases g t x with
    | error e => rfl
    | ok t' => exact ih t' (fun y hy => h y (List.mem_cons_of_mem _ hy))

/-- **the sharpening loop, mirror to model**: on a row of `width` luminances the Go loop performs exactly the `Set(x)` calls of the
    bits that `Binarizer.blackRow` reports (in increasing `x`) -/
theorem sharpenW_agrees (ws : List Nat) (lum : List Nat) (bp : Nat) :
    sharpenW ws lum.length lum bp = applyA ws (trueIdx (rowBits bp lum)) := by
  unfold sharpenW trueIdx
  rw [rowBits_length]
  by_cases h3 : lum.length < 3
  · simp only [h3, if_true]
    rw [← foldlM_cond_filter]
    apply foldlM_congr_mem
    intro x hx t
    have hx' : x < lum.length := by simp [List.mem_range'_1] at hx; exact hx
    simp only [smallStep, List.getElem?_eq_getElem hx']
    have : (rowBits bp lum).getD x false = decide (lum[x] % 256 < bp) := by
      unfold rowBits
      simp only [h3, if_true, List.getD_eq_getElem?_getD, List.getElem?_map, List.getElem?_eq_getElem hx', Option.map_some,
        Option.getD_some]
    rw [this]
    by_cases hp : lum[x] % 256 < bp <;> simp [hp]
  · simp only [h3, if_false]
    rw [List.getElem?_eq_getElem (by omega), List.getElem?_eq_getElem (by omega)]
    simp only []
    -- the end pixels are never set
    have hsplit : List.range' 0 lum.length = [0] ++ List.range' 1 (lum.length - 2) ++ [lum.length - 1] := by
      have h1 : List.range' 0 lum.length = List.range' 0 1 ++ List.range' 1 (lum.length - 1) := by
        have := List.range'_append_1 (s := 0) (m := 1) (n := lum.length - 1)
        rw [show 1 + (lum.length - 1) = lum.length by omega] at this
        exact this.symm
      have h2 : List.range' 1 (lum.length - 1) = List.range' 1 (lum.length - 2) ++ List.range' (lum.length - 1) 1 := by
        have := List.range'_append_1 (s := 1) (m := lum.length - 2) (n := 1)
        rw [show 1 + (lum.length - 2) = lum.length - 1 by omega, show lum.length - 2 + 1 = lum.length - 1 by omega] at this
        exact this.symm
      rw [h1, h2]; simp [List.range'_succ]
    rw [hsplit, List.filter_append, List.filter_append]
    have e0 : [0].filter (fun i => (rowBits bp lum).getD i false) = [] := by
      rw [List.filter_eq_nil_iff]; intro a ha
      simp only [List.mem_singleton] at ha; subst ha
      rw [rowBits_getD bp lum h3 0 (by omega)]; simp
    have e1 : [lum.length - 1].filter (fun i => (rowBits bp lum).getD i false) = [] := by
      rw [List.filter_eq_nil_iff]; intro a ha
      simp only [List.mem_singleton] at ha; subst ha
      rw [rowBits_getD bp lum h3 _ (by omega)]
      have : ¬ (1 ≤ lum.length - 1 ∧ lum.length - 1 + 1 < lum.length) := by omega
      simp [this]
    rw [e0, e1, List.nil_append, List.append_nil, ← foldlM_cond_filter]
    apply foldlM_congr_mem
    intro x hx t
    have hx' : 1 ≤ x ∧ x + 1 < lum.length := by simp [List.mem_range'_1] at hx; omega
    simp only [sharpStep, List.getElem?_eq_getElem hx'.2]
    rw [rowBits_getD bp lum h3 x (by omega)]
    simp [hx']

/-! ### the four sampled rows of `GlobalHistogramBinarizer.GetBlackMatrix` -/

/-- row `r` of a `w`-wide luminance matrix, as `GetRow(r, _)` of a whole-image source returns it -/
def rowOf (lum : List Nat) (w r : Nat) : List Nat := (lum.drop (r * w)).take w

theorem rowOf_getElem? (lum : List Nat) (w r x : Nat) (hx : x < w) : (rowOf lum w r)[x]? = lum[r * w + x]? := by
  unfold rowOf
  rw [List.getElem?_take_of_lt hx, List.getElem?_drop]

/-- bucket updates over a list of sampled positions = the histogram of the sampled pixels appended -/
theorem foldlM_hist_list (l : List Nat) : ∀ (xs : List Nat) (ps0 : List Nat),
    xs.foldlM (histStep l) (histogram ps0) =
      match mapME (fun x => (match l[x]? with | some v => Except.ok v | none => Except.error oob : Res Nat)) xs with
      | .ok ps => .ok (histogram (ps0 ++ ps))
      | .error _ => .error oob := by
  intro xs
  induction xs with
  | nil => intro ps0; simp [mapME, pure, Except.pure]
  | cons x xs ih =>
    intro ps0
    simp only [List.foldlM, mapME, histStep, bind, Except.bind]
    cases hl : l[x]? with
    | none => rfl
    | some p =>
      simp only [Bits.updWord]
      rw [List.getElem?_eq_getElem (by rw [histogram_length]; exact bucketOf_lt p)]
      simp only []
      rw [← histogram_snoc, ih (ps0 ++ [p])]
      cases mapME _ xs with
      | error e => rfl
      | ok ps => simp

/-- the mirror of the sampling loops: rows `h*y/5` for `y = 1..4`, columns `w/5 .. w*4/5 - 1`, through `getRow` -/
def sampleRowW (getRow : Nat → List Nat) (w h : Nat) (t : List Nat) (y : Nat) : Res (List Nat) :=
  (List.range' (w / 5) (w * 4 / 5 - w / 5)).foldlM (histStep (getRow (h * y / 5))) t

def sampleW (getRow : Nat → List Nat) (w h : Nat) (acc : List Nat) : Res (List Nat) :=
  (List.range' 1 4).foldlM (sampleRowW getRow w h) acc

theorem range_drop (n a : Nat) : (List.range n).drop a = List.range' a (n - a) := by
  rw [List.range_eq_range', List.drop_range']
  simp

/-- the model's sampled row through `rowOf` -/
theorem sampleRow_rowOf (lum : List Nat) (w row : Nat) :
    sampleRow lum.toArray w row =
      match mapME (fun x => (match (rowOf lum w row)[x]? with | some v => Except.ok v | none => Except.error oob : Res Nat))
          (List.range' (w / 5) (w * 4 / 5 - w / 5)) with
      | .ok ps => .ok ps
      | .error _ => .error (.panic "luminances index out of range") := by
  unfold sampleRow
  rw [range_drop]
  have key : ∀ xs : List Nat, (∀ x ∈ xs, x < w) →
      mapME (fun x => rd lum.toArray (row * w + x)) xs =
        match mapME (fun x => (match (rowOf lum w row)[x]? with | some v => Except.ok v | none => Except.error oob : Res Nat)) xs with
        | .ok ps => .ok ps
        | .error _ => .error (.panic "luminances index out of range") := by
    intro xs
    induction xs with
    | nil => intro _; rfl
    | cons x xs ih =>
      intro hx
      have ih' := ih (fun y hy => hx y (List.mem_cons_of_mem _ hy))
      simp only [mapME, rd, List.getElem?_toArray] at ih' ⊢
      rw [rowOf_getElem? lum w row x (hx x List.mem_cons_self)]
      cases lum[row * w + x]? with
      | none => rfl
      | some v =>
        simp only []
        rw [ih']
        cases mapME _ xs <;> rfl
  apply key
  intro x hx
  simp [List.mem_range'_1] at hx
  omega

/-- **the sampling loops, mirror to model**: on a whole-image source the four sampled rows fill the histogram of
    `Binarizer.samples` (or the read panics where the model's read fails) -/
theorem sampleW_agrees (lum : List Nat) (w h : Nat) :
    sampleW (rowOf lum w) w h (histogram []) =
      match samples lum.toArray w h with
      | .ok ps => .ok (histogram ps)
      | .error _ => .error oob := by
  unfold sampleW samples
  have key : ∀ (ys : List Nat) (ps0 : List Nat),
      ys.foldlM (sampleRowW (rowOf lum w) w h) (histogram ps0) =
        match mapME (sampleRowAt lum.toArray w h) ys with
        | .ok rows => .ok (histogram (ps0 ++ rows.flatten))
        | .error _ => .error oob := by
    intro ys
    induction ys with
    | nil => intro ps0; simp [mapME, pure, Except.pure]
    | cons y ys ih =>
      intro ps0
      simp only [List.foldlM, mapME, sampleRowAt, sampleRowW, bind, Except.bind]
      rw [foldlM_hist_list, sampleRow_rowOf]
      cases mapME _ (List.range' (w / 5) (w * 4 / 5 - w / 5)) with
      | error e => rfl
      | ok ps =>
        simp only []
        rw [ih (ps0 ++ ps)]
        cases mapME _ ys with
        | error e => rfl
        | ok rows => simp
  have := key [1, 2, 3, 4] []
  simp only [List.nil_append] at this
  rw [show List.range' 1 4 = [1, 2, 3, 4] from rfl, this]
  cases mapME (sampleRowAt lum.toArray w h) [1, 2, 3, 4] <;> rfl

end Gzx.K17b
