/-
  Lemmas for `Obligations/K17c.lean` (work package kfinish): the block loops of the hybrid binariser.  Mirrors on the word slice
  and their agreement with `Binarizer.hybridBlocks`; nothing here mentions a generated definition.
-/
import Gzx.Proofs.K17b
namespace Gzx.K17c
open Gzx Gzx.GoM Gzx.Bits Gzx.Binarizer Gzx.K17 Gzx.K17b

/-! ### sequences of scans -/

/-- scans performed one after the other agree with the concatenated `Set` lists -/
theorem scanAgrees_fold {β : Type} (rs : Nat) (f : List Nat → β → Res (List Nat)) (g : β → Res (List (Nat × Nat)))
    (hfg : ∀ ws b, ScanAgrees rs ws (f ws b) (g b)) :
    ∀ (l : List β) (ws : List Nat),
      ScanAgrees rs ws (l.foldlM f ws) (match mapME g l with | .ok ls => .ok ls.flatten | .error e => .error e) := by
  intro l
  induction l with
  | nil => intro ws; simp [mapME, ScanAgrees, applySets, pure, Except.pure]
  | cons b l ih =>
    intro ws
    simp only [List.foldlM, mapME, bind, Except.bind]
    have h1 := hfg ws b
    cases hg : g b with
    | error e =>
      rw [hg] at h1
      obtain ⟨e', he'⟩ := h1
      rw [he']
      exact ⟨e', rfl⟩
    | ok l1 =>
      rw [hg] at h1
      simp only [ScanAgrees] at h1
      rw [h1]
      cases hs : applySets rs ws l1 with
      | error e =>
        simp only []
        cases mapME g l with
        | error e' => exact ⟨e, rfl⟩
        | ok ls =>
          simp only [ScanAgrees, List.flatten_cons, applySets_append, hs]
          rfl
      | ok ws' =>
        simp only []
        have h2 := ih ws'
        cases hm : mapME g l with
        | error e' => rw [hm] at h2; exact h2
        | ok ls =>
          rw [hm] at h2
          simp only [ScanAgrees] at h2 ⊢
          rw [h2, List.flatten_cons, applySets_append, hs]
          rfl

/-! ### the 5x5 average of `calculateThresholdForBlock` -/

/-- the sum of the 25 black points around `(left, top)`, rows `top-2 … top+2` in order -/
def thrSum (bps : List (List Nat)) (top left : Nat) : Res Nat :=
  if top < 2 then .error (.panic "blackPoints[top-2]")
  else
    match mapME (rowSum5 bps left) [top - 2, top - 1, top, top + 1, top + 2] with
    | .error e => .error e
    | .ok sums => .ok (sums.foldl (· + ·) 0)

theorem blockThreshold_eq (bps : List (List Nat)) (subW subH x y : Nat) :
    blockThreshold bps subW subH x y = (thrSum bps (cap y 2 (subH - 3)) (cap x 2 (subW - 3))).map (· / 25) := by
  unfold blockThreshold thrSum
  by_cases h : cap y 2 (subH - 3) < 2
  · simp [h, Except.map]
  · simp only [h, if_false]
    cases mapME (rowSum5 bps (cap x 2 (subW - 3))) _ <;> rfl

theorem five_rows (top : Nat) (h : ¬ top < 2) : [top - 2, top - 1, top, top + 1, top + 2] = List.range' (top - 2) 5 := by
  simp only [List.range'_succ, List.range'_zero]
  have e1 : top - 2 + 1 = top - 1 := by omega
  have e2 : top - 2 + 1 + 1 = top := by omega
  have e3 : top - 2 + 1 + 1 + 1 = top + 1 := by omega
  have e4 : top - 2 + 1 + 1 + 1 + 1 = top + 2 := by omega
  rw [e4, e3, e2, e1]

/-! ### the mirror of `calculateThresholdForBlock` -/

/-- one block: the clamped 5x5 average, then the 8x8 scan at the clamped pixel offset -/
def hybBlockW (lum : List Nat) (w h : Nat) (bps : List (List Nat)) (subW subH rs y : Nat) (ws : List Nat) (x : Nat) :
    Res (List Nat) :=
  match blockThreshold bps subW subH x y with
  | .error _ => .error oob
  | .ok thr => rectW lum w (blockOffset x w) (blockOffset y h) 8 8 (fun p => decide (p ≤ thr)) rs ws

def hybRowW (lum : List Nat) (w h : Nat) (bps : List (List Nat)) (subW subH rs : Nat) (ws : List Nat) (y : Nat) : Res (List Nat) :=
  (List.range' 0 subW).foldlM (hybBlockW lum w h bps subW subH rs y) ws

def hybW (lum : List Nat) (w h : Nat) (bps : List (List Nat)) (subW subH rs : Nat) (ws : List Nat) : Res (List Nat) :=
  (List.range' 0 subH).foldlM (hybRowW lum w h bps subW subH rs) ws

theorem hybBlockW_agrees (lum : List Nat) (w h : Nat) (bps : List (List Nat)) (rs y : Nat) (ws : List Nat) (x : Nat) :
    ScanAgrees rs ws (hybBlockW lum w h bps (subDim w) (subDim h) rs y ws x) (hybridBlock lum.toArray w h bps x y) := by
  unfold hybBlockW hybridBlock
  cases blockThreshold bps (subDim w) (subDim h) x y with
  | error e => exact ⟨oob, rfl⟩
  | ok thr => exact rectW_agrees lum w _ _ 8 8 _ rs ws

/-- **calculateThresholdForBlock, mirror to model**: the same `Set` calls as `Binarizer.hybridBlocks`, block by block -/
theorem hybW_agrees (lum : List Nat) (w h : Nat) (bps : List (List Nat)) (rs : Nat) (ws : List Nat) :
    ScanAgrees rs ws (hybW lum w h bps (subDim w) (subDim h) rs ws) (hybridBlocks lum.toArray w h bps) := by
  unfold hybW hybridBlocks
  rw [List.range_eq_range']
  have hrow : ∀ ws y, ScanAgrees rs ws (hybRowW lum w h bps (subDim w) (subDim h) rs ws y) (hybridRow lum.toArray w h bps y) := by
    intro ws y
    unfold hybRowW hybridRow
    rw [List.range_eq_range']
    have := scanAgrees_fold rs (hybBlockW lum w h bps (subDim w) (subDim h) rs y)
      (fun x => hybridBlock lum.toArray w h bps x y) (fun ws x => hybBlockW_agrees lum w h bps rs y ws x)
      (List.range' 0 (subDim w)) ws
    cases hm : mapME (fun x => hybridBlock lum.toArray w h bps x y) (List.range' 0 (subDim w)) with
    | error e => rw [hm] at this; exact this
    | ok ls => rw [hm] at this; exact this
  have := scanAgrees_fold rs (hybRowW lum w h bps (subDim w) (subDim h) rs) (hybridRow lum.toArray w h bps) hrow
    (List.range' 0 (subDim h)) ws
  cases hm : mapME (hybridRow lum.toArray w h bps) (List.range' 0 (subDim h)) with
  | error e => rw [hm] at this; exact this
  | ok ls => rw [hm] at this; exact this

end Gzx.K17c
