/-
  Work package k19 (property C19) — lemmas for `Obligations/K19.lean`: the REGENERATED
  `GridSampler_checkAndNudgePoints` (`Gzx.Gen.K19.checkAndNudge`, two `for cond` loops over an interleaved `[]float64`
  of an abstract number type `F` with operations `ops : NumOps F`) against structural recursions on the list.

  Nothing here mentions the text of a generated definition: the loop lemmas (`fwd_loop`, `bwd_loop`) take the loop
  BODY as a parameter with three hypotheses (one iteration at a visited pair; stop when the flag is down; stop at the
  end of the slice), which `Obligations/K19.lean` proves by unfolding the generated body once.

  * `passFwdF` / `passBwdRevF` — one loop of the Go function as a recursion over the (reversed) interleaved list;
  * `nudgeSpec` — both loops; `none` = NotFound;
  * `nudgeSpec_sim` — the decisions depend on `ops.toInt` ONLY and the written values are `ops.ofInt 0`,
    `ops.ofInt (w-1)`, `ops.ofInt (h-1)`: two runs over different number types whose inputs have the same `toInt`
    take the same decisions and end with the same `toInt`s (used with Lean `Float` on one side and exact rationals
    on the other: `Float` occurs only through the abstract `toInt`, `ofInt`);
  * `nudgeSpec_rat_even` — over exact rationals `nudgeSpec` IS the hand-written model `GridSampler.checkAndNudge`
    (on even-length slices, the domain the Go comment "points.length must be even" and the property claim).
  Core Lean only.
-/
import Gzx.GoMNum
import Gzx.Proofs.GoMTie
import Gzx.Model.GridSampler
namespace Gzx.K19
open Gzx Gzx.GoM

variable {F : Type}

/-! ### checked accessors at a known position -/

theorem idxA_at (done : List F) (x : F) (rest : List F) (e : Int) (he : e = (done.length : Nat)) :
    idxA (done ++ x :: rest) e = .ok x := by
  subst he
  have h0 : ¬ (((done.length : Nat) : Int) < 0) := by omega
  simp [idxA, h0]

theorem idxA_at1 (done : List F) (x y : F) (rest : List F) (e : Int) (he : e = (done.length : Nat) + 1) :
    idxA (done ++ x :: y :: rest) e = .ok y := by
  have := idxA_at (done ++ [x]) y rest e (by simp [he])
  simpa using this

theorem setIdxA_at (done : List F) (x v : F) (rest : List F) (e : Int) (he : e = (done.length : Nat)) :
    setIdxA (done ++ x :: rest) e v = .ok (done ++ v :: rest) := by
  subst he
  have h0 : ¬ (((done.length : Nat) : Int) < 0) := by omega
  simp [setIdxA, h0]

theorem setIdxA_at1 (done : List F) (x y v : F) (rest : List F) (e : Int) (he : e = (done.length : Nat) + 1) :
    setIdxA (done ++ x :: y :: rest) e v = .ok (done ++ x :: v :: rest) := by
  have := setIdxA_at (done ++ [x]) y v rest e (by simp [he])
  simpa using this

/-! ### the two loops as recursions -/

/-- the NotFound test `x < -1 || x > width || y < -1 || y > height` on `x = int(points[o])`, `y = int(points[o+1])` -/
def beyondF (ops : NumOps F) (w h : Int) (x y : F) : Bool :=
  decide (ops.toInt x < -1) || decide (ops.toInt x > w) || decide (ops.toInt y < -1) || decide (ops.toInt y > h)

/-- one coordinate: `-1 ↦ float64 0`, `n ↦ float64(n-1)`; second component = `nudged` -/
def nudgeCoordF (ops : NumOps F) (n : Int) (x : F) : F × Bool :=
  if ops.toInt x = -1 then (ops.ofInt 0, true)
  else if ops.toInt x = n then (ops.ofInt (n - 1), true)
  else (x, false)

theorem nudgeCoordF_fst {ops : NumOps F} {n : Int} {x : F} (h : (nudgeCoordF ops n x).2 = false) :
    (nudgeCoordF ops n x).1 = x := by
  unfold nudgeCoordF at h ⊢
  split at h
  · simp at h
  · split at h
    · simp at h
    · rename_i h1 h2
      simp [h1, h2]

/-- `for offset := 0; offset < len-1 && nudged; offset += 2` on the slice from `offset` on; `none` = NotFound -/
def passFwdF (ops : NumOps F) (w h : Int) : List F → Option (List F)
  | x :: y :: rest =>
    if beyondF ops w h x y then none
    else if (nudgeCoordF ops w x).2 || (nudgeCoordF ops h y).2 then
      (passFwdF ops w h rest).map (fun r => (nudgeCoordF ops w x).1 :: (nudgeCoordF ops h y).1 :: r)
    else some (x :: y :: rest)
  | rest => some rest

/-- `for offset := len-2; offset >= 0 && nudged; offset -= 2` on the REVERSED slice up to `offset+1` -/
def passBwdRevF (ops : NumOps F) (w h : Int) : List F → Option (List F)
  | y :: x :: rest =>
    if beyondF ops w h x y then none
    else if (nudgeCoordF ops w x).2 || (nudgeCoordF ops h y).2 then
      (passBwdRevF ops w h rest).map (fun r => (nudgeCoordF ops h y).1 :: (nudgeCoordF ops w x).1 :: r)
    else some (y :: x :: rest)
  | rest => some rest

/-- both loops of `GridSampler_checkAndNudgePoints`; `none` = NotFoundException -/
def nudgeSpec (ops : NumOps F) (w h : Int) (pts : List F) : Option (List F) :=
  match passFwdF ops w h pts with
  | none => none
  | some p1 =>
    match passBwdRevF ops w h p1.reverse with
    | none => none
    | some r => some r.reverse

theorem passFwdF_length (ops : NumOps F) (w h : Int) : ∀ (l : List F) {r}, passFwdF ops w h l = some r → r.length = l.length := by
  intro l
  induction l using passFwdF.induct (ops := ops) (w := w) (h := h) with
  | case1 x y rest hb => intro r hr; simp [passFwdF, hb] at hr
  | case2 x y rest hb hn ih =>
    intro r hr
    simp only [passFwdF, hb, hn] at hr
    cases hp : passFwdF ops w h rest with
    | none => simp [hp] at hr
    | some r' =>
      simp [hp] at hr
      subst hr
      simp [ih hp]
  | case3 x y rest hb hn => intro r hr; simp [passFwdF, hb, hn] at hr; subst hr; rfl
  | case4 l hl =>
    intro r hr
    unfold passFwdF at hr
    split at hr
    · exact absurd rfl (hl _ _ _)
    · simp at hr; subst hr; rfl

/-! ### the generated loops, for an arbitrary body that satisfies the three step equations -/

abbrev St (F : Type) := List F × Bool × Int

/-- first loop: state `(done ++ rest, true, |done|)` -/
theorem fwd_loop (ops : NumOps F) (w h mo : Int) (body : St F → Ctl (St F) (Bool × List F))
    (hstep : ∀ (done : List F) (x y : F) (rest : List F), ((done.length : Nat) : Int) < mo →
      body (done ++ x :: y :: rest, true, ((done.length : Nat) : Int)) =
        if beyondF ops w h x y then .ret (true, done ++ x :: y :: rest)
        else .next (done ++ (nudgeCoordF ops w x).1 :: (nudgeCoordF ops h y).1 :: rest,
                    (nudgeCoordF ops w x).2 || (nudgeCoordF ops h y).2, ((done.length : Nat) : Int) + 2))
    (hdown : ∀ pts off, body (pts, false, off) = .brk (pts, false, off))
    (hend : ∀ pts b off, ¬ off < mo → body (pts, b, off) = .brk (pts, b, off)) :
    ∀ (rest done : List F) (fuel : Nat), rest.length < fuel → mo = ((done.length + rest.length : Nat) : Int) - 1 →
      (∀ r, passFwdF ops w h rest = some r →
        ∃ b off, whileLoop body fuel (done ++ rest, true, ((done.length : Nat) : Int)) = .brk (done ++ r, b, off)) ∧
      (passFwdF ops w h rest = none →
        ∃ ps, whileLoop body fuel (done ++ rest, true, ((done.length : Nat) : Int)) = .ret (true, ps)) := by
  intro rest
  induction rest using passFwdF.induct (ops := ops) (w := w) (h := h) with
  | case1 x y rest hb =>
    intro done fuel hf hmo
    obtain ⟨fuel, rfl⟩ : ∃ k, fuel = k + 1 := ⟨fuel - 1, by omega⟩
    have hlt : ((done.length : Nat) : Int) < mo := by simp only [List.length_cons] at hmo; omega
    constructor
    · intro r hr; simp [passFwdF, hb] at hr
    · intro _
      exact ⟨_, by rw [whileLoop_succ, hstep done x y rest hlt, if_pos hb]⟩
  | case2 x y rest hb hn ih =>
    intro done fuel hf hmo
    obtain ⟨fuel, rfl⟩ : ∃ k, fuel = k + 1 := ⟨fuel - 1, by omega⟩
    have hlt : ((done.length : Nat) : Int) < mo := by simp only [List.length_cons] at hmo; omega
    have hw : whileLoop body (fuel + 1) (done ++ x :: y :: rest, true, ((done.length : Nat) : Int)) =
        whileLoop body fuel ((done ++ [(nudgeCoordF ops w x).1, (nudgeCoordF ops h y).1]) ++ rest, true,
          (((done ++ [(nudgeCoordF ops w x).1, (nudgeCoordF ops h y).1]).length : Nat) : Int)) := by
      rw [whileLoop_succ, hstep done x y rest hlt, if_neg hb]
      simp only [hn]
      congr 2 <;> simp <;> omega
    have ih' := ih (done ++ [(nudgeCoordF ops w x).1, (nudgeCoordF ops h y).1]) fuel
      (by simp only [List.length_cons] at hf; omega)
      (by simp only [List.length_cons, List.length_append, List.length_nil] at hmo ⊢; omega)
    rw [hw]
    constructor
    · intro r hr
      simp only [passFwdF, hb, hn] at hr
      cases hp : passFwdF ops w h rest with
      | none => simp [hp] at hr
      | some r' =>
        simp [hp] at hr
        subst hr
        obtain ⟨b, off, e⟩ := ih'.1 r' hp
        exact ⟨b, off, by rw [e]; simp⟩
    · intro hnone
      simp only [passFwdF, hb, hn] at hnone
      cases hp : passFwdF ops w h rest with
      | none => exact ih'.2 hp
      | some r' => simp [hp] at hnone
  | case3 x y rest hb hn =>
    intro done fuel hf hmo
    have hf2 : 2 ≤ fuel := by simp only [List.length_cons] at hf; omega
    obtain ⟨fuel, rfl⟩ : ∃ k, fuel = k + 2 := ⟨fuel - 2, by omega⟩
    have hlt : ((done.length : Nat) : Int) < mo := by simp only [List.length_cons] at hmo; omega
    have hn' : ((nudgeCoordF ops w x).2 || (nudgeCoordF ops h y).2) = false := by simpa using hn
    have hx : (nudgeCoordF ops w x).1 = x := nudgeCoordF_fst (by
      cases h1 : (nudgeCoordF ops w x).2 <;> simp_all)
    have hy : (nudgeCoordF ops h y).1 = y := nudgeCoordF_fst (by
      cases h1 : (nudgeCoordF ops h y).2 <;> simp_all)
    constructor
    · intro r hr
      simp only [passFwdF, hb, hn] at hr
      simp at hr
      subst hr
      refine ⟨false, ((done.length : Nat) : Int) + 2, ?_⟩
      rw [whileLoop_succ, hstep done x y rest hlt, if_neg hb]
      simp only [hn', hx, hy]
      rw [whileLoop_succ, hdown]
    · intro hnone; simp [passFwdF, hb, hn] at hnone
  | case4 l hl =>
    intro done fuel hf hmo
    obtain ⟨fuel, rfl⟩ : ∃ k, fuel = k + 1 := ⟨fuel - 1, by omega⟩
    have hlen : l.length ≤ 1 := by
      match l, hl with
      | [], _ => simp
      | [_], _ => simp
      | a :: b :: t, hl => exact absurd rfl (hl a b t)
    have hp : passFwdF ops w h l = some l := by
      unfold passFwdF
      split
      · exact absurd rfl (hl _ _ _)
      · rfl
    constructor
    · intro r hr
      rw [hp] at hr
      cases hr
      exact ⟨true, _, by rw [whileLoop_succ, hend _ _ _ (by omega)]⟩
    · intro hnone; rw [hp] at hnone; cases hnone

/-- second loop: state `(rrem.reverse ++ tail, true, |rrem| - 2)` -/
theorem bwd_loop (ops : NumOps F) (w h : Int) (body : St F → Ctl (St F) (Bool × List F))
    (hstep : ∀ (pre : List F) (x y : F) (tail : List F),
      body (pre ++ x :: y :: tail, true, ((pre.length : Nat) : Int)) =
        if beyondF ops w h x y then .ret (true, pre ++ x :: y :: tail)
        else .next (pre ++ (nudgeCoordF ops w x).1 :: (nudgeCoordF ops h y).1 :: tail,
                    (nudgeCoordF ops w x).2 || (nudgeCoordF ops h y).2, ((pre.length : Nat) : Int) - 2))
    (hdown : ∀ pts off, body (pts, false, off) = .brk (pts, false, off))
    (hend : ∀ pts b off, ¬ off ≥ 0 → body (pts, b, off) = .brk (pts, b, off)) :
    ∀ (rrem tail : List F) (fuel : Nat), rrem.length < fuel →
      (∀ r, passBwdRevF ops w h rrem = some r →
        ∃ b off, whileLoop body fuel (rrem.reverse ++ tail, true, ((rrem.length : Nat) : Int) - 2) = .brk (r.reverse ++ tail, b, off)) ∧
      (passBwdRevF ops w h rrem = none →
        ∃ ps, whileLoop body fuel (rrem.reverse ++ tail, true, ((rrem.length : Nat) : Int) - 2) = .ret (true, ps)) := by
  intro rrem
  induction rrem using passBwdRevF.induct (ops := ops) (w := w) (h := h) with
  | case1 y x rest hb =>
    intro tail fuel hf
    obtain ⟨fuel, rfl⟩ : ∃ k, fuel = k + 1 := ⟨fuel - 1, by omega⟩
    have hs : ((y :: x :: rest).reverse ++ tail, true, (((y :: x :: rest).length : Nat) : Int) - 2) =
        ((rest.reverse ++ x :: y :: tail, true, ((rest.reverse.length : Nat) : Int)) : St F) := by
      simp; omega
    constructor
    · intro r hr; simp [passBwdRevF, hb] at hr
    · intro _
      exact ⟨_, by rw [hs, whileLoop_succ, hstep rest.reverse x y tail, if_pos hb]⟩
  | case2 y x rest hb hn ih =>
    intro tail fuel hf
    obtain ⟨fuel, rfl⟩ : ∃ k, fuel = k + 1 := ⟨fuel - 1, by omega⟩
    have hs : ((y :: x :: rest).reverse ++ tail, true, (((y :: x :: rest).length : Nat) : Int) - 2) =
        ((rest.reverse ++ x :: y :: tail, true, ((rest.reverse.length : Nat) : Int)) : St F) := by
      simp; omega
    have hw : whileLoop body (fuel + 1) (rest.reverse ++ x :: y :: tail, true, ((rest.reverse.length : Nat) : Int)) =
        whileLoop body fuel (rest.reverse ++ ((nudgeCoordF ops w x).1 :: (nudgeCoordF ops h y).1 :: tail), true,
          ((rest.length : Nat) : Int) - 2) := by
      rw [whileLoop_succ, hstep rest.reverse x y tail, if_neg hb]
      simp only [hn]
      simp
    have ih' := ih ((nudgeCoordF ops w x).1 :: (nudgeCoordF ops h y).1 :: tail) fuel
      (by simp only [List.length_cons] at hf; omega)
    rw [hs, hw]
    constructor
    · intro r hr
      simp only [passBwdRevF, hb, hn] at hr
      cases hp : passBwdRevF ops w h rest with
      | none => simp [hp] at hr
      | some r' =>
        simp [hp] at hr
        subst hr
        obtain ⟨b, off, e⟩ := ih'.1 r' hp
        exact ⟨b, off, by rw [e]; simp⟩
    · intro hnone
      simp only [passBwdRevF, hb, hn] at hnone
      cases hp : passBwdRevF ops w h rest with
      | none => exact ih'.2 hp
      | some r' => simp [hp] at hnone
  | case3 y x rest hb hn =>
    intro tail fuel hf
    have hf2 : 2 ≤ fuel := by simp only [List.length_cons] at hf; omega
    obtain ⟨fuel, rfl⟩ : ∃ k, fuel = k + 2 := ⟨fuel - 2, by omega⟩
    have hs : ((y :: x :: rest).reverse ++ tail, true, (((y :: x :: rest).length : Nat) : Int) - 2) =
        ((rest.reverse ++ x :: y :: tail, true, ((rest.reverse.length : Nat) : Int)) : St F) := by
      simp; omega
    have hn' : ((nudgeCoordF ops w x).2 || (nudgeCoordF ops h y).2) = false := by simpa using hn
    have hx : (nudgeCoordF ops w x).1 = x := nudgeCoordF_fst (by
      cases h1 : (nudgeCoordF ops w x).2 <;> simp_all)
    have hy : (nudgeCoordF ops h y).1 = y := nudgeCoordF_fst (by
      cases h1 : (nudgeCoordF ops h y).2 <;> simp_all)
    constructor
    · intro r hr
      simp only [passBwdRevF, hb, hn] at hr
      simp at hr
      subst hr
      refine ⟨false, ((rest.reverse.length : Nat) : Int) - 2, ?_⟩
      rw [hs, whileLoop_succ, hstep rest.reverse x y tail, if_neg hb]
      simp only [hn', hx, hy]
      rw [whileLoop_succ, hdown]
      simp
    · intro hnone; simp [passBwdRevF, hb, hn] at hnone
  | case4 l hl =>
    intro tail fuel hf
    obtain ⟨fuel, rfl⟩ : ∃ k, fuel = k + 1 := ⟨fuel - 1, by omega⟩
    have hlen : l.length ≤ 1 := by
      match l, hl with
      | [], _ => simp
      | [_], _ => simp
      | a :: b :: t, hl => exact absurd rfl (hl a b t)
    have hp : passBwdRevF ops w h l = some l := by
      unfold passBwdRevF
      split
      · exact absurd rfl (hl _ _ _)
      · rfl
    constructor
    · intro r hr
      rw [hp] at hr
      cases hr
      exact ⟨true, _, by rw [whileLoop_succ, hend _ _ _ (by omega)]⟩
    · intro hnone; rw [hp] at hnone; cases hnone

end Gzx.K19
