/-
  Work package k19 (property C19) — lemmas for `Obligations/K19.lean`: the REGENERATED
  `GridSampler_checkAndNudgePoints` (`Gzx.Gen.K19.checkAndNudge`, two `for cond` loops over an interleaved `[]float64`
  of an abstract number type `F` with operations `ops : NumOps F`) against structural recursions on the list.

  Nothing here mentions the text of a generated definition: the loop lemmas (`fwd_loop`, `bwd_loop`) take the loop
  BODY as a parameter with three hypotheses (one iteration at a visited pair; stop when the flag is down; stop at the
  end of the slice), which `Obligations/K19.lean` proves by unfolding the generated body once.

  * `passFwdF` / `passBwdRevF` — one loop of the Go function as a recursion over the (reversed) interleaved list;
  * `nudgeSpec` — both loops; `none` = NotFound;
  * `nudgeSpec_sim` — the decisions depend on `ops.toInt` ONLY and the written values are `ops.ofInt 0`,
    `ops.ofInt (w-1)`, `ops.ofInt (h-1)`: two runs over different number types whose inputs have the same `toInt`
    take the same decisions and end with the same `toInt`s (used with Lean `Float` on one side and exact rationals
    on the other: `Float` occurs only through the abstract `toInt`, `ofInt`);
  * `nudgeSpec_rat_even` — over exact rationals `nudgeSpec` IS the hand-written model `GridSampler.checkAndNudge`
    (on even-length slices, the domain the Go comment "points.length must be even" and the property claim);
    `nudgeSpec_rat` — and `GridSampler.checkAndNudgePoints` on EVERY slice (odd lengths as coded).
  Core Lean only.
-/
import Gzx.GoMNum
import Gzx.Proofs.GoMTie
import Gzx.Model.GridSampler
namespace Gzx.K19
open Gzx Gzx.GoM

variable {F : Type}

/-! ### checked accessors at a known position -/

theorem idxA_at (done : List F) (x : F) (rest : List F) (e : Int) (he : e = (done.length : Nat)) :
    idxA (done ++ x :: rest) e = .ok x := by
  subst he
  have h0 : ¬ (((done.length : Nat) : Int) < 0) := by omega
  simp [idxA, h0]

theorem idxA_at1 (done : List F) (x y : F) (rest : List F) (e : Int) (he : e = (done.length : Nat) + 1) :
    idxA (done ++ x :: y :: rest) e = .ok y := by
  have := idxA_at (done ++ [x]) y rest e (by simp [he])
  simpa using this

theorem setIdxA_at (done : List F) (x v : F) (rest : List F) (e : Int) (he : e = (done.length : Nat)) :
    setIdxA (done ++ x :: rest) e v = .ok (done ++ v :: rest) := by
  subst he
  have h0 : ¬ (((done.length : Nat) : Int) < 0) := by omega
  simp [setIdxA, h0]

theorem setIdxA_at1 (done : List F) (x y v : F) (rest : List F) (e : Int) (he : e = (done.length : Nat) + 1) :
    setIdxA (done ++ x :: y :: rest) e v = .ok (done ++ x :: v :: rest) := by
  have := setIdxA_at (done ++ [x]) y v rest e (by simp [he])
  simpa using this

/-! ### the two loops as recursions -/

/-- the NotFound test `x < -1 || x > width || y < -1 || y > height` on `x = int(points[o])`, `y = int(points[o+1])` -/
def beyondF (ops : NumOps F) (w h : Int) (x y : F) : Bool :=
  decide (ops.toInt x < -1) || decide (ops.toInt x > w) || decide (ops.toInt y < -1) || decide (ops.toInt y > h)

/-- one coordinate: `-1 ↦ float64 0`, `n ↦ float64(n-1)`; second component = `nudged` -/
def nudgeCoordF (ops : NumOps F) (n : Int) (x : F) : F × Bool :=
  if ops.toInt x = -1 then (ops.ofInt 0, true)
  else if ops.toInt x = n then (ops.ofInt (n - 1), true)
  else (x, false)

theorem nudgeCoordF_fst {ops : NumOps F} {n : Int} {x : F} (h : (nudgeCoordF ops n x).2 = false) :
    (nudgeCoordF ops n x).1 = x := by
  unfold nudgeCoordF at h ⊢
  split at h
  · simp at h
  · split at h
    · simp at h
    · rename_i h1 h2
      simp [h1, h2]

/-- `for offset := 0; offset < len-1 && nudged; offset += 2` on the slice from `offset` on; `none` = NotFound -/
def passFwdF (ops : NumOps F) (w h : Int) : List F → Option (List F)
  | x :: y :: rest =>
    if beyondF ops w h x y then none
    else if (nudgeCoordF ops w x).2 || (nudgeCoordF ops h y).2 then
      (passFwdF ops w h rest).map (fun r => (nudgeCoordF ops w x).1 :: (nudgeCoordF ops h y).1 :: r)
    else some (x :: y :: rest)
  | rest => some rest

/-- `for offset := len-2; offset >= 0 && nudged; offset -= 2` on the REVERSED slice up to `offset+1` -/
def passBwdRevF (ops : NumOps F) (w h : Int) : List F → Option (List F)
  | y :: x :: rest =>
    if beyondF ops w h x y then none
    else if (nudgeCoordF ops w x).2 || (nudgeCoordF ops h y).2 then
      (passBwdRevF ops w h rest).map (fun r => (nudgeCoordF ops h y).1 :: (nudgeCoordF ops w x).1 :: r)
    else some (y :: x :: rest)
  | rest => some rest

/-- both loops of `GridSampler_checkAndNudgePoints`; `none` = NotFoundException -/
def nudgeSpec (ops : NumOps F) (w h : Int) (pts : List F) : Option (List F) :=
  match passFwdF ops w h pts with
  | none => none
  | some p1 =>
    match passBwdRevF ops w h p1.reverse with
    | none => none
    | some r => some r.reverse

theorem passFwdF_length (ops : NumOps F) (w h : Int) : ∀ (l : List F) {r}, passFwdF ops w h l = some r → r.length = l.length := by
  intro l
  induction l using passFwdF.induct (ops := ops) (w := w) (h := h) with
  | case1 x y rest hb => intro r hr; simp [passFwdF, hb] at hr
  | case2 x y rest hb hn ih =>
    intro r hr
    simp only [passFwdF, hb, hn] at hr
    cases hp : passFwdF ops w h rest with
    | none => simp [hp] at hr
    | some r' =>
      simp [hp] at hr
      subst hr
      simp [ih hp]
  | case3 x y rest hb hn => intro r hr; simp [passFwdF, hb, hn] at hr; subst hr; rfl
  | case4 l hl =>
    intro r hr
    unfold passFwdF at hr
    split at hr
    · exact absurd rfl (hl _ _ _)
    · simp at hr; subst hr; rfl

/-! ### the generated loops, for an arbitrary body that satisfies the three step equations -/

abbrev St (F : Type) := List F × Bool × Int

/-- first loop: state `(done ++ rest, true, |done|)` -/
theorem fwd_loop (ops : NumOps F) (w h mo : Int) (body : St F → Ctl (St F) (Bool × List F))
    (hstep : ∀ (done : List F) (x y : F) (rest : List F), ((done.length : Nat) : Int) < mo →
      body (done ++ x :: y :: rest, true, ((done.length : Nat) : Int)) =
        if beyondF ops w h x y then .ret (true, done ++ x :: y :: rest)
        else .next (done ++ (nudgeCoordF ops w x).1 :: (nudgeCoordF ops h y).1 :: rest,
                    (nudgeCoordF ops w x).2 || (nudgeCoordF ops h y).2, ((done.length : Nat) : Int) + 2))
    (hdown : ∀ pts off, body (pts, false, off) = .brk (pts, false, off))
    (hend : ∀ pts b off, ¬ off < mo → body (pts, b, off) = .brk (pts, b, off)) :
    ∀ (rest done : List F) (fuel : Nat), rest.length < fuel → mo = ((done.length + rest.length : Nat) : Int) - 1 →
      (∀ r, passFwdF ops w h rest = some r →
        ∃ b off, whileLoop body fuel (done ++ rest, true, ((done.length : Nat) : Int)) = .brk (done ++ r, b, off)) ∧
      (passFwdF ops w h rest = none →
        ∃ ps, whileLoop body fuel (done ++ rest, true, ((done.length : Nat) : Int)) = .ret (true, ps)) := by
  intro rest
  induction rest using passFwdF.induct (ops := ops) (w := w) (h := h) with
  | case1 x y rest hb =>
    intro done fuel hf hmo
    obtain ⟨fuel, rfl⟩ : ∃ k, fuel = k + 1 := ⟨fuel - 1, by omega⟩
    have hlt : ((done.length : Nat) : Int) < mo := by simp only [List.length_cons] at hmo; omega
    constructor
    · intro r hr; simp [passFwdF, hb] at hr
    · intro _
      exact ⟨_, by rw [whileLoop_succ, hstep done x y rest hlt, if_pos hb]⟩
  | case2 x y rest hb hn ih =>
    intro done fuel hf hmo
    obtain ⟨fuel, rfl⟩ : ∃ k, fuel = k + 1 := ⟨fuel - 1, by omega⟩
    have hlt : ((done.length : Nat) : Int) < mo := by simp only [List.length_cons] at hmo; omega
    have hw : whileLoop body (fuel + 1) (done ++ x :: y :: rest, true, ((done.length : Nat) : Int)) =
        whileLoop body fuel ((done ++ [(nudgeCoordF ops w x).1, (nudgeCoordF ops h y).1]) ++ rest, true,
          (((done ++ [(nudgeCoordF ops w x).1, (nudgeCoordF ops h y).1]).length : Nat) : Int)) := by
      rw [whileLoop_succ, hstep done x y rest hlt, if_neg hb]
      simp only [hn]
      congr 2 <;> simp <;> omega
    have ih' := ih (done ++ [(nudgeCoordF ops w x).1, (nudgeCoordF ops h y).1]) fuel
      (by simp only [List.length_cons] at hf; omega)
      (by simp only [List.length_cons, List.length_append, List.length_nil] at hmo ⊢; omega)
    rw [hw]
    constructor
    · intro r hr
      simp only [passFwdF, hb, hn] at hr
      cases hp : passFwdF ops w h rest with
      | none => simp [hp] at hr
      | some r' =>
        simp [hp] at hr
        subst hr
        obtain ⟨b, off, e⟩ := ih'.1 r' hp
        exact ⟨b, off, by rw [e]; simp⟩
    · intro hnone
      simp only [passFwdF, hb, hn] at hnone
      cases hp : passFwdF ops w h rest with
      | none => exact ih'.2 hp
      | some r' => simp [hp] at hnone
  | case3 x y rest hb hn =>
    intro done fuel hf hmo
    have hf2 : 2 ≤ fuel := by simp only [List.length_cons] at hf; omega
    obtain ⟨fuel, rfl⟩ : ∃ k, fuel = k + 2 := ⟨fuel - 2, by omega⟩
    have hlt : ((done.length : Nat) : Int) < mo := by simp only [List.length_cons] at hmo; omega
    have hn' : ((nudgeCoordF ops w x).2 || (nudgeCoordF ops h y).2) = false := by simpa using hn
    have hx : (nudgeCoordF ops w x).1 = x := nudgeCoordF_fst (by
      cases h1 : (nudgeCoordF ops w x).2 <;> simp_all)
    have hy : (nudgeCoordF ops h y).1 = y := nudgeCoordF_fst (by
      cases h1 : (nudgeCoordF ops h y).2 <;> simp_all)
    constructor
    · intro r hr
      simp only [passFwdF, hb, hn] at hr
      simp at hr
      subst hr
      refine ⟨false, ((done.length : Nat) : Int) + 2, ?_⟩
      rw [whileLoop_succ, hstep done x y rest hlt, if_neg hb]
      simp only [hn', hx, hy]
      rw [whileLoop_succ, hdown]
    · intro hnone; simp [passFwdF, hb, hn] at hnone
  | case4 l hl =>
    intro done fuel hf hmo
    obtain ⟨fuel, rfl⟩ : ∃ k, fuel = k + 1 := ⟨fuel - 1, by omega⟩
    have hlen : l.length ≤ 1 := by
      match l, hl with
      | [], _ => simp
      | [_], _ => simp
      | a :: b :: t, hl => exact absurd rfl (hl a b t)
    have hp : passFwdF ops w h l = some l := by
      unfold passFwdF
      split
      · exact absurd rfl (hl _ _ _)
      · rfl
    constructor
    · intro r hr
      rw [hp] at hr
      cases hr
      exact ⟨true, _, by rw [whileLoop_succ, hend _ _ _ (by omega)]⟩
    · intro hnone; rw [hp] at hnone; cases hnone

/-- second loop: state `(rrem.reverse ++ tail, true, |rrem| - 2)` -/
theorem bwd_loop (ops : NumOps F) (w h : Int) (body : St F → Ctl (St F) (Bool × List F))
    (hstep : ∀ (pre : List F) (x y : F) (tail : List F),
      body (pre ++ x :: y :: tail, true, ((pre.length : Nat) : Int)) =
        if beyondF ops w h x y then .ret (true, pre ++ x :: y :: tail)
        else .next (pre ++ (nudgeCoordF ops w x).1 :: (nudgeCoordF ops h y).1 :: tail,
                    (nudgeCoordF ops w x).2 || (nudgeCoordF ops h y).2, ((pre.length : Nat) : Int) - 2))
    (hdown : ∀ pts off, body (pts, false, off) = .brk (pts, false, off))
    (hend : ∀ pts b off, ¬ off ≥ 0 → body (pts, b, off) = .brk (pts, b, off)) :
    ∀ (rrem tail : List F) (fuel : Nat), rrem.length < fuel →
      (∀ r, passBwdRevF ops w h rrem = some r →
        ∃ b off, whileLoop body fuel (rrem.reverse ++ tail, true, ((rrem.length : Nat) : Int) - 2) = .brk (r.reverse ++ tail, b, off)) ∧
      (passBwdRevF ops w h rrem = none →
        ∃ ps, whileLoop body fuel (rrem.reverse ++ tail, true, ((rrem.length : Nat) : Int) - 2) = .ret (true, ps)) := by
  intro rrem
  induction rrem using passBwdRevF.induct (ops := ops) (w := w) (h := h) with
  | case1 y x rest hb =>
    intro tail fuel hf
    obtain ⟨fuel, rfl⟩ : ∃ k, fuel = k + 1 := ⟨fuel - 1, by omega⟩
    have hs : ((y :: x :: rest).reverse ++ tail, true, (((y :: x :: rest).length : Nat) : Int) - 2) =
        ((rest.reverse ++ x :: y :: tail, true, ((rest.reverse.length : Nat) : Int)) : St F) := by
      simp; omega
    constructor
    · intro r hr; simp [passBwdRevF, hb] at hr
    · intro _
      exact ⟨_, by rw [hs, whileLoop_succ, hstep rest.reverse x y tail, if_pos hb]⟩
  | case2 y x rest hb hn ih =>
    intro tail fuel hf
    obtain ⟨fuel, rfl⟩ : ∃ k, fuel = k + 1 := ⟨fuel - 1, by omega⟩
    have hs : ((y :: x :: rest).reverse ++ tail, true, (((y :: x :: rest).length : Nat) : Int) - 2) =
        ((rest.reverse ++ x :: y :: tail, true, ((rest.reverse.length : Nat) : Int)) : St F) := by
      simp; omega
    have hw : whileLoop body (fuel + 1) (rest.reverse ++ x :: y :: tail, true, ((rest.reverse.length : Nat) : Int)) =
        whileLoop body fuel (rest.reverse ++ ((nudgeCoordF ops w x).1 :: (nudgeCoordF ops h y).1 :: tail), true,
          ((rest.length : Nat) : Int) - 2) := by
      rw [whileLoop_succ, hstep rest.reverse x y tail, if_neg hb]
      simp only [hn]
      simp
    have ih' := ih ((nudgeCoordF ops w x).1 :: (nudgeCoordF ops h y).1 :: tail) fuel
      (by simp only [List.length_cons] at hf; omega)
    rw [hs, hw]
    constructor
    · intro r hr
      simp only [passBwdRevF, hb, hn] at hr
      cases hp : passBwdRevF ops w h rest with
      | none => simp [hp] at hr
      | some r' =>
        simp [hp] at hr
        subst hr
        obtain ⟨b, off, e⟩ := ih'.1 r' hp
        exact ⟨b, off, by rw [e]; simp⟩
    · intro hnone
      simp only [passBwdRevF, hb, hn] at hnone
      cases hp : passBwdRevF ops w h rest with
      | none => exact ih'.2 hp
      | some r' => simp [hp] at hnone
  | case3 y x rest hb hn =>
    intro tail fuel hf
    have hf2 : 2 ≤ fuel := by simp only [List.length_cons] at hf; omega
    obtain ⟨fuel, rfl⟩ : ∃ k, fuel = k + 2 := ⟨fuel - 2, by omega⟩
    have hs : ((y :: x :: rest).reverse ++ tail, true, (((y :: x :: rest).length : Nat) : Int) - 2) =
        ((rest.reverse ++ x :: y :: tail, true, ((rest.reverse.length : Nat) : Int)) : St F) := by
      simp; omega
    have hn' : ((nudgeCoordF ops w x).2 || (nudgeCoordF ops h y).2) = false := by simpa using hn
    have hx : (nudgeCoordF ops w x).1 = x := nudgeCoordF_fst (by
      cases h1 : (nudgeCoordF ops w x).2 <;> simp_all)
    have hy : (nudgeCoordF ops h y).1 = y := nudgeCoordF_fst (by
      cases h1 : (nudgeCoordF ops h y).2 <;> simp_all)
    constructor
    · intro r hr
      simp only [passBwdRevF, hb, hn] at hr
      simp at hr
      subst hr
      refine ⟨false, ((rest.reverse.length : Nat) : Int) - 2, ?_⟩
      rw [hs, whileLoop_succ, hstep rest.reverse x y tail, if_neg hb]
      simp only [hn', hx, hy]
      rw [whileLoop_succ, hdown]
      simp
    · intro hnone; simp [passBwdRevF, hb, hn] at hnone
  | case4 l hl =>
    intro tail fuel hf
    obtain ⟨fuel, rfl⟩ : ∃ k, fuel = k + 1 := ⟨fuel - 1, by omega⟩
    have hlen : l.length ≤ 1 := by
      match l, hl with
      | [], _ => simp
      | [_], _ => simp
      | a :: b :: t, hl => exact absurd rfl (hl a b t)
    have hp : passBwdRevF ops w h l = some l := by
      unfold passBwdRevF
      split
      · exact absurd rfl (hl _ _ _)
      · rfl
    constructor
    · intro r hr
      rw [hp] at hr
      cases hr
      exact ⟨true, _, by rw [whileLoop_succ, hend _ _ _ (by omega)]⟩
    · intro hnone; rw [hp] at hnone; cases hnone

/-! ### the decisions depend on `toInt` only -/

section sim
variable {G : Type} (o1 : NumOps F) (o2 : NumOps G)

/-- the two number types agree on the pixel index of the three values the function writes -/
structure WritesAgree (w h : Int) : Prop where
  zero : o1.toInt (o1.ofInt 0) = o2.toInt (o2.ofInt 0)
  wid : o1.toInt (o1.ofInt (w - 1)) = o2.toInt (o2.ofInt (w - 1))
  hei : o1.toInt (o1.ofInt (h - 1)) = o2.toInt (o2.ofInt (h - 1))

theorem beyondF_sim (w h : Int) {x y : F} {x' y' : G} (hx : o1.toInt x = o2.toInt x') (hy : o1.toInt y = o2.toInt y') :
    beyondF o1 w h x y = beyondF o2 w h x' y' := by
  simp [beyondF, hx, hy]

theorem nudgeCoordF_sim (n : Int) (h0 : o1.toInt (o1.ofInt 0) = o2.toInt (o2.ofInt 0))
    (hn : o1.toInt (o1.ofInt (n - 1)) = o2.toInt (o2.ofInt (n - 1))) {x : F} {x' : G} (hx : o1.toInt x = o2.toInt x') :
    (nudgeCoordF o1 n x).2 = (nudgeCoordF o2 n x').2 ∧
      o1.toInt (nudgeCoordF o1 n x).1 = o2.toInt (nudgeCoordF o2 n x').1 := by
  unfold nudgeCoordF
  rw [hx]
  by_cases c1 : o2.toInt x' = -1
  · simp [c1, h0]
  · by_cases c2 : o2.toInt x' = n
    · rw [if_neg c1, if_pos c2, if_neg c1, if_pos c2]; exact ⟨rfl, hn⟩
    · rw [if_neg c1, if_neg c2, if_neg c1, if_neg c2]; exact ⟨rfl, hx⟩

theorem passFwdF_sim (w h : Int) (H : WritesAgree o1 o2 w h) : ∀ (l : List F) (l' : List G),
    l.map o1.toInt = l'.map o2.toInt →
      (passFwdF o1 w h l).map (List.map o1.toInt) = (passFwdF o2 w h l').map (List.map o2.toInt) := by
  intro l
  induction l using passFwdF.induct (ops := o1) (w := w) (h := h) with
  | case1 x y rest hb =>
    intro l' hl
    match l', hl with
    | [_], hl => simp at hl
    | x' :: y' :: rest', hl =>
      simp only [List.map_cons, List.cons.injEq] at hl
      have hb' : beyondF o2 w h x' y' = true := by rw [← beyondF_sim o1 o2 w h hl.1 hl.2.1]; exact hb
      simp [passFwdF, hb, hb']
  | case2 x y rest hb hn ih =>
    intro l' hl
    match l', hl with
    | [_], hl => simp at hl
    | x' :: y' :: rest', hl =>
      simp only [List.map_cons, List.cons.injEq] at hl
      have hb' : ¬ beyondF o2 w h x' y' = true := by rw [← beyondF_sim o1 o2 w h hl.1 hl.2.1]; exact hb
      have cx := nudgeCoordF_sim o1 o2 w H.zero H.wid hl.1
      have cy := nudgeCoordF_sim o1 o2 h H.zero H.hei hl.2.1
      have hn' : ((nudgeCoordF o2 w x').2 || (nudgeCoordF o2 h y').2) = true := by rw [← cx.1, ← cy.1]; exact hn
      have := ih rest' hl.2.2
      simp only [passFwdF, hb, hb', hn, hn', if_true]
      cases h1 : passFwdF o1 w h rest <;> cases h2 : passFwdF o2 w h rest' <;> simp [h1, h2] at this ⊢
      exact ⟨cx.2, cy.2, this⟩
  | case3 x y rest hb hn =>
    intro l' hl
    match l', hl with
    | [_], hl => simp at hl
    | x' :: y' :: rest', hl0 =>
      have hl := hl0
      simp only [List.map_cons, List.cons.injEq] at hl
      have hb' : ¬ beyondF o2 w h x' y' = true := by rw [← beyondF_sim o1 o2 w h hl.1 hl.2.1]; exact hb
      have cx := nudgeCoordF_sim o1 o2 w H.zero H.wid hl.1
      have cy := nudgeCoordF_sim o1 o2 h H.zero H.hei hl.2.1
      have hn' : ¬ ((nudgeCoordF o2 w x').2 || (nudgeCoordF o2 h y').2) = true := by rw [← cx.1, ← cy.1]; exact hn
      simp only [passFwdF, hb, hb', hn, hn']
      exact congrArg some hl0
  | case4 l hl =>
    intro l' hm
    have hp : passFwdF o1 w h l = some l := by
      unfold passFwdF
      split
      · exact absurd rfl (hl _ _ _)
      · rfl
    have hp' : passFwdF o2 w h l' = some l' := by
      unfold passFwdF
      split
      · rename_i a b t
        exfalso
        match l, hl, hm with
        | [], _, hm => simp at hm
        | [_], _, hm => simp at hm
        | a :: b :: t, hl, _ => exact hl a b t rfl
      · rfl
    rw [hp, hp']; simp [hm]

theorem passBwdRevF_sim (w h : Int) (H : WritesAgree o1 o2 w h) : ∀ (l : List F) (l' : List G),
    l.map o1.toInt = l'.map o2.toInt →
      (passBwdRevF o1 w h l).map (List.map o1.toInt) = (passBwdRevF o2 w h l').map (List.map o2.toInt) := by
  intro l
  induction l using passBwdRevF.induct (ops := o1) (w := w) (h := h) with
  | case1 y x rest hb =>
    intro l' hl
    match l', hl with
    | [_], hl => simp at hl
    | y' :: x' :: rest', hl =>
      simp only [List.map_cons, List.cons.injEq] at hl
      have hb' : beyondF o2 w h x' y' = true := by rw [← beyondF_sim o1 o2 w h hl.2.1 hl.1]; exact hb
      simp [passBwdRevF, hb, hb']
  | case2 y x rest hb hn ih =>
    intro l' hl
    match l', hl with
    | [_], hl => simp at hl
    | y' :: x' :: rest', hl =>
      simp only [List.map_cons, List.cons.injEq] at hl
      have hb' : ¬ beyondF o2 w h x' y' = true := by rw [← beyondF_sim o1 o2 w h hl.2.1 hl.1]; exact hb
      have cx := nudgeCoordF_sim o1 o2 w H.zero H.wid hl.2.1
      have cy := nudgeCoordF_sim o1 o2 h H.zero H.hei hl.1
      have hn' : ((nudgeCoordF o2 w x').2 || (nudgeCoordF o2 h y').2) = true := by rw [← cx.1, ← cy.1]; exact hn
      have := ih rest' hl.2.2
      simp only [passBwdRevF, hb, hb', hn, hn', if_true]
      cases h1 : passBwdRevF o1 w h rest <;> cases h2 : passBwdRevF o2 w h rest' <;> simp [h1, h2] at this ⊢
      exact ⟨cy.2, cx.2, this⟩
  | case3 y x rest hb hn =>
    intro l' hl
    match l', hl with
    | [_], hl => simp at hl
    | y' :: x' :: rest', hl0 =>
      have hl := hl0
      simp only [List.map_cons, List.cons.injEq] at hl
      have hb' : ¬ beyondF o2 w h x' y' = true := by rw [← beyondF_sim o1 o2 w h hl.2.1 hl.1]; exact hb
      have cx := nudgeCoordF_sim o1 o2 w H.zero H.wid hl.2.1
      have cy := nudgeCoordF_sim o1 o2 h H.zero H.hei hl.1
      have hn' : ¬ ((nudgeCoordF o2 w x').2 || (nudgeCoordF o2 h y').2) = true := by rw [← cx.1, ← cy.1]; exact hn
      simp only [passBwdRevF, hb, hb', hn, hn']
      exact congrArg some hl0
  | case4 l hl =>
    intro l' hm
    have hp : passBwdRevF o1 w h l = some l := by
      unfold passBwdRevF
      split
      · exact absurd rfl (hl _ _ _)
      · rfl
    have hp' : passBwdRevF o2 w h l' = some l' := by
      unfold passBwdRevF
      split
      · rename_i a b t
        exfalso
        match l, hl, hm with
        | [], _, hm => simp at hm
        | [_], _, hm => simp at hm
        | a :: b :: t, hl, _ => exact hl a b t rfl
      · rfl
    rw [hp, hp']; simp [hm]

/-- **The decisions depend on `int(x)` only.**  Two runs over different number types whose inputs have the same pixel
    indices either both answer NotFound or both succeed with slices that have the same pixel indices again. -/
theorem nudgeSpec_sim (w h : Int) (H : WritesAgree o1 o2 w h) (l : List F) (l' : List G)
    (hl : l.map o1.toInt = l'.map o2.toInt) :
    (nudgeSpec o1 w h l).map (List.map o1.toInt) = (nudgeSpec o2 w h l').map (List.map o2.toInt) := by
  have h1 := passFwdF_sim o1 o2 w h H l l' hl
  unfold nudgeSpec
  cases e1 : passFwdF o1 w h l <;> cases e2 : passFwdF o2 w h l' <;> simp [e1, e2] at h1 ⊢
  rename_i p1 p2
  have h2 := passBwdRevF_sim o1 o2 w h H p1.reverse p2.reverse (by simp [h1])
  cases e3 : passBwdRevF o1 w h p1.reverse <;> cases e4 : passBwdRevF o2 w h p2.reverse <;> simp [e3, e4] at h2 ⊢
  simp [h2]

end sim

/-! ### over exact rationals the specification is the hand-written model -/

section rat
open Gzx.GridSampler

theorem beyondF_rat (w h : Int) (p : Pt) : beyondF ratOps w h p.1 p.2 = beyond w h p := by
  rfl

theorem nudgeCoordF_rat (n : Int) (x : Rat) : nudgeCoordF ratOps n x = nudgeCoord n (n - 1) x := by
  unfold nudgeCoordF nudgeCoord
  simp [ratOps, truncRat, trunc]

/-- a list of points as the reversed interleaved slice `…, y1, x1, y0, x0` read from the end -/
def revPairs : List Pt → List Rat
  | [] => []
  | p :: ps => p.2 :: p.1 :: revPairs ps

theorem revPairs_append (a b : List Pt) : revPairs (a ++ b) = revPairs a ++ revPairs b := by
  induction a with
  | nil => rfl
  | cons p a ih => simp [revPairs, ih]

theorem fromPairs_reverse (qs : List Pt) : (fromPairs qs).reverse = revPairs qs.reverse := by
  induction qs with
  | nil => rfl
  | cons p qs ih => simp [fromPairs, revPairs_append, revPairs, ih]

/-- `Res` of the model as the `Option` of the specification -/
def optOf : Res (List Pt) → (List Pt → List Rat) → Option (List Rat)
  | .ok r, f => some (f r)
  | .error _, _ => none

theorem passFwdF_rat (w h : Int) : ∀ ps : List Pt, passFwdF ratOps w h (fromPairs ps) = optOf (nudgePass w h ps) fromPairs := by
  intro ps
  induction ps with
  | nil => rfl
  | cons p ps ih =>
    simp only [fromPairs, passFwdF, nudgePass, nudgePassG, beyondF_rat, nudgeCoordF_rat]
    by_cases hb : beyond w h p = true
    · simp [hb, optOf]
    · simp only [hb, if_false, Bool.false_eq_true]
      by_cases hn : ((nudgeCoord w (w - 1) p.1).2 || (nudgeCoord h (h - 1) p.2).2) = true
      · simp only [hn, if_true]
        rw [ih]
        unfold nudgePass
        cases nudgePassG w h (h - 1) ps <;> simp [optOf, fromPairs]
      · simp only [hn, if_false, Bool.false_eq_true]
        simp [optOf, fromPairs]

theorem passBwdRevF_rat (w h : Int) : ∀ qs : List Pt, passBwdRevF ratOps w h (revPairs qs) = optOf (nudgePass w h qs) revPairs := by
  intro ps
  induction ps with
  | nil => rfl
  | cons p ps ih =>
    simp only [revPairs, passBwdRevF, nudgePass, nudgePassG, beyondF_rat, nudgeCoordF_rat]
    by_cases hb : beyond w h p = true
    · simp [hb, optOf]
    · simp only [hb, if_false, Bool.false_eq_true]
      by_cases hn : ((nudgeCoord w (w - 1) p.1).2 || (nudgeCoord h (h - 1) p.2).2) = true
      · simp only [hn, if_true]
        rw [ih]
        unfold nudgePass
        cases nudgePassG w h (h - 1) ps <;> simp [optOf, revPairs]
      · simp only [hn, if_false, Bool.false_eq_true]
        simp [optOf, revPairs]

/-- **Over exact rationals the specification is the model**: on an even-length slice (the points `ps` interleaved)
    `nudgeSpec` is `GridSampler.checkAndNudge` — the function that `nudge_symmetric`, `nudge_rejects_beyond`,
    `nudge_accepts_within` … of Properties/C19.lean are about. -/
theorem nudgeSpec_rat_even (w h : Int) (ps : List Pt) :
    nudgeSpec ratOps w h (fromPairs ps) = optOf (checkAndNudge w h ps) fromPairs := by
  unfold nudgeSpec checkAndNudge
  rw [passFwdF_rat]
  cases h1 : nudgePass w h ps with
  | error e => rfl
  | ok ps1 =>
    simp only [optOf]
    rw [fromPairs_reverse, passBwdRevF_rat]
    cases h2 : nudgePass w h ps1.reverse with
    | error e => rfl
    | ok ps2 =>
      simp only [optOf]
      have := fromPairs_reverse ps2.reverse
      rw [List.reverse_reverse] at this
      rw [← this, List.reverse_reverse]

/-! #### every slice, odd lengths as coded -/

theorem passFwdF_rat_tail (w h : Int) (r : List Rat) (hr : r.length ≤ 1) : ∀ ps : List Pt,
    passFwdF ratOps w h (fromPairs ps ++ r) = optOf (nudgePass w h ps) (fun q => fromPairs q ++ r) := by
  intro ps
  induction ps with
  | nil =>
    match r, hr with
    | [], _ => rfl
    | [_], _ => rfl
  | cons p ps ih =>
    simp only [fromPairs, List.cons_append, passFwdF, nudgePass, nudgePassG, beyondF_rat, nudgeCoordF_rat]
    by_cases hb : beyond w h p = true
    · simp [hb, optOf]
    · simp only [hb, if_false, Bool.false_eq_true]
      by_cases hn : ((nudgeCoord w (w - 1) p.1).2 || (nudgeCoord h (h - 1) p.2).2) = true
      · simp only [hn, if_true]
        rw [ih]
        unfold nudgePass
        cases nudgePassG w h (h - 1) ps <;> simp [optOf, fromPairs]
      · simp only [hn, if_false, Bool.false_eq_true]
        simp [optOf, fromPairs]

theorem passBwdRevF_rat_tail (w h : Int) (r : List Rat) (hr : r.length ≤ 1) : ∀ qs : List Pt,
    passBwdRevF ratOps w h (revPairs qs ++ r) = optOf (nudgePass w h qs) (fun q => revPairs q ++ r) := by
  intro ps
  induction ps with
  | nil =>
    match r, hr with
    | [], _ => rfl
    | [_], _ => rfl
  | cons p ps ih =>
    simp only [revPairs, List.cons_append, passBwdRevF, nudgePass, nudgePassG, beyondF_rat, nudgeCoordF_rat]
    by_cases hb : beyond w h p = true
    · simp [hb, optOf]
    · simp only [hb, if_false, Bool.false_eq_true]
      by_cases hn : ((nudgeCoord w (w - 1) p.1).2 || (nudgeCoord h (h - 1) p.2).2) = true
      · simp only [hn, if_true]
        rw [ih]
        unfold nudgePass
        cases nudgePassG w h (h - 1) ps <;> simp [optOf, revPairs]
      · simp only [hn, if_false, Bool.false_eq_true]
        simp [optOf, revPairs]

/-- every slice is its pairs interleaved plus an unpaired rest of at most one element -/
theorem toPairs_spec : ∀ l : List Rat, l = fromPairs (toPairs l).1 ++ (toPairs l).2 ∧ (toPairs l).2.length ≤ 1 ∧
    l.length = 2 * (toPairs l).1.length + (toPairs l).2.length
  | [] => ⟨rfl, by simp [toPairs], by simp [toPairs]⟩
  | [_] => ⟨rfl, by simp [toPairs], by simp [toPairs]⟩
  | x :: y :: rest => by
    obtain ⟨h1, h2, h3⟩ := toPairs_spec rest
    refine ⟨?_, ?_, ?_⟩
    · simp only [toPairs, fromPairs, List.cons_append]; rw [← h1]
    · simpa [toPairs] using h2
    · simp only [toPairs, List.length_cons]; omega

theorem fromPairs_length (l : List Pt) : (fromPairs l).length = 2 * l.length := by
  induction l with
  | nil => rfl
  | cons a l ih => simp only [fromPairs, List.length_cons, ih]; omega

theorem toPairs_fromPairs_tail (l : List Pt) (r : List Rat) (hr : r.length ≤ 1) : toPairs (fromPairs l ++ r) = (l, r) := by
  induction l with
  | nil =>
    match r, hr with
    | [], _ => rfl
    | [_], _ => rfl
  | cons a l ih => simp [fromPairs, toPairs, ih]

/-- `Res` of the model on a flat slice -/
def optFlat : Res (List Rat) → Option (List Rat)
  | .ok r => some r
  | .error _ => none

theorem toPairs_even (l : List Rat) (hev : l.length % 2 = 0) : l = fromPairs (toPairs l).1 ∧ toPairs l = ((toPairs l).1, []) := by
  obtain ⟨h1, h2, h3⟩ := toPairs_spec l
  have hr : (toPairs l).2 = [] := by
    match hq : (toPairs l).2, h2 with
    | [], _ => rfl
    | [_], _ => rw [hq] at h3; simp at h3; omega
  constructor
  · rw [hr, List.append_nil] at h1; exact h1
  · exact Prod.ext rfl hr

theorem passBwdEven_rat (w h : Int) (t x : List Rat) (hx : x.length ≤ 1) (hev : t.length % 2 = 0) :
    (passBwdRevF ratOps w h (x ++ t).reverse).map List.reverse =
      optFlat (match passBwdEven w h t with | .ok t' => .ok (x ++ t') | .error e => .error e) := by
  obtain ⟨ht, htp⟩ := toPairs_even t hev
  generalize (toPairs t).1 = qs at ht htp
  subst ht
  unfold passBwdEven
  rw [htp]
  simp only [List.append_nil, List.reverse_append]
  rw [fromPairs_reverse, passBwdRevF_rat_tail w h x.reverse (by simpa using hx)]
  cases h2 : nudgePass w h qs.reverse with
  | error e => rfl
  | ok ps2 =>
    simp only [optOf, optFlat, Option.map_some, List.reverse_append, List.reverse_reverse]
    have := fromPairs_reverse ps2.reverse
    rw [List.reverse_reverse] at this
    rw [← this, List.reverse_reverse]

theorem passBwd_rat (w h : Int) (l : List Rat) :
    (passBwdRevF ratOps w h l.reverse).map List.reverse = optFlat (passBwd w h l) := by
  unfold passBwd
  by_cases hev : l.length % 2 = 0
  · rw [if_pos hev]
    have := passBwdEven_rat w h l [] (by simp) hev
    simp only [List.nil_append] at this
    rw [this]
    cases passBwdEven w h l <;> rfl
  · rw [if_neg hev]
    match l, hev with
    | [], hev => simp at hev
    | x :: t, hev =>
      have hevt : t.length % 2 = 0 := by simp only [List.length_cons] at hev; omega
      have := passBwdEven_rat w h t [x] (by simp) hevt
      simp only [List.cons_append, List.nil_append] at this
      rw [this]
      rfl

/-- **Over exact rationals the specification is the model, on EVERY slice** (odd lengths as coded: the second loop
    pairs `(points[1], points[2]), …` and never touches `points[0]`). -/
theorem nudgeSpec_rat (w h : Int) (pts : List Rat) :
    nudgeSpec ratOps w h pts = optFlat (checkAndNudgePoints w h pts) := by
  obtain ⟨hp, hr, hlen⟩ := toPairs_spec pts
  unfold nudgeSpec checkAndNudgePoints passFwd
  conv => lhs; rw [hp, passFwdF_rat_tail w h _ hr]
  cases h1 : nudgePass w h (toPairs pts).1 with
  | error e => rfl
  | ok ps1 =>
    simp only [optOf]
    have := passBwd_rat w h (fromPairs ps1 ++ (toPairs pts).2)
    cases hb : passBwdRevF ratOps w h (fromPairs ps1 ++ (toPairs pts).2).reverse with
    | none => rw [hb] at this; rw [← this]; rfl
    | some r => rw [hb] at this; rw [← this]; rfl

end rat

end Gzx.K19
