/-
  Work package k19 (property C19) — lemmas for `Obligations/K19P.lean`: the REGENERATED perspective kernels
  (`Gzx.Gen.K19.squareToQuad / buildAdjoint / times / transformPoints`, translator kind `funcn`: float64 as an abstract
  number type with operations `ops`) against `Model/Perspective.lean`, which is written over the type classes
  `+ - * /`, `0`, `1`, decidable `=`.

  `FieldLike ops`: the operations structure IS the type-class arithmetic of the carrier.  It holds for exact rationals
  (`ratOps_fieldLike`, what the driver computes with) and, in `GzxM/K19.lean`, for every field (what the algebra
  theorems of `GzxM/Perspective.lean` are about) — so the same generated syntax is instantiated with Go's float64
  (`floatOps`), with `Rat`, and with an arbitrary field.
  `loop_pairs`: the stride-2 counted loop of `TransformPoints` for an arbitrary body.  Core Lean only.
-/
import Gzx.GoMNum
import Gzx.Proofs.GoMTie
import Gzx.Model.Perspective
set_option linter.unusedSectionVars false
namespace Gzx.K19
open Gzx Gzx.GoM Gzx.Perspective

variable {α : Type} [Add α] [Sub α] [Mul α] [Div α] [Zero α] [One α] [DecidableEq α]

/-- the operations structure of a regenerated kernel is the arithmetic of the carrier's type classes -/
structure FieldLike (ops : NumOps α) : Prop where
  add : ∀ a b, ops.add a b = a + b
  sub : ∀ a b, ops.sub a b = a - b
  mul : ∀ a b, ops.mul a b = a * b
  div : ∀ a b, ops.div a b = a / b
  zero : ops.ofInt 0 = 0
  one : ops.ofInt 1 = 1
  eq : ∀ a b, ops.eq a b = decide (a = b)

/-- a `*PerspectiveTransform` result of a regenerated kernel: the fields in the order of the Go struct -/
def tup (p : PT α) : α × α × α × α × α × α × α × α × α :=
  (p.a11, p.a21, p.a31, p.a12, p.a22, p.a32, p.a13, p.a23, p.a33)

theorem ratOps_fieldLike : FieldLike ratOps :=
  ⟨fun _ _ => rfl, fun _ _ => rfl, fun _ _ => rfl, fun _ _ => rfl, rfl, rfl, fun _ _ => rfl⟩

/-- `for i := 0; i < len-1; i += 2 { points[i], points[i+1] = f(points[i], points[i+1]) }` for an arbitrary body -/
theorem loop_pairs {F : Type} (f : F → F → F × F) (g : List F → List F)
    (hg2 : ∀ x y rest, g (x :: y :: rest) = (f x y).1 :: (f x y).2 :: g rest)
    (hg1 : ∀ l, l.length ≤ 1 → g l = l)
    (body : Int → List F → Ctl (List F) (List F))
    (hstep : ∀ (done : List F) (x y : F) (rest : List F),
      body ((done.length : Nat) : Int) (done ++ x :: y :: rest) = .next (done ++ (f x y).1 :: (f x y).2 :: rest)) :
    ∀ (rest done : List F) (n : Nat), n = rest.length / 2 →
      loop body 2 n ((done.length : Nat) : Int) (done ++ rest) = .next (done ++ g rest) := by
  have key : ∀ rest : List F,
      (∀ done : List F, loop body 2 (rest.length / 2) ((done.length : Nat) : Int) (done ++ rest) = .next (done ++ g rest)) ∧
      (∀ (done : List F) (z : F), loop body 2 ((z :: rest).length / 2) ((done.length : Nat) : Int) (done ++ z :: rest) =
        .next (done ++ g (z :: rest))) := by
    intro rest
    induction rest with
    | nil => exact ⟨fun done => by simp [loop, hg1], fun done z => by simp [loop, hg1]⟩
    | cons y rest ih =>
      refine ⟨fun done => ih.2 done y, fun done z => ?_⟩
      have e : (z :: y :: rest).length / 2 = rest.length / 2 + 1 := by simp only [List.length_cons]; omega
      rw [e, loop, hstep, hg2]
      have := ih.1 (done ++ [(f z y).1, (f z y).2])
      simp only [List.length_append, List.length_cons, List.length_nil, List.append_assoc, List.cons_append, List.nil_append] at this
      have e2 : (((done.length + (0 + 1 + 1) : Nat) : Int)) = ((done.length : Nat) : Int) + 2 := by omega
      rw [e2] at this
      simp only [this]
  intro rest done n hn
  subst hn
  exact (key rest).1 done

theorem idxA_ge {F : Type} (xs : List F) (e : Int) (h : ((xs.length : Nat) : Int) ≤ e) : idxA xs e = .error oob := by
  unfold idxA
  have h0 : ¬ e < 0 := by omega
  have : xs.length ≤ e.toNat := by omega
  simp [h0, List.getElem?_eq_none this]

/-- `for i := 0; i < len(xs); i++ { xs[i], ys[i] = f(xs[i], ys[i]) }` for an arbitrary body: the model's
    `transformXYLoop` shape — a panic as soon as `ys` is exhausted first -/
theorem loop_zip {F : Type} (f : F → F → F × F)
    (body : Int → List F × List F → Ctl (List F × List F) (List F × List F))
    (hstep : ∀ (dx dy : List F) (x y : F) (xs ys : List F), dx.length = dy.length →
      body ((dx.length : Nat) : Int) (dx ++ x :: xs, dy ++ y :: ys) = .next (dx ++ (f x y).1 :: xs, dy ++ (f x y).2 :: ys))
    (hpanic : ∀ (dx dy : List F) (x : F) (xs : List F), dx.length = dy.length →
      body ((dx.length : Nat) : Int) (dx ++ x :: xs, dy) = .panic oob) :
    ∀ (xs ys dx dy : List F), dx.length = dy.length →
      loop body 1 xs.length ((dx.length : Nat) : Int) (dx ++ xs, dy ++ ys) =
        if xs.length ≤ ys.length then
          .next (dx ++ (List.zipWith (fun x y => (f x y).1) xs ys), dy ++ (List.zipWith (fun x y => (f x y).2) xs ys) ++ ys.drop xs.length)
        else .panic oob := by
  intro xs
  induction xs with
  | nil => intro ys dx dy _; simp [loop]
  | cons x xs ih =>
    intro ys dx dy hl
    cases ys with
    | nil =>
      simp only [List.length_cons, List.length_nil, loop, List.append_nil]
      rw [hpanic dx dy x xs hl]
      simp
    | cons y ys =>
      simp only [List.length_cons, loop]
      rw [hstep dx dy x y xs ys hl]
      have := ih ys (dx ++ [(f x y).1]) (dy ++ [(f x y).2]) (by simp [hl])
      simp only [List.length_append, List.length_cons, List.length_nil, List.append_assoc, List.cons_append, List.nil_append] at this
      have e2 : (((dx.length + (0 + 1) : Nat) : Int)) = ((dx.length : Nat) : Int) + 1 := by omega
      rw [e2] at this
      simp only [this]
      by_cases hle : xs.length ≤ ys.length
      · simp [hle]
      · simp [hle]

/-- the model's `transformXYLoop` in closed form -/
theorem transformXYLoop_eq (p : PT α) : ∀ (xs ys : List α),
    p.transformXYLoop xs ys =
      if xs.length ≤ ys.length then
        .ok (List.zipWith (fun x y => (p.apply x y).1) xs ys, List.zipWith (fun x y => (p.apply x y).2) xs ys ++ ys.drop xs.length)
      else .error (.panic "yValues[i]: index out of range") := by
  intro xs
  induction xs with
  | nil => intro ys; simp [PT.transformXYLoop]
  | cons x xs ih =>
    intro ys
    cases ys with
    | nil => simp [PT.transformXYLoop]
    | cons y ys =>
      simp only [PT.transformXYLoop, ih ys, List.length_cons]
      by_cases hle : xs.length ≤ ys.length
      · simp [hle]
      · simp [hle]

end Gzx.K19
