/-
  Work package k19 (property C19) — lemmas for `Obligations/K19P.lean`: the REGENERATED perspective kernels
  (`Gzx.Gen.K19.squareToQuad / buildAdjoint / times / transformPoints`, translator kind `funcn`: float64 as an abstract
  number type with operations `ops`) against `Model/Perspective.lean`, which is written over the type classes
  `+ - * /`, `0`, `1`, decidable `=`.

  `FieldLike ops`: the operations structure IS the type-class arithmetic of the carrier.  It holds for exact rationals
  (`ratOps_fieldLike`, what the driver computes with) and, in `GzxM/K19.lean`, for every field (what the algebra
  theorems of `GzxM/Perspective.lean` are about) — so the same generated syntax is instantiated with Go's float64
  (`floatOps`), with `Rat`, and with an arbitrary field.
  `loop_pairs`: the stride-2 counted loop of `TransformPoints` for an arbitrary body.  Core Lean only.
-/
import Gzx.GoMNum
import Gzx.Proofs.GoMTie
import Gzx.Model.Perspective
namespace Gzx.K19
open Gzx Gzx.GoM Gzx.Perspective

variable {α : Type} [Add α] [Sub α] [Mul α] [Div α] [Zero α] [One α] [DecidableEq α]

/-- the operations structure of a regenerated kernel is the arithmetic of the carrier's type classes -/
structure FieldLike (ops : NumOps α) : Prop where
  add : ∀ a b, ops.add a b = a + b
  sub : ∀ a b, ops.sub a b = a - b
  mul : ∀ a b, ops.mul a b = a * b
  div : ∀ a b, ops.div a b = a / b
  zero : ops.ofInt 0 = 0
  one : ops.ofInt 1 = 1
  eq : ∀ a b, ops.eq a b = decide (a = b)

/-- a `*PerspectiveTransform` result of a regenerated kernel: the fields in the order of the Go struct -/
def tup (p : PT α) : α × α × α × α × α × α × α × α × α :=
  (p.a11, p.a21, p.a31, p.a12, p.a22, p.a32, p.a13, p.a23, p.a33)

theorem ratOps_fieldLike : FieldLike ratOps :=
  ⟨fun _ _ => rfl, fun _ _ => rfl, fun _ _ => rfl, fun _ _ => rfl, rfl, rfl, fun _ _ => rfl⟩

/-- `for i := 0; i < len-1; i += 2 { points[i], points[i+1] = f(points[i], points[i+1]) }` for an arbitrary body -/
theorem loop_pairs {F : Type} (f : F → F → F × F) (g : List F → List F)
    (hg2 : ∀ x y rest, g (x :: y :: rest) = (f x y).1 :: (f x y).2 :: g rest)
    (hg1 : ∀ l, l.length ≤ 1 → g l = l)
    (body : Int → List F → Ctl (List F) (List F))
    (hstep : ∀ (done : List F) (x y : F) (rest : List F),
      body ((done.length : Nat) : Int) (done ++ x :: y :: rest) = .next (done ++ (f x y).1 :: (f x y).2 :: rest)) :
    ∀ (rest done : List F) (n : Nat), n = rest.length / 2 →
      loop body 2 n ((done.length : Nat) : Int) (done ++ rest) = .next (done ++ g rest) := by
  have key : ∀ rest : List F,
      (∀ done : List F, loop body 2 (rest.length / 2) ((done.length : Nat) : Int) (done ++ rest) = .next (done ++ g rest)) ∧
      (∀ (done : List F) (z : F), loop body 2 ((z :: rest).length / 2) ((done.length : Nat) : Int) (done ++ z :: rest) =
        .next (done ++ g (z :: rest))) := by
    intro rest
    induction rest with
    | nil => exact ⟨fun done => by simp [loop, hg1], fun done z => by simp [loop, hg1]⟩
    | cons y rest ih =>
      refine ⟨fun done => ih.2 done y, fun done z => ?_⟩
      have e : (z :: y :: rest).length / 2 = rest.length / 2 + 1 := by simp only [List.length_cons]; omega
      rw [e, loop, hstep, hg2]
      have := ih.1 (done ++ [(f z y).1, (f z y).2])
      simp only [List.length_append, List.length_cons, List.length_nil, List.append_assoc, List.cons_append, List.nil_append] at this
      have e2 : (((done.length + (0 + 1 + 1) : Nat) : Int)) = ((done.length : Nat) : Int) + 2 := by omega
      rw [e2] at this
      simp only [this]
  intro rest done n hn
  subst hn
  exact (key rest).1 done

end Gzx.K19
