/-
  Lemmas for `Obligations/K20.lean` / `Obligations/K17.lean` (work package k17k20): loops of regenerated kernels on
  plain `[]int` / `[]byte` slices (no word model in between), and the link from the word-level mirror
  `Model/K20RunLength.lean` to the hand-written `Model/RunLength.lean`.
-/
import Gzx.GoMExt
import Gzx.Proofs.GoMTie
import Gzx.Model.K20RunLength
import Gzx.Model.RunLength
namespace Gzx.GoM
open Gzx

variable {σ ρ τ : Type}

/-! ### checked writes on integer slices -/

theorem setIdx_ofNat (s : List Int) (i : Nat) (v : Int) (h : i < s.length) : setIdx s (i : Int) v = .ok (s.set i v) := by
  unfold setIdx
  have : ¬ ((i : Int) < 0) := by omega
  simp [this, h]

theorem setIdx_ge (s : List Int) (i : Int) (v : Int) (h : (s.length : Int) ≤ i) : setIdx s i v = .error oob := by
  unfold setIdx
  have h0 : ¬ i < 0 := by omega
  have : ¬ i.toNat < s.length := by omega
  simp [h0, this]

/-- `for i := range xs { xs[i] = v }` -/
theorem foldlM_setIdx_prefix (v : Int) (s : List Int) :
    ∀ n, n ≤ s.length →
      (List.range' 0 n).foldlM (fun (t : List Int) (i : Nat) => setIdx t (i : Int) v) s = .ok (List.replicate n v ++ s.drop n) := by
  intro n
  induction n with
  | zero => intro _; simp [pure, Except.pure]
  | succ n ih =>
    intro h
    rw [List.range'_1_concat, List.foldlM_append, ih (by omega)]
    simp only [bind, Except.bind, List.foldlM, Nat.zero_add, pure, Except.pure]
    rw [setIdx_ofNat _ _ _ (by simp; omega)]
    simp only []
    congr 1
    apply List.ext_getElem
    · simp; omega
    · intro i h1 h2
      simp only [List.getElem_set, List.getElem_append, List.length_replicate, List.getElem_replicate, List.getElem_drop]
      by_cases hi : i < n
      · have : ¬ n = i := by omega
        have h3 : i < n + 1 := by omega
        simp [this, hi, h3]
      · by_cases hn : n = i
        · subst hn; simp
        · have h3 : ¬ i < n + 1 := by omega
          simp [hn, hi, h3]
          congr 1; omega

theorem foldlM_setIdx_all (v : Int) (s : List Int) :
    (List.range' 0 s.length).foldlM (fun (t : List Int) (i : Nat) => setIdx t (i : Int) v) s = .ok (s.map (fun _ => v)) := by
  rw [foldlM_setIdx_prefix v s s.length (Nat.le_refl _)]
  simp
  apply List.ext_getElem <;> simp

end Gzx.GoM

namespace Gzx.K20
open Gzx Gzx.GoM

/-! ### the word-level mirror of `RecordPattern` on a well-formed row is `Model/RunLength.lean` -/

/-- the caller's `counters` slice holding the model's counters so far: the rest is still zero -/
def pad (n : Nat) (cs : List Nat) : List Int := cs.map Int.ofNat ++ List.replicate (n - cs.length) 0

theorem pad_full (n : Nat) (cs : List Nat) (h : cs.length = n) : pad n cs = cs.map Int.ofNat := by
  simp [pad, h]

theorem pad_idx (n : Nat) (done : List Nat) (cnt : Nat) :
    idx (pad n (done ++ [cnt])) (done.length : Nat) = .ok (cnt : Int) := by
  rw [idx_ofNat _ _ (by simp [pad])]
  simp [pad]

theorem pad_set (n : Nat) (done : List Nat) (cnt v : Nat) :
    setIdx (pad n (done ++ [cnt])) (done.length : Nat) (v : Int) = .ok (pad n (done ++ [v])) := by
  rw [setIdx_ofNat _ _ _ (by simp [pad])]
  congr 1
  simp only [pad, List.map_append, List.map_cons, List.map_nil, List.length_append, List.length_cons, List.length_nil,
    List.append_assoc]
  rw [List.set_append_right _ _ (by simp)]
  simp

theorem pad_push (n : Nat) (done : List Nat) (cnt : Nat) (h : done.length + 2 ≤ n) :
    setIdx (pad n (done ++ [cnt])) ((done.length : Nat) + 1 : Int) 1 = .ok (pad n (done ++ [cnt] ++ [1])) := by
  have e : ((done.length : Nat) + 1 : Int) = ((done.length + 1 : Nat) : Int) := by omega
  rw [e, setIdx_ofNat _ _ _ (by simp [pad]; omega)]
  congr 1
  simp only [pad, List.map_append, List.map_cons, List.map_nil, List.length_append, List.length_cons, List.length_nil,
    List.append_assoc]
  rw [List.set_append_right _ _ (by simp), List.set_append_right _ _ (by simp)]
  have e2 : n - (done.length + (0 + 1)) = (n - (done.length + (0 + 1 + (0 + 1)))) + 1 := by omega
  rw [e2, List.replicate_succ]
  simp

/-- the pixel loop of the mirror follows `rpLoop` -/
theorem rpScan_rpLoop (get : Nat → Res Bool) (n : Nat) :
    ∀ (bs : List Bool) (i : Nat) (done : List Nat) (cnt : Nat) (cur : Bool), done.length + 1 ≤ n →
      (∀ j (h : j < bs.length), get (i + j) = .ok bs[j]) →
      let r := RunLength.rpLoop n bs cur done cnt
      (∃ i' w', rpScan get (n : Int) bs.length i (pad n (done ++ [cnt])) (!cur) (done.length : Nat) =
          .ok (pad n r.1, i', w', if r.2 then (n : Int) else ((r.1.length - 1 : Nat) : Int)) ∧
          (r.2 = false → i' = i + bs.length)) ∧
        r.1.length ≤ n ∧ 0 < r.1.length ∧ (r.2 = true → r.1.length = n) := by
  intro bs
  induction bs with
  | nil =>
    intro i done cnt cur hd _
    simp only [RunLength.rpLoop, rpScan, List.length_nil]
    refine ⟨⟨i, !cur, ?_, fun _ => rfl⟩, by simp; omega, by simp, by simp⟩
    simp
  | cons b bs ih =>
    intro i done cnt cur hd hget
    have hg0 : get i = .ok b := hget 0 (by simp)
    have hget' : ∀ j (h : j < bs.length), get (i + 1 + j) = .ok bs[j] := by
      intro j h
      have := hget (j + 1) (by simp; omega)
      simpa [Nat.add_assoc, Nat.add_comm 1 j] using this
    simp only [RunLength.rpLoop, List.length_cons, rpScan, hg0]
    by_cases hb : b = cur
    · subst hb
      have hne : (b != !b) = true := by cases b <;> rfl
      simp only [hne, if_true, pad_idx]
      rw [show ((cnt : Int) + 1) = ((cnt + 1 : Nat) : Int) by omega, pad_set]
      have := ih (i + 1) done (cnt + 1) b hd hget'
      simp only [] at this
      obtain ⟨⟨i', w', h1, h2⟩, h3⟩ := this
      exact ⟨⟨i', w', h1, fun h => by rw [h2 h]; omega⟩, h3⟩
    · have hne : (b != !cur) = false := by cases b <;> cases cur <;> simp_all
      simp only [hne, if_neg hb]
      by_cases hn : done.length + 1 = n
      · have hn' : (((done.length : Nat) : Int) + 1 == (n : Int)) = true := by simp; omega
        simp only [hn, if_true, hn']
        refine ⟨⟨i, !cur, ?_, by simp⟩, by simp; omega, by simp, by simp; omega⟩
        simp; omega
      · have hn' : (((done.length : Nat) : Int) + 1 == (n : Int)) = false := by simp; omega
        simp only [hn, if_false, hn']
        rw [pad_push n done cnt (by omega)]
        have hcur : (!(!cur)) = !b := by cases b <;> cases cur <;> simp_all
        have := ih (i + 1) (done ++ [cnt]) 1 b (by simp; omega) hget'
        simp only [List.length_append, List.length_cons, List.length_nil] at this
        obtain ⟨⟨i', w', h1, h2⟩, h3⟩ := this
        refine ⟨⟨i', w', ?_, fun h => by rw [h2 h]; omega⟩, h3⟩
        rw [hcur, show ((done.length : Nat) : Int) + 1 = ((done.length + (0 + 1) : Nat) : Int) by omega]
        exact h1

/-- when the word-level mirror and the hand-written model say the same -/
def Agrees : Res (Bool × List Int) → Res (List Nat) → Prop
  | .ok (false, cs), .ok r => cs = r.map Int.ofNat
  | .ok (true, _), .error .notFound => True
  | .error (.panic _), .error (.panic _) => True
  | _, _ => False

/-- **RecordPattern**: on a row whose pixels the getter returns (a well-formed `BitArray`), the regenerated control flow
    (mirror `K20.recordPattern`) and the hand-written model `RunLength.recordPattern` agree: same counters on success,
    NotFound together, panic (empty `counters` on a non-empty tail) together — for every row, start and `counters`. -/
theorem recordPattern_agrees (get : Nat → Res Bool) (row : List Bool) (start : Nat) (cs : List Int)
    (hget : ∀ j (h : j < row.length), get j = .ok row[j]) :
    Agrees (recordPattern get row.length start cs) (RunLength.recordPattern row start cs.length) := by
  unfold recordPattern RunLength.recordPattern
  by_cases hs : start ≥ row.length
  · have hd : row.drop start = [] := List.drop_eq_nil_of_le hs
    by_cases hn : cs.length = 0
    · simp [hs, hn, Agrees]
    · simp [hs, hn, hd, Agrees]
  · have hlt : start < row.length := by omega
    have hg : get start = .ok row[start] := hget start hlt
    have hd : row.drop start = row[start] :: row.drop (start + 1) := by
      rw [List.drop_eq_getElem_cons hlt]
    obtain ⟨k, hk⟩ : ∃ k, row.length - start = k + 1 := ⟨row.length - start - 1, by omega⟩
    have hzero : ∀ m : Nat, (List.map (fun _ => (0 : Int)) cs) = List.replicate cs.length 0 := by
      intro _; apply List.ext_getElem <;> simp
    by_cases hn : cs.length = 0
    · have hcs : cs = [] := List.length_eq_zero_iff.mp hn
      subst hcs
      simp [hs, hg, hk, rpScan, idx, oob, Agrees]
    · simp only [hs, if_false, hg, hn, hd, hk, rpScan]
      have hne : (row[start] != !row[start]) = true := by cases row[start] <;> rfl
      have hz : List.map (fun _ => (0 : Int)) cs = pad cs.length [0] := by
        rw [hzero 0]
        simp only [pad, List.map_cons, List.map_nil, List.length_cons, List.length_nil]
        obtain ⟨m, hm⟩ : ∃ m, cs.length = m + 1 := ⟨cs.length - 1, by omega⟩
        rw [hm]; simp [List.replicate_succ]
      simp only [hne, if_true, hz]
      have h1 := pad_idx cs.length [] 0
      have h2 := pad_set cs.length [] 0 1
      simp only [List.nil_append, List.length_nil] at h1 h2
      rw [show ((0 : Nat) : Int) = 0 from rfl] at h1 h2
      rw [h1]
      simp only []
      rw [show ((0 : Int) + 1) = ((1 : Nat) : Int) from rfl, h2]
      simp only []
      have hlen : (row.drop (start + 1)).length = k := by simp; omega
      have := rpScan_rpLoop get cs.length (row.drop (start + 1)) (start + 1) [] 1 row[start] (by simp; omega)
        (by intro j h; rw [hget (start + 1 + j) (by simp at h; omega)]; simp)
      simp only [List.nil_append, List.length_nil, hlen] at this
      obtain ⟨⟨i', w', h3, h4⟩, h5, h6, h7⟩ := this
      rw [show ((0 : Nat) : Int) = 0 from rfl] at h3
      rw [h3]
      generalize RunLength.rpLoop cs.length (row.drop (start + 1)) row[start] [] 1 = r at *
      obtain ⟨rc, broke⟩ := r
      cases broke with
      | true =>
        have hfull : rc.length = cs.length := h7 rfl
        simp only [if_true, beq_self_eq_true, Bool.true_or, Bool.not_true]
        simp [Agrees, pad_full _ _ hfull]
      | false =>
        have hi : i' = row.length := by rw [h4 rfl]; omega
        subst hi
        simp only [] at h5 h6 ⊢
        by_cases hl : rc.length = cs.length
        · have c : ¬ (¬ ((cs.length - 1 : Nat) : Int) = ((cs.length : Nat) : Int) ∧
              ¬ ((cs.length - 1 : Nat) : Int) = ((cs.length : Nat) : Int) - 1) := by omega
          simp [hl, Agrees, pad_full _ _ hl, c]
        · have c : (¬ ((rc.length - 1 : Nat) : Int) = ((cs.length : Nat) : Int) ∧
              ¬ ((rc.length - 1 : Nat) : Int) = ((cs.length : Nat) : Int) - 1) := by omega
          simp [hl, Agrees, c]

end Gzx.K20

