/-
  Power-sum form of the key equation.  For the syndrome sequence `S_m = Σ_l Y_l X_l^m` (m < R) and any
  polynomial `P` with `P·S ≡ Q (mod x^R)`:  `Q_m = Σ_l Y_l P(X_l⁻¹) X_l^m` for `deg P ≤ m < R`.
  With the Vandermonde lemma this gives: the Euclid output vanishes at every inverse locator, and its
  degree is at most the number of errors.  Helper lemmas for Properties/C04.lean.  Core Lean only.
-/
import Gzx.Proofs.Euclid
namespace Gzx.Proofs.KeyEq
open Gzx Gzx.GF Gzx.RS Gzx.Ref.GF Gzx.Proofs.GF Gzx.Proofs.Poly Gzx.Proofs.Conv Gzx.Proofs.Coef
  Gzx.Proofs.MinDist Gzx.Proofs.SingleError

/-- the inverse computed by the model (0 for 0 / out of range) -/
def invOf (F : GF) (x : Nat) : Nat :=
  match F.inv x with
  | .ok v => v
  | .error _ => 0

/-- syndrome coefficient sequence: power sums below `R`, zero above -/
def Sfun (prim : Nat) (L : List (Nat × Nat)) (R : Nat) (m : Nat) : Nat :=
  if m < R then psum prim L m else 0

section field
variable {prim size : Nat} (ok : ParamsOK prim size)
include ok

theorem gpow_add (x : Nat) (hx : x < size) (i : Nat) : ∀ j, gpow prim x (i + j) = gmul prim (gpow prim x i) (gpow prim x j)
  | 0 => by
    show gpow prim x i = gmul prim (gpow prim x i) 1
    rw [gmul_one_right ok _ (gpow_lt ok x i)]
  | j + 1 => by
    show gmul prim (gpow prim x (i + j)) x = gmul prim (gpow prim x i) (gmul prim (gpow prim x j) x)
    rw [gpow_add x hx i j, gmul_assoc ok _ _ _ (gpow_lt ok x i) (gpow_lt ok x j) hx]

theorem gpow_mul_inv (x a : Nat) (hx : x < size) (ha : a < size) (h : gmul prim x a = 1) :
    ∀ j, gmul prim (gpow prim x j) (gpow prim a j) = 1
  | 0 => gmul_one_left ok 1 (one_lt_size ok)
  | j + 1 => by
    show gmul prim (gmul prim (gpow prim x j) x) (gmul prim (gpow prim a j) a) = 1
    have hxj := gpow_lt ok x j
    have haj := gpow_lt ok a j
    rw [gmul_assoc ok _ x _ hxj hx (gmul_lt ok _ _), ← gmul_assoc ok x _ a hx haj ha,
      gmul_comm ok x _ hx haj, gmul_assoc ok _ x a haj hx ha, h, gmul_one_right ok _ haj,
      gpow_mul_inv x a hx ha h j]

theorem gpow_sub (x a : Nat) (hx : x < size) (ha : a < size) (h : gmul prim x a = 1) (m j : Nat) (hj : j ≤ m) :
    gpow prim x (m - j) = gmul prim (gpow prim x m) (gpow prim a j) := by
  have e : m = (m - j) + j := by omega
  have h1 := gpow_add ok x hx (m - j) j
  rw [← e] at h1
  rw [h1, gmul_assoc ok _ _ _ (gpow_lt ok x _) (gpow_lt ok x j) (gpow_lt ok a j),
    gpow_mul_inv ok x a hx ha h j, gmul_one_right ok _ (gpow_lt ok x _)]

theorem psum_lt' (L : List (Nat × Nat)) (i : Nat) : psum prim L i < size := psum_lt ok L i

/-- single locator: `(P · Σ Y X^i x^i)_m = Y·P(a)·X^m` for `m ≥ deg P`, `a = X⁻¹` -/
theorem conv_geometric (P : List Nat) (hP : InR size P) (Y X a : Nat) (hY : Y < size) (hX : X < size)
    (ha : a < size) (hXa : gmul prim X a = 1) (m : Nat) (hm : P.length ≤ m + 1) :
    conv prim (coef P) (fun i => gmul prim Y (gpow prim X i)) m =
      gmul prim (gmul prim Y (evalH prim a P)) (gpow prim X m) := by
  have hs : 0 < size := zero_lt_size ok
  unfold conv
  have hterm : ∀ j, j < m + 1 → gmul prim (coef P j) (gmul prim Y (gpow prim X (m - j))) =
      gmul prim (gmul prim Y (gpow prim X m)) (gmul prim (gpow prim a j) (coef P j)) := by
    intro j hj
    have hc := coef_lt hs P hP j
    have hxm := gpow_lt ok X m
    have haj := gpow_lt ok a j
    rw [gpow_sub ok X a hX ha hXa m j (by omega),
      ← gmul_assoc ok Y _ _ hY hxm haj,
      gmul_comm ok (coef P j) _ hc (gmul_lt ok _ _),
      gmul_assoc ok _ _ _ (gmul_lt ok _ _) haj hc]
  rw [xsum_congr hterm, ← xsum_gmul_left ok _ (fun _ _ => gmul_lt ok _ _),
    ← evalH_eq_xsum_ge ok a ha P hP (m + 1) hm]
  have he := evalH_lt ok a P hP
  have hxm := gpow_lt ok X m
  rw [gmul_assoc ok Y _ _ hY hxm he, gmul_comm ok _ _ hxm he, ← gmul_assoc ok Y _ _ hY he hxm]

/-- `(P·S)_m = Σ_l Y_l P(a_l) X_l^m` for `deg P ≤ m`, with `a_l = ai X_l` the inverse locators -/
theorem conv_psum (P : List Nat) (hP : InR size P) (ai : Nat → Nat) (m : Nat) (hm : P.length ≤ m + 1) :
    ∀ (L : List (Nat × Nat)), PairsIn size L →
      (∀ p, p ∈ L → ai p.2 < size ∧ gmul prim p.2 (ai p.2) = 1) →
      conv prim (coef P) (psum prim L) m =
        psum prim (L.map (fun p => (gmul prim p.1 (evalH prim (ai p.2) P), p.2))) m
  | [], _, _ => by
    apply xsum_zero
    intro j _
    show gmul prim _ 0 = 0
    exact gmul_zero_right ok _
  | (Y, X) :: L, hL, hinv => by
    have hYX := hL (Y, X) (by simp)
    have hi := hinv (Y, X) (by simp)
    have ih := conv_psum P hP ai m hm L (fun p hp => hL p (List.mem_cons_of_mem _ hp))
      (fun p hp => hinv p (List.mem_cons_of_mem _ hp))
    have hfun : ∀ i, i ≤ m → psum prim ((Y, X) :: L) i =
        (fun i => gmul prim Y (gpow prim X i) ^^^ psum prim L i) i := fun _ _ => rfl
    rw [conv_congr_right hfun, conv_xor_right ok _ _ _ (fun _ => gmul_lt ok _ _) (fun i => psum_lt ok L i) m,
      ih, conv_geometric ok P hP Y X (ai X) hYX.1 hYX.2 hi.1 hi.2 m hm]
    rfl

/-- Vandermonde on a window of consecutive power sums `m0 ≤ m < m0 + |L|` -/
theorem vandermonde_window (L : List (Nat × Nat)) (hL : PairsIn size L)
    (hd : L.Pairwise (fun p q => p.2 ≠ q.2)) (hnz : ∀ p, p ∈ L → p.2 ≠ 0) (m0 : Nat)
    (hs : ∀ i, i < L.length → psum prim L (m0 + i) = 0) : ∀ p, p ∈ L → p.1 = 0 := by
  -- absorb X^m0 into the coefficients
  have hshift : ∀ (L : List (Nat × Nat)), PairsIn size L → ∀ i,
      psum prim (L.map (fun p => (gmul prim p.1 (gpow prim p.2 m0), p.2))) i = psum prim L (m0 + i) := by
    intro L hL i
    induction L with
    | nil => rfl
    | cons p L ih =>
      have hp := hL p (by simp)
      rw [List.map_cons, psum_cons, psum_cons, ih (fun q hq => hL q (List.mem_cons_of_mem _ hq))]
      congr 1
      show gmul prim (gmul prim p.1 (gpow prim p.2 m0)) (gpow prim p.2 i) = _
      rw [gmul_assoc ok _ _ _ hp.1 (gpow_lt ok _ _) (gpow_lt ok _ _), ← gpow_add ok p.2 hp.2 m0 i]
  have hL' : PairsIn size (L.map (fun p => (gmul prim p.1 (gpow prim p.2 m0), p.2))) := by
    intro q hq
    obtain ⟨p, hp, rfl⟩ := List.mem_map.1 hq
    exact ⟨gmul_lt ok _ _, (hL p hp).2⟩
  have hd' : (L.map (fun p => (gmul prim p.1 (gpow prim p.2 m0), p.2))).Pairwise (fun p q => p.2 ≠ q.2) := by
    rw [List.pairwise_map]; exact hd
  have := vandermonde ok _ hL' hd' (fun i hi => by
    rw [hshift L hL i]; exact hs i (by simpa using hi))
  intro p hp
  have h0 := this (gmul prim p.1 (gpow prim p.2 m0), p.2) (List.mem_map.2 ⟨p, hp, rfl⟩)
  rcases gmul_eq_zero ok _ _ (hL p hp).1 (gpow_lt ok _ _) h0 with h | h
  · exact h
  · exact absurd h (gpow_ne_zero ok p.2 (hL p hp).2 (hnz p hp) m0)

/-- the error pattern as (Y, X) pairs: distinct non-zero locators, non-zero values, `ai` inverts locators -/
structure ErrSet (prim size : Nat) (L : List (Nat × Nat)) (ai : Nat → Nat) : Prop where
  inr : PairsIn size L
  distinct : L.Pairwise (fun p q => p.2 ≠ q.2)
  xnz : ∀ p, p ∈ L → p.2 ≠ 0
  ynz : ∀ p, p ∈ L → p.1 ≠ 0
  inv : ∀ p, p ∈ L → ai p.2 < size ∧ gmul prim p.2 (ai p.2) = 1

theorem conv_Sfun (P : List Nat) (hP : InR size P) (L : List (Nat × Nat)) (ai : Nat → Nat)
    (hE : ErrSet prim size L ai) (R m : Nat) (hm : P.length ≤ m + 1) (hmR : m < R) :
    conv prim (coef P) (Sfun prim L R) m =
      psum prim (L.map (fun p => (gmul prim p.1 (evalH prim (ai p.2) P), p.2))) m := by
  have h : ∀ i, i ≤ m → Sfun prim L R i = psum prim L i := by
    intro i hi
    unfold Sfun
    rw [if_pos (by omega)]
  rw [conv_congr_right h, conv_psum ok P hP ai m hm L hE.inr hE.inv]

/-- if `T·S ≡ Q (mod x^R)` and there is a window of `|L|` indices above the degrees of `T` and `Q`,
    then `T` vanishes at every inverse locator -/
theorem roots_of_key (T Q : List Nat) (hT : InR size T) (L : List (Nat × Nat)) (ai : Nat → Nat)
    (hE : ErrSet prim size L ai) (R m0 : Nat)
    (hkey : ∀ m, m < R → conv prim (coef T) (Sfun prim L R) m = coef Q m)
    (h1 : T.length ≤ m0 + 1) (h2 : Q.length ≤ m0) (h3 : m0 + L.length ≤ R) :
    ∀ p, p ∈ L → evalH prim (ai p.2) T = 0 := by
  have hL' : PairsIn size (L.map (fun p => (gmul prim p.1 (evalH prim (ai p.2) T), p.2))) := by
    intro q hq
    obtain ⟨p, hp, rfl⟩ := List.mem_map.1 hq
    exact ⟨gmul_lt ok _ _, (hE.inr p hp).2⟩
  have hd' : (L.map (fun p => (gmul prim p.1 (evalH prim (ai p.2) T), p.2))).Pairwise (fun p q => p.2 ≠ q.2) := by
    rw [List.pairwise_map]; exact hE.distinct
  have hnz' : ∀ q, q ∈ L.map (fun p => (gmul prim p.1 (evalH prim (ai p.2) T), p.2)) → q.2 ≠ 0 := by
    intro q hq
    obtain ⟨p, hp, rfl⟩ := List.mem_map.1 hq
    exact hE.xnz p hp
  have hv := vandermonde_window ok _ hL' hd' hnz' m0 (fun i hi => by
    rw [List.length_map] at hi
    rw [← conv_Sfun ok T hT L ai hE R (m0 + i) (by omega) (by omega), hkey _ (by omega),
      coef_ge Q _ (by omega)])
  intro p hp
  have h0 := hv (gmul prim p.1 (evalH prim (ai p.2) T), p.2) (List.mem_map.2 ⟨p, hp, rfl⟩)
  rcases gmul_eq_zero ok _ _ (hE.inr p hp).1 (evalH_lt ok _ T hT) h0 with h | h
  · exact absurd h (hE.ynz p hp)
  · exact h

/-- the previous remainder cannot have too small a degree: with `T'·S ≡ Q'`, `Q'` of exact degree `D ≥ deg T'`,
    fewer than `|L|` indices lie strictly between `D` and `R` -/
theorem degree_bound (T' : List Nat) (hT : InR size T') (qh : Nat) (qt : List Nat)
    (hqh : qh ≠ 0) (L : List (Nat × Nat)) (ai : Nat → Nat) (hE : ErrSet prim size L ai) (R : Nat)
    (hkey : ∀ m, m < R → conv prim (coef T') (Sfun prim L R) m = coef (qh :: qt) m)
    (h1 : T'.length ≤ qt.length + 1) (hD : qt.length < R) :
    ¬ (qt.length + 1 + L.length ≤ R) := by
  intro hcontra
  have hroots := roots_of_key ok T' (qh :: qt) hT L ai hE R (qt.length + 1) hkey (by omega)
    (by simp) hcontra
  have h := hkey qt.length hD
  rw [coef_head, conv_Sfun ok T' hT L ai hE R qt.length h1 hD] at h
  have hz : psum prim (L.map (fun p => (gmul prim p.1 (evalH prim (ai p.2) T'), p.2))) qt.length = 0 := by
    apply psum_all_zero ok
    · intro q hq
      obtain ⟨p, hp, rfl⟩ := List.mem_map.1 hq
      exact ⟨gmul_lt ok _ _, (hE.inr p hp).2⟩
    · intro q hq
      obtain ⟨p, hp, rfl⟩ := List.mem_map.1 hq
      show gmul prim p.1 (evalH prim (ai p.2) T') = 0
      rw [hroots p hp, gmul_zero_right ok]
  rw [hz] at h
  exact hqh h.symm

end field
end Gzx.Proofs.KeyEq
