/-
  Non-interference of the machine with first-use initialisation (Model/LazyInit.lean) under `LazySafe`.
  Invariant: as in Proofs/Interference.lean (private stores and owned cells are functions of the program counters,
  init-only shared state is unchanged) plus: initialised groups hold their values, and the flag of group `k` is set
  once some goroutine has passed a `once k`.
-/
import Gzx.Model.LazyInit
import Gzx.Proofs.Interference
namespace Gzx.LazyInit
open Gzx.Interference

/-! ### initGroup -/

structure WF (L : Lazy) : Prop where
  flagInj : ∀ k k', L.flagOf k = L.flagOf k' → k = k'
  flagNotCell : ∀ k, L.cell (L.flagOf k) = none

theorem initGroup_flag_self (L : Lazy) (k : Nat) (G : GStore) : initGroup L k G (L.flagOf k) ≠ 0 := by
  unfold initGroup
  split
  · simp
  · assumption

theorem initGroup_nonlazy (L : Lazy) (k : Nat) (G : GStore) (loc : Loc) (h : ¬ L.IsLazy loc) :
    initGroup L k G loc = G loc := by
  unfold initGroup
  split
  · have h1 : loc ≠ L.flagOf k := fun e => h (Or.inl ⟨k, e⟩)
    have h2 : L.cell loc = none := by
      cases hc : L.cell loc with
      | none => rfl
      | some x => exact absurd (Or.inr (by simp [hc])) h
    simp [h1, h2]
  · rfl

theorem initGroup_flag_other (L : Lazy) (hw : WF L) (k k' : Nat) (G : GStore) (hne : k' ≠ k) :
    initGroup L k G (L.flagOf k') = G (L.flagOf k') := by
  unfold initGroup
  split
  · have h1 : L.flagOf k' ≠ L.flagOf k := fun e => hne (hw.flagInj _ _ e)
    simp [h1, hw.flagNotCell k']
  · rfl

theorem initGroup_flag_mono (L : Lazy) (hw : WF L) (k k' : Nat) (G : GStore) (h : G (L.flagOf k') ≠ 0) :
    initGroup L k G (L.flagOf k') ≠ 0 := by
  by_cases e : k' = k
  · subst e; exact initGroup_flag_self L k' G
  · rw [initGroup_flag_other L hw k k' G e]; exact h

theorem initGroup_cons (L : Lazy) (hw : WF L) (k : Nat) (G : GStore) (hc : Consistent L G) :
    Consistent L (initGroup L k G) := by
  intro loc k' v hcell hflag
  by_cases e : k' = k
  · subst e
    by_cases h0 : G (L.flagOf k') = 0
    · have hne : loc ≠ L.flagOf k' := by
        intro e'; rw [e', hw.flagNotCell k'] at hcell; cases hcell
      simp [initGroup, h0, hne, hcell]
    · have : initGroup L k' G = G := by simp [initGroup, h0]
      rw [this]; exact hc loc k' v hcell h0
  · rw [initGroup_flag_other L hw k k' G e] at hflag
    have := hc loc k' v hcell hflag
    unfold initGroup
    split
    · have hne : loc ≠ L.flagOf k := by
        intro e'; rw [e', hw.flagNotCell k] at hcell; cases hcell
      simp [hne, hcell, e, this]
    · exact this

/-! ### one step on the global store -/

def NoLazyWrite (L : Lazy) (s : LStep) : Prop := ∀ loc, s.writes loc → ¬ L.IsLazy loc

theorem lexec_frame (L : Lazy) (s : LStep) (st : PStore × GStore) (loc : Loc)
    (h : ¬ s.writes loc) (hl : ¬ L.IsLazy loc) : (lexec L s st).2 loc = st.2 loc := by
  obtain ⟨p, G⟩ := st
  cases s with
  | read r l => rfl
  | write gd l e =>
    have : loc ≠ l := fun e' => h (by simp [LStep.writes, e'])
    simp only [lexec]
    split
    · simp [upd, this]
    · rfl
  | localStep f => rfl
  | once k => exact initGroup_nonlazy L k G loc hl

/-- a step that does not write lazy state leaves every lazy location to `once` -/
theorem lexec_lazy_write (L : Lazy) (s : LStep) (p : PStore) (G : GStore) (hs : NoLazyWrite L s)
    (loc : Loc) (hl : L.IsLazy loc) (hno : ∀ k, s ≠ .once k) : (lexec L s (p, G)).2 loc = G loc := by
  cases s with
  | read r l => rfl
  | write gd l e =>
    have : loc ≠ l := fun e' => hs loc (by simp [LStep.writes, e']) hl
    simp only [lexec]
    split
    · simp [upd, this]
    · rfl
  | localStep f => rfl
  | once k => exact absurd rfl (hno k)

theorem lexec_cons (L : Lazy) (hw : WF L) (s : LStep) (p : PStore) (G : GStore) (hs : NoLazyWrite L s)
    (hc : Consistent L G) : Consistent L (lexec L s (p, G)).2 := by
  cases s with
  | once k => exact initGroup_cons L hw k G hc
  | read r l => exact hc
  | localStep f => exact hc
  | write gd l e =>
    intro loc k v hcell hflag
    have e1 := lexec_lazy_write L (.write gd l e) p G hs loc (Or.inr (by simp [hcell])) (fun k => by simp)
    have e2 := lexec_lazy_write L (.write gd l e) p G hs (L.flagOf k) (Or.inl ⟨k, rfl⟩) (fun k => by simp)
    rw [e1]; rw [e2] at hflag; exact hc loc k v hcell hflag

theorem lexec_flag_mono (L : Lazy) (hw : WF L) (s : LStep) (p : PStore) (G : GStore) (hs : NoLazyWrite L s)
    (k : Nat) (h : G (L.flagOf k) ≠ 0) : (lexec L s (p, G)).2 (L.flagOf k) ≠ 0 := by
  cases s with
  | once k' => exact initGroup_flag_mono L hw k' k G h
  | read r l => exact h
  | localStep f => exact h
  | write gd l e =>
    rw [lexec_lazy_write L (.write gd l e) p G hs (L.flagOf k) (Or.inl ⟨k, rfl⟩) (fun k => by simp)]; exact h

/-- the value a step leaves in a non-lazy location depends only on the private store and on that location -/
theorem lexec_loc_congr (L : Lazy) (s : LStep) (p : PStore) (G G' : GStore) (loc : Loc)
    (hl : ¬ L.IsLazy loc) (h : G loc = G' loc) : (lexec L s (p, G)).2 loc = (lexec L s (p, G')).2 loc := by
  cases s with
  | read r l => exact h
  | localStep f => exact h
  | once k => simp only [lexec]; rw [initGroup_nonlazy L k G loc hl, initGroup_nonlazy L k G' loc hl]; exact h
  | write gd l e =>
    simp only [lexec]
    split
    · by_cases e' : loc = l
      · subst e'; simp [upd]
      · simp [upd, e', h]
    · exact h

/-! ### solo runs -/

theorem lalone_succ (L : Lazy) (prog : List LStep) (p0 : PStore) (G0 : GStore) (k : Nat) (s : LStep)
    (h : prog[k]? = some s) : lalone L prog p0 G0 (k + 1) = lexec L s (lalone L prog p0 G0 k) := by
  unfold lalone
  rw [List.take_add_one, h]
  simp [List.foldl_append]

theorem lalone_stop (L : Lazy) (prog : List LStep) (p0 : PStore) (G0 : GStore) (k : Nat)
    (h : prog[k]? = none) : lalone L prog p0 G0 (k + 1) = lalone L prog p0 G0 k := by
  have hlen : prog.length ≤ k := by
    rcases Nat.lt_or_ge k prog.length with hlt | hge
    · rw [List.getElem?_eq_getElem hlt] at h; cases h
    · exact hge
  unfold lalone
  rw [List.take_of_length_le (by omega), List.take_of_length_le hlen]

/-- a solo run leaves alone every non-lazy location it does not write -/
theorem lalone_frame (L : Lazy) (prog : List LStep) (p0 : PStore) (G0 : GStore) (loc : Loc)
    (h : ∀ s, s ∈ prog → ¬ s.writes loc) (hl : ¬ L.IsLazy loc) (k : Nat) :
    (lalone L prog p0 G0 k).2 loc = G0 loc := by
  induction k with
  | zero => simp [lalone]
  | succ k ih =>
    cases hk : prog[k]? with
    | none => rw [lalone_stop L prog p0 G0 k hk]; exact ih
    | some s =>
      rw [lalone_succ L prog p0 G0 k s hk, lexec_frame L s _ loc (h s (List.mem_of_getElem? hk)) hl, ih]

theorem lalone_cons (L : Lazy) (hw : WF L) (prog : List LStep) (p0 : PStore) (G0 : GStore)
    (h : ∀ s, s ∈ prog → NoLazyWrite L s) (hc : Consistent L G0) (k : Nat) :
    Consistent L (lalone L prog p0 G0 k).2 := by
  induction k with
  | zero => simpa [lalone] using hc
  | succ k ih =>
    cases hk : prog[k]? with
    | none => rw [lalone_stop L prog p0 G0 k hk]; exact ih
    | some s =>
      rw [lalone_succ L prog p0 G0 k s hk]
      generalize lalone L prog p0 G0 k = A at ih ⊢
      obtain ⟨p, G⟩ := A
      exact lexec_cons L hw s p G (h s (List.mem_of_getElem? hk)) ih

/-- after its own `once k`, a solo run sees the flag of group `k` set -/
theorem lalone_passed (L : Lazy) (hw : WF L) (prog : List LStep) (p0 : PStore) (G0 : GStore)
    (h : ∀ s, s ∈ prog → NoLazyWrite L s) (k j n : Nat) (hj : j < n) (hs : prog[j]? = some (.once k)) :
    (lalone L prog p0 G0 n).2 (L.flagOf k) ≠ 0 := by
  induction n with
  | zero => omega
  | succ n ih =>
    by_cases e : j = n
    · subst e
      rw [lalone_succ L prog p0 G0 j _ hs]
      generalize lalone L prog p0 G0 j = A
      obtain ⟨p, G⟩ := A
      exact initGroup_flag_self L k G
    · have ih' := ih (by omega)
      cases hk : prog[n]? with
      | none => rw [lalone_stop L prog p0 G0 n hk]; exact ih'
      | some s =>
        rw [lalone_succ L prog p0 G0 n s hk]
        generalize lalone L prog p0 G0 n = A at ih' ⊢
        obtain ⟨p, G⟩ := A
        exact lexec_flag_mono L hw s p G (h s (List.mem_of_getElem? hk)) k ih'

/-! ### the invariant -/

structure LInv (L : Lazy) (prog : Gid → List LStep) (Shared : Loc → Prop) (owner : Loc → Gid)
    (P0 : Gid → PStore) (G0 : GStore) (st : State) : Prop where
  priv : ∀ g, st.P g = (lalone L (prog g) (P0 g) G0 (st.pc g)).1
  shared : ∀ loc, Shared loc → ¬ L.IsLazy loc → st.G loc = G0 loc
  owned : ∀ loc, ¬ Shared loc →
    st.G loc = (lalone L (prog (owner loc)) (P0 (owner loc)) G0 (st.pc (owner loc))).2 loc
  cons : Consistent L st.G
  passed : ∀ g k j, j < st.pc g → (prog g)[j]? = some (.once k) → st.G (L.flagOf k) ≠ 0

theorem linv_init (L : Lazy) (prog : Gid → List LStep) (Shared : Loc → Prop) (owner : Loc → Gid)
    (P0 : Gid → PStore) (G0 : GStore) (hc : Consistent L G0) : LInv L prog Shared owner P0 G0 (init P0 G0) :=
  ⟨fun _ => by simp [init, lalone], fun _ _ _ => rfl, fun _ _ => by simp [init, lalone], hc,
   fun _ _ j hj _ => by simp [init] at hj⟩

theorem LazySafe.wf {L : Lazy} {prog : Gid → List LStep} {Shared : Loc → Prop} {owner : Loc → Gid}
    (h : LazySafe L prog Shared owner) : WF L := ⟨h.flagInj, h.flagNotCell⟩

theorem LazySafe.noLazyWrite {L : Lazy} {prog : Gid → List LStep} {Shared : Loc → Prop} {owner : Loc → Gid}
    (h : LazySafe L prog Shared owner) (g : Gid) (s : LStep) (hs : s ∈ prog g) : NoLazyWrite L s :=
  fun loc hw hl => h.noSharedWrite g s hs loc hw (h.lazyShared loc hl)

theorem linv_step (L : Lazy) (prog : Gid → List LStep) (Shared : Loc → Prop) (owner : Loc → Gid)
    (P0 : Gid → PStore) (G0 : GStore) (hS : LazySafe L prog Shared owner) (hc0 : Consistent L G0)
    (st : State) (hinv : LInv L prog Shared owner P0 G0 st) (g : Gid) :
    LInv L prog Shared owner P0 G0 (lstepOf L prog st g) := by
  unfold lstepOf
  cases hs : (prog g)[st.pc g]? with
  | none => exact hinv
  | some s =>
    have hw := hS.wf
    have hmem : s ∈ prog g := List.mem_of_getElem? hs
    have hnl : NoLazyWrite L s := hS.noLazyWrite g s hmem
    have hsucc := lalone_succ L (prog g) (P0 g) G0 (st.pc g) s hs
    have hp := hinv.priv g
    have hprogNL : ∀ s', s' ∈ prog g → NoLazyWrite L s' := fun s' hs' => hS.noLazyWrite g s' hs'
    have hAcons := lalone_cons L hw (prog g) (P0 g) G0 hprogNL hc0 (st.pc g)
    have hApassed := fun k j (hj : j < st.pc g) (hjs : (prog g)[j]? = some (.once k)) =>
      lalone_passed L hw (prog g) (P0 g) G0 hprogNL k j (st.pc g) hj hjs
    -- what a READ of g sees equals what it sees when running alone
    have hview : ∀ r loc, s = .read r loc → st.G loc = (lalone L (prog g) (P0 g) G0 (st.pc g)).2 loc := by
      intro r loc es
      subst es
      by_cases hsh : Shared loc
      · by_cases hlz : L.IsLazy loc
        · rcases hlz with ⟨k, ek⟩ | hcell
          · exact absurd (by simp [LStep.reads, ek]) (hS.noFlagRead g _ hmem k)
          · cases hcl : L.cell loc with
            | none => simp [hcl] at hcell
            | some kv =>
              obtain ⟨k, v⟩ := kv
              obtain ⟨j, hj, hjs⟩ := hS.firstUse g (st.pc g) r loc k v hs hcl
              rw [hinv.cons loc k v hcl (hinv.passed g k j hj hjs), hAcons loc k v hcl (hApassed k j hj hjs)]
        · rw [hinv.shared loc hsh hlz]
          exact (lalone_frame L (prog g) (P0 g) G0 loc
            (fun s' hs' hw' => hS.noSharedWrite g s' hs' loc hw' hsh) hlz (st.pc g)).symm
      · have ho := hS.ownInstances g _ hmem loc (Or.inl rfl) hsh
        have := hinv.owned loc hsh
        rw [ho] at this; exact this
    generalize hA : lalone L (prog g) (P0 g) G0 (st.pc g) = A at hsucc hp hview
    obtain ⟨a1, a2⟩ := A
    simp only at hp hview
    dsimp only
    refine ⟨?_, ?_, ?_, ?_, ?_⟩
    · -- private stores
      intro g'
      by_cases e : g' = g
      · subst e
        simp only [upd_same]
        rw [hsucc, hp]
        cases s with
        | read r l => simp only [lexec]; rw [hview r l rfl]
        | write gd l e => rfl
        | localStep f => rfl
        | once k => rfl
      · simp only [upd_other _ _ _ _ e]
        exact hinv.priv g'
    · -- init-only shared state
      intro loc hsh hlz
      dsimp only
      rw [lexec_frame L s _ loc (fun hw' => hS.noSharedWrite g s hmem loc hw' hsh) hlz]
      exact hinv.shared loc hsh hlz
    · -- owned cells
      intro loc hsh
      have hlz : ¬ L.IsLazy loc := fun h => hsh (hS.lazyShared loc h)
      dsimp only
      by_cases e : owner loc = g
      · simp only [e, upd_same]
        rw [hsucc]
        have hold := hinv.owned loc hsh
        rw [e, hA] at hold
        simp only at hold
        rw [hp]
        exact lexec_loc_congr L s a1 st.G a2 loc hlz hold
      · simp only [upd_other _ _ _ _ e]
        have hnw : ¬ s.writes loc := fun hw' => e (hS.ownInstances g s hmem loc (Or.inr hw') hsh)
        rw [lexec_frame L s _ loc hnw hlz]
        exact hinv.owned loc hsh
    · exact lexec_cons L hw s (st.P g) st.G hnl hinv.cons
    · -- flags of passed `once` steps are set
      intro g' k j hj hjs
      dsimp only at hj ⊢
      by_cases e : g' = g
      · subst e
        simp only [upd_same] at hj
        by_cases ej : j = st.pc g'
        · subst ej
          rw [hs] at hjs
          cases hjs
          exact initGroup_flag_self L k st.G
        · exact lexec_flag_mono L hw s (st.P g') st.G hnl k (hinv.passed g' k j (by omega) hjs)
      · simp only [upd_other _ _ _ _ e] at hj
        exact lexec_flag_mono L hw s (st.P g) st.G hnl k (hinv.passed g' k j hj hjs)

theorem linv_run (L : Lazy) (prog : Gid → List LStep) (Shared : Loc → Prop) (owner : Loc → Gid)
    (P0 : Gid → PStore) (G0 : GStore) (hS : LazySafe L prog Shared owner) (hc0 : Consistent L G0)
    (sched : List Gid) (st : State) (hinv : LInv L prog Shared owner P0 G0 st) :
    LInv L prog Shared owner P0 G0 (lrun L prog sched st) := by
  induction sched generalizing st with
  | nil => exact hinv
  | cons g rest ih =>
    simp only [lrun, List.foldl_cons]
    exact ih _ (linv_step L prog Shared owner P0 G0 hS hc0 st hinv g)

/-! ### the base machine is the lazy machine without `once` and guards -/

theorem lexec_embed (L : Lazy) (s : Step) (st : PStore × GStore) : lexec L (embedStep s) st = exec s st := by
  obtain ⟨p, G⟩ := st
  cases s <;> simp [embedStep, lexec, exec]

theorem lstepOf_embed (L : Lazy) (prog : Gid → List Step) (st : State) (g : Gid) :
    lstepOf L (embed prog) st g = stepOf prog st g := by
  unfold lstepOf stepOf embed
  rw [List.getElem?_map]
  cases (prog g)[st.pc g]? with
  | none => rfl
  | some s => simp only [Option.map_some, lexec_embed]

theorem lrun_embed (L : Lazy) (prog : Gid → List Step) (sched : List Gid) (st : State) :
    lrun L (embed prog) sched st = run prog sched st := by
  induction sched generalizing st with
  | nil => rfl
  | cons g rest ih =>
    simp only [lrun, run, List.foldl_cons]
    rw [lstepOf_embed]
    exact ih _

/-! ### program counters after a schedule (as in Proofs/Interference.lean) -/

theorem lpc_step (L : Lazy) (prog : Gid → List LStep) (st : State) (g g' : Gid) (h : st.pc g' ≤ (prog g').length) :
    (lstepOf L prog st g).pc g' = (if g = g' then min (st.pc g' + 1) (prog g').length else st.pc g') ∧
    (lstepOf L prog st g).pc g' ≤ (prog g').length := by
  unfold lstepOf
  cases hs : (prog g)[st.pc g]? with
  | none =>
    have hlen : (prog g).length ≤ st.pc g := by
      rcases Nat.lt_or_ge (st.pc g) (prog g).length with hlt | hge
      · rw [List.getElem?_eq_getElem hlt] at hs; cases hs
      · exact hge
    by_cases e : g = g'
    · subst e
      simp only [if_true]
      exact ⟨by omega, h⟩
    · simp only [e, if_false]
      exact ⟨trivial, h⟩
  | some s =>
    have hlt : st.pc g < (prog g).length := by
      rcases Nat.lt_or_ge (st.pc g) (prog g).length with hlt | hge
      · exact hlt
      · rw [List.getElem?_eq_none hge] at hs; cases hs
    by_cases e : g = g'
    · subst e
      simp only [upd_same, if_true]
      exact ⟨by omega, by omega⟩
    · have e' : g' ≠ g := fun h => e h.symm
      simp only [upd_other _ _ _ _ e', e, if_false]
      exact ⟨trivial, h⟩

theorem lpc_run (L : Lazy) (prog : Gid → List LStep) (sched : List Gid) (st : State)
    (h : ∀ g, st.pc g ≤ (prog g).length) (g : Gid) :
    (lrun L prog sched st).pc g = min (st.pc g + countG g sched) (prog g).length := by
  induction sched generalizing st with
  | nil => simp [lrun, countG]; exact (Nat.min_eq_left (h g)).symm
  | cons x rest ih =>
    simp only [lrun, List.foldl_cons]
    have hb : ∀ g', (lstepOf L prog st x).pc g' ≤ (prog g').length := fun g' => (lpc_step L prog st x g' (h g')).2
    have := ih (lstepOf L prog st x) hb
    simp only [lrun] at this
    rw [this, (lpc_step L prog st x g (h g)).1]
    have hg := h g
    by_cases e : x = g
    · subst e
      simp only [if_true, countG, List.filter_cons, beq_self_eq_true, List.length_cons]
      omega
    · have : (x == g) = false := by simpa using e
      simp only [e, if_false, countG, List.filter_cons, this]
      simp

end Gzx.LazyInit
