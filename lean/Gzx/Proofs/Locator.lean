/-
  The true error locator `Λ = Π (1 + X_l x)` and evaluator `Ω = Σ_l Y_l Π_{j≠l} (1 + X_j x)` as coefficient
  lists, their values, and the key equation `Λ·S ≡ Ω (mod x^R)` coefficient-wise.
  Helper lemmas for Properties/C04.lean.  Core Lean only.
-/
import Gzx.Proofs.KeyEq
namespace Gzx.Proofs.Locator
open Gzx Gzx.GF Gzx.RS Gzx.Ref.GF Gzx.Proofs.GF Gzx.Proofs.Poly Gzx.Proofs.Conv Gzx.Proofs.Coef
  Gzx.Proofs.MinDist Gzx.Proofs.SingleError Gzx.Proofs.KeyEq

/-- `(1 + X·x) · p` -/
def mulLin (prim X : Nat) (p : List Nat) : List Nat :=
  List.zipWith (· ^^^ ·) (p.map (gmul prim X) ++ [0]) (0 :: p)

/-- `Λ = Π (1 + X_l x)` -/
def lamList (prim : Nat) : List (Nat × Nat) → List Nat
  | [] => [1]
  | p :: L => mulLin prim p.2 (lamList prim L)

/-- `Ω = Σ_l Y_l Π_{j≠l} (1 + X_j x)` (length `|L|`, leading zeros allowed) -/
def omList (prim : Nat) : List (Nat × Nat) → List Nat
  | [] => []
  | p :: L => List.zipWith (· ^^^ ·) (mulLin prim p.2 (omList prim L)) ((lamList prim L).map (gmul prim p.1))

/-- `Λ(a)` -/
def lamVal (prim : Nat) : List (Nat × Nat) → Nat → Nat
  | [], _ => 1
  | p :: L, a => gmul prim (1 ^^^ gmul prim p.2 a) (lamVal prim L a)

/-- `Ω(a)` -/
def omVal (prim : Nat) : List (Nat × Nat) → Nat → Nat
  | [], _ => 0
  | p :: L, a => gmul prim (1 ^^^ gmul prim p.2 a) (omVal prim L a) ^^^ gmul prim p.1 (lamVal prim L a)

theorem mulLin_length (prim X : Nat) (p : List Nat) : (mulLin prim X p).length = p.length + 1 := by
  simp [mulLin]

theorem lamList_length (prim : Nat) : ∀ L, (lamList prim L).length = L.length + 1
  | [] => rfl
  | p :: L => by simp [lamList, mulLin_length, lamList_length prim L]

theorem omList_length (prim : Nat) : ∀ L, (omList prim L).length = L.length
  | [] => rfl
  | p :: L => by simp [omList, mulLin_length, omList_length prim L, lamList_length prim L]

section field
variable {prim size : Nat} (ok : ParamsOK prim size)
include ok

theorem mulLin_inR (X : Nat) (p : List Nat) (hp : InR size p) : InR size (mulLin prim X p) :=
  InR_zipWith_xor ok _ _ (InR.append (InR_map_gmul ok X p) (InR.cons (zero_lt_size ok) InR.nil))
    (InR.cons (zero_lt_size ok) hp)

theorem lamList_inR : ∀ L, InR size (lamList prim L)
  | [] => InR.cons (one_lt_size ok) InR.nil
  | p :: L => mulLin_inR ok p.2 _ (lamList_inR L)

theorem omList_inR : ∀ L, InR size (omList prim L)
  | [] => InR.nil
  | p :: L => InR_zipWith_xor ok _ _ (mulLin_inR ok p.2 _ (omList_inR L)) (InR_map_gmul ok p.1 _)

theorem lamVal_lt : ∀ L a, lamVal prim L a < size
  | [], _ => one_lt_size ok
  | _ :: _, _ => gmul_lt ok _ _

theorem omVal_lt : ∀ L a, omVal prim L a < size
  | [], _ => zero_lt_size ok
  | _ :: L, a => xor_lt_size ok _ _ (gmul_lt ok _ _) (gmul_lt ok _ _)

/-- value of `(1 + X x)·p` -/
theorem evalH_mulLin (a X : Nat) (ha : a < size) (hX : X < size) (p : List Nat) (hp : InR size p) :
    evalH prim a (mulLin prim X p) = gmul prim (1 ^^^ gmul prim X a) (evalH prim a p) := by
  have hs := zero_lt_size ok
  have h1 := one_lt_size ok
  unfold mulLin
  have hx := evalFrom_xor ok a (p.map (gmul prim X) ++ [0]) (0 :: p) 0 0 (by simp) hs hs
    (InR.append (InR_map_gmul ok X p) (InR.cons hs InR.nil)) (InR.cons hs hp)
  rw [Nat.xor_zero] at hx
  show evalFrom prim a 0 _ = _
  rw [hx]
  show evalH prim a (p.map (gmul prim X) ++ [0]) ^^^ evalH prim a (0 :: p) = _
  have hpe := evalH_lt ok a p hp
  rw [evalH_zero_cons ok, evalH_append ok a ha _ _ (InR_map_gmul ok X p) (InR.cons hs InR.nil),
    evalH_zero_poly_aux, Nat.xor_zero, evalH_scale ok a X ha hX p hp]
  show gmul prim (gmul prim 1 a) _ ^^^ _ = _
  rw [gmul_one_left ok a ha, gmul_xor_left ok 1 _ _ h1 (gmul_lt ok _ _) hpe, gmul_one_left ok _ hpe,
    ← gmul_assoc ok a X _ ha hX hpe, gmul_comm ok a X ha hX, Nat.xor_comm]
where
  evalH_zero_poly_aux : evalH prim a [0] = 0 := by rw [evalH_zero_cons ok]; rfl

theorem evalH_lamList (a : Nat) (ha : a < size) : ∀ L, PairsIn size L →
    evalH prim a (lamList prim L) = lamVal prim L a
  | [], _ => by
    show evalFrom prim a 0 [1] = 1
    rw [evalFrom_cons, gmul_zero_right ok]; rfl
  | p :: L, hL => by
    show evalH prim a (mulLin prim p.2 (lamList prim L)) = _
    rw [evalH_mulLin ok a p.2 ha (hL p (by simp)).2 _ (lamList_inR ok L),
      evalH_lamList a ha L (fun q hq => hL q (List.mem_cons_of_mem _ hq))]
    rfl

theorem evalH_omList (a : Nat) (ha : a < size) : ∀ L, PairsIn size L →
    evalH prim a (omList prim L) = omVal prim L a
  | [], _ => rfl
  | p :: L, hL => by
    have hp := hL p (by simp)
    have hL' : PairsIn size L := fun q hq => hL q (List.mem_cons_of_mem _ hq)
    have hs := zero_lt_size ok
    show evalFrom prim a 0 (List.zipWith (· ^^^ ·) (mulLin prim p.2 (omList prim L))
      ((lamList prim L).map (gmul prim p.1))) = _
    have hx := evalFrom_xor ok a (mulLin prim p.2 (omList prim L)) ((lamList prim L).map (gmul prim p.1)) 0 0
      (by simp [mulLin_length, omList_length, lamList_length]) hs hs
      (mulLin_inR ok p.2 _ (omList_inR ok L)) (InR_map_gmul ok p.1 _)
    rw [Nat.xor_zero] at hx
    rw [hx]
    show evalH prim a (mulLin prim p.2 (omList prim L)) ^^^ evalH prim a ((lamList prim L).map (gmul prim p.1)) = _
    rw [evalH_mulLin ok a p.2 ha hp.2 _ (omList_inR ok L), evalH_omList a ha L hL',
      evalH_scale ok a p.1 ha hp.1 _ (lamList_inR ok L), evalH_lamList ok a ha L hL']
    rfl

/-- `Λ` vanishes exactly at the inverse locators -/
theorem lamVal_eq_zero_iff (a : Nat) (ha : a < size) : ∀ L, PairsIn size L →
    (lamVal prim L a = 0 ↔ ∃ p, p ∈ L ∧ gmul prim p.2 a = 1)
  | [], _ => by
    constructor
    · intro h; exact absurd h (by show (1 : Nat) ≠ 0; decide)
    · intro ⟨p, hp, _⟩; simp at hp
  | p :: L, hL => by
    have hp := hL p (by simp)
    have hL' : PairsIn size L := fun q hq => hL q (List.mem_cons_of_mem _ hq)
    have ih := lamVal_eq_zero_iff a ha L hL'
    constructor
    · intro h
      rcases gmul_eq_zero ok _ _ (xor_lt_size ok _ _ (one_lt_size ok) (gmul_lt ok _ _)) (lamVal_lt ok L a) h with h1 | h1
      · exact ⟨p, by simp, (xor_eq_zero h1).symm⟩
      · obtain ⟨q, hq, hq1⟩ := ih.1 h1
        exact ⟨q, List.mem_cons_of_mem _ hq, hq1⟩
    · intro ⟨q, hq, hq1⟩
      show gmul prim (1 ^^^ gmul prim p.2 a) (lamVal prim L a) = 0
      rcases List.mem_cons.1 hq with rfl | hq
      · rw [hq1, Nat.xor_self, gmul_zero_left ok _ (lamVal_lt ok L a)]
      · rw [ih.2 ⟨q, hq, hq1⟩, gmul_zero_right ok]

omit ok in
theorem coef_mulLin_aux (X : Nat) (p : List Nat) (m : Nat) :
    coef (p.map (gmul prim X) ++ [0]) m = if m ≥ 1 then coef (p.map (gmul prim X)) (m - 1) else 0 := by
  rw [coef_append]
  simp only [List.length_cons, List.length_nil, Nat.zero_add]
  by_cases hm : m < 1
  · have : ¬ m ≥ 1 := by omega
    rw [if_pos hm, if_neg this, coef_zero_cons]; rfl
  · have : m ≥ 1 := by omega
    rw [if_neg hm, if_pos this]

theorem coef_mulLin (X : Nat) (p : List Nat) (m : Nat) :
    coef (mulLin prim X p) m = coef p m ^^^ (if m ≥ 1 then gmul prim X (coef p (m - 1)) else 0) := by
  unfold mulLin
  rw [coef_zipWith_xor _ _ _ (by simp), coef_zero_cons, coef_mulLin_aux, Nat.xor_comm]
  congr 1
  split
  · rw [coef_map_gmul ok]
  · rfl

/-- convolution with the Kronecker delta -/
theorem conv_one (g : Nat → Nat) (hg : ∀ j, g j < size) (m : Nat) : conv prim (coef [1]) g m = g m := by
  unfold conv
  have := xsum_single (n := m + 1) (F := fun j => gmul prim (coef [1] j) (g (m - j))) 0 (by omega)
    (fun j _ hne => by
      have : coef [1] j = 0 := by simp [coef, hne]
      simp only [this]
      exact gmul_zero_left ok _ (hg _))
  rw [this]
  show gmul prim (coef [1] 0) (g (m - 0)) = g m
  simp only [coef, List.length_nil, if_true, Nat.sub_zero]
  exact gmul_one_left ok _ (hg m)

theorem conv_mulLin (X : Nat) (hX : X < size) (P : List Nat) (hP : InR size P) (g : Nat → Nat)
    (hg : ∀ j, g j < size) (m : Nat) :
    conv prim (coef (mulLin prim X P)) g m =
      conv prim (coef P) g m ^^^ (if m ≥ 1 then gmul prim X (conv prim (coef P) g (m - 1)) else 0) := by
  have hs := zero_lt_size ok
  have hc : ∀ j, coef P j < size := coef_lt hs P hP
  have h1 : ∀ i, i ≤ m → coef (mulLin prim X P) i =
      (fun j => coef P j ^^^ (if j ≥ 1 then gmul prim X (coef P (j - 1)) else 0)) i := by
    intro i _; exact coef_mulLin ok X P i
  have hsh : conv prim (fun j => if j ≥ 1 then gmul prim X (coef P (j - 1)) else 0) g m =
      if m ≥ 1 then conv prim (fun j => gmul prim X (coef P j)) g (m - 1) else 0 :=
    conv_shift_left ok 1 (fun j => gmul prim X (coef P j)) g hg m
  rw [conv_congr_left h1, conv_xor_left ok _ _ _ hc (fun j => by split; exact gmul_lt ok _ _; exact hs) hg m,
    hsh]
  congr 1
  split
  · exact conv_scale_left ok X hX _ g hc hg _
  · rfl

/-- a geometric sequence is annihilated (mod its constant) by its own linear factor -/
theorem geom_cancel (X Y : Nat) (hX : X < size) (hY : Y < size) (P : List Nat) (hP : InR size P) : ∀ m,
    conv prim (coef P) (fun i => gmul prim Y (gpow prim X i)) m ^^^
      (if m ≥ 1 then gmul prim X (conv prim (coef P) (fun i => gmul prim Y (gpow prim X i)) (m - 1)) else 0) =
      gmul prim Y (coef P m)
  | 0 => by
    have hc := coef_lt (zero_lt_size ok) P hP 0
    show (0 ^^^ gmul prim (coef P 0) (gmul prim Y (gpow prim X 0))) ^^^ 0 = _
    rw [Nat.xor_zero, Nat.zero_xor, show gpow prim X 0 = 1 from rfl, gmul_one_right ok Y hY,
      gmul_comm ok _ Y hc hY]
  | k + 1 => by
    have hs := zero_lt_size ok
    have hc : ∀ j, coef P j < size := coef_lt hs P hP
    have h1 : k + 1 ≥ 1 := by omega
    rw [if_pos h1]
    show (xsum (k + 1) (fun j => gmul prim (coef P j) (gmul prim Y (gpow prim X (k + 1 - j)))) ^^^
        gmul prim (coef P (k + 1)) (gmul prim Y (gpow prim X (k + 1 - (k + 1))))) ^^^
      gmul prim X (xsum (k + 1) (fun j => gmul prim (coef P j) (gmul prim Y (gpow prim X (k + 1 - 1 - j))))) = _
    rw [xsum_gmul_left ok X (fun _ _ => gmul_lt ok _ _)]
    have hterm : ∀ j, j < k + 1 → gmul prim X (gmul prim (coef P j) (gmul prim Y (gpow prim X (k + 1 - 1 - j)))) =
        gmul prim (coef P j) (gmul prim Y (gpow prim X (k + 1 - j))) := by
      intro j hj
      have e : k + 1 - j = (k + 1 - 1 - j) + 1 := by omega
      rw [e]
      show _ = gmul prim (coef P j) (gmul prim Y (gmul prim (gpow prim X (k + 1 - 1 - j)) X))
      have hg := gpow_lt ok X (k + 1 - 1 - j)
      rw [← gmul_assoc ok Y _ X hY hg hX, ← gmul_assoc ok (coef P j) _ X (hc j) (gmul_lt ok _ _) hX,
        gmul_comm ok X _ hX (gmul_lt ok _ _)]
    rw [xsum_congr hterm]
    have e0 : k + 1 - (k + 1) = 0 := by omega
    rw [e0, show gpow prim X 0 = 1 from rfl, gmul_one_right ok Y hY, gmul_comm ok _ Y (hc _) hY]
    apply Nat.eq_of_testBit_eq; intro i
    simp only [Nat.testBit_xor]
    cases (xsum (k + 1) fun j => gmul prim (coef P j) (gmul prim Y (gpow prim X (k + 1 - j)))).testBit i <;>
      cases (gmul prim Y (coef P (k + 1))).testBit i <;> rfl

/-- key equation for the true locator: `(Λ·S)_m = Ω_m` for `m < R` -/
theorem key_lambda (R : Nat) : ∀ L, PairsIn size L → ∀ m, m < R →
    conv prim (coef (lamList prim L)) (Sfun prim L R) m = coef (omList prim L) m
  | [], _, m, hm => by
    show conv prim (coef [1]) _ m = _
    rw [conv_one ok _ (fun j => by unfold Sfun; split; exact psum_lt ok _ _; exact zero_lt_size ok) m]
    unfold Sfun; rw [if_pos hm]; rfl
  | p :: L, hL, m, hm => by
    have hp := hL p (by simp)
    have hL' : PairsIn size L := fun q hq => hL q (List.mem_cons_of_mem _ hq)
    have hs := zero_lt_size ok
    have hS' : ∀ j, Sfun prim L R j < size := fun j => by
      unfold Sfun; split; exact psum_lt ok _ _; exact hs
    have hS : ∀ i, i ≤ m → Sfun prim (p :: L) R i =
        (fun i => gmul prim p.1 (gpow prim p.2 i) ^^^ Sfun prim L R i) i := by
      intro i hi
      have hiR : i < R := by omega
      show (if i < R then psum prim (p :: L) i else 0) =
        gmul prim p.1 (gpow prim p.2 i) ^^^ (if i < R then psum prim L i else 0)
      rw [if_pos hiR, if_pos hiR]; rfl
    show conv prim (coef (mulLin prim p.2 (lamList prim L))) _ m = _
    rw [conv_congr_right hS, conv_xor_right ok _ _ _ (fun _ => gmul_lt ok _ _) hS' m,
      conv_mulLin ok p.2 hp.2 _ (lamList_inR ok L) _ (fun _ => gmul_lt ok _ _) m,
      conv_mulLin ok p.2 hp.2 _ (lamList_inR ok L) _ hS' m,
      geom_cancel ok p.2 p.1 hp.2 hp.1 _ (lamList_inR ok L) m,
      key_lambda R L hL' m hm]
    show _ = coef (List.zipWith (· ^^^ ·) (mulLin prim p.2 (omList prim L)) ((lamList prim L).map (gmul prim p.1))) m
    rw [coef_zipWith_xor _ _ _ (by simp [mulLin_length, omList_length, lamList_length]), coef_mulLin ok,
      coef_map_gmul ok, Nat.xor_comm]
    congr 2
    split
    · rename_i h1
      rw [key_lambda R L hL' (m - 1) (by omega)]
    · rfl

theorem lamVal_zero : ∀ L, PairsIn size L → lamVal prim L 0 = 1
  | [], _ => rfl
  | p :: L, hL => by
    show gmul prim (1 ^^^ gmul prim p.2 0) (lamVal prim L 0) = 1
    rw [gmul_zero_right ok, Nat.xor_zero, lamVal_zero L (fun q hq => hL q (List.mem_cons_of_mem _ hq)),
      gmul_one_left ok 1 (one_lt_size ok)]

end field
end Gzx.Proofs.Locator
