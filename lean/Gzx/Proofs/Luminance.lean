import Gzx.Model.Luminance
import Gzx.Ref.Luminance
import Gzx.Proofs.ExceptList
namespace Gzx.Luminance
open Gzx

/-! ## abstraction: the naive array a view denotes -/

/-- row `y` of the un-inverted view, read straight from the data -/
def View.baseRow (v : View) (y : Nat) : List Nat :=
  (v.data.drop ((y + v.top) * v.dataW + v.left)).take v.w

def View.baseRows (v : View) : List (List Nat) := (List.range v.h).map v.baseRow

/-- the naive `w x h` array denoted by a view -/
def View.abs (v : View) : Img :=
  if v.inv then (Img.mk v.w v.h v.baseRows).invert else Img.mk v.w v.h v.baseRows

/-- well-formed view: the rectangle lies inside the data, the data is at least `dataW x dataH` bytes -/
structure View.WF (v : View) : Prop where
  len : v.dataW * v.dataH ≤ v.data.length
  horiz : v.left + v.w ≤ v.dataW
  vert : v.top + v.h ≤ v.dataH
  bytes : ∀ p ∈ v.data, p ≤ 255

/-! ## arithmetic -/

theorem row_end_le (v : View) (hv : v.WF) (y : Nat) (hy : y < v.h) :
    (y + v.top) * v.dataW + v.left + v.w ≤ v.data.length := by
  have h1 : (y + v.top + 1) * v.dataW ≤ v.dataH * v.dataW :=
    Nat.mul_le_mul_right _ (by have := hv.vert; omega)
  rw [Nat.succ_mul] at h1
  have h2 := hv.len
  rw [Nat.mul_comm] at h2
  have := hv.horiz
  omega

theorem baseRow_length (v : View) (hv : v.WF) (y : Nat) (hy : y < v.h) : (v.baseRow y).length = v.w := by
  have := row_end_le v hv y hy
  simp only [View.baseRow, List.length_take, List.length_drop]
  omega

/-! ## slices -/

theorem slice_ok (l : List Nat) (a n : Nat) (h : a + n ≤ l.length) :
    slice l a (a + n) = .ok ((l.drop a).take n) := by
  unfold slice
  have : a ≤ a + n ∧ a + n ≤ l.length := ⟨by omega, h⟩
  simp [this]

/-! ## GetRow -/

/-- what is left of the caller's buffer behind the row -/
def bufTail (w : Nat) : Option (List Nat) → List Nat
  | some r => if r.length < w then [] else r.drop w
  | none => []

theorem baseGetRow_ok (v : View) (hv : v.WF) (y : Nat) (hy : y < v.h) (row : Option (List Nat)) :
    baseGetRow v (y : Int) row = .ok (v.baseRow y ++ bufTail v.w row) := by
  unfold baseGetRow
  have hn : ¬ ((y : Int) < 0 ∨ (y : Int) ≥ v.h) := by omega
  simp only [hn, if_false, Int.toNat_natCast]
  have hs := slice_ok v.data ((y + v.top) * v.dataW + v.left) v.w (row_end_le v hv y hy)
  simp only [hs]
  have : ∀ (s : List Nat), (do let s' ← (Except.ok s : VRes (List Nat)); Except.ok (s' ++ List.drop v.w
      (match row with
        | some r => if r.length < v.w then List.replicate v.w 0 else r
        | none => List.replicate v.w 0))) = Except.ok (s ++ bufTail v.w row) := by
    intro s
    show Except.ok _ = _
    congr 2
    cases row with
    | none => simp [bufTail]
    | some r =>
      simp only [bufTail]
      split <;> simp
  exact this _

/-- **GetRow inside the view** returns row `y` of the naive array, followed by the untouched tail of a
    longer caller buffer (a buffer shorter than the row is replaced) -/
theorem getRow_ok (v : View) (hv : v.WF) (y : Nat) (hy : y < v.h) (row : Option (List Nat)) :
    getRow v (y : Int) row = .ok ((v.abs.rows.getD y []) ++ bufTail v.w row) := by
  unfold getRow
  rw [baseGetRow_ok v hv y hy row]
  have hl := baseRow_length v hv y hy
  show (if v.inv then _ else _) = _
  have hrow : v.baseRows.getD y [] = v.baseRow y := by
    simp [View.baseRows, List.getD, hy]
  by_cases hi : v.inv
  · simp only [hi, if_true, View.abs, Img.invert]
    have : ((v.baseRows.map (fun r => r.map (fun v => 255 - v))).getD y []) = (v.baseRow y).map inv255 := by
      simp [View.baseRows, List.getD, hy, inv255]
    rw [this]
    congr 2
    · rw [List.take_append_of_le_length (by omega), List.take_of_length_le (by omega)]
    · rw [List.drop_append_of_le_length (by omega), List.drop_of_length_le (by omega)]; simp
  · simp only [hi, View.abs]
    simp [View.baseRows, hy]

/-- **GetRow outside the view** is an IllegalArgumentException — never a panic, never pixels -/
theorem getRow_outside (v : View) (y : Int) (hy : y < 0 ∨ y ≥ v.h) (row : Option (List Nat)) :
    getRow v y row = .error (.fault .illegalArg) := by
  unfold getRow baseGetRow
  simp [hy, villegal]
  rfl

end Gzx.Luminance

namespace Gzx.Luminance
open Gzx

/-! ## GetMatrix: the three copy strategies produce the rows of the naive array -/

/-- `n` consecutive chunks of width `W` starting at `off` are one contiguous piece -/
theorem flatten_chunks (data : List Nat) (off W n : Nat) :
    ((List.range n).map (fun y => (data.drop (off + y * W)).take W)).flatten = (data.drop off).take (W * n) := by
  induction n with
  | zero => simp
  | succ n ih =>
    rw [List.range_succ, List.map_append, List.flatten_append, ih]
    simp only [List.map_cons, List.map_nil, List.flatten_cons, List.flatten_nil, List.append_nil]
    rw [Nat.mul_succ, List.take_add, List.drop_drop]
    congr 3
    rw [Nat.mul_comm]

theorem flatten_length_const (rows : List (List Nat)) (w : Nat) (h : ∀ r ∈ rows, r.length = w) :
    rows.flatten.length = w * rows.length := by
  induction rows with
  | nil => simp
  | cons r rs ih =>
    simp only [List.flatten_cons, List.length_append, List.length_cons]
    rw [ih (fun q hq => h q (by simp [hq])), h r (by simp), Nat.mul_succ]
    omega

theorem rowsCopy_ok (data : List Nat) (dataW w : Nat) (n off : Nat)
    (h : ∀ y, y < n → off + y * dataW + w ≤ data.length) :
    rowsCopy data dataW w off n =
      .ok ((List.range n).map (fun y => (data.drop (off + y * dataW)).take w)).flatten := by
  induction n generalizing off with
  | zero => simp [rowsCopy]
  | succ n ih =>
    unfold rowsCopy
    have h0 := h 0 (by omega)
    simp only [Nat.zero_mul, Nat.add_zero] at h0
    rw [slice_ok data off w h0]
    have ih' := ih (off + dataW) (by
      intro y hy
      have := h (y + 1) (by omega)
      rw [Nat.succ_mul] at this
      omega)
    rw [ih']
    show Except.ok _ = _
    congr 1
    rw [List.range_succ_eq_map]
    simp only [List.map_cons, List.map_map, List.flatten_cons, Nat.zero_mul, Nat.add_zero]
    congr 2
    apply List.map_congr_left
    intro y _
    simp only [Function.comp, Nat.succ_mul]
    congr 2
    omega

theorem baseRows_length (v : View) : v.baseRows.length = v.h := by simp [View.baseRows]

theorem baseRows_row_length (v : View) (hv : v.WF) : ∀ r ∈ v.baseRows, r.length = v.w := by
  intro r hr
  simp only [View.baseRows, List.mem_map, List.mem_range] at hr
  obtain ⟨y, hy, rfl⟩ := hr
  exact baseRow_length v hv y hy

theorem baseGetMatrix_ok (v : View) (hv : v.WF) :
    ∃ m, baseGetMatrix v = .ok m ∧ m.take (v.w * v.h) = v.baseRows.flatten := by
  unfold baseGetMatrix
  have hlen := hv.len
  have hh := hv.horiz
  have hvv := hv.vert
  by_cases hwhole : v.w = v.dataW ∧ v.h = v.dataH
  · -- the array itself
    simp only [hwhole, and_self, if_true]
    refine ⟨v.data, rfl, ?_⟩
    obtain ⟨e1, e2⟩ := hwhole
    have hl : v.left = 0 := by omega
    have ht : v.top = 0 := by omega
    have := flatten_chunks v.data 0 v.dataW v.dataH
    simp only [Nat.zero_add, List.drop_zero] at this
    rw [← this]
    simp only [View.baseRows, e2]
    congr 1
    apply List.map_congr_left
    intro y _
    simp only [View.baseRow, hl, ht, e1, Nat.add_zero, List.drop_drop, Nat.zero_add]
  · simp only [hwhole, if_false]
    by_cases hfull : v.w = v.dataW
    · -- one copy
      simp only [hfull, if_true]
      have hl : v.left = 0 := by omega
      have hend : v.top * v.dataW + v.left + v.dataW * v.h ≤ v.data.length := by
        have h1 : (v.top + v.h) * v.dataW ≤ v.dataH * v.dataW := Nat.mul_le_mul_right _ hvv
        rw [Nat.add_mul] at h1
        rw [Nat.mul_comm v.dataW v.dataH] at hlen
        rw [Nat.mul_comm v.dataW v.h]
        omega
      rw [slice_ok _ _ _ hend]
      refine ⟨_, rfl, ?_⟩
      have := flatten_chunks v.data (v.top * v.dataW + v.left) v.dataW v.h
      rw [List.take_of_length_le (by rw [List.length_take]; exact Nat.min_le_left _ _)]
      rw [← this]
      simp only [View.baseRows]
      congr 1
      apply List.map_congr_left
      intro y _
      simp only [View.baseRow, hfull]
      congr 2
      rw [Nat.add_mul]; omega
    · simp only [hfull, if_false]
      have hb : ∀ y, y < v.h → v.top * v.dataW + v.left + y * v.dataW + v.w ≤ v.data.length := by
        intro y hy
        have := row_end_le v hv y hy
        rw [Nat.add_mul] at this
        omega
      rw [rowsCopy_ok _ _ _ _ _ hb]
      refine ⟨_, rfl, ?_⟩
      have hrows : (List.range v.h).map (fun y => (v.data.drop (v.top * v.dataW + v.left + y * v.dataW)).take v.w)
          = v.baseRows := by
        simp only [View.baseRows]
        apply List.map_congr_left
        intro y _
        simp only [View.baseRow]
        congr 2
        rw [Nat.add_mul]; omega
      rw [hrows]
      apply List.take_of_length_le
      rw [flatten_length_const _ v.w (baseRows_row_length v hv), baseRows_length]
      omega

theorem map_flatten' (f : Nat → Nat) (rows : List (List Nat)) :
    (rows.map (fun r => r.map f)).flatten = rows.flatten.map f := by
  induction rows with
  | nil => rfl
  | cons r rs ih =>
    simp only [List.map_cons, List.flatten_cons, List.map_append]
    rw [ih]

/-- **GetMatrix** (whole array / one copy / row by row, and the inverting wrapper) never panics on a
    well-formed view and its first `w*h` bytes are the rows of the naive array in raster order -/
theorem getMatrix_ok (v : View) (hv : v.WF) :
    ∃ m, getMatrix v = .ok m ∧ m.take (v.w * v.h) = v.abs.rows.flatten := by
  obtain ⟨m, hm, hrows⟩ := baseGetMatrix_ok v hv
  unfold getMatrix
  rw [hm]
  show ∃ m', (if v.inv then _ else _) = Except.ok m' ∧ _
  have hlen : (m.take (v.w * v.h)).length = v.w * v.h := by
    rw [hrows, flatten_length_const _ v.w (baseRows_row_length v hv), baseRows_length]
  by_cases hi : v.inv
  · simp only [hi, if_true]
    have : ¬ m.length < v.w * v.h := by
      intro hlt
      rw [List.length_take] at hlen
      omega
    simp only [this, if_false]
    refine ⟨_, rfl, ?_⟩
    rw [List.take_of_length_le (by rw [List.length_map, List.length_take]; exact Nat.min_le_left _ _)]
    simp only [View.abs, hi, if_true, Img.invert]
    rw [hrows]
    exact (map_flatten' (fun v => 255 - v) v.baseRows).symm
  · simp only [hi]
    refine ⟨m, rfl, ?_⟩
    simp only [View.abs, hi]
    exact hrows

end Gzx.Luminance

namespace Gzx.Luminance
open Gzx

/-! ## Crop -/

theorem range_map_drop_take {α : Type} (f : Nat → α) (n t h : Nat) (hle : t + h ≤ n) :
    (((List.range n).map f).drop t).take h = (List.range h).map (fun y => f (y + t)) := by
  apply List.ext_getElem?
  intro i
  simp only [List.getElem?_take, List.getElem?_drop, List.getElem?_map, List.getElem?_range]
  by_cases hi : i < h
  · have h1 : t + i < n := by omega
    simp [hi, h1, Nat.add_comm]
  · simp [hi]

theorem sub_row (data : List Nat) (a W l w' : Nat) (h : l + w' ≤ W) :
    (((data.drop a).take W).drop l).take w' = (data.drop (a + l)).take w' := by
  rw [List.drop_take, List.take_take, List.drop_drop]
  congr 1
  omega

theorem crop_baseRows (v v' : View) (l t : Nat) (hd : v'.data = v.data) (hW : v'.dataW = v.dataW)
    (hl : v'.left = v.left + l) (ht : v'.top = v.top + t) (hw : l + v'.w ≤ v.w) (hh : t + v'.h ≤ v.h) :
    v'.baseRows = ((v.baseRows.drop t).take v'.h).map (fun r => (r.drop l).take v'.w) := by
  simp only [View.baseRows]
  rw [range_map_drop_take _ _ _ _ hh, List.map_map]
  apply List.map_congr_left
  intro y _
  simp only [View.baseRow, Function.comp, hd, hW, hl, ht]
  rw [sub_row _ _ _ _ _ hw]
  congr 2
  have : y + t + v.top = y + (v.top + t) := by omega
  rw [this]
  omega

theorem crop_wf (v v' : View) (hv : v.WF) (l t : Nat) (hd : v'.data = v.data) (hW : v'.dataW = v.dataW)
    (hH : v'.dataH = v.dataH)
    (hl : v'.left = v.left + l) (ht : v'.top = v.top + t) (hw : l + v'.w ≤ v.w) (hh : t + v'.h ≤ v.h) :
    v'.WF := by
  refine ⟨?_, ?_, ?_, ?_⟩
  · rw [hd, hW, hH]; exact hv.len
  · have := hv.horiz; rw [hl, hW]; omega
  · have := hv.vert; rw [ht, hH]; omega
  · rw [hd]; exact hv.bytes

theorem abs_w (v : View) : v.abs.w = v.w := by unfold View.abs; split <;> rfl
theorem abs_h (v : View) : v.abs.h = v.h := by unfold View.abs; split <;> rfl

theorem abs_crop (v v' : View) (l t : Nat) (hd : v'.data = v.data) (hW : v'.dataW = v.dataW)
    (hl : v'.left = v.left + l) (ht : v'.top = v.top + t) (hw : l + v'.w ≤ v.w) (hh : t + v'.h ≤ v.h)
    (hi' : v'.inv = v.inv) :
    v'.abs = v.abs.crop l t v'.w v'.h := by
  unfold View.abs
  have hb := crop_baseRows v v' l t hd hW hl ht hw hh
  rw [hi']
  by_cases hi : v.inv
  · simp only [hi, if_true, Img.invert, Img.crop, Img.mk.injEq, true_and]
    rw [hb]
    simp only [List.map_drop, List.map_take, List.map_map]
    congr 2
    apply List.map_congr_left
    intro r _
    simp [Function.comp, List.map_drop, List.map_take]
  · have hf : (false = true) = False := by simp
    simp only [hi, hf, if_false, Img.crop, Img.mk.injEq, true_and]
    exact hb

/-- the model's Crop on a valid rectangle: succeeds, stays well-formed, keeps the kind and the
    inversion flag, and denotes the sub-array -/
theorem crop_valid (v : View) (hv : v.WF) (l t : Int) (w h : Nat) (hval : v.abs.ValidCrop l t w h) :
    ∃ v', crop v l t w h = .ok v' ∧ v'.WF ∧ v'.kind = v.kind ∧ v'.inv = v.inv ∧
      v'.abs = v.abs.crop l.toNat t.toNat w h := by
  obtain ⟨h0, h1, h2, h3⟩ := hval
  rw [abs_w] at h2
  rw [abs_h] at h3
  have hw' : l.toNat + w ≤ v.w := by omega
  have hh' : t.toNat + h ≤ v.h := by omega
  have hn : ¬ (l < 0 ∨ t < 0 ∨ l + w > v.w ∨ t + h > v.h) := by omega
  unfold crop
  simp only [hn, if_false]
  cases hk : v.kind with
  | yuv =>
    simp only
    unfold newYUV
    have hhz := hv.horiz
    have hvt := hv.vert
    have hn2 : ¬ ((v.left : Int) + l < 0 ∨ (v.top : Int) + t < 0 ∨ (v.left : Int) + l + w > v.dataW ∨
        (v.top : Int) + t + h > v.dataH) := by omega
    simp only [hn2, if_false, Bool.false_eq_true]
    have e1 : ((v.left : Int) + l).toNat = v.left + l.toNat := by omega
    have e2 : ((v.top : Int) + t).toNat = v.top + t.toNat := by omega
    refine ⟨_, rfl, ?_, rfl, rfl, ?_⟩
    · exact crop_wf v _ hv l.toNat t.toNat rfl rfl rfl e1 e2 hw' hh'
    · exact abs_crop v _ l.toNat t.toNat rfl rfl e1 e2 hw' hh' rfl
  | rgb =>
    refine ⟨_, rfl, ?_, rfl, rfl, ?_⟩
    · exact crop_wf v _ hv l.toNat t.toNat rfl rfl rfl rfl rfl hw' hh'
    · exact abs_crop v _ l.toNat t.toNat rfl rfl rfl rfl hw' hh' rfl
  | img =>
    refine ⟨_, rfl, ?_, rfl, rfl, ?_⟩
    · exact crop_wf v _ hv l.toNat t.toNat rfl rfl rfl rfl rfl hw' hh'
    · exact abs_crop v _ l.toNat t.toNat rfl rfl rfl rfl hw' hh' rfl

/-- an invalid rectangle (negative origin, or reaching outside the view) is an
    IllegalArgumentException — never a panic, never a view -/
theorem crop_invalid (v : View) (l t : Int) (w h : Nat) (hinv : ¬ v.abs.ValidCrop l t w h) :
    crop v l t w h = .error (.fault .illegalArg) := by
  unfold Img.ValidCrop at hinv
  rw [abs_w, abs_h] at hinv
  have hn : (l < 0 ∨ t < 0 ∨ l + w > v.w ∨ t + h > v.h) := by omega
  unfold crop
  simp only [hn, if_true]
  rfl

end Gzx.Luminance

namespace Gzx.Luminance
open Gzx

/-! ## Invert -/

theorem baseRows_bytes (v : View) (hv : v.WF) : ∀ r ∈ v.baseRows, ∀ p ∈ r, p ≤ 255 := by
  intro r hr p hp
  simp only [View.baseRows, List.mem_map, List.mem_range] at hr
  obtain ⟨y, _, rfl⟩ := hr
  exact hv.bytes p (List.mem_of_mem_drop (List.mem_of_mem_take hp))

theorem invert_invert_rows (rows : List (List Nat)) (h : ∀ r ∈ rows, ∀ p ∈ r, p ≤ 255) :
    (rows.map (fun r => r.map (fun v => 255 - v))).map (fun r => r.map (fun v => 255 - v)) = rows := by
  rw [List.map_map]
  conv => rhs; rw [← List.map_id rows]
  apply List.map_congr_left
  intro r hr
  simp only [Function.comp, List.map_map, id]
  conv => rhs; rw [← List.map_id r]
  apply List.map_congr_left
  intro p hp
  have := h r hr p hp
  simp only [Function.comp, id]
  omega

theorem abs_invert (v : View) (hv : v.WF) : (invert v).abs = v.abs.invert := by
  unfold View.abs invert
  have hb : ({ v with inv := !v.inv } : View).baseRows = v.baseRows := rfl
  by_cases hi : v.inv
  · simp only [hi, Bool.not_true, if_true, Img.invert, hb]
    have hf : (false = true) = False := by simp
    simp only [hf, if_false, Img.mk.injEq, true_and]
    exact (invert_invert_rows v.baseRows (baseRows_bytes v hv)).symm
  · have hi' : v.inv = false := by simpa using hi
    simp only [hi', Bool.not_false, if_true]
    have hf : (false = true) = False := by simp
    simp only [hf, if_false]
    rfl

theorem invert_wf (v : View) (hv : v.WF) : (invert v).WF := ⟨hv.len, hv.horiz, hv.vert, hv.bytes⟩

/-! ## RotateCounterClockwise -/

theorem idx_ok (l : List Nat) (i : Nat) (h : i < l.length) : idx l i = .ok ((l[i]?).getD 0) := by
  unfold idx
  simp [h]

theorem unflatten (R : List (List Nat)) (h : Nat) (hR : ∀ r ∈ R, r.length = h) :
    (List.range R.length).map (fun y => (R.flatten.drop (y * h)).take h) = R := by
  induction R with
  | nil => rfl
  | cons r rs ih =>
    have hr := hR r (by simp)
    rw [List.length_cons, List.range_succ_eq_map]
    simp only [List.map_cons, List.map_map, List.flatten_cons, Nat.zero_mul, List.drop_zero]
    congr 1
    · rw [List.take_append_of_le_length (by omega), List.take_of_length_le (by omega)]
    · conv => rhs; rw [← ih (fun q hq => hR q (by simp [hq]))]
      apply List.map_congr_left
      intro y _
      simp only [Function.comp]
      congr 1
      rw [List.drop_append]
      have e : (y + 1) * h - r.length = y * h := by rw [Nat.succ_mul]; omega
      rw [e, List.drop_of_length_le (by rw [Nat.succ_mul]; omega)]
      simp

/-- the cell the rotation reads for new row `j`, new column `i` -/
def View.rotCell (v : View) (j i : Nat) : Nat :=
  (v.data[(v.top + i) * v.dataW + (v.left + v.w - 1 - j)]?).getD 0

def View.rotRows (v : View) : List (List Nat) :=
  (List.range v.w).map (fun j => (List.range v.h).map (fun i => v.rotCell j i))

theorem rotRow_ok (v : View) (hv : v.WF) (j : Nat) (hj : j < v.w) :
    rotRow v j = .ok ((List.range v.h).map (fun i => v.rotCell j i)) := by
  unfold rotRow
  apply mapME_eq_map
  intro i hi
  have hi' : i < v.h := List.mem_range.mp hi
  have := row_end_le v hv i hi'
  have hlt : (v.top + i) * v.dataW + (v.left + v.w - 1 - j) < v.data.length := by
    rw [Nat.add_comm v.top i]; omega
  rw [idx_ok _ _ hlt]
  rfl

theorem rotCell_eq (v : View) (hv : v.WF) (j i : Nat) (hj : j < v.w) (hi : i < v.h) :
    v.rotCell j i = ((v.baseRow i)[v.w - 1 - j]?).getD 0 := by
  unfold View.rotCell View.baseRow
  have h1 : v.w - 1 - j < v.w := by omega
  rw [List.getElem?_take_of_lt h1, List.getElem?_drop]
  congr 2
  rw [Nat.add_comm v.top i]; omega

theorem rotRows_eq (v : View) (hv : v.WF) :
    v.rotRows = (Img.mk v.w v.h v.baseRows).rotCCW.rows := by
  simp only [View.rotRows, Img.rotCCW, View.baseRows, List.map_map]
  apply List.map_congr_left
  intro j hj
  apply List.map_congr_left
  intro i hi
  simp only [Function.comp]
  rw [rotCell_eq v hv j i (List.mem_range.mp hj) (List.mem_range.mp hi)]
  simp [List.getD]

theorem rot_invert_rows (m : Img) (hm : m.WF) : m.invert.rotCCW = m.rotCCW.invert := by
  simp only [Img.invert, Img.rotCCW, Img.mk.injEq, true_and, List.map_map]
  apply List.map_congr_left
  intro j hj
  have hj' : j < m.w := List.mem_range.mp hj
  simp only [Function.comp, List.map_map]
  apply List.map_congr_left
  intro r hr
  have hl := hm.2 r hr
  have hlt : m.w - 1 - j < r.length := by omega
  simp [Function.comp, List.getD, hlt]

theorem rot_baseRows (v v' : View) (hd : v'.data = v.rotRows.flatten) (hW : v'.dataW = v.h)
    (hl : v'.left = 0) (ht : v'.top = 0) (hw : v'.w = v.h) (hh : v'.h = v.w) : v'.baseRows = v.rotRows := by
  have hlenR : ∀ r ∈ v.rotRows, r.length = v.h := by
    intro r hr
    simp only [View.rotRows, List.mem_map, List.mem_range] at hr
    obtain ⟨j, _, rfl⟩ := hr
    simp
  have hcount : v.rotRows.length = v.w := by simp [View.rotRows]
  have := unflatten v.rotRows v.h hlenR
  rw [hcount] at this
  rw [← this]
  simp only [View.baseRows, hh]
  apply List.map_congr_left
  intro y _
  simp only [View.baseRow, hd, hW, hl, ht, hw, Nat.add_zero]

theorem rotate_ok (v : View) (hv : v.WF) (hk : v.kind = .img) :
    ∃ v', rotateCCW v = .ok v' ∧ v'.WF ∧ v'.kind = .img ∧ v'.inv = v.inv ∧ v'.abs = v.abs.rotCCW := by
  have hrows : mapME (rotRow v) (List.range v.w) = .ok v.rotRows := by
    unfold View.rotRows
    apply mapME_eq_map
    intro j hj
    exact rotRow_ok v hv j (List.mem_range.mp hj)
  unfold rotateCCW
  rw [hk]
  simp only [hrows]
  refine ⟨_, rfl, ?_, rfl, rfl, ?_⟩
  · -- well-formed: a fresh h x w array
    have hlenR : ∀ r ∈ v.rotRows, r.length = v.h := by
      intro r hr
      simp only [View.rotRows, List.mem_map, List.mem_range] at hr
      obtain ⟨j, _, rfl⟩ := hr
      simp
    have hfl := flatten_length_const v.rotRows v.h hlenR
    have hcount : v.rotRows.length = v.w := by simp [View.rotRows]
    refine ⟨?_, ?_, ?_, ?_⟩
    · show v.h * v.w ≤ v.rotRows.flatten.length
      rw [hfl, hcount]; omega
    · show 0 + v.h ≤ v.h; omega
    · show 0 + v.w ≤ v.w; omega
    · intro p hp
      show p ≤ 255
      have hp' : p ∈ v.rotRows.flatten := hp
      obtain ⟨r, hr, hpr⟩ := List.mem_flatten.mp hp'
      simp only [View.rotRows, List.mem_map, List.mem_range] at hr
      obtain ⟨j, hj, rfl⟩ := hr
      simp only [List.mem_map, List.mem_range] at hpr
      obtain ⟨i, hi, rfl⟩ := hpr
      have := row_end_le v hv i hi
      have hlt : (v.top + i) * v.dataW + (v.left + v.w - 1 - j) < v.data.length := by
        rw [Nat.add_comm v.top i]; omega
      unfold View.rotCell
      rw [List.getElem?_eq_getElem hlt]
      exact hv.bytes _ (List.getElem_mem hlt)
  · -- denotes the rotated array
    have hbase := rot_baseRows v { kind := Kind.img, data := v.rotRows.flatten, dataW := v.h, dataH := v.w, left := 0, top := 0, w := v.h, h := v.w, inv := v.inv } rfl rfl rfl rfl rfl rfl
    unfold View.abs
    simp only [hbase]
    have hm : (Img.mk v.w v.h v.baseRows).WF := ⟨baseRows_length v, baseRows_row_length v hv⟩
    by_cases hi : v.inv
    · simp only [hi, if_true]
      rw [rot_invert_rows _ hm, rotRows_eq v hv]
      rfl
    · simp only [hi]
      rw [rotRows_eq v hv]
      rfl

theorem rotate_unsupported (v : View) (hk : v.kind ≠ .img) : rotateCCW v = .error .unsupported := by
  unfold rotateCCW
  cases h : v.kind with
  | img => exact absurd h hk
  | rgb => rfl
  | yuv => rfl

end Gzx.Luminance

namespace Gzx.Luminance
open Gzx

/-! ## the naive array: extensionality, rotation index transform, four quarter turns -/

theorem abs_WF (v : View) (hv : v.WF) : v.abs.WF := by
  unfold View.abs
  split
  · refine ⟨by simp [Img.invert, baseRows_length], ?_⟩
    intro r hr
    simp only [Img.invert, List.mem_map] at hr
    obtain ⟨r', hr', rfl⟩ := hr
    simp only [List.length_map, baseRows_row_length v hv r' hr']
    rfl
  · exact ⟨baseRows_length v, baseRows_row_length v hv⟩

theorem Img.ext_px (a b : Img) (ha : a.WF) (hb : b.WF) (hw : a.w = b.w) (hh : a.h = b.h)
    (hpx : ∀ x y, x < a.w → y < a.h → a.px x y = b.px x y) : a = b := by
  obtain ⟨aw, ah, ar⟩ := a
  obtain ⟨bw, bh, br⟩ := b
  simp only at hw hh
  subst hw hh
  obtain ⟨hal, har⟩ := ha
  obtain ⟨hbl, hbr⟩ := hb
  simp only at hal har hbl hbr hpx
  simp only [Img.mk.injEq, true_and]
  apply List.ext_getElem (by omega)
  intro y h1 h2
  have l1 := har _ (List.getElem_mem h1)
  have l2 := hbr _ (List.getElem_mem h2)
  apply List.ext_getElem (by omega)
  intro x h3 h4
  have := hpx x y (by omega) (by omega)
  simp only [Img.px, List.getD, List.getElem?_eq_getElem h1, List.getElem?_eq_getElem h2,
    Option.getD_some, List.getElem?_eq_getElem h3, List.getElem?_eq_getElem h4] at this
  exact this

theorem Img.rot_WF (m : Img) (hm : m.WF) : m.rotCCW.WF := by
  refine ⟨by simp [Img.rotCCW], ?_⟩
  intro r hr
  simp only [Img.rotCCW, List.mem_map, List.mem_range] at hr
  obtain ⟨j, _, rfl⟩ := hr
  simp only [List.length_map, hm.1]
  rfl

/-- quarter turn counter-clockwise as an index transform: `new(x, y) = old(w - 1 - y, x)` -/
theorem Img.px_rot (m : Img) (hm : m.WF) (x y : Nat) (hx : x < m.h) (hy : y < m.w) :
    m.rotCCW.px x y = m.px (m.w - 1 - y) x := by
  have hx' : x < m.rows.length := by rw [hm.1]; exact hx
  simp [Img.px, Img.rotCCW, List.getD, hy, hx']

theorem Img.rot4 (m : Img) (hm : m.WF) : m.rotCCW.rotCCW.rotCCW.rotCCW = m := by
  have w1 := Img.rot_WF m hm
  have w2 := Img.rot_WF _ w1
  have w3 := Img.rot_WF _ w2
  have w4 := Img.rot_WF _ w3
  apply Img.ext_px _ _ w4 hm rfl rfl
  intro x y hx hy
  have hx' : x < m.w := hx
  have hy' : y < m.h := hy
  have d3w : m.rotCCW.rotCCW.rotCCW.w = m.h := rfl
  have d2w : m.rotCCW.rotCCW.w = m.w := rfl
  have d2h : m.rotCCW.rotCCW.h = m.h := rfl
  have d1w : m.rotCCW.w = m.h := rfl
  have d1h : m.rotCCW.h = m.w := rfl
  rw [Img.px_rot _ w3 x y (by rw [show m.rotCCW.rotCCW.rotCCW.h = m.w from rfl]; exact hx') (by rw [d3w]; exact hy'), d3w]
  rw [Img.px_rot _ w2 (m.h - 1 - y) x (by rw [d2h]; omega) (by rw [d2w]; omega), d2w]
  rw [Img.px_rot _ w1 (m.w - 1 - x) (m.h - 1 - y) (by rw [d1h]; omega) (by rw [d1w]; omega), d1w]
  have e1 : m.h - 1 - (m.h - 1 - y) = y := by omega
  rw [e1]
  rw [Img.px_rot m hm y (m.w - 1 - x) hy' (by omega)]
  have e2 : m.w - 1 - (m.w - 1 - x) = x := by omega
  rw [e2]

end Gzx.Luminance
