/-
  Minimum distance of the Reed-Solomon code: a word of length ≤ size-1 with at most r non-zero
  symbols and r vanishing syndromes is zero (Vandermonde elimination, by induction on the support).
  Helper lemmas for Properties/C04.lean.  Core Lean only.
-/
import Gzx.Proofs.PolyOps
namespace Gzx.Proofs.MinDist
open Gzx Gzx.GF Gzx.RS Gzx.Ref.GF Gzx.Proofs.GF Gzx.Proofs.Poly

/-- `⊕ c · X^i` over a list of (coefficient, locator) pairs -/
def psum (prim : Nat) (L : List (Nat × Nat)) (i : Nat) : Nat :=
  L.foldr (fun cx acc => gmul prim cx.1 (gpow prim cx.2 i) ^^^ acc) 0

theorem psum_cons (prim : Nat) (p : Nat × Nat) (L : List (Nat × Nat)) (i : Nat) :
    psum prim (p :: L) i = gmul prim p.1 (gpow prim p.2 i) ^^^ psum prim L i := rfl

/-- number of non-zero symbols -/
def weight (w : List Nat) : Nat := (w.filter (· != 0)).length

section field
variable {prim size : Nat} (ok : ParamsOK prim size)
include ok

def PairsIn (size : Nat) (L : List (Nat × Nat)) : Prop := ∀ p, p ∈ L → p.1 < size ∧ p.2 < size

theorem psum_lt (L : List (Nat × Nat)) (i : Nat) : psum prim L i < size := by
  induction L with
  | nil => exact zero_lt_size ok
  | cons p L ih => exact xor_lt_size ok _ _ (gmul_lt ok _ _) ih

theorem gpow_succ_comm (X : Nat) (hX : X < size) (i : Nat) :
    gpow prim X (i + 1) = gmul prim X (gpow prim X i) := by
  show gmul prim (gpow prim X i) X = _
  exact gmul_comm ok _ _ (gpow_lt ok X i) hX

/-- eliminating the locator `X0`: `S''_i = S_{i+1} + X0·S_i` -/
theorem psum_elim (X0 : Nat) (hX0 : X0 < size) (i : Nat) : ∀ (L : List (Nat × Nat)), PairsIn size L →
    psum prim (L.map (fun p => (gmul prim p.1 (p.2 ^^^ X0), p.2))) i =
      psum prim L (i + 1) ^^^ gmul prim X0 (psum prim L i)
  | [], _ => by simp [psum, gmul_zero_right ok]
  | (c, X) :: L, hL => by
    have hc := (hL (c, X) (by simp)).1
    have hX := (hL (c, X) (by simp)).2
    have ih := psum_elim X0 hX0 i L (fun p hp => hL p (List.mem_cons_of_mem _ hp))
    have hg := gpow_lt ok X i
    show gmul prim (gmul prim c (X ^^^ X0)) (gpow prim X i) ^^^ psum prim (L.map _) i =
      (gmul prim c (gpow prim X (i + 1)) ^^^ psum prim L (i + 1)) ^^^
        gmul prim X0 (gmul prim c (gpow prim X i) ^^^ psum prim L i)
    rw [ih, gmul_xor_right ok X0 _ _ (gmul_lt ok _ _) (psum_lt ok L i)]
    have e : gmul prim (gmul prim c (X ^^^ X0)) (gpow prim X i) =
        gmul prim c (gpow prim X (i + 1)) ^^^ gmul prim X0 (gmul prim c (gpow prim X i)) := by
      rw [gmul_assoc ok c _ _ hc (xor_lt_size ok X X0 hX hX0) hg,
        gmul_xor_left ok X X0 _ hX hX0 hg,
        gmul_xor_right ok c _ _ (gmul_lt ok _ _) (gmul_lt ok _ _),
        gpow_succ_comm ok X hX i]
      congr 1
      rw [← gmul_assoc ok c X0 _ hc hX0 hg, gmul_comm ok c X0 hc hX0, gmul_assoc ok X0 c _ hX0 hc hg]
    rw [e]
    exact Gzx.Proofs.GF2.xor_xor_xor_comm _ _ _ _

theorem psum_all_zero (i : Nat) : ∀ (L : List (Nat × Nat)), PairsIn size L → (∀ p, p ∈ L → p.1 = 0) →
    psum prim L i = 0
  | [], _, _ => rfl
  | (c, X) :: L, hL, hz => by
    have hc : c = 0 := hz (c, X) (by simp)
    subst hc
    show gmul prim 0 _ ^^^ psum prim L i = 0
    rw [gmul_zero_left ok _ (gpow_lt ok X i), Nat.zero_xor]
    exact psum_all_zero i L (fun p hp => hL p (List.mem_cons_of_mem _ hp))
      (fun p hp => hz p (List.mem_cons_of_mem _ hp))

/-- Vandermonde: distinct locators, as many vanishing power sums as terms ⇒ all coefficients vanish -/
theorem vandermonde_aux : ∀ (n : Nat) (L : List (Nat × Nat)), L.length = n → PairsIn size L →
    L.Pairwise (fun p q => p.2 ≠ q.2) → (∀ i, i < L.length → psum prim L i = 0) →
    ∀ p, p ∈ L → p.1 = 0
  | _, [], _, _, _, _ => fun p hp => by simp at hp
  | 0, _ :: _, hn, _, _, _ => by simp at hn
  | n + 1, (c0, X0) :: L, hn, hL, hd, hs => by
    have hc0 := (hL (c0, X0) (by simp)).1
    have hX0 := (hL (c0, X0) (by simp)).2
    have hL' : PairsIn size L := fun p hp => hL p (List.mem_cons_of_mem _ hp)
    have hd' := List.pairwise_cons.1 hd
    -- eliminated system
    have hL'' : PairsIn size (L.map (fun p => (gmul prim p.1 (p.2 ^^^ X0), p.2))) := by
      intro p hp
      obtain ⟨q, hq, rfl⟩ := List.mem_map.1 hp
      exact ⟨gmul_lt ok _ _, (hL' q hq).2⟩
    have hd'' : (L.map (fun p => (gmul prim p.1 (p.2 ^^^ X0), p.2))).Pairwise (fun p q => p.2 ≠ q.2) := by
      rw [List.pairwise_map]
      exact hd'.2
    have hs'' : ∀ i, i < (L.map (fun p => (gmul prim p.1 (p.2 ^^^ X0), p.2))).length →
        psum prim (L.map (fun p => (gmul prim p.1 (p.2 ^^^ X0), p.2))) i = 0 := by
      intro i hi
      rw [List.length_map] at hi
      have h1 := hs (i + 1) (by simp; omega)
      have h2 := hs i (by simp; omega)
      -- S_{i+1}(full) + X0·S_i(full) = S''_i  (the head terms cancel)
      have hfull := psum_elim ok X0 hX0 i ((c0, X0) :: L) hL
      rw [h1, h2, gmul_zero_right ok, Nat.xor_zero] at hfull
      rw [List.map_cons, psum_cons] at hfull
      have hhead : gmul prim c0 (X0 ^^^ X0) = 0 := by rw [Nat.xor_self, gmul_zero_right ok]
      simp only [hhead] at hfull
      rw [gmul_zero_left ok _ (gpow_lt ok X0 i), Nat.zero_xor] at hfull
      exact hfull
    have ih := vandermonde_aux n _ (by simp at hn ⊢; exact hn) hL'' hd'' hs''
    have hz' : ∀ p, p ∈ L → p.1 = 0 := by
      intro p hp
      have := ih (gmul prim p.1 (p.2 ^^^ X0), p.2) (List.mem_map.2 ⟨p, hp, rfl⟩)
      rcases gmul_eq_zero ok _ _ (hL' p hp).1 (xor_lt_size ok _ _ (hL' p hp).2 hX0) this with h | h
      · exact h
      · exact absurd (xor_eq_zero h).symm (hd'.1 p hp)
    intro p hp
    rcases List.mem_cons.1 hp with rfl | hp
    · have h0 := hs 0 (by simp)
      rw [psum_cons, psum_all_zero ok 0 L hL' hz', Nat.xor_zero] at h0
      show c0 = 0
      have : gmul prim c0 (gpow prim X0 0) = c0 := gmul_one_right ok c0 hc0
      rw [← this]; exact h0
    · exact hz' p hp

theorem vandermonde (L : List (Nat × Nat)) (hL : PairsIn size L)
    (hd : L.Pairwise (fun p q => p.2 ≠ q.2)) (hs : ∀ i, i < L.length → psum prim L i = 0) :
    ∀ p, p ∈ L → p.1 = 0 := vandermonde_aux ok L.length L rfl hL hd hs

/-! ### words as power sums -/

theorem gpow_pw (m : Nat) : ∀ k, gpow prim (pw prim size m) k = pw prim size (m * k)
  | 0 => rfl
  | k + 1 => by
    show gmul prim (gpow prim (pw prim size m) k) (pw prim size m) = _
    rw [gpow_pw m k, gmul_pw_pw ok, Nat.mul_succ]

theorem evalH_cons (a : Nat) (ha : a < size) (c : Nat) (cs : List Nat) (hc : c < size) (hcs : InR size cs) :
    evalH prim a (c :: cs) = gmul prim (gpow prim a cs.length) c ^^^ evalH prim a cs := by
  have := evalH_append ok a ha [c] cs (InR.cons hc InR.nil) hcs
  rw [List.singleton_append] at this
  rw [this]
  congr 2
  show evalFrom prim a 0 [c] = c
  rw [evalFrom_cons, gmul_zero_right ok, Nat.zero_xor]; rfl

/-- (coefficient · X^b, X) for every position, X = α^(degree of the position) -/
def pairs (prim size b : Nat) : List Nat → List (Nat × Nat)
  | [] => []
  | c :: cs => (gmul prim c (pw prim size (cs.length * b)), pw prim size cs.length) :: pairs prim size b cs

theorem evalH_eq_psum (b i : Nat) : ∀ (w : List Nat), InR size w →
    evalH prim (pw prim size (i + b)) w = psum prim (pairs prim size b w) i
  | [], _ => rfl
  | c :: cs, hw => by
    rw [evalH_cons ok _ (pw_lt ok _) c cs hw.head hw.tail, evalH_eq_psum b i cs hw.tail]
    show _ = gmul prim (gmul prim c (pw prim size (cs.length * b))) (gpow prim (pw prim size cs.length) i) ^^^ _
    congr 1
    rw [gpow_pw ok, gpow_pw ok, gmul_comm ok _ c (pw_lt ok _) hw.head,
      gmul_assoc ok c _ _ hw.head (pw_lt ok _) (pw_lt ok _), gmul_pw_pw ok]
    congr 2
    rw [Nat.add_mul, Nat.mul_comm i, Nat.mul_comm b, Nat.add_comm]

theorem pairs_in (b : Nat) : ∀ (w : List Nat), PairsIn size (pairs prim size b w)
  | [] => fun p hp => by simp [pairs] at hp
  | c :: cs => by
    intro p hp
    rcases List.mem_cons.1 hp with rfl | hp
    · exact ⟨gmul_lt ok _ _, pw_lt ok _⟩
    · exact pairs_in b cs p hp

omit ok in
theorem pairs_loc (b : Nat) : ∀ (w : List Nat) (p : Nat × Nat), p ∈ pairs prim size b w →
    ∃ m, m < w.length ∧ p.2 = pw prim size m
  | [], p, hp => by simp [pairs] at hp
  | c :: cs, p, hp => by
    rcases List.mem_cons.1 hp with rfl | hp
    · exact ⟨cs.length, by simp, rfl⟩
    · obtain ⟨m, hm, h⟩ := pairs_loc b cs p hp
      exact ⟨m, by simp; omega, h⟩

theorem pairs_distinct (b : Nat) : ∀ (w : List Nat), w.length ≤ size - 1 →
    (pairs prim size b w).Pairwise (fun p q => p.2 ≠ q.2)
  | [], _ => List.Pairwise.nil
  | c :: cs, hl => by
    simp only [List.length_cons] at hl
    refine List.Pairwise.cons ?_ (pairs_distinct b cs (by omega))
    intro q hq
    obtain ⟨m, hm, h⟩ := pairs_loc b cs q hq
    rw [h]
    exact (pw_inj ok m cs.length hm (by omega)).symm

theorem psum_filter (i : Nat) : ∀ (L : List (Nat × Nat)), PairsIn size L →
    psum prim (L.filter (fun p => p.1 != 0)) i = psum prim L i
  | [], _ => rfl
  | (c, X) :: L, hL => by
    have ih := psum_filter i L (fun p hp => hL p (List.mem_cons_of_mem _ hp))
    by_cases hc : c = 0
    · subst hc
      rw [List.filter_cons_of_neg (by simp), ih, psum_cons]
      show _ = gmul prim 0 _ ^^^ _
      rw [gmul_zero_left ok _ (gpow_lt ok X i), Nat.zero_xor]
    · rw [List.filter_cons_of_pos (by simpa using hc), psum_cons, psum_cons, ih]

theorem pairs_filter_length (b : Nat) : ∀ (w : List Nat), InR size w →
    ((pairs prim size b w).filter (fun p => p.1 != 0)).length ≤ weight w
  | [], _ => Nat.le_refl _
  | c :: cs, hw => by
    have ih := pairs_filter_length b cs hw.tail
    unfold weight at *
    by_cases hc : c = 0
    · subst hc
      have : gmul prim 0 (pw prim size (cs.length * b)) = 0 := gmul_zero_left ok _ (pw_lt ok _)
      simp only [pairs, this]
      rw [List.filter_cons_of_neg (by simp), List.filter_cons_of_neg (by simp)]
      exact ih
    · rw [List.filter_cons_of_pos (l := cs) (by simpa using hc)]
      simp only [pairs, List.length_cons]
      have := List.length_filter_le (fun p : Nat × Nat => p.1 != 0)
        ((gmul prim c (pw prim size (cs.length * b)), pw prim size cs.length) :: pairs prim size b cs)
      by_cases hg : gmul prim c (pw prim size (cs.length * b)) = 0
      · rw [List.filter_cons_of_neg (by simp [hg])]; omega
      · rw [List.filter_cons_of_pos (by simpa using hg)]
        simp only [List.length_cons]; omega

theorem pairs_zero (b : Nat) : ∀ (w : List Nat), InR size w →
    (∀ p, p ∈ pairs prim size b w → p.1 = 0) → ∀ x, x ∈ w → x = 0
  | [], _, _ => fun x hx => by simp at hx
  | c :: cs, hw, hpz => by
    intro x hx
    rcases List.mem_cons.1 hx with rfl | hx
    · have := hpz (gmul prim x (pw prim size (cs.length * b)), pw prim size cs.length) (by simp [pairs])
      rcases gmul_eq_zero ok _ _ hw.head (pw_lt ok _) this with h | h
      · exact h
      · exact absurd h (pw_ne_zero ok _)
    · exact pairs_zero b cs hw.tail (fun p hp => hpz p (by simp [pairs, hp])) x hx

/-- minimum distance `r + 1`: a word of length ≤ size-1 with at most `r` non-zero symbols whose first `r`
    syndromes vanish is the zero word -/
theorem min_distance (b r : Nat) (w : List Nat) (hw : InR size w) (hl : w.length ≤ size - 1)
    (hwt : weight w ≤ r) (hz : ∀ i, i < r → evalH prim (pw prim size (i + b)) w = 0) :
    ∀ x, x ∈ w → x = 0 := by
  obtain ⟨L, hLdef⟩ : ∃ L, L = (pairs prim size b w).filter (fun p => p.1 != 0) := ⟨_, rfl⟩
  have hLin : PairsIn size L := fun p hp => pairs_in ok b w p (by rw [hLdef] at hp; exact (List.mem_filter.1 hp).1)
  have hLd : L.Pairwise (fun p q => p.2 ≠ q.2) := by rw [hLdef]; exact (pairs_distinct ok b w hl).filter _
  have hlen : L.length ≤ weight w := by rw [hLdef]; exact pairs_filter_length ok b w hw
  have hLs : ∀ i, i < L.length → psum prim L i = 0 := by
    intro i hi
    rw [hLdef, psum_filter ok i _ (pairs_in ok b w), ← evalH_eq_psum ok b i w hw]
    exact hz i (by omega)
  have hall := vandermonde ok L hLin hLd hLs
  have hLnil : L = [] := by
    cases hL : L with
    | nil => rfl
    | cons p ps =>
      exfalso
      have hp : p ∈ L := by rw [hL]; simp
      have h0 := hall p hp
      rw [hLdef] at hp
      have := (List.mem_filter.1 hp).2
      simp [h0] at this
  apply pairs_zero ok b w hw
  intro p hp
  by_cases h : p.1 = 0
  · exact h
  · exfalso
    have : p ∈ L := by rw [hLdef]; exact List.mem_filter.2 ⟨hp, by simpa using h⟩
    rw [hLnil] at this; simp at this

end field
/-! ### Hamming distance -/

theorem zipWith_xor_all_zero : ∀ (a b : List Nat), a.length = b.length →
    (∀ x, x ∈ List.zipWith (· ^^^ ·) a b → x = 0) → a = b
  | [], [], _, _ => rfl
  | [], _ :: _, h, _ => by simp at h
  | _ :: _, [], h, _ => by simp at h
  | x :: xs, y :: ys, hl, hz => by
    have h1 : x ^^^ y = 0 := hz _ (by simp)
    have h2 := zipWith_xor_all_zero xs ys (by simpa using hl) (fun z hz' => hz z (by simp [hz']))
    rw [xor_eq_zero h1, h2]

theorem weight_triangle : ∀ (a v b : List Nat), a.length = v.length → v.length = b.length →
    weight (List.zipWith (· ^^^ ·) a b) ≤ weight (List.zipWith (· ^^^ ·) a v) + weight (List.zipWith (· ^^^ ·) v b)
  | [], [], [], _, _ => Nat.le_refl _
  | [], _ :: _, _, h, _ => by simp at h
  | _ :: _, [], _, h, _ => by simp at h
  | _, [], _ :: _, _, h => by simp at h
  | _, _ :: _, [], _, h => by simp at h
  | x :: xs, y :: ys, z :: zs, h1, h2 => by
    have ih := weight_triangle xs ys zs (by simpa using h1) (by simpa using h2)
    unfold weight at *
    simp only [List.zipWith_cons_cons]
    by_cases hxz : x ^^^ z = 0
    · rw [List.filter_cons_of_neg (by simp [hxz])]
      have a1 := List.length_filter_le (· != 0) ((x ^^^ y) :: List.zipWith (· ^^^ ·) xs ys)
      have : (List.filter (· != 0) ((x ^^^ y) :: List.zipWith (· ^^^ ·) xs ys)).length ≥
          (List.filter (· != 0) (List.zipWith (· ^^^ ·) xs ys)).length := by
        by_cases hh : x ^^^ y = 0
        · rw [List.filter_cons_of_neg (by simp [hh])]; exact Nat.le_refl _
        · rw [List.filter_cons_of_pos (by simpa using hh)]; simp
      have : (List.filter (· != 0) ((y ^^^ z) :: List.zipWith (· ^^^ ·) ys zs)).length ≥
          (List.filter (· != 0) (List.zipWith (· ^^^ ·) ys zs)).length := by
        by_cases hh : y ^^^ z = 0
        · rw [List.filter_cons_of_neg (by simp [hh])]; exact Nat.le_refl _
        · rw [List.filter_cons_of_pos (by simpa using hh)]; simp
      omega
    · rw [List.filter_cons_of_pos (by simpa using hxz)]
      have hor : x ^^^ y ≠ 0 ∨ y ^^^ z ≠ 0 := by
        by_cases hh : x ^^^ y = 0
        · right
          rw [xor_eq_zero hh] at hxz; exact hxz
        · exact Or.inl hh
      rcases hor with hh | hh
      · rw [List.filter_cons_of_pos (l := List.zipWith (· ^^^ ·) xs ys) (by simpa using hh)]
        have : (List.filter (· != 0) ((y ^^^ z) :: List.zipWith (· ^^^ ·) ys zs)).length ≥
            (List.filter (· != 0) (List.zipWith (· ^^^ ·) ys zs)).length := by
          by_cases hh : y ^^^ z = 0
          · rw [List.filter_cons_of_neg (by simp [hh])]; exact Nat.le_refl _
          · rw [List.filter_cons_of_pos (by simpa using hh)]; simp
        simp only [List.length_cons]; omega
      · rw [List.filter_cons_of_pos (l := List.zipWith (· ^^^ ·) ys zs) (by simpa using hh)]
        have : (List.filter (· != 0) ((x ^^^ y) :: List.zipWith (· ^^^ ·) xs ys)).length ≥
            (List.filter (· != 0) (List.zipWith (· ^^^ ·) xs ys)).length := by
          by_cases hh : x ^^^ y = 0
          · rw [List.filter_cons_of_neg (by simp [hh])]; exact Nat.le_refl _
          · rw [List.filter_cons_of_pos (by simpa using hh)]; simp
        simp only [List.length_cons]; omega

theorem weight_append (a b : List Nat) : weight (a ++ b) = weight a + weight b := by
  unfold weight; rw [List.filter_append, List.length_append]

theorem weight_le_length (a : List Nat) : weight a ≤ a.length := List.length_filter_le _ _

theorem weight_zipWith_self : ∀ (d : List Nat), weight (List.zipWith (· ^^^ ·) d d) = 0
  | [] => rfl
  | a :: as => by
    have ih := weight_zipWith_self as
    unfold weight at *
    simp only [List.zipWith_cons_cons, Nat.xor_self]
    rw [List.filter_cons_of_neg (by simp)]
    exact ih

theorem zipWith_xor_weight_zero : ∀ (c e : List Nat), e.length = c.length → weight e = 0 →
    List.zipWith (· ^^^ ·) c e = c
  | [], [], _, _ => rfl
  | [], _ :: _, h, _ => by simp at h
  | _ :: _, [], h, _ => by simp at h
  | x :: xs, y :: ys, hl, hw => by
    unfold weight at hw
    by_cases hy : y = 0
    · subst hy
      rw [List.filter_cons_of_neg (by simp)] at hw
      simp only [List.zipWith_cons_cons, Nat.xor_zero]
      rw [zipWith_xor_weight_zero xs ys (by simpa using hl) hw]
    · rw [List.filter_cons_of_pos (by simpa using hy)] at hw
      simp at hw

/-- a word of weight ≤ 1 added to `c` changes at most one symbol of `c` -/
theorem zipWith_xor_weight_le_one : ∀ (c e : List Nat), e.length = c.length → weight e ≤ 1 →
    List.zipWith (· ^^^ ·) c e = c ∨
    ∃ (j : Nat) (hj : j < c.length) (m : Nat), m ≠ 0 ∧ m ∈ e ∧
      List.zipWith (· ^^^ ·) c e = c.set j (c[j] ^^^ m)
  | [], [], _, _ => Or.inl rfl
  | [], _ :: _, h, _ => by simp at h
  | _ :: _, [], h, _ => by simp at h
  | x :: xs, y :: ys, hl, hw => by
    have hl' : ys.length = xs.length := by simpa using hl
    by_cases hy : y = 0
    · subst hy
      have hw' : weight ys ≤ 1 := by
        unfold weight at *
        rw [List.filter_cons_of_neg (by simp)] at hw
        exact hw
      rcases zipWith_xor_weight_le_one xs ys hl' hw' with h | ⟨j, hj, m, hm0, hmem, h⟩
      · left
        simp only [List.zipWith_cons_cons, Nat.xor_zero, h]
      · right
        refine ⟨j + 1, by simp; omega, m, hm0, List.mem_cons_of_mem _ hmem, ?_⟩
        simp only [List.zipWith_cons_cons, Nat.xor_zero, h, List.set_cons_succ, List.getElem_cons_succ]
    · right
      have hw' : weight ys = 0 := by
        unfold weight at *
        rw [List.filter_cons_of_pos (by simpa using hy)] at hw
        simp only [List.length_cons] at hw
        omega
      refine ⟨0, by simp, y, hy, by simp, ?_⟩
      simp only [List.zipWith_cons_cons, zipWith_xor_weight_zero xs ys hl' hw', List.set_cons_zero,
        List.getElem_cons_zero]

theorem zipWith_xor_cancel : ∀ (c v : List Nat), v.length = c.length →
    List.zipWith (· ^^^ ·) c (List.zipWith (· ^^^ ·) c v) = v
  | [], [], _ => rfl
  | [], _ :: _, h => by simp at h
  | _ :: _, [], h => by simp at h
  | x :: xs, y :: ys, h => by
    simp only [List.zipWith_cons_cons]
    rw [zipWith_xor_cancel xs ys (by simpa using h), ← Nat.xor_assoc, Nat.xor_self, Nat.zero_xor]

end Gzx.Proofs.MinDist
