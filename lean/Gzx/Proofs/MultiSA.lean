/-
  `processStructuredAppend` (Gzx/Model/MultiSA.lean): the two-pass buffer filling equals plain
  concatenation; no `copy(dst[index:], …)` ever slices beyond its buffer.
-/
import Gzx.Model.MultiSA
namespace Gzx.MultiSA
open Gzx

theorem copyAt_spec (pre src : List Nat) (k : Nat) (h : src.length ≤ k) :
    copyAt (pre ++ List.replicate k 0) pre.length src = .ok ((pre ++ src) ++ List.replicate (k - src.length) 0) := by
  unfold copyAt
  have h1 : ¬ (pre.length > (pre ++ List.replicate k 0).length) := by simp
  simp only [h1, if_false]
  have h2 : min src.length ((pre ++ List.replicate k 0).length - pre.length) = src.length := by
    simp only [List.length_append, List.length_replicate]; omega
  rw [h2]
  congr 1
  rw [List.take_left', List.take_of_length_le (Nat.le_refl _)]
  · rw [List.drop_append]
    have : List.drop (pre.length + src.length) pre = [] := List.drop_of_length_le (by omega)
    rw [this, List.nil_append, List.drop_replicate]
    congr 2
    omega
  · rfl

theorem copyRaw_spec : ∀ (rs : List Result) (pre : List Nat) (k : Nat), (rs.map (·.raw.length)).sum = k →
    copyRaw rs (pre ++ List.replicate k 0) pre.length = .ok (pre ++ (rs.map (·.raw)).flatten) := by
  intro rs
  induction rs with
  | nil =>
    intro pre k hk
    simp only [List.map_nil, List.sum_nil] at hk
    subst hk
    simp [copyRaw]
  | cons r rs ih =>
    intro pre k hk
    simp only [List.map_cons, List.sum_cons] at hk
    unfold copyRaw
    rw [copyAt_spec pre r.raw k (by omega)]
    simp only [bind, Except.bind]
    have := ih (pre ++ r.raw) (k - r.raw.length) (by omega)
    rw [List.length_append] at this
    rw [this]
    simp

theorem copySegList_spec : ∀ (ss : List (List Nat)) (pre : List Nat) (k : Nat), (ss.map List.length).sum ≤ k →
    copySegList ss (pre ++ List.replicate k 0) pre.length =
      .ok ((pre ++ ss.flatten) ++ List.replicate (k - (ss.map List.length).sum) 0, (pre ++ ss.flatten).length) := by
  intro ss
  induction ss with
  | nil => intro pre k _; simp [copySegList]
  | cons s ss ih =>
    intro pre k hk
    simp only [List.map_cons, List.sum_cons] at hk
    unfold copySegList
    rw [copyAt_spec pre s k (by omega)]
    simp only [bind, Except.bind]
    have := ih (pre ++ s) (k - s.length) (by omega)
    rw [List.length_append] at this
    rw [this]
    simp only [List.map_cons, List.sum_cons, List.flatten_cons, List.append_assoc, List.length_append]
    have e : k - s.length - (ss.map List.length).sum = k - (s.length + (ss.map List.length).sum) := by omega
    rw [e]

theorem copySegs_spec : ∀ (rs : List Result) (pre : List Nat) (k : Nat),
    (rs.map (fun r => (r.segs.map List.length).sum)).sum = k →
    copySegs rs (pre ++ List.replicate k 0) pre.length = .ok (pre ++ (rs.map (fun r => r.segs.flatten)).flatten) := by
  intro rs
  induction rs with
  | nil =>
    intro pre k hk
    simp only [List.map_nil, List.sum_nil] at hk
    subst hk
    simp [copySegs]
  | cons r rs ih =>
    intro pre k hk
    simp only [List.map_cons, List.sum_cons] at hk
    unfold copySegs
    rw [copySegList_spec r.segs pre k (by omega)]
    simp only [bind, Except.bind]
    have := ih (pre ++ r.segs.flatten) (k - (r.segs.map List.length).sum) (by omega)
    rw [this]
    simp


/-- the merged result `processStructuredAppend` builds from the (sorted) structured-append results -/
def merged (sa : List Result) : Result :=
  { text := (sa.map (·.text)).flatten, raw := (sa.map (·.raw)).flatten, npoints := 0,
    md := if (sa.map (fun r => (r.segs.map List.length).sum)).sum > 0
          then [(kByteSegments, .segs [(sa.map (fun r => r.segs.flatten)).flatten])] else [] }

/-- `processStructuredAppend` in closed form, for EVERY `sort` function and EVERY result list -/
theorem process_eq (sort : List Result → List Result) (results : List Result) :
    process sort results =
      .ok (if results.any Result.hasSA
           then results.filter (fun r => !r.hasSA) ++ [merged (sort (results.filter Result.hasSA))]
           else results) := by
  unfold process
  cases h : results.any Result.hasSA with
  | false => simp
  | true =>
    simp only [Bool.not_true, Bool.false_eq_true, if_false, if_true]
    have h1 := copyRaw_spec (sort (results.filter Result.hasSA)) [] _ rfl
    have h2 := copySegs_spec (sort (results.filter Result.hasSA)) [] _ rfl
    simp only [List.nil_append, List.length_nil] at h1 h2
    rw [h1]
    simp only [bind, Except.bind]
    rw [h2]
    simp only [pure, Except.pure, merged]

end Gzx.MultiSA
