import Gzx.Model.OneD
import Gzx.Proofs.RunLength
import Gzx.Proofs.CheckDigit
namespace Gzx.OneD
open Gzx Gzx.CheckDigit

/-! ## full-ASCII escapes: unescape ∘ escape = id -/

theorem unescape39_plain (c : Nat) (rest : List Nat) (h : isShift39 c = false) :
    code39Unescape (c :: rest) = (code39Unescape rest).map (c :: ·) := by
  cases rest with
  | nil => simp [code39Unescape, h, Except.map]
  | cons n rest => simp [code39Unescape, h]

theorem unescape39_pair (s y d : Nat) (rest : List Nat) (hs : isShift39 s = true) (hp : pair39 s y = .ok d) :
    code39Unescape (s :: y :: rest) = (code39Unescape rest).map (d :: ·) := by
  simp [code39Unescape, hs, hp]

/-- what one escaped byte looks like: a single non-shift character equal to the byte, or a shift pair that
    `pair39` maps back to the byte — finite check over all 128 ASCII values -/
def esc39Ok (c : Nat) : Bool :=
  match code39Escape1 c with
  | .ok [x] => !isShift39 x && x == c
  | .ok [s, y] => isShift39 s && (pair39 s y == .ok c)
  | _ => false

theorem esc39_all : (List.range 128).all esc39Ok = true := by decide

theorem unescape39_escape1 (c : Nat) (hc : c < 128) (rest : List Nat) :
    ∃ e, code39Escape1 c = .ok e ∧ code39Unescape (e ++ rest) = (code39Unescape rest).map (c :: ·) := by
  have h := List.all_eq_true.mp esc39_all c (List.mem_range.mpr hc)
  unfold esc39Ok at h
  split at h
  · rename_i x hx
    simp only [Bool.and_eq_true, Bool.not_eq_true', beq_iff_eq] at h
    refine ⟨[x], hx, ?_⟩
    rw [← h.2]
    exact unescape39_plain x rest h.1
  · rename_i s y hx
    simp only [Bool.and_eq_true, beq_iff_eq] at h
    exact ⟨[s, y], hx, unescape39_pair s y c rest h.1 h.2⟩
  · cases h

theorem unescape93_plain (c : Nat) (rest : List Nat) (h : isShift93 c = false) :
    code93Unescape (c :: rest) = (code93Unescape rest).map (c :: ·) := by
  cases rest with
  | nil => simp [code93Unescape, h, Except.map]
  | cons n rest => simp [code93Unescape, h]

theorem unescape93_pair (s y d : Nat) (rest : List Nat) (hs : isShift93 s = true) (hp : pair93 s y = .ok d) :
    code93Unescape (s :: y :: rest) = (code93Unescape rest).map (d :: ·) := by
  simp [code93Unescape, hs, hp]

def esc93Ok (c : Nat) : Bool :=
  match code93Escape1 c with
  | .ok [x] => !isShift93 x && x == c
  | .ok [s, y] => isShift93 s && (pair93 s y == .ok c)
  | _ => false

theorem esc93_all : (List.range 128).all esc93Ok = true := by decide

theorem unescape93_escape1 (c : Nat) (hc : c < 128) (rest : List Nat) :
    ∃ e, code93Escape1 c = .ok e ∧ code93Unescape (e ++ rest) = (code93Unescape rest).map (c :: ·) := by
  have h := List.all_eq_true.mp esc93_all c (List.mem_range.mpr hc)
  unfold esc93Ok at h
  split at h
  · rename_i x hx
    simp only [Bool.and_eq_true, Bool.not_eq_true', beq_iff_eq] at h
    refine ⟨[x], hx, ?_⟩
    rw [← h.2]
    exact unescape93_plain x rest h.1
  · rename_i s y hx
    simp only [Bool.and_eq_true, beq_iff_eq] at h
    exact ⟨[s, y], hx, unescape93_pair s y c rest h.1 h.2⟩
  · cases h

/-! ## modules ↔ run lengths -/

theorem appendPattern_append (a b : List Nat) (c : Bool) :
    appendPattern (a ++ b) c = appendPattern a c ++ appendPattern b (if a.length % 2 = 0 then c else !c) := by
  induction a generalizing c with
  | nil => simp [appendPattern]
  | cons w ws ih =>
    simp only [List.cons_append, appendPattern, ih, List.append_assoc, List.length_cons]
    congr 2
    by_cases h : ws.length % 2 = 0
    · have : ¬ (ws.length + 1) % 2 = 0 := by omega
      simp [h, this]
    · have : (ws.length + 1) % 2 = 0 := by omega
      simp [h, this]

open RunLength in
theorem runsAux_replicate (k : Nat) (c : Bool) (rest : List Bool) (n : Nat) :
    runsAux (List.replicate k c ++ rest) c n = runsAux rest c (n + k) := by
  induction k generalizing n with
  | zero => simp
  | succ k ih =>
    simp only [List.replicate_succ, List.cons_append, runsAux, if_true]
    rw [ih]; congr 1; omega

open RunLength in
/-- the runs of a module pattern drawn from positive widths are the widths -/
theorem runsAux_appendPattern (ws : List Nat) (c : Bool) (n : Nat) (hpos : ∀ w ∈ ws, 0 < w) (hn : 0 < n) :
    runsAux (appendPattern ws (!c)) c n = n :: ws := by
  induction ws generalizing c n with
  | nil => simp [appendPattern, runsAux]
  | cons w ws ih =>
    have hw : 0 < w := hpos w (by simp)
    obtain ⟨k, rfl⟩ : ∃ k, w = k + 1 := ⟨w - 1, by omega⟩
    simp only [appendPattern, List.replicate_succ, List.cons_append, runsAux]
    have hne : ¬ (!c) = c := by cases c <;> simp
    simp only [hne, if_false]
    rw [runsAux_replicate]
    have := ih (!c) (1 + k) (fun w h => hpos w (by simp [h])) (by omega)
    rw [this]
    congr 2; omega

open RunLength in
theorem runs_appendPattern (ws : List Nat) (c : Bool) (hpos : ∀ w ∈ ws, 0 < w) :
    runs (appendPattern ws c) = ws := by
  cases ws with
  | nil => simp [appendPattern, runs]
  | cons w ws =>
    have hw : 0 < w := hpos w (by simp)
    obtain ⟨k, rfl⟩ : ∃ k, w = k + 1 := ⟨w - 1, by omega⟩
    simp only [appendPattern, List.replicate_succ, List.cons_append, runs]
    rw [runsAux_replicate]
    have := runsAux_appendPattern ws c (1 + k) (fun w h => hpos w (by simp [h])) (by omega)
    rw [this]
    congr 1; omega

/-! ## table lookup -/

theorem patIndex?_getElem (T : List (List Nat)) (h : T.Nodup) (i : Nat) (hi : i < T.length) :
    patIndex? T[i] T = some i := by
  induction T generalizing i with
  | nil => simp at hi
  | cons q qs ih =>
    rw [List.nodup_cons] at h
    cases i with
    | zero => simp [patIndex?]
    | succ j =>
      have hj : j < qs.length := by simpa using hi
      simp only [List.getElem_cons_succ, patIndex?]
      have hne : ¬ q = qs[j] := by
        intro e; apply h.1; rw [e]; exact List.getElem_mem hj
      simp [hne, ih h.2 j hj]

/-! ## chunking -/

theorem chunks_flatten (n : Nat) (xs : List (List Nat)) (last : List Nat)
    (hx : ∀ x ∈ xs, x.length = n) (hl : last.length ≤ n) (hl0 : 0 < last.length) (fuel : Nat) (hf : xs.length < fuel) :
    chunks n fuel (xs.flatten ++ last) = xs ++ [last] := by
  induction xs generalizing fuel with
  | nil =>
    obtain ⟨f, rfl⟩ : ∃ f, fuel = f + 1 := ⟨fuel - 1, by simp at hf; omega⟩
    simp [chunks, hl]
  | cons x xs ih =>
    obtain ⟨f, rfl⟩ : ∃ f, fuel = f + 1 := ⟨fuel - 1, by omega⟩
    have hxl : x.length = n := hx x (by simp)
    simp only [List.flatten_cons, List.append_assoc, chunks]
    have hgt : ¬ (x ++ (xs.flatten ++ last)).length ≤ n := by
      simp only [List.length_append]; omega
    rw [if_neg hgt]
    have ht : (x ++ (xs.flatten ++ last)).take n = x := by
      rw [List.take_append_of_le_length (by omega), List.take_of_length_le (by omega)]
    have hd : (x ++ (xs.flatten ++ last)).drop n = xs.flatten ++ last := by
      rw [← hxl]; exact List.drop_left
    rw [ht, hd, ih (fun y hy => hx y (by simp [hy])) f (by simp at hf; omega)]
    simp

end Gzx.OneD

namespace Gzx.OneD
open Gzx Gzx.CheckDigit

/-! ## drawing = one `appendPattern` of all widths -/

theorem appendPattern_even_append (a b : List Nat) (c : Bool) (h : a.length % 2 = 0) :
    appendPattern a c ++ appendPattern b c = appendPattern (a ++ b) c := by
  rw [appendPattern_append]; simp [h]

theorem flatten_map_appendPattern (ps : List (List Nat)) (c : Bool) (heven : ∀ p ∈ ps, p.length % 2 = 0) :
    (ps.map (appendPattern · c)).flatten = appendPattern ps.flatten c := by
  induction ps with
  | nil => simp [appendPattern]
  | cons p ps ih =>
    simp only [List.map_cons, List.flatten_cons]
    rw [ih (fun q hq => heven q (by simp [hq])), appendPattern_even_append _ _ _ (heven p (by simp))]

theorem flatten_length_even (ps : List (List Nat)) (heven : ∀ p ∈ ps, p.length % 2 = 0) :
    ps.flatten.length % 2 = 0 := by
  induction ps with
  | nil => simp
  | cons p ps ih =>
    have h1 := heven p (by simp)
    have h2 := ih (fun q hq => heven q (by simp [hq]))
    simp only [List.flatten_cons, List.length_append]; omega

theorem appendPattern_head (ws : List Nat) (c : Bool) (hne : ws ≠ []) (hpos : ∀ w ∈ ws, 0 < w) :
    (appendPattern ws c).head? = some c := by
  cases ws with
  | nil => exact absurd rfl hne
  | cons w ws =>
    have hw : 0 < w := hpos w (by simp)
    obtain ⟨k, rfl⟩ : ∃ k, w = k + 1 := ⟨w - 1, by omega⟩
    simp [appendPattern, List.replicate_succ]

/-! ## Except helpers -/

theorem mapM_ok {α β} (f : α → Res β) (g : α → β) (l : List α) (h : ∀ x ∈ l, f x = .ok (g x)) :
    l.mapM f = .ok (l.map g) := by
  induction l with
  | nil => rfl
  | cons a l ih =>
    simp only [List.mapM_cons, h a (by simp), ih (fun x hx => h x (by simp [hx])), List.map_cons,
      bind, Except.bind, pure, Except.pure]

theorem nth_ok {α} (l : List α) (i : Nat) (hi : i < l.length) : nth l i = .ok l[i] := by
  simp [nth, List.getElem?_eq_getElem hi]

/-! ## chunking of an exact multiple -/

theorem length_le_flatten_length (xs : List (List Nat)) (h : ∀ x ∈ xs, 1 ≤ x.length) :
    xs.length ≤ xs.flatten.length := by
  induction xs with
  | nil => simp
  | cons y ys ih =>
    have h1 := h y (by simp)
    have h2 := ih (fun x hx => h x (by simp [hx]))
    simp only [List.length_cons, List.flatten_cons, List.length_append]; omega


theorem chunks_exact (n : Nat) (hn : 0 < n) (xs : List (List Nat)) (hx : ∀ x ∈ xs, x.length = n) :
    (chunks n xs.flatten.length xs.flatten).filter (· ≠ []) = xs := by
  cases hxs : xs.reverse with
  | nil =>
    have : xs = [] := by simpa using hxs
    subst this; simp [chunks]
  | cons last ri =>
    have hx' : xs = ri.reverse ++ [last] := by
      have := congrArg List.reverse hxs
      simpa using this
    subst hx'
    have hl : last.length = n := hx last (by simp)
    have hi : ∀ x ∈ ri.reverse, x.length = n := fun x h => hx x (by simp at h ⊢; exact Or.inl h)
    have hflat : (ri.reverse ++ [last]).flatten = ri.reverse.flatten ++ last := by simp
    rw [hflat, chunks_flatten n ri.reverse last hi (by omega) (by omega)]
    · rw [List.filter_eq_self.mpr]
      intro x hxm
      have : x.length = n := hx x hxm
      have : x ≠ [] := by intro e; rw [e] at this; simp at this; omega
      simpa using this
    · simp only [List.length_append, List.length_reverse]
      have : ri.reverse.length ≤ ri.reverse.flatten.length :=
        length_le_flatten_length _ (fun x h => by have := hi x h; omega)
      simp only [List.length_reverse] at this
      omega

end Gzx.OneD

namespace Gzx.OneD
open Gzx Gzx.CheckDigit

/-! ## Code 128 table well-formedness and lookups -/

def WF128 (P : List (List Nat)) : Bool :=
  P.length == 107 && (P.take 106).all (fun p => p.length == 6 && p.all (0 < ·)) &&
  (P.drop 106).all (fun p => p.length == 7 && p.all (0 < ·)) && decide P.Nodup

theorem take_all_getD (P : List (List Nat)) (n : Nat) (f : List Nat → Bool) (h : (P.take n).all f = true)
    (i : Nat) (hi : i < n) (hi' : i < P.length) : f (P.getD i []) = true := by
  have hm : P.getD i [] ∈ P.take n := by
    have : (P.take n)[i]'(by simp; omega) = P.getD i [] := by
      simp [List.getElem_take, List.getD_eq_getElem?_getD, List.getElem?_eq_getElem hi']
    rw [← this]; exact List.getElem_mem _
  exact List.all_eq_true.mp h _ hm

theorem flatten_length_const (xs : List (List Nat)) (n : Nat) (h : ∀ x ∈ xs, x.length = n) :
    xs.flatten.length = n * xs.length := by
  induction xs with
  | nil => simp
  | cons y ys ih =>
    have h1 := h y (by simp)
    have h2 := ih (fun x hx => h x (by simp [hx]))
    simp only [List.flatten_cons, List.length_append, List.length_cons, h1, h2, Nat.mul_add]; omega

theorem nth_getD (P : List (List Nat)) (i : Nat) (hi : i < P.length) : nth P i = .ok (P.getD i []) := by
  simp [nth, List.getD_eq_getElem?_getD, List.getElem?_eq_getElem hi]

theorem patIndex?_getD (P : List (List Nat)) (h : P.Nodup) (i : Nat) (hi : i < P.length) :
    patIndex? (P.getD i []) P = some i := by
  have : P.getD i [] = P[i] := by simp [List.getD_eq_getElem?_getD, List.getElem?_eq_getElem hi]
  rw [this]; exact patIndex?_getElem P h i hi


end Gzx.OneD

namespace Gzx.OneD
open Gzx Gzx.CheckDigit

/-! ## ITF helpers -/

def WFITF (T : Tables) : Bool :=
  T.itfWriter.length == 10 && T.itfWriter.all (fun p => p.length == 5 && p.all (0 < ·)) &&
  decide T.itfWriter.Nodup &&
  T.itfStart.length == 4 && T.itfStart.all (0 < ·) && T.itfEnd.length == 3 && T.itfEnd.all (0 < ·)

theorem interleave_length (a b : List Nat) (h : a.length = b.length) : (interleave a b).length = 2 * a.length := by
  induction a generalizing b with
  | nil => cases b <;> simp [interleave]
  | cons x xs ih =>
    cases b with
    | nil => simp at h
    | cons y ys =>
      simp only [List.length_cons, Nat.add_right_cancel_iff] at h
      simp only [interleave, List.length_cons, ih ys h]; omega

theorem interleave_mem (a b : List Nat) (x : Nat) (h : x ∈ interleave a b) : x ∈ a ∨ x ∈ b := by
  induction a generalizing b with
  | nil => cases b <;> simp [interleave] at h
  | cons p ps ih =>
    cases b with
    | nil => simp [interleave] at h
    | cons q qs =>
      simp only [interleave, List.mem_cons] at h ⊢
      rcases h with rfl | rfl | h
      · exact Or.inl (Or.inl rfl)
      · exact Or.inr (Or.inl rfl)
      · rcases ih qs h with h | h
        · exact Or.inl (Or.inr h)
        · exact Or.inr (Or.inr h)

theorem deinterleave_interleave (a b : List Nat) (h : a.length = b.length) : deinterleave (interleave a b) = (a, b) := by
  induction a generalizing b with
  | nil => cases b with
    | nil => simp [interleave, deinterleave]
    | cons y ys => simp at h
  | cons x xs ih =>
    cases b with
    | nil => simp at h
    | cons y ys =>
      simp only [List.length_cons, Nat.add_right_cancel_iff] at h
      simp [interleave, deinterleave, ih ys h]

theorem itfPairs_mem (ds : List Nat) (p : Nat × Nat) (h : p ∈ itfPairs ds) : p.1 ∈ ds ∧ p.2 ∈ ds := by
  match ds with
  | [] => simp [itfPairs] at h
  | [_] => simp [itfPairs] at h
  | a :: b :: rest =>
    simp only [itfPairs, List.mem_cons] at h
    rcases h with rfl | h
    · simp
    · have := itfPairs_mem rest p h
      exact ⟨by simp [this.1], by simp [this.2]⟩

theorem itfPairs_flatten (ds : List Nat) (h : ds.length % 2 = 0) :
    ((itfPairs ds).map (fun p => [p.1, p.2])).flatten = ds := by
  match ds with
  | [] => simp [itfPairs]
  | [_] => simp at h
  | a :: b :: rest =>
    have h' : rest.length % 2 = 0 := by simp at h; omega
    simp [itfPairs, itfPairs_flatten rest h']

theorem all_getD (P : List (List Nat)) (f : List Nat → Bool) (h : P.all f = true) (i : Nat) (hi : i < P.length) :
    f (P.getD i []) = true := by
  have : P.getD i [] = P[i] := by simp [List.getD_eq_getElem?_getD, List.getElem?_eq_getElem hi]
  rw [this]; exact List.all_eq_true.mp h _ (List.getElem_mem hi)


theorem digitVals_roundtrip (bs : List Nat) (h : allDigits bs = true) : (digitVals bs).map (· + 48) = bs := by
  induction bs with
  | nil => rfl
  | cons b bs ih =>
    simp only [allDigits, List.all_cons, Bool.and_eq_true] at h
    have hb := h.1
    simp only [isDigitByte, Bool.and_eq_true, decide_eq_true_eq] at hb
    have := ih h.2
    simp only [digitVals, List.map_cons, List.map_map] at this ⊢
    rw [this]; congr 1; omega

theorem digitVals_lt (bs : List Nat) (h : allDigits bs = true) : ∀ d ∈ digitVals bs, d < 10 := by
  intro d hd
  simp only [digitVals, List.mem_map] at hd
  obtain ⟨b, hb, rfl⟩ := hd
  have := List.all_eq_true.mp h b hb
  simp only [isDigitByte, Bool.and_eq_true, decide_eq_true_eq] at this
  omega

end Gzx.OneD

namespace Gzx.OneD
open Gzx Gzx.CheckDigit

/-! ## alphabet lookups -/

theorem alphaIndex_nth (A : List Nat) (c i : Nat) (h : alphaIndex A c = .ok i) : nth A i = .ok c := by
  unfold alphaIndex at h
  split at h
  · rename_i j hj
    cases h
    simp [nth, indexOf?_get hj]
  · cases h

theorem mapM_alphaIndex_nth (A : List Nat) (l syms : List Nat) (h : l.mapM (alphaIndex A) = .ok syms) :
    syms.mapM (nth A) = .ok l := by
  induction l generalizing syms with
  | nil =>
    simp only [List.mapM_nil, pure, Except.pure] at h
    cases h; rfl
  | cons c cs ih =>
    simp only [List.mapM_cons, bind, Except.bind] at h
    split at h
    · cases h
    · rename_i i hi
      split at h
      · cases h
      · rename_i rest hrest
        simp only [pure, Except.pure] at h
        cases h
        simp only [List.mapM_cons, alphaIndex_nth A c i hi, ih rest hrest, bind, Except.bind, pure, Except.pure]


end Gzx.OneD
