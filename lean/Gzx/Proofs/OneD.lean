import Gzx.Model.OneD
import Gzx.Proofs.RunLength
import Gzx.Proofs.CheckDigit
namespace Gzx.OneD
open Gzx Gzx.CheckDigit

/-! ## full-ASCII escapes: unescape ∘ escape = id -/

theorem unescape39_plain (c : Nat) (rest : List Nat) (h : isShift39 c = false) :
    code39Unescape (c :: rest) = (code39Unescape rest).map (c :: ·) := by
  cases rest with
  | nil => simp [code39Unescape, h, Except.map]
  | cons n rest => simp [code39Unescape, h]

theorem unescape39_pair (s y d : Nat) (rest : List Nat) (hs : isShift39 s = true) (hp : pair39 s y = .ok d) :
    code39Unescape (s :: y :: rest) = (code39Unescape rest).map (d :: ·) := by
  simp [code39Unescape, hs, hp]

/-- what one escaped byte looks like: a single non-shift character equal to the byte, or a shift pair that
    `pair39` maps back to the byte — finite check over all 128 ASCII values -/
def esc39Ok (c : Nat) : Bool :=
  match code39Escape1 c with
  | .ok [x] => !isShift39 x && x == c
  | .ok [s, y] => isShift39 s && (pair39 s y == .ok c)
  | _ => false

theorem esc39_all : (List.range 128).all esc39Ok = true := by decide

theorem unescape39_escape1 (c : Nat) (hc : c < 128) (rest : List Nat) :
    ∃ e, code39Escape1 c = .ok e ∧ code39Unescape (e ++ rest) = (code39Unescape rest).map (c :: ·) := by
  have h := List.all_eq_true.mp esc39_all c (List.mem_range.mpr hc)
  unfold esc39Ok at h
  split at h
  · rename_i x hx
    simp only [Bool.and_eq_true, Bool.not_eq_true', beq_iff_eq] at h
    refine ⟨[x], hx, ?_⟩
    rw [← h.2]
    exact unescape39_plain x rest h.1
  · rename_i s y hx
    simp only [Bool.and_eq_true, beq_iff_eq] at h
    exact ⟨[s, y], hx, unescape39_pair s y c rest h.1 h.2⟩
  · cases h

theorem unescape93_plain (c : Nat) (rest : List Nat) (h : isShift93 c = false) :
    code93Unescape (c :: rest) = (code93Unescape rest).map (c :: ·) := by
  cases rest with
  | nil => simp [code93Unescape, h, Except.map]
  | cons n rest => simp [code93Unescape, h]

theorem unescape93_pair (s y d : Nat) (rest : List Nat) (hs : isShift93 s = true) (hp : pair93 s y = .ok d) :
    code93Unescape (s :: y :: rest) = (code93Unescape rest).map (d :: ·) := by
  simp [code93Unescape, hs, hp]

def esc93Ok (c : Nat) : Bool :=
  match code93Escape1 c with
  | .ok [x] => !isShift93 x && x == c
  | .ok [s, y] => isShift93 s && (pair93 s y == .ok c)
  | _ => false

theorem esc93_all : (List.range 128).all esc93Ok = true := by decide

theorem unescape93_escape1 (c : Nat) (hc : c < 128) (rest : List Nat) :
    ∃ e, code93Escape1 c = .ok e ∧ code93Unescape (e ++ rest) = (code93Unescape rest).map (c :: ·) := by
  have h := List.all_eq_true.mp esc93_all c (List.mem_range.mpr hc)
  unfold esc93Ok at h
  split at h
  · rename_i x hx
    simp only [Bool.and_eq_true, Bool.not_eq_true', beq_iff_eq] at h
    refine ⟨[x], hx, ?_⟩
    rw [← h.2]
    exact unescape93_plain x rest h.1
  · rename_i s y hx
    simp only [Bool.and_eq_true, beq_iff_eq] at h
    exact ⟨[s, y], hx, unescape93_pair s y c rest h.1 h.2⟩
  · cases h

/-! ## modules ↔ run lengths -/

theorem appendPattern_append (a b : List Nat) (c : Bool) :
    appendPattern (a ++ b) c = appendPattern a c ++ appendPattern b (if a.length % 2 = 0 then c else !c) := by
  induction a generalizing c with
  | nil => simp [appendPattern]
  | cons w ws ih =>
    simp only [List.cons_append, appendPattern, ih, List.append_assoc, List.length_cons]
    congr 2
    by_cases h : ws.length % 2 = 0
    · have : ¬ (ws.length + 1) % 2 = 0 := by omega
      simp [h, this]
    · have : (ws.length + 1) % 2 = 0 := by omega
      simp [h, this]

open RunLength in
theorem runsAux_replicate (k : Nat) (c : Bool) (rest : List Bool) (n : Nat) :
    runsAux (List.replicate k c ++ rest) c n = runsAux rest c (n + k) := by
  induction k generalizing n with
  | zero => simp
  | succ k ih =>
    simp only [List.replicate_succ, List.cons_append, runsAux, if_true]
    rw [ih]; congr 1; omega

open RunLength in
/-- the runs of a module pattern drawn from positive widths are the widths -/
theorem runsAux_appendPattern (ws : List Nat) (c : Bool) (n : Nat) (hpos : ∀ w ∈ ws, 0 < w) (hn : 0 < n) :
    runsAux (appendPattern ws (!c)) c n = n :: ws := by
  induction ws generalizing c n with
  | nil => simp [appendPattern, runsAux]
  | cons w ws ih =>
    have hw : 0 < w := hpos w (by simp)
    obtain ⟨k, rfl⟩ : ∃ k, w = k + 1 := ⟨w - 1, by omega⟩
    simp only [appendPattern, List.replicate_succ, List.cons_append, runsAux]
    have hne : ¬ (!c) = c := by cases c <;> simp
    simp only [hne, if_false]
    rw [runsAux_replicate]
    have := ih (!c) (1 + k) (fun w h => hpos w (by simp [h])) (by omega)
    rw [this]
    congr 2; omega

open RunLength in
theorem runs_appendPattern (ws : List Nat) (c : Bool) (hpos : ∀ w ∈ ws, 0 < w) :
    runs (appendPattern ws c) = ws := by
  cases ws with
  | nil => simp [appendPattern, runs]
  | cons w ws =>
    have hw : 0 < w := hpos w (by simp)
    obtain ⟨k, rfl⟩ : ∃ k, w = k + 1 := ⟨w - 1, by omega⟩
    simp only [appendPattern, List.replicate_succ, List.cons_append, runs]
    rw [runsAux_replicate]
    have := runsAux_appendPattern ws c (1 + k) (fun w h => hpos w (by simp [h])) (by omega)
    rw [this]
    congr 1; omega

/-! ## table lookup -/

theorem patIndex?_getElem (T : List (List Nat)) (h : T.Nodup) (i : Nat) (hi : i < T.length) :
    patIndex? T[i] T = some i := by
  induction T generalizing i with
  | nil => simp at hi
  | cons q qs ih =>
    rw [List.nodup_cons] at h
    cases i with
    | zero => simp [patIndex?]
    | succ j =>
      have hj : j < qs.length := by simpa using hi
      simp only [List.getElem_cons_succ, patIndex?]
      have hne : ¬ q = qs[j] := by
        intro e; apply h.1; rw [e]; exact List.getElem_mem hj
      simp [hne, ih h.2 j hj]

/-! ## chunking -/

theorem chunks_flatten (n : Nat) (xs : List (List Nat)) (last : List Nat)
    (hx : ∀ x ∈ xs, x.length = n) (hl : last.length ≤ n) (hl0 : 0 < last.length) (fuel : Nat) (hf : xs.length < fuel) :
    chunks n fuel (xs.flatten ++ last) = xs ++ [last] := by
  induction xs generalizing fuel with
  | nil =>
    obtain ⟨f, rfl⟩ : ∃ f, fuel = f + 1 := ⟨fuel - 1, by simp at hf; omega⟩
    simp [chunks, hl]
  | cons x xs ih =>
    obtain ⟨f, rfl⟩ : ∃ f, fuel = f + 1 := ⟨fuel - 1, by omega⟩
    have hxl : x.length = n := hx x (by simp)
    simp only [List.flatten_cons, List.append_assoc, chunks]
    have hgt : ¬ (x ++ (xs.flatten ++ last)).length ≤ n := by
      simp only [List.length_append]; omega
    rw [if_neg hgt]
    have ht : (x ++ (xs.flatten ++ last)).take n = x := by
      rw [List.take_append_of_le_length (by omega), List.take_of_length_le (by omega)]
    have hd : (x ++ (xs.flatten ++ last)).drop n = xs.flatten ++ last := by
      rw [← hxl]; exact List.drop_left
    rw [ht, hd, ih (fun y hy => hx y (by simp [hy])) f (by simp at hf; omega)]
    simp

end Gzx.OneD

namespace Gzx.OneD
open Gzx Gzx.CheckDigit

/-! ## drawing = one `appendPattern` of all widths -/

theorem appendPattern_even_append (a b : List Nat) (c : Bool) (h : a.length % 2 = 0) :
    appendPattern a c ++ appendPattern b c = appendPattern (a ++ b) c := by
  rw [appendPattern_append]; simp [h]

theorem flatten_map_appendPattern (ps : List (List Nat)) (c : Bool) (heven : ∀ p ∈ ps, p.length % 2 = 0) :
    (ps.map (appendPattern · c)).flatten = appendPattern ps.flatten c := by
  induction ps with
  | nil => simp [appendPattern]
  | cons p ps ih =>
    simp only [List.map_cons, List.flatten_cons]
    rw [ih (fun q hq => heven q (by simp [hq])), appendPattern_even_append _ _ _ (heven p (by simp))]

theorem flatten_length_even (ps : List (List Nat)) (heven : ∀ p ∈ ps, p.length % 2 = 0) :
    ps.flatten.length % 2 = 0 := by
  induction ps with
  | nil => simp
  | cons p ps ih =>
    have h1 := heven p (by simp)
    have h2 := ih (fun q hq => heven q (by simp [hq]))
    simp only [List.flatten_cons, List.length_append]; omega

theorem appendPattern_head (ws : List Nat) (c : Bool) (hne : ws ≠ []) (hpos : ∀ w ∈ ws, 0 < w) :
    (appendPattern ws c).head? = some c := by
  cases ws with
  | nil => exact absurd rfl hne
  | cons w ws =>
    have hw : 0 < w := hpos w (by simp)
    obtain ⟨k, rfl⟩ : ∃ k, w = k + 1 := ⟨w - 1, by omega⟩
    simp [appendPattern, List.replicate_succ]

/-! ## Except helpers -/

theorem mapM_ok {α β} (f : α → Res β) (g : α → β) (l : List α) (h : ∀ x ∈ l, f x = .ok (g x)) :
    l.mapM f = .ok (l.map g) := by
  induction l with
  | nil => rfl
  | cons a l ih =>
    simp only [List.mapM_cons, h a (by simp), ih (fun x hx => h x (by simp [hx])), List.map_cons,
      bind, Except.bind, pure, Except.pure]

theorem nth_ok {α} (l : List α) (i : Nat) (hi : i < l.length) : nth l i = .ok l[i] := by
  simp [nth, List.getElem?_eq_getElem hi]

/-! ## chunking of an exact multiple -/

theorem length_le_flatten_length (xs : List (List Nat)) (h : ∀ x ∈ xs, 1 ≤ x.length) :
    xs.length ≤ xs.flatten.length := by
  induction xs with
  | nil => simp
  | cons y ys ih =>
    have h1 := h y (by simp)
    have h2 := ih (fun x hx => h x (by simp [hx]))
    simp only [List.length_cons, List.flatten_cons, List.length_append]; omega


theorem chunks_exact (n : Nat) (hn : 0 < n) (xs : List (List Nat)) (hx : ∀ x ∈ xs, x.length = n) :
    (chunks n xs.flatten.length xs.flatten).filter (· ≠ []) = xs := by
  cases hxs : xs.reverse with
  | nil =>
    have : xs = [] := by simpa using hxs
    subst this; simp [chunks]
  | cons last ri =>
    have hx' : xs = ri.reverse ++ [last] := by
      have := congrArg List.reverse hxs
      simpa using this
    subst hx'
    have hl : last.length = n := hx last (by simp)
    have hi : ∀ x ∈ ri.reverse, x.length = n := fun x h => hx x (by simp at h ⊢; exact Or.inl h)
    have hflat : (ri.reverse ++ [last]).flatten = ri.reverse.flatten ++ last := by simp
    rw [hflat, chunks_flatten n ri.reverse last hi (by omega) (by omega)]
    · rw [List.filter_eq_self.mpr]
      intro x hxm
      have : x.length = n := hx x hxm
      have : x ≠ [] := by intro e; rw [e] at this; simp at this; omega
      simpa using this
    · simp only [List.length_append, List.length_reverse]
      have : ri.reverse.length ≤ ri.reverse.flatten.length :=
        length_le_flatten_length _ (fun x h => by have := hi x h; omega)
      simp only [List.length_reverse] at this
      omega

end Gzx.OneD

namespace Gzx.OneD
open Gzx Gzx.CheckDigit

/-! ## Code 128 table well-formedness and lookups -/

def WF128 (P : List (List Nat)) : Bool :=
  P.length == 107 && (P.take 106).all (fun p => p.length == 6 && p.all (0 < ·)) &&
  (P.drop 106).all (fun p => p.length == 7 && p.all (0 < ·)) && decide P.Nodup

theorem take_all_getD (P : List (List Nat)) (n : Nat) (f : List Nat → Bool) (h : (P.take n).all f = true)
    (i : Nat) (hi : i < n) (hi' : i < P.length) : f (P.getD i []) = true := by
  have hm : P.getD i [] ∈ P.take n := by
    have : (P.take n)[i]'(by simp; omega) = P.getD i [] := by
      simp [List.getElem_take, List.getD_eq_getElem?_getD, List.getElem?_eq_getElem hi']
    rw [← this]; exact List.getElem_mem _
  exact List.all_eq_true.mp h _ hm

theorem flatten_length_const (xs : List (List Nat)) (n : Nat) (h : ∀ x ∈ xs, x.length = n) :
    xs.flatten.length = n * xs.length := by
  induction xs with
  | nil => simp
  | cons y ys ih =>
    have h1 := h y (by simp)
    have h2 := ih (fun x hx => h x (by simp [hx]))
    simp only [List.flatten_cons, List.length_append, List.length_cons, h1, h2, Nat.mul_add]; omega

theorem nth_getD (P : List (List Nat)) (i : Nat) (hi : i < P.length) : nth P i = .ok (P.getD i []) := by
  simp [nth, List.getD_eq_getElem?_getD, List.getElem?_eq_getElem hi]

theorem patIndex?_getD (P : List (List Nat)) (h : P.Nodup) (i : Nat) (hi : i < P.length) :
    patIndex? (P.getD i []) P = some i := by
  have : P.getD i [] = P[i] := by simp [List.getD_eq_getElem?_getD, List.getElem?_eq_getElem hi]
  rw [this]; exact patIndex?_getElem P h i hi


end Gzx.OneD

namespace Gzx.OneD
open Gzx Gzx.CheckDigit

/-! ## ITF helpers -/

def WFITF (T : Tables) : Bool :=
  T.itfWriter.length == 10 && T.itfWriter.all (fun p => p.length == 5 && p.all (0 < ·)) &&
  decide T.itfWriter.Nodup &&
  T.itfStart.length == 4 && T.itfStart.all (0 < ·) && T.itfEnd.length == 3 && T.itfEnd.all (0 < ·)

theorem interleave_length (a b : List Nat) (h : a.length = b.length) : (interleave a b).length = 2 * a.length := by
  induction a generalizing b with
  | nil => cases b <;> simp [interleave]
  | cons x xs ih =>
    cases b with
    | nil => simp at h
    | cons y ys =>
      simp only [List.length_cons, Nat.add_right_cancel_iff] at h
      simp only [interleave, List.length_cons, ih ys h]; omega

theorem interleave_mem (a b : List Nat) (x : Nat) (h : x ∈ interleave a b) : x ∈ a ∨ x ∈ b := by
  induction a generalizing b with
  | nil => cases b <;> simp [interleave] at h
  | cons p ps ih =>
    cases b with
    | nil => simp [interleave] at h
    | cons q qs =>
      simp only [interleave, List.mem_cons] at h ⊢
      rcases h with rfl | rfl | h
      · exact Or.inl (Or.inl rfl)
      · exact Or.inr (Or.inl rfl)
      · rcases ih qs h with h | h
        · exact Or.inl (Or.inr h)
        · exact Or.inr (Or.inr h)

theorem deinterleave_interleave (a b : List Nat) (h : a.length = b.length) : deinterleave (interleave a b) = (a, b) := by
  induction a generalizing b with
  | nil => cases b with
    | nil => simp [interleave, deinterleave]
    | cons y ys => simp at h
  | cons x xs ih =>
    cases b with
    | nil => simp at h
    | cons y ys =>
      simp only [List.length_cons, Nat.add_right_cancel_iff] at h
      simp [interleave, deinterleave, ih ys h]

theorem itfPairs_mem (ds : List Nat) (p : Nat × Nat) (h : p ∈ itfPairs ds) : p.1 ∈ ds ∧ p.2 ∈ ds := by
  match ds with
  | [] => simp [itfPairs] at h
  | [_] => simp [itfPairs] at h
  | a :: b :: rest =>
    simp only [itfPairs, List.mem_cons] at h
    rcases h with rfl | h
    · simp
    · have := itfPairs_mem rest p h
      exact ⟨by simp [this.1], by simp [this.2]⟩

theorem itfPairs_flatten (ds : List Nat) (h : ds.length % 2 = 0) :
    ((itfPairs ds).map (fun p => [p.1, p.2])).flatten = ds := by
  match ds with
  | [] => simp [itfPairs]
  | [_] => simp at h
  | a :: b :: rest =>
    have h' : rest.length % 2 = 0 := by simp at h; omega
    simp [itfPairs, itfPairs_flatten rest h']

theorem all_getD (P : List (List Nat)) (f : List Nat → Bool) (h : P.all f = true) (i : Nat) (hi : i < P.length) :
    f (P.getD i []) = true := by
  have : P.getD i [] = P[i] := by simp [List.getD_eq_getElem?_getD, List.getElem?_eq_getElem hi]
  rw [this]; exact List.all_eq_true.mp h _ (List.getElem_mem hi)


theorem digitVals_roundtrip (bs : List Nat) (h : allDigits bs = true) : (digitVals bs).map (· + 48) = bs := by
  induction bs with
  | nil => rfl
  | cons b bs ih =>
    simp only [allDigits, List.all_cons, Bool.and_eq_true] at h
    have hb := h.1
    simp only [isDigitByte, Bool.and_eq_true, decide_eq_true_eq] at hb
    have := ih h.2
    simp only [digitVals, List.map_cons, List.map_map] at this ⊢
    rw [this]; congr 1; omega

theorem digitVals_lt (bs : List Nat) (h : allDigits bs = true) : ∀ d ∈ digitVals bs, d < 10 := by
  intro d hd
  simp only [digitVals, List.mem_map] at hd
  obtain ⟨b, hb, rfl⟩ := hd
  have := List.all_eq_true.mp h b hb
  simp only [isDigitByte, Bool.and_eq_true, decide_eq_true_eq] at this
  omega

end Gzx.OneD

namespace Gzx.OneD
open Gzx Gzx.CheckDigit

/-! ## alphabet lookups -/

theorem alphaIndex_nth (A : List Nat) (c i : Nat) (h : alphaIndex A c = .ok i) : nth A i = .ok c := by
  unfold alphaIndex at h
  split at h
  · rename_i j hj
    cases h
    simp [nth, indexOf?_get hj]
  · cases h

theorem mapM_alphaIndex_nth (A : List Nat) (l syms : List Nat) (h : l.mapM (alphaIndex A) = .ok syms) :
    syms.mapM (nth A) = .ok l := by
  induction l generalizing syms with
  | nil =>
    simp only [List.mapM_nil, pure, Except.pure] at h
    cases h; rfl
  | cons c cs ih =>
    simp only [List.mapM_cons, bind, Except.bind] at h
    split at h
    · cases h
    · rename_i i hi
      split at h
      · cases h
      · rename_i rest hrest
        simp only [pure, Except.pure] at h
        cases h
        simp only [List.mapM_cons, alphaIndex_nth A c i hi, ih rest hrest, bind, Except.bind, pure, Except.pure]


end Gzx.OneD

set_option linter.unusedSimpArgs false
namespace Gzx.OneD
open Gzx Gzx.CheckDigit

/-! ## Code 128: writer loop vs reader state machine -/

/-- the part of the reader state the writer's output can reach: no SHIFT pending, no FNC4 mode -/
def StOk (s : C128St) (cs : Nat) (res : List Nat) (tot m cd : Nat) : Prop :=
  s.upper = false ∧ s.shiftUpper = false ∧ s.nextShifted = false ∧
  s.codeSet = cs ∧ s.result = res ∧ s.total = tot ∧ s.mult = m ∧ s.code = cd

/-- what one symbol character does to such a state: output bytes (in order) and the next code set -/
def emitOf (cs code : Nat) : Option (List Nat × Nat) :=
  if cs = 101 then
    if code < 64 then some ([32 + code], 101)
    else if code < 96 then some ([code - 64], 101)
    else if code = 100 then some ([], 100)
    else if code = 99 then some ([], 99)
    else none
  else if cs = 100 then
    if code < 96 then some ([32 + code], 100)
    else if code = 101 then some ([], 101)
    else if code = 99 then some ([], 99)
    else none
  else if cs = 99 then
    if code < 100 then some ([48 + code / 10, 48 + code % 10], 99)
    else if code = 101 then some ([], 101)
    else if code = 100 then some ([], 100)
    else none
  else none

/-- result of a step as a proposition about the new state (no witness needed) -/
def StepTo (r : Res (C128St × Bool)) (done : Bool) (P : C128St → Prop) : Prop :=
  match r with
  | .ok (s', d) => d = done ∧ P s'
  | .error _ => False

theorem step_emit (s : C128St) (cs : Nat) (res : List Nat) (tot m cd code : Nat) (out : List Nat) (cs' : Nat)
    (hs : StOk s cs res tot m cd) (he : emitOf cs code = some (out, cs')) :
    StepTo (c128Step s code) false (fun s' => StOk s' cs' (out.reverse ++ res) (tot + (m + 1) * code) (m + 1) code ∧
      s'.lastCode = cd ∧ s'.lastPrintable = !out.isEmpty) := by
  obtain ⟨h1, h2, h3, h4, h5, h6, h7, h8⟩ := hs
  unfold emitOf at he
  by_cases hA : cs = 101
  · subst hA
    simp only [if_true] at he
    by_cases c1 : code < 64
    · simp only [c1, if_true, Option.some.injEq, Prod.mk.injEq] at he
      obtain ⟨rfl, rfl⟩ := he
      unfold c128Step
      have n1 : code ≠ 106 := by omega
      have n2 : ¬ (code = 103 ∨ code = 104 ∨ code = 105) := by omega
      simp [StepTo, StOk, h1, h2, h3, h4, h5, h6, h7, h8, n1, n2, c1]
    · by_cases c2 : code < 96
      · simp only [c1, c2, if_true, if_false, Option.some.injEq, Prod.mk.injEq] at he
        obtain ⟨rfl, rfl⟩ := he
        unfold c128Step
        have n1 : code ≠ 106 := by omega
        have n2 : ¬ (code = 103 ∨ code = 104 ∨ code = 105) := by omega
        simp [StepTo, StOk, h1, h2, h3, h4, h5, h6, h7, h8, n1, n2, c1, c2]
      · by_cases c3 : code = 100
        · subst c3
          simp only [Option.some.injEq, Prod.mk.injEq] at he
          simp at he
          obtain ⟨rfl, rfl⟩ := he
          unfold c128Step
          simp [StepTo, StOk, h1, h2, h3, h4, h5, h6, h7, h8]
        · by_cases c4 : code = 99
          · subst c4
            simp at he
            obtain ⟨rfl, rfl⟩ := he
            unfold c128Step
            simp [StepTo, StOk, h1, h2, h3, h4, h5, h6, h7, h8]
          · simp [c1, c2, c3, c4] at he
  · by_cases hB : cs = 100
    · subst hB
      simp only [if_true] at he
      simp at he
      by_cases c1 : code < 96
      · simp only [c1, if_true, Option.some.injEq, Prod.mk.injEq] at he
        obtain ⟨rfl, rfl⟩ := he
        unfold c128Step
        have n1 : code ≠ 106 := by omega
        have n2 : ¬ (code = 103 ∨ code = 104 ∨ code = 105) := by omega
        simp [StepTo, StOk, h1, h2, h3, h4, h5, h6, h7, h8, n1, n2, c1]
      · by_cases c3 : code = 101
        · subst c3
          simp at he
          obtain ⟨rfl, rfl⟩ := he
          unfold c128Step
          simp [StepTo, StOk, h1, h2, h3, h4, h5, h6, h7, h8]
        · by_cases c4 : code = 99
          · subst c4
            simp at he
            obtain ⟨rfl, rfl⟩ := he
            unfold c128Step
            simp [StepTo, StOk, h1, h2, h3, h4, h5, h6, h7, h8]
          · simp [c1, c3, c4] at he
    · by_cases hC : cs = 99
      · subst hC
        simp at he
        by_cases c1 : code < 100
        · simp only [c1, if_true, Option.some.injEq, Prod.mk.injEq] at he
          obtain ⟨rfl, rfl⟩ := he
          unfold c128Step
          have n1 : code ≠ 106 := by omega
          have n2 : ¬ (code = 103 ∨ code = 104 ∨ code = 105) := by omega
          simp [StepTo, StOk, h1, h2, h3, h4, h5, h6, h7, h8, n1, n2, c1]
        · by_cases c3 : code = 101
          · subst c3
            simp at he
            obtain ⟨rfl, rfl⟩ := he
            unfold c128Step
            simp [StepTo, StOk, h1, h2, h3, h4, h5, h6, h7, h8]
          · by_cases c4 : code = 100
            · subst c4
              simp at he
              obtain ⟨rfl, rfl⟩ := he
              unfold c128Step
              simp [StepTo, StOk, h1, h2, h3, h4, h5, h6, h7, h8]
            · simp [c1, c3, c4] at he
      · simp [hA, hB, hC] at he

theorem run_cons_false (s : C128St) (c : Nat) (cs : List Nat) (P : C128St → Prop)
    (h : StepTo (c128Step s c) false P) : ∃ s', P s' ∧ c128Run (c :: cs) s = c128Run cs s' := by
  unfold StepTo at h
  cases hstep : c128Step s c with
  | error e => simp [hstep] at h
  | ok r =>
    obtain ⟨s', d⟩ := r
    simp only [hstep] at h
    obtain ⟨rfl, hp⟩ := h
    exact ⟨s', hp, by simp [c128Run, hstep]⟩

theorem run_cons_true (s : C128St) (c : Nat) (cs : List Nat) (P : C128St → Prop)
    (h : StepTo (c128Step s c) true P) : ∃ s', P s' ∧ c128Run (c :: cs) s = .ok s' := by
  unfold StepTo at h
  cases hstep : c128Step s c with
  | error e => simp [hstep] at h
  | ok r =>
    obtain ⟨s', d⟩ := r
    simp only [hstep] at h
    obtain ⟨rfl, hp⟩ := h
    exact ⟨s', hp, by simp [c128Run, hstep]⟩

/-- the check character, whatever it is, is processed like data and leaves either one removable item or nothing -/
theorem step_check (s : C128St) (cs : Nat) (res : List Nat) (tot m cd chk : Nat)
    (hs : StOk s cs res tot m cd) (hcs : cs = 99 ∨ cs = 100 ∨ cs = 101) (hchk : chk < 103) :
    StepTo (c128Step s chk) false (fun s1 =>
      s1.total = tot + (m + 1) * chk ∧ s1.mult = m + 1 ∧ s1.code = chk ∧
      (s1.codeSet = 99 ∨ s1.codeSet = 100 ∨ s1.codeSet = 101) ∧
      ((s1.lastPrintable = false ∧ s1.result = res) ∨
       (s1.lastPrintable = true ∧ s1.nextShifted = false ∧ s1.codeSet = cs ∧
          ∃ pr, s1.result = pr ++ res ∧ pr.length = (if cs = 99 then 2 else 1)))) := by
  obtain ⟨h1, h2, h3, h4, h5, h6, h7, h8⟩ := hs
  have n1 : chk ≠ 106 := by omega
  have n2 : ¬ (chk = 103 ∨ chk = 104 ∨ chk = 105) := by omega
  rcases hcs with rfl | rfl | rfl
  · -- set C
    by_cases c1 : chk < 100
    · unfold c128Step
      simp [StepTo, h1, h2, h3, h4, h5, h6, h7, h8, n1, n2, c1]
      exact ⟨[48 + chk % 10, 48 + chk / 10], rfl, rfl⟩
    · have : chk = 100 ∨ chk = 101 ∨ chk = 102 := by omega
      rcases this with rfl | rfl | rfl <;>
        (unfold c128Step; simp [StepTo, h1, h2, h3, h4, h5, h6, h7, h8])
  · -- set B
    by_cases c1 : chk < 96
    · unfold c128Step
      simp [StepTo, h1, h2, h3, h4, h5, h6, h7, h8, n1, n2, c1]
      exact ⟨[32 + chk], rfl, rfl⟩
    · have : chk = 96 ∨ chk = 97 ∨ chk = 98 ∨ chk = 99 ∨ chk = 100 ∨ chk = 101 ∨ chk = 102 := by omega
      rcases this with rfl | rfl | rfl | rfl | rfl | rfl | rfl <;>
        (unfold c128Step; simp [StepTo, h1, h2, h3, h4, h5, h6, h7, h8])
  · -- set A
    by_cases c1 : chk < 64
    · unfold c128Step
      simp [StepTo, h1, h2, h3, h4, h5, h6, h7, h8, n1, n2, c1]
      exact ⟨[32 + chk], rfl, rfl⟩
    · by_cases c2 : chk < 96
      · unfold c128Step
        simp [StepTo, h1, h2, h3, h4, h5, h6, h7, h8, n1, n2, c1, c2]
        exact ⟨[chk - 64], rfl, rfl⟩
      · have : chk = 96 ∨ chk = 97 ∨ chk = 98 ∨ chk = 99 ∨ chk = 100 ∨ chk = 101 ∨ chk = 102 := by omega
        rcases this with rfl | rfl | rfl | rfl | rfl | rfl | rfl <;>
          (unfold c128Step; simp [StepTo, h1, h2, h3, h4, h5, h6, h7, h8])

/-- STOP ends the loop and changes nothing that matters -/
theorem step_stop (s1 : C128St) (hcs : s1.codeSet = 99 ∨ s1.codeSet = 100 ∨ s1.codeSet = 101) :
    StepTo (c128Step s1 106) true (fun s2 =>
      s2.result = s1.result ∧ s2.lastPrintable = s1.lastPrintable ∧ s2.lastCode = s1.code ∧
      s2.total = s1.total ∧ s2.mult = s1.mult ∧ (s1.nextShifted = false → s2.codeSet = s1.codeSet)) := by
  rcases hcs with h | h | h <;>
    (unfold c128Step; cases hn : s1.nextShifted <;> simp [StepTo, h, hn])

theorem writerSum_moved (em : List (Nat × Bool)) (sum w : Nat) (h : ∀ e ∈ em, e.2 = true) :
    c128WriterSum em sum w = (sum + wsumFrom w (em.map (·.1))) % 103 := by
  induction em generalizing sum w with
  | nil => simp [c128WriterSum, wsumFrom]
  | cons e es ih =>
    obtain ⟨idx, mv⟩ := e
    have hm : mv = true := h (idx, mv) (by simp)
    subst hm
    simp only [c128WriterSum, if_true, List.map_cons, wsumFrom]
    rw [ih _ _ (fun x hx => h x (by simp [hx]))]
    congr 1
    rw [Nat.mul_comm idx w]; omega

/-! ### the look-ahead automaton only makes admissible choices -/

theorem chooseCode_adm (c : Nat) (rest : List Nat) (old : Nat) (hc : c < 128) :
    (chooseCode (c :: rest) old = 99 ∨ chooseCode (c :: rest) old = 100 ∨ chooseCode (c :: rest) old = 101) ∧
    (chooseCode (c :: rest) old = 101 → c < 96) ∧
    (chooseCode (c :: rest) old = 100 → 32 ≤ c) ∧
    (chooseCode (c :: rest) old = 99 → isDigitCp c = true ∧ ∃ c2 r2, rest = c2 :: r2 ∧ isDigitCp c2 = true) := by
  have hF : ¬ c = 0xF1 := by omega
  by_cases hd : isDigitCp c = true
  · have h48 : 48 ≤ c ∧ c ≤ 57 := by simpa [isDigitCp] using hd
    cases rest with
    | nil =>
      simp only [chooseCode, findCType, hF, if_false, hd, Bool.not_true, Bool.false_eq_true]
      simp
      split <;> omega
    | cons c2 r2 =>
      by_cases hd2 : isDigitCp c2 = true
      · have hla : findCType (c :: c2 :: r2) = .twoDigits := by simp [findCType, hF, hd, hd2]
        unfold chooseCode
        simp only [hla]
        simp
        refine ⟨?_, ?_, ?_, ?_⟩
        all_goals (repeat' split)
        all_goals (first | omega | simp_all)
      · have hla : findCType (c :: c2 :: r2) = .oneDigit := by simp [findCType, hF, hd, hd2]
        unfold chooseCode
        simp only [hla]
        simp
        split <;> omega
  · have hla : findCType (c :: rest) = .uncodable := by simp [findCType, hF, hd]
    unfold chooseCode
    simp only [hla]
    simp
    refine ⟨?_, ?_, ?_, ?_⟩
    all_goals (repeat' split)
    all_goals (first | omega | simp_all)

theorem chooseCode_idem (c : Nat) (rest : List Nat) (hc : c < 128) :
    chooseCode (c :: rest) (chooseCode (c :: rest) 0) = chooseCode (c :: rest) 0 := by
  have hF : ¬ c = 0xF1 := by omega
  by_cases hd : isDigitCp c = true
  · have one : findCType (c :: rest) = .oneDigit →
        chooseCode (c :: rest) (chooseCode (c :: rest) 0) = chooseCode (c :: rest) 0 := by
      intro hla
      have h0 : chooseCode (c :: rest) 0 = 100 := by unfold chooseCode; simp [hla]
      rw [h0]; unfold chooseCode; simp [hla]
    cases rest with
    | nil => exact one (by simp [findCType, hF, hd])
    | cons c2 r2 =>
      by_cases hd2 : isDigitCp c2 = true
      · have hla : findCType (c :: c2 :: r2) = .twoDigits := by simp [findCType, hF, hd, hd2]
        have h0 : chooseCode (c :: c2 :: r2) 0 = 99 := by unfold chooseCode; simp [hla]
        rw [h0]; unfold chooseCode; simp [hla]
      · exact one (by simp [findCType, hF, hd, hd2])
  · have hla : findCType (c :: rest) = .uncodable := by simp [findCType, hF, hd]
    by_cases h32 : c < 32
    · have h0 : chooseCode (c :: rest) 0 = 101 := by unfold chooseCode; simp [hla, h32]
      rw [h0]; unfold chooseCode; simp [hla, h32]
    · have h0 : chooseCode (c :: rest) 0 = 100 := by unfold chooseCode; simp [hla, h32]
      rw [h0]; unfold chooseCode; simp [hla, h32]

theorem emitOf_switch (cs n : Nat) (hcs : cs = 99 ∨ cs = 100 ∨ cs = 101) (hn : n = 99 ∨ n = 100 ∨ n = 101)
    (hne : n ≠ cs) : emitOf cs n = some ([], n) := by
  rcases hcs with rfl | rfl | rfl <;> rcases hn with rfl | rfl | rfl <;> simp [emitOf] at hne ⊢

theorem loop_spec (fuel : Nat) : ∀ (input : List Nat) (moved : Bool) (cs : Nat) (acc out : List (Nat × Bool)),
    (∀ c ∈ input, c < 128) → (cs = 99 ∨ cs = 100 ∨ cs = 101) →
    (moved = true ∨ input = [] ∨ chooseCode input cs = cs) →
    c128Loop none fuel input moved cs acc = .ok out →
    ∃ em : List (Nat × Bool), out = acc.reverse ++ em ∧ (∀ e ∈ em, e.2 = true) ∧
      ∀ (s : C128St) (res : List Nat) (tot m cd : Nat), StOk s cs res tot m cd → ∀ tail,
        ∃ s' cs' cd', c128Run (em.map (·.1) ++ tail) s = c128Run tail s' ∧
          StOk s' cs' (input.reverse ++ res) (tot + wsumFrom (m + 1) (em.map (·.1))) (m + em.length) cd' ∧
          (cs' = 99 ∨ cs' = 100 ∨ cs' = 101) := by
  induction fuel with
  | zero => intro input moved cs acc out _ _ _ h; simp [c128Loop] at h
  | succ fuel ih =>
    intro input moved cs acc out hascii hcs hmv h
    cases input with
    | nil =>
      simp only [c128Loop] at h
      cases h
      refine ⟨[], by simp, by simp, ?_⟩
      intro s res tot m cd hs tail
      exact ⟨s, cs, cd, by simp, by simpa [wsumFrom] using hs, hcs⟩
    | cons c rest =>
      have hc : c < 128 := hascii c (by simp)
      have hrest : ∀ x ∈ rest, x < 128 := fun x hx => hascii x (by simp [hx])
      have adm := chooseCode_adm c rest cs hc
      have nF1 : ¬ c = 0xF1 := by omega
      have nF2 : ¬ c = 0xF2 := by omega
      have nF3 : ¬ c = 0xF3 := by omega
      have nF4 : ¬ c = 0xF4 := by omega
      simp only [c128Loop] at h
      by_cases hn : chooseCode (c :: rest) cs = cs
      · simp only [hn, if_true, nF1, nF2, nF3, nF4, if_false] at h
        rcases hcs with rfl | rfl | rfl
        · -- code set C: two digits
          obtain ⟨hd1, c2, r2, rfl, hd2⟩ := adm.2.2.2 hn
          have h1 : 48 ≤ c ∧ c ≤ 57 := by simpa [isDigitCp] using hd1
          have h2 : 48 ≤ c2 ∧ c2 ≤ 57 := by simpa [isDigitCp] using hd2
          have hg2 : ¬ (c2 < 48 ∨ c2 > 57) := by omega
          have hg : ¬ (c < 48 ∨ (c - 48) * 10 + (c2 - 48) ≥ 107) := by omega
          simp only [show ¬ (99 = 101) by decide, show ¬ (99 = 100) by decide, if_false, hg, hg2] at h
          obtain ⟨em', ho, hmv', hrd⟩ := ih r2 true 99 _ out (fun x hx => hrest x (by simp [hx]))
            (Or.inl rfl) (Or.inl rfl) h
          refine ⟨((c - 48) * 10 + (c2 - 48), true) :: em', by simp [ho], ?_, ?_⟩
          · intro e he
            simp only [List.mem_cons] at he
            rcases he with rfl | he
            · rfl
            · exact hmv' e he
          · intro s res tot m cd hs tail
            have hem : emitOf 99 ((c - 48) * 10 + (c2 - 48)) = some ([c, c2], 99) := by
              have : (c - 48) * 10 + (c2 - 48) < 100 := by omega
              have e1 : 48 + ((c - 48) * 10 + (c2 - 48)) / 10 = c := by omega
              have e2 : 48 + ((c - 48) * 10 + (c2 - 48)) % 10 = c2 := by omega
              simp only [emitOf, show ¬ (99 = 101) by decide, show ¬ (99 = 100) by decide, if_false, if_true, this, e1, e2]
            obtain ⟨s1, ⟨hs1, _, _⟩, hrun1⟩ := run_cons_false s _ (em'.map (·.1) ++ tail) _
              (step_emit s 99 res tot m cd _ _ _ hs hem)
            obtain ⟨s', cs', cd', hrun2, hs2, hcs2⟩ := hrd s1 _ _ _ _ hs1 tail
            refine ⟨s', cs', cd', ?_, ?_, hcs2⟩
            · simp only [List.map_cons, List.cons_append]
              rw [hrun1, hrun2]
            · simp only [List.map_cons, wsumFrom, List.length_cons, List.reverse_cons, List.append_assoc,
                List.cons_append, List.nil_append] at hs2 ⊢
              have e1 : tot + (m + 1) * ((c - 48) * 10 + (c2 - 48)) + wsumFrom (m + 1 + 1) (em'.map (·.1))
                  = tot + ((m + 1) * ((c - 48) * 10 + (c2 - 48)) + wsumFrom (m + 1 + 1) (em'.map (·.1))) := by omega
              have e2 : m + 1 + em'.length = m + (em'.length + 1) := by omega
              rw [e1, e2] at hs2
              simpa using hs2
        · -- code set B
          have h32 : 32 ≤ c := adm.2.2.1 hn
          have hg : ¬ c < 32 := by omega
          simp only [show ¬ (100 = 101) by decide, if_false, if_true, hg] at h
          obtain ⟨em', ho, hmv', hrd⟩ := ih rest true 100 _ out hrest (Or.inr (Or.inl rfl)) (Or.inl rfl) h
          refine ⟨(c - 32, true) :: em', by simp [ho], ?_, ?_⟩
          · intro e he
            simp only [List.mem_cons] at he
            rcases he with rfl | he
            · rfl
            · exact hmv' e he
          · intro s res tot m cd hs tail
            have hem : emitOf 100 (c - 32) = some ([c], 100) := by
              have : c - 32 < 96 := by omega
              have e1 : 32 + (c - 32) = c := by omega
              simp only [emitOf, show ¬ (100 = 101) by decide, if_false, if_true, this, e1]
            obtain ⟨s1, ⟨hs1, _, _⟩, hrun1⟩ := run_cons_false s _ (em'.map (·.1) ++ tail) _
              (step_emit s 100 res tot m cd _ _ _ hs hem)
            obtain ⟨s', cs', cd', hrun2, hs2, hcs2⟩ := hrd s1 _ _ _ _ hs1 tail
            refine ⟨s', cs', cd', ?_, ?_, hcs2⟩
            · simp only [List.map_cons, List.cons_append]
              rw [hrun1, hrun2]
            · simp only [List.map_cons, wsumFrom, List.length_cons, List.reverse_cons, List.append_assoc,
                List.cons_append, List.nil_append, List.reverse_nil] at hs2 ⊢
              have e1 : tot + (m + 1) * (c - 32) + wsumFrom (m + 1 + 1) (em'.map (·.1))
                  = tot + ((m + 1) * (c - 32) + wsumFrom (m + 1 + 1) (em'.map (·.1))) := by omega
              have e2 : m + 1 + em'.length = m + (em'.length + 1) := by omega
              rw [e1, e2] at hs2
              simpa using hs2
        · -- code set A
          have h96 : c < 96 := adm.2.1 hn
          simp only [if_true] at h
          obtain ⟨em', ho, hmv', hrd⟩ := ih rest true 101 _ out hrest (Or.inr (Or.inr rfl)) (Or.inl rfl) h
          refine ⟨((if c < 32 then c + 64 else c - 32), true) :: em', by simp [ho], ?_, ?_⟩
          · intro e he
            simp only [List.mem_cons] at he
            rcases he with rfl | he
            · rfl
            · exact hmv' e he
          · intro s res tot m cd hs tail
            have hem : emitOf 101 (if c < 32 then c + 64 else c - 32) = some ([c], 101) := by
              by_cases h32 : c < 32
              · have a1 : ¬ c + 64 < 64 := by omega
                have a2 : c + 64 < 96 := by omega
                have e1 : c + 64 - 64 = c := by omega
                simp only [h32, if_true, emitOf, a1, a2, if_false, e1]
              · have a1 : c - 32 < 64 := by omega
                have e1 : 32 + (c - 32) = c := by omega
                simp only [h32, if_false, emitOf, if_true, a1, e1]
            obtain ⟨s1, ⟨hs1, _, _⟩, hrun1⟩ := run_cons_false s _ (em'.map (·.1) ++ tail) _
              (step_emit s 101 res tot m cd _ _ _ hs hem)
            obtain ⟨s', cs', cd', hrun2, hs2, hcs2⟩ := hrd s1 _ _ _ _ hs1 tail
            refine ⟨s', cs', cd', ?_, ?_, hcs2⟩
            · simp only [List.map_cons, List.cons_append]
              rw [hrun1, hrun2]
            · simp only [List.map_cons, wsumFrom, List.length_cons, List.reverse_cons, List.append_assoc,
                List.cons_append, List.nil_append, List.reverse_nil] at hs2 ⊢
              generalize (if c < 32 then c + 64 else c - 32) = idx at hs2 ⊢
              have e1 : tot + (m + 1) * idx + wsumFrom (m + 1 + 1) (em'.map (·.1))
                  = tot + ((m + 1) * idx + wsumFrom (m + 1 + 1) (em'.map (·.1))) := by omega
              have e2 : m + 1 + em'.length = m + (em'.length + 1) := by omega
              rw [e1, e2] at hs2
              simpa using hs2
      · -- code-set switch
        have hcs0 : ¬ cs = 0 := by omega
        simp only [hn, if_false, hcs0] at h
        have hmoved : moved = true := by
          rcases hmv with h1 | h1 | h1
          · exact h1
          · cases h1
          · exact absurd h1 hn
        subst hmoved
        obtain ⟨em', ho, hmv', hrd⟩ := ih (c :: rest) true (chooseCode (c :: rest) cs) _ out hascii adm.1 (Or.inl rfl) h
        refine ⟨(chooseCode (c :: rest) cs, true) :: em', by simp [ho], ?_, ?_⟩
        · intro e he
          simp only [List.mem_cons] at he
          rcases he with rfl | he
          · rfl
          · exact hmv' e he
        · intro s res tot m cd hs tail
          have hem := emitOf_switch cs (chooseCode (c :: rest) cs) hcs adm.1 hn
          obtain ⟨s1, ⟨hs1, _, _⟩, hrun1⟩ := run_cons_false s _ (em'.map (·.1) ++ tail) _
            (step_emit s cs res tot m cd _ _ _ hs hem)
          obtain ⟨s', cs', cd', hrun2, hs2, hcs2⟩ := hrd s1 _ _ _ _ hs1 tail
          refine ⟨s', cs', cd', ?_, ?_, hcs2⟩
          · simp only [List.map_cons, List.cons_append]
            rw [hrun1, hrun2]
          · simp only [List.map_cons, wsumFrom, List.length_cons, List.reverse_nil, List.nil_append] at hs2 ⊢
            generalize chooseCode (c :: rest) cs = n at hs2 ⊢
            have e1 : tot + (m + 1) * n + wsumFrom (m + 1 + 1) (em'.map (·.1))
                = tot + ((m + 1) * n + wsumFrom (m + 1 + 1) (em'.map (·.1))) := by omega
            have e2 : m + 1 + em'.length = m + (em'.length + 1) := by omega
            rw [e1, e2] at hs2
            exact hs2

/-- reader side of the final two symbol characters: check character, then STOP -/
theorem run_check_stop (s : C128St) (cs : Nat) (res : List Nat) (tot m cd : Nat)
    (hs : StOk s cs res tot m cd) (hcs : cs = 99 ∨ cs = 100 ∨ cs = 101) :
    ∃ s2, c128Run [tot % 103, 106] s = .ok s2 ∧
      (s2.total - s2.mult * s2.lastCode) % 103 = s2.lastCode ∧
      ((s2.lastPrintable = false ∧ s2.result = res) ∨
       (s2.lastPrintable = true ∧ ∃ pr, s2.result = pr ++ res ∧ pr.length = (if s2.codeSet = 99 then 2 else 1))) := by
  have hchk : tot % 103 < 103 := Nat.mod_lt _ (by decide)
  obtain ⟨s1, ⟨ht, hm, hcode, hcs1, hcase⟩, hrun1⟩ := run_cons_false s _ [106] _ (step_check s cs res tot m cd _ hs hcs hchk)
  obtain ⟨s2, ⟨hr, hlp, hlc, ht2, hm2, hcs2⟩, hrun2⟩ := run_cons_true s1 106 [] _ (step_stop s1 hcs1)
  refine ⟨s2, by rw [hrun1, hrun2], ?_, ?_⟩
  · rw [ht2, hm2, hlc, ht, hm, hcode, Nat.add_sub_cancel]
  · rcases hcase with ⟨hp, hres⟩ | ⟨hp, hns, hcseq, pr, hres, hlen⟩
    · exact Or.inl ⟨by rw [hlp, hp], by rw [hr, hres]⟩
    · refine Or.inr ⟨by rw [hlp, hp], pr, by rw [hr, hres], ?_⟩
      rw [hcs2 hns, hcseq]; exact hlen


end Gzx.OneD

namespace Gzx.OneD
open Gzx Gzx.CheckDigit

theorem c128WriterSum_lt (em : List (Nat × Bool)) (sum w : Nat) : c128WriterSum em sum w < 103 := by
  induction em generalizing sum w with
  | nil => simp only [c128WriterSum]; omega
  | cons e es ih =>
    obtain ⟨i, m⟩ := e
    simp only [c128WriterSum]
    exact ih _ _

/-- every symbol character the writer loop emits is a data / switch / start value below STOP (106) -/
theorem loop_idx_lt (fuel : Nat) : ∀ (input : List Nat) (moved : Bool) (cs : Nat) (acc out : List (Nat × Bool)),
    (∀ c ∈ input, c < 128) → (cs = 99 ∨ cs = 100 ∨ cs = 101) → (∀ e ∈ acc, e.1 < 106) →
    c128Loop none fuel input moved cs acc = .ok out → ∀ e ∈ out, e.1 < 106 := by
  induction fuel with
  | zero => intro input moved cs acc out _ _ _ h; simp [c128Loop] at h
  | succ fuel ih =>
    intro input moved cs acc out hascii hcs hacc h
    cases input with
    | nil =>
      simp only [c128Loop] at h
      cases h
      intro e he
      exact hacc e (by simpa using he)
    | cons c rest =>
      have hc : c < 128 := hascii c (by simp)
      have hrest : ∀ x ∈ rest, x < 128 := fun x hx => hascii x (by simp [hx])
      have adm := chooseCode_adm c rest cs hc
      have nF1 : ¬ c = 0xF1 := by omega
      have nF2 : ¬ c = 0xF2 := by omega
      have nF3 : ¬ c = 0xF3 := by omega
      have nF4 : ¬ c = 0xF4 := by omega
      simp only [c128Loop] at h
      by_cases hn : chooseCode (c :: rest) cs = cs
      · simp only [hn, if_true, nF1, nF2, nF3, nF4, if_false] at h
        rcases hcs with rfl | rfl | rfl
        · obtain ⟨hd1, c2, r2, rfl, hd2⟩ := adm.2.2.2 hn
          have h1 : 48 ≤ c ∧ c ≤ 57 := by simpa [isDigitCp] using hd1
          have h2 : 48 ≤ c2 ∧ c2 ≤ 57 := by simpa [isDigitCp] using hd2
          have hg2 : ¬ (c2 < 48 ∨ c2 > 57) := by omega
          have hg : ¬ (c < 48 ∨ (c - 48) * 10 + (c2 - 48) ≥ 107) := by omega
          simp only [show ¬ (99 = 101) by decide, show ¬ (99 = 100) by decide, if_false, hg, hg2] at h
          exact ih r2 true 99 _ out (fun x hx => hrest x (by simp [hx])) (Or.inl rfl)
            (by intro e he
                simp only [List.mem_cons] at he
                rcases he with rfl | he
                · simp; omega
                · exact hacc e he) h
        · have h32 : 32 ≤ c := adm.2.2.1 hn
          have hg : ¬ c < 32 := by omega
          simp only [show ¬ (100 = 101) by decide, if_false, if_true, hg] at h
          exact ih rest true 100 _ out hrest (Or.inr (Or.inl rfl))
            (by intro e he
                simp only [List.mem_cons] at he
                rcases he with rfl | he
                · simp; omega
                · exact hacc e he) h
        · simp only [if_true] at h
          exact ih rest true 101 _ out hrest (Or.inr (Or.inr rfl))
            (by intro e he
                simp only [List.mem_cons] at he
                rcases he with rfl | he
                · simp; split <;> omega
                · exact hacc e he) h
      · have hcs0 : ¬ cs = 0 := by omega
        simp only [hn, if_false, hcs0] at h
        exact ih (c :: rest) moved (chooseCode (c :: rest) cs) _ out hascii adm.1
          (by intro e he
              simp only [List.mem_cons] at he
              rcases he with rfl | he
              · simp; rcases adm.1 with h | h | h <;> omega
              · exact hacc e he) h


end Gzx.OneD

namespace Gzx.OneD
open Gzx Gzx.CheckDigit

/-- admissibility of an ASCII character for a forced code set, as `c128CharOk` tests it -/
theorem charOk_forced (f c : Nat) (hf : f = 99 ∨ f = 100 ∨ f = 101) (hc : c < 128)
    (h : c128CharOk (some f) c = true) :
    (f = 101 → c < 96) ∧ (f = 100 → 32 ≤ c) ∧ (f = 99 → 48 ≤ c ∧ c ≤ 57) := by
  unfold c128CharOk at h
  rcases hf with rfl | rfl | rfl
  · simp at h
    refine ⟨by omega, by omega, fun _ => ?_⟩
    omega
  · simp at h
    refine ⟨by omega, fun _ => by omega, by omega⟩
  · simp at h
    refine ⟨fun _ => by omega, by omega, by omega⟩

theorem loop_spec_forced (f : Nat) (hf : f = 99 ∨ f = 100 ∨ f = 101) (fuel : Nat) :
    ∀ (input : List Nat) (moved : Bool) (acc out : List (Nat × Bool)),
    (∀ c ∈ input, c < 128) → (∀ c ∈ input, c128CharOk (some f) c = true) → (moved = true ∨ True) →
    c128Loop (some f) fuel input moved f acc = .ok out →
    ∃ em : List (Nat × Bool), out = acc.reverse ++ em ∧ (∀ e ∈ em, e.2 = true) ∧ (∀ e ∈ em, e.1 < 106) ∧
      ∀ (s : C128St) (res : List Nat) (tot m cd : Nat), StOk s f res tot m cd → ∀ tail,
        ∃ s' cd', c128Run (em.map (·.1) ++ tail) s = c128Run tail s' ∧
          StOk s' f (input.reverse ++ res) (tot + wsumFrom (m + 1) (em.map (·.1))) (m + em.length) cd' := by
  induction fuel with
  | zero => intro input moved acc out _ _ _ h; simp [c128Loop] at h
  | succ fuel ih =>
    intro input moved acc out hascii hok hmv h
    cases input with
    | nil =>
      simp only [c128Loop] at h
      cases h
      refine ⟨[], by simp, by simp, by simp, ?_⟩
      intro s res tot m cd hs tail
      exact ⟨s, cd, by simp, by simpa [wsumFrom] using hs⟩
    | cons c rest =>
      have hc : c < 128 := hascii c (by simp)
      have hrest : ∀ x ∈ rest, x < 128 := fun x hx => hascii x (by simp [hx])
      have hokr : ∀ x ∈ rest, c128CharOk (some f) x = true := fun x hx => hok x (by simp [hx])
      have adm := charOk_forced f c hf hc (hok c (by simp))
      have nF1 : ¬ c = 0xF1 := by omega
      have nF2 : ¬ c = 0xF2 := by omega
      have nF3 : ¬ c = 0xF3 := by omega
      have nF4 : ¬ c = 0xF4 := by omega
      simp only [c128Loop, if_true, nF1, nF2, nF3, nF4, if_false] at h
      rcases hf with rfl | rfl | rfl
      · -- forced C
        simp only [show ¬ (99 = 101) by decide, show ¬ (99 = 100) by decide, if_false] at h
        cases rest with
        | nil => simp at h
        | cons c2 r2 =>
          have h1 := adm.2.2 rfl
          have h2 := (charOk_forced 99 c2 (Or.inl rfl) (hrest c2 (by simp)) (hokr c2 (by simp))).2.2 rfl
          have hg2 : ¬ (c2 < 48 ∨ c2 > 57) := by omega
          have hg : ¬ (c < 48 ∨ (c - 48) * 10 + (c2 - 48) ≥ 107) := by omega
          simp only [hg, hg2, if_false] at h
          obtain ⟨em', ho, hmv', hlt', hrd⟩ := ih r2 true _ out (fun x hx => hrest x (by simp [hx]))
            (fun x hx => hokr x (by simp [hx])) (Or.inl rfl) h
          refine ⟨((c - 48) * 10 + (c2 - 48), true) :: em', by simp [ho], ?_, ?_, ?_⟩
          · intro e he
            simp only [List.mem_cons] at he
            rcases he with rfl | he
            · rfl
            · exact hmv' e he
          · intro e he
            simp only [List.mem_cons] at he
            rcases he with rfl | he
            · simp; omega
            · exact hlt' e he
          · intro s res tot m cd hs tail
            have hem : emitOf 99 ((c - 48) * 10 + (c2 - 48)) = some ([c, c2], 99) := by
              have : (c - 48) * 10 + (c2 - 48) < 100 := by omega
              have e1 : 48 + ((c - 48) * 10 + (c2 - 48)) / 10 = c := by omega
              have e2 : 48 + ((c - 48) * 10 + (c2 - 48)) % 10 = c2 := by omega
              simp only [emitOf, show ¬ (99 = 101) by decide, show ¬ (99 = 100) by decide, if_false, if_true, this, e1, e2]
            obtain ⟨s1, ⟨hs1, _, _⟩, hrun1⟩ := run_cons_false s _ (em'.map (·.1) ++ tail) _
              (step_emit s 99 res tot m cd _ _ _ hs hem)
            obtain ⟨s', cd', hrun2, hs2⟩ := hrd s1 _ _ _ _ hs1 tail
            refine ⟨s', cd', ?_, ?_⟩
            · simp only [List.map_cons, List.cons_append]
              rw [hrun1, hrun2]
            · simp only [List.map_cons, wsumFrom, List.length_cons, List.reverse_cons, List.append_assoc,
                List.cons_append, List.nil_append] at hs2 ⊢
              have e1 : tot + (m + 1) * ((c - 48) * 10 + (c2 - 48)) + wsumFrom (m + 1 + 1) (em'.map (·.1))
                  = tot + ((m + 1) * ((c - 48) * 10 + (c2 - 48)) + wsumFrom (m + 1 + 1) (em'.map (·.1))) := by omega
              have e2 : m + 1 + em'.length = m + (em'.length + 1) := by omega
              rw [e1, e2] at hs2
              simpa using hs2
      · -- forced B
        have h32 : 32 ≤ c := adm.2.1 rfl
        have hg : ¬ c < 32 := by omega
        simp only [show ¬ (100 = 101) by decide, if_false, if_true, hg] at h
        obtain ⟨em', ho, hmv', hlt', hrd⟩ := ih rest true _ out hrest hokr (Or.inl rfl) h
        refine ⟨(c - 32, true) :: em', by simp [ho], ?_, ?_, ?_⟩
        · intro e he
          simp only [List.mem_cons] at he
          rcases he with rfl | he
          · rfl
          · exact hmv' e he
        · intro e he
          simp only [List.mem_cons] at he
          rcases he with rfl | he
          · simp; omega
          · exact hlt' e he
        · intro s res tot m cd hs tail
          have hem : emitOf 100 (c - 32) = some ([c], 100) := by
            have : c - 32 < 96 := by omega
            have e1 : 32 + (c - 32) = c := by omega
            simp only [emitOf, show ¬ (100 = 101) by decide, if_false, if_true, this, e1]
          obtain ⟨s1, ⟨hs1, _, _⟩, hrun1⟩ := run_cons_false s _ (em'.map (·.1) ++ tail) _
            (step_emit s 100 res tot m cd _ _ _ hs hem)
          obtain ⟨s', cd', hrun2, hs2⟩ := hrd s1 _ _ _ _ hs1 tail
          refine ⟨s', cd', ?_, ?_⟩
          · simp only [List.map_cons, List.cons_append]
            rw [hrun1, hrun2]
          · simp only [List.map_cons, wsumFrom, List.length_cons, List.reverse_cons, List.append_assoc,
              List.cons_append, List.nil_append, List.reverse_nil] at hs2 ⊢
            have e1 : tot + (m + 1) * (c - 32) + wsumFrom (m + 1 + 1) (em'.map (·.1))
                = tot + ((m + 1) * (c - 32) + wsumFrom (m + 1 + 1) (em'.map (·.1))) := by omega
            have e2 : m + 1 + em'.length = m + (em'.length + 1) := by omega
            rw [e1, e2] at hs2
            simpa using hs2
      · -- forced A
        have h96 : c < 96 := adm.1 rfl
        obtain ⟨em', ho, hmv', hlt', hrd⟩ := ih rest true _ out hrest hokr (Or.inl rfl) h
        refine ⟨((if c < 32 then c + 64 else c - 32), true) :: em', by simp [ho], ?_, ?_, ?_⟩
        · intro e he
          simp only [List.mem_cons] at he
          rcases he with rfl | he
          · rfl
          · exact hmv' e he
        · intro e he
          simp only [List.mem_cons] at he
          rcases he with rfl | he
          · simp; split <;> omega
          · exact hlt' e he
        · intro s res tot m cd hs tail
          have hem : emitOf 101 (if c < 32 then c + 64 else c - 32) = some ([c], 101) := by
            by_cases h32 : c < 32
            · have a1 : ¬ c + 64 < 64 := by omega
              have a2 : c + 64 < 96 := by omega
              have e1 : c + 64 - 64 = c := by omega
              simp only [h32, if_true, emitOf, a1, a2, if_false, e1]
            · have a1 : c - 32 < 64 := by omega
              have e1 : 32 + (c - 32) = c := by omega
              simp only [h32, if_false, emitOf, if_true, a1, e1]
          obtain ⟨s1, ⟨hs1, _, _⟩, hrun1⟩ := run_cons_false s _ (em'.map (·.1) ++ tail) _
            (step_emit s 101 res tot m cd _ _ _ hs hem)
          obtain ⟨s', cd', hrun2, hs2⟩ := hrd s1 _ _ _ _ hs1 tail
          refine ⟨s', cd', ?_, ?_⟩
          · simp only [List.map_cons, List.cons_append]
            rw [hrun1, hrun2]
          · simp only [List.map_cons, wsumFrom, List.length_cons, List.reverse_cons, List.append_assoc,
              List.cons_append, List.nil_append, List.reverse_nil] at hs2 ⊢
            generalize (if c < 32 then c + 64 else c - 32) = idx at hs2 ⊢
            have e1 : tot + (m + 1) * idx + wsumFrom (m + 1 + 1) (em'.map (·.1))
                = tot + ((m + 1) * idx + wsumFrom (m + 1 + 1) (em'.map (·.1))) := by omega
            have e2 : m + 1 + em'.length = m + (em'.length + 1) := by omega
            rw [e1, e2] at hs2
            simpa using hs2


end Gzx.OneD
