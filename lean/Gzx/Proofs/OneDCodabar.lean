/-
  C03 — Codabar: the module pattern drawn for alphabet indices is split back into exactly these indices
  (run lengths, groups of 7 elements + narrow gap, narrow/wide word, table lookup).
-/
import Gzx.Proofs.UpceanRow
import Gzx.Proofs.CheckDigit
set_option linter.unusedSimpArgs false
set_option linter.unusedVariables false
namespace Gzx.OneD
open Gzx Gzx.CheckDigit

/-- twenty pairwise distinct 7-bit words -/
def WFCodabar (T : Tables) : Bool :=
  T.codabarEnc.length == 20 && distinct T.codabarEnc && T.codabarEnc.all (· < 128)

theorem natOfBits_bitsMSB7_all : (List.range 128).all (fun w => natOfBits (bitsMSB 7 w) == w) = true := by decide

theorem natOfBits_bitsMSB7 (w : Nat) (hw : w < 128) : natOfBits (bitsMSB 7 w) = w := by
  have := List.all_eq_true.mp natOfBits_bitsMSB7_all w (by simpa using hw)
  simpa using this

theorem codabarWidths_shape (w : Nat) :
    (codabarWidths w).length = 7 ∧ (∀ x ∈ codabarWidths w, x = 1 ∨ x = 2) ∧
    (codabarWidths w).map (fun x => decide (x = 2)) = bitsMSB 7 w := by
  refine ⟨by simp [codabarWidths, bitsMSB], ?_, ?_⟩
  · intro x hx
    simp only [codabarWidths, List.mem_map] at hx
    obtain ⟨b, _, rfl⟩ := hx
    cases b <;> simp
  · simp only [codabarWidths, List.map_map]
    conv => rhs; rw [← List.map_id (bitsMSB 7 w)]
    apply List.map_congr_left
    intro b _
    cases b <;> simp

/-- run widths of the drawn characters: 7 elements each, a narrow gap between characters -/
def cbRuns : List Nat → List Nat
  | [] => []
  | [w] => codabarWidths w
  | w :: ws => codabarWidths w ++ [1] ++ cbRuns ws

theorem codabarDraw_runs (words : List Nat) : codabarDraw words = appendPattern (cbRuns words) true := by
  induction words with
  | nil => rfl
  | cons w ws ih =>
    cases ws with
    | nil => rfl
    | cons w2 ws2 =>
      simp only [codabarDraw, cbRuns, ih]
      have h7 := (codabarWidths_shape w).1
      rw [appendPattern_append (codabarWidths w ++ [1]), appendPattern_append (codabarWidths w)]
      have e1 : ¬ (codabarWidths w).length % 2 = 0 := by omega
      have e2 : (codabarWidths w ++ [1]).length % 2 = 0 := by simp; omega
      simp [e1, e2, h7, appendPattern]

theorem cbRuns_snoc (init : List Nat) (l : Nat) :
    cbRuns (init ++ [l]) = (init.map (fun w => codabarWidths w ++ [1])).flatten ++ codabarWidths l := by
  induction init with
  | nil => rfl
  | cons w ws ih =>
    have : (w :: ws) ++ [l] = w :: (ws ++ [l]) := rfl
    rw [this]
    cases hws : ws ++ [l] with
    | nil => simp at hws
    | cons a b =>
      simp only [cbRuns]
      rw [← hws, ih]
      simp

/-- what `codabarIdeal` does with one group of runs -/
def cbChunk (T : Tables) (c : List Nat) : Res Nat :=
  let el := c.take 7
  if el.all (fun w => w = 1 ∨ w = 2) ∧ (c.length = 7 ∨ c.getLast? = some 1) then
    wordLookup T.codabarEnc (natOfBits (el.map (· = 2)))
  else .error .notFound

theorem cbChunk_ok (T : Tables) (hT : WFCodabar T = true) (i : Nat) (hi : i < 20) (c : List Nat)
    (hc : c = codabarWidths (T.codabarEnc.getD i 0) ++ [1] ∨ c = codabarWidths (T.codabarEnc.getD i 0)) :
    cbChunk T c = .ok i := by
  unfold cbChunk
  simp only []
  simp only [WFCodabar, Bool.and_eq_true, beq_iff_eq, List.all_eq_true, decide_eq_true_eq] at hT
  obtain ⟨⟨hlen, hdist⟩, h128⟩ := hT
  have hil : i < T.codabarEnc.length := by omega
  have hget : T.codabarEnc.getD i 0 = T.codabarEnc[i] := by
    simp [List.getD_eq_getElem?_getD, List.getElem?_eq_getElem hil]
  have hw128 : T.codabarEnc.getD i 0 < 128 := by rw [hget]; exact h128 _ (List.getElem_mem hil)
  obtain ⟨h7, h12, hbits⟩ := codabarWidths_shape (T.codabarEnc.getD i 0)
  have htake : c.take 7 = codabarWidths (T.codabarEnc.getD i 0) := by
    rcases hc with rfl | rfl
    · rw [← h7, List.take_left']; rfl
    · rw [← h7, List.take_length]
  have hgap : c.length = 7 ∨ c.getLast? = some 1 := by
    rcases hc with rfl | rfl
    · right; simp
    · left; exact h7
  have hall : ((c.take 7).all (fun w => decide (w = 1 ∨ w = 2))) = true := by
    rw [htake, List.all_eq_true]
    intro x hx
    simpa using h12 x hx
  rw [if_pos ⟨hall, hgap⟩, htake, hbits, natOfBits_bitsMSB7 _ hw128]
  unfold wordLookup
  rw [hget, indexOf?_getElem hdist i hil]

/-- Clause "Codabar … reads back", module layer: for every table of twenty pairwise distinct 7-bit words, the module
    pattern the writer draws for the alphabet indices `idx` (start, data, stop) is split back into exactly these
    indices — run lengths, groups of seven elements and a narrow gap, narrow/wide word, table lookup — and then
    judged by the reader's guard / length rules. -/
theorem codabar_ideal_core (T : Tables) (hT : WFCodabar T = true) (idx : List Nat)
    (hidx : ∀ i ∈ idx, i < 20) (hne : idx ≠ []) :
    codabarIdeal T (codabarDraw (idx.map (fun i => T.codabarEnc.getD i 0))) = codabarReadSymbols T idx := by
  obtain ⟨init, l, rfl⟩ : ∃ init l, idx = init ++ [l] :=
    ⟨idx.dropLast, idx.getLast hne, (List.dropLast_concat_getLast hne).symm⟩
  let E := fun i => T.codabarEnc.getD i 0
  have hruns : cbRuns ((init ++ [l]).map E) = ((init.map E).map (fun w => codabarWidths w ++ [1])).flatten ++ codabarWidths (E l) := by
    rw [List.map_append]; exact cbRuns_snoc _ _
  obtain ⟨xs, hxsdef⟩ : ∃ xs, xs = (init.map E).map (fun w => codabarWidths w ++ [1]) := ⟨_, rfl⟩
  rw [← hxsdef] at hruns
  have hxs : ∀ x ∈ xs, x.length = 8 := by
    intro x hx
    rw [hxsdef] at hx
    simp only [List.mem_map] at hx
    obtain ⟨w, _, rfl⟩ := hx
    simp [(codabarWidths_shape w).1]
  have hpos : ∀ w ∈ xs.flatten ++ codabarWidths (E l), 0 < w := by
    intro w hw
    simp only [List.mem_append, List.mem_flatten] at hw
    rcases hw with ⟨x, hx, hwx⟩ | hw
    · rw [hxsdef] at hx
      simp only [List.mem_map] at hx
      obtain ⟨v, _, rfl⟩ := hx
      simp only [List.mem_append, List.mem_singleton] at hwx
      rcases hwx with hwx | rfl
      · rcases (codabarWidths_shape v).2.1 w hwx with h | h <;> omega
      · omega
    · rcases (codabarWidths_shape (E l)).2.1 w hw with h | h <;> omega
  have hl7 := (codabarWidths_shape (E l)).1
  have hne' : xs.flatten ++ codabarWidths (E l) ≠ [] := by
    intro e
    have := congrArg List.length e
    simp [hl7] at this
  have hflen : xs.flatten.length = 8 * xs.length := flatten_length_const xs 8 hxs
  have hlenR : (xs.flatten ++ codabarWidths (E l)).length = 8 * xs.length + 7 := by
    simp only [List.length_append, hflen, hl7]
  have hchunks : chunks 8 (xs.flatten ++ codabarWidths (E l)).length (xs.flatten ++ codabarWidths (E l))
      = xs ++ [codabarWidths (E l)] :=
    chunks_flatten 8 xs _ hxs (by omega) (by omega) _ (by rw [hlenR]; omega)
  have hfilter : (xs ++ [codabarWidths (E l)]).filter (· ≠ []) = xs ++ [codabarWidths (E l)] := by
    rw [List.filter_eq_self]
    intro x hx
    simp only [List.mem_append, List.mem_singleton] at hx
    have : x.length ≠ 0 := by
      rcases hx with hx | rfl
      · rw [hxs x hx]; omega
      · rw [hl7]; omega
    have : x ≠ [] := by intro e; rw [e] at this; simp at this
    simpa using this
  have hmap : (xs ++ [codabarWidths (E l)]).mapM (cbChunk T) = .ok (init ++ [l]) := by
    have hzip : xs ++ [codabarWidths (E l)] =
        (init.map (fun i => codabarWidths (E i) ++ [1])) ++ [codabarWidths (E l)] := by
      rw [hxsdef]; simp [List.map_map, Function.comp_def]
    rw [hzip]
    have : ∀ (a : List Nat), (∀ i ∈ a, i < 20) →
        (a.map (fun i => codabarWidths (E i) ++ [1]) ++ [codabarWidths (E l)]).mapM (cbChunk T) = .ok (a ++ [l]) := by
      intro a
      induction a with
      | nil =>
        intro _
        have := cbChunk_ok T hT l (hidx l (by simp)) (codabarWidths (E l)) (Or.inr rfl)
        simp only [List.map_nil, List.nil_append, List.mapM_cons, List.mapM_nil, this, bind, Except.bind, pure, Except.pure]
      | cons i a ih =>
        intro ha
        have := cbChunk_ok T hT i (ha i (by simp)) (codabarWidths (E i) ++ [1]) (Or.inl rfl)
        simp only [List.map_cons, List.cons_append, List.mapM_cons, this, bind, Except.bind, pure, Except.pure,
          ih (fun k hk => ha k (by simp [hk]))]
    exact this init (fun i hi => hidx i (by simp [hi]))
  unfold cbChunk at hmap
  unfold codabarIdeal
  rw [codabarDraw_runs, hruns]
  have hhead := appendPattern_head _ true hne' hpos
  have hr := runs_appendPattern _ true hpos
  simp only [hhead, hr, ne_eq, not_true_eq_false, if_false, bind, Except.bind]
  have h87 : (8 * xs.length + 7) % 8 = 7 := by omega
  simp only [hlenR, h87, not_true_eq_false, if_false]
  rw [← hlenR, hchunks, hfilter, hmap]

/-! ## the writer's guard handling -/

def cbGuardOk (c : Nat) : Bool := [65, 66, 67, 68].contains (codabarGuardMap (toUpperByte c))
def cbMidOk (c : Nat) : Bool := decide ((48 ≤ c ∧ c ≤ 57) ∨ c = 45 ∨ c = 36 ∨ c = 47 ∨ c = 58 ∨ c = 43 ∨ c = 46)

theorem guard_of_normal (x : Nat) (h : [65, 66, 67, 68].contains x = true) :
    [65, 66, 67, 68].contains (codabarGuardMap x) = true := by
  simp at h
  rcases h with rfl | rfl | rfl | rfl <;> decide

theorem guard_of_alt (x : Nat) (h : [84, 78, 42, 69].contains x = true) :
    [65, 66, 67, 68].contains (codabarGuardMap x) = true := by
  simp at h
  rcases h with rfl | rfl | rfl | rfl <;> decide

def cbPre (contents : List Nat) : Res (List Nat) :=
  let startEnd := [65, 66, 67, 68]
  let alt := [84, 78, 42, 69]
  if contents.length < 2 then pure ([65] ++ contents ++ [65])
  else
    match contents.head?, contents.getLast? with
    | some f, some l =>
      let fu := toUpperByte f
      let lu := toUpperByte l
      let startsNormal := startEnd.contains fu
      let endsNormal := startEnd.contains lu
      let startsAlt := alt.contains fu
      let endsAlt := alt.contains lu
      if startsNormal then (if endsNormal then pure contents else throw .writer)
      else if startsAlt then (if endsAlt then pure contents else throw .writer)
      else if endsNormal ∨ endsAlt then throw .writer
      else pure ([65] ++ contents ++ [65])
    | _, _ => throw (.panic "unreachable")

theorem codabarFull_eq (contents : List Nat) :
    codabarFull contents = (cbPre contents).bind (fun full =>
      if ((full.drop 1).dropLast).all cbMidOk then .ok full else .error .writer) := by
  unfold codabarFull cbPre
  dsimp only
  by_cases hlen : contents.length < 2
  · simp only [hlen, if_true]; rfl
  · simp only [hlen, if_false]
    cases hh : contents.head? with
    | none => rfl
    | some f =>
      cases hl : contents.getLast? with
      | none => rfl
      | some l =>
        dsimp only
        by_cases h1 : [65, 66, 67, 68].contains (toUpperByte f) = true <;>
        by_cases h2 : [65, 66, 67, 68].contains (toUpperByte l) = true <;>
        by_cases h3 : [84, 78, 42, 69].contains (toUpperByte f) = true <;>
        by_cases h4 : [84, 78, 42, 69].contains (toUpperByte l) = true <;>
        simp only [h1, h2, h3, h4, if_true, if_false, or_self, or_true, true_or, or_false, false_or] <;> rfl

theorem cbPre_spec (contents full : List Nat) (hpre : cbPre contents = .ok full) :
    ∃ f mid l, full = f :: (mid ++ [l]) ∧ cbGuardOk f = true ∧ cbGuardOk l = true := by
  unfold cbPre at hpre
  simp only [pure, Except.pure, throw, throwThe, MonadExceptOf.throw] at hpre
  split at hpre
  · cases hpre
    exact ⟨65, contents, 65, rfl, by decide, by decide⟩
  · rename_i hlen
    cases contents with
    | nil => simp at hlen
    | cons f rest =>
      have hrne : rest ≠ [] := by intro e; rw [e] at hlen; simp at hlen
      obtain ⟨mid, l, rfl⟩ : ∃ mid l, rest = mid ++ [l] :=
        ⟨rest.dropLast, rest.getLast hrne, (List.dropLast_concat_getLast hrne).symm⟩
      have hlast : (f :: (mid ++ [l])).getLast? = some l := by
        rw [← List.cons_append, List.getLast?_concat]
      simp only [List.head?_cons, hlast] at hpre
      split at hpre
      · rename_i hsn
        split at hpre
        · rename_i hen
          cases hpre
          exact ⟨f, mid, l, rfl, guard_of_normal _ hsn, guard_of_normal _ hen⟩
        · cases hpre
      · split at hpre
        · rename_i hsa
          split at hpre
          · rename_i hea
            cases hpre
            exact ⟨f, mid, l, rfl, guard_of_alt _ hsa, guard_of_alt _ hea⟩
          · cases hpre
        · split at hpre
          · cases hpre
          · cases hpre
            exact ⟨65, f :: (mid ++ [l]), 65, rfl, by decide, by decide⟩

theorem codabarFull_spec (contents full : List Nat) (h : codabarFull contents = .ok full) :
    ∃ f mid l, full = f :: (mid ++ [l]) ∧ cbGuardOk f = true ∧ cbGuardOk l = true ∧ ∀ c ∈ mid, cbMidOk c = true := by
  rw [codabarFull_eq] at h
  cases hpre : cbPre contents with
  | error e => rw [hpre] at h; cases h
  | ok full' =>
    rw [hpre] at h
    simp only [Except.bind] at h
    split at h
    · rename_i hmid
      cases h
      obtain ⟨f, mid, l, rfl, hf, hl⟩ := cbPre_spec contents full hpre
      refine ⟨f, mid, l, rfl, hf, hl, ?_⟩
      have e : ((f :: (mid ++ [l])).drop 1).dropLast = mid := by simp
      rw [e] at hmid
      exact fun c hc => List.all_eq_true.mp hmid c hc
    · cases h

/-! ## contents → modules → contents -/

def cbChar (n i c0 : Nat) : Nat :=
  if i = 0 ∨ i + 1 = n then codabarGuardMap (toUpperByte c0) else toUpperByte c0

def cbIdx (A : List Nat) (c : Nat) : Nat := (indexOf? c A).getD 0

theorem refA_lookup : refTables.codabarAlphabet.all (fun c =>
    match indexOf? c refTables.codabarAlphabet with
    | some k => decide (k < 20) && (refTables.codabarAlphabet[k]? == some c)
    | none => false) = true := by decide

theorem refA_mem (c : Nat) (hc : c ∈ refTables.codabarAlphabet) :
    ∃ k, indexOf? c refTables.codabarAlphabet = some k ∧ k < 20 ∧ refTables.codabarAlphabet[k]? = some c := by
  have := List.all_eq_true.mp refA_lookup c hc
  split at this
  · rename_i k hk
    simp only [Bool.and_eq_true, decide_eq_true_eq, beq_iff_eq] at this
    exact ⟨k, hk, this.1, this.2⟩
  · cases this

theorem guard_mem (c : Nat) (h : cbGuardOk c = true) : codabarGuardMap (toUpperByte c) ∈ refTables.codabarAlphabet := by
  unfold cbGuardOk at h
  generalize codabarGuardMap (toUpperByte c) = x at h
  simp at h
  rcases h with rfl | rfl | rfl | rfl <;> decide

theorem mid_mem (c : Nat) (h : cbMidOk c = true) : toUpperByte c = c ∧ c ∈ refTables.codabarAlphabet := by
  simp only [cbMidOk, decide_eq_true_eq] at h
  have hc : c = 48 ∨ c = 49 ∨ c = 50 ∨ c = 51 ∨ c = 52 ∨ c = 53 ∨ c = 54 ∨ c = 55 ∨ c = 56 ∨ c = 57 ∨
      c = 45 ∨ c = 36 ∨ c = 47 ∨ c = 58 ∨ c = 43 ∨ c = 46 := by omega
  rcases hc with rfl | rfl | rfl | rfl | rfl | rfl | rfl | rfl | rfl | rfl | rfl | rfl | rfl | rfl | rfl | rfl <;>
    exact ⟨by decide, by decide⟩

/-- the characters drawn for `f :: mid ++ [l]` -/
theorem cbChars_eq (f l : Nat) (mid : List Nat) (hmid : ∀ c ∈ mid, cbMidOk c = true) :
    (List.range (f :: (mid ++ [l])).length).map (fun i => cbChar (f :: (mid ++ [l])).length i ((f :: (mid ++ [l])).getD i 0))
      = codabarGuardMap (toUpperByte f) :: (mid ++ [codabarGuardMap (toUpperByte l)]) := by
  apply List.ext_getElem
  · simp
  · intro i h1 h2
    simp only [List.length_map, List.length_range, List.length_cons, List.length_append, List.length_nil] at h1
    simp only [List.getElem_map, List.getElem_range, List.length_cons, List.length_append, List.length_nil]
    cases i with
    | zero => simp [cbChar]
    | succ j =>
      by_cases hj : j < mid.length
      · have hne : ¬ (j + 1 = 0 ∨ j + 1 + 1 = mid.length + (0 + 1) + 1) := by omega
        simp only [cbChar, hne, if_false, List.getD_cons_succ, List.getElem_cons_succ]
        rw [List.getD_eq_getElem?_getD, List.getElem?_append_left hj, List.getElem_append_left hj]
        simp only [List.getElem?_eq_getElem hj, Option.getD_some]
        exact (mid_mem _ (hmid _ (List.getElem_mem hj))).1
      · have hje : j = mid.length := by omega
        subst hje
        simp [cbChar, List.getD_eq_getElem?_getD]

theorem nthN_getD' (l : List Nat) (i : Nat) (hi : i < l.length) : nth l i = .ok (l.getD i 0) := by
  simp [nth, List.getD_eq_getElem?_getD, List.getElem?_eq_getElem hi]

/-- Clause "Codabar: digits and - $ : / . + with start/stop A-D (also T N * E, lower case; A…A added when absent) …
    read(write(c)) == c without the guards": for every table of twenty pairwise distinct 7-bit words over the standard
    alphabet, every content the writer accepts (`codabarFull contents = ok full`: guards as supplied or added) with at
    least two data characters is drawn as a module pattern that the module-level reader (run lengths, 7 elements +
    narrow gap, table lookup, guard and length rules of the real reader) returns as the data characters between
    the guards. -/
theorem codabar_read_write_core (T : Tables) (hT : WFCodabar T = true) (hA : T.codabarAlphabet = refTables.codabarAlphabet)
    (contents full : List Nat) (h : codabarFull contents = .ok full) (hlen : full.length > 3) :
    ∃ mods, codabarModules T contents = .ok mods ∧ codabarIdeal T mods = .ok ((full.drop 1).dropLast) := by
  obtain ⟨f, mid, l, rfl, hf, hl, hmid⟩ := codabarFull_spec contents full h
  have hT' := hT
  simp only [WFCodabar, Bool.and_eq_true, beq_iff_eq, List.all_eq_true, decide_eq_true_eq] at hT'
  obtain ⟨⟨hlen20, _⟩, _⟩ := hT'
  generalize hn : (f :: (mid ++ [l])).length = n at *
  let chars := codabarGuardMap (toUpperByte f) :: (mid ++ [codabarGuardMap (toUpperByte l)])
  have hchars := cbChars_eq f l mid hmid
  rw [hn] at hchars
  have hmem : ∀ c ∈ chars, c ∈ refTables.codabarAlphabet := by
    intro c hc
    simp only [chars, List.mem_cons, List.mem_append, List.mem_singleton, List.mem_nil_iff, or_false] at hc
    rcases hc with rfl | hc | rfl
    · exact guard_mem _ hf
    · exact (mid_mem c (hmid c hc)).2
    · exact guard_mem _ hl
  have hmemi : ∀ i, i < n → cbChar n i ((f :: (mid ++ [l])).getD i 0) ∈ refTables.codabarAlphabet := by
    intro i hi
    apply hmem
    have : cbChar n i ((f :: (mid ++ [l])).getD i 0) ∈
        (List.range n).map (fun i => cbChar n i ((f :: (mid ++ [l])).getD i 0)) :=
      List.mem_map.mpr ⟨i, by simpa using hi, rfl⟩
    rw [hchars] at this
    exact this
  -- writer side
  have hwords : codabarWords T (f :: (mid ++ [l])) =
      .ok ((chars.map (cbIdx T.codabarAlphabet)).map (fun i => T.codabarEnc.getD i 0)) := by
    have e : (chars.map (cbIdx T.codabarAlphabet)).map (fun i => T.codabarEnc.getD i 0)
        = (List.range n).map (fun i => T.codabarEnc.getD
            (cbIdx T.codabarAlphabet (cbChar n i ((f :: (mid ++ [l])).getD i 0))) 0) := by
      simp only [chars, ← hchars, List.map_map, Function.comp_def]
    rw [e]
    unfold codabarWords
    simp only [hn]
    apply mapM_ok
    intro i hi
    have hi' : i < n := by simpa using hi
    obtain ⟨k, hk, hk20, _⟩ := refA_mem _ (hmemi i hi')
    have hnth := nthN_getD' (f :: (mid ++ [l])) i (by rw [hn]; exact hi')
    simp only [hnth, bind, Except.bind, pure, Except.pure]
    have hch : (if i = 0 ∨ i + 1 = n then codabarGuardMap (toUpperByte ((f :: (mid ++ [l])).getD i 0))
        else toUpperByte ((f :: (mid ++ [l])).getD i 0)) = cbChar n i ((f :: (mid ++ [l])).getD i 0) := rfl
    rw [hch, hA, hk]
    simp only [cbIdx, hA, hk, Option.getD_some]
    exact nthN_getD' _ _ (by omega)
  refine ⟨codabarDraw ((chars.map (cbIdx T.codabarAlphabet)).map (fun i => T.codabarEnc.getD i 0)),
    by simp only [codabarModules, h, hwords, bind, Except.bind, pure, Except.pure], ?_⟩
  have hidx : ∀ i ∈ chars.map (cbIdx T.codabarAlphabet), i < 20 := by
    intro i hi
    obtain ⟨c, hc, rfl⟩ := List.mem_map.mp hi
    obtain ⟨k, hk, hk20, _⟩ := refA_mem c (hmem c hc)
    simp only [cbIdx, hA, hk, Option.getD_some]; exact hk20
  rw [codabar_ideal_core T hT _ hidx (by simp [chars])]
  -- reader side
  have hback : (chars.map (cbIdx T.codabarAlphabet)).mapM (nth T.codabarAlphabet) = .ok chars := by
    have := mapM_ok (nth T.codabarAlphabet) (fun k => T.codabarAlphabet.getD k 0) (chars.map (cbIdx T.codabarAlphabet)) (by
      intro k hk
      exact nthN_getD' _ _ (by
        rw [hA]; have := hidx k hk
        have h20 : refTables.codabarAlphabet.length = 20 := by decide
        omega))
    rw [this, List.map_map]
    congr 1
    conv => rhs; rw [← List.map_id chars]
    apply List.map_congr_left
    intro c hc
    obtain ⟨k, hk, hk20, hget⟩ := refA_mem c (hmem c hc)
    simp only [Function.comp, cbIdx, hA, hk, Option.getD_some, List.getD_eq_getElem?_getD, hget, id]
  unfold codabarReadSymbols
  simp only [hback, bind, Except.bind, pure, Except.pure]
  have hhead : chars.head? = some (codabarGuardMap (toUpperByte f)) := rfl
  have hlast : chars.getLast? = some (codabarGuardMap (toUpperByte l)) := by
    simp only [chars]; rw [← List.cons_append, List.getLast?_concat]
  have hcl : chars.length = n := by rw [← hn]; simp [chars]
  simp only [hhead, hlast]
  unfold cbGuardOk at hf hl
  have h3 : ¬ chars.length ≤ 3 := by omega
  simp only [hf, hl, Bool.not_true, Bool.false_eq_true, if_false, h3, throw, throwThe, MonadExceptOf.throw]
  simp [chars]


end Gzx.OneD
