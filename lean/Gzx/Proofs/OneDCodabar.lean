/-
  C03 — Codabar: the module pattern drawn for alphabet indices is split back into exactly these indices
  (run lengths, groups of 7 elements + narrow gap, narrow/wide word, table lookup).
-/
import Gzx.Proofs.UpceanRow
import Gzx.Proofs.CheckDigit
set_option linter.unusedSimpArgs false
set_option linter.unusedVariables false
namespace Gzx.OneD
open Gzx Gzx.CheckDigit

/-- twenty pairwise distinct 7-bit words -/
def WFCodabar (T : Tables) : Bool :=
  T.codabarEnc.length == 20 && distinct T.codabarEnc && T.codabarEnc.all (· < 128)

theorem natOfBits_bitsMSB7_all : (List.range 128).all (fun w => natOfBits (bitsMSB 7 w) == w) = true := by decide

theorem natOfBits_bitsMSB7 (w : Nat) (hw : w < 128) : natOfBits (bitsMSB 7 w) = w := by
  have := List.all_eq_true.mp natOfBits_bitsMSB7_all w (by simpa using hw)
  simpa using this

theorem codabarWidths_shape (w : Nat) :
    (codabarWidths w).length = 7 ∧ (∀ x ∈ codabarWidths w, x = 1 ∨ x = 2) ∧
    (codabarWidths w).map (fun x => decide (x = 2)) = bitsMSB 7 w := by
  refine ⟨by simp [codabarWidths, bitsMSB], ?_, ?_⟩
  · intro x hx
    simp only [codabarWidths, List.mem_map] at hx
    obtain ⟨b, _, rfl⟩ := hx
    cases b <;> simp
  · simp only [codabarWidths, List.map_map]
    conv => rhs; rw [← List.map_id (bitsMSB 7 w)]
    apply List.map_congr_left
    intro b _
    cases b <;> simp

/-- run widths of the drawn characters: 7 elements each, a narrow gap between characters -/
def cbRuns : List Nat → List Nat
  | [] => []
  | [w] => codabarWidths w
  | w :: ws => codabarWidths w ++ [1] ++ cbRuns ws

theorem codabarDraw_runs (words : List Nat) : codabarDraw words = appendPattern (cbRuns words) true := by
  induction words with
  | nil => rfl
  | cons w ws ih =>
    cases ws with
    | nil => rfl
    | cons w2 ws2 =>
      simp only [codabarDraw, cbRuns, ih]
      have h7 := (codabarWidths_shape w).1
      rw [appendPattern_append (codabarWidths w ++ [1]), appendPattern_append (codabarWidths w)]
      have e1 : ¬ (codabarWidths w).length % 2 = 0 := by omega
      have e2 : (codabarWidths w ++ [1]).length % 2 = 0 := by simp; omega
      simp [e1, e2, h7, appendPattern]

theorem cbRuns_snoc (init : List Nat) (l : Nat) :
    cbRuns (init ++ [l]) = (init.map (fun w => codabarWidths w ++ [1])).flatten ++ codabarWidths l := by
  induction init with
  | nil => rfl
  | cons w ws ih =>
    have : (w :: ws) ++ [l] = w :: (ws ++ [l]) := rfl
    rw [this]
    cases hws : ws ++ [l] with
    | nil => simp at hws
    | cons a b =>
      simp only [cbRuns]
      rw [← hws, ih]
      simp

/-- what `codabarIdeal` does with one group of runs -/
def cbChunk (T : Tables) (c : List Nat) : Res Nat :=
  let el := c.take 7
  if el.all (fun w => w = 1 ∨ w = 2) ∧ (c.length = 7 ∨ c.getLast? = some 1) then
    wordLookup T.codabarEnc (natOfBits (el.map (· = 2)))
  else .error .notFound

theorem cbChunk_ok (T : Tables) (hT : WFCodabar T = true) (i : Nat) (hi : i < 20) (c : List Nat)
    (hc : c = codabarWidths (T.codabarEnc.getD i 0) ++ [1] ∨ c = codabarWidths (T.codabarEnc.getD i 0)) :
    cbChunk T c = .ok i := by
  unfold cbChunk
  simp only []
  simp only [WFCodabar, Bool.and_eq_true, beq_iff_eq, List.all_eq_true, decide_eq_true_eq] at hT
  obtain ⟨⟨hlen, hdist⟩, h128⟩ := hT
  have hil : i < T.codabarEnc.length := by omega
  have hget : T.codabarEnc.getD i 0 = T.codabarEnc[i] := by
    simp [List.getD_eq_getElem?_getD, List.getElem?_eq_getElem hil]
  have hw128 : T.codabarEnc.getD i 0 < 128 := by rw [hget]; exact h128 _ (List.getElem_mem hil)
  obtain ⟨h7, h12, hbits⟩ := codabarWidths_shape (T.codabarEnc.getD i 0)
  have htake : c.take 7 = codabarWidths (T.codabarEnc.getD i 0) := by
    rcases hc with rfl | rfl
    · rw [← h7, List.take_left']; rfl
    · rw [← h7, List.take_length]
  have hgap : c.length = 7 ∨ c.getLast? = some 1 := by
    rcases hc with rfl | rfl
    · right; simp
    · left; exact h7
  have hall : ((c.take 7).all (fun w => decide (w = 1 ∨ w = 2))) = true := by
    rw [htake, List.all_eq_true]
    intro x hx
    simpa using h12 x hx
  rw [if_pos ⟨hall, hgap⟩, htake, hbits, natOfBits_bitsMSB7 _ hw128]
  unfold wordLookup
  rw [hget, indexOf?_getElem hdist i hil]

/-- Clause "Codabar … reads back", module layer: for every table of twenty pairwise distinct 7-bit words, the module
    pattern the writer draws for the alphabet indices `idx` (start, data, stop) is split back into exactly these
    indices — run lengths, groups of seven elements and a narrow gap, narrow/wide word, table lookup — and then
    judged by the reader's guard / length rules. -/
theorem codabar_ideal_core (T : Tables) (hT : WFCodabar T = true) (idx : List Nat)
    (hidx : ∀ i ∈ idx, i < 20) (hne : idx ≠ []) :
    codabarIdeal T (codabarDraw (idx.map (fun i => T.codabarEnc.getD i 0))) = codabarReadSymbols T idx := by
  obtain ⟨init, l, rfl⟩ : ∃ init l, idx = init ++ [l] :=
    ⟨idx.dropLast, idx.getLast hne, (List.dropLast_concat_getLast hne).symm⟩
  let E := fun i => T.codabarEnc.getD i 0
  have hruns : cbRuns ((init ++ [l]).map E) = ((init.map E).map (fun w => codabarWidths w ++ [1])).flatten ++ codabarWidths (E l) := by
    rw [List.map_append]; exact cbRuns_snoc _ _
  obtain ⟨xs, hxsdef⟩ : ∃ xs, xs = (init.map E).map (fun w => codabarWidths w ++ [1]) := ⟨_, rfl⟩
  rw [← hxsdef] at hruns
  have hxs : ∀ x ∈ xs, x.length = 8 := by
    intro x hx
    rw [hxsdef] at hx
    simp only [List.mem_map] at hx
    obtain ⟨w, _, rfl⟩ := hx
    simp [(codabarWidths_shape w).1]
  have hpos : ∀ w ∈ xs.flatten ++ codabarWidths (E l), 0 < w := by
    intro w hw
    simp only [List.mem_append, List.mem_flatten] at hw
    rcases hw with ⟨x, hx, hwx⟩ | hw
    · rw [hxsdef] at hx
      simp only [List.mem_map] at hx
      obtain ⟨v, _, rfl⟩ := hx
      simp only [List.mem_append, List.mem_singleton] at hwx
      rcases hwx with hwx | rfl
      · rcases (codabarWidths_shape v).2.1 w hwx with h | h <;> omega
      · omega
    · rcases (codabarWidths_shape (E l)).2.1 w hw with h | h <;> omega
  have hl7 := (codabarWidths_shape (E l)).1
  have hne' : xs.flatten ++ codabarWidths (E l) ≠ [] := by
    intro e
    have := congrArg List.length e
    simp [hl7] at this
  have hflen : xs.flatten.length = 8 * xs.length := flatten_length_const xs 8 hxs
  have hlenR : (xs.flatten ++ codabarWidths (E l)).length = 8 * xs.length + 7 := by
    simp only [List.length_append, hflen, hl7]
  have hchunks : chunks 8 (xs.flatten ++ codabarWidths (E l)).length (xs.flatten ++ codabarWidths (E l))
      = xs ++ [codabarWidths (E l)] :=
    chunks_flatten 8 xs _ hxs (by omega) (by omega) _ (by rw [hlenR]; omega)
  have hfilter : (xs ++ [codabarWidths (E l)]).filter (· ≠ []) = xs ++ [codabarWidths (E l)] := by
    rw [List.filter_eq_self]
    intro x hx
    simp only [List.mem_append, List.mem_singleton] at hx
    have : x.length ≠ 0 := by
      rcases hx with hx | rfl
      · rw [hxs x hx]; omega
      · rw [hl7]; omega
    have : x ≠ [] := by intro e; rw [e] at this; simp at this
    simpa using this
  have hmap : (xs ++ [codabarWidths (E l)]).mapM (cbChunk T) = .ok (init ++ [l]) := by
    have hzip : xs ++ [codabarWidths (E l)] =
        (init.map (fun i => codabarWidths (E i) ++ [1])) ++ [codabarWidths (E l)] := by
      rw [hxsdef]; simp [List.map_map, Function.comp_def]
    rw [hzip]
    have : ∀ (a : List Nat), (∀ i ∈ a, i < 20) →
        (a.map (fun i => codabarWidths (E i) ++ [1]) ++ [codabarWidths (E l)]).mapM (cbChunk T) = .ok (a ++ [l]) := by
      intro a
      induction a with
      | nil =>
        intro _
        have := cbChunk_ok T hT l (hidx l (by simp)) (codabarWidths (E l)) (Or.inr rfl)
        simp only [List.map_nil, List.nil_append, List.mapM_cons, List.mapM_nil, this, bind, Except.bind, pure, Except.pure]
      | cons i a ih =>
        intro ha
        have := cbChunk_ok T hT i (ha i (by simp)) (codabarWidths (E i) ++ [1]) (Or.inl rfl)
        simp only [List.map_cons, List.cons_append, List.mapM_cons, this, bind, Except.bind, pure, Except.pure,
          ih (fun k hk => ha k (by simp [hk]))]
    exact this init (fun i hi => hidx i (by simp [hi]))
  unfold cbChunk at hmap
  unfold codabarIdeal
  rw [codabarDraw_runs, hruns]
  have hhead := appendPattern_head _ true hne' hpos
  have hr := runs_appendPattern _ true hpos
  simp only [hhead, hr, ne_eq, not_true_eq_false, if_false, bind, Except.bind]
  have h87 : (8 * xs.length + 7) % 8 = 7 := by omega
  simp only [hlenR, h87, not_true_eq_false, if_false]
  rw [← hlenR, hchunks, hfilter, hmap]

end Gzx.OneD
