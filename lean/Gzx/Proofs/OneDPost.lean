/-
  Helper lemmas for Properties/C06.lean : index arithmetic of the Code 39 / Code 93 check characters.
-/
import Gzx.Model.OneDPost
namespace Gzx.OneDPost

theorem indexFrom_nonneg (alpha : List Nat) (c i : Nat) (h : c ∈ alpha) : 0 ≤ indexFrom alpha c i := by
  induction alpha generalizing i with
  | nil => cases h
  | cons a as ih =>
    unfold indexFrom
    by_cases e : a = c
    · simp only [e, if_true]; omega
    · simp only [e, if_false]
      have : c ∈ as := by
        rcases List.mem_cons.mp h with h1 | h1
        · exact absurd h1.symm e
        · exact h1
      exact ih (i + 1) this

theorem indexOf_nonneg (alpha : List Nat) (c : Nat) (h : c ∈ alpha) : 0 ≤ indexOf alpha c :=
  indexFrom_nonneg alpha c 0 h

theorem foldl_idx_nonneg (alpha : List Nat) (s : List Nat) (h : ∀ c ∈ s, c ∈ alpha) (t : Int) (ht : 0 ≤ t) :
    0 ≤ s.foldl (fun t c => t + indexOf alpha c) t := by
  induction s generalizing t with
  | nil => simpa using ht
  | cons c rest ih =>
    simp only [List.foldl_cons]
    apply ih (fun x hx => h x (by simp [hx]))
    have := indexOf_nonneg alpha c (h c (by simp))
    omega

theorem sumIdx_nonneg (alpha s : List Nat) (h : ∀ c ∈ s, c ∈ alpha) : 0 ≤ sumIdx alpha s :=
  foldl_idx_nonneg alpha s h 0 (by omega)

/-- `alphabet[total % n]` is in range for a non-negative total when the alphabet has at least n entries -/
theorem alphaAt_tmod_ok (alpha : List Nat) (n : Nat) (hn : n ≤ alpha.length) (hpos : 0 < n)
    (total : Int) (ht : 0 ≤ total) : ∃ c, alphaAt alpha (Int.tmod total n) = .ok c := by
  unfold alphaAt
  have h0 : 0 ≤ Int.tmod total n := Int.tmod_nonneg _ ht
  have h1 : Int.tmod total n < n := Int.tmod_lt_of_pos _ (by omega)
  have hneg : ¬ (Int.tmod total n < 0) := by omega
  simp only [hneg, if_false]
  have hlt : (Int.tmod total n).toNat < alpha.length := by omega
  have : alpha[(Int.tmod total n).toNat]? = some alpha[(Int.tmod total n).toNat] := List.getElem?_eq_getElem hlt
  rw [this]
  exact ⟨_, rfl⟩

theorem c93Weighted_nonneg (wm : Nat) (s : List Nat) (h : ∀ c ∈ s, c ∈ c93Alphabet) (w : Nat) (t : Int)
    (ht : 0 ≤ t) : 0 ≤ c93Weighted wm s w t := by
  induction s generalizing w t with
  | nil => simpa [c93Weighted] using ht
  | cons c rest ih =>
    simp only [c93Weighted]
    apply ih (fun x hx => h x (by simp [hx]))
    have h1 := indexOf_nonneg c93Alphabet c (h c (by simp))
    have h2 : 0 ≤ (w : Int) * indexOf c93Alphabet c := Int.mul_nonneg (by omega) h1
    omega

end Gzx.OneDPost
