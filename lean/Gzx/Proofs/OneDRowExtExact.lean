/-
  wp rowsrest — the whole-row model instantiated with exact fractions (`VarOps.exact`) refines the UPC/EAN row decoder
  of Model/OneD.lean (the one C03's `upcean_read_write` is about): same guard search, same digits, same text.
-/
import Gzx.Proofs.OneDRowExtTotal3
namespace Gzx.Proofs.OneDRowExtExact
open Gzx Gzx.CheckDigit Gzx.OneDRowExt Gzx.Proofs.OneDRowExtTotal
open Gzx.OneD (Tables)

abbrev E := VarOps.exact

theorem pmv_cases (cs pattern : List Nat) :
    (pattern.length < cs.length ∧
      RunLength.patternMatchVariance cs pattern 7 10 = .error (.panic "pattern[i] out of range")) ∨
    (¬ pattern.length < cs.length ∧ ∃ v, RunLength.patternMatchVariance cs pattern 7 10 = .ok v) := by
  unfold RunLength.patternMatchVariance
  by_cases h : pattern.length < cs.length
  · exact Or.inl ⟨h, by rw [if_pos h]⟩
  · refine Or.inr ⟨h, ?_⟩
    rw [if_neg h]
    simp only []
    split
    · exact ⟨_, rfl⟩
    · split <;> exact ⟨_, rfl⟩

theorem exactLt_avg (v : Option (Nat × Nat)) : exactLt v (some (12, 25)) = OneD.belowAvg v := by
  cases v with
  | none => rfl
  | some p =>
    obtain ⟨n, d⟩ := p
    simp only [exactLt, OneD.fracLt, OneD.belowAvg]
    rw [Nat.mul_comm n 25]

theorem guardLoop_exact (pattern : List Nat) :
    ∀ (bs : List Bool) (x : Nat) (cs : List Nat) (pos ps : Nat) (w : Bool),
      guardLoop E pattern bs x cs pos ps w = OneD.guardLoop pattern bs x cs pos ps w
  | [], _, _, _, _, _ => rfl
  | b :: bs, x, cs, pos, ps, w => by
    unfold guardLoop OneD.guardLoop
    by_cases hb : (b != w) = true
    · rw [if_pos hb, if_pos hb]; exact guardLoop_exact pattern bs _ _ _ _ _
    · rw [if_neg hb, if_neg hb]
      by_cases hl : pos + 1 = pattern.length
      · rw [if_pos hl, if_pos hl]
        rcases pmv_cases cs pattern with ⟨hlt, hp⟩ | ⟨hlt, v, hp⟩
        · rw [if_pos hlt, hp]
        · rw [if_neg hlt, hp]
          simp only []
          have : E.lt (E.pmv cs pattern) E.maxAvg = OneD.belowAvg v := by
            show exactLt (exactPmv cs pattern) (some (12, 25)) = _
            rw [exactLt_avg]; unfold exactPmv; rw [hp]
          rw [this]
          by_cases hv : OneD.belowAvg v = true
          · rw [if_pos hv, if_pos hv]
          · rw [if_neg hv, if_neg hv]
            match cs with
            | c0 :: c1 :: tl =>
              simp only []
              split
              · rfl
              · exact guardLoop_exact pattern bs _ _ _ _ _
            | [_] => rfl
            | [] => rfl
      · rw [if_neg hl, if_neg hl]; exact guardLoop_exact pattern bs _ _ _ _ _

theorem findGuardPattern_exact (row : List Bool) (off : Nat) (wf : Bool) (p : List Nat) :
    findGuardPattern E row off wf p = OneD.findGuardPattern row off wf p := by
  unfold findGuardPattern OneD.findGuardPattern
  exact guardLoop_exact p _ _ _ _ _ _

theorem findStartLoop_exact (T : Tables) (row : List Bool) : ∀ (fuel next : Nat),
    findStartLoop E T row fuel next = OneD.findStartLoop T row fuel next
  | 0, _ => rfl
  | fuel + 1, next => by
    unfold findStartLoop OneD.findStartLoop
    rw [findGuardPattern_exact]
    cases OneD.findGuardPattern row next false T.startEnd with
    | error e => rfl
    | ok r =>
      obtain ⟨s, n⟩ := r
      simp only []
      split
      · rfl
      · exact findStartLoop_exact T row fuel n

theorem findStartGuardPattern_exact (T : Tables) (row : List Bool) :
    findStartGuardPattern E T row = OneD.findStartGuardPattern T row := findStartLoop_exact T row _ _

theorem bestLoop_exact (counters : List Nat) : ∀ (ps : List (List Nat)) (i : Nat) (best : Nat × Nat) (bm : Option Nat),
    bestLoop E counters ps i (some best) bm = OneD.bestLoop counters ps i best bm
  | [], _, _, _ => rfl
  | p :: ps, i, best, bm => by
    unfold bestLoop OneD.bestLoop
    rcases pmv_cases counters p with ⟨hlt, hp⟩ | ⟨hlt, v, hp⟩
    · rw [if_pos hlt, hp]
    · rw [if_neg hlt, hp]
      have hv : E.pmv counters p = v := by show exactPmv counters p = v; unfold exactPmv; rw [hp]
      simp only [hv]
      cases v with
      | none =>
        simp only []
        have : E.lt none (some best) = false := rfl
        rw [this]
        simp only [Bool.false_eq_true, if_false]
        exact bestLoop_exact counters ps _ _ _
      | some v' =>
        simp only []
        have : E.lt (some v') (some best) = OneD.fracLt v' best := rfl
        rw [this]
        split
        · exact bestLoop_exact counters ps _ _ _
        · exact bestLoop_exact counters ps _ _ _

theorem decodeDigit_exact (row : List Bool) (off : Nat) (ps : List (List Nat)) :
    decodeDigit E row off ps = OneD.decodeDigit row off ps := by
  unfold decodeDigit OneD.decodeDigit
  cases RunLength.recordPattern row off 4 with
  | error e => rfl
  | ok counters =>
    simp only []
    have : bestLoop E counters ps 0 E.maxAvg none = OneD.bestLoop counters ps 0 (12, 25) none :=
      bestLoop_exact counters ps 0 (12, 25) none
    rw [this]
    cases OneD.bestLoop counters ps 0 (12, 25) none with
    | error e => rfl
    | ok r => cases r <;> rfl

theorem digitsLoop_exact (row : List Bool) (ps : List (List Nat)) : ∀ (n off : Nat) (acc : List Nat),
    digitsLoop E row ps n off acc = OneD.digitsLoop row ps n off acc
  | 0, _, _ => rfl
  | n + 1, off, acc => by
    unfold digitsLoop OneD.digitsLoop
    rw [decodeDigit_exact]
    split
    · cases OneD.decodeDigit row off ps with
      | error e => rfl
      | ok r => obtain ⟨m, w⟩ := r; exact digitsLoop_exact row ps n _ _
    · rfl

theorem decodeMiddle_exact (T : Tables) (k : EanKind) (row : List Bool) (s : Nat) :
    decodeMiddle E T k row s =
      (match k with
       | .ean13 | .upca => OneD.ean13DecodeMiddle T row s
       | .ean8 => OneD.ean8DecodeMiddle T row s
       | .upce => OneD.upceDecodeMiddle T row s) := by
  cases k <;>
    simp only [decodeMiddle, ean13DecodeMiddle, ean8DecodeMiddle, upceDecodeMiddle, OneD.ean13DecodeMiddle,
      OneD.ean8DecodeMiddle, OneD.upceDecodeMiddle, digitsLoop_exact, findGuardPattern_exact]

theorem decodeEnd_exact (T : Tables) (k : EanKind) (row : List Bool) (s : Nat) :
    decodeEnd E T k row s =
      (match k with
       | .upce => OneD.findGuardPattern row s true T.upceMiddleEnd
       | _ => OneD.findGuardPattern row s false T.startEnd) := by
  cases k <;> simp only [decodeEnd, findGuardPattern_exact]

end Gzx.Proofs.OneDRowExtExact

namespace Gzx.Proofs.OneDRowExtExact
open Gzx Gzx.CheckDigit Gzx.OneDRowExt Gzx.Proofs.OneDRowExtTotal Gzx.Det
open Gzx.OneD (Tables isRangeWhite notFoundOf)

/-- the text part of `finishRow` without an ALLOWED_EAN_EXTENSIONS hint: quiet zone, then the check digit — the add-on
    reader, country lookup and symbology identifier only add metadata and points (for ANY variance interpretation) -/
theorem finishRow_text {V : Type} (O : VarOps V) (T : Tables) (X : ExtTables) (wf : WFRow T X) (k : EanKind) (rn : Int)
    (row : List Bool) (h : Hints) (hext : h.allowedExt = none) (sg er : Nat × Nat) (result : List Nat) :
    (finishRow O T X k rn row h sg er result).map (·.text) =
      (if er.2 + (er.2 - er.1) ≥ row.length then .error .notFound
       else if !(isRangeWhite row er.2 (er.2 + (er.2 - er.1))) then .error .notFound
       else match readerAccept k result with
         | .error e => .error e
         | .ok () => .ok result) := by
  unfold finishRow
  simp only []
  split
  · rfl
  · split
    · rfl
    · cases har : readerAccept k result with
      | error e => rfl
      | ok u =>
        simp only []
        have hx := extDecodeRow_sat O T X wf rn row er.2
        cases hxr : extDecodeRow O T X rn row er.2 with
        | ok x => simp [hext, Except.map]
        | error e =>
          rw [hxr] at hx
          rcases hx with hx | hx | hx <;> subst hx <;> simp [hext, Except.map]

end Gzx.Proofs.OneDRowExtExact

namespace Gzx.Proofs.OneDRowExtExact
open Gzx Gzx.CheckDigit Gzx.OneDRowExt Gzx.Proofs.OneDRowExtTotal Gzx.Det
open Gzx.OneD (Tables isRangeWhite notFoundOf)

/-- `OneD.decodeWithStart` spelled out stage by stage -/
theorem oneD_decodeWithStart_eq (T : Tables) (k : EanKind) (row : List Bool) (sg : Nat × Nat) :
    OneD.decodeWithStart T k row sg =
      (match (match k with
              | .ean13 | .upca => OneD.ean13DecodeMiddle T row sg.2
              | .ean8 => OneD.ean8DecodeMiddle T row sg.2
              | .upce => OneD.upceDecodeMiddle T row sg.2) with
       | .error e => .error e
       | .ok (endStart, result) =>
         match notFoundOf (match k with
                           | .upce => OneD.findGuardPattern row endStart true T.upceMiddleEnd
                           | _ => OneD.findGuardPattern row endStart false T.startEnd) with
         | .error e => .error e
         | .ok er =>
           if er.2 + (er.2 - er.1) ≥ row.length then .error .notFound
           else if !(isRangeWhite row er.2 (er.2 + (er.2 - er.1))) then .error .notFound
           else match readerAccept (if k = .upca then .ean13 else k) result with
             | .error e => .error e
             | .ok () =>
               if k = .upca then
                 (match result with
                  | 48 :: rest => .ok rest
                  | _ => .error .format)
               else .ok result) := by
  cases k <;>
    simp only [OneD.decodeWithStart, bind, Except.bind, pure, Except.pure, throw, throwThe, MonadExceptOf.throw,
      reduceCtorEq, if_false, if_true]
  · cases OneD.ean13DecodeMiddle T row sg.2 with
    | error e => rfl
    | ok r =>
      obtain ⟨a, b⟩ := r
      simp only []
      cases notFoundOf (OneD.findGuardPattern row a false T.startEnd) with
      | error e => rfl
      | ok er =>
        simp only []
        split
        · rfl
        · split
          · rfl
          · cases readerAccept .ean13 b <;> rfl
  · cases OneD.ean8DecodeMiddle T row sg.2 with
    | error e => rfl
    | ok r =>
      obtain ⟨a, b⟩ := r
      simp only []
      cases notFoundOf (OneD.findGuardPattern row a false T.startEnd) with
      | error e => rfl
      | ok er =>
        simp only []
        split
        · rfl
        · split
          · rfl
          · cases readerAccept .ean8 b <;> rfl
  · cases OneD.ean13DecodeMiddle T row sg.2 with
    | error e => rfl
    | ok r =>
      obtain ⟨a, b⟩ := r
      simp only []
      cases notFoundOf (OneD.findGuardPattern row a false T.startEnd) with
      | error e => rfl
      | ok er =>
        simp only []
        split
        · rfl
        · split
          · rfl
          · cases readerAccept .ean13 b with
            | error e => rfl
            | ok u => rfl
  · cases OneD.upceDecodeMiddle T row sg.2 with
    | error e => rfl
    | ok r =>
      obtain ⟨a, b⟩ := r
      simp only []
      cases notFoundOf (OneD.findGuardPattern row a true T.upceMiddleEnd) with
      | error e => rfl
      | ok er =>
        simp only []
        split
        · rfl
        · split
          · rfl
          · cases readerAccept .upce b <;> rfl

end Gzx.Proofs.OneDRowExtExact

namespace Gzx.Proofs.OneDRowExtExact
open Gzx Gzx.CheckDigit Gzx.OneDRowExt Gzx.Proofs.OneDRowExtTotal Gzx.Det
open Gzx.OneD (Tables isRangeWhite notFoundOf)

/-- text of `decodeWithStart` (kinds EAN-13, EAN-8, UPC-E) stage by stage, exact instance -/
theorem decodeWithStart_text (T : Tables) (X : ExtTables) (wf : WFRow T X) (k : EanKind) (rn : Int) (row : List Bool)
    (h : Hints) (hext : h.allowedExt = none) (sg : Nat × Nat) :
    (decodeWithStart E T X k rn row h sg).2.map (·.text) =
      (match decodeMiddle E T k row sg.2 with
       | .error e => .error e
       | .ok (endStart, result) =>
         match notFoundOf (decodeEnd E T k row endStart) with
         | .error e => .error e
         | .ok er =>
           if er.2 + (er.2 - er.1) ≥ row.length then .error .notFound
           else if !(isRangeWhite row er.2 (er.2 + (er.2 - er.1))) then .error .notFound
           else match readerAccept k result with
             | .error e => .error e
             | .ok () => .ok result) := by
  unfold decodeWithStart
  simp only []
  cases decodeMiddle E T k row sg.2 with
  | error e => rfl
  | ok r =>
    obtain ⟨endStart, result⟩ := r
    simp only []
    cases notFoundOf (decodeEnd E T k row endStart) with
    | error e => rfl
    | ok er => exact finishRow_text E T X wf k rn row h hext sg er result

/-- **Refinement**: without an ALLOWED_EAN_EXTENSIONS hint the text the whole-row model returns (exact-fraction
    instance) is what the row decoder of Model/OneD.lean returns — for every reader kind, row, row number, callback
    hint.  (The add-on reader, the metadata and the result points ride along; they never change the text.) -/
theorem readerWithStart_text_exact (T : Tables) (X : ExtTables) (wf : WFRow T X) (k : EanKind) (rn : Int)
    (row : List Bool) (h : Hints) (hext : h.allowedExt = none) (sg : Nat × Nat) :
    (readerWithStart E T X k rn row h sg).2.map (·.text) = OneD.decodeWithStart T k row sg := by
  rw [oneD_decodeWithStart_eq]
  unfold readerWithStart
  cases k with
  | ean13 =>
    simp only [decodeWithStart_text T X wf .ean13 rn row h hext sg, decodeMiddle_exact, decodeEnd_exact, reduceCtorEq, if_false]
  | ean8 =>
    simp only [decodeWithStart_text T X wf .ean8 rn row h hext sg, decodeMiddle_exact, decodeEnd_exact, reduceCtorEq, if_false]
  | upce =>
    simp only [decodeWithStart_text T X wf .upce rn row h hext sg, decodeMiddle_exact, decodeEnd_exact, reduceCtorEq, if_false]
  | upca =>
    simp only [if_true]
    have ht := decodeWithStart_text T X wf .ean13 rn row h hext sg
    simp only [decodeMiddle_exact, decodeEnd_exact] at ht
    have hs := decodeWithStart_sat E T X wf .ean13 rn row h sg
    -- relate `maybeReturnResult r` to `r.map text`
    cases hr : (decodeWithStart E T X .ean13 rn row h sg).2 with
    | error e =>
      rw [hr] at ht
      simp only [Except.map] at ht
      simp only [maybeReturnResult, Except.map]
      -- the right-hand side is an error as well: the stages agree up to the last match
      revert ht
      cases OneD.ean13DecodeMiddle T row sg.2 with
      | error e' => intro ht; simp only [] at ht ⊢; exact ht
      | ok r =>
        obtain ⟨a, b⟩ := r
        simp only []
        cases notFoundOf (OneD.findGuardPattern row a false T.startEnd) with
        | error e' => intro ht; simp only [] at ht ⊢; exact ht
        | ok er =>
          simp only []
          split
          · intro ht; exact ht
          · split
            · intro ht; exact ht
            · cases readerAccept .ean13 b with
              | error e' => intro ht; simp only [] at ht ⊢; exact ht
              | ok u => intro ht; cases ht
    | ok res =>
      rw [hr] at ht hs
      simp only [Except.map] at ht
      have h8 : 8 ≤ res.text.length := hs.1
      simp only [maybeReturnResult]
      revert ht
      cases OneD.ean13DecodeMiddle T row sg.2 with
      | error e' => intro ht; cases ht
      | ok r =>
        obtain ⟨a, b⟩ := r
        simp only []
        cases notFoundOf (OneD.findGuardPattern row a false T.startEnd) with
        | error e' => intro ht; cases ht
        | ok er =>
          simp only []
          split
          · intro ht; cases ht
          · split
            · intro ht; cases ht
            · cases readerAccept .ean13 b with
              | error e' => intro ht; cases ht
              | ok u =>
                intro ht
                have hb : res.text = b := by injection ht
                simp only []
                rw [hb]
                rw [hb] at h8
                match b, h8 with
                | [], h8 => simp at h8
                | c :: rest, _ =>
                  simp only []
                  by_cases hc : c = 48
                  · subst hc; simp [Except.map]
                  · simp only [hc, if_false, Except.map]
                    split
                    · rename_i heq; injection heq with h1 _; exact absurd h1 hc
                    · rfl

end Gzx.Proofs.OneDRowExtExact
