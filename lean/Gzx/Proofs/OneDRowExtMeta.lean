/-
  wp rowsrest — what the metadata of a whole-row result says: lookups after `PutMetadata` / `PutAllMetadata`, and the
  ALLOWED_EAN_EXTENSIONS rule on the observable result.
-/
import Gzx.Proofs.OneDRowExtTotal3
namespace Gzx.Proofs.OneDRowExtTotal
open Gzx Gzx.CheckDigit Gzx.Det Gzx.OneDRowExt
open Gzx.OneD (Tables notFoundOf)

/-- `metadata[k]` -/
def mget : Meta → MetaKey → Option MetaVal
  | [], _ => none
  | p :: ps, k => if p.1 = k then some p.2 else mget ps k

theorem mget_map_put (k : MetaKey) (v : MetaVal) (k' : MetaKey) : ∀ (m : Meta),
    mget (m.map (fun p => if p.1 = k then (k, v) else p)) k' =
      if k' = k then (mget m k).map (fun _ => v) else mget m k'
  | [] => by simp [mget]
  | p :: ps => by
    have ih := mget_map_put k v k' ps
    by_cases hpk : p.1 = k <;> by_cases hk : k' = k
    · subst hk; simp [mget, hpk]
    · have h1 : ¬ k = k' := fun h => hk h.symm
      have h2 : ¬ p.1 = k' := by rw [hpk]; exact h1
      simp [mget, hpk, hk, h1, h2, ih]
    · subst hk; simp [mget, hpk, ih]
    · simp [mget, hpk, hk, ih]

theorem mget_isSome_of_any (k : MetaKey) : ∀ (m : Meta), m.any (·.1 = k) = true → ∃ x, mget m k = some x
  | [], h => by simp at h
  | p :: ps, h => by
    by_cases hp : p.1 = k
    · exact ⟨p.2, by simp [mget, hp]⟩
    · have : ps.any (·.1 = k) = true := by
        simp only [List.any_cons, Bool.or_eq_true, decide_eq_true_eq] at h
        rcases h with h | h
        · exact absurd h hp
        · simpa using h
      obtain ⟨x, hx⟩ := mget_isSome_of_any k ps this
      exact ⟨x, by simp [mget, hp, hx]⟩

theorem mget_none_of_not_any (k : MetaKey) : ∀ (m : Meta), ¬ m.any (·.1 = k) = true → mget m k = none
  | [], _ => rfl
  | p :: ps, h => by
    simp only [List.any_cons, Bool.or_eq_true, decide_eq_true_eq, not_or] at h
    have := mget_none_of_not_any k ps (by simpa using h.2)
    simp [mget, h.1, this]

theorem mget_append_single (k : MetaKey) (v : MetaVal) (k' : MetaKey) : ∀ (m : Meta),
    mget (m ++ [(k, v)]) k' = match mget m k' with
      | some x => some x
      | none => if k = k' then some v else none
  | [] => by simp [mget]
  | p :: ps => by
    have ih := mget_append_single k v k' ps
    by_cases hp : p.1 = k'
    · simp [mget, hp]
    · simp [mget, hp, ih]

theorem mget_put (m : Meta) (k : MetaKey) (v : MetaVal) (k' : MetaKey) :
    mget (m.put k v) k' = if k' = k then some v else mget m k' := by
  unfold Meta.put
  by_cases ha : m.any (·.1 = k) = true
  · rw [if_pos ha, mget_map_put]
    by_cases hk : k' = k
    · obtain ⟨x, hx⟩ := mget_isSome_of_any k m ha
      simp [hk, hx]
    · simp [hk]
  · rw [if_neg ha, mget_append_single]
    have hn := mget_none_of_not_any k m ha
    by_cases hk : k' = k
    · subst hk; simp [hn]
    · have : ¬ k = k' := fun h => hk h.symm
      simp only [hk, if_false, this]
      cases mget m k' <;> rfl

/-- lookup of a key `PutAllMetadata(n)` does not carry -/
theorem mget_putAll_other (k : MetaKey) : ∀ (n m : Meta), (∀ p ∈ n, p.1 ≠ k) → mget (m.putAll n) k = mget m k
  | [], m, _ => rfl
  | p :: ps, m, h => by
    unfold Meta.putAll
    simp only [List.foldl_cons]
    have := mget_putAll_other k ps (m.put p.1 p.2) (fun q hq => h q (by simp [hq]))
    unfold Meta.putAll at this
    rw [this, mget_put]
    have hp : k ≠ p.1 := fun e => h p (by simp) e.symm
    simp [hp]

/-- the add-on text a result reports (`ResultMetadataType_UPC_EAN_EXTENSION`), if any -/
def extText (res : RowResult) : Option (List Nat) :=
  match mget res.md .upcEanExtension with
  | some (.str t) => some t
  | _ => none

/-- length of the reported add-on, 0 without one: what ALLOWED_EAN_EXTENSIONS is compared with -/
def extLen (res : RowResult) : Nat := match extText res with | some t => t.length | none => 0

theorem parseExtension5_keys (raw : List Nat) (m : Meta) (h : parseExtension5 raw = .ok m) :
    ∀ p ∈ m, p.1 ≠ .upcEanExtension := by
  unfold parseExtension5 at h
  split at h
  · cases h; simp
  · split at h
    · cases h
    · cases h; simp
    · cases h; intro p hp; simp at hp; subst hp; simp

theorem parseExtension2_keys (raw : List Nat) : ∀ p ∈ parseExtension2 raw, p.1 ≠ .upcEanExtension := by
  unfold parseExtension2
  split
  · simp
  · split
    · simp
    · intro p hp; simp at hp; subst hp; simp

section
variable {V : Type} (O : VarOps V)

theorem extDecodeRow_keys (T : Tables) (X : ExtTables) (rn : Int) (row : List Bool) (off : Nat) (x : ExtResult)
    (h : extDecodeRow O T X rn row off = .ok x) : ∀ p ∈ x.md, p.1 ≠ .upcEanExtension := by
  unfold extDecodeRow at h
  split at h
  · cases h
  · rename_i sr _
    have h2 : ∀ y, ext2DecodeRow O T rn row sr = .ok y → ∀ p ∈ y.md, p.1 ≠ .upcEanExtension := by
      intro y hy
      unfold ext2DecodeRow at hy
      split at hy
      · cases hy
      · cases hy; exact parseExtension2_keys _
    split at h
    · rename_i r h5
      cases h
      unfold ext5DecodeRow at h5
      split at h5
      · cases h5
      · split at h5
        · cases h5
        · rename_i m hm
          cases h5
          exact parseExtension5_keys _ m hm
    · split at h
      · exact h2 x h
      · cases h

theorem mget_put_other (m : Meta) (k : MetaKey) (v : MetaVal) (k' : MetaKey) (h : k' ≠ k) :
    mget (m.put k v) k' = mget m k' := by rw [mget_put]; simp [h]

/-- the metadata `finishRow` adds after the add-on: country (EAN-13 / UPC-A) and symbology identifier -/
def finalMd (X : ExtTables) (k : EanKind) (result : List Nat) (md : Meta) : Meta :=
  (if k = .ean13 ∨ k = .upca then
     (if lookupCountry X.countries result ≠ [] then md.put .possibleCountry (.str (lookupCountry X.countries result)) else md)
   else md).put .symbologyIdentifier (.str [93, 69, if k = .ean8 then 52 else 48])

theorem mget_finalMd (X : ExtTables) (k : EanKind) (result : List Nat) (md : Meta) :
    mget (finalMd X k result md) .upcEanExtension = mget md .upcEanExtension := by
  unfold finalMd
  rw [mget_put_other _ _ _ _ (by decide)]
  split
  · split
    · rw [mget_put_other _ _ _ _ (by decide)]
    · rfl
  · rfl

/-- **ALLOWED_EAN_EXTENSIONS on the observable result**: with the hint `l`, a result of `finishRow` reports an add-on
    whose length is in `l` (no add-on counting as length 0) -/
theorem finishRow_allowed (T : Tables) (X : ExtTables) (k : EanKind) (rn : Int) (row : List Bool) (h : Hints)
    (l : List Int) (hl : h.allowedExt = some l) (sg er : Nat × Nat) (result : List Nat) (res : RowResult)
    (hr : finishRow O T X k rn row h sg er result = .ok res) : ((extLen res : Nat) : Int) ∈ l := by
  unfold finishRow at hr
  simp only [] at hr
  split at hr
  · cases hr
  · split at hr
    · cases hr
    · split at hr
      · cases hr
      · cases hx : extDecodeRow O T X rn row er.2 with
        | ok x =>
          have hkeys := extDecodeRow_keys O T X rn row er.2 x hx
          simp only [hx, hl] at hr
          split at hr
          · cases hr
          · rename_i hall
            cases hr
            have hlen : extLen ⟨result, k, [⟨(sg.2 + sg.1 : Nat), rn⟩, ⟨(er.2 + er.1 : Nat), rn⟩] ++ x.points,
                finalMd X k result ((Meta.put [] .upcEanExtension (.str x.text)).putAll x.md)⟩ = x.text.length := by
              unfold extLen extText
              simp only [mget_finalMd, mget_putAll_other _ _ _ hkeys, mget_put, if_true]
            have hall' : (l.any fun len => decide ((x.text.length : Int) = len)) = true := by
              cases hb : (l.any fun len => decide ((x.text.length : Int) = len)) with
              | true => rfl
              | false => rw [hb] at hall; exact absurd rfl hall
            simp only [List.any_eq_true, decide_eq_true_eq] at hall'
            obtain ⟨len, hmem, heq⟩ := hall'
            show ((extLen ⟨result, k, _, finalMd X k result _⟩ : Nat) : Int) ∈ l
            rw [hlen, heq]; exact hmem
        | error e =>
          have hzero : ∀ pts, extLen ⟨result, k, pts, finalMd X k result []⟩ = 0 := by
            intro pts
            unfold extLen extText
            simp only [mget_finalMd, mget]
          have fin : ∀ (r : Res RowResult),
              r = (if (!(l.any fun len => decide (((0 : Nat) : Int) = len))) = true then (.error .notFound : Res RowResult)
                   else .ok ⟨result, k, [⟨(sg.2 + sg.1 : Nat), rn⟩, ⟨(er.2 + er.1 : Nat), rn⟩], finalMd X k result []⟩) →
              r = .ok res → ((extLen res : Nat) : Int) ∈ l := by
            intro r hr1 hr2
            rw [hr1] at hr2
            split at hr2
            · cases hr2
            · rename_i hall
              cases hr2
              have hall' : (l.any fun len => decide (((0 : Nat) : Int) = len)) = true := by
                cases hb : (l.any fun len => decide (((0 : Nat) : Int) = len)) with
                | true => rfl
                | false => rw [hb] at hall; exact absurd rfl hall
              simp only [List.any_eq_true, decide_eq_true_eq] at hall'
              obtain ⟨len, hmem, heq⟩ := hall'
              rw [hzero, heq]; exact hmem
          simp only [hx, hl] at hr
          cases e with
          | panic w => cases hr
          | fuel => cases hr
          | notFound => exact fin _ rfl hr
          | checksum => exact fin _ rfl hr
          | format => exact fin _ rfl hr
          | illegalArg => exact fin _ rfl hr
          | writer => exact fin _ rfl hr
end
end Gzx.Proofs.OneDRowExtTotal

namespace Gzx.Proofs.OneDRowExtTotal
open Gzx Gzx.CheckDigit Gzx.Det Gzx.OneDRowExt
open Gzx.OneD (Tables notFoundOf)

section
variable {V : Type} (O : VarOps V)

theorem decodeWithStart_allowed (T : Tables) (X : ExtTables) (k : EanKind) (rn : Int) (row : List Bool) (h : Hints)
    (l : List Int) (hl : h.allowedExt = some l) (sg : Nat × Nat) (res : RowResult)
    (hr : (decodeWithStart O T X k rn row h sg).2 = .ok res) : ((extLen res : Nat) : Int) ∈ l := by
  unfold decodeWithStart at hr
  simp only [] at hr
  cases hm : decodeMiddle O T k row sg.2 with
  | error e => rw [hm] at hr; cases hr
  | ok r =>
    obtain ⟨endStart, result⟩ := r
    rw [hm] at hr
    simp only [] at hr
    cases he : notFoundOf (decodeEnd O T k row endStart) with
    | error e => rw [he] at hr; cases hr
    | ok er =>
      rw [he] at hr
      exact finishRow_allowed O T X k rn row h l hl sg er result res hr

theorem maybeReturnResult_md {r : Res RowResult} {res' : RowResult} (h : maybeReturnResult r = .ok res') :
    ∃ res, r = .ok res ∧ res'.md = res.md := by
  unfold maybeReturnResult at h
  cases r with
  | error e => cases h
  | ok res =>
    simp only [] at h
    split at h
    · cases h
    · split at h
      · cases h; exact ⟨res, rfl, rfl⟩
      · cases h

theorem extLen_md {a b : RowResult} (h : a.md = b.md) : extLen a = extLen b := by
  unfold extLen extText; rw [h]

theorem readerWithStart_allowed (T : Tables) (X : ExtTables) (k : EanKind) (rn : Int) (row : List Bool) (h : Hints)
    (l : List Int) (hl : h.allowedExt = some l) (sg : Nat × Nat) (res : RowResult)
    (hr : (readerWithStart O T X k rn row h sg).2 = .ok res) : ((extLen res : Nat) : Int) ∈ l := by
  unfold readerWithStart at hr
  cases k with
  | upca =>
    simp only [] at hr
    obtain ⟨r0, h0, hmd⟩ := maybeReturnResult_md hr
    rw [extLen_md hmd]
    exact decodeWithStart_allowed O T X .ean13 rn row h l hl sg r0 h0
  | ean13 => exact decodeWithStart_allowed O T X .ean13 rn row h l hl sg res hr
  | ean8 => exact decodeWithStart_allowed O T X .ean8 rn row h l hl sg res hr
  | upce => exact decodeWithStart_allowed O T X .upce rn row h l hl sg res hr

theorem multiLoopA_allowed (sub : EanKind → Trace × Res RowResult) (canUPCA : Bool) (l : List Int)
    (hsub : ∀ k res, (sub k).2 = .ok res → ((extLen res : Nat) : Int) ∈ l) :
    ∀ (ks : List EanKind) (t : Trace) (res : RowResult), (multiLoopA sub canUPCA ks t).2 = .ok res →
      ((extLen res : Nat) : Int) ∈ l
  | [], _, _, h => by simp [multiLoopA] at h
  | k :: ks, t, res, h => by
    unfold multiLoopA at h
    simp only [] at h
    cases hk : (sub k).2 with
    | error e =>
      rw [hk] at h
      simp only [] at h
      split at h
      · exact multiLoopA_allowed sub canUPCA l hsub ks _ res h
      · cases h
    | ok r0 =>
      rw [hk] at h
      have h0 := hsub k r0 hk
      simp only [] at h
      split at h
      · split at h
        · cases h
        · split at h
          · cases h; exact h0
          · cases h; exact h0
      · cases h; exact h0
end
end Gzx.Proofs.OneDRowExtTotal
