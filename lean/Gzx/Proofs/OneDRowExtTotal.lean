/-
  wp rowsrest — totality of the whole UPC/EAN `DecodeRow` model (Gzx/Model/OneDRowExt.lean) on EVERY row, for every
  interpretation of the variance arithmetic: helper lemmas for Properties/C06RowUPC.lean.  Core Lean only.
-/
import Gzx.Model.OneDRowExt
import Gzx.Proofs.TotalOneD
namespace Gzx.Proofs.OneDRowExtTotal
open Gzx Gzx.CheckDigit Gzx.Det Gzx.OneDRowExt
open Gzx.OneD (Tables getNextSet getNextUnset isRangeWhite incrAt notFoundOf lgWord lAndG isReaderErr)
open Gzx.Proofs.TotalOneD (incrAt_length)

/-- the three documented reader error kinds -/
def ReaderErr : Fault → Prop := fun e => e = .notFound ∨ e = .checksum ∨ e = .format

theorem readerErr_no_panic (w : String) : ¬ ReaderErr (.panic w) := by simp [ReaderErr]
theorem readerErr_no_fuel : ¬ ReaderErr .fuel := by simp [ReaderErr]
theorem onlyNotFound_readerErr : ∀ e, OnlyNotFound e → ReaderErr e := fun _ h => Or.inl h

theorem isReaderErr_of {e : Fault} (h : ReaderErr e) : isReaderErr e = true := by
  rcases h with h | h | h <;> subst h <;> rfl

theorem readerErr_of_is {e : Fault} (h : isReaderErr e = true) : ReaderErr e := by
  cases e <;> simp [isReaderErr] at h <;> simp [ReaderErr]

/-- `notFoundOf` turns every checked error into NotFound and keeps panics / fuel -/
theorem notFoundOf_sat {α : Type} {E : Fault → Prop} {P : α → Prop} {r : Res α}
    (h : Sat E P r) (hp : ∀ w, ¬ E (.panic w)) (hf : ¬ E .fuel) : Sat OnlyNotFound P (notFoundOf r) := by
  cases r with
  | ok a => exact h
  | error e =>
    cases e with
    | panic w => exact absurd h (hp w)
    | fuel => exact absurd h hf
    | notFound => rfl
    | checksum => rfl
    | format => rfl
    | illegalArg => rfl
    | writer => rfl

/-! ## guard search -/

section
variable {V : Type} (O : VarOps V)

theorem guardLoop_sat (pattern : List Nat) (h3 : 3 ≤ pattern.length) :
    ∀ (bs : List Bool) (x : Nat) (cs : List Nat) (pos ps : Nat) (isWhite : Bool),
      cs.length = pattern.length → pos < pattern.length →
      Sat OnlyNotFound (fun r => x ≤ r.2 ∧ (pos + 1 < pattern.length → x < r.2) ∧ r.2 < x + bs.length)
        (guardLoop O pattern bs x cs pos ps isWhite)
  | [], _, _, _, _, _, _, _ => rfl
  | b :: bs, x, cs, pos, ps, isWhite, hl, hp => by
    unfold guardLoop
    by_cases hb : (b != isWhite) = true
    · rw [if_pos hb]
      have ih := guardLoop_sat pattern h3 bs (x + 1) (incrAt cs pos) pos ps isWhite (by rw [incrAt_length]; exact hl) hp
      exact ih.mono (fun _ h => h) (fun r hr => ⟨by omega, fun _ => by omega, by simp only [List.length_cons]; omega⟩)
    · rw [if_neg hb]
      by_cases hlast : pos + 1 = pattern.length
      · rw [if_pos hlast, if_neg (by omega)]
        by_cases hlt : O.lt (O.pmv cs pattern) O.maxAvg = true
        · rw [if_pos hlt]; exact ⟨Nat.le_refl _, fun h => by omega, by simp⟩
        · rw [if_neg hlt]
          match cs, hl with
          | c0 :: c1 :: tl, hl =>
            simp only []
            rw [if_neg (by omega)]
            have ih := guardLoop_sat pattern h3 bs (x + 1) (tl ++ [1, 0]) (pos - 1) (ps + c0 + c1) (!isWhite)
              (by simp at hl ⊢; omega) (by omega)
            exact ih.mono (fun _ h => h) (fun r hr => ⟨by omega, fun _ => by omega, by simp only [List.length_cons]; omega⟩)
          | [_], hl => simp at hl; omega
          | [], hl => simp at hl; omega
      · rw [if_neg hlast]
        have ih := guardLoop_sat pattern h3 bs (x + 1) (cs.set (pos + 1) 1) (pos + 1) ps (!isWhite)
          (by rw [List.length_set]; exact hl) (by omega)
        exact ih.mono (fun _ h => h) (fun r hr => ⟨by omega, fun _ => by omega, by simp only [List.length_cons]; omega⟩)

theorem getNextSet_ge : ∀ (row : List Bool) (n : Nat), n ≤ row.length → n ≤ getNextSet row n
  | [], n, h => by simp at h; subst h; simp [getNextSet]
  | b :: bs, 0, _ => Nat.zero_le _
  | b :: bs, n + 1, h => by
    have := getNextSet_ge bs n (by simpa using h)
    simp only [getNextSet]; omega

theorem getNextUnset_ge : ∀ (row : List Bool) (n : Nat), n ≤ row.length → n ≤ getNextUnset row n
  | [], n, h => by simp at h; subst h; simp [getNextUnset]
  | b :: bs, 0, _ => Nat.zero_le _
  | b :: bs, n + 1, h => by
    have := getNextUnset_ge bs n (by simpa using h)
    simp only [getNextUnset]; omega

/-- `findGuardPattern` on any row from any offset: a range that ends strictly right of the offset, or NotFound -/
theorem findGuardPattern_sat (row : List Bool) (rowOffset : Nat) (whiteFirst : Bool) (pattern : List Nat)
    (h3 : 3 ≤ pattern.length) :
    Sat OnlyNotFound (fun r => rowOffset < r.2 ∧ r.2 < row.length) (findGuardPattern O row rowOffset whiteFirst pattern) := by
  unfold findGuardPattern
  simp only []
  generalize hoff : (if whiteFirst = true then getNextUnset row rowOffset else getNextSet row rowOffset) = off0
  by_cases hin : rowOffset < row.length
  · have hge : rowOffset ≤ min off0 row.length := by
      have : rowOffset ≤ off0 := by
        rw [← hoff]; split
        · exact getNextUnset_ge row rowOffset (by omega)
        · exact getNextSet_ge row rowOffset (by omega)
      omega
    have := guardLoop_sat O pattern h3 (row.drop (min off0 row.length)) (min off0 row.length)
      (List.replicate pattern.length 0) 0 (min off0 row.length) whiteFirst (by simp) (by omega)
    exact this.mono (fun _ h => h) (fun r hr => by
      have h1 := hr.2.1 (by omega)
      have h2 := hr.2.2
      simp only [List.length_drop] at h2
      omega)
  · -- the offset is at or beyond the end: nothing left to scan
    have hmin : row.length ≤ min off0 row.length ∨ min off0 row.length < row.length := by omega
    rcases hmin with hmin | hmin
    · rw [List.drop_of_length_le hmin]; rfl
    · have := guardLoop_sat O pattern h3 (row.drop (min off0 row.length)) (min off0 row.length)
        (List.replicate pattern.length 0) 0 (min off0 row.length) whiteFirst (by simp) (by omega)
      -- off0 < length although rowOffset ≥ length cannot happen, but the bound below does not need that
      refine this.mono (fun _ h => h) (fun r hr => ?_)
      have h1 := hr.2.1 (by omega)
      -- getNextSet/Unset of an offset beyond the row is the row length
      exfalso
      have : row.length ≤ off0 := by
        rw [← hoff]; split
        · exact Nat.le_trans (Nat.le_refl _) (getNextUnset_ge_len row rowOffset (by omega))
        · exact getNextSet_ge_len row rowOffset (by omega)
      omega
where
  getNextSet_ge_len : ∀ (row : List Bool) (n : Nat), row.length ≤ n → row.length ≤ getNextSet row n
    | [], _, _ => Nat.zero_le _
    | b :: bs, 0, h => by simp at h
    | b :: bs, n + 1, h => by
      have := getNextSet_ge_len bs n (by simpa using h)
      simp only [getNextSet, List.length_cons]; omega
  getNextUnset_ge_len : ∀ (row : List Bool) (n : Nat), row.length ≤ n → row.length ≤ getNextUnset row n
    | [], _, _ => Nat.zero_le _
    | b :: bs, 0, h => by simp at h
    | b :: bs, n + 1, h => by
      have := getNextUnset_ge_len bs n (by simpa using h)
      simp only [getNextUnset, List.length_cons]; omega

end
end Gzx.Proofs.OneDRowExtTotal
