/-
  wp rowsrest — totality of the whole UPC/EAN `DecodeRow` model, part 2: start-guard loop (fuel suffices), digits,
  decodeMiddle / decodeEnd, add-on reader, result assembly, UPC-A, multi-format loop.  Core Lean only.
-/
import Gzx.Proofs.OneDRowExtTotal
namespace Gzx.Proofs.OneDRowExtTotal
open Gzx Gzx.CheckDigit Gzx.Det Gzx.OneDRowExt
open Gzx.OneD (Tables getNextSet getNextUnset isRangeWhite incrAt notFoundOf lgWord lAndG isReaderErr)

/-- decidable well-formedness of the tables the row decoders index: guard patterns of at least three runs, digit
    patterns of at least four runs, parity tables with ten entries per row -/
def wfRow (T : Tables) (X : ExtTables) : Bool :=
  decide (3 ≤ T.startEnd.length) && decide (3 ≤ T.middle.length) && decide (3 ≤ T.upceMiddleEnd.length) &&
  decide (3 ≤ X.extStart.length) && T.lPatterns.all (fun p => decide (4 ≤ p.length)) &&
  decide (10 ≤ T.firstDigit.length) && decide (10 ≤ X.ean5Check.length) &&
  (match T.upceParity with
   | r0 :: r1 :: _ => decide (10 ≤ r0.length) && decide (10 ≤ r1.length)
   | _ => false)

structure WFRow (T : Tables) (X : ExtTables) : Prop where
  startEnd : 3 ≤ T.startEnd.length
  middle : 3 ≤ T.middle.length
  upceEnd : 3 ≤ T.upceMiddleEnd.length
  extStart : 3 ≤ X.extStart.length
  lPat : ∀ p ∈ T.lPatterns, 4 ≤ p.length
  firstDigit : 10 ≤ T.firstDigit.length
  ean5 : 10 ≤ X.ean5Check.length
  upceParity : ∃ r0 r1 rest, T.upceParity = r0 :: r1 :: rest ∧ 10 ≤ r0.length ∧ 10 ≤ r1.length

theorem wfRow_iff {T : Tables} {X : ExtTables} (h : wfRow T X = true) : WFRow T X := by
  simp only [wfRow, Bool.and_eq_true, decide_eq_true_eq, List.all_eq_true] at h
  obtain ⟨⟨⟨⟨⟨⟨⟨h1, h2⟩, h3⟩, h4⟩, h5⟩, h6⟩, h7⟩, h8⟩ := h
  refine ⟨h1, h2, h3, h4, h5, h6, h7, ?_⟩
  match hT : T.upceParity, h8 with
  | r0 :: r1 :: rest, h8 =>
    simp only [Bool.and_eq_true, decide_eq_true_eq] at h8
    exact ⟨r0, r1, rest, rfl, h8.1, h8.2⟩

section
variable {V : Type} (O : VarOps V)

/-! ## start guard: the fuel `row.length + 1` is never used up -/

theorem findStartLoop_sat (T : Tables) (h3 : 3 ≤ T.startEnd.length) (row : List Bool) :
    ∀ (fuel nextStart : Nat), nextStart ≤ row.length → row.length < fuel + nextStart →
      Sat OnlyNotFound (fun _ => True) (findStartLoop O T row fuel nextStart)
  | 0, nextStart, h1, h => by omega
  | fuel + 1, nextStart, h1, h => by
    unfold findStartLoop
    have hg := findGuardPattern_sat O row nextStart false T.startEnd h3
    cases hgr : findGuardPattern O row nextStart false T.startEnd with
    | error e => rw [hgr] at hg; exact hg
    | ok r =>
      rw [hgr] at hg
      obtain ⟨start, next⟩ := r
      have hg' : nextStart < next ∧ next < row.length := hg
      simp only []
      split
      · trivial
      · exact findStartLoop_sat T h3 row fuel next (by omega) (by omega)

theorem findStartGuardPattern_sat (T : Tables) (h3 : 3 ≤ T.startEnd.length) (row : List Bool) :
    Sat OnlyNotFound (fun _ => True) (findStartGuardPattern O T row) :=
  findStartLoop_sat O T h3 row (row.length + 1) 0 (Nat.zero_le _) (by omega)

/-! ## digits -/

theorem rpLoop_broke_length (n : Nat) : ∀ (bs : List Bool) (cur : Bool) (done : List Nat) (cnt : Nat),
    (RunLength.rpLoop n bs cur done cnt).2 = true → (RunLength.rpLoop n bs cur done cnt).1.length = n
  | [], _, _, _, h => by simp [RunLength.rpLoop] at h
  | b :: bs, cur, done, cnt, h => by
    unfold RunLength.rpLoop at h ⊢
    by_cases hb : b = cur
    · rw [if_pos hb] at h ⊢; exact rpLoop_broke_length n bs cur done (cnt + 1) h
    · rw [if_neg hb] at h ⊢
      by_cases hd : done.length + 1 = n
      · rw [if_pos hd]; simp; exact hd
      · rw [if_neg hd] at h ⊢; exact rpLoop_broke_length n bs b (done ++ [cnt]) 1 h

/-- `RecordPattern` with `n ≥ 1` counters: `n` counters or NotFound -/
theorem recordPattern_sat (row : List Bool) (start n : Nat) (hn : n ≠ 0) :
    Sat OnlyNotFound (fun cs => cs.length = n) (RunLength.recordPattern row start n) := by
  unfold RunLength.recordPattern
  rw [if_neg hn]
  split
  · rfl
  · rename_i b bs _
    generalize hr : RunLength.rpLoop n bs b [] 1 = r
    obtain ⟨cs, broke⟩ := r
    simp only []
    by_cases hbk : broke = true
    · rw [if_pos hbk]
      have := rpLoop_broke_length n bs b [] 1 (by rw [hr]; exact hbk)
      rw [hr] at this; exact this
    · rw [if_neg hbk]
      by_cases hl : cs.length = n
      · rw [if_pos hl]; exact hl
      · rw [if_neg hl]; rfl

theorem bestLoop_ok (counters : List Nat) : ∀ (ps : List (List Nat)) (i : Nat) (best : V) (bm : Option Nat),
    (∀ p ∈ ps, counters.length ≤ p.length) → ∃ r, bestLoop O counters ps i best bm = .ok r
  | [], _, _, bm, _ => ⟨bm, rfl⟩
  | p :: ps, i, best, bm, h => by
    unfold bestLoop
    rw [if_neg (by have := h p (by simp); omega)]
    simp only []
    split
    · exact bestLoop_ok counters ps _ _ _ (fun q hq => h q (by simp [hq]))
    · exact bestLoop_ok counters ps _ _ _ (fun q hq => h q (by simp [hq]))

theorem decodeDigit_sat (row : List Bool) (off : Nat) (patterns : List (List Nat))
    (hp : ∀ p ∈ patterns, 4 ≤ p.length) :
    Sat OnlyNotFound (fun _ => True) (decodeDigit O row off patterns) := by
  unfold decodeDigit
  have hr := recordPattern_sat row off 4 (by decide)
  cases hrr : RunLength.recordPattern row off 4 with
  | error e => rw [hrr] at hr; exact hr
  | ok counters =>
    rw [hrr] at hr
    have hlen : counters.length = 4 := hr
    obtain ⟨r, hbl⟩ := bestLoop_ok O counters patterns 0 O.maxAvg none (fun p h => by have := hp p h; omega)
    simp only [hbl]
    cases r <;> trivial

theorem digitsLoop_sat (row : List Bool) (patterns : List (List Nat)) (hp : ∀ p ∈ patterns, 4 ≤ p.length) :
    ∀ (n off : Nat) (acc : List Nat), Sat OnlyNotFound (fun _ => True) (digitsLoop O row patterns n off acc)
  | 0, _, _ => trivial
  | n + 1, off, acc => by
    unfold digitsLoop
    split
    · have hd := decodeDigit_sat O row off patterns hp
      cases hdr : decodeDigit O row off patterns with
      | error e => rw [hdr] at hd; exact hd
      | ok r => obtain ⟨m, w⟩ := r; exact digitsLoop_sat row patterns hp n _ _
    · trivial

theorem extDigitsLoop_sat (T : Tables) (row : List Bool) (hp : ∀ p ∈ lAndG T.lPatterns, 4 ≤ p.length) :
    ∀ (k off : Nat) (acc : List Nat), Sat OnlyNotFound (fun _ => True) (extDigitsLoop O T row k off acc)
  | 0, _, _ => trivial
  | k + 1, off, acc => by
    unfold extDigitsLoop
    split
    · have hd := decodeDigit_sat O row off (lAndG T.lPatterns) hp
      cases hdr : decodeDigit O row off (lAndG T.lPatterns) with
      | error e => rw [hdr] at hd; exact hd
      | ok r => obtain ⟨m, w⟩ := r; exact extDigitsLoop_sat T row hp k _ _
    · trivial

theorem lAndG_len {L : List (List Nat)} (h : ∀ p ∈ L, 4 ≤ p.length) : ∀ p ∈ lAndG L, 4 ≤ p.length := by
  intro p hp
  simp only [lAndG, List.mem_append, List.mem_map] at hp
  rcases hp with hp | ⟨q, hq, rfl⟩
  · exact h p hp
  · rw [List.length_reverse]; exact h q hq

/-! ## parity tables -/

theorem scan10_sat (T : List Nat) (lg : Nat) (h : 10 ≤ T.length) : Sat OnlyNotFound (fun _ => True) (scan10 T lg) := by
  unfold scan10
  split
  · trivial
  · rw [if_neg (by omega)]; rfl

theorem determineNumSys_sat (T : List (List Nat)) (lg : Nat)
    (h : ∃ r0 r1 rest, T = r0 :: r1 :: rest ∧ 10 ≤ r0.length ∧ 10 ≤ r1.length) :
    Sat OnlyNotFound (fun _ => True) (determineNumSysAndCheckDigit T lg) := by
  obtain ⟨r0, r1, rest, rfl, h0, h1⟩ := h
  unfold determineNumSysAndCheckDigit
  simp only []
  have s0 := scan10_sat r0 lg h0
  cases hs0 : scan10 r0 lg with
  | ok d => trivial
  | error e =>
    rw [hs0] at s0
    have : e = .notFound := s0
    subst this
    simp only []
    have s1 := scan10_sat r1 lg h1
    cases hs1 : scan10 r1 lg with
    | ok d => trivial
    | error e => rw [hs1] at s1; exact s1

/-! ## decodeMiddle, decodeEnd -/

theorem nfo {α : Type} {P : α → Prop} {r : Res α} (h : Sat OnlyNotFound P r) : Sat OnlyNotFound P (notFoundOf r) :=
  notFoundOf_sat h onlyNotFound_no_panic onlyNotFound_no_fuel

theorem decodeMiddle_sat (T : Tables) (X : ExtTables) (wf : WFRow T X) (k : EanKind) (row : List Bool) (s : Nat) :
    Sat OnlyNotFound (fun _ => True) (decodeMiddle O T k row s) := by
  have hL := wf.lPat
  have hLG := lAndG_len wf.lPat
  have e13 : Sat OnlyNotFound (fun _ => True) (ean13DecodeMiddle O T row s) := by
    unfold ean13DecodeMiddle
    refine Sat.bind (nfo (digitsLoop_sat O row _ hLG 6 s [])) (fun a _ => ?_)
    obtain ⟨ms, off⟩ := a
    refine Sat.bind (scan10_sat _ _ wf.firstDigit) (fun first _ => ?_)
    refine Sat.bind (nfo (findGuardPattern_sat O row off true T.middle wf.middle)) (fun a _ => ?_)
    obtain ⟨_, mEnd⟩ := a
    refine Sat.bind (nfo (digitsLoop_sat O row _ hL 6 mEnd [])) (fun a _ => ?_)
    obtain ⟨rs, off2⟩ := a
    trivial
  cases k with
  | ean13 => exact e13
  | upca => exact e13
  | ean8 =>
    show Sat OnlyNotFound (fun _ => True) (ean8DecodeMiddle O T row s)
    unfold ean8DecodeMiddle
    refine Sat.bind (nfo (digitsLoop_sat O row _ hL 4 s [])) (fun a _ => ?_)
    obtain ⟨ls, off⟩ := a
    refine Sat.bind (nfo (findGuardPattern_sat O row off true T.middle wf.middle)) (fun a _ => ?_)
    obtain ⟨_, mEnd⟩ := a
    refine Sat.bind (nfo (digitsLoop_sat O row _ hL 4 mEnd [])) (fun a _ => ?_)
    obtain ⟨rs, off2⟩ := a
    trivial
  | upce =>
    show Sat OnlyNotFound (fun _ => True) (upceDecodeMiddle O T row s)
    unfold upceDecodeMiddle
    refine Sat.bind (nfo (digitsLoop_sat O row _ hLG 6 s [])) (fun a _ => ?_)
    obtain ⟨ms, off⟩ := a
    refine Sat.bind (determineNumSys_sat _ _ wf.upceParity) (fun a _ => ?_)
    obtain ⟨ns, chk⟩ := a
    trivial

theorem decodeEnd_sat (T : Tables) (X : ExtTables) (wf : WFRow T X) (k : EanKind) (row : List Bool) (s : Nat) :
    Sat OnlyNotFound (fun _ => True) (decodeEnd O T k row s) := by
  unfold decodeEnd
  cases k
  · exact (findGuardPattern_sat O row s false T.startEnd wf.startEnd).mono (fun _ h => h) (fun _ _ => trivial)
  · exact (findGuardPattern_sat O row s false T.startEnd wf.startEnd).mono (fun _ h => h) (fun _ _ => trivial)
  · exact (findGuardPattern_sat O row s false T.startEnd wf.startEnd).mono (fun _ h => h) (fun _ _ => trivial)
  · exact (findGuardPattern_sat O row s true T.upceMiddleEnd wf.upceEnd).mono (fun _ h => h) (fun _ _ => trivial)

end
end Gzx.Proofs.OneDRowExtTotal
