/-
  wp rowsrest — totality of the whole UPC/EAN `DecodeRow` model, part 3: add-on reader, result assembly, UPC-A,
  the four single-format readers and the multi-format loop.  Core Lean only.
-/
import Gzx.Proofs.OneDRowExtTotal2
namespace Gzx.Proofs.OneDRowExtTotal
open Gzx Gzx.CheckDigit Gzx.Det Gzx.OneDRowExt
open Gzx.OneD (Tables getNextSet getNextUnset isRangeWhite incrAt notFoundOf lgWord lAndG isReaderErr)

/-! ## strings -/

theorem digits_of_mod10 : ∀ (ms : List Nat), digits? (ms.map (fun m => 48 + m % 10)) = some (ms.map (· % 10))
  | [] => rfl
  | m :: ms => by
    have hd : isDigitByte (48 + m % 10) = true := by
      simp only [isDigitByte, Bool.and_eq_true, decide_eq_true_eq]; omega
    simp only [List.map_cons, digits?, hd, if_true, digits_of_mod10 ms, Option.map_some]
    congr 2; omega

theorem atoi_of_mod10 (ms : List Nat) (h : ms ≠ []) : ∃ v, atoi? (ms.map (fun m => 48 + m % 10)) = some v := by
  unfold atoi?
  rw [digits_of_mod10]
  cases ms with
  | nil => exact absurd rfl h
  | cons m ms => exact ⟨_, rfl⟩

theorem parseExtension5_ok (raw : List Nat) : ∃ m, parseExtension5 raw = .ok m := by
  unfold parseExtension5
  by_cases h5 : raw.length ≠ 5
  · rw [if_pos h5]; exact ⟨_, rfl⟩
  · rw [if_neg h5]
    have : ∃ s, parseExtension5String raw = .ok s := by
      unfold parseExtension5String
      cases raw with
      | nil => simp at h5
      | cons c0 rest =>
        simp only []
        split
        · exact ⟨_, rfl⟩
        · split <;> exact ⟨_, rfl⟩
    obtain ⟨s, hs⟩ := this
    rw [hs]
    cases s <;> exact ⟨_, rfl⟩

section
variable {V : Type} (O : VarOps V)

/-! ## add-on reader -/

theorem ext2DecodeMiddle_sat (T : Tables) (X : ExtTables) (wf : WFRow T X) (row : List Bool) (s : Nat) :
    Sat ReaderErr (fun _ => True) (ext2DecodeMiddle O T row s) := by
  unfold ext2DecodeMiddle
  have h := nfo (extDigitsLoop_sat O T row (lAndG_len wf.lPat) 2 s [])
  cases hr : notFoundOf (extDigitsLoop O T row 2 s []) with
  | error e => rw [hr] at h; exact Or.inl h
  | ok r =>
    obtain ⟨ms, off⟩ := r
    simp only []
    by_cases hl : ms.length ≠ 2
    · rw [if_pos hl]; exact Or.inl rfl
    · rw [if_neg hl]
      obtain ⟨v, hv⟩ := atoi_of_mod10 ms (by intro h; subst h; simp at hl)
      simp only [hv]
      split
      · exact Or.inr (Or.inl rfl)
      · trivial

theorem ext5DecodeMiddle_sat (T : Tables) (X : ExtTables) (wf : WFRow T X) (row : List Bool) (s : Nat) :
    Sat ReaderErr (fun _ => True) (ext5DecodeMiddle O T X row s) := by
  unfold ext5DecodeMiddle
  have h := nfo (extDigitsLoop_sat O T row (lAndG_len wf.lPat) 5 s [])
  cases hr : notFoundOf (extDigitsLoop O T row 5 s []) with
  | error e => rw [hr] at h; exact Or.inl h
  | ok r =>
    obtain ⟨ms, off⟩ := r
    simp only []
    by_cases hl : ms.length ≠ 5
    · rw [if_pos hl]; exact Or.inl rfl
    · rw [if_neg hl]
      have hs := scan10_sat X.ean5Check (lgWord 5 ms) wf.ean5
      unfold determineCheckDigit5
      cases hsc : scan10 X.ean5Check (lgWord 5 ms) with
      | error e => rw [hsc] at hs; exact Or.inl hs
      | ok d =>
        simp only []
        split
        · exact Or.inr (Or.inl rfl)
        · trivial

theorem extDecodeRow_sat (T : Tables) (X : ExtTables) (wf : WFRow T X) (rn : Int) (row : List Bool) (off : Nat) :
    Sat ReaderErr (fun _ => True) (extDecodeRow O T X rn row off) := by
  unfold extDecodeRow
  have hg := findGuardPattern_sat O row off false X.extStart wf.extStart
  cases hgr : findGuardPattern O row off false X.extStart with
  | error e => rw [hgr] at hg; exact Or.inl hg
  | ok sr =>
    simp only []
    have h2 : Sat ReaderErr (fun _ => True) (ext2DecodeRow O T rn row sr) := by
      unfold ext2DecodeRow
      have := ext2DecodeMiddle_sat O T X wf row sr.2
      cases hm : ext2DecodeMiddle O T row sr.2 with
      | error e => rw [hm] at this; exact this
      | ok r => obtain ⟨e, s⟩ := r; trivial
    have h5 : Sat ReaderErr (fun _ => True) (ext5DecodeRow O T X rn row sr) := by
      unfold ext5DecodeRow
      have := ext5DecodeMiddle_sat O T X wf row sr.2
      cases hm : ext5DecodeMiddle O T X row sr.2 with
      | error e => rw [hm] at this; exact this
      | ok r =>
        obtain ⟨e, s⟩ := r
        obtain ⟨m, hm5⟩ := parseExtension5_ok s
        simp only [hm5]; trivial
    cases h5r : ext5DecodeRow O T X rn row sr with
    | ok r => trivial
    | error e =>
      rw [h5r] at h5
      simp only [isReaderErr_of h5, if_true]
      exact h2

/-! ## check digit -/

theorem checkStandardB_clean (s : List Nat) :
    (∃ b, checkStandardB s = .ok b) ∨ checkStandardB s = .error .format := by
  unfold checkStandardB
  cases s.getLast? with
  | none => exact Or.inl ⟨_, rfl⟩
  | some last =>
    simp only []
    unfold eanChecksumB
    cases digits? s.dropLast with
    | none => exact Or.inr rfl
    | some ds => exact Or.inl ⟨_, rfl⟩

theorem readerAccept_sat (k : EanKind) (s : List Nat) :
    Sat ReaderErr (fun _ => 8 ≤ s.length) (readerAccept k s) := by
  unfold readerAccept
  by_cases h8 : s.length < 8
  · rw [if_pos h8]; exact Or.inr (Or.inr rfl)
  · rw [if_neg h8]
    have hfin : ∀ r : Res Bool, ((∃ b, r = .ok b) ∨ r = .error .format) →
        Sat ReaderErr (fun _ => 8 ≤ s.length)
          (match r with
           | .ok true => (.ok () : Res Unit)
           | .ok false => .error .checksum
           | .error (.panic w) => .error (.panic w)
           | .error _ => .error .checksum) := by
      intro r hr
      rcases hr with ⟨b, rfl⟩ | rfl
      · cases b
        · exact Or.inr (Or.inl rfl)
        · show 8 ≤ s.length; omega
      · exact Or.inr (Or.inl rfl)
    cases k with
    | upce =>
      simp only []
      match s, h8 with
      | n :: a :: b :: c :: d :: e :: l :: rest, _ =>
        simp only [convertUPCEtoUPCA]
        exact hfin _ (checkStandardB_clean _)
      | [], h => simp at h
      | [_], h => simp at h
      | [_, _], h => simp at h
      | [_, _, _], h => simp at h
      | [_, _, _, _], h => simp at h
      | [_, _, _, _, _], h => simp at h
      | [_, _, _, _, _, _], h => simp at h
    | ean13 => exact hfin _ (checkStandardB_clean _)
    | ean8 => exact hfin _ (checkStandardB_clean _)
    | upca => exact hfin _ (checkStandardB_clean _)

/-! ## result assembly -/

theorem ite_tail {c : Prop} [Decidable c] {P : RowResult → Prop} {res : RowResult} (hP : P res) :
    Sat ReaderErr P (if c then (.error .notFound : Res RowResult) else .ok res) := by
  split
  · exact Or.inl rfl
  · exact hP

theorem finishRow_sat (T : Tables) (X : ExtTables) (wf : WFRow T X) (k : EanKind) (rn : Int) (row : List Bool)
    (h : Hints) (sg er : Nat × Nat) (result : List Nat) :
    Sat ReaderErr (fun res => 8 ≤ res.text.length ∧ res.format = k ∧ readerAccept k res.text = .ok ())
      (finishRow O T X k rn row h sg er result) := by
  unfold finishRow
  simp only []
  split
  · exact Or.inl rfl
  · split
    · exact Or.inl rfl
    · have ha := readerAccept_sat k result
      cases har : readerAccept k result with
      | error e => rw [har] at ha; exact ha
      | ok u =>
        rw [har] at ha
        have h8 : 8 ≤ result.length := ha
        simp only []
        have hx := extDecodeRow_sat O T X wf rn row er.2
        cases hxr : extDecodeRow O T X rn row er.2 with
        | ok x => exact ite_tail ⟨h8, rfl, har⟩
        | error e =>
          rw [hxr] at hx
          rcases hx with hx | hx | hx <;> subst hx <;> exact ite_tail ⟨h8, rfl, har⟩

theorem decodeWithStart_sat (T : Tables) (X : ExtTables) (wf : WFRow T X) (k : EanKind) (rn : Int) (row : List Bool)
    (h : Hints) (sg : Nat × Nat) :
    Sat ReaderErr (fun res => 8 ≤ res.text.length ∧ res.format = k ∧ readerAccept k res.text = .ok ())
      (decodeWithStart O T X k rn row h sg).2 := by
  unfold decodeWithStart
  simp only []
  have hm := decodeMiddle_sat O T X wf k row sg.2
  cases hmr : decodeMiddle O T k row sg.2 with
  | error e => rw [hmr] at hm; exact Or.inl hm
  | ok r =>
    obtain ⟨endStart, result⟩ := r
    simp only []
    have he := nfo (decodeEnd_sat O T X wf k row endStart)
    cases her : notFoundOf (decodeEnd O T k row endStart) with
    | error e => rw [her] at he; exact Or.inl he
    | ok endRange => exact finishRow_sat O T X wf k rn row h sg endRange result

/-- the text has passed `checkChecksum` of the reader that owns the format (UPC-A: the EAN-13 test of "0" + text) -/
def Accepted (k : EanKind) (text : List Nat) : Prop :=
  readerAccept (if k = .upca then .ean13 else k) (if k = .upca then 48 :: text else text) = .ok ()

theorem maybeReturnResult_sat {r : Res RowResult}
    (hr : Sat ReaderErr (fun res => 8 ≤ res.text.length ∧ readerAccept .ean13 res.text = .ok ()) r) :
    Sat ReaderErr (fun res => 7 ≤ res.text.length ∧ res.format = .upca ∧ Accepted .upca res.text) (maybeReturnResult r) := by
  unfold maybeReturnResult
  cases r with
  | error e => exact hr
  | ok res =>
    have h8 : 8 ≤ res.text.length := hr.1
    have hacc : readerAccept .ean13 res.text = .ok () := hr.2
    simp only []
    match hres : res.text, h8, hacc with
    | c :: rest, h8, hacc =>
      simp only []
      split
      · rename_i hc
        subst hc
        exact ⟨by simp at h8 ⊢; omega, rfl, by simpa [Accepted] using hacc⟩
      · exact Or.inr (Or.inr rfl)
    | [], h8, _ => simp at h8

def minLen : EanKind → Nat
  | .upca => 7
  | _ => 8

/-- what every sub-reader's `decodeRowWithStartRange` delivers: a result of its own format with a text of at least
    eight (UPC-A: seven) characters that has passed the reader's check-digit test, or one of the three reader exceptions -/
def SubOK (k : EanKind) (r : Res RowResult) : Prop :=
  Sat ReaderErr (fun res => minLen k ≤ res.text.length ∧ res.format = k ∧ Accepted k res.text) r

theorem readerWithStart_sat (T : Tables) (X : ExtTables) (wf : WFRow T X) (k : EanKind) (rn : Int) (row : List Bool)
    (h : Hints) (sg : Nat × Nat) : SubOK k (readerWithStart O T X k rn row h sg).2 := by
  unfold readerWithStart SubOK
  cases k with
  | upca =>
    exact maybeReturnResult_sat ((decodeWithStart_sat O T X wf .ean13 rn row h sg).mono (fun _ h => h) (fun _ h => ⟨h.1, h.2.2⟩))
  | ean13 => exact (decodeWithStart_sat O T X wf .ean13 rn row h sg).mono (fun _ h => h) (fun _ h => ⟨h.1, h.2.1, by simpa [Accepted] using h.2.2⟩)
  | ean8 => exact (decodeWithStart_sat O T X wf .ean8 rn row h sg).mono (fun _ h => h) (fun _ h => ⟨h.1, h.2.1, by simpa [Accepted] using h.2.2⟩)
  | upce => exact (decodeWithStart_sat O T X wf .upce rn row h sg).mono (fun _ h => h) (fun _ h => ⟨h.1, h.2.1, by simpa [Accepted] using h.2.2⟩)

theorem decodeRow_sat (T : Tables) (X : ExtTables) (wf : WFRow T X) (k : EanKind) (rn : Int) (row : List Bool) (h : Hints) :
    SubOK k (decodeRow O T X k rn row h).2 := by
  unfold decodeRow
  have hs := nfo (findStartGuardPattern_sat O T wf.startEnd row)
  cases hsr : notFoundOf (findStartGuardPattern O T row) with
  | error e => rw [hsr] at hs; exact Or.inl hs
  | ok sg => exact readerWithStart_sat O T X wf k rn row h sg
end

/-! ## the multi-format loop over abstract sub-readers -/

theorem minLen_ge (k : EanKind) : 7 ≤ minLen k := by cases k <;> decide

theorem multiLoopA_sat (sub : EanKind → Trace × Res RowResult) (canUPCA : Bool) (hsub : ∀ k, SubOK k (sub k).2) :
    ∀ (ks : List EanKind) (t : Trace),
      Sat ReaderErr (fun res => 7 ≤ res.text.length ∧ Accepted res.format res.text) (multiLoopA sub canUPCA ks t).2
  | [], _ => Or.inl rfl
  | k :: ks, t => by
    unfold multiLoopA
    simp only []
    have hk := hsub k
    cases hr : (sub k).2 with
    | error e =>
      rw [hr] at hk
      simp only [isReaderErr_of hk, if_true]
      exact multiLoopA_sat sub canUPCA hsub ks _
    | ok res =>
      rw [hr] at hk
      have hm : minLen k ≤ res.text.length := hk.1
      have hf : res.format = k := hk.2.1
      have hacc : Accepted res.format res.text := by rw [hf]; exact hk.2.2
      have h7 : 7 ≤ res.text.length := Nat.le_trans (minLen_ge k) hm
      simp only []
      split
      · rename_i h13
        have h8 : 8 ≤ res.text.length := by
          have : k = .ean13 := by rw [← hf]; exact h13
          subst this; exact hm
        match hres : res.text, h8, hacc with
        | c :: rest, h8, hacc =>
          simp only []
          split
          · rename_i hc
            refine ⟨by show 7 ≤ rest.length; simp at h8; omega, ?_⟩
            show Accepted .upca rest
            rw [h13] at hacc
            obtain ⟨hc48, _⟩ := hc
            subst hc48
            simpa [Accepted] using hacc
          · exact ⟨by show 7 ≤ res.text.length; omega, by rw [hres]; exact hacc⟩
        | [], h8, _ => simp at h8
      · exact ⟨h7, hacc⟩

end Gzx.Proofs.OneDRowExtTotal
