/-
  Evaluation semantics of the polynomial operations of Model/RS.lean over a field `F` with `FieldOK F`:
  every operation succeeds on in-range coefficients, stays in range, and commutes with Horner
  evaluation `evalH`.  Helper lemmas for Properties/C04.lean.  Core Lean only.
-/
import Gzx.Model.RS
import Gzx.Proofs.GF
namespace Gzx.Proofs.Poly
open Gzx Gzx.GF Gzx.RS Gzx.Ref.GF Gzx.Proofs.GF

/-- all symbols are field elements -/
def InR (size : Nat) (cs : List Nat) : Prop := ∀ c, c ∈ cs → c < size

theorem InR.nil {size : Nat} : InR size [] := fun _ h => by simp at h
theorem InR.cons {size c : Nat} {cs : List Nat} (hc : c < size) (h : InR size cs) : InR size (c :: cs) := by
  intro x hx
  rcases List.mem_cons.1 hx with rfl | hx
  · exact hc
  · exact h x hx
theorem InR.head {size c : Nat} {cs : List Nat} (h : InR size (c :: cs)) : c < size := h c (by simp)
theorem InR.tail {size c : Nat} {cs : List Nat} (h : InR size (c :: cs)) : InR size cs :=
  fun x hx => h x (List.mem_cons_of_mem _ hx)
theorem InR.append {size : Nat} {xs ys : List Nat} (hx : InR size xs) (hy : InR size ys) : InR size (xs ++ ys) := by
  intro c hc
  rcases List.mem_append.1 hc with h | h
  · exact hx c h
  · exact hy c h
theorem InR.replicate {size k v : Nat} (hv : v < size) : InR size (List.replicate k v) := by
  intro c hc
  rw [(List.mem_replicate.1 hc).2]; exact hv
theorem InR.take {size n : Nat} {xs : List Nat} (h : InR size xs) : InR size (xs.take n) :=
  fun c hc => h c (List.mem_of_mem_take hc)
theorem InR.drop {size n : Nat} {xs : List Nat} (h : InR size xs) : InR size (xs.drop n) :=
  fun c hc => h c (List.mem_of_mem_drop hc)

/-- Horner evaluation at `a` starting from the accumulator `acc` -/
def evalFrom (prim a acc : Nat) (cs : List Nat) : Nat := cs.foldl (fun r c => gmul prim a r ^^^ c) acc

/-- value of the polynomial with coefficient list `cs` (highest first) at `a` -/
def evalH (prim a : Nat) (cs : List Nat) : Nat := evalFrom prim a 0 cs

/-- `a^k` -/
def gpow (prim a : Nat) : Nat → Nat
  | 0 => 1
  | k + 1 => gmul prim (gpow prim a k) a

theorem evalFrom_nil (prim a acc : Nat) : evalFrom prim a acc [] = acc := rfl
theorem evalFrom_cons (prim a acc c : Nat) (cs : List Nat) :
    evalFrom prim a acc (c :: cs) = evalFrom prim a (gmul prim a acc ^^^ c) cs := rfl
theorem evalFrom_append (prim a acc : Nat) (xs ys : List Nat) :
    evalFrom prim a acc (xs ++ ys) = evalFrom prim a (evalFrom prim a acc xs) ys := by
  unfold evalFrom; rw [List.foldl_append]

theorem mapM_ok {α β : Type} (f : α → Res β) (g : α → β) : ∀ (l : List α),
    (∀ x, x ∈ l → f x = .ok (g x)) → l.mapM f = .ok (l.map g)
  | [], _ => rfl
  | x :: xs, h => by
    rw [List.mapM_cons, h x (by simp), mapM_ok f g xs (fun y hy => h y (List.mem_cons_of_mem _ hy))]
    rfl

theorem zipWith_zeros_left : ∀ (ys : List Nat), List.zipWith (· ^^^ ·) (List.replicate ys.length 0) ys = ys
  | [] => rfl
  | y :: ys => by simp [List.replicate_succ, zipWith_zeros_left ys]

section field
variable {prim size : Nat} (ok : ParamsOK prim size)
include ok

theorem zero_lt_size : 0 < size := by have := ok.2.1; omega

theorem gpow_lt (a : Nat) : ∀ k, gpow prim a k < size
  | 0 => one_lt_size ok
  | _ + 1 => gmul_lt ok _ _

theorem evalFrom_lt (a : Nat) : ∀ (cs : List Nat) (acc : Nat), acc < size → InR size cs →
    evalFrom prim a acc cs < size
  | [], _, h, _ => h
  | c :: cs, acc, _, hc => by
    rw [evalFrom_cons]
    exact evalFrom_lt a cs _ (xor_lt_size ok _ _ (gmul_lt ok _ _) hc.head) hc.tail

theorem evalH_lt (a : Nat) (cs : List Nat) (h : InR size cs) : evalH prim a cs < size :=
  evalFrom_lt ok a cs 0 (zero_lt_size ok) h

/-- Horner evaluation is xor-linear -/
theorem evalFrom_xor (a : Nat) : ∀ (cs ds : List Nat) (x y : Nat), cs.length = ds.length →
    x < size → y < size → InR size cs → InR size ds →
    evalFrom prim a (x ^^^ y) (List.zipWith (· ^^^ ·) cs ds) = evalFrom prim a x cs ^^^ evalFrom prim a y ds
  | [], [], _, _, _, _, _, _, _ => rfl
  | [], _ :: _, _, _, h, _, _, _, _ => by simp at h
  | _ :: _, [], _, _, h, _, _, _, _ => by simp at h
  | c :: cs, d :: ds, x, y, hl, hx, hy, hc, hd => by
    simp only [List.zipWith_cons_cons, evalFrom_cons]
    have e : gmul prim a (x ^^^ y) ^^^ (c ^^^ d) = (gmul prim a x ^^^ c) ^^^ (gmul prim a y ^^^ d) := by
      rw [gmul_xor_right ok a x y hx hy]
      exact Gzx.Proofs.GF2.xor_xor_xor_comm _ _ _ _
    rw [e]
    exact evalFrom_xor a cs ds _ _ (by simpa using hl)
      (xor_lt_size ok _ _ (gmul_lt ok _ _) hc.head) (xor_lt_size ok _ _ (gmul_lt ok _ _) hd.head) hc.tail hd.tail

theorem evalFrom_zeros (a : Nat) (ha : a < size) : ∀ (k acc : Nat), acc < size →
    evalFrom prim a acc (List.replicate k 0) = gmul prim (gpow prim a k) acc
  | 0, acc, h => by simp [evalFrom_nil, gpow, gmul_one_left ok acc h]
  | k + 1, acc, h => by
    rw [List.replicate_succ, evalFrom_cons, Nat.xor_zero, evalFrom_zeros a ha k _ (gmul_lt ok _ _)]
    show _ = gmul prim (gmul prim (gpow prim a k) a) acc
    rw [gmul_assoc ok _ _ _ (gpow_lt ok a k) ha h]

/-- an accumulator contributes `a^n · acc` -/
theorem evalFrom_split (a : Nat) (ha : a < size) (ys : List Nat) (acc : Nat) (hacc : acc < size)
    (hy : InR size ys) :
    evalFrom prim a acc ys = gmul prim (gpow prim a ys.length) acc ^^^ evalH prim a ys := by
  have := evalFrom_xor ok a (List.replicate ys.length 0) ys acc 0 (by simp) hacc (zero_lt_size ok)
    (InR.replicate (zero_lt_size ok)) hy
  rw [Nat.xor_zero, zipWith_zeros_left, evalFrom_zeros ok a ha _ _ hacc] at this
  exact this

theorem evalH_append (a : Nat) (ha : a < size) (xs ys : List Nat) (hx : InR size xs) (hy : InR size ys) :
    evalH prim a (xs ++ ys) = gmul prim (gpow prim a ys.length) (evalH prim a xs) ^^^ evalH prim a ys := by
  unfold evalH
  rw [evalFrom_append, evalFrom_split ok a ha ys _ (evalFrom_lt ok a xs 0 (zero_lt_size ok) hx) hy]
  rfl

theorem evalH_zero_cons (a : Nat) (cs : List Nat) : evalH prim a (0 :: cs) = evalH prim a cs := by
  unfold evalH
  rw [evalFrom_cons, gmul_zero_right ok, Nat.xor_zero]

theorem evalH_dropWhile (a : Nat) : ∀ (cs : List Nat), evalH prim a (cs.dropWhile (· == 0)) = evalH prim a cs
  | [] => rfl
  | c :: cs => by
    rw [List.dropWhile_cons]
    by_cases h : c = 0
    · subst h
      simp only [BEq.rfl, if_true]
      rw [evalH_dropWhile a cs, evalH_zero_cons ok]
    · have : (c == 0) = false := by simpa using h
      rw [this]; rfl

theorem evalH_normalize (a : Nat) (cs : List Nat) : evalH prim a (normalize cs) = evalH prim a cs := by
  unfold normalize
  have := evalH_dropWhile ok a cs
  split
  · rename_i h
    rw [h] at this
    rw [← this]
    show evalH prim a [0] = evalH prim a []
    rw [evalH_zero_cons ok]
  · exact this

/-- scaling all coefficients scales the value -/
theorem evalFrom_scale (a s : Nat) (ha : a < size) (hs : s < size) : ∀ (cs : List Nat) (acc : Nat),
    acc < size → InR size cs →
    evalFrom prim a (gmul prim s acc) (cs.map (gmul prim s)) = gmul prim s (evalFrom prim a acc cs)
  | [], _, _, _ => rfl
  | c :: cs, acc, hacc, hc => by
    rw [List.map_cons, evalFrom_cons, evalFrom_cons]
    have e : gmul prim a (gmul prim s acc) ^^^ gmul prim s c = gmul prim s (gmul prim a acc ^^^ c) := by
      rw [gmul_xor_right ok s _ _ (gmul_lt ok _ _) hc.head]
      congr 1
      rw [← gmul_assoc ok a s acc ha hs hacc, gmul_comm ok a s ha hs, gmul_assoc ok s a acc hs ha hacc]
    rw [e]
    exact evalFrom_scale a s ha hs cs _ (xor_lt_size ok _ _ (gmul_lt ok _ _) hc.head) hc.tail

theorem evalH_scale (a s : Nat) (ha : a < size) (hs : s < size) (cs : List Nat) (hc : InR size cs) :
    evalH prim a (cs.map (gmul prim s)) = gmul prim s (evalH prim a cs) := by
  have := evalFrom_scale ok a s ha hs cs 0 (zero_lt_size ok) hc
  rw [gmul_zero_right ok] at this
  exact this

theorem InR_map_gmul (s : Nat) (cs : List Nat) : InR size (cs.map (gmul prim s)) := by
  intro c hc
  obtain ⟨x, _, rfl⟩ := List.mem_map.1 hc
  exact gmul_lt ok _ _

theorem InR_map_gmul' (s : Nat) (cs : List Nat) : InR size (cs.map (fun c => gmul prim c s)) := by
  intro c hc
  obtain ⟨x, _, rfl⟩ := List.mem_map.1 hc
  exact gmul_lt ok _ _

theorem InR_zipWith_xor : ∀ (xs ys : List Nat), InR size xs → InR size ys →
    InR size (List.zipWith (· ^^^ ·) xs ys)
  | [], _, _, _ => by simp [InR.nil]
  | _ :: _, [], _, _ => by simp [InR.nil]
  | x :: xs, y :: ys, hx, hy => by
    rw [List.zipWith_cons_cons]
    exact InR.cons (xor_lt_size ok x y hx.head hy.head) (InR_zipWith_xor xs ys hx.tail hy.tail)

end field

theorem InR_dropWhile {size : Nat} (cs : List Nat) (h : InR size cs) : InR size (cs.dropWhile (· == 0)) :=
  fun c hc => h c ((List.dropWhile_sublist _).subset hc)

theorem InR_normalize {size : Nat} (hs : 0 < size) (cs : List Nat) (h : InR size cs) : InR size (normalize cs) := by
  unfold normalize
  have := InR_dropWhile cs h
  split
  · exact InR.cons hs InR.nil
  · exact this

theorem normalize_ne_nil (cs : List Nat) : normalize cs ≠ [] := by
  unfold normalize
  split
  · simp
  · assumption

theorem normalize_length_le (cs : List Nat) (h : cs ≠ []) : (normalize cs).length ≤ cs.length := by
  unfold normalize
  have h1 : (cs.dropWhile (· == 0)).length ≤ cs.length := (List.dropWhile_sublist _).length_le
  split
  · rename_i h2
    cases cs with
    | nil => exact absurd rfl h
    | cons c cs => simp
  · exact h1

/-- a list with non-zero head is already normal -/
theorem normalize_of_head_ne_zero (c : Nat) (cs : List Nat) (h : c ≠ 0) : normalize (c :: cs) = c :: cs := by
  unfold normalize
  have : (c == 0) = false := by simpa using h
  rw [List.dropWhile_cons, this]
  simp

/-- the head of a normalised list is non-zero unless the list is `[0]` -/
theorem normalize_head (cs : List Nat) : normalize cs = [0] ∨ ∃ c r, normalize cs = c :: r ∧ c ≠ 0 := by
  unfold normalize
  split
  · exact Or.inl rfl
  · rename_i h
    right
    cases hd : cs.dropWhile (· == 0) with
    | nil => exact absurd hd h
    | cons c r =>
      refine ⟨c, r, rfl, ?_⟩
      have := List.head_dropWhile_not (· == 0) (l := cs) (by rw [hd]; simp)
      simp only [hd, List.head_cons] at this
      simpa using this

theorem mkPoly_ok (cs : List Nat) (h : cs ≠ []) : mkPoly cs = .ok (normalize cs) := by
  unfold mkPoly
  cases cs with
  | nil => exact absurd rfl h
  | cons c cs => rfl

end Gzx.Proofs.Poly
