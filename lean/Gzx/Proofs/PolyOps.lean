/-
  Specifications of the GenericGFPoly operations of Model/RS.lean under `FieldOK F`:
  success on well-formed operands, well-formedness of the result, Horner-evaluation semantics.
  Helper lemmas for Properties/C04.lean.  Core Lean only.
-/
import Gzx.Proofs.Poly
namespace Gzx.Proofs.Poly
open Gzx Gzx.GF Gzx.RS Gzx.Ref.GF Gzx.Proofs.GF

/-- normal form of `NewGenericGFPoly`: `[0]` or a list with non-zero head -/
def Norm (p : List Nat) : Prop := p = [0] ∨ ∃ c r, p = c :: r ∧ c ≠ 0

/-- well-formed polynomial over the field of size `size` -/
def WF (size : Nat) (p : List Nat) : Prop := InR size p ∧ Norm p

theorem Norm.ne_nil {p : List Nat} (h : Norm p) : p ≠ [] := by
  rcases h with rfl | ⟨c, r, rfl, _⟩ <;> simp

theorem norm_normalize (cs : List Nat) : Norm (normalize cs) := normalize_head cs

theorem wf_normalize {size : Nat} (hs : 0 < size) (cs : List Nat) (h : InR size cs) : WF size (normalize cs) :=
  ⟨InR_normalize hs cs h, norm_normalize cs⟩

theorem wf_zero {size : Nat} (hs : 0 < size) : WF size [0] := ⟨InR.cons hs InR.nil, Or.inl rfl⟩

theorem isZero_iff {p : List Nat} (h : Norm p) : isZero p = true ↔ p = [0] := by
  rcases h with rfl | ⟨c, r, rfl, hc⟩
  · simp [isZero]
  · simp [isZero, hc]

theorem isZero_false {c : Nat} {r : List Nat} (hc : c ≠ 0) : isZero (c :: r) = false := by
  simp [isZero, hc]

theorem getCoefficient_lead (c : Nat) (r : List Nat) : getCoefficient (c :: r) (degree (c :: r)) = .ok c := by
  simp [getCoefficient, degree]

theorem normalize_length_le' (cs : List Nat) : (normalize cs).length ≤ max 1 cs.length := by
  cases cs with
  | nil => simp [normalize]
  | cons c cs => have := normalize_length_le (c :: cs) (by simp); omega

theorem normalize_zero_cons (cs : List Nat) : normalize (0 :: cs) = normalize cs := by
  unfold normalize
  rw [List.dropWhile_cons]
  simp

section F
variable {F : GF} (hF : FieldOK F)
include hF

theorem size_pos : 0 < F.size := zero_lt_size hF.2

theorem evalH_zero_poly (a : Nat) : evalH F.prim a [0] = 0 := by
  rw [evalH_zero_cons hF.2]; rfl

theorem evalH_replicate_zero (a : Nat) : ∀ k, evalH F.prim a (List.replicate k 0) = 0
  | 0 => rfl
  | k + 1 => by rw [List.replicate_succ, evalH_zero_cons hF.2, evalH_replicate_zero a k]

theorem evalH_zeros_append (a : Nat) (cs : List Nat) : ∀ k, evalH F.prim a (List.replicate k 0 ++ cs) = evalH F.prim a cs
  | 0 => by simp
  | k + 1 => by
    rw [List.replicate_succ, List.cons_append, evalH_zero_cons hF.2, evalH_zeros_append a cs k]

/-! ### EvaluateAt -/

theorem evalLoop_ok (a : Nat) (ha : a < F.size) : ∀ (cs : List Nat) (r : Nat), r < F.size → InR F.size cs →
    evalLoop F a cs r = .ok (evalFrom F.prim a r cs)
  | [], _, _, _ => rfl
  | c :: cs, r, hr, hc => by
    unfold evalLoop
    rw [F_mul hF a r ha hr]
    simp only [bind, Except.bind]
    rw [evalLoop_ok a ha cs _ (xor_lt_size hF.2 _ _ (gmul_lt hF.2 _ _) hc.head) hc.tail]
    rfl

theorem evalFrom_at_zero : ∀ (cs : List Nat) (acc : Nat), acc < F.size → InR F.size cs →
    evalFrom F.prim 0 acc cs = cs.getLast?.getD acc
  | [], _, _, _ => rfl
  | c :: cs, acc, hacc, hc => by
    rw [evalFrom_cons, gmul_zero_left hF.2 acc hacc, Nat.zero_xor, evalFrom_at_zero cs c hc.head hc.tail]
    cases cs with
    | nil => rfl
    | cons d ds =>
      cases h : (d :: ds).getLast? with
      | none => simp at h
      | some v => simp [List.getLast?_cons_cons, h]

theorem evalFrom_at_one : ∀ (cs : List Nat) (acc : Nat), acc < F.size → InR F.size cs →
    evalFrom F.prim 1 acc cs = cs.foldl (· ^^^ ·) acc
  | [], _, _, _ => rfl
  | c :: cs, acc, hacc, hc => by
    rw [evalFrom_cons, gmul_one_left hF.2 acc hacc, List.foldl_cons]
    exact evalFrom_at_one cs _ (xor_lt_size hF.2 _ _ hacc hc.head) hc.tail

/-- `EvaluateAt` (with both shortcuts) is Horner evaluation -/
theorem evaluateAt_ok (p : List Nat) (hp : p ≠ []) (hr : InR F.size p) (a : Nat) (ha : a < F.size) :
    evaluateAt F p a = .ok (evalH F.prim a p) := by
  unfold evaluateAt
  by_cases h0 : a = 0
  · subst h0
    rw [if_pos rfl]
    unfold evalH
    rw [evalFrom_at_zero hF p 0 (size_pos hF) hr]
    unfold getCoefficient
    have hl : 0 < p.length := List.length_pos_iff.2 hp
    have : ¬ 0 + 1 > p.length := by omega
    rw [if_neg this]
    have e : p.length - 1 - 0 = p.length - 1 := by omega
    rw [e, ← List.getLast?_eq_getElem?]
    cases hg : p.getLast? with
    | none => rw [List.getLast?_eq_none_iff] at hg; exact absurd hg hp
    | some v => rfl
  · rw [if_neg h0]
    by_cases h1 : a = 1
    · subst h1
      rw [if_pos rfl]
      unfold evalH
      rw [evalFrom_at_one hF p 0 (size_pos hF) hr]
    · rw [if_neg h1]
      cases p with
      | nil => exact absurd rfl hp
      | cons c0 cs =>
        simp only
        rw [evalLoop_ok hF a ha cs c0 hr.head hr.tail]
        unfold evalH
        rw [evalFrom_cons, gmul_zero_right hF.2, Nat.zero_xor]

/-! ### AddOrSubtract -/

theorem evalH_take_zip (a : Nat) (_ha : a < F.size) (s l : List Nat) (hs : InR F.size s) (hl : InR F.size l)
    (hlen : s.length ≤ l.length) :
    evalH F.prim a (l.take (l.length - s.length) ++ List.zipWith (· ^^^ ·) s (l.drop (l.length - s.length)))
      = evalH F.prim a s ^^^ evalH F.prim a l := by
  unfold evalH
  rw [evalFrom_append]
  have hx := evalFrom_lt hF.2 a (l.take (l.length - s.length)) 0 (size_pos hF) hl.take
  have := evalFrom_xor hF.2 a s (l.drop (l.length - s.length)) 0 _ (by simp; omega) (size_pos hF) hx hs hl.drop
  rw [Nat.zero_xor] at this
  rw [this, ← evalFrom_append, List.take_append_drop]

theorem addOrSubtract_spec (p q : List Nat) (hp : WF F.size p) (hq : WF F.size q) :
    ∃ r, addOrSubtract p q = .ok r ∧ WF F.size r ∧ r.length ≤ max p.length q.length ∧
      ∀ a, a < F.size → evalH F.prim a r = evalH F.prim a p ^^^ evalH F.prim a q := by
  unfold addOrSubtract
  by_cases hzp : isZero p = true
  · rw [if_pos hzp]
    have := (isZero_iff hp.2).1 hzp
    subst this
    refine ⟨q, rfl, hq, by omega, ?_⟩
    intro a _
    rw [evalH_zero_poly hF, Nat.zero_xor]
  · rw [if_neg hzp]
    by_cases hzq : isZero q = true
    · rw [if_pos hzq]
      have := (isZero_iff hq.2).1 hzq
      subst this
      refine ⟨p, rfl, hp, by omega, ?_⟩
      intro a _
      rw [evalH_zero_poly hF, Nat.xor_zero]
    · rw [if_neg hzq]
      have hpl : 0 < p.length := List.length_pos_iff.2 hp.2.ne_nil
      have hql : 0 < q.length := List.length_pos_iff.2 hq.2.ne_nil
      by_cases hlen : p.length > q.length
      · simp only [hlen, if_true]
        have hne : List.take (p.length - q.length) p ++ List.zipWith (· ^^^ ·) q (List.drop (p.length - q.length) p) ≠ [] := by
          intro h
          have := congrArg List.length h
          rw [List.length_append, List.length_take, List.length_zipWith, List.length_drop, List.length_nil] at this
          omega
        refine ⟨_, mkPoly_ok _ hne, wf_normalize (size_pos hF) _
          (InR.append hp.1.take (InR_zipWith_xor hF.2 _ _ hq.1 hp.1.drop)), ?_, ?_⟩
        · have h1 := normalize_length_le _ hne
          rw [List.length_append, List.length_take, List.length_zipWith, List.length_drop] at h1
          omega
        · intro a ha
          rw [evalH_normalize hF.2, evalH_take_zip hF a ha q p hq.1 hp.1 (by omega), Nat.xor_comm]
      · simp only [hlen, if_false]
        have hne : List.take (q.length - p.length) q ++ List.zipWith (· ^^^ ·) p (List.drop (q.length - p.length) q) ≠ [] := by
          intro h
          have := congrArg List.length h
          rw [List.length_append, List.length_take, List.length_zipWith, List.length_drop, List.length_nil] at this
          omega
        refine ⟨_, mkPoly_ok _ hne, wf_normalize (size_pos hF) _
          (InR.append hq.1.take (InR_zipWith_xor hF.2 _ _ hp.1 hq.1.drop)), ?_, ?_⟩
        · have h1 := normalize_length_le _ hne
          rw [List.length_append, List.length_take, List.length_zipWith, List.length_drop] at h1
          omega
        · intro a ha
          rw [evalH_normalize hF.2, evalH_take_zip hF a ha p q hp.1 hq.1 (by omega)]

omit hF in
/-- adding two polynomials of the same length and the same leading coefficient cancels the top term -/
theorem addOrSubtract_cancel (c : Nat) (ps qs : List Nat) (hc : c ≠ 0) (hl : ps.length = qs.length) :
    addOrSubtract (c :: ps) (c :: qs) = .ok (normalize (List.zipWith (· ^^^ ·) ps qs)) := by
  unfold addOrSubtract
  rw [isZero_false hc, isZero_false hc]
  simp only [Bool.false_eq_true, if_false, List.length_cons, hl, Nat.lt_irrefl, gt_iff_lt, Nat.sub_self,
    List.take_zero, List.drop_zero, List.nil_append, List.zipWith_cons_cons, Nat.xor_self]
  rw [mkPoly_ok _ (by simp), normalize_zero_cons]

/-! ### scaling, monomials -/

theorem scale_mapM (cs : List Nat) (hc : InR F.size cs) (s : Nat) (hs : s < F.size) :
    cs.mapM (fun c => F.mul c s) = .ok (cs.map (gmul F.prim s)) := by
  rw [mapM_ok (fun c => F.mul c s) (fun c => gmul F.prim c s) cs
    (fun x hx => F_mul hF x s (hc x hx) hs)]
  congr 1
  apply List.map_congr_left
  intro x hx
  exact gmul_comm hF.2 x s (hc x hx) hs

theorem scale_mapM' (cs : List Nat) (hc : InR F.size cs) (s : Nat) (hs : s < F.size) :
    cs.mapM (fun c => F.mul s c) = .ok (cs.map (gmul F.prim s)) :=
  mapM_ok (fun c => F.mul s c) (gmul F.prim s) cs (fun x hx => F_mul hF s x hs (hc x hx))

/-- `MultiplyByMonomial(d, c)`: value `a^d · c · p(a)`; for `c·lead ≠ 0` the shape is explicit -/
theorem multiplyByMonomial_spec (p : List Nat) (hp : WF F.size p) (d c : Nat) (hc : c < F.size) :
    ∃ r, multiplyByMonomial F p d c = .ok r ∧ WF F.size r ∧
      (∀ a, a < F.size → evalH F.prim a r = gmul F.prim (gpow F.prim a d) (gmul F.prim c (evalH F.prim a p))) ∧
      (∀ h t, p = h :: t → gmul F.prim c h ≠ 0 →
        r = gmul F.prim c h :: (t.map (gmul F.prim c) ++ List.replicate d 0)) := by
  unfold multiplyByMonomial
  by_cases h0 : c = 0
  · subst h0
    rw [if_pos rfl]
    refine ⟨[0], rfl, wf_zero (size_pos hF), ?_, ?_⟩
    · intro a ha
      rw [evalH_zero_poly hF, gmul_zero_left hF.2 _ (evalH_lt hF.2 a p hp.1), gmul_zero_right hF.2]
    · intro h t hpe hne
      rw [hpe] at hp
      exact absurd (gmul_zero_left hF.2 h hp.1.head) hne
  · rw [if_neg h0, scale_mapM hF p hp.1 c hc]
    simp only [bind, Except.bind]
    have hne : List.map (gmul F.prim c) p ++ List.replicate d 0 ≠ [] := by
      have := hp.2.ne_nil
      cases p with
      | nil => exact absurd rfl this
      | cons x xs => simp
    have hin : InR F.size (List.map (gmul F.prim c) p ++ List.replicate d 0) :=
      InR.append (InR_map_gmul hF.2 c p) (InR.replicate (size_pos hF))
    refine ⟨_, mkPoly_ok _ hne, wf_normalize (size_pos hF) _ hin, ?_, ?_⟩
    · intro a ha
      rw [evalH_normalize hF.2, evalH_append hF.2 a ha _ _ (InR_map_gmul hF.2 c p) (InR.replicate (size_pos hF)),
        evalH_replicate_zero hF, Nat.xor_zero, List.length_replicate, evalH_scale hF.2 a c ha hc p hp.1]
    · intro h t hpe hne'
      subst hpe
      rw [List.map_cons, List.cons_append, normalize_of_head_ne_zero _ _ hne']

/-- `BuildMonomial(d, c)` -/
theorem buildMonomial_spec (d c : Nat) (hc : c < F.size) :
    ∃ r, buildMonomial d c = .ok r ∧ WF F.size r := by
  unfold buildMonomial
  by_cases h0 : c = 0
  · rw [if_pos h0]; exact ⟨[0], rfl, wf_zero (size_pos hF)⟩
  · rw [if_neg h0]
    exact ⟨_, mkPoly_ok _ (by simp), wf_normalize (size_pos hF) _ (InR.cons hc (InR.replicate (size_pos hF)))⟩

/-- `MultiplyBy(scalar)` -/
theorem multiplyBy_spec (p : List Nat) (hp : WF F.size p) (s : Nat) (hs : s < F.size) :
    ∃ r, multiplyBy F p s = .ok r ∧ WF F.size r ∧
      ∀ a, a < F.size → evalH F.prim a r = gmul F.prim s (evalH F.prim a p) := by
  unfold multiplyBy
  by_cases h0 : s = 0
  · subst h0
    rw [if_pos rfl]
    refine ⟨[0], rfl, wf_zero (size_pos hF), ?_⟩
    intro a _
    rw [evalH_zero_poly hF, gmul_zero_left hF.2 _ (evalH_lt hF.2 a p hp.1)]
  · rw [if_neg h0]
    by_cases h1 : s = 1
    · subst h1
      rw [if_pos rfl]
      refine ⟨p, rfl, hp, ?_⟩
      intro a _
      rw [gmul_one_left hF.2 _ (evalH_lt hF.2 a p hp.1)]
    · rw [if_neg h1, scale_mapM hF p hp.1 s hs]
      simp only [bind, Except.bind]
      have hne : List.map (gmul F.prim s) p ≠ [] := by
        have := hp.2.ne_nil
        cases p with
        | nil => exact absurd rfl this
        | cons x xs => simp
      refine ⟨_, mkPoly_ok _ hne, wf_normalize (size_pos hF) _ (InR_map_gmul hF.2 s p), ?_⟩
      intro a ha
      rw [evalH_normalize hF.2, evalH_scale hF.2 a s ha hs p hp.1]

/-! ### Multiply -/

omit hF in
theorem addInto_eq : ∀ (row acc : List Nat), row.length ≤ acc.length →
    addInto row acc = List.zipWith (· ^^^ ·) (row ++ List.replicate (acc.length - row.length) 0) acc
  | [], acc, _ => by
    simp only [addInto, List.length_nil, Nat.sub_zero, List.nil_append]
    exact (zipWith_zeros_left acc).symm
  | r :: rs, [], h => by simp at h
  | r :: rs, x :: xs, h => by
    simp only [addInto, List.length_cons, Nat.add_sub_add_right, List.cons_append, List.zipWith_cons_cons]
    rw [addInto_eq rs xs (by simpa using h)]

/-- the coefficient double loop: value is the product of the values -/
theorem mulRaw_spec (b : List Nat) (hb : InR F.size b) (hbne : b ≠ []) : ∀ (as : List Nat), InR F.size as →
    ∃ r, mulRaw F as b = .ok r ∧ InR F.size r ∧ r.length = as.length + b.length - 1 ∧
      (∀ a, a < F.size → evalH F.prim a r = gmul F.prim (evalH F.prim a as) (evalH F.prim a b)) ∧
      (∀ a0 at' b0 bt, as = a0 :: at' → b = b0 :: bt → r.head? = some (gmul F.prim a0 b0))
  | [], _ => by
    refine ⟨_, rfl, InR.replicate (size_pos hF), by simp, ?_, ?_⟩
    · intro a ha
      rw [evalH_replicate_zero hF]
      show 0 = gmul F.prim 0 _
      rw [gmul_zero_left hF.2 _ (evalH_lt hF.2 a b hb)]
    · intro a0 at' b0 bt h; simp at h
  | a0 :: as, has => by
    obtain ⟨rest, hrest, hrin, hrlen, hrev, _⟩ := mulRaw_spec b hb hbne as has.tail
    have hbl : 0 < b.length := List.length_pos_iff.2 hbne
    unfold mulRaw
    rw [scale_mapM' hF b hb a0 has.head, hrest]
    simp only [bind, Except.bind]
    have hle : (List.map (gmul F.prim a0) b).length ≤ (0 :: rest).length := by
      simp [hrlen]; omega
    refine ⟨_, rfl, ?_, ?_, ?_, ?_⟩
    · rw [addInto_eq _ _ hle]
      exact InR_zipWith_xor hF.2 _ _ (InR.append (InR_map_gmul hF.2 a0 b) (InR.replicate (size_pos hF)))
        (InR.cons (size_pos hF) hrin)
    · rw [addInto_eq _ _ hle, List.length_zipWith]
      simp [hrlen]; omega
    · intro a ha
      rw [addInto_eq _ _ hle]
      have hk : (0 :: rest).length - (List.map (gmul F.prim a0) b).length = as.length := by
        simp [hrlen]; omega
      rw [hk]
      have hx := evalFrom_xor hF.2 a (List.map (gmul F.prim a0) b ++ List.replicate as.length 0) (0 :: rest) 0 0
        (by simp [hrlen]; omega) (size_pos hF) (size_pos hF)
        (InR.append (InR_map_gmul hF.2 a0 b) (InR.replicate (size_pos hF))) (InR.cons (size_pos hF) hrin)
      rw [Nat.xor_zero] at hx
      show evalFrom F.prim a 0 _ = _
      rw [hx]
      show evalH F.prim a _ ^^^ evalH F.prim a (0 :: rest) = _
      rw [evalH_zero_cons hF.2, hrev a ha,
        evalH_append hF.2 a ha _ _ (InR_map_gmul hF.2 a0 b) (InR.replicate (size_pos hF)),
        evalH_replicate_zero hF, Nat.xor_zero, List.length_replicate, evalH_scale hF.2 a a0 ha has.head b hb]
      -- value of a0 :: as
      have hv : evalH F.prim a (a0 :: as) = gmul F.prim (gpow F.prim a as.length) a0 ^^^ evalH F.prim a as := by
        have := evalH_append hF.2 a ha [a0] as (InR.cons has.head InR.nil) has.tail
        rw [List.singleton_append] at this
        rw [this]
        congr 2
        show evalFrom F.prim a 0 [a0] = a0
        rw [evalFrom_cons, gmul_zero_right hF.2, Nat.zero_xor]; rfl
      have hb' := evalH_lt hF.2 a b hb
      have has' := evalH_lt hF.2 a as has.tail
      have hg := gpow_lt hF.2 a as.length
      rw [hv, gmul_xor_left hF.2 _ _ _ (gmul_lt hF.2 _ _) has' hb',
        gmul_assoc hF.2 _ _ _ hg has.head hb']
    · intro a0' at' b0 bt h1 h2
      cases h1
      subst h2
      simp [addInto, List.map_cons]

/-- `Multiply`: value is the product of the values; monic · monic has the full length and is monic -/
theorem multiply_spec (p q : List Nat) (hp : WF F.size p) (hq : WF F.size q) :
    ∃ r, multiply F p q = .ok r ∧ WF F.size r ∧
      (∀ a, a < F.size → evalH F.prim a r = gmul F.prim (evalH F.prim a p) (evalH F.prim a q)) ∧
      (∀ pt qt, p = 1 :: pt → q = 1 :: qt → r.length = p.length + q.length - 1 ∧ r.head? = some 1) := by
  unfold multiply
  by_cases hz : (isZero p || isZero q) = true
  · rw [if_pos hz]
    refine ⟨[0], rfl, wf_zero (size_pos hF), ?_, ?_⟩
    · intro a ha
      rw [evalH_zero_poly hF]
      rcases Bool.or_eq_true_iff.1 hz with h | h
      · rw [(isZero_iff hp.2).1 h, evalH_zero_poly hF, gmul_zero_left hF.2 _ (evalH_lt hF.2 a q hq.1)]
      · rw [(isZero_iff hq.2).1 h, evalH_zero_poly hF, gmul_zero_right hF.2]
    · intro pt qt h1 h2
      subst h1; subst h2
      simp [isZero] at hz
  · rw [if_neg hz]
    obtain ⟨r, hr, hrin, hrlen, hrev, hrhead⟩ := mulRaw_spec hF q hq.1 hq.2.ne_nil p hp.1
    rw [hr]
    simp only [bind, Except.bind]
    have hpl : 0 < p.length := List.length_pos_iff.2 hp.2.ne_nil
    have hql : 0 < q.length := List.length_pos_iff.2 hq.2.ne_nil
    have hne : r ≠ [] := by
      intro h; rw [h] at hrlen; simp at hrlen; omega
    refine ⟨_, mkPoly_ok _ hne, wf_normalize (size_pos hF) _ hrin, ?_, ?_⟩
    · intro a ha
      rw [evalH_normalize hF.2, hrev a ha]
    · intro pt qt h1 h2
      have hh := hrhead 1 pt 1 qt h1 h2
      rw [gmul_one_left hF.2 1 (one_lt_size hF.2)] at hh
      cases r with
      | nil => exact absurd rfl hne
      | cons c cs =>
        simp only [List.head?_cons, Option.some.injEq] at hh
        subst hh
        rw [normalize_of_head_ne_zero _ _ (by decide)]
        exact ⟨hrlen, rfl⟩

end F
end Gzx.Proofs.Poly
