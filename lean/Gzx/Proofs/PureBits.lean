/-
  Lemmas for the pure-barcode models (Gzx/Model/PureBits.lean): corner scans, the read-off loops, the
  module-size walks.
-/
import Gzx.Model.PureBits
import Gzx.Proofs.DetQR
namespace Gzx.Det.Pure
open Gzx Gzx.Det

/-! ## arithmetic -/

theorem tdiv_pos_spec (a b : Int) (hb : 0 < b) (h : 0 < Int.tdiv a b) : 0 < a ∧ Int.tdiv a b * b ≤ a := by
  by_cases ha : 0 ≤ a
  · rw [Int.tdiv_eq_ediv_of_nonneg ha] at h ⊢
    have := Int.ediv_mul_le a (b := b) (by omega)
    refine ⟨?_, this⟩
    by_cases h0 : a = 0
    · subst h0; simp at h
    · omega
  · exfalso
    have h1 : a = -(-a) := by omega
    rw [h1, Int.neg_tdiv] at h
    have := Int.tdiv_nonneg (a := -a) (b := b) (by omega) (by omega)
    omega

/-! ## GetTopLeftOnBit / GetBottomRightOnBit -/

theorem rowFirst_spec (p : Int → Bool) : ∀ (n : Nat) (x r : Int), rowFirst p n x = some r →
    x ≤ r ∧ r < x + n ∧ p r = true := by
  intro n
  induction n with
  | zero => intro x r h; simp [rowFirst] at h
  | succ n ih =>
    intro x r h
    unfold rowFirst at h
    by_cases hp : p x = true
    · simp only [hp, if_true, Option.some.injEq] at h
      subst h
      exact ⟨Int.le_refl _, by omega, hp⟩
    · simp only [hp] at h
      have := ih (x + 1) r h
      exact ⟨by omega, by omega, this.2.2⟩

theorem rowLast_spec (p : Int → Bool) : ∀ (n : Nat) (x r : Int), rowLast p n x = some r →
    r ≤ x ∧ x - n < r ∧ p r = true := by
  intro n
  induction n with
  | zero => intro x r h; simp [rowLast] at h
  | succ n ih =>
    intro x r h
    unfold rowLast at h
    by_cases hp : p x = true
    · simp only [hp, if_true, Option.some.injEq] at h
      subst h
      exact ⟨Int.le_refl _, by omega, hp⟩
    · simp only [hp] at h
      have := ih (x - 1) r h
      exact ⟨by omega, by omega, this.2.2⟩

/-- a cell the corner scans can return: inside the image and set -/
def BlackInside (img : Img) (p : Int × Int) : Prop := img.inside p.1 p.2 ∧ img.pix p.1 p.2 = true

theorem topLeftFrom_spec (img : Img) : ∀ (n : Nat) (y : Int) (p : Int × Int), 0 ≤ y → y + n ≤ img.h →
    topLeftFrom img n y = some p → BlackInside img p := by
  intro n
  induction n with
  | zero => intro y p _ _ h; simp [topLeftFrom] at h
  | succ n ih =>
    intro y p hy hn h
    unfold topLeftFrom at h
    cases hr : rowFirst (fun x => img.pix x y) img.w.toNat 0 with
    | some x =>
      simp only [hr, Option.some.injEq] at h
      subst h
      have := rowFirst_spec _ _ _ _ hr
      exact ⟨⟨by omega, by omega, by omega, by omega⟩, this.2.2⟩
    | none =>
      simp only [hr] at h
      exact ih (y + 1) p (by omega) (by omega) h

theorem topLeft_spec (img : Img) (p : Int × Int) (h : topLeft img = some p) : BlackInside img p := by
  unfold topLeft at h
  by_cases hh : 0 ≤ img.h
  · exact topLeftFrom_spec img _ 0 p (Int.le_refl _) (by omega) h
  · have : img.h.toNat = 0 := by omega
    rw [this] at h; simp [topLeftFrom] at h

theorem bottomRightFrom_spec (img : Img) : ∀ (n : Nat) (y : Int) (p : Int × Int), y < img.h → (n : Int) ≤ y + 1 →
    bottomRightFrom img n y = some p → BlackInside img p := by
  intro n
  induction n with
  | zero => intro y p _ _ h; simp [bottomRightFrom] at h
  | succ n ih =>
    intro y p hy hn h
    unfold bottomRightFrom at h
    cases hr : rowLast (fun x => img.pix x y) img.w.toNat (img.w - 1) with
    | some x =>
      simp only [hr, Option.some.injEq] at h
      subst h
      have := rowLast_spec _ _ _ _ hr
      exact ⟨⟨by omega, by omega, by omega, by omega⟩, this.2.2⟩
    | none =>
      simp only [hr] at h
      exact ih (y - 1) p (by omega) (by omega) h

theorem bottomRight_spec (img : Img) (p : Int × Int) (h : bottomRight img = some p) : BlackInside img p := by
  unfold bottomRight at h
  by_cases hh : 0 ≤ img.h
  · exact bottomRightFrom_spec img _ (img.h - 1) p (by omega) (by omega) h
  · have : img.h.toNat = 0 := by omega
    rw [this] at h; simp [bottomRightFrom] at h

/-! ## the read-off loops -/

/-- what `extractPureBits` hands to the decoder: a matrix with positive dimensions whose `rows` are
    exactly `h` rows of `w` cells -/
def Bits.WF (b : Bits) : Prop :=
  1 ≤ b.w ∧ 1 ≤ b.h ∧ b.rows.length = b.h.toNat ∧ ∀ row ∈ b.rows, row.length = b.w.toNat

theorem setBit_sat {E : Fault → Prop} (w h x y : Int) (hx : 0 ≤ x ∧ x < w) (hy : 0 ≤ y ∧ y < h) :
    Sat E (fun _ => True) (setBit (some (w, h)) x y) := by
  unfold setBit
  have : ¬ (x < 0 ∨ x ≥ w ∨ y < 0 ∨ y ≥ h) := by omega
  simp only [this, if_false]
  exact Sat.ok trivial

theorem sampleRow_sat {rd : Reader} {E : Fault → Prop} (w h : Int) (xAt : Int → Int) (yPix y : Int)
    (hy : 0 ≤ y ∧ y < h) :
    ∀ (n : Nat) (x : Int), 0 ≤ x → x + n ≤ w →
      (∀ x', x ≤ x' → x' < x + n → Sat E (fun _ => True) (rd (xAt x') yPix)) →
      Sat E (fun row => row.length = n) (sampleRow rd (some (w, h)) xAt yPix y n x) := by
  intro n
  induction n with
  | zero => intro x _ _ _; exact Sat.ok rfl
  | succ n ih =>
    intro x hx hn hrd
    unfold sampleRow
    refine sat_bind_true (hrd x (Int.le_refl _) (by omega)) ?_
    intro b
    have hrest := ih (x + 1) (by omega) (by omega) (fun x' h1 h2 => hrd x' (by omega) (by omega))
    cases b with
    | true =>
      simp only [if_true]
      refine sat_bind_true (setBit_sat w h x y ⟨hx, by omega⟩ hy) ?_
      intro _
      refine Sat.bind hrest ?_
      intro rest hr
      exact Sat.ok (by simp [hr])
    | false =>
      simp only [Bool.false_eq_true, if_false]
      refine Sat.bind hrest ?_
      intro rest hr
      exact Sat.ok (by simp [hr])

theorem sampleRows_sat {rd : Reader} {E : Fault → Prop} (w h : Int) (xAt yAt : Int → Int) (hw : 0 ≤ w) :
    ∀ (n : Nat) (y : Int), 0 ≤ y → y + n ≤ h →
      (∀ x' y', 0 ≤ x' → x' < w → y ≤ y' → y' < y + n → Sat E (fun _ => True) (rd (xAt x') (yAt y'))) →
      Sat E (fun rows => rows.length = n ∧ ∀ row ∈ rows, row.length = w.toNat)
        (sampleRows rd (some (w, h)) w xAt yAt n y) := by
  intro n
  induction n with
  | zero => intro y _ _ _; exact Sat.ok ⟨rfl, by simp⟩
  | succ n ih =>
    intro y hy hn hrd
    unfold sampleRows
    refine Sat.bind (sampleRow_sat w h xAt (yAt y) y ⟨hy, by omega⟩ w.toNat 0 (Int.le_refl _) (by omega)
      (fun x' h1 h2 => hrd x' y h1 (by omega) (Int.le_refl _) (by omega))) ?_
    intro row hrow
    refine Sat.bind (ih (y + 1) (by omega) (by omega) (fun x' y' h1 h2 h3 h4 => hrd x' y' h1 h2 (by omega) (by omega))) ?_
    intro rest ⟨hl, hr⟩
    refine Sat.ok ⟨by simp [hl], ?_⟩
    intro r hr'
    simp only [List.mem_cons] at hr'
    rcases hr' with rfl | hr'
    · exact hrow
    · exact hr r hr'

/-- the read-off of a `mw x mh` matrix (both ≥ 1) whose sampled cells the reader answers: a well-formed
    matrix; `NewBitMatrix` does not fail, every `Set` is inside -/
theorem readOff_sat {rd : Reader} {E : Fault → Prop} (mw mh : Int) (xAt yAt : Int → Int) (hw : 1 ≤ mw) (hh : 1 ≤ mh)
    (hrd : ∀ x y, 0 ≤ x → x < mw → 0 ≤ y → y < mh → Sat E (fun _ => True) (rd (xAt x) (yAt y))) :
    Sat E (fun b => b.WF ∧ b.w = mw ∧ b.h = mh) (readOff rd mw mh xAt yAt) := by
  unfold readOff
  have hnew : newBitMatrix mw mh = some (mw, mh) := by
    unfold newBitMatrix
    have : ¬ (mw < 1 ∨ mh < 1) := by omega
    simp [this]
  simp only [hnew]
  refine Sat.bind (sampleRows_sat mw mh xAt yAt (by omega) mh.toNat 0 (Int.le_refl _) (by omega)
    (fun x' y' h1 h2 h3 h4 => hrd x' y' h1 h2 h3 (by omega))) ?_
  intro rows ⟨hl, hr⟩
  exact Sat.ok ⟨⟨hw, hh, hl, hr⟩, rfl, rfl⟩

/-! ## Data Matrix -/
namespace DM

/-- `moduleSize` from a cell inside the image, reader answering inside the image: the walk along the
    row stays inside; the result is `1 ≤ ms ≤ width - left - 1`, or NotFound -/
theorem moduleSize_sat {rd : Reader} (img : Img) (hrd : RdOK rd img.inside) (left top : Int)
    (hin : img.inside left top) :
    Sat OnlyNotFound (fun ms => 1 ≤ ms ∧ left + ms < img.w) (moduleSize rd img.w left top) := by
  obtain ⟨h1, h2, h3, h4⟩ := hin
  unfold moduleSize
  refine Sat.bind (walk_up_sat (E := OnlyNotFound) (fun x => (x, top)) true (fun _ => true) img.w left 0
    (fun p hp1 hp2 => hrd.sat ⟨by omega, hp2, h3, h4⟩)) ?_
  intro r ⟨hr1, hr2, _⟩
  have := hr2 (by omega)
  simp only []
  by_cases hx : r.1 = img.w
  · simp only [hx, if_true]; exact rfl
  · simp only [hx, if_false]
    by_cases hm : r.1 - left = 0
    · simp only [hm, if_true]; exact rfl
    · simp only [hm, if_false]
      exact Sat.ok ⟨by omega, by omega⟩

theorem extractPureBits_sat {rd : Reader} (img : Img) (hrd : RdOK rd img.inside) :
    Sat OnlyNotFound Bits.WF (extractPureBits rd img) := by
  unfold extractPureBits
  cases hlt : topLeft img with
  | none => exact rfl
  | some lt =>
    cases hrb : bottomRight img with
    | none => exact rfl
    | some rb =>
      simp only []
      obtain ⟨⟨l1, l2, l3, l4⟩, _⟩ := topLeft_spec img lt hlt
      obtain ⟨⟨r1, r2, r3, r4⟩, _⟩ := bottomRight_spec img rb hrb
      refine Sat.bind (moduleSize_sat img hrd lt.1 lt.2 ⟨l1, l2, l3, l4⟩) ?_
      intro ms ⟨hms1, hms2⟩
      have hne : ms ≠ 0 := by omega
      have hdims : dims lt rb ms = .ok (lt.2, rb.2, lt.1, rb.1, Int.tdiv (rb.1 - lt.1 + 1) ms, Int.tdiv (rb.2 - lt.2 + 1) ms) := by
        simp [dims, goDiv, hne, bind, Except.bind, pure, Except.pure]
      rw [hdims]
      show Sat OnlyNotFound Bits.WF
        (if Int.tdiv (rb.1 - lt.1 + 1) ms ≤ 0 ∨ Int.tdiv (rb.2 - lt.2 + 1) ms ≤ 0 then .error .notFound
         else _)
      by_cases hd : Int.tdiv (rb.1 - lt.1 + 1) ms ≤ 0 ∨ Int.tdiv (rb.2 - lt.2 + 1) ms ≤ 0
      · simp only [hd, if_true]; exact rfl
      · simp only [hd, if_false, nudged]
        have hw := tdiv_pos_spec (rb.1 - lt.1 + 1) ms (by omega) (by omega)
        have hh := tdiv_pos_spec (rb.2 - lt.2 + 1) ms (by omega) (by omega)
        have hn0 : 0 ≤ Int.tdiv ms 2 := Int.tdiv_nonneg (by omega) (by decide)
        have hn1 : Int.tdiv ms 2 + 1 ≤ ms := by
          rw [Int.tdiv_eq_ediv_of_nonneg (by omega)]; omega
        refine Sat.mono (readOff_sat _ _ _ _ (by omega) (by omega) ?_) (fun _ h => h) (fun _ h => h.1)
        intro x y hx0 hx1 hy0 hy1
        have e1 : x * ms ≤ (Int.tdiv (rb.1 - lt.1 + 1) ms - 1) * ms :=
          Int.mul_le_mul_of_nonneg_right (by omega) (by omega)
        have e2 : y * ms ≤ (Int.tdiv (rb.2 - lt.2 + 1) ms - 1) * ms :=
          Int.mul_le_mul_of_nonneg_right (by omega) (by omega)
        have e3 : 0 ≤ x * ms := Int.mul_nonneg hx0 (by omega)
        have e4 : 0 ≤ y * ms := Int.mul_nonneg hy0 (by omega)
        rw [Int.sub_mul] at e1 e2
        exact hrd.sat ⟨by omega, by omega, by omega, by omega⟩

end DM

/-! ## QR -/
namespace QR

theorem msLoop_sat {rd : Reader} {E : Fault → Prop} (width height left top : Int)
    (hrd : ∀ k, 0 ≤ k → left + k < width → top + k < height → Sat E (fun _ => True) (rd (left + k) (top + k))) :
    ∀ (n : Nat) (k : Int) (inBlack : Bool) (tr : Int), 0 ≤ k → (width - left - k).toNat < n →
      Sat E (fun r => k ≤ r ∧ (left + k ≤ width → left + r ≤ width) ∧ (top + k ≤ height → top + r ≤ height))
        (msLoop rd width height left top n k inBlack tr) := by
  intro n
  induction n with
  | zero => intro k _ _ _ h; exact absurd h (Nat.not_lt_zero _)
  | succ n ih =>
    intro k inBlack tr hk hn
    unfold msLoop
    by_cases hc : left + k < width ∧ top + k < height
    · simp only [hc, and_self, if_true]
      refine sat_bind_true (hrd k hk hc.1 hc.2) ?_
      intro b
      have step : ∀ ib t, Sat E (fun r => k ≤ r ∧ (left + k ≤ width → left + r ≤ width) ∧ (top + k ≤ height → top + r ≤ height))
          (msLoop rd width height left top n (k + 1) ib t) := by
        intro ib t
        refine Sat.mono (ih (k + 1) ib t (by omega) (by omega)) (fun _ h => h) ?_
        intro r ⟨h1, h2, h3⟩
        exact ⟨by omega, fun _ => h2 (by omega), fun _ => h3 (by omega)⟩
      by_cases hb : (inBlack != b) = true
      · simp only [hb, if_true]
        by_cases h5 : tr + 1 = 5
        · simp only [h5, if_true]
          exact Sat.ok ⟨Int.le_refl _, fun h => h, fun h => h⟩
        · simp only [h5, if_false]
          exact step _ _
      · simp only [hb]
        exact step _ _
    · simp only [hc, if_false]
      exact Sat.ok ⟨Int.le_refl _, fun h => h, fun h => h⟩

/-- `moduleSize` from a start with `left < width ∧ top < height`: NotFound or `float64(k)/7.0` where the
    walk ended `k ≥ 0` cells down the diagonal, still inside `x < width ∧ y < height`; the walk reads
    only cells `(left + k, top + k)` with `left + k < width ∧ top + k < height` -/
theorem moduleSize_sat {F : Type} (o : FOps F) {rd : Reader} (width height left top : Int)
    (hin : left < width ∧ top < height)
    (hrd : ∀ k, 0 ≤ k → left + k < width → top + k < height → Sat OnlyNotFound (fun _ => True) (rd (left + k) (top + k))) :
    Sat OnlyNotFound (fun r => r.1 = o.div (o.ofInt r.2) (o.ofInt 7) ∧ 0 ≤ r.2 ∧ left + r.2 < width ∧ top + r.2 < height)
      (moduleSize o rd width height left top) := by
  unfold moduleSize
  refine Sat.bind (msLoop_sat width height left top hrd _ 0 true 0 (Int.le_refl _) (by omega)) ?_
  intro k ⟨hk, hk1, hk2⟩
  simp only []
  by_cases hx : left + k = width ∨ top + k = height
  · simp only [hx, if_true]; exact rfl
  · simp only [hx, if_false]
    have h1 := hk1 (by omega)
    have h2 := hk2 (by omega)
    exact Sat.ok ⟨by simp, by omega, by omega, by omega⟩

/-- `moduleSize` from ANY start (also outside the image) with a total reader: a float or NotFound -/
theorem moduleSize_total {F : Type} (o : FOps F) {rd : Reader} (hrd : Total rd) (width height left top : Int) :
    Sat OnlyNotFound (fun _ => True) (moduleSize o rd width height left top) := by
  unfold moduleSize
  refine sat_bind_true (sat_true_of (msLoop_sat width height left top (fun _ _ _ _ => hrd.sat trivial) _ 0 true 0
    (Int.le_refl _) (by omega))) ?_
  intro k
  simp only []
  split
  · exact rfl
  · exact Sat.ok trivial

theorem unNudge_sat (start tooFar nudge : Int) :
    Sat OnlyNotFound (fun r => (tooFar ≤ 0 ∧ r = start) ∨ (0 < tooFar ∧ tooFar ≤ nudge ∧ r = start - tooFar))
      (unNudge start tooFar nudge) := by
  unfold unNudge
  by_cases h1 : tooFar > 0
  · rw [if_pos h1]
    by_cases h2 : tooFar > nudge
    · rw [if_pos h2]; exact rfl
    · rw [if_neg h2]; exact Sat.ok (Or.inr ⟨h1, by omega, rfl⟩)
  · rw [if_neg h1]; exact Sat.ok (Or.inl ⟨by omega, rfl⟩)

theorem extractPureBits_total {F : Type} (o : FOps F) {rd : Reader} (hrd : Total rd) (img : Img) :
    Sat OnlyNotFound (fun b => b.WF ∧ b.w = b.h) (extractPureBits o rd img) := by
  unfold extractPureBits
  cases hlt : topLeft img with
  | none => exact rfl
  | some lt =>
    cases hrb : bottomRight img with
    | none => exact rfl
    | some rb =>
      simp only []
      refine sat_bind_true (moduleSize_total o hrd img.w img.h lt.1 lt.2) ?_
      intro msk
      obtain ⟨ms, k⟩ := msk
      simp only []
      split
      · exact rfl
      · refine sat_bind_true (Q := fun (b : Bits) => b.WF ∧ b.w = b.h) (E := OnlyNotFound) (x := (if rb.2 - lt.2 ≠ rb.1 - lt.1 then
            (if lt.1 + (rb.2 - lt.2) ≥ img.w then (.error .notFound : Res Int) else .ok (lt.1 + (rb.2 - lt.2))) else .ok rb.1)) ?_ ?_
        · split
          · split
            · exact rfl
            · exact Sat.ok trivial
          · exact Sat.ok trivial
        · intro right
          split
          · exact rfl
          · split
            · exact rfl
            · rename_i hpos heq
              refine sat_bind_true (sat_true_of (unNudge_sat _ _ _)) ?_
              intro left
              refine sat_bind_true (sat_true_of (unNudge_sat _ _ _)) ?_
              intro top
              have heq' : o.round (o.div (o.ofInt (rb.2 - lt.2 + 1)) ms) = o.round (o.div (o.ofInt (right - lt.1 + 1)) ms) := by
                simpa using heq
              refine Sat.mono (readOff_sat _ _ _ _ (by omega) (by omega) (fun _ _ _ _ _ _ => hrd.sat trivial)) (fun _ h => h) ?_
              intro b ⟨h1, h2, h3⟩
              exact ⟨h1, by rw [h2, h3, heq']⟩

/-- the float module size for an integer numerator `k`: `float64(k) / 7.0` -/
def msOf {F : Type} (o : FOps F) (k : Int) : F := o.div (o.ofInt k) (o.ofInt 7)

/-- `int(float64(a) * moduleSize)`: the pixel offset of sample `a` -/
def offs {F : Type} (o : FOps F) (k a : Int) : Int := o.toInt (o.mul (o.ofInt a) (msOf o k))

/-- What the in-bounds theorem needs of float64, for images up to `N x N`: the half-module nudge is not
    negative, and the sample offsets `int(float64(a) * moduleSize)` are non-negative and monotone in `a`
    over the index range `0 .. matrixWidth - 1` that the loops use.  IEEE binary64 with Go's conversion
    satisfies this for every `N ≤ 2^31`: all products are below `2^63`, correctly rounded multiplication
    by a positive constant and truncation are monotone.  (An interpretation in which, say, `int` of a
    large product wraps negative does not — and there the sampling loop does read outside the image.) -/
structure PureFloat {F : Type} (o : FOps F) (N : Int) : Prop where
  nudge_nonneg : ∀ k, 1 ≤ k → k ≤ N → 0 ≤ o.toInt (o.div (msOf o k) (o.ofInt 2))
  sample_mono : ∀ k n a b, 1 ≤ k → k ≤ N → 1 ≤ n → n ≤ N → 0 ≤ a → a ≤ b →
    b < o.round (o.div (o.ofInt n) (msOf o k)) → 0 ≤ offs o k a ∧ offs o k a ≤ offs o k b

theorem msLoop_first {rd : Reader} (width height left top : Int) (n : Nat) (hin : left < width ∧ top < height)
    (hstart : rd left top = .ok true) :
    msLoop rd width height left top (n + 1) 0 true 0 = msLoop rd width height left top n 1 true 0 := by
  rw [msLoop]
  simp only [Int.add_zero, hin, and_self, if_true, hstart]
  rfl

/-- `moduleSize` from a BLACK start cell inside the image: the numerator is at least 1 -/
theorem moduleSize_black {F : Type} (o : FOps F) {rd : Reader} (width height left top : Int)
    (hin : left < width ∧ top < height) (hstart : rd left top = .ok true)
    (hrd : ∀ k, 0 ≤ k → left + k < width → top + k < height → Sat OnlyNotFound (fun _ => True) (rd (left + k) (top + k))) :
    Sat OnlyNotFound (fun r => r.1 = msOf o r.2 ∧ 1 ≤ r.2 ∧ left + r.2 < width ∧ top + r.2 < height)
      (moduleSize o rd width height left top) := by
  unfold moduleSize
  have hfuel : (width - left).toNat + 1 = ((width - left).toNat - 1 + 1) + 1 := by omega
  rw [hfuel, msLoop_first width height left top _ hin hstart]
  refine Sat.bind (msLoop_sat width height left top hrd _ 1 true 0 (by omega) (by omega)) ?_
  intro k ⟨hk, hk1, hk2⟩
  simp only []
  by_cases hx : left + k = width ∨ top + k = height
  · simp only [hx, if_true]; exact rfl
  · simp only [hx, if_false]
    have h1 := hk1 (by omega)
    have h2 := hk2 (by omega)
    exact Sat.ok ⟨by simp [msOf], by omega, by omega, by omega⟩

/-- **no read of `QRCodeReader.extractPureBits` leaves the image**, for a float64 that is `PureFloat`:
    `rd` only has to answer inside the image (e.g. an unguarded `Get`) -/
theorem extractPureBits_in_bounds {F : Type} (o : FOps F) (img : Img) (N : Int) (hN : img.w ≤ N ∧ img.h ≤ N)
    (hf : PureFloat o N) {rd : Reader} (hrd : ∀ x y, img.inside x y → rd x y = .ok (img.pix x y)) :
    Sat OnlyNotFound (fun b => b.WF ∧ b.w = b.h) (extractPureBits o rd img) := by
  have hsat : ∀ x y, img.inside x y → Sat OnlyNotFound (fun _ => True) (rd x y) := by
    intro x y h; rw [hrd x y h]; exact Sat.ok trivial
  unfold extractPureBits
  cases hlt : topLeft img with
  | none => exact rfl
  | some lt =>
    cases hrb : bottomRight img with
    | none => exact rfl
    | some rb =>
      simp only []
      obtain ⟨⟨l1, l2, l3, l4⟩, lpix⟩ := topLeft_spec img lt hlt
      obtain ⟨⟨r1, r2, r3, r4⟩, _⟩ := bottomRight_spec img rb hrb
      refine Sat.bind (moduleSize_black o img.w img.h lt.1 lt.2 ⟨l2, l4⟩ (by rw [hrd _ _ ⟨l1, l2, l3, l4⟩, lpix])
        (fun k hk h1 h2 => hsat _ _ ⟨by omega, h1, by omega, h2⟩)) ?_
      intro msk ⟨hms, hk1, hk2, hk3⟩
      obtain ⟨ms, k⟩ := msk
      simp only [] at hms hk1 hk2 hk3
      subst hms
      simp only []
      split
      · exact rfl
      · rename_i hsane
        refine Sat.bind (P := fun r => lt.1 < r ∧ r < img.w) (Q := fun (b : Bits) => b.WF ∧ b.w = b.h) (E := OnlyNotFound)
          (x := (if rb.2 - lt.2 ≠ rb.1 - lt.1 then
            (if lt.1 + (rb.2 - lt.2) ≥ img.w then (.error .notFound : Res Int) else .ok (lt.1 + (rb.2 - lt.2))) else .ok rb.1)) ?_ ?_
        · split
          · split
            · exact rfl
            · exact Sat.ok ⟨by omega, by omega⟩
          · exact Sat.ok ⟨by omega, by omega⟩
        · intro right ⟨hr1, hr2⟩
          split
          · exact rfl
          · split
            · exact rfl
            · rename_i hpos heq
              have hnudge := hf.nudge_nonneg k hk1 (by omega)
              refine Sat.bind (unNudge_sat _ _ _) ?_
              intro left hleft
              refine Sat.bind (unNudge_sat _ _ _) ?_
              intro top htop
              have heq' : o.round (o.div (o.ofInt (rb.2 - lt.2 + 1)) (msOf o k)) = o.round (o.div (o.ofInt (right - lt.1 + 1)) (msOf o k)) := by
                simpa using heq
              refine Sat.mono (readOff_sat _ _ _ _ (by omega) (by omega) ?_) (fun _ h => h) ?_
              · intro x y hx0 hx1 hy0 hy1
                have mx := hf.sample_mono k (right - lt.1 + 1) x (o.round (o.div (o.ofInt (right - lt.1 + 1)) (msOf o k)) - 1)
                  hk1 (by omega) (by omega) (by omega) hx0 (by omega) (by omega)
                have my := hf.sample_mono k (rb.2 - lt.2 + 1) y (o.round (o.div (o.ofInt (rb.2 - lt.2 + 1)) (msOf o k)) - 1)
                  hk1 (by omega) (by omega) (by omega) hy0 (by omega) (by omega)
                apply hsat
                unfold offs at mx my
                refine ⟨?_, ?_, ?_, ?_⟩ <;> omega
              · intro b ⟨h1, h2, h3⟩
                exact ⟨h1, by rw [h2, h3, heq']⟩

end QR

end Gzx.Det.Pure
