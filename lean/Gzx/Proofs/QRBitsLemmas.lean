/-
  Bit-stream lemmas for the QR decoder model: `natToBits`/`natOfBits` are inverse, and `readBits`
  returns what `natToBits` wrote.
-/
import Gzx.Model.QRDecoder
namespace Gzx.QRDec

theorem natOfBits_append (xs : List Bool) (b : Bool) : natOfBits (xs ++ [b]) = 2 * natOfBits xs + b.toNat := by
  simp [natOfBits, List.foldl_append]

@[simp] theorem natToBits_length (w n : Nat) : (natToBits w n).length = w := by
  induction w generalizing n with
  | zero => rfl
  | succ w ih => simp [natToBits, ih]

/-- reading back the `w` low bits -/
theorem natOfBits_natToBits_mod (w n : Nat) : natOfBits (natToBits w n) = n % 2 ^ w := by
  induction w generalizing n with
  | zero => simp [natToBits, natOfBits, Nat.mod_one]
  | succ w ih =>
    simp only [natToBits, natOfBits_append]
    rw [ih (n / 2), Nat.pow_succ, Nat.mul_comm (2 ^ w) 2, Nat.mod_mul]
    rcases Nat.mod_two_eq_zero_or_one n with h0 | h0 <;> simp [h0] <;> omega

theorem natOfBits_natToBits (w n : Nat) (h : n < 2 ^ w) : natOfBits (natToBits w n) = n := by
  rw [natOfBits_natToBits_mod, Nat.mod_eq_of_lt h]

/-- the high `a` bits followed by the low `b` bits -/
theorem natToBits_add (a b n : Nat) : natToBits (a + b) n = natToBits a (n / 2 ^ b) ++ natToBits b n := by
  induction b generalizing n with
  | zero => simp [natToBits]
  | succ b ih =>
    have e : a + (b + 1) = (a + b) + 1 := by omega
    rw [e]
    simp only [natToBits]
    rw [ih (n / 2), Nat.div_div_eq_div_mul, Nat.pow_succ, Nat.mul_comm 2 (2 ^ b), List.append_assoc]

theorem readBits_natToBits (w n : Nat) (rest : List Bool) (h1 : 1 ≤ w) (h32 : w ≤ 32) :
    readBits w (natToBits w n ++ rest) = .ok (n % 2 ^ w, rest) := by
  unfold readBits
  have hl : ¬ (w < 1 ∨ w > 32 ∨ w > (natToBits w n ++ rest).length) := by
    simp only [List.length_append, natToBits_length]; omega
  simp only [hl, if_false]
  rw [List.take_left' (natToBits_length w n), List.drop_left' (natToBits_length w n), natOfBits_natToBits_mod]

theorem readBitsF_natToBits (w n : Nat) (rest : List Bool) (h1 : 1 ≤ w) (h32 : w ≤ 32) :
    readBitsF w (natToBits w n ++ rest) = .ok (n % 2 ^ w, rest) := by
  unfold readBitsF
  rw [readBits_natToBits w n rest h1 h32]

theorem readBitsF_natToBits_lt (w n : Nat) (rest : List Bool) (h1 : 1 ≤ w) (h32 : w ≤ 32) (hn : n < 2 ^ w) :
    readBitsF w (natToBits w n ++ rest) = .ok (n, rest) := by
  rw [readBitsF_natToBits w n rest h1 h32, Nat.mod_eq_of_lt hn]

end Gzx.QRDec
