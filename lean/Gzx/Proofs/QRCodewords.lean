/-
  Length lemmas of the reference codeword pipeline (for the C01 composition): termination fills
  the data capacity exactly, Reed-Solomon parity has the requested length, the interleaved final
  sequence has `totalCodewords` codewords.
-/
import Gzx.Ref.QR
namespace Gzx.QRRef

theorem bytesOfBits_length : ∀ (f : Nat) (bs : List Bool), bs.length = 8 * f → (bytesOfBits f bs).length = f := by
  intro f
  induction f with
  | zero => intro bs _; rfl
  | succ f ih =>
    intro bs h
    cases bs with
    | nil => simp at h
    | cons b bs =>
      unfold bytesOfBits
      rw [List.length_cons, ih _ (by rw [List.length_drop, h]; omega)]

theorem padBytes_length (n : Nat) : (padBytes n).length = n := by
  have : ∀ n, (padBytes n).length = n ∧ (padBytes (n + 1)).length = n + 1 := by
    intro n
    induction n with
    | zero => exact ⟨rfl, rfl⟩
    | succ n ih =>
      refine ⟨ih.2, ?_⟩
      show (0xEC :: 0x11 :: padBytes n).length = n + 1 + 1
      rw [List.length_cons, List.length_cons, ih.1]
  exact (this n).1

/-- termination and padding produce exactly `d` data codewords -/
theorem terminate_length (d : Nat) (bits : List Bool) (h : bits.length ≤ 8 * d) :
    (terminate d bits).length = d := by
  unfold terminate
  simp only
  generalize hb1 : bits ++ List.replicate (min 4 (8 * d - bits.length)) false = b1
  have hl1 : b1.length = bits.length + min 4 (8 * d - bits.length) := by
    rw [← hb1, List.length_append, List.length_replicate]
  generalize hb2 : b1 ++ List.replicate ((8 - b1.length % 8) % 8) false = b2
  have hl2 : b2.length = b1.length + (8 - b1.length % 8) % 8 := by
    rw [← hb2, List.length_append, List.length_replicate]
  have h8 : b2.length = 8 * (b2.length / 8) := by omega
  rw [List.length_append, bytesOfBits_length _ _ h8, padBytes_length]
  omega

def sumLens (bs : List (List Nat)) : Nat := (bs.map List.length).foldl (· + ·) 0

theorem foldl_add_eq (l : List Nat) (a : Nat) : l.foldl (· + ·) a = a + l.foldl (· + ·) 0 := by
  induction l generalizing a with
  | nil => simp
  | cons x xs ih => rw [List.foldl_cons, List.foldl_cons, ih, ih (0 + x)]; omega

theorem sumLens_cons (b : List Nat) (bs : List (List Nat)) : sumLens (b :: bs) = b.length + sumLens bs := by
  unfold sumLens
  rw [List.map_cons, List.foldl_cons, foldl_add_eq]; omega

theorem heads_tails (bs : List (List Nat)) :
    sumLens bs = (bs.filterMap List.head?).length + sumLens (bs.map List.tail) := by
  induction bs with
  | nil => rfl
  | cons b bs ih =>
    rw [List.map_cons, sumLens_cons, sumLens_cons, ih]
    cases b with
    | nil => simp [List.filterMap_cons]
    | cons x xs => simp; omega

/-- round robin emits every codeword of every block when it runs at least as long as the longest block -/
theorem roundRobin_length : ∀ (f : Nat) (bs : List (List Nat)), (∀ b ∈ bs, b.length ≤ f) →
    (roundRobin f bs).length = sumLens bs := by
  intro f
  induction f with
  | zero =>
    intro bs h
    unfold roundRobin
    induction bs with
    | nil => rfl
    | cons b bs ih =>
      rw [sumLens_cons, ← ih (fun c hc => h c (List.mem_cons_of_mem _ hc))]
      have := h b List.mem_cons_self
      simp at this
      simp [this]
  | succ f ih =>
    intro bs h
    unfold roundRobin
    rw [List.length_append, ih, ← heads_tails]
    intro t ht
    obtain ⟨b, hb, rfl⟩ := List.mem_map.mp ht
    have := h b hb
    rw [List.length_tail]; omega

theorem le_maxLen_foldl (bs : List (List Nat)) (m : Nat) :
    m ≤ bs.foldl (fun m b => max m b.length) m ∧ ∀ b ∈ bs, b.length ≤ bs.foldl (fun m b => max m b.length) m := by
  induction bs generalizing m with
  | nil => simp
  | cons c cs ih =>
    rw [List.foldl_cons]
    have := ih (max m c.length)
    refine ⟨by omega, ?_⟩
    intro b hb
    rcases List.mem_cons.mp hb with rfl | hb'
    · omega
    · exact this.2 b hb'

theorem le_maxLen (bs : List (List Nat)) : ∀ b ∈ bs, b.length ≤ maxLen bs := (le_maxLen_foldl bs 0).2

theorem polyMulLinear_length (p : List Nat) (r : Nat) : (polyMulLinear p r).length = p.length + 1 := by
  unfold polyMulLinear
  simp [List.length_zipWith]

theorem rsGenerator_length (n : Nat) : (rsGenerator n).length = n + 1 := by
  unfold rsGenerator
  have : ∀ (l : List Nat) (ga : List Nat × Nat),
      (l.foldl (fun (ga : List Nat × Nat) _ => (polyMulLinear ga.1 ga.2, gfMul 2 ga.2)) ga).1.length = ga.1.length + l.length := by
    intro l
    induction l with
    | nil => intro ga; rfl
    | cons x xs ih =>
      intro ga
      rw [List.foldl_cons, ih, polyMulLinear_length, List.length_cons]
      omega
  rw [this, List.length_range]
  simp; omega

/-- the parity of a block has exactly `n` codewords -/
theorem rsParity_length (data : List Nat) (n : Nat) : (rsParity data n).length = n := by
  unfold rsParity
  simp only
  have hg : ((rsGenerator n).drop 1).length = n := by rw [List.length_drop, rsGenerator_length]; omega
  generalize (rsGenerator n).drop 1 = g at hg
  have : ∀ (ds : List Nat) (reg : List Nat), reg.length = n →
      (ds.foldl (fun reg d => List.zipWith (· ^^^ ·) (reg.tail ++ [0]) (g.map (gfMul (d ^^^ reg.headD 0)))) reg).length = n := by
    intro ds
    induction ds with
    | nil => intro reg h; exact h
    | cons d ds ih =>
      intro reg h
      rw [List.foldl_cons]
      apply ih
      rw [List.length_zipWith, List.length_append, List.length_tail, List.length_map, hg, h]
      simp; omega
  exact this data _ (List.length_replicate)

theorem splitBlocks_lengths : ∀ (lens : List Nat) (data : List Nat), data.length = lens.foldl (· + ·) 0 →
    (splitBlocks lens data).map List.length = lens := by
  intro lens
  induction lens with
  | nil => intro _ _; rfl
  | cons l ls ih =>
    intro data h
    rw [List.foldl_cons, foldl_add_eq] at h
    unfold splitBlocks
    rw [List.map_cons, ih _ (by rw [List.length_drop]; omega), List.length_take]
    congr 1
    omega

theorem sumLens_const (bs : List (List Nat)) (k : Nat) (h : ∀ b ∈ bs, b.length = k) : sumLens bs = bs.length * k := by
  induction bs with
  | nil => simp [sumLens]
  | cons b bs ih =>
    rw [sumLens_cons, ih (fun c hc => h c (List.mem_cons_of_mem _ hc)), h b List.mem_cons_self, List.length_cons]
    rw [Nat.add_mul]; omega

theorem sumLens_eq (bs : List (List Nat)) : sumLens bs = (bs.map List.length).foldl (· + ·) 0 := rfl

/-! ### codewords are bytes -/

theorem gf_step_lt : ∀ a ∈ List.range 256, (if a * 2 ≥ 256 then (a * 2) ^^^ 0x11D else a * 2) < 256 := by decide +kernel

theorem gfMulAux_lt : ∀ (f a b acc : Nat), a < 256 → acc < 256 → gfMulAux f a b acc < 256 := by
  intro f
  induction f with
  | zero => intro a b acc _ h; exact h
  | succ f ih =>
    intro a b acc ha hacc
    unfold gfMulAux
    apply ih
    · exact gf_step_lt a (List.mem_range.mpr ha)
    · split
      · exact Nat.xor_lt_two_pow (n := 8) hacc ha
      · exact hacc

theorem gfMul_lt (a b : Nat) (ha : a < 256) : gfMul a b < 256 := gfMulAux_lt 8 a b 0 ha (by omega)

theorem zipWith_xor_lt (xs ys : List Nat) (hx : ∀ x ∈ xs, x < 256) (hy : ∀ y ∈ ys, y < 256) :
    ∀ z ∈ List.zipWith (· ^^^ ·) xs ys, z < 256 := by
  induction xs generalizing ys with
  | nil => intro z hz; simp at hz
  | cons x xs ih =>
    cases ys with
    | nil => intro z hz; simp at hz
    | cons y ys =>
      intro z hz
      rw [List.zipWith_cons_cons, List.mem_cons] at hz
      rcases hz with rfl | hz
      · exact Nat.xor_lt_two_pow (n := 8) (hx x List.mem_cons_self) (hy y List.mem_cons_self)
      · exact ih ys (fun a ha => hx a (List.mem_cons_of_mem _ ha)) (fun a ha => hy a (List.mem_cons_of_mem _ ha)) z hz

/-- parity codewords are bytes -/
theorem rsParity_lt (data : List Nat) (n : Nat) (hd : ∀ d ∈ data, d < 256) : ∀ p ∈ rsParity data n, p < 256 := by
  unfold rsParity
  simp only
  generalize (rsGenerator n).drop 1 = g
  have : ∀ (ds : List Nat) (reg : List Nat), (∀ d ∈ ds, d < 256) → (∀ r ∈ reg, r < 256) →
      ∀ p ∈ ds.foldl (fun reg d => List.zipWith (· ^^^ ·) (reg.tail ++ [0]) (g.map (gfMul (d ^^^ reg.headD 0)))) reg, p < 256 := by
    intro ds
    induction ds with
    | nil => intro reg _ h; exact h
    | cons d ds ih =>
      intro reg hds hreg
      rw [List.foldl_cons]
      apply ih _ (fun x hx => hds x (List.mem_cons_of_mem _ hx))
      have hfb : d ^^^ reg.headD 0 < 256 := by
        apply Nat.xor_lt_two_pow (n := 8) (hds d List.mem_cons_self)
        cases reg with
        | nil => simp
        | cons r rs => exact hreg r List.mem_cons_self
      apply zipWith_xor_lt
      · intro x hx
        rcases List.mem_append.mp hx with h | h
        · exact hreg x (List.mem_of_mem_tail h)
        · simp at h; omega
      · intro y hy
        obtain ⟨c, _, rfl⟩ := List.mem_map.mp hy
        exact gfMul_lt _ _ hfb
  exact this data _ hd (by intro r hr; simp at hr; omega)

theorem mem_roundRobin : ∀ (f : Nat) (bs : List (List Nat)) (x : Nat), x ∈ roundRobin f bs → ∃ b ∈ bs, x ∈ b := by
  intro f
  induction f with
  | zero => intro bs x h; simp [roundRobin] at h
  | succ f ih =>
    intro bs x h
    unfold roundRobin at h
    rcases List.mem_append.mp h with h | h
    · obtain ⟨b, hb, hx⟩ := List.mem_filterMap.mp h
      exact ⟨b, hb, List.mem_of_mem_head? hx⟩
    · obtain ⟨t, ht, hx⟩ := ih _ x h
      obtain ⟨b, hb, rfl⟩ := List.mem_map.mp ht
      exact ⟨b, hb, List.mem_of_mem_tail hx⟩

theorem mem_splitBlocks : ∀ (lens data : List Nat) (b : List Nat), b ∈ splitBlocks lens data → ∀ x ∈ b, x ∈ data := by
  intro lens
  induction lens with
  | nil => intro data b h; simp [splitBlocks] at h
  | cons l ls ih =>
    intro data b h x hx
    unfold splitBlocks at h
    rcases List.mem_cons.mp h with rfl | h
    · exact List.mem_of_mem_take hx
    · exact List.mem_of_mem_drop (ih _ b h x hx)

/-- every codeword of the final sequence is a byte -/
theorem finalCodewords_lt (v : Nat) (ec : EC) (data : List Nat) (hd : ∀ d ∈ data, d < 256) :
    ∀ c ∈ finalCodewords v ec data, c < 256 := by
  intro c hc
  unfold finalCodewords at hc
  simp only at hc
  rcases List.mem_append.mp hc with h | h
  · obtain ⟨b, hb, hx⟩ := mem_roundRobin _ _ c h
    exact hd c (mem_splitBlocks _ _ b hb c hx)
  · obtain ⟨p, hp, hx⟩ := mem_roundRobin _ _ c h
    obtain ⟨b, hb, rfl⟩ := List.mem_map.mp hp
    exact rsParity_lt b _ (fun d hdb => hd d (mem_splitBlocks _ _ b hb d hdb)) c hx

end Gzx.QRRef
