/-
  C01 composition, codeword layer: the final codeword sequence of the reference construction
  (`QRRef.finalCodewords`: split into the blocks of Table 9, RS parity per block, round robin) is the
  interleaving `QRDec.interleave` of a short/long block structure that the conforming version table
  describes — so `DataBlock_GetDataBlocks` (theorem `interleave_deinterleave`) returns the written blocks.
-/
import Gzx.Proofs.QRCompRead
import Gzx.Proofs.QRCompGF
import Gzx.Proofs.QRInterleave
namespace Gzx.QRComp
open Gzx Gzx.QRDec

/-! ### round robin = column-wise read-out -/

theorem filterMap_congr' {α β : Type} {f g : α → Option β} : ∀ (l : List α), (∀ a ∈ l, f a = g a) →
    l.filterMap f = l.filterMap g
  | [], _ => rfl
  | a :: l, h => by
    rw [List.filterMap_cons, List.filterMap_cons, h a List.mem_cons_self,
      filterMap_congr' l (fun x hx => h x (List.mem_cons_of_mem _ hx))]

theorem roundRobin_eq : ∀ (f : Nat) (bs : List (List Nat)),
    QRRef.roundRobin f bs = (List.range f).flatMap (fun i => bs.filterMap (fun b => b[i]?)) := by
  intro f
  induction f with
  | zero => intro bs; rfl
  | succ f ih =>
    intro bs
    unfold QRRef.roundRobin
    rw [ih, List.range_succ_eq_map, List.flatMap_cons, List.flatMap_map]
    congr 1
    · apply filterMap_congr'
      intro b _
      cases b <;> rfl
    · congr 1
      funext i
      rw [List.filterMap_map]
      apply filterMap_congr'
      intro b _
      cases b <;> simp

theorem maxLen_eq (bs : List (List Nat)) : QRRef.maxLen bs = QRDec.maxLen bs := by
  unfold QRRef.maxLen QRDec.maxLen
  have : ∀ (bs : List (List Nat)) (a : Nat),
      bs.foldl (fun m b => max m b.length) a = max a (bs.foldr (fun l m => max l.length m) 0) := by
    intro bs
    induction bs with
    | nil => intro a; simp
    | cons b bs ih =>
      intro a
      rw [List.foldl_cons, List.foldr_cons, ih]
      omega
  rw [this]; simp

/-- the blocks of the reference construction as (data, parity) pairs -/
def refBlocks (v : Nat) (ec : QRRef.EC) (data : List Nat) : List (List Nat × List Nat) :=
  (QRRef.splitBlocks (QRRef.blockDataLengths v ec) data).map (fun b => (b, QRRef.rsParity b (QRRef.ecPerBlock v ec)))

theorem finalCodewords_eq_interleave (v : Nat) (ec : QRRef.EC) (data : List Nat) :
    QRRef.finalCodewords v ec data = QRDec.interleave (refBlocks v ec data) := by
  unfold QRRef.finalCodewords QRDec.interleave refBlocks
  simp only [roundRobin_eq, maxLen_eq, List.map_map, List.filterMap_map, Function.comp_def, List.map_id']

/-! ### the block structure is short/long -/

def lensOK (v : Nat) (ec : QRRef.EC) : Bool :=
  match QRRef.blockGroups v ec with
  | [(s, q)] => decide (0 < s) && decide (0 < q) && decide (q + 1 + QRRef.ecPerBlock v ec ≤ 255)
  | [(s, q), (l, q')] => decide (0 < s) && decide (0 < q) && q' == q + 1 && decide (0 < l) &&
      decide (q + 1 + QRRef.ecPerBlock v ec ≤ 255)
  | _ => false

theorem lensOK_all : ∀ v ∈ List.range 40, ∀ ec ∈ QRRef.EC.all, lensOK (v + 1) ec = true := by decide +kernel

/-- the data lengths of the blocks: `s ≥ 1` blocks of `q ≥ 1` codewords, then `l` blocks of `q + 1`;
    a block with its parity fits a GF(256) code word -/
theorem lens_form (v : Nat) (h1 : 1 ≤ v) (h40 : v ≤ 40) (ec : QRRef.EC) :
    ∃ s l q, 0 < s ∧ 0 < q ∧ q + 1 + QRRef.ecPerBlock v ec ≤ 255 ∧
      QRRef.blockGroups v ec = (s, q) :: (if l = 0 then [] else [(l, q + 1)]) ∧
      QRRef.blockDataLengths v ec = List.replicate s q ++ List.replicate l (q + 1) := by
  have h := lensOK_all (v - 1) (List.mem_range.mpr (by omega)) ec (by cases ec <;> decide)
  rw [show v - 1 + 1 = v by omega] at h
  unfold lensOK at h
  unfold QRRef.blockDataLengths
  split at h
  · rename_i s q hg
    simp only [Bool.and_eq_true, decide_eq_true_eq] at h
    refine ⟨s, 0, q, h.1.1, h.1.2, h.2, ?_, ?_⟩
    · rw [hg]; rfl
    · rw [hg]; simp
  · rename_i s q l q' hg
    simp only [Bool.and_eq_true, decide_eq_true_eq, beq_iff_eq] at h
    obtain ⟨⟨⟨⟨hs, hq⟩, hq'⟩, hl0⟩, h255⟩ := h
    subst hq'
    refine ⟨s, l, q, hs, hq, h255, ?_, ?_⟩
    · rw [hg, if_neg (by omega)]
    · rw [hg]; simp
  · cases h

theorem shortLong_of_lengths (B : List (List Nat × List Nat)) (s l q e : Nat) (hs : 0 < s)
    (hlen : B.map (fun b => b.1.length) = List.replicate s q ++ List.replicate l (q + 1))
    (he : ∀ b ∈ B, b.2.length = e) : ShortLong q e (B.take s) (B.drop s) := by
  have h1 : (B.take s).map (fun b => b.1.length) = List.replicate s q := by
    rw [List.map_take, hlen, List.take_left' (by simp)]
  have h2 : (B.drop s).map (fun b => b.1.length) = List.replicate l (q + 1) := by
    rw [List.map_drop, hlen, List.drop_left' (by simp)]
  refine ⟨?_, ?_, ?_⟩
  · intro b hb
    have : b.1.length ∈ (B.take s).map (fun b => b.1.length) := List.mem_map_of_mem hb
    rw [h1] at this
    exact ⟨(List.mem_replicate.mp this).2, he b (List.mem_of_mem_take hb)⟩
  · intro b hb
    have : b.1.length ∈ (B.drop s).map (fun b => b.1.length) := List.mem_map_of_mem hb
    rw [h2] at this
    exact ⟨(List.mem_replicate.mp this).2, he b (List.mem_of_mem_drop hb)⟩
  · intro hnil
    have := congrArg List.length h1
    rw [hnil] at this
    simp at this
    omega

theorem splitBlocks_flatten : ∀ (lens data : List Nat), data.length = lens.foldl (· + ·) 0 →
    (QRRef.splitBlocks lens data).flatMap id = data := by
  intro lens
  induction lens with
  | nil =>
    intro data h
    simp at h
    subst h; rfl
  | cons l ls ih =>
    intro data h
    rw [List.foldl_cons, QRRef.foldl_add_eq] at h
    unfold QRRef.splitBlocks
    rw [List.flatMap_cons, ih _ (by rw [List.length_drop]; omega)]
    exact List.take_append_drop l data

/-- length of the interleaved stream of a short/long structure -/
theorem interleave_length {d e : Nat} {short long : List (List Nat × List Nat)} (w : ShortLong d e short long) :
    (QRDec.interleave (short ++ long)).length =
      d * (short ++ long).length + long.length + e * (short ++ long).length := by
  obtain ⟨r1, _, r3, _, r5, _⟩ := row_facts w
  rw [interleave_eq w, List.length_append, List.length_append,
    flatMap_range_length _ _ d r1, flatMap_range_length _ _ e r5, r3]

theorem mem_interleave (B : List (List Nat × List Nat)) (x : Nat) (hx : x ∈ QRDec.interleave B) :
    ∃ b ∈ B, x ∈ b.1 ∨ x ∈ b.2 := by
  unfold QRDec.interleave at hx
  rcases List.mem_append.mp hx with h | h
  · obtain ⟨i, _, hi⟩ := List.mem_flatMap.mp h
    obtain ⟨b, hb, hbx⟩ := List.mem_filterMap.mp hi
    exact ⟨b, hb, Or.inl (List.mem_of_getElem? hbx)⟩
  · obtain ⟨i, _, hi⟩ := List.mem_flatMap.mp h
    obtain ⟨b, hb, hbx⟩ := List.mem_filterMap.mp hi
    exact ⟨b, hb, Or.inr (List.mem_of_getElem? hbx)⟩

section blocks
variable (v : Nat) (h1 : 1 ≤ v) (h40 : v ≤ 40) (ec : QRRef.EC) (data : List Nat)
  (hd : data.length = QRRef.dataCodewords v ec) (hb : ∀ d ∈ data, d < 256)
include h1 h40 hd

theorem refBlocks_lens : (refBlocks v ec data).map (fun b => b.1.length) = QRRef.blockDataLengths v ec := by
  have hsum := (Gzx.Properties.C07.std_blocks_sum (v - 1) (List.mem_range.mpr (by omega)) ec
    (by cases ec <;> decide)).2.2.2.2.2
  rw [show v - 1 + 1 = v by omega] at hsum
  unfold refBlocks
  rw [List.map_map]
  exact QRRef.splitBlocks_lengths _ data (by rw [hd, hsum])

theorem refBlocks_data : (refBlocks v ec data).flatMap (·.1) = data := by
  have hsum := (Gzx.Properties.C07.std_blocks_sum (v - 1) (List.mem_range.mpr (by omega)) ec
    (by cases ec <;> decide)).2.2.2.2.2
  rw [show v - 1 + 1 = v by omega] at hsum
  unfold refBlocks
  rw [List.flatMap_map]
  exact splitBlocks_flatten _ data (by rw [hd, hsum])

/-- what `DataBlock_GetDataBlocks` needs to know about the written blocks: `s ≥ 1` blocks of `q ≥ 1` data
    codewords then `l` blocks of `q + 1`, described by the table row of the (conforming) version table -/
theorem refBlocks_structure :
    ∃ (s l q : Nat), 0 < s ∧ 0 < q ∧ q + 1 + QRRef.ecPerBlock v ec ≤ 255 ∧
      (refBlocks v ec data).map (fun b => b.1.length) = List.replicate s q ++ List.replicate l (q + 1) ∧
      (∀ b ∈ refBlocks v ec data, b.2.length = QRRef.ecPerBlock v ec) ∧
      ∃ eb, (refVersion v).ecBlocks[(toDecEC ec).index]? = some eb ∧ eb.ecPerBlock = QRRef.ecPerBlock v ec ∧
        blockShapes eb = (List.replicate s q ++ List.replicate l (q + 1)).map
          (fun n => (n, QRRef.ecPerBlock v ec + n)) ∧
        (refVersion v).totalCodewords = (QRDec.interleave (refBlocks v ec data)).length := by
  obtain ⟨s, l, q, hs, hq, h255, hgroups, hlens⟩ := lens_form v h1 h40 ec
  have hBl := refBlocks_lens v h1 h40 ec data hd
  have hpar : ∀ b ∈ refBlocks v ec data, b.2.length = QRRef.ecPerBlock v ec := by
    intro b hbm
    unfold refBlocks at hbm
    obtain ⟨blk, _, rfl⟩ := List.mem_map.mp hbm
    exact QRRef.rsParity_length _ _
  refine ⟨s, l, q, hs, hq, h255, by rw [hBl, hlens], hpar,
    ⟨QRRef.ecPerBlock v ec, QRRef.blockGroups v ec⟩, ?_, rfl, ?_, ?_⟩
  · cases ec <;> rfl
  · unfold blockShapes
    simp only
    rw [← hlens]
    unfold QRRef.blockDataLengths
    rw [List.map_flatMap]
    congr 1
    funext g
    rw [List.map_replicate]
  · rw [← finalCodewords_eq_interleave, Gzx.Properties.C07.final_codewords_length v h1 h40 ec data hd,
      refVersion_total v h1 h40]

include hb in
/-- every written block is a non-empty byte vector, its parity is `rsParity` for a parity length of Table 9 -/
theorem refBlocks_mem (b : List Nat × List Nat) (hbm : b ∈ refBlocks v ec data) :
    b.2 = QRRef.rsParity b.1 (QRRef.ecPerBlock v ec) ∧ b.1 ≠ [] ∧ (∀ x ∈ b.1, x < 256) ∧
      QRRef.ecPerBlock v ec ∈ ecLens := by
  obtain ⟨s, l, q, hs, hq, h255, hgroups, hlens⟩ := lens_form v h1 h40 ec
  have hBl := refBlocks_lens v h1 h40 ec data hd
  have hlen : b.1.length ∈ QRRef.blockDataLengths v ec := by
    rw [← hBl]; exact List.mem_map_of_mem (f := fun b => b.1.length) hbm
  have hpos : 0 < b.1.length := by
    rw [hlens] at hlen
    rcases List.mem_append.mp hlen with h | h
    · rw [(List.mem_replicate.mp h).2]; exact hq
    · rw [(List.mem_replicate.mp h).2]; omega
  have hecm : QRRef.ecPerBlock v ec ∈ ecLens := by
    have := ecPerBlock_mem (v - 1) (List.mem_range.mpr (by omega)) ec (by cases ec <;> decide)
    rwa [show v - 1 + 1 = v by omega] at this
  unfold refBlocks at hbm
  obtain ⟨blk, hblk, rfl⟩ := List.mem_map.mp hbm
  refine ⟨rfl, ?_, ?_, hecm⟩
  · intro h; simp only at h; rw [h] at hpos; simp at hpos
  · intro x hx
    exact hb x (QRRef.mem_splitBlocks _ _ blk hblk x hx)

end blocks

end Gzx.QRComp
