/-
  C01 composition, matrix layer: the cells the decoder model reads (`zigzagCells` minus the function
  pattern of `buildFunctionPattern`) are, in order, the placement order `QRRef.zigzag v` of the
  reference construction — checked per version by kernel evaluation.
-/
import Gzx.Ref.QR
import Gzx.Proofs.QRMatrixRead
namespace Gzx.QRComp
open Gzx Gzx.QRDec

/-- the data cells in the order `ReadCodewords` visits them, for a version with the given number and
    alignment centres -/
def decCells (num : Nat) (centers : List Nat) : Option (List (Nat × Nat)) :=
  match buildFunctionPattern ⟨num, centers, []⟩ with
  | .ok fp => some ((zigzagCells (17 + 4 * num)).filter (fun c => !fp.getB c.1 c.2))
  | .error _ => none

def cellsOK (v : Nat) : Bool := decCells v (QRRef.alignCentres v) == some (QRRef.zigzag v)

end Gzx.QRComp
