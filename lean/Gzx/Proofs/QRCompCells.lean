/-
  C01 composition, matrix layer: the cells the decoder model reads (`zigzagCells` minus the function
  pattern of `Version.buildFunctionPattern`) are, in order, the placement order `QRRef.zigzag v` of the
  reference construction.
  General part (all naturals, `omega`): corner / timing / version-information regions versus the
  reference's `regionOf`; `zigzagCells` versus `zigzagAll`.
  Per version 1..40 (cheap kernel evaluation, no per-cell work): the alignment regions the decoder
  derives from the centre list are those of the reference, all regions are valid `SetRegion` calls, and
  the column-pair walk visits the reference's columns.
-/
import Gzx.Ref.QR
import Gzx.Proofs.QRMatrixRead
import Gzx.Proofs.QRZigzag
namespace Gzx.QRComp
open Gzx Gzx.QRDec

/-- alignment regions by centre VALUES (outer: row centre, inner: column centre), as the reference
    excludes the three finder corners -/
def refAlignRegs (v : Nat) : List Region :=
  let cs := QRRef.alignCentres v
  let last := 4 * v + 10
  cs.flatMap (fun ct => cs.filterMap (fun cl =>
    if (ct = 6 ∧ (cl = 6 ∨ cl = last)) ∨ (ct = last ∧ cl = 6) then none else some ⟨cl - 2, ct - 2, 5, 5⟩))

/-- all `SetRegion` calls of `buildFunctionPattern` for version `v` -/
def allRegs (v : Nat) : List Region :=
  [⟨0, 0, 9, 9⟩, ⟨17 + 4 * v - 8, 0, 8, 9⟩, ⟨0, 17 + 4 * v - 8, 9, 8⟩] ++ refAlignRegs v ++
    [⟨6, 9, 1, 17 + 4 * v - 17⟩, ⟨9, 6, 17 + 4 * v - 17, 1⟩] ++
    (if v > 6 then [⟨17 + 4 * v - 11, 0, 3, 6⟩, ⟨0, 17 + 4 * v - 11, 6, 3⟩] else [])

def fpOK (v : Nat) : Bool :=
  alignmentRegions (QRRef.alignCentres v) == some (refAlignRegs v) &&
  (allRegs v).all (Region.valid (17 + 4 * v)) &&
  (QRRef.alignCentres v).all (fun c => decide (2 ≤ c)) &&
  colPairs (17 + 4 * v) (17 + 4 * v - 1) true ==
    (List.range ((17 + 4 * v - 1) / 2)).map (fun k => (QRRef.pairColumn (17 + 4 * v) k, k % 2 == 0))

theorem fpOK_all : ∀ v ∈ List.range 40, fpOK (v + 1) = true := by decide +kernel

theorem fpOK_of (v : Nat) (h1 : 1 ≤ v) (h40 : v ≤ 40) : fpOK v = true := by
  have := fpOK_all (v - 1) (List.mem_range.mpr (by omega))
  rwa [show v - 1 + 1 = v by omega] at this

/-! ### alignment patterns -/

theorem excl_iff (cx cy last : Nat) :
    (!((cx == 6 && cy == 6) || (cx == 6 && cy == last) || (cx == last && cy == 6))) = true ↔
      ¬ ((cy = 6 ∧ (cx = 6 ∨ cx = last)) ∨ (cy = last ∧ cx = 6)) := by
  simp only [Bool.not_eq_true', ← Bool.not_eq_true, Bool.or_eq_true, Bool.and_eq_true, beq_iff_eq]
  omega

theorem refAlign_any (v x y : Nat) (hc : ∀ c ∈ QRRef.alignCentres v, 2 ≤ c) :
    (refAlignRegs v).any (·.has x y) = QRRef.inAlignment v x y := by
  rw [Bool.eq_iff_iff]
  unfold refAlignRegs QRRef.inAlignment
  simp only [List.any_eq_true, List.mem_flatMap, List.mem_filterMap, Bool.and_eq_true, QRRef.near,
    decide_eq_true_eq, excl_iff]
  constructor
  · rintro ⟨r, ⟨ct, hct, cl, hcl, hr⟩, hhas⟩
    split at hr
    · cases hr
    · rename_i hex
      have hr := Option.some.inj hr
      subst hr
      simp only [Region.has, Bool.and_eq_true, decide_eq_true_eq] at hhas
      have h2 := hc cl hcl
      have h3 := hc ct hct
      exact ⟨cl, hcl, ⟨by omega, by omega⟩, ct, hct, ⟨by omega, by omega⟩, hex⟩
  · rintro ⟨cx, hcx, ⟨hx1, hx2⟩, cy, hcy, ⟨hy1, hy2⟩, hex⟩
    have h2 := hc cx hcx
    have h3 := hc cy hcy
    refine ⟨⟨cx - 2, cy - 2, 5, 5⟩, ⟨cy, hcy, cx, hcx, ?_⟩, ?_⟩
    · rw [if_neg hex]
    · simp only [Region.has, Bool.and_eq_true, decide_eq_true_eq]
      omega

/-! ### the other function patterns -/

theorem regs_any_eq_isFunction (v x y : Nat) (h1 : 1 ≤ v) (hx : x < 17 + 4 * v) (hy : y < 17 + 4 * v)
    (hc : ∀ c ∈ QRRef.alignCentres v, 2 ≤ c) :
    (allRegs v).any (·.has x y) = QRRef.isFunction v x y := by
  unfold allRegs
  simp only [List.any_append, List.any_cons, List.any_nil, Bool.or_false, refAlign_any v x y hc]
  have hv : (if v > 6 then [(⟨17 + 4 * v - 11, 0, 3, 6⟩ : Region), ⟨0, 17 + 4 * v - 11, 6, 3⟩] else []).any (·.has x y) =
      (decide (v > 6) && (Region.has ⟨17 + 4 * v - 11, 0, 3, 6⟩ x y || Region.has ⟨0, 17 + 4 * v - 11, 6, 3⟩ x y)) := by
    by_cases h : v > 6 <;> simp [h]
  rw [hv]
  unfold QRRef.isFunction QRRef.regionOf QRRef.dimension
  simp only []
  generalize QRRef.inAlignment v x y = A
  have e1 : (QRRef.Region.finder != QRRef.Region.data) = true := rfl
  have e2 : (QRRef.Region.separator != QRRef.Region.data) = true := rfl
  have e3 : (QRRef.Region.dark != QRRef.Region.data) = true := rfl
  have e4 : (QRRef.Region.format != QRRef.Region.data) = true := rfl
  have e5 : (QRRef.Region.version != QRRef.Region.data) = true := rfl
  have e6 : (QRRef.Region.alignment != QRRef.Region.data) = true := rfl
  have e7 : (QRRef.Region.timing != QRRef.Region.data) = true := rfl
  have e8 : (QRRef.Region.data != QRRef.Region.data) = false := rfl
  rw [Bool.eq_iff_iff]
  cases A <;> (repeat' split) <;>
    simp only [e1, e2, e3, e4, e5, e6, e7, e8, Region.has, Bool.or_eq_true, Bool.and_eq_true, decide_eq_true_eq,
      beq_iff_eq, bne_iff_ne, ne_eq, Bool.false_eq_true, or_false, iff_true, iff_false, true_or, or_true,
      not_false_eq_true, not_true_eq_false] at * <;> omega

/-- `Version.buildFunctionPattern` for a version record with the reference's centres -/
theorem buildFunctionPattern_ref (vi : VersionInfo) (v : Nat) (h1 : 1 ≤ v) (h40 : v ≤ 40) (hn : vi.num = v)
    (hcs : vi.centers = QRRef.alignCentres v) :
    buildFunctionPattern vi = .ok { dim := 17 + 4 * v, bit := fun x y => (allRegs v).any (·.has x y) } := by
  have h := fpOK_of v h1 h40
  unfold fpOK at h
  simp only [Bool.and_eq_true, beq_iff_eq] at h
  obtain ⟨⟨⟨ha, hval⟩, _⟩, _⟩ := h
  unfold buildFunctionPattern VersionInfo.dimension
  simp only [hn, hcs, ha]
  have : ([⟨0, 0, 9, 9⟩, ⟨17 + 4 * v - 8, 0, 8, 9⟩, ⟨0, 17 + 4 * v - 8, 9, 8⟩] ++ refAlignRegs v ++
      [⟨6, 9, 1, 17 + 4 * v - 17⟩, ⟨9, 6, 17 + 4 * v - 17, 1⟩] ++
      (if v > 6 then [⟨17 + 4 * v - 11, 0, 3, 6⟩, ⟨0, 17 + 4 * v - 11, 6, 3⟩] else []) : List Region) = allRegs v := rfl
  rw [this, hval]
  rfl

/-! ### the cell order -/

theorem reverse_range (n : Nat) : (List.range n).reverse = (List.range n).map (fun c => n - 1 - c) := by
  apply List.ext_getElem
  · simp
  · intro i h1 h2
    simp at h1
    simp [List.getElem_reverse]

theorem cells_column (n xr : Nat) (up : Bool) :
    (List.range n).flatMap (fun count =>
      let i := if up then n - 1 - count else count
      [(xr, i), (xr - 1, i)]) = QRRef.columnPair n xr up := by
  unfold QRRef.columnPair
  cases up
  · simp
  · simp only [if_true, reverse_range, List.flatMap_map]

theorem zigzagCells_eq (v : Nat) (h1 : 1 ≤ v) (h40 : v ≤ 40) :
    zigzagCells (17 + 4 * v) = QRRef.zigzagAll (17 + 4 * v) := by
  have h := fpOK_of v h1 h40
  unfold fpOK at h
  simp only [Bool.and_eq_true, beq_iff_eq] at h
  obtain ⟨_, hcol⟩ := h
  unfold zigzagCells QRRef.zigzagAll
  rw [hcol, List.flatMap_map]
  congr 1
  funext k
  exact cells_column _ _ _

/-- the data cells in the order `ReadCodewords` visits them -/
theorem data_cells_eq (v : Nat) (h1 : 1 ≤ v) (h40 : v ≤ 40) :
    (zigzagCells (17 + 4 * v)).filter
      (fun c => !(Matrix.getB { dim := 17 + 4 * v, bit := fun x y => (allRegs v).any (·.has x y) } c.1 c.2)) =
    QRRef.zigzag v := by
  have h := fpOK_of v h1 h40
  unfold fpOK at h
  simp only [Bool.and_eq_true, beq_iff_eq, List.all_eq_true, decide_eq_true_eq] at h
  obtain ⟨⟨⟨_, _⟩, hc⟩, _⟩ := h
  rw [zigzagCells_eq v h1 h40]
  unfold QRRef.zigzag QRRef.dimension
  apply List.filter_congr
  intro c hcm
  obtain ⟨x, y⟩ := c
  have hm := (QRRef.mem_zigzagAll (n := 17 + 4 * v) (by omega) (by omega)).mp hcm
  simp only [Matrix.getB, hm.1, hm.2.1, and_self, if_true]
  rw [regs_any_eq_isFunction v x y h1 hm.1 hm.2.1 hc]

/-! ### `readDataBits` -/

theorem readDataBits_eq (fp m : Matrix) : ∀ (cells : List (Nat × Nat)) (acc : List Bool),
    readDataBits fp m cells acc =
      .ok (acc.reverse ++ (cells.filter (fun c => !fp.getB c.1 c.2)).map (fun c => m.getB c.1 c.2)) := by
  intro cells
  induction cells with
  | nil => intro acc; simp [readDataBits]
  | cons c cs ih =>
    intro acc
    unfold readDataBits
    simp only [Matrix.get_eq, bind, Except.bind]
    cases hf : fp.getB c.1 c.2
    · simp only [Bool.false_eq_true, if_false]
      rw [ih]
      simp [hf]
    · simp only [if_true]
      rw [ih]
      simp [hf]

end Gzx.QRComp
