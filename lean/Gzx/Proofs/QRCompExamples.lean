/-
  C01/C05 — concrete symbols (non-vacuity of the composed theorems, and one end-to-end kernel evaluation of
  the decoder model with the C04 Reed-Solomon decoder on a reference symbol).  Listed in specs/C01.json and
  specs/C05.json so that it is built and audited with the property modules.
-/
import Gzx.Properties.C05
namespace Gzx.QRComp.Examples
open Gzx Gzx.QRDec Gzx.QRComp Gzx.Properties.C01

/-- payload of ISO/IEC 18004 Annex I: numeric "01234567" in a version 1 symbol -/
def bits8 : List Bool :=
  QRRef.payloadBits 1 (QRRef.headerBits none false .numeric) .numeric 8 (QRRef.packNumeric [0, 1, 2, 3, 4, 5, 6, 7])

def data8 : List Nat := QRRef.terminate (QRRef.dataCodewords 1 .M) bits8

/-- the single block of 1-M with its ten error-correction codewords — the standard's worked example -/
theorem annexI_block : refBlocks 1 .M data8 =
    [([0x10, 0x20, 0x0C, 0x56, 0x61, 0x80, 0xEC, 0x11, 0xEC, 0x11, 0xEC, 0x11, 0xEC, 0x11, 0xEC, 0x11],
      [0xA5, 0x24, 0xD4, 0xC1, 0xED, 0x36, 0xC7, 0x87, 0x2C, 0x55])] := by decide +kernel

/-- the block with FIVE of its 26 codewords replaced (3 data, 2 error correction): the promised capacity
    ⌊10/2⌋ of level M in version 1 -/
def recv8 : List (List Nat × List Nat) :=
  [([0xFF, 0x20, 0x0C, 0x00, 0x61, 0x80, 0xEC, 0x11, 0xEC, 0x11, 0xEC, 0x11, 0xEC, 0x11, 0xEC, 0x55],
    [0xA5, 0xAA, 0xD4, 0xC1, 0xED, 0x36, 0xC7, 0x87, 0x2C, 0x01])]

/-- the hypothesis `Received` of `qr_tolerates_block_errors` holds for it (decided by the kernel) -/
theorem recv8_received : Received 1 .M data8 recv8 := ⟨by decide +kernel, by decide +kernel, by decide +kernel⟩

theorem recv8_differs : Gzx.Properties.C04.hamming
    ([0x10, 0x20, 0x0C, 0x56, 0x61, 0x80, 0xEC, 0x11, 0xEC, 0x11, 0xEC, 0x11, 0xEC, 0x11, 0xEC, 0x11] ++
      [0xA5, 0x24, 0xD4, 0xC1, 0xED, 0x36, 0xC7, 0x87, 0x2C, 0x55])
    ((recv8.map (fun b => b.1 ++ b.2)).flatMap id) = 5 := by decide +kernel

/-- hence the damaged symbol decodes to the digits (instance of `Properties.C05.qr_tolerates_block_errors`) -/
theorem damaged_annexI_decodes :
    decode refTables rsQR .none (matrixOf (QRRef.refMatrix 1 .M 3 (QRDec.interleave recv8))) =
      .ok ⟨⟨[.raw ([0, 1, 2, 3, 4, 5, 6, 7].map (48 + ·))], [], -1, -1, 1⟩, .M, 1, data8, false⟩ :=
  Gzx.Properties.C05.qr_tolerates_block_errors refTables refTables_conform .none 1 (by decide) (by decide) .M 3
    (by decide) bits8 (by decide) _ (fun tail ht => by
      have hk := (countBits_eq 1).1
      show parseStream _ (QRRef.payloadBits 1 (QRRef.headerBits none false .numeric) .numeric
        [0, 1, 2, 3, 4, 5, 6, 7].length (QRRef.packNumeric [0, 1, 2, 3, 4, 5, 6, 7]) ++ tail) 1 .none = _
      rw [payload_segment 1 .numeric 0 hk, packNumeric_eq]
      exact parse_numeric_stream _ 1 .none [0, 1, 2, 3, 4, 5, 6, 7] (by decide) (by decide) tail ht)
    recv8 recv8_received

set_option maxRecDepth 1000000 in
/-- END-TO-END KERNEL EVALUATION (no theorem used): the executable decoder model — `BitMatrixParser`, function
    pattern, zig-zag read-out, unmasking, de-interleaving, the C04 Reed-Solomon decoder, the bit-stream parser —
    run on the 21x21 reference symbol of Annex I returns the digits. -/
theorem annexI_evaluates :
    (decode refTables rsQR .none (refSymbol 1 .M 3 bits8)).map (·.parsed) =
      .ok ⟨[.raw [48, 49, 50, 51, 52, 53, 54, 55]], [], -1, -1, 1⟩ := by decide +kernel

end Gzx.QRComp.Examples
