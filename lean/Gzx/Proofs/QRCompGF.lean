/-
  C01/C05 ↔ C04: the Reed-Solomon parity of the QR reference construction (`QRRef.rsParity`, an LFSR over
  the shift-and-add product modulo 0x11D) IS the encoding of C04's model of common/reedsolomon over
  `Gzx.GF.qrCode256` (0x11D, 256, generator base 0).
  Route: `QRRef.gfMul` = C04's reference product `gmul 0x11D` on bytes (algebraic: both are the "peasant"
  product); every `2^i`, `i < n`, is a root of the monic generator (kernel evaluation for the 13 parity
  lengths of ISO 18004 Table 9); each LFSR step keeps `value(data so far ++ register) = 0` at such a root;
  hence `data ++ rsParity data n` has zero syndromes; `rs_encode_unique`, `rs_decode_clean`, `rs_corrects`.
-/
import Gzx.Ref.QR
import Gzx.Proofs.QRCodewords
import Gzx.Properties.C04
namespace Gzx.QRComp
open Gzx Gzx.QRRef Gzx.GF Gzx.Ref.GF Gzx.Proofs.GF Gzx.Proofs.GF2 Gzx.Proofs.Poly

/-- 0x11D is a primitive polynomial of degree 8 (C04's decidable parameter check) -/
theorem qrParamsOK : ParamsOK 0x11D 256 := by decide +kernel

theorem qrFieldOK : FieldOK qrCode256 := fieldOK_mk' qrParamsOK

theorem log2_256 : (256 : Nat).log2 = 8 := by decide

/-! ### `QRRef.gfMul` is the reference product of C04 -/

theorem step_eq_xt : ∀ a ∈ List.range 256,
    (if a * 2 ≥ 256 then (a * 2) ^^^ 0x11D else a * 2) = xt 0x11D 8 a := by decide +kernel

theorem gfMulAux_peasant : ∀ (f a b acc : Nat), a < 256 →
    gfMulAux f a b acc = acc ^^^ peasant 0x11D 8 f b a := by
  intro f
  induction f with
  | zero => intro a b acc _; simp [gfMulAux, peasant]
  | succ f ih =>
    intro a b acc ha
    unfold gfMulAux peasant
    simp only
    rw [step_eq_xt a (List.mem_range.mpr ha), ih _ _ _ (by
      have := gf_step_lt a (List.mem_range.mpr ha)
      rw [step_eq_xt a (List.mem_range.mpr ha)] at this
      exact this), peasant_xt]
    split
    · rw [Nat.xor_assoc]
    · rw [Nat.zero_xor]

theorem peasant_fuel (p d : Nat) : ∀ (k j b a : Nat), b < 2 ^ k →
    peasant p d (k + j) b a = peasant p d k b a := by
  intro k
  induction k with
  | zero =>
    intro j b a hb
    have : b = 0 := by simpa using hb
    subst this
    rw [peasant_zero_left, peasant_zero_left]
  | succ k ih =>
    intro j b a hb
    have e : k + 1 + j = (k + j) + 1 := by omega
    rw [e]
    unfold peasant
    rw [ih j (b / 2) a (by
      have : 2 ^ (k + 1) = 2 ^ k * 2 := Nat.pow_succ _ _
      omega)]

/-- the shift-and-add product of the QR reference is C04's `pmod 0x11D (clmul a b)` on bytes -/
theorem gfMul_eq_gmul (a b : Nat) (ha : a < 256) (hb : b < 256) : gfMul a b = gmul 0x11D a b := by
  unfold gfMul
  rw [gfMulAux_peasant 8 a b 0 ha, Nat.zero_xor, gmul_comm qrParamsOK a b ha hb,
    gmul_eq_peasant qrParamsOK b a ha, log2_256]
  have hk : b.log2 + 1 ≤ 8 := by
    by_cases h0 : b = 0
    · subst h0; decide
    · have := (Nat.log2_lt h0).2 (show b < 2 ^ 8 from hb)
      omega
  have hlt : b < 2 ^ (b.log2 + 1) := Nat.lt_log2_self
  have := peasant_fuel 0x11D 8 (b.log2 + 1) (8 - (b.log2 + 1)) b a hlt
  rw [show b.log2 + 1 + (8 - (b.log2 + 1)) = 8 by omega] at this
  exact this

/-! ### the generator polynomials of the 13 parity lengths of Table 9 -/

/-- EC codewords per block occurring in ISO 18004 Table 9 -/
def ecLens : List Nat := [7, 10, 13, 15, 16, 17, 18, 20, 22, 24, 26, 28, 30]

/-- the generator is monic, its coefficients are bytes, and every `2^i`, `i < n`, is a root —
    evaluated with C04's Horner evaluation over C04's reference product -/
def genOK (n : Nat) : Bool :=
  (rsGenerator n).head? == some 1 && (rsGenerator n).all (· < 256) &&
  (List.range n).all (fun i => evalH 0x11D (pw 0x11D 256 i) (rsGenerator n) == 0)

set_option maxRecDepth 1000000 in
theorem genOK_all : ecLens.all genOK = true := by decide +kernel

theorem ecPerBlock_mem : ∀ v ∈ List.range 40, ∀ ec ∈ EC.all, ecPerBlock (v + 1) ec ∈ ecLens := by
  decide +kernel

theorem gen_facts (n : Nat) (hn : n ∈ ecLens) :
    ∃ g, rsGenerator n = 1 :: g ∧ g.length = n ∧ InR 256 g ∧
      ∀ i, i < n → evalH 0x11D (pw 0x11D 256 i) (1 :: g) = 0 := by
  have h := genOK_all
  rw [List.all_eq_true] at h
  have h := h n hn
  unfold genOK at h
  simp only [Bool.and_eq_true, beq_iff_eq, List.all_eq_true, List.mem_range, decide_eq_true_eq] at h
  obtain ⟨⟨h1, h2⟩, h3⟩ := h
  cases hg : rsGenerator n with
  | nil => rw [hg] at h1; simp at h1
  | cons c g =>
    rw [hg] at h1 h2 h3
    simp only [List.head?_cons, Option.some.injEq] at h1
    subst h1
    refine ⟨g, rfl, ?_, fun x hx => h2 x (List.mem_cons_of_mem _ hx), h3⟩
    have := rsGenerator_length n
    rw [hg] at this
    simpa using this

/-! ### the LFSR keeps the code-word condition at every root of the generator -/

section root
variable (ρ : Nat) (hρ : ρ < 256) (g : List Nat) (hg : InR 256 g) (hroot : evalH 0x11D ρ (1 :: g) = 0)
include hρ hg hroot

/-- one LFSR step: if the data read so far followed by the register vanishes at `ρ`, so does the data
    extended by `d` followed by the new register -/
theorem lfsr_step (acc : Nat) (hacc : acc < 256) (reg : List Nat) (hreg : InR 256 reg) (hlen : reg.length = g.length)
    (hpos : 0 < g.length) (d : Nat) (hd : d < 256)
    (hinv : evalFrom 0x11D ρ acc reg = 0) :
    evalFrom 0x11D ρ (gmul 0x11D ρ acc ^^^ d)
      (List.zipWith (· ^^^ ·) (reg.tail ++ [0]) (g.map (gfMul (d ^^^ reg.headD 0)))) = 0 := by
  have ok := qrParamsOK
  cases reg with
  | nil => simp at hlen; omega
  | cons h t =>
    have hh : h < 256 := hreg.head
    have ht : InR 256 t := hreg.tail
    simp only [List.tail_cons, List.headD_cons]
    have hfb : d ^^^ h < 256 := xor_lt_size ok _ _ hd hh
    have hmap : g.map (gfMul (d ^^^ h)) = g.map (gmul 0x11D (d ^^^ h)) :=
      List.map_congr_left (fun x hx => gfMul_eq_gmul _ _ hfb (hg x hx))
    rw [hmap]
    rw [evalFrom_cons] at hinv
    have hX : gmul 0x11D ρ acc ^^^ h < 256 := xor_lt_size ok _ _ (gmul_lt ok _ _) hh
    have hsplit : gmul 0x11D ρ acc ^^^ d = (gmul 0x11D ρ acc ^^^ h) ^^^ (d ^^^ h) := by
      rw [Nat.xor_assoc, ← Nat.xor_assoc h d h, Nat.xor_comm h d, Nat.xor_assoc d h h, Nat.xor_self,
        Nat.xor_zero]
    rw [hsplit, evalFrom_xor ok ρ (t ++ [0]) (g.map (gmul 0x11D (d ^^^ h))) _ _ (by simp at hlen ⊢; omega) hX hfb
      (InR.append ht (InR.cons (by decide) InR.nil)) (InR_map_gmul ok _ g)]
    have h1 : evalFrom 0x11D ρ (gmul 0x11D ρ acc ^^^ h) (t ++ [0]) = 0 := by
      rw [evalFrom_append, hinv, evalFrom_cons, evalFrom_nil, gmul_zero_right ok]
      rfl
    have h2 : evalFrom 0x11D ρ (d ^^^ h) (g.map (gmul 0x11D (d ^^^ h))) = 0 := by
      have hs := evalFrom_scale ok ρ (d ^^^ h) hρ hfb g 1 (one_lt_size ok) hg
      rw [gmul_one_right ok _ hfb] at hs
      rw [hs]
      have : evalFrom 0x11D ρ 1 g = evalH 0x11D ρ (1 :: g) := by
        unfold evalH
        rw [evalFrom_cons, gmul_zero_right ok, Nat.zero_xor]
      rw [this, hroot, gmul_zero_right ok]
    rw [h1, h2]
    rfl

theorem lfsr_inv (hpos : 0 < g.length) : ∀ (ds : List Nat) (acc : Nat) (reg : List Nat), InR 256 ds → acc < 256 →
    InR 256 reg → reg.length = g.length → evalFrom 0x11D ρ acc reg = 0 →
    evalFrom 0x11D ρ (evalFrom 0x11D ρ acc ds)
      (ds.foldl (fun reg d => List.zipWith (· ^^^ ·) (reg.tail ++ [0]) (g.map (gfMul (d ^^^ reg.headD 0)))) reg) = 0 := by
  intro ds
  induction ds with
  | nil => intro acc reg _ _ _ _ h; exact h
  | cons d ds ih =>
    intro acc reg hds hacc hreg hlen hinv
    rw [List.foldl_cons, evalFrom_cons]
    have ok := qrParamsOK
    have hd : d < 256 := hds.head
    apply ih _ _ hds.tail (xor_lt_size ok _ _ (gmul_lt ok _ _) hd)
    · -- new register is bytes
      have hfb : d ^^^ reg.headD 0 < 256 := by
        apply xor_lt_size ok _ _ hd
        cases reg with
        | nil => simp
        | cons r rs => exact hreg.head
      apply zipWith_xor_lt
      · intro x hx
        rcases List.mem_append.mp hx with h | h
        · exact hreg x (List.mem_of_mem_tail h)
        · simp at h; omega
      · intro y hy
        obtain ⟨c, _, rfl⟩ := List.mem_map.mp hy
        exact QRRef.gfMul_lt _ _ hfb
    · rw [List.length_zipWith, List.length_append, List.length_tail, List.length_map, hlen]
      simp; omega
    · exact lfsr_step ρ hρ g hg hroot acc hacc reg hreg hlen hpos d hd hinv

end root

/-- `data ++ rsParity data n` vanishes at `2^0 … 2^(n-1)`: C04's `ZeroSyndromes` over the QR field -/
theorem rsParity_zero_syndromes (n : Nat) (hn : n ∈ ecLens) (data : List Nat) (hd : InR 256 data) :
    Gzx.Properties.C04.ZeroSyndromes qrCode256 (data ++ rsParity data n) n := by
  intro i hi
  have ok := qrParamsOK
  obtain ⟨g, hgen, hgl, hgb, hroots⟩ := gen_facts n hn
  rw [Gzx.Properties.C04.alpha_eq_pw qrCode256 qrFieldOK]
  show evalH 0x11D (pw 0x11D 256 (i + 0)) (data ++ rsParity data n) = 0
  rw [Nat.add_zero]
  have hρ : pw 0x11D 256 i < 256 := pw_lt ok _
  have hn0 : 0 < n := by
    have : ∀ m ∈ ecLens, 0 < m := by decide
    exact this n hn
  unfold rsParity
  simp only [hgen, List.drop_succ_cons, List.drop_zero]
  unfold evalH
  rw [evalFrom_append]
  apply lfsr_inv (pw 0x11D 256 i) hρ g hgb (hroots i hi) (by omega) data 0 _ hd (by decide)
    (InR.replicate (by decide)) (by simp [hgl])
  have := evalFrom_zeros ok (pw 0x11D 256 i) hρ n 0 (by decide)
  rw [this, gmul_zero_right ok]

/-- THE LINK TO C04: the reference parity of a QR block is what the model of the library's Reed-Solomon
    encoder computes over `qrCode256` -/
theorem rsParity_eq_rs_encode (n : Nat) (hn : n ∈ ecLens) (data : List Nat) (hne : data ≠ [])
    (hd : InR 256 data) (hlen : data.length + n ≤ 255) :
    Gzx.RS.encode qrCode256 data n = .ok (rsParity data n) := by
  have hn0 : 0 < n := by
    have : ∀ m ∈ ecLens, 0 < m := by decide
    exact this n hn
  exact Gzx.Properties.C04.rs_encode_unique qrCode256 qrFieldOK data (rsParity data n) n hne hn0
    hd (rsParity_lt data n hd) (rsParity_length data n) hlen (by show n + 0 ≤ 256; omega)
    (rsParity_zero_syndromes n hn data hd)

/-- the model of `ReedSolomonDecoder.Decode` that C04's theorems are about, over the QR field -/
def rsQR : List Nat → Nat → Res (List Nat) := Gzx.RS.decode qrCode256

/-- an undamaged reference block passes through the C04 decoder unchanged -/
theorem rsQR_clean (n : Nat) (hn : n ∈ ecLens) (data : List Nat) (hne : data ≠ []) (hd : InR 256 data) :
    rsQR (data ++ rsParity data n) n = .ok (data ++ rsParity data n) := by
  have hn30 : n ≤ 30 := by
    have : ∀ m ∈ ecLens, m ≤ 30 := by decide
    exact this n hn
  exact Gzx.Properties.C04.rs_decode_clean qrCode256 qrFieldOK _ n (by simp [hne])
    (InR.append hd (rsParity_lt data n hd)) (by show n + 0 ≤ 256; omega)
    (rsParity_zero_syndromes n hn data hd)

/-- C04's `rs_corrects` on a reference block: any received word that differs from the written block in at
    most `⌊n/2⌋` positions is restored to the written block -/
theorem rsQR_corrects (n : Nat) (hn : n ∈ ecLens) (data : List Nat) (hne : data ≠ []) (hd : InR 256 data)
    (hlen : data.length + n ≤ 255) (recv : List Nat) (hrl : recv.length = data.length + n)
    (hrb : InR 256 recv)
    (herr : 2 * Gzx.Properties.C04.hamming (data ++ rsParity data n) recv ≤ n) :
    rsQR recv n = .ok (data ++ rsParity data n) := by
  have hn30 : n ≤ 30 := by
    have : ∀ m ∈ ecLens, m ≤ 30 := by decide
    exact this n hn
  exact Gzx.Properties.C04.rs_corrects_received qrCode256 qrFieldOK (by decide) _ recv n
    (by simp [hrl, rsParity_length]) (by simp [rsParity_length]; exact hlen)
    (InR.append hd (rsParity_lt data n hd)) hrb (rsParity_zero_syndromes n hn data hd) (by simp [hne])
    (by show n + 0 ≤ 256; omega) herr

end Gzx.QRComp
