/-
  C01 composition, matrix layer: what the decoder model's `BitMatrixParser` reads from the reference
  symbol `QRRef.refMatrix v ec mask cw` — version, format information, codewords.
  Tables: the decoder model's `Tables` argument is required to CONFORM to the reference
  (`TablesConform T`, decidable; discharged for the regenerated tables in Obligations/C01.lean).
-/
import Gzx.Proofs.QRCompCells
import Gzx.Proofs.QRTolerance
import Gzx.Properties.C07
namespace Gzx.QRComp
open Gzx Gzx.QRDec

/-! ### reference tables in the decoder model's types -/

def toDecEC : QRRef.EC → EC
  | .L => .L | .M => .M | .Q => .Q | .H => .H

/-- a row of VERSIONS as the standard prescribes it -/
def refVersion (v : Nat) : VersionInfo :=
  ⟨v, QRRef.alignCentres v, QRRef.EC.all.map (fun ec => ⟨QRRef.ecPerBlock v ec, QRRef.blockGroups v ec⟩)⟩

def refVersions : List VersionInfo := (List.range 40).map (fun i => refVersion (i + 1))

/-- formatInfoDecodeLookup: masked BCH(15,5) word and its five data bits, in the order of the data bits -/
def refFmt : List (Nat × Nat) := (List.range 32).map (fun d => (QRRef.formatWordOfData d, d))

/-- VERSION_DECODE_INFO: BCH(18,6) words of versions 7..40 -/
def refVdi : List Nat := (List.range 34).map (fun i => QRRef.versionWord (i + 7))

/-- the decoder's tables are those of ISO/IEC 18004 (the ECI registry is unconstrained) -/
def TablesConform (T : Tables) : Prop := T.fmt = refFmt ∧ T.vdi = refVdi ∧ T.versions = refVersions

instance (T : Tables) : Decidable (TablesConform T) := by unfold TablesConform; infer_instance

/-- the standard's tables as a concrete `Tables` value (empty ECI registry) -/
def refTables : Tables := ⟨refFmt, QRRef.formatMask, refVdi, refVersions, []⟩

theorem refTables_conform : TablesConform refTables := ⟨rfl, rfl, rfl⟩

theorem refFmt_minDist : MinDist 7 (refFmt.map (·.1)) := by decide +kernel
theorem refVdi_minDist : MinDist 8 refVdi := by decide +kernel
theorem formatWord_lt : ∀ d ∈ List.range 32, QRRef.formatWordOfData d < 2 ^ 15 := by decide +kernel
theorem versionWord_lt : ∀ i ∈ List.range 34, QRRef.versionWord (i + 7) < 2 ^ 18 := by decide +kernel

theorem formatData_facts : ∀ ec : QRRef.EC, ∀ mask ∈ List.range 8,
    ((ec.bits <<< 3) ||| mask) < 32 ∧ formatInfoOf ((ec.bits <<< 3) ||| mask) = .ok (toDecEC ec, mask) := by
  intro ec; cases ec <;> decide

theorem getVersion_ref (T : Tables) (hT : TablesConform T) (v : Nat) (h1 : 1 ≤ v) (h40 : v ≤ 40) :
    getVersionForNumber T.versions v = .ok (refVersion v) := by
  unfold getVersionForNumber
  have : ¬ (v < 1 ∨ v > 40) := by omega
  simp only [this, if_false, hT.2.2, refVersions, List.getElem?_map, List.getElem?_range (show v - 1 < 40 by omega),
    Option.map_some]
  rw [show v - 1 + 1 = v by omega]

theorem refVersion_total (v : Nat) (h1 : 1 ≤ v) (h40 : v ≤ 40) :
    (refVersion v).totalCodewords = QRRef.totalCodewords v := by
  have := Gzx.Properties.C07.std_blocks_sum_version v h1 h40 .L
  unfold Gzx.Properties.C07.groupCodewords at this
  unfold QRRef.totalCodewords
  rw [← this]
  rfl

/-! ### matrices -/

/-- a symbol given as rows of modules, as a decoder-model matrix -/
def matrixOf (rows : List (List Bool)) : Matrix :=
  { dim := rows.length, bit := fun x y => QRRef.matrixAt rows x y }

theorem refMatrix_length (v : Nat) (ec : QRRef.EC) (mask : Nat) (cw : List Nat) :
    (QRRef.refMatrix v ec mask cw).length = 17 + 4 * v := by
  rw [QRRef.refMatrix_eq_spec]
  unfold QRRef.specMatrix
  simp only [List.length_map, List.length_range]
  rfl

theorem matrixOf_dim (v : Nat) (ec : QRRef.EC) (mask : Nat) (cw : List Nat) :
    (matrixOf (QRRef.refMatrix v ec mask cw)).dim = 17 + 4 * v := refMatrix_length v ec mask cw

theorem matrixOf_bit (v : Nat) (ec : QRRef.EC) (mask : Nat) (cw : List Nat) (x y : Nat)
    (hx : x < 17 + 4 * v) (hy : y < 17 + 4 * v) :
    (matrixOf (QRRef.refMatrix v ec mask cw)).bit x y = QRRef.moduleAt v ec mask cw x y :=
  Gzx.Properties.C07.ref_matrix_at v ec mask cw x y hx hy

theorem matrixOf_getB (v : Nat) (ec : QRRef.EC) (mask : Nat) (cw : List Nat) (x y : Nat)
    (hx : x < 17 + 4 * v) (hy : y < 17 + 4 * v) :
    (matrixOf (QRRef.refMatrix v ec mask cw)).getB x y = QRRef.moduleAt v ec mask cw x y := by
  unfold Matrix.getB
  rw [matrixOf_dim, if_pos ⟨hx, hy⟩, matrixOf_bit v ec mask cw x y hx hy]

/-! ### bits -/

theorem toBitsBE_eq_natToBits : ∀ (w n : Nat), QRRef.toBitsBE w n = natToBits w n := by
  intro w
  induction w with
  | zero => intro n; rfl
  | succ w ih =>
    intro n
    unfold natToBits
    rw [← ih (n / 2)]
    unfold QRRef.toBitsBE
    rw [List.range_succ, List.map_append]
    congr 1
    · apply List.map_congr_left
      intro i hi
      have hi := List.mem_range.mp hi
      rw [show w + 1 - 1 - i = (w - 1 - i) + 1 by omega, Nat.testBit_succ]
    · simp only [List.map_cons, List.map_nil]
      rw [show w + 1 - 1 - w = 0 by omega, Nat.testBit_zero]
      by_cases h : n % 2 = 1 <;> simp [h]

/-! ### coordinates: the decoder's copy loops visit the standard's bit positions, most significant first -/

def coordsOK (v : Nat) : Bool :=
  let n := 17 + 4 * v
  formatCoords1 == (List.range 15).map (fun i => QRRef.formatPos1 (15 - 1 - i)) &&
  formatCoords2 n == (List.range 15).map (fun i => QRRef.formatPos2 n (15 - 1 - i)) &&
  (decide (v < 7) || versionCoords1 n == (List.range 18).map (fun i => QRRef.versionPos2 n (18 - 1 - i)))

theorem coordsOK_all : ∀ v ∈ List.range 40, coordsOK (v + 1) = true := by decide +kernel

theorem coordsOK_of (v : Nat) (h1 : 1 ≤ v) (h40 : v ≤ 40) : coordsOK v = true := by
  have := coordsOK_all (v - 1) (List.mem_range.mpr (by omega))
  rwa [show v - 1 + 1 = v by omega] at this

theorem formatPos1_lt (i : Nat) : (QRRef.formatPos1 i).1 < 9 ∧ (QRRef.formatPos1 i).2 < 9 := by
  unfold QRRef.formatPos1
  repeat' split
  all_goals (constructor <;> simp <;> omega)

theorem formatPos2_lt (n i : Nat) (hn : 21 ≤ n) (hi : i < 15) :
    (QRRef.formatPos2 n i).1 < n ∧ (QRRef.formatPos2 n i).2 < n := by
  unfold QRRef.formatPos2
  split <;> (constructor <;> simp <;> omega)

theorem versionPos2_lt (n i : Nat) (hn : 21 ≤ n) (hi : i < 18) :
    (QRRef.versionPos2 n i).1 < n ∧ (QRRef.versionPos2 n i).2 < n := by
  unfold QRRef.versionPos2
  constructor <;> simp <;> omega

section symbol
variable (v : Nat) (h1 : 1 ≤ v) (h40 : v ≤ 40) (ec : QRRef.EC) (mask : Nat) (cw : List Nat)

/-- the symbol under consideration -/
abbrev sym : Matrix := matrixOf (QRRef.refMatrix v ec mask cw)

include h1 h40

theorem format_cells1 :
    formatCoords1.map (cellOf (sym v ec mask cw) false) = natToBits 15 (QRRef.formatWord ec mask) := by
  have h := coordsOK_of v h1 h40
  unfold coordsOK at h
  simp only [Bool.and_eq_true, beq_iff_eq] at h
  rw [h.1.1, List.map_map, ← toBitsBE_eq_natToBits]
  unfold QRRef.toBitsBE
  apply List.map_congr_left
  intro i hi
  have hi := List.mem_range.mp hi
  have hb := formatPos1_lt (15 - 1 - i)
  simp only [Function.comp, cellOf, Bool.false_eq_true, if_false]
  rw [matrixOf_getB v ec mask cw _ _ (by omega) (by omega)]
  exact (Gzx.Properties.C07.ref_format_info_readback v h1 h40 ec mask cw _ (by omega)).1

theorem format_cells2 :
    (formatCoords2 (17 + 4 * v)).map (cellOf (sym v ec mask cw) false) =
      natToBits 15 (QRRef.formatWord ec mask) := by
  have h := coordsOK_of v h1 h40
  unfold coordsOK at h
  simp only [Bool.and_eq_true, beq_iff_eq] at h
  rw [h.1.2, List.map_map, ← toBitsBE_eq_natToBits]
  unfold QRRef.toBitsBE
  apply List.map_congr_left
  intro i hi
  have hi := List.mem_range.mp hi
  have hb := formatPos2_lt (17 + 4 * v) (15 - 1 - i) (by omega) (by omega)
  simp only [Function.comp, cellOf, Bool.false_eq_true, if_false]
  rw [matrixOf_getB v ec mask cw _ _ hb.1 hb.2]
  exact (Gzx.Properties.C07.ref_format_info_readback v h1 h40 ec mask cw _ (by omega)).2

theorem version_cells1 (h7 : 7 ≤ v) :
    (versionCoords1 (17 + 4 * v)).map (cellOf (sym v ec mask cw) false) =
      natToBits 18 (QRRef.versionWord v) := by
  have h := coordsOK_of v h1 h40
  unfold coordsOK at h
  simp only [Bool.and_eq_true, Bool.or_eq_true, decide_eq_true_eq, beq_iff_eq] at h
  have hv := h.2.resolve_left (by omega)
  rw [hv, List.map_map, ← toBitsBE_eq_natToBits]
  unfold QRRef.toBitsBE
  apply List.map_congr_left
  intro i hi
  have hi := List.mem_range.mp hi
  have hb := versionPos2_lt (17 + 4 * v) (18 - 1 - i) (by omega) (by omega)
  simp only [Function.comp, cellOf, Bool.false_eq_true, if_false]
  rw [matrixOf_getB v ec mask cw _ _ hb.1 hb.2]
  exact (Gzx.Properties.C07.ref_version_info_readback v h7 h40 ec mask cw _ (by omega)).2

variable (T : Tables) (hT : TablesConform T)
include hT

/-- parser state after `ReadVersion`: versions ≥ 7 are cached -/
def parser1 : Parser :=
  if v ≤ 6 then { m := sym v ec mask cw } else { m := sym v ec mask cw, ver := some (refVersion v) }

omit h1 h40 hT in
theorem parser1_m : (parser1 v ec mask cw).m = sym v ec mask cw := by unfold parser1; split <;> rfl
omit h1 h40 hT in
theorem parser1_fmt : (parser1 v ec mask cw).fmt = none := by unfold parser1; split <;> rfl
omit h1 h40 hT in
theorem parser1_mirror : (parser1 v ec mask cw).mirror = false := by unfold parser1; split <;> rfl

/-- `ReadVersion` on the reference symbol returns the version's table row -/
theorem readVersion_ref :
    readVersion T { m := sym v ec mask cw } = .ok (refVersion v, parser1 v ec mask cw) := by
  have hdim : (sym v ec mask cw).dim = 17 + 4 * v := matrixOf_dim v ec mask cw
  have hprov : (17 + 4 * v - 17) / 4 = v := by omega
  by_cases hs : v ≤ 6
  · have := readVersion_small T { m := sym v ec mask cw } rfl (by simp only [hdim, hprov]; exact hs) (refVersion v)
      (by simp only [hdim, hprov]; exact getVersion_ref T hT v h1 h40)
    rw [this]; unfold parser1; rw [if_pos hs]
  · have h7 : 7 ≤ v := by omega
    have hw : T.vdi[v - 7]? = some (QRRef.versionWord v) := by
      rw [hT.2.1]; unfold refVdi
      rw [List.getElem?_map, List.getElem?_range (by omega)]
      simp only [Option.map_some]
      rw [show v - 7 + 7 = v by omega]
    have hlt : QRRef.versionWord v < 2 ^ 18 := by
      have := versionWord_lt (v - 7) (List.mem_range.mpr (by omega))
      rwa [show v - 7 + 7 = v by omega] at this
    have hgv : getVersionForNumber T.versions (v - 7 + 7) = .ok (refVersion v) := by
      rw [show v - 7 + 7 = v by omega]; exact getVersion_ref T hT v h1 h40
    have hcopy := versionCopyOK_near T (by rw [hT.2.1]; exact refVdi_minDist) (v - 7) (QRRef.versionWord v) hw 0
      popCount_zero' (refVersion v) hgv (17 + 4 * v) rfl
    rw [Nat.xor_zero] at hcopy
    have := readVersion_reads_first T { m := sym v ec mask cw } rfl (by simp only [hdim, hprov]; exact hs)
      (QRRef.versionWord v) hlt (by simp only [hdim]; exact version_cells1 v h1 h40 ec mask cw h7)
      (refVersion v) (by simp only [hdim]; exact hcopy)
    rw [this]; unfold parser1; rw [if_neg hs]

/-- parser state after `ReadFormatInformation` -/
def parser2 (mk : Nat) : Parser := { parser1 v ec mask cw with fmt := some (toDecEC ec, mk) }

/-- `ReadFormatInformation` returns the level and mask the symbol was built with -/
theorem readFormat_ref (hm : mask < 8) :
    readFormatInformation T (parser1 v ec mask cw) = .ok ((toDecEC ec, mask), parser2 v ec mask cw mask) := by
  have hdim : (sym v ec mask cw).dim = 17 + 4 * v := matrixOf_dim v ec mask cw
  obtain ⟨hd32, hfi⟩ := formatData_facts ec mask (List.mem_range.mpr hm)
  have hlt : QRRef.formatWord ec mask < 2 ^ 15 := formatWord_lt _ (List.mem_range.mpr hd32)
  have hmem : (QRRef.formatWord ec mask, (ec.bits <<< 3) ||| mask) ∈ T.fmt := by
    rw [hT.1]; unfold refFmt
    exact List.mem_map.mpr ⟨_, List.mem_range.mpr hd32, rfl⟩
  have hdec := decodeFormat_near T.fmt T.fmtMask (by rw [hT.1]; exact refFmt_minDist) _ _ hmem 0 0
    popCount_zero' popCount_zero'
  rw [Nat.xor_zero] at hdec
  rw [readFormat_reads T (parser1 v ec mask cw) (parser1_fmt v ec mask cw) _ _ hlt hlt
    (by rw [parser1_m, parser1_mirror]; exact format_cells1 v h1 h40 ec mask cw)
    (by rw [parser1_m, parser1_mirror, hdim]; exact format_cells2 v h1 h40 ec mask cw), hdec, hfi]
  rfl

end symbol

/-! ### codewords -/

theorem maskBit_eq (k x y : Nat) : QRDec.maskBit k y x = QRRef.maskBit k x y := by
  have h := Gzx.Properties.C07.mask_alt_equiv y x
  unfold QRDec.maskBit
  split
  · rfl
  · rfl
  · rfl
  · rfl
  · rfl
  · exact h.1.symm
  · exact h.2.1.symm
  · exact h.2.2.symm
  · rename_i h0 h1 h2 h3 h4 h5 h6 h7
    unfold QRRef.maskBit
    split <;> first | rfl | (exfalso; simp_all)

theorem bitsToBytes_bitsOfBytes (bs : List Nat) (rest : List Bool) (h : ∀ b ∈ bs, b < 256) :
    bitsToBytes bs.length (QRRef.bitsOfBytes bs ++ rest) = bs := by
  induction bs with
  | nil => rfl
  | cons b bs ih =>
    rw [QRRef.bitsOfBytes_cons, List.length_cons, List.append_assoc]
    have hl := QRRef.toBitsBE_length 8 b
    unfold bitsToBytes
    have hlen : ¬ (QRRef.toBitsBE 8 b ++ (QRRef.bitsOfBytes bs ++ rest)).length < 8 := by
      rw [List.length_append, hl]; omega
    rw [if_neg hlen, List.take_left' hl, List.drop_left' hl, ih (fun c hc => h c (List.mem_cons_of_mem _ hc))]
    congr 1
    exact QRRef.byte_roundtrip b (List.mem_range.mpr (h b List.mem_cons_self))

section codewords
variable (v : Nat) (h1 : 1 ≤ v) (h40 : v ≤ 40) (ec : QRRef.EC) (mask : Nat) (cw : List Nat)
  (hl : cw.length = QRRef.totalCodewords v) (hb : ∀ b ∈ cw, b < 256)
  (T : Tables) (hT : TablesConform T)
include h1 h40 hl hb hT

/-- `ReadCodewords` on the reference symbol of a full codeword sequence returns that sequence -/
theorem readCodewords_ref :
    (readCodewords T (parser2 v ec mask cw mask)).1 = .ok cw := by
  have hdim : (sym v ec mask cw).dim = 17 + 4 * v := matrixOf_dim v ec mask cw
  have hprov : (17 + 4 * v - 17) / 4 = v := by omega
  -- the cached / recomputed reads
  have hfmt : readFormatInformation T (parser2 v ec mask cw mask) =
      .ok ((toDecEC ec, mask), parser2 v ec mask cw mask) := rfl
  have hver : readVersion T (parser2 v ec mask cw mask) = .ok (refVersion v, parser2 v ec mask cw mask) := by
    by_cases hs : v ≤ 6
    · have hp : (parser2 v ec mask cw mask).ver = none := by
        unfold parser2 parser1; rw [if_pos hs]
      have hpm : (parser2 v ec mask cw mask).m = sym v ec mask cw := parser1_m v ec mask cw
      exact readVersion_small T _ hp (by rw [hpm, hdim, hprov]; exact hs) (refVersion v)
        (by rw [hpm, hdim, hprov]; exact getVersion_ref T hT v h1 h40)
    · unfold parser2 parser1 readVersion
      rw [if_neg hs]
  unfold readCodewords
  rw [hfmt]
  simp only [hver]
  have hfp := buildFunctionPattern_ref (refVersion v) v h1 h40 rfl rfl
  have hpm : (parser2 v ec mask cw mask).m = sym v ec mask cw := parser1_m v ec mask cw
  simp only [hfp, wrapF, bind, Except.bind, hpm, unmask, hdim, readDataBits_eq, List.reverse_nil, List.nil_append,
    data_cells_eq v h1 h40]
  -- the bits read are the reference's read-out of the symbol
  have hbits : (QRRef.zigzag v).map (fun c =>
      Matrix.getB { dim := 17 + 4 * v, bit := fun x y => (sym v ec mask cw).bit x y != QRDec.maskBit mask y x } c.1 c.2) =
      QRRef.readDataBits v mask (QRRef.moduleAt v ec mask cw) := by
    unfold QRRef.readDataBits
    apply List.map_congr_left
    intro c hc
    obtain ⟨x, y⟩ := c
    have hm := (QRRef.mem_zigzag v x y).mp hc
    unfold QRRef.dimension at hm
    simp only [Matrix.getB, hm.1, hm.2.1, and_self, if_true]
    rw [matrixOf_bit v ec mask cw x y hm.1 hm.2.1, maskBit_eq]
  rw [hbits]
  have hc := Gzx.Properties.C07.std_zigzag_count v h1 h40
  have hrem : QRRef.remainderBits v < 8 := by unfold QRRef.remainderBits; omega
  have hlen8 : (QRRef.bitsOfBytes cw).length ≤ (QRRef.zigzag v).length := by
    rw [QRRef.bitsOfBytes_length, hl, hc]; omega
  rw [QRRef.readDataBits_moduleAt v ec mask cw hlen8]
  have hsl : (QRRef.streamBits v cw).length = 8 * QRRef.totalCodewords v + QRRef.remainderBits v := by
    rw [QRRef.streamBits_length v cw hlen8, hc]
  have hdiv : (QRRef.streamBits v cw).length / 8 = QRRef.totalCodewords v := by rw [hsl]; omega
  rw [refVersion_total v h1 h40, hdiv]
  simp only [Nat.lt_irrefl, if_false, ne_eq, not_true_eq_false]
  unfold QRRef.streamBits
  rw [← hl, bitsToBytes_bitsOfBytes cw _ hb]

end codewords

end Gzx.QRComp
