/-
  C01 composition, bit-stream layer: the data codewords the reference construction produces
  (`QRRef.terminate`: terminator, bit padding, pad codewords) read as a bit string are the payload followed
  by a tail on which the bit-stream parser stops (`Terminated`); the reference packings of `Gzx.QRRef`
  are the packings `Gzx.QRPack` of the decoder-side segment inverses.
-/
import Gzx.Proofs.QRCompRead
import Gzx.Proofs.QRSegments
import Gzx.Ref.QRPack
namespace Gzx.QRComp
open Gzx Gzx.QRDec

theorem rev_ind {α : Type} {P : List α → Prop} (h0 : P []) (hs : ∀ xs x, P xs → P (xs ++ [x])) : ∀ l, P l := by
  intro l
  rw [← List.reverse_reverse l]
  induction l.reverse with
  | nil => exact h0
  | cons x xs ih => rw [List.reverse_cons]; exact hs _ _ ih

theorem natOfBits_lt (bs : List Bool) : natOfBits bs < 2 ^ bs.length := by
  induction bs using rev_ind with
  | h0 => decide
  | hs xs b ih =>
    rw [natOfBits_append, List.length_append, List.length_singleton, Nat.pow_succ]
    cases b <;> simp <;> omega

theorem natToBits_natOfBits (bs : List Bool) : natToBits bs.length (natOfBits bs) = bs := by
  induction bs using rev_ind with
  | h0 => rfl
  | hs xs b ih =>
    rw [natOfBits_append, List.length_append, List.length_singleton]
    unfold natToBits
    have h1 : (2 * natOfBits xs + b.toNat) / 2 = natOfBits xs := by cases b <;> simp <;> omega
    have h2 : ((2 * natOfBits xs + b.toNat) % 2 == 1) = b := by cases b <;> simp <;> omega
    rw [h1, h2, ih]

theorem ofBitsBE_eq (bs : List Bool) : QRRef.ofBitsBE bs = natOfBits bs := rfl

/-- reading the packed bytes back as bits is the identity on bit strings of whole bytes -/
theorem bytesToBits_bytesOfBits : ∀ (k : Nat) (bs : List Bool), bs.length = 8 * k →
    bytesToBits (QRRef.bytesOfBits k bs) = bs := by
  intro k
  induction k with
  | zero => intro bs h; simp at h; subst h; rfl
  | succ k ih =>
    intro bs h
    cases bs with
    | nil => simp at h
    | cons b bs =>
      unfold QRRef.bytesOfBits
      unfold bytesToBits
      rw [List.flatMap_cons]
      have ht : ((b :: bs).take 8).length = 8 := by rw [List.length_take, h]; omega
      have := natToBits_natOfBits ((b :: bs).take 8)
      rw [ht] at this
      rw [ofBitsBE_eq, this]
      have ih' := ih ((b :: bs).drop 8) (by rw [List.length_drop, h]; omega)
      unfold bytesToBits at ih'
      rw [ih', List.take_append_drop]

theorem bytesOfBits_lt : ∀ (k : Nat) (bs : List Bool), ∀ x ∈ QRRef.bytesOfBits k bs, x < 256 := by
  intro k
  induction k with
  | zero => intro bs x hx; simp [QRRef.bytesOfBits] at hx
  | succ k ih =>
    intro bs x hx
    cases bs with
    | nil => simp [QRRef.bytesOfBits] at hx
    | cons b bs =>
      unfold QRRef.bytesOfBits at hx
      rcases List.mem_cons.mp hx with rfl | hx
      · have := natOfBits_lt ((b :: bs).take 8)
        have hl : ((b :: bs).take 8).length ≤ 8 := by rw [List.length_take]; omega
        rw [ofBitsBE_eq]
        exact Nat.lt_of_lt_of_le this (Nat.pow_le_pow_right (by omega) hl)
      · exact ih _ x hx

theorem padBytes_lt : ∀ (n : Nat), ∀ x ∈ QRRef.padBytes n, x < 256
  | 0, x, hx => by simp [QRRef.padBytes] at hx
  | 1, x, hx => by simp [QRRef.padBytes] at hx; omega
  | n + 2, x, hx => by
    unfold QRRef.padBytes at hx
    rcases List.mem_cons.mp hx with rfl | hx
    · decide
    · rcases List.mem_cons.mp hx with rfl | hx
      · decide
      · exact padBytes_lt n x hx

theorem bytesToBits_append (a b : List Nat) : bytesToBits (a ++ b) = bytesToBits a ++ bytesToBits b := by
  unfold bytesToBits; rw [List.flatMap_append]

/-- the data codewords are bytes -/
theorem terminate_lt (d : Nat) (bits : List Bool) : ∀ x ∈ QRRef.terminate d bits, x < 256 := by
  intro x hx
  unfold QRRef.terminate at hx
  simp only at hx
  rcases List.mem_append.mp hx with h | h
  · exact bytesOfBits_lt _ _ x h
  · exact padBytes_lt _ x h

/-- the data codewords as a bit string: the payload, then a tail the parser stops on -/
theorem terminate_stream (d : Nat) (bits : List Bool) (h : bits.length ≤ 8 * d) :
    ∃ tail, bytesToBits (QRRef.terminate d bits) = bits ++ tail ∧ Terminated tail := by
  unfold QRRef.terminate
  simp only
  generalize hb1 : bits ++ List.replicate (min 4 (8 * d - bits.length)) false = b1
  have hl1 : b1.length = bits.length + min 4 (8 * d - bits.length) := by
    rw [← hb1, List.length_append, List.length_replicate]
  generalize hb2 : b1 ++ List.replicate ((8 - b1.length % 8) % 8) false = b2
  have hl2 : b2.length = b1.length + (8 - b1.length % 8) % 8 := by
    rw [← hb2, List.length_append, List.length_replicate]
  have h8 : b2.length = 8 * (b2.length / 8) := by omega
  refine ⟨List.replicate (min 4 (8 * d - bits.length)) false ++
    (List.replicate ((8 - b1.length % 8) % 8) false ++
      bytesToBits (QRRef.padBytes (d - (QRRef.bytesOfBits (b2.length / 8) b2).length))), ?_, ?_⟩
  · rw [bytesToBits_append, bytesToBits_bytesOfBits _ _ h8, ← hb2, ← hb1]
    simp only [List.append_assoc]
  · by_cases h4 : 4 ≤ 8 * d - bits.length
    · left
      rw [Nat.min_eq_left h4]
      exact ⟨_, rfl⟩
    · right
      have ht : min 4 (8 * d - bits.length) = 8 * d - bits.length := Nat.min_eq_right (by omega)
      have hp : (8 - b1.length % 8) % 8 = 0 := by omega
      have hbl : (QRRef.bytesOfBits (b2.length / 8) b2).length = d := by
        rw [QRRef.bytesOfBits_length _ _ h8]; omega
      rw [hp, hbl, Nat.sub_self]
      simp [QRRef.padBytes, bytesToBits]
      omega

/-! ### the reference packings are the packings of the segment inverses -/

theorem packNumeric_eq : ∀ ds : List Nat, QRRef.packNumeric ds = QRPack.packNumeric ds
  | a :: b :: c :: rest => by
    unfold QRRef.packNumeric QRPack.packNumeric
    rw [toBitsBE_eq_natToBits, packNumeric_eq rest]
  | [a, b] => by unfold QRRef.packNumeric QRPack.packNumeric; rw [toBitsBE_eq_natToBits]
  | [a] => by unfold QRRef.packNumeric QRPack.packNumeric; rw [toBitsBE_eq_natToBits]
  | [] => rfl

theorem packAlnum_eq : ∀ cs : List Nat, QRRef.packAlnum cs = QRPack.packAlnum cs
  | a :: b :: rest => by
    unfold QRRef.packAlnum QRPack.packAlnum
    rw [toBitsBE_eq_natToBits, packAlnum_eq rest]
  | [a] => by unfold QRRef.packAlnum QRPack.packAlnum; rw [toBitsBE_eq_natToBits]
  | [] => rfl

theorem bitsOfBytes_eq (bs : List Nat) : QRRef.bitsOfBytes bs = QRPack.packBytes bs := by
  unfold QRRef.bitsOfBytes QRPack.packBytes
  congr 1
  funext b
  exact toBitsBE_eq_natToBits 8 b

theorem kanjiCode_eq (p : Nat × Nat) (h : kanjiPairOK p) :
    QRRef.kanjiCode p.1 p.2 = some (QRPack.kanjiValue p.1 p.2) := by
  obtain ⟨h1, h2, h3, h4⟩ := h
  unfold QRRef.kanjiCode QRPack.kanjiValue
  simp only
  rcases h1 with ⟨a, b⟩ | ⟨a, b⟩
  · have c1 : 0x8140 ≤ p.1 * 256 + p.2 ∧ p.1 * 256 + p.2 ≤ 0x9FFC := by omega
    rw [if_pos c1, if_pos (show p.1 ≤ 0x9F from b)]
    have e1 : (p.1 * 256 + p.2 - 0x8140) / 256 = p.1 - 0x81 := by omega
    have e2 : (p.1 * 256 + p.2 - 0x8140) % 256 = p.2 - 0x40 := by omega
    rw [e1, e2]
  · have c1 : ¬ (0x8140 ≤ p.1 * 256 + p.2 ∧ p.1 * 256 + p.2 ≤ 0x9FFC) := by omega
    have c2 : 0xE040 ≤ p.1 * 256 + p.2 ∧ p.1 * 256 + p.2 ≤ 0xEBBF := by omega
    rw [if_neg c1, if_pos c2, if_neg (show ¬ p.1 ≤ 0x9F by omega)]
    have e1 : (p.1 * 256 + p.2 - 0xC140) / 256 = p.1 - 0xC1 := by omega
    have e2 : (p.1 * 256 + p.2 - 0xC140) % 256 = p.2 - 0x40 := by omega
    rw [e1, e2]

theorem packKanji_eq : ∀ ps : List (Nat × Nat), (∀ p ∈ ps, kanjiPairOK p) →
    QRRef.packKanji (ps.flatMap (fun p => [p.1, p.2])) = some (QRPack.packKanji ps)
  | [], _ => rfl
  | p :: ps, h => by
    rw [List.flatMap_cons]
    show QRRef.packKanji (p.1 :: p.2 :: ps.flatMap (fun p => [p.1, p.2])) = _
    unfold QRRef.packKanji
    rw [kanjiCode_eq p (h p List.mem_cons_self), packKanji_eq ps (fun q hq => h q (List.mem_cons_of_mem _ hq))]
    simp only [bind, Option.bind, pure]
    obtain ⟨l, t⟩ := p
    simp only [QRPack.packKanji, toBitsBE_eq_natToBits]

theorem countBits_eq (v : Nat) :
    QRRef.countBits .numeric v = QRPack.countWidth 0 v ∧ QRRef.countBits .alnum v = QRPack.countWidth 1 v ∧
    QRRef.countBits .byte v = QRPack.countWidth 2 v ∧ QRRef.countBits .kanji v = QRPack.countWidth 3 v := by
  unfold QRRef.countBits QRPack.countWidth
  by_cases h9 : v ≤ 9 <;> by_cases h26 : v ≤ 26 <;> simp [h9, h26] <;> omega

/-! ### a content that fits the symbol also fits its character count indicator -/

theorem packNumeric_length : ∀ ds : List Nat,
    (QRRef.packNumeric ds).length =
      10 * (ds.length / 3) + (if ds.length % 3 = 0 then 0 else if ds.length % 3 = 1 then 4 else 7)
  | a :: b :: c :: rest => by
    unfold QRRef.packNumeric
    rw [List.length_append, QRRef.toBitsBE_length, packNumeric_length rest]
    simp only [List.length_cons]
    have e1 : (rest.length + 1 + 1 + 1) / 3 = rest.length / 3 + 1 := by omega
    have e2 : (rest.length + 1 + 1 + 1) % 3 = rest.length % 3 := by omega
    simp only [e1, e2]; omega
  | [a, b] => by unfold QRRef.packNumeric; rw [QRRef.toBitsBE_length]; simp
  | [a] => by unfold QRRef.packNumeric; rw [QRRef.toBitsBE_length]; simp
  | [] => rfl

theorem packAlnum_length : ∀ cs : List Nat,
    (QRRef.packAlnum cs).length = 11 * (cs.length / 2) + 6 * (cs.length % 2)
  | a :: b :: rest => by
    unfold QRRef.packAlnum
    rw [List.length_append, QRRef.toBitsBE_length, packAlnum_length rest]
    simp only [List.length_cons]
    have e1 : (rest.length + 1 + 1) / 2 = rest.length / 2 + 1 := by omega
    have e2 : (rest.length + 1 + 1) % 2 = rest.length % 2 := by omega
    rw [e1, e2]; omega
  | [a] => by unfold QRRef.packAlnum; rw [QRRef.toBitsBE_length]; simp
  | [] => rfl

theorem packKanji_length : ∀ ps : List (Nat × Nat), (QRPack.packKanji ps).length = 13 * ps.length
  | [] => rfl
  | (l, t) :: ps => by
    unfold QRPack.packKanji
    rw [List.length_append, natToBits_length, packKanji_length ps, List.length_cons]; omega

/-- for every (version, level) the data capacity bounds the number of characters of each mode below the
    range of that version's character count indicator (Table 3 is wide enough for Table 7) -/
def capOK (v : Nat) (ec : QRRef.EC) : Bool :=
  let dc := QRRef.dataCodewords v ec
  decide (3 * (8 * dc / 10) + 2 < 2 ^ QRRef.countBits .numeric v) &&
  decide (2 * (8 * dc / 11) + 1 < 2 ^ QRRef.countBits .alnum v) &&
  decide (dc < 2 ^ QRRef.countBits .byte v) &&
  decide (8 * dc / 13 < 2 ^ QRRef.countBits .kanji v)

theorem capOK_all : ∀ v ∈ List.range 40, ∀ ec ∈ QRRef.EC.all, capOK (v + 1) ec = true := by decide +kernel

theorem cap_facts (v : Nat) (h1 : 1 ≤ v) (h40 : v ≤ 40) (ec : QRRef.EC) :
    3 * (8 * QRRef.dataCodewords v ec / 10) + 2 < 2 ^ QRRef.countBits .numeric v ∧
    2 * (8 * QRRef.dataCodewords v ec / 11) + 1 < 2 ^ QRRef.countBits .alnum v ∧
    QRRef.dataCodewords v ec < 2 ^ QRRef.countBits .byte v ∧
    8 * QRRef.dataCodewords v ec / 13 < 2 ^ QRRef.countBits .kanji v := by
  have h := capOK_all (v - 1) (List.mem_range.mpr (by omega)) ec (by cases ec <;> decide)
  rw [show v - 1 + 1 = v by omega] at h
  unfold capOK at h
  simpa only [Bool.and_eq_true, decide_eq_true_eq, and_assoc] using h

end Gzx.QRComp
