/-
  C05 composition: the decoder model on the reference symbol whose codeword modules carry a RECEIVED
  codeword stream — the interleaving of received blocks that have the shape of the written blocks and differ
  from them in at most ⌊ecPerBlock/2⌋ codewords each — returns what the undamaged symbol returns.
  Reed-Solomon correction is C04's `rs_corrects` over the QR field (`QRComp.rsQR_corrects`).
-/
import Gzx.Proofs.QRCompBlocks
import Gzx.Proofs.QRCompStream
namespace Gzx.QRComp
open Gzx Gzx.QRDec Gzx.ECI

/-- composition skeleton of `Decoder.Decode` (first attempt succeeds) -/
theorem decode_layers (T : Tables) (rs : List Nat → Nat → Res (List Nat)) (hint : Hint) (m : Matrix)
    (hdim : ¬ (m.dim < 21 ∨ m.dim % 4 ≠ 1))
    (v : VersionInfo) (p1 : Parser) (h_version : readVersion T { m := m } = .ok (v, p1))
    (fi : EC × Nat) (p2 : Parser) (h_format : readFormatInformation T p1 = .ok (fi, p2))
    (raw : List Nat) (p3 : Parser) (h_place : readCodewords T p2 = (.ok raw, p3))
    (blocks : List (Nat × List Nat)) (h_deint : getDataBlocks raw v fi.1 = .ok blocks)
    (data : List Nat) (h_rs : correctBlocks rs blocks = .ok data)
    (parsed : Parsed) (h_parse : parse T.eci data v.num hint = .ok parsed) :
    decode T rs hint m = .ok ⟨parsed, fi.1, v.num, data, false⟩ := by
  unfold decode newParser
  simp only [hdim, if_false]
  unfold decodeOnce
  simp only [h_version, h_format, h_place, h_deint, wrapF, bind, Except.bind, h_rs, h_parse]

theorem zip_shape {α : Type} {B B' : List α} {f : α → Nat × Nat} (h : B'.map f = B.map f) (p : α × α)
    (hp : p ∈ B.zip B') : f p.2 = f p.1 := by
  obtain ⟨i, hi⟩ := List.getElem?_of_mem hp
  rw [List.getElem?_zip_eq_some] at hi
  have h1 := congrArg (fun l => l[i]?) h
  simp only [List.getElem?_map, hi.1, hi.2, Option.map_some] at h1
  exact Option.some.inj h1

/-- received blocks: same shape as the written blocks, bytes, at most ⌊e/2⌋ wrong codewords per block -/
structure Received (v : Nat) (ec : QRRef.EC) (data : List Nat) (recv : List (List Nat × List Nat)) : Prop where
  shape : recv.map (fun b => (b.1.length, b.2.length)) =
    (refBlocks v ec data).map (fun b => (b.1.length, b.2.length))
  bytes : ∀ b ∈ recv, ∀ x ∈ b.1 ++ b.2, x < 256
  errors : ∀ p ∈ (refBlocks v ec data).zip recv,
    2 * Gzx.Properties.C04.hamming (p.1.1 ++ p.1.2) (p.2.1 ++ p.2.2) ≤ QRRef.ecPerBlock v ec

theorem decode_received (T : Tables) (hT : TablesConform T) (hint : Hint) (v : Nat) (h1 : 1 ≤ v) (h40 : v ≤ 40)
    (ec : QRRef.EC) (mask : Nat) (hm : mask < 8) (bits : List Bool)
    (hfit : bits.length ≤ 8 * QRRef.dataCodewords v ec) (parsed : Parsed)
    (hparse : ∀ tail, Terminated tail → parseStream T.eci (bits ++ tail) v hint = .ok parsed)
    (recv : List (List Nat × List Nat))
    (hrecv : Received v ec (QRRef.terminate (QRRef.dataCodewords v ec) bits) recv) :
    decode T rsQR hint (matrixOf (QRRef.refMatrix v ec mask (QRDec.interleave recv))) =
      .ok ⟨parsed, toDecEC ec, v, QRRef.terminate (QRRef.dataCodewords v ec) bits, false⟩ := by
  revert hrecv
  generalize hdata : QRRef.terminate (QRRef.dataCodewords v ec) bits = data
  intro hrecv
  have hd : data.length = QRRef.dataCodewords v ec := by
    rw [← hdata]; exact QRRef.terminate_length _ _ hfit
  have hb : ∀ x ∈ data, x < 256 := by rw [← hdata]; exact terminate_lt _ _
  obtain ⟨s, l, q, hs, hq, h255, hlens, hpar, eb, heb, hec, hshape0, htot0⟩ :=
    refBlocks_structure v h1 h40 ec data hd
  -- shapes of the received blocks
  have hl1 : recv.map (fun b => b.1.length) = (refBlocks v ec data).map (fun b => b.1.length) := by
    have := congrArg (List.map Prod.fst) hrecv.shape
    simpa only [List.map_map, Function.comp_def] using this
  have hl2 : recv.map (fun b => b.2.length) = (refBlocks v ec data).map (fun b => b.2.length) := by
    have := congrArg (List.map Prod.snd) hrecv.shape
    simpa only [List.map_map, Function.comp_def] using this
  have hlenB : recv.length = (refBlocks v ec data).length := by
    have := congrArg List.length hl1; simpa using this
  have hpar' : ∀ b ∈ recv, b.2.length = QRRef.ecPerBlock v ec := by
    intro b hbm
    have : b.2.length ∈ recv.map (fun b => b.2.length) := List.mem_map_of_mem (f := fun b => b.2.length) hbm
    rw [hl2] at this
    obtain ⟨b0, hb0, hb0e⟩ := List.mem_map.mp this
    rw [← hb0e]; exact hpar b0 hb0
  -- short/long structure of written and received blocks
  have w := shortLong_of_lengths _ s l q _ hs hlens hpar
  have w' := shortLong_of_lengths recv s l q _ hs (by rw [hl1, hlens]) hpar'
  have hsplit' : recv = recv.take s ++ recv.drop s := (List.take_append_drop _ _).symm
  have hsplit : refBlocks v ec data = (refBlocks v ec data).take s ++ (refBlocks v ec data).drop s :=
    (List.take_append_drop _ _).symm
  have hlenI : (QRDec.interleave recv).length = (QRDec.interleave (refBlocks v ec data)).length := by
    rw [hsplit', hsplit, interleave_length w, interleave_length w', ← hsplit', ← hsplit, hlenB,
      List.length_drop, List.length_drop, hlenB]
  have hl : (QRDec.interleave recv).length = QRRef.totalCodewords v := by
    rw [hlenI, ← htot0, refVersion_total v h1 h40]
  have hcb : ∀ x ∈ QRDec.interleave recv, x < 256 := by
    intro x hx
    obtain ⟨b, hbm, hxb⟩ := mem_interleave recv x hx
    exact hrecv.bytes b hbm x (List.mem_append.mpr hxb)
  have hdim : ¬ ((sym v ec mask (QRDec.interleave recv)).dim < 21 ∨
      (sym v ec mask (QRDec.interleave recv)).dim % 4 ≠ 1) := by
    rw [matrixOf_dim]; omega
  have hplace := readCodewords_ref v h1 h40 ec mask _ hl hcb T hT
  have hshape' : blockShapes eb =
      (recv.take s ++ recv.drop s).map (fun b => (b.1.length, QRRef.ecPerBlock v ec + b.1.length)) := by
    rw [hshape0, ← hlens, ← hl1, ← hsplit', List.map_map]; rfl
  have htot' : (refVersion v).totalCodewords = (QRDec.interleave (recv.take s ++ recv.drop s)).length := by
    rw [← hsplit', hlenI]; exact htot0
  have hde := QRDec.interleave_deinterleave w' (refVersion v) (toDecEC ec) eb heb hec hshape' htot'
  rw [← hsplit'] at hde
  refine decode_layers T rsQR hint (sym v ec mask (QRDec.interleave recv)) hdim (refVersion v) _
    (readVersion_ref v h1 h40 ec mask _ T hT) (toDecEC ec, mask) _ (readFormat_ref v h1 h40 ec mask _ T hT hm)
    (QRDec.interleave recv) _ (Prod.ext hplace rfl) _ hde data ?_ parsed ?_
  · have hflat : (refBlocks v ec data).flatMap (·.1) = data := refBlocks_data v h1 h40 ec data hd
    rw [← hflat]
    apply correctBlocks_map rsQR (refBlocks v ec data) recv hlenB.symm
    intro p hp
    have hsh := zip_shape hrecv.shape p hp
    simp only [Prod.mk.injEq] at hsh
    refine ⟨hsh.1, ?_⟩
    have hmem : p.1 ∈ refBlocks v ec data := (List.of_mem_zip hp).1
    have hmem' : p.2 ∈ recv := (List.of_mem_zip hp).2
    obtain ⟨hparity, hne, hbytes, hecm⟩ := refBlocks_mem v h1 h40 ec data hd hb p.1 hmem
    have hp2 : p.2.2.length = QRRef.ecPerBlock v ec := hpar' p.2 hmem'
    have hlen : (p.2.1 ++ p.2.2).length - p.2.1.length = QRRef.ecPerBlock v ec := by simp [hp2]
    have hq1 : p.1.1.length ≤ q + 1 := by
      have : p.1.1.length ∈ (refBlocks v ec data).map (fun b => b.1.length) :=
        List.mem_map_of_mem (f := fun b => b.1.length) hmem
      rw [hlens] at this
      rcases List.mem_append.mp this with h | h
      · rw [(List.mem_replicate.mp h).2]; omega
      · rw [(List.mem_replicate.mp h).2]; omega
    have herr := hrecv.errors p hp
    rw [hparity] at herr ⊢
    rw [hlen]
    exact rsQR_corrects _ hecm p.1.1 hne hbytes (by omega) (p.2.1 ++ p.2.2)
      (by rw [List.length_append, hsh.1, hp2]) (hrecv.bytes p.2 hmem') herr
  · unfold parse
    obtain ⟨tail, hbits, hterm⟩ := terminate_stream (QRRef.dataCodewords v ec) bits hfit
    rw [← hdata, hbits]
    exact hparse tail hterm

end Gzx.QRComp
