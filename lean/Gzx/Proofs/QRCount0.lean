/- data-module count of versions v ≡ 0 (mod 8): the grid count equals the geometry formula (kernel evaluation, one theorem per version) -/
import Gzx.Proofs.QRZigzag
set_option maxRecDepth 1000000
namespace Gzx.QRRef.Count
theorem dataCount_8 : dataCount 8 = rawDataModules 8 := by decide +kernel
theorem dataCount_16 : dataCount 16 = rawDataModules 16 := by decide +kernel
theorem dataCount_24 : dataCount 24 = rawDataModules 24 := by decide +kernel
theorem dataCount_32 : dataCount 32 = rawDataModules 32 := by decide +kernel
theorem dataCount_40 : dataCount 40 = rawDataModules 40 := by decide +kernel
end Gzx.QRRef.Count
