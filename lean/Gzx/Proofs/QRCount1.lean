/- data-module count of versions v ≡ 1 (mod 8): the grid count equals the geometry formula (kernel evaluation, one theorem per version) -/
import Gzx.Proofs.QRZigzag
set_option maxRecDepth 1000000
namespace Gzx.QRRef.Count
theorem dataCount_1 : dataCount 1 = rawDataModules 1 := by decide +kernel
theorem dataCount_9 : dataCount 9 = rawDataModules 9 := by decide +kernel
theorem dataCount_17 : dataCount 17 = rawDataModules 17 := by decide +kernel
theorem dataCount_25 : dataCount 25 = rawDataModules 25 := by decide +kernel
theorem dataCount_33 : dataCount 33 = rawDataModules 33 := by decide +kernel
end Gzx.QRRef.Count
