/- data-module count of versions v ≡ 2 (mod 8): the grid count equals the geometry formula (kernel evaluation, one theorem per version) -/
import Gzx.Proofs.QRZigzag
set_option maxRecDepth 1000000
namespace Gzx.QRRef.Count
theorem dataCount_2 : dataCount 2 = rawDataModules 2 := by decide +kernel
theorem dataCount_10 : dataCount 10 = rawDataModules 10 := by decide +kernel
theorem dataCount_18 : dataCount 18 = rawDataModules 18 := by decide +kernel
theorem dataCount_26 : dataCount 26 = rawDataModules 26 := by decide +kernel
theorem dataCount_34 : dataCount 34 = rawDataModules 34 := by decide +kernel
end Gzx.QRRef.Count
