/- data-module count of versions v ≡ 3 (mod 8): the grid count equals the geometry formula (kernel evaluation, one theorem per version) -/
import Gzx.Proofs.QRZigzag
set_option maxRecDepth 1000000
namespace Gzx.QRRef.Count
theorem dataCount_3 : dataCount 3 = rawDataModules 3 := by decide +kernel
theorem dataCount_11 : dataCount 11 = rawDataModules 11 := by decide +kernel
theorem dataCount_19 : dataCount 19 = rawDataModules 19 := by decide +kernel
theorem dataCount_27 : dataCount 27 = rawDataModules 27 := by decide +kernel
theorem dataCount_35 : dataCount 35 = rawDataModules 35 := by decide +kernel
end Gzx.QRRef.Count
