/- data-module count of versions v ≡ 4 (mod 8): the grid count equals the geometry formula (kernel evaluation, one theorem per version) -/
import Gzx.Proofs.QRZigzag
set_option maxRecDepth 1000000
namespace Gzx.QRRef.Count
theorem dataCount_4 : dataCount 4 = rawDataModules 4 := by decide +kernel
theorem dataCount_12 : dataCount 12 = rawDataModules 12 := by decide +kernel
theorem dataCount_20 : dataCount 20 = rawDataModules 20 := by decide +kernel
theorem dataCount_28 : dataCount 28 = rawDataModules 28 := by decide +kernel
theorem dataCount_36 : dataCount 36 = rawDataModules 36 := by decide +kernel
end Gzx.QRRef.Count
