/- data-module count of versions v ≡ 5 (mod 8): the grid count equals the geometry formula (kernel evaluation, one theorem per version) -/
import Gzx.Proofs.QRZigzag
set_option maxRecDepth 1000000
namespace Gzx.QRRef.Count
theorem dataCount_5 : dataCount 5 = rawDataModules 5 := by decide +kernel
theorem dataCount_13 : dataCount 13 = rawDataModules 13 := by decide +kernel
theorem dataCount_21 : dataCount 21 = rawDataModules 21 := by decide +kernel
theorem dataCount_29 : dataCount 29 = rawDataModules 29 := by decide +kernel
theorem dataCount_37 : dataCount 37 = rawDataModules 37 := by decide +kernel
end Gzx.QRRef.Count
