/- data-module count of versions v ≡ 6 (mod 8): the grid count equals the geometry formula (kernel evaluation, one theorem per version) -/
import Gzx.Proofs.QRZigzag
set_option maxRecDepth 1000000
namespace Gzx.QRRef.Count
theorem dataCount_6 : dataCount 6 = rawDataModules 6 := by decide +kernel
theorem dataCount_14 : dataCount 14 = rawDataModules 14 := by decide +kernel
theorem dataCount_22 : dataCount 22 = rawDataModules 22 := by decide +kernel
theorem dataCount_30 : dataCount 30 = rawDataModules 30 := by decide +kernel
theorem dataCount_38 : dataCount 38 = rawDataModules 38 := by decide +kernel
end Gzx.QRRef.Count
