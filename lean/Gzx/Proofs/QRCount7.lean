/- data-module count of versions v ≡ 7 (mod 8): the grid count equals the geometry formula (kernel evaluation, one theorem per version) -/
import Gzx.Proofs.QRZigzag
set_option maxRecDepth 1000000
namespace Gzx.QRRef.Count
theorem dataCount_7 : dataCount 7 = rawDataModules 7 := by decide +kernel
theorem dataCount_15 : dataCount 15 = rawDataModules 15 := by decide +kernel
theorem dataCount_23 : dataCount 23 = rawDataModules 23 := by decide +kernel
theorem dataCount_31 : dataCount 31 = rawDataModules 31 := by decide +kernel
theorem dataCount_39 : dataCount 39 = rawDataModules 39 := by decide +kernel
end Gzx.QRRef.Count
