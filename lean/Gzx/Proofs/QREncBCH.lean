/-
  wp `qrenc` — the coded BCH division (`calculateBCHCode` with `findMSBSet`) and the type / version
  information bit vectors equal the reference BCH(15,5) / BCH(18,6) words (finite domains, kernel evaluation).
-/
import Gzx.Model.QREncMatrix
namespace Gzx.QREnc
open Gzx Gzx.QRRef

/-- the shift-and-xor division loop computes the BCH(15,5) check bits for all 32 data values -/
theorem bch15_all : ∀ d ∈ List.range 32, calculateBCHCode d typeInfoPoly = .ok (bch15 d) := by decide +kernel

/-- … and the BCH(18,6) check bits for every six-bit value (versions 7..40 among them) -/
theorem bch18_all : ∀ v ∈ List.range 64, calculateBCHCode v versionInfoPoly = .ok (bch18 v) := by decide +kernel

/-- `makeTypeInfoBits`: the 15 bits, most significant first, of the masked format word -/
theorem typeInfoBits_all : ∀ ec ∈ EC.all, ∀ k ∈ List.range 8,
    makeTypeInfoBits ec ((k : Nat) : Int) = .ok (toBitsBE 15 (formatWord ec k)) := by decide +kernel

/-- `makeVersionInfoBits`: the 18 bits, most significant first, of the version word -/
theorem versionInfoBits_all : ∀ v ∈ List.range 34,
    makeVersionInfoBits (v + 7) = .ok (toBitsBE 18 (versionWord (v + 7))) := by decide +kernel

theorem typeInfoBits_invalid (ec : EC) (k : Int) (h : k < 0 ∨ 8 ≤ k) : makeTypeInfoBits ec k = .error .writer := by
  unfold makeTypeInfoBits isValidMaskPattern
  have : (decide (k ≥ 0) && decide (k < 8)) = false := by
    rcases h with h | h
    · have : ¬ k ≥ 0 := by omega
      simp [this]
    · have : ¬ k < 8 := by omega
      simp [this]
  simp [this, bind, Except.bind]

theorem findMSBSet_examples : findMSBSet 0 = 0 ∧ findMSBSet 1 = 1 ∧ findMSBSet 255 = 8 ∧ findMSBSet 0x1f25 = 13 := by
  decide

end Gzx.QREnc
