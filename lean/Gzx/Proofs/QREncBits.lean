/-
  wp `qrenc` — lemmas about the bit-array operations of the mirror model (`Gzx.QREnc`) and the proof that the
  coded `terminateBits` loops compute the reference `QRRef.terminate`.
-/
import Gzx.Model.QREncMirror
import Gzx.Proofs.QRCompStream
namespace Gzx.QREnc
open Gzx Gzx.QRRef

/-! ### AppendBits -/

theorem testBitI_nat (n k : Nat) : testBitI (n : Int) k = n.testBit k := by
  unfold testBitI
  rw [Int.shiftRight_eq_div_pow, Nat.testBit_eq_decide_div_mod_eq]
  have h : ((n : Int) / ((2 ^ k : Nat) : Int)) % 2 = (((n / 2 ^ k) % 2 : Nat) : Int) := by
    omega
  rw [h]
  rcases Nat.mod_two_eq_zero_or_one (n / 2 ^ k) with h0 | h1
  · rw [h0]; simp
  · rw [h1]; simp

theorem appendBits_nat (v w : Nat) (hw : w ≤ 32) (bits : Bits) :
    appendBits (v : Int) (w : Int) bits = .ok (bits ++ toBitsBE w v) := by
  unfold appendBits
  have h1 : ¬ ((w : Int) < 0 ∨ (w : Int) > 32) := by omega
  rw [if_neg h1]
  simp only [Int.toNat_natCast, testBitI_nat]
  rfl

theorem appendBitsIgn_nat (v w : Nat) (hw : w ≤ 32) (bits : Bits) :
    appendBitsIgn (v : Int) (w : Int) bits = bits ++ toBitsBE w v := by
  unfold appendBitsIgn
  rw [appendBits_nat v w hw]

theorem appendBitsIgn_byte (b : Nat) (bits : Bits) : appendBitsIgn (b : Int) 8 bits = bits ++ toBitsBE 8 b :=
  appendBitsIgn_nat b 8 (by omega) bits

/-! ### bytes and bits -/

theorem bitsOfBytes_append (a b : List Nat) : bitsOfBytes (a ++ b) = bitsOfBytes a ++ bitsOfBytes b := by
  unfold bitsOfBytes; rw [List.flatMap_append]

theorem bitsOfBytes_bytesOfBits (k : Nat) (bs : List Bool) (h : bs.length = 8 * k) :
    bitsOfBytes (bytesOfBits k bs) = bs := by
  rw [QRComp.bitsOfBytes_eq]
  exact QRComp.bytesToBits_bytesOfBits k bs h

theorem padBytes_succ (n : Nat) : padBytes (n + 1) = padBytes n ++ [if n % 2 = 0 then 0xEC else 0x11] := by
  have : ∀ n, (padBytes (n + 1) = padBytes n ++ [if n % 2 = 0 then 0xEC else 0x11]) ∧
      (padBytes (n + 2) = padBytes (n + 1) ++ [if (n + 1) % 2 = 0 then 0xEC else 0x11]) := by
    intro n
    induction n using Nat.strongRecOn with
    | _ n ih =>
      match n with
      | 0 => exact ⟨rfl, rfl⟩
      | 1 => exact ⟨rfl, rfl⟩
      | n + 2 =>
        have h := ih n (by omega)
        constructor
        · show 0xEC :: 0x11 :: padBytes (n + 1) = (0xEC :: 0x11 :: padBytes n) ++ _
          rw [h.1]
          have : (n + 2) % 2 = n % 2 := by omega
          rw [this]; rfl
        · show 0xEC :: 0x11 :: padBytes (n + 2) = (0xEC :: 0x11 :: padBytes (n + 1)) ++ _
          rw [h.2]
          have : (n + 2 + 1) % 2 = (n + 1) % 2 := by omega
          rw [this]; rfl
  exact (this n).1

/-! ### the three loops of terminateBits -/

theorem term_loop1 (cap : Int) : ∀ (k : Nat) (bits : Bits), (bits.length : Int) ≤ cap →
    (List.range k).foldl (fun (bits : Bits) _ => if (bits.length : Int) < cap then bits ++ [false] else bits) bits =
      bits ++ List.replicate (min k (cap - bits.length).toNat) false := by
  intro k
  induction k with
  | zero => intro bits _; simp
  | succ k ih =>
    intro bits h
    rw [List.range_succ, List.foldl_append, ih bits h]
    simp only [List.foldl_cons, List.foldl_nil, List.length_append, List.length_replicate]
    by_cases hk : k < (cap - bits.length).toNat
    · have h1 : min k (cap - (bits.length : Int)).toNat = k := Nat.min_eq_left (by omega)
      have h2 : min (k + 1) (cap - (bits.length : Int)).toNat = k + 1 := Nat.min_eq_left (by omega)
      rw [h1, h2]
      have : ((bits.length + k : Nat) : Int) < cap := by omega
      rw [if_pos this, List.append_assoc, ← List.replicate_succ']
    · have h1 : min k (cap - (bits.length : Int)).toNat = (cap - (bits.length : Int)).toNat := Nat.min_eq_right (by omega)
      have h2 : min (k + 1) (cap - (bits.length : Int)).toNat = (cap - (bits.length : Int)).toNat := Nat.min_eq_right (by omega)
      rw [h1, h2]
      have : ¬ ((bits.length + (cap - (bits.length : Int)).toNat : Nat) : Int) < cap := by omega
      rw [if_neg this]

theorem term_loop2 : ∀ (k : Nat) (bits : Bits),
    (List.range k).foldl (fun (bits : Bits) _ => bits ++ [false]) bits = bits ++ List.replicate k false := by
  intro k
  induction k with
  | zero => intro bits; simp
  | succ k ih =>
    intro bits
    rw [List.range_succ, List.foldl_append, ih bits]
    simp only [List.foldl_cons, List.foldl_nil]
    rw [List.append_assoc, ← List.replicate_succ']

theorem term_loop3 : ∀ (k : Nat) (bits : Bits),
    (List.range k).foldl (fun (bits : Bits) i => appendBitsIgn (if i % 2 = 0 then 0xEC else 0x11) 8 bits) bits =
      bits ++ bitsOfBytes (padBytes k) := by
  intro k
  induction k with
  | zero => intro bits; simp [padBytes, bitsOfBytes]
  | succ k ih =>
    intro bits
    rw [List.range_succ, List.foldl_append, ih bits]
    simp only [List.foldl_cons, List.foldl_nil]
    rw [padBytes_succ, bitsOfBytes_append, ← List.append_assoc]
    congr 1
    by_cases hk : k % 2 = 0
    · simp only [hk, if_true]
      exact appendBitsIgn_byte 0xEC _
    · simp only [hk, if_false]
      exact appendBitsIgn_byte 0x11 _

/-- `terminateBits` on a payload that fits: exactly the reference data codewords, as bits -/
theorem terminateBits_eq (d : Nat) (bits : Bits) (h : bits.length ≤ 8 * d) :
    terminateBits (d : Int) bits = .ok (bitsOfBytes (terminate d bits)) := by
  unfold terminateBits terminate
  have hcap : ¬ ((bits.length : Int) > (d : Int) * 8) := by omega
  simp only [hcap, if_false, bind, Except.bind, pure, Except.pure]
  rw [term_loop1 ((d : Int) * 8) 4 bits (by omega)]
  have hmin : min 4 ((d : Int) * 8 - (bits.length : Int)).toNat = min 4 (8 * d - bits.length) := by omega
  rw [hmin]
  generalize hb1 : bits ++ List.replicate (min 4 (8 * d - bits.length)) false = b1
  have hl1 : b1.length = bits.length + min 4 (8 * d - bits.length) := by
    rw [← hb1, List.length_append, List.length_replicate]
  have hb2' : (if b1.length % 8 > 0 then (List.range (8 - b1.length % 8)).foldl (fun (bits : Bits) _ => bits ++ [false]) b1 else b1)
      = b1 ++ List.replicate ((8 - b1.length % 8) % 8) false := by
    by_cases hr : b1.length % 8 > 0
    · rw [if_pos hr, term_loop2]
      have : (8 - b1.length % 8) % 8 = 8 - b1.length % 8 := by omega
      rw [this]
    · rw [if_neg hr]
      have : (8 - b1.length % 8) % 8 = 0 := by omega
      rw [this]; simp
  rw [hb2']
  generalize hb2 : b1 ++ List.replicate ((8 - b1.length % 8) % 8) false = b2
  have hl2 : b2.length = b1.length + (8 - b1.length % 8) % 8 := by
    rw [← hb2, List.length_append, List.length_replicate]
  have h8 : b2.length = 8 * (b2.length / 8) := by omega
  have hsz : sizeInBytes b2 = ((b2.length / 8 : Nat) : Int) := by
    unfold sizeInBytes
    congr 1
    omega
  rw [hsz, term_loop3]
  have hpad : ((d : Int) - ((b2.length / 8 : Nat) : Int)).toNat = d - (bytesOfBits (b2.length / 8) b2).length := by
    rw [bytesOfBits_length _ _ h8]; omega
  rw [hpad, bitsOfBytes_append, bitsOfBytes_bytesOfBits _ _ h8]
  have hlen : ((b2 ++ bitsOfBytes (padBytes (d - (bytesOfBits (b2.length / 8) b2).length))).length : Int) = (d : Int) * 8 := by
    rw [List.length_append, bitsOfBytes_length, padBytes_length, bytesOfBits_length _ _ h8]
    omega
  rw [if_neg (by rw [hlen]; simp)]

/-- a payload beyond the capacity is refused -/
theorem terminateBits_refuses (d : Int) (bits : Bits) (h : (bits.length : Int) > d * 8) :
    terminateBits d bits = .error .writer := by
  unfold terminateBits
  simp only [h, if_true, bind, Except.bind]

end Gzx.QREnc
