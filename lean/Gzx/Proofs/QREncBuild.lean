/-
  wp `qrenc` — `MatrixUtil_buildMatrix` of the mirror model = the reference matrix, from the per-version facts
  `FuncOK v` (function patterns) and `OrderOK v` (visit order).
-/
import Gzx.Proofs.QREncStage
import Gzx.Proofs.QREncData
import Gzx.Proofs.QRMatrix
namespace Gzx.QREnc
open Gzx Gzx.QRRef

/-- the reference symbol as a ByteMatrix (dark = 1, light = 0) -/
def refByteMatrix (v : Nat) (ec : EC) (mask : Nat) (cw : List Nat) : ByteMatrix :=
  ⟨(refMatrix v ec mask cw).map (fun r => r.map b2i), dimension v, dimension v⟩

theorem refByteMatrix_wfm (v : Nat) (ec : EC) (mask : Nat) (cw : List Nat) :
    WFM (dimension v) (refByteMatrix v ec mask cw) := by
  refine ⟨rfl, rfl, ?_, ?_⟩
  · simp [refByteMatrix, refMatrix_eq_spec, specMatrix]
  · intro r hr
    simp only [refByteMatrix, refMatrix_eq_spec, specMatrix, List.map_map, List.mem_map, List.mem_range] at hr
    obtain ⟨y, _, rfl⟩ := hr
    simp

theorem refByteMatrix_cell (v : Nat) (ec : EC) (mask : Nat) (cw : List Nat) (x y : Nat)
    (hx : x < dimension v) (hy : y < dimension v) :
    cell (refByteMatrix v ec mask cw) x y = b2i (moduleAt v ec mask cw x y) := by
  unfold cell refByteMatrix
  rw [refMatrix_eq_spec]
  unfold specMatrix
  simp [List.getD_eq_getElem?_getD, List.getElem?_map, List.getElem?_range, hx, hy]

/-- well-formed matrices with the same cells are equal -/
theorem wfm_ext {n : Nat} {a b : ByteMatrix} (ha : WFM n a) (hb : WFM n b)
    (h : ∀ x y, x < n → y < n → cell a x y = cell b x y) : a = b := by
  have hbytes : a.bytes = b.bytes := by
    apply List.ext_getElem
    · rw [ha.rows, hb.rows]
    · intro y h1 h2
      have hy : y < n := by rw [← ha.rows]; exact h1
      apply List.ext_getElem
      · rw [ha.cols _ (List.getElem_mem h1), hb.cols _ (List.getElem_mem h2)]
      · intro x hx1 hx2
        have hx : x < n := by rw [← ha.cols _ (List.getElem_mem h1)]; exact hx1
        have := h x y hx hy
        unfold cell at this
        simpa [List.getD_eq_getElem?_getD, List.getElem?_eq_getElem h1, List.getElem?_eq_getElem h2,
          List.getElem?_eq_getElem hx1, List.getElem?_eq_getElem hx2] using this
  cases a with
  | mk ab aw ah =>
    cases b with
    | mk bb bw bh =>
      have h1 := ha.w; have h2 := ha.h; have h3 := hb.w; have h4 := hb.h
      simp only at hbytes h1 h2 h3 h4
      subst hbytes
      rw [h1, h2, h3, h4]

theorem b2i_ne_neg1 (b : Bool) : b2i b ≠ -1 := by cases b <;> simp [b2i]

/-- the empty modules of the function-stage matrix along the visit order are the standard's data modules -/
theorem empties_funcMatrix (v : Nat) (ec : EC) (mask : Nat) :
    empties (funcMatrix v ec mask) (zigzagAll (dimension v)) = zigzag v := by
  unfold empties zigzag
  apply List.filter_congr
  intro c hc
  have hr := (mem_zigzagAll (odd_dimension v) (dimension_ge v)).mp (by rw [Prod.eta]; exact hc : (c.1, c.2) ∈ _)
  rw [funcMatrix_cell v ec mask c.1 c.2 hr.1 hr.2.1]
  cases hfn : isFunction v c.1 c.2
  · simp
  · have := b2i_ne_neg1 (functionModule v ec mask c.1 c.2)
    simp [this]

theorem streamBits_getElem (v : Nat) (cw : List Nat) (i : Nat) (hi : i < (streamBits v cw).length) :
    (streamBits v cw)[i] = (bitsOfBytes cw).getD i false := by
  have h2 : (streamBits v cw)[i]? = some ((bitsOfBytes cw).getD i false) := by
    unfold streamBits at hi ⊢
    rw [List.getElem?_append]
    by_cases h : i < (bitsOfBytes cw).length
    · simp [h, List.getD_eq_getElem?_getD]
    · rw [List.length_append, List.length_replicate] at hi
      simp only [h, if_false, List.getD_eq_getElem?_getD, List.getElem?_eq_none (by omega : (bitsOfBytes cw).length ≤ i),
        Option.getD_none, List.getElem?_replicate]
      rw [if_pos (by omega)]
  rw [List.getElem?_eq_getElem hi] at h2
  exact Option.some.inj h2

/-- `MatrixUtil_buildMatrix` on any well-sized matrix, for a codeword stream that fits the data modules -/
theorem buildMatrix_eq_ref {K : Kernels} (hK : KernelsOK K) (v : Nat) (h1 : 1 ≤ v) (h40 : v ≤ 40)
    (hf : FuncOK v) (ho : OrderOK v) (ec : EC) (mask : Nat) (hk : mask < 8) (cw : List Nat)
    (hlen : (bitsOfBytes cw).length ≤ (zigzag v).length) (m0 : ByteMatrix) (hm0 : WFM (dimension v) m0) :
    buildMatrix K (bitsOfBytes cw) ec v (mask : Int) m0 = .ok (refByteMatrix v ec mask cw) := by
  have hstage := functionStage_eq v h1 h40 hf ec mask hk
  unfold functionStage at hstage
  unfold buildMatrix
  rw [clear_wfm hm0]
  simp only [bind, Except.bind] at hstage ⊢
  -- peel the three function-pattern steps
  cases hb : embedBasicPatterns (v : Int) (emptyMatrix (dimension v)) with
  | error e => rw [hb] at hstage; simp at hstage
  | ok B =>
    rw [hb] at hstage
    simp only at hstage ⊢
    cases ht : embedTypeInfo ec (mask : Int) B with
    | error e => rw [ht] at hstage; simp at hstage
    | ok T =>
      rw [ht] at hstage
      simp only at hstage ⊢
      rw [hstage]
      simp only
      -- data bits
      have hF := funcMatrix_wfm v ec mask
      change (embedDataBits K (bitsOfBytes cw) (mask : Int) (funcMatrix v ec mask)) = _
      unfold embedDataBits
      rw [hF.w, hF.h]
      unfold OrderOK at ho
      rw [zigzagLoop_eq _ _ _ _ _ ho]
      unfold refOrder
      have hrange : ∀ c ∈ zigzagAll (dimension v), c.1 < dimension v ∧ c.2 < dimension v := by
        intro c hc
        have := (mem_zigzagAll (odd_dimension v) (dimension_ge v)).mp (by rw [Prod.eta]; exact hc : (c.1, c.2) ∈ _)
        exact ⟨this.1, this.2.1⟩
      rw [stepAll_nat hK (bitsOfBytes cw) mask hk (zigzagAll (dimension v)) (funcMatrix v ec mask, 0) hF hrange]
      obtain ⟨hw, hkk, hcells, hother⟩ := placeFold (bitsOfBytes cw) mask (zigzagAll (dimension v))
        (funcMatrix v ec mask) 0 hF (nodup_zigzagAll (odd_dimension v)) hrange (Nat.zero_le _)
      rw [empties_funcMatrix] at hkk hcells hother
      simp only [bind, Except.bind]
      have hfin : ¬ ((List.foldl (placeStep (bitsOfBytes cw) mask) (funcMatrix v ec mask, 0) (zigzagAll (dimension v))).2 ≠
          (bitsOfBytes cw).length) := by
        rw [hkk]; omega
      rw [if_neg hfin]
      simp only [pure, Except.pure, Except.ok.injEq]
      apply wfm_ext hw (refByteMatrix_wfm v ec mask cw)
      intro x y hx hy
      rw [refByteMatrix_cell v ec mask cw x y hx hy]
      cases hfn : isFunction v x y
      · -- data module
        have hmem : (x, y) ∈ zigzag v := (mem_zigzag v x y).mpr ⟨hx, hy, hfn⟩
        obtain ⟨i, hi, hget⟩ := List.mem_iff_getElem.mp hmem
        have hc := hcells i hi
        rw [hget] at hc
        simp only [Nat.zero_add] at hc
        rw [hc]
        have hd := moduleAt_data v ec mask cw hlen i hi
        rw [hget] at hd
        simp only at hd
        rw [hd, streamBits_getElem]
      · -- function module
        have hnot : (x, y) ∉ zigzag v := by
          intro h
          have := ((mem_zigzag v x y).mp h).2.2
          rw [hfn] at this; cases this
        rw [hother x y hnot, funcMatrix_cell v ec mask x y hx hy, hfn, moduleAt_function v ec mask cw x y hfn]
        simp

end Gzx.QREnc
