/-
  wp `qrenc` — `embedDataBits`: the coded zig-zag loop, run on the matrix the function stage leaves, puts bit `i`
  of the stream (XOR the mask) on the `i`-th EMPTY module of the visit order and nothing else.
-/
import Gzx.Proofs.QREncInv
import Gzx.Proofs.QREncOrderDefs
namespace Gzx.QREnc
open Gzx Gzx.QRRef

/-- what the theorems need from the two regenerated kernels (discharged for the regenerated ones in
    `Obligations/QREnc.lean`, for the hand mirror `refKernels` in `Proofs/QREncKernels.lean`) -/
structure KernelsOK (K : Kernels) : Prop where
  /-- block sizes of a row with `n > 0` blocks of `e` EC codewords and `D` data codewords -/
  block : ∀ D e n b : Nat, 0 < n → b < n →
    K.blockSizes ((D + e * n : Nat) : Int) (D : Int) (n : Int) (b : Int) =
      (((if b < n - D % n then D / n else D / n + 1 : Nat) : Int), (e : Int), false)
  /-- the mask condition of pattern `k < 8` at column `x`, row `y` -/
  mask : ∀ k x y : Nat, k < 8 → K.maskBit (k : Int) (x : Int) (y : Int) = (maskBit k x y, false)

def placeVal (bits : List Bool) (mask k : Nat) (c : Nat × Nat) : Int :=
  b2i ((bits.getD k false) != maskBit mask c.1 c.2)

def nextK (bits : List Bool) (k : Nat) : Nat := if k < bits.length then k + 1 else k

/-- the cell step of `embedDataBits` as a pure function on well-formed matrices -/
def placeStep (bits : List Bool) (mask : Nat) (s : ByteMatrix × Nat) (c : Nat × Nat) : ByteMatrix × Nat :=
  if cell s.1 c.1 c.2 = -1 then (setC s.1 c.1 c.2 (placeVal bits mask s.2 c), nextK bits s.2) else s

theorem idxA_toArray {α} (l : List α) (i : Int) : idxA l.toArray i = idx l i := by
  unfold idxA idx
  simp

theorem embedCell_nat {K : Kernels} (hK : KernelsOK K) (bits : List Bool) (mask : Nat) (hk : mask < 8)
    {n : Nat} {m : ByteMatrix} (hm : WFM n m) {x y : Nat} (hx : x < n) (hy : y < n) (k : Nat) :
    embedCell K bits.toArray (mask : Int) (x : Int) (y : Int) (m, k) = .ok (placeStep bits mask (m, k) (x, y)) := by
  unfold embedCell placeStep
  simp only [bind, Except.bind, get_nat hm hx hy, isEmpty]
  by_cases he : cell m x y = -1
  · simp only [he, if_true, beq_self_eq_true, Bool.not_true, Bool.false_eq_true, if_false, List.size_toArray]
    have hmask : ((mask : Int) ≠ -1) := by omega
    simp only [hmask, ne_eq, not_false_eq_true, if_true, hK.mask mask x y hk]
    by_cases hlt : k < bits.length
    · simp only [hlt, if_true, idxA_toArray, idx_nat bits k hlt, pure, Except.pure]
      unfold ByteMatrix.setBool
      have hv : (if maskBit mask x y = true then !bits[k] else bits[k]) = (bits.getD k false != maskBit mask x y) := by
        have : bits.getD k false = bits[k] := by simp [List.getD_eq_getElem?_getD, List.getElem?_eq_getElem hlt]
        rw [this]
        cases maskBit mask x y <;> cases bits[k] <;> rfl
      rw [hv, set_nat hm hx hy]
      simp [placeVal, nextK, hlt]
    · simp only [hlt, if_false, pure, Except.pure]
      unfold ByteMatrix.setBool
      have hv : (if maskBit mask x y = true then !false else false) = (bits.getD k false != maskBit mask x y) := by
        have : bits.getD k false = false := by
          simp [List.getD_eq_getElem?_getD, List.getElem?_eq_none (by omega : bits.length ≤ k)]
        rw [this]
        cases maskBit mask x y <;> rfl
      rw [hv, set_nat hm hx hy]
      simp [placeVal, nextK, hlt]
  · have hne : (cell m x y == -1) = false := by simpa using he
    simp [he, hne, pure, Except.pure]

theorem placeStep_wfm (bits : List Bool) (mask : Nat) {n : Nat} (s : ByteMatrix × Nat) (c : Nat × Nat)
    (hm : WFM n s.1) : WFM n (placeStep bits mask s c).1 := by
  unfold placeStep
  split
  · exact setC_wfm hm _ _ _
  · exact hm

/-- the monadic fold over cells in range is the pure fold -/
theorem stepAll_nat {K : Kernels} (hK : KernelsOK K) (bits : List Bool) (mask : Nat) (hk : mask < 8) {n : Nat} :
    ∀ (l : List (Nat × Nat)) (s : ByteMatrix × Nat), WFM n s.1 → (∀ c ∈ l, c.1 < n ∧ c.2 < n) →
      stepAll (embedCell K bits.toArray (mask : Int)) (l.map (fun c => ((c.1 : Int), (c.2 : Int)))) s =
        .ok (l.foldl (placeStep bits mask) s) := by
  intro l
  induction l with
  | nil => intro s _ _; simp [stepAll, pure, Except.pure]
  | cons c cs ih =>
    intro s hm hr
    obtain ⟨m, k⟩ := s
    have hc := hr c List.mem_cons_self
    simp only [stepAll, List.map_cons, List.foldlM_cons, bind, Except.bind, List.foldl_cons]
    rw [embedCell_nat hK bits mask hk hm hc.1 hc.2 k]
    simp only
    exact ih _ (placeStep_wfm bits mask (m, k) c hm) (fun c' hc' => hr c' (List.mem_cons_of_mem _ hc'))

/-! ### the pure fold -/

/-- the cells of `l` that are empty in `m` -/
def empties (m : ByteMatrix) (l : List (Nat × Nat)) : List (Nat × Nat) :=
  l.filter (fun c => cell m c.1 c.2 == -1)

theorem empties_setC {n : Nat} {m : ByteMatrix} (hm : WFM n m) {c : Nat × Nat} (hc : c.1 < n ∧ c.2 < n) (v : Int)
    (l : List (Nat × Nat)) (hnot : c ∉ l) : empties (setC m c.1 c.2 v) l = empties m l := by
  unfold empties
  apply List.filter_congr
  intro d hd
  rw [cell_setC hm hc.1 hc.2]
  have : ¬ (d.1 = c.1 ∧ d.2 = c.2) := by
    intro h
    apply hnot
    have : d = c := Prod.ext h.1 h.2
    rw [← this]; exact hd
  rw [if_neg this]

theorem getD_min (bits : List Bool) (j : Nat) : bits.getD (min j bits.length) false = bits.getD j false := by
  by_cases h : j < bits.length
  · rw [Nat.min_eq_left (by omega)]
  · rw [Nat.min_eq_right (by omega)]
    simp [List.getD_eq_getElem?_getD, List.getElem?_eq_none (by omega : bits.length ≤ j)]

/-- Folding the cell step over a duplicate-free list of cells in range, from bit index `k ≤ len`:
    the `i`-th empty cell receives stream bit `k + i` (zero beyond the stream) XOR the mask, every other
    cell keeps its value, and the bit index ends at `min (k + #empty) len`. -/
theorem placeFold {n : Nat} (bits : List Bool) (mask : Nat) :
    ∀ (l : List (Nat × Nat)) (m : ByteMatrix) (k : Nat), WFM n m → l.Nodup → (∀ c ∈ l, c.1 < n ∧ c.2 < n) →
      k ≤ bits.length →
      WFM n (l.foldl (placeStep bits mask) (m, k)).1 ∧
      (l.foldl (placeStep bits mask) (m, k)).2 = min (k + (empties m l).length) bits.length ∧
      (∀ (i : Nat) (hi : i < (empties m l).length),
        cell (l.foldl (placeStep bits mask) (m, k)).1 ((empties m l)[i]).1 ((empties m l)[i]).2 =
          b2i ((bits.getD (k + i) false) != maskBit mask ((empties m l)[i]).1 ((empties m l)[i]).2)) ∧
      (∀ x y, (x, y) ∉ empties m l → cell (l.foldl (placeStep bits mask) (m, k)).1 x y = cell m x y) := by
  intro l
  induction l with
  | nil =>
    intro m k hm _ _ hk
    refine ⟨hm, ?_, ?_, ?_⟩
    · simp [empties]; omega
    · intro i hi; simp [empties] at hi
    · intro x y _; rfl
  | cons c cs ih =>
    intro m k hm hnd hr hk
    have hc := hr c List.mem_cons_self
    have hcs : ∀ d ∈ cs, d.1 < n ∧ d.2 < n := fun d hd => hr d (List.mem_cons_of_mem _ hd)
    rw [List.nodup_cons] at hnd
    rw [List.foldl_cons]
    by_cases he : cell m c.1 c.2 = -1
    · -- the cell is written
      have hstep : placeStep bits mask (m, k) c = (setC m c.1 c.2 (placeVal bits mask k c), nextK bits k) := by
        unfold placeStep; simp [he]
      rw [hstep]
      have hm' : WFM n (setC m c.1 c.2 (placeVal bits mask k c)) := setC_wfm hm _ _ _
      have hk' : nextK bits k ≤ bits.length := by unfold nextK; split <;> omega
      have hemp : empties m (c :: cs) = c :: empties (setC m c.1 c.2 (placeVal bits mask k c)) cs := by
        rw [empties_setC hm hc _ cs hnd.1]
        unfold empties
        rw [List.filter_cons]
        simp [he]
      obtain ⟨w, hkk, hcells, hother⟩ := ih _ (nextK bits k) hm' hnd.2 hcs hk'
      rw [hemp]
      refine ⟨w, ?_, ?_, ?_⟩
      · rw [hkk, List.length_cons]
        unfold nextK; split <;> omega
      · intro i hi
        cases i with
        | zero =>
          simp only [List.getElem_cons_zero, Nat.add_zero]
          have hnotin : (c.1, c.2) ∉ empties (setC m c.1 c.2 (placeVal bits mask k c)) cs := by
            intro h
            apply hnd.1
            exact (List.mem_filter.mp h).1
          rw [hother c.1 c.2 hnotin, cell_setC hm hc.1 hc.2]
          simp [placeVal]
        | succ i =>
          simp only [List.getElem_cons_succ]
          have hi' : i < (empties (setC m c.1 c.2 (placeVal bits mask k c)) cs).length := by
            simpa using hi
          rw [hcells i hi']
          have : bits.getD (nextK bits k + i) false = bits.getD (k + (i + 1)) false := by
            unfold nextK
            split
            · congr 1; omega
            · have h1 : bits.length ≤ k + i := by omega
              have h2 : bits.length ≤ k + (i + 1) := by omega
              simp [List.getD_eq_getElem?_getD, List.getElem?_eq_none h1, List.getElem?_eq_none h2]
          rw [this]
      · intro x y hxy
        have hxy' : (x, y) ∉ empties (setC m c.1 c.2 (placeVal bits mask k c)) cs := by
          intro h; exact hxy (List.mem_cons_of_mem _ h)
        rw [hother x y hxy', cell_setC hm hc.1 hc.2]
        have : ¬ (x = c.1 ∧ y = c.2) := by
          intro h
          apply hxy
          have : (x, y) = c := Prod.ext h.1 h.2
          rw [this]; exact List.mem_cons_self
        rw [if_neg this]
    · -- the cell is skipped
      have hstep : placeStep bits mask (m, k) c = (m, k) := by
        unfold placeStep; simp [he]
      rw [hstep]
      have hemp : empties m (c :: cs) = empties m cs := by
        unfold empties
        rw [List.filter_cons]
        simp [he]
      rw [hemp]
      exact ih m k hm hnd.2 hcs hk

end Gzx.QREnc
