/-
  wp `qrenc` — `Encoder_encode` on the mirror model, both halves: `encodeBack` (terminate → interleave → mask →
  buildMatrix) = the reference symbol of the payload; `encodeFront` (mode, header segments, data bits, version,
  character count) builds the reference's payload for the modes whose packing is proved (numeric, alphanumeric,
  byte); composed: `encode` = `QRRef.refEncode`.
-/
import Gzx.Proofs.QREncPipeline
import Gzx.Proofs.QREncVersion
import Gzx.Proofs.QREncSegments
namespace Gzx.QREnc
open Gzx Gzx.QRRef

theorem mem_EC_all'' (ec : EC) : ec ∈ EC.all := by cases ec <;> simp [EC.all]

/-- the block row of (version, level) as `Encoder_encode` reads it -/
theorem ecBlocks_facts (v : Nat) (h1 : 1 ≤ v) (h40 : v ≤ 40) (ec : EC) :
    ∃ b, QRVersionChoice.ecBlocksForLevel (versionInfo v) ec = .ok b ∧
      QRVersionChoice.numBlocksOf b = numBlocks v ec ∧
      ((versionInfo v).total : Int) - (QRVersionChoice.totalECCodewords b : Int) = ((dataCodewords v ec : Nat) : Int) ∧
      (versionInfo v).total = totalCodewords v := by
  have hk := kernOK_all (v - 1) (List.mem_range.mpr (by omega)) ec (mem_EC_all'' ec)
  rw [show v - 1 + 1 = v by omega] at hk
  unfold kernOK at hk
  simp only [Bool.and_eq_true, beq_iff_eq, decide_eq_true_eq, List.all_eq_true] at hk
  obtain ⟨⟨⟨⟨⟨⟨_, _⟩, htot⟩, _⟩, _⟩, _⟩, _⟩ := hk
  have hs := Gzx.Properties.C07.std_blocks_sum (v - 1) (List.mem_range.mpr (by omega)) ec (mem_EC_all'' ec)
  rw [show v - 1 + 1 = v by omega] at hs
  obtain ⟨_, hnb, _, _, _, _⟩ := hs
  refine ⟨(ecPerBlock v ec, blockGroups v ec), ?_, ?_, ?_, rfl⟩
  · unfold QRVersionChoice.ecBlocksForLevel versionInfo
    cases ec <;> rfl
  · unfold QRVersionChoice.numBlocksOf
    exact hnb
  · unfold QRVersionChoice.totalECCodewords QRVersionChoice.numBlocksOf
    simp only
    rw [hnb]
    show ((totalCodewords v : Nat) : Int) - _ = _
    rw [htot]
    simp [Int.natCast_mul]

theorem maskOfHint_cases (h : Option HintVal) : maskOfHint h = -1 ∨ ∃ k : Nat, k < 8 ∧ maskOfHint h = (k : Int) := by
  unfold maskOfHint
  cases h with
  | none => left; rfl
  | some hv =>
    simp only
    generalize maskHintInt hv = mp
    by_cases hvalid : isValidMaskPattern mp = true
    · rw [if_pos hvalid]
      right
      simp only [isValidMaskPattern, Bool.and_eq_true, decide_eq_true_eq] at hvalid
      exact ⟨mp.toNat, by omega, by omega⟩
    · rw [if_neg hvalid]; left; rfl

/-- the mask the call ends up with: the hinted one if valid, else the reference's choice -/
def finalMask (maskHint : Option HintVal) (v : Nat) (ec : EC) (payload : Bits) : Nat :=
  if maskOfHint maskHint = -1 then chooseMask v ec (refCodewords v ec payload) else (maskOfHint maskHint).toNat

/-- `encodeBack`: the second half of `Encoder_encode` yields the reference symbol of the payload -/
theorem encodeBack_eq_ref {K : Kernels} (hK : KernelsOK K) (v : Nat) (h1 : 1 ≤ v) (h40 : v ≤ 40) (hf : FuncOK v)
    (maskHint : Option HintVal) (f : FrontResult) (hv : f.version = versionInfo v)
    (hfit : f.headerAndDataBits.length ≤ 8 * dataCodewords v f.ec) :
    ∃ t, encodeBack K maskHint f = .ok t ∧ t.mode = f.mode ∧ t.version = v ∧ t.headerAndDataBits = f.headerAndDataBits ∧
      t.maskPattern = ((finalMask maskHint v f.ec f.headerAndDataBits : Nat) : Int) ∧
      t.terminated = bitsOfBytes (terminate (dataCodewords v f.ec) f.headerAndDataBits) ∧
      t.finalBits = bitsOfBytes (refCodewords v f.ec f.headerAndDataBits) ∧
      t.matrix = refByteMatrix v f.ec (finalMask maskHint v f.ec f.headerAndDataBits) (refCodewords v f.ec f.headerAndDataBits) := by
  obtain ⟨b, hb, hnb, hnd, htotal⟩ := ecBlocks_facts v h1 h40 f.ec
  unfold encodeBack
  rw [hv, hb]
  rw [htotal] at hnd
  simp only [bind, Except.bind, htotal, hnd, hnb]
  rw [terminateBits_eq _ _ hfit]
  simp only
  have hdl := terminate_length (dataCodewords v f.ec) f.headerAndDataBits hfit
  have hdb := QRComp.terminate_lt (dataCodewords v f.ec) f.headerAndDataBits
  rw [interleave_eq_ref hK v h1 h40 f.ec _ hdl hdb]
  simp only
  have hdim : (17 : Int) + 4 * (((versionInfo v).number : Nat) : Int) = ((dimension v : Nat) : Int) := by
    show (17 : Int) + 4 * ((v : Nat) : Int) = _
    unfold dimension; omega
  rw [hdim]
  obtain ⟨m0, hm0, hw0⟩ := newByteMatrix_wfm (dimension v)
  rw [hm0]
  simp only
  have hcwl := Gzx.Properties.C07.final_codewords_length v h1 h40 f.ec _ hdl
  have hroom := zigzag_room v h1 h40 _ hcwl
  have hnum : (versionInfo v).number = v := rfl
  simp only [hnum]
  unfold finalMask refCodewords
  rcases maskOfHint_cases maskHint with hauto | ⟨k, hk, hkk⟩
  · rw [hauto]
    simp only [if_true]
    obtain ⟨pens, m1, hch, hw1⟩ := chooseMaskPattern_eq hK v h1 h40 hf f.ec _ hroom m0 hw0
    rw [hch]
    simp only
    have hk : chooseMask v f.ec (finalCodewords v f.ec (terminate (dataCodewords v f.ec) f.headerAndDataBits)) < 8 := by
      rw [chooseMask_eq_fold]
      have : ∀ (l : List Nat) (b : Nat × Nat), b.1 < 8 → (∀ k ∈ l, k < 8) →
          (l.foldl (refStep (refPenalty v f.ec (finalCodewords v f.ec (terminate (dataCodewords v f.ec) f.headerAndDataBits)))) b).1 < 8 := by
        intro l
        induction l with
        | nil => intro b hb _; exact hb
        | cons k ks ih =>
          intro b hb hl
          rw [List.foldl_cons]
          apply ih
          · unfold refStep; split
            · exact hl k List.mem_cons_self
            · exact hb
          · intro k' hk'; exact hl k' (List.mem_cons_of_mem _ hk')
      exact this _ _ (by decide) (fun k hk => List.mem_range.mp hk)
    rw [buildMatrix_eq_ref hK v h1 h40 hf (orderOK_all v) f.ec _ hk _ hroom m1 hw1]
    exact ⟨_, rfl, rfl, rfl, rfl, rfl, rfl, rfl, rfl⟩
  · rw [hkk]
    have hne : ¬ ((k : Int) = -1) := by omega
    simp only [hne, if_false, pure, Except.pure, Int.toNat_natCast]
    rw [buildMatrix_eq_ref hK v h1 h40 hf (orderOK_all v) f.ec k hk _ hroom m0 hw0]
    exact ⟨_, rfl, rfl, rfl, rfl, rfl, rfl, rfl, rfl⟩


/-! ### the first half -/

/-- A data segment of mode `m`: what `appendBytes` makes of the content, what the reference's `encodeData` makes of
    the mode's byte representation, the character count `Encoder_encode` writes, and the fact that a count whose
    data fits a version fits that version's count indicator. -/
structure Segment (inp : EncInput) (m : Mode) (bytes : List Nat) (count : Nat) (data : Bits) : Prop where
  append : appendBytes inp.content m inp.encoded inp.sjis [] = .ok data
  ref : encodeData m bytes = some (count, data)
  letters : numLettersOf inp m data = (count : Int)
  countFits : ∀ v ec hdr, 1 ≤ v → v ≤ 40 → 4 ≤ hdr → fitsBits v ec m hdr data.length = true → count < 2 ^ countBits m v

/-- the ECI designator the call announces -/
def eciOf (inp : EncInput) (m : Mode) : Option Nat := if m = .byte then inp.charset.bind (·.eciValue) else none

theorem appendModeInfo_nat (k : Nat) (bits : Bits) : appendModeInfo (k : Int) bits = bits ++ toBitsBE 4 k := by
  unfold appendModeInfo
  exact appendBitsIgn_nat k 4 (by omega) bits

theorem header_eq (inp : EncInput) (m : Mode) (he : ∀ e, eciOf inp m = some e → e < 128) :
    headerOf inp m = headerBits (eciOf inp m) (gs1OfHint inp.gs1) m := by
  unfold headerOf
  simp only
  have heci : eciHeader inp m = (match eciOf inp m with
        | some e => toBitsBE 4 7 ++ eciDesignator e
        | none => []) := by
    unfold eciHeader
    unfold eciOf
    by_cases hm : m = .byte
    · subst hm
      simp only [true_and, if_true]
      cases hc : inp.charset with
      | none => simp
      | some cs =>
        simp only [Option.isSome_some, if_true, Option.bind_some]
        cases hv : cs.eciValue with
        | none => rfl
        | some e =>
          simp only
          have hlt : e < 128 := he e (by unfold eciOf; simp [hc, hv])
          unfold appendECI eciDesignator
          rw [if_pos hlt]
          have h1 : appendBitsIgn 7 4 [] = toBitsBE 4 7 := by
            have := appendBitsIgn_nat 7 4 (by omega) []
            simpa using this
          rw [h1]
          exact appendBitsIgn_nat e 8 (by omega) _
    · simp [hm]
  rw [heci]
  unfold headerBits
  rw [appendModeInfo_nat]
  cases gs1OfHint inp.gs1
  · simp only [Bool.false_eq_true, if_false, List.append_nil]
    cases eciOf inp m <;> rfl
  · simp only [if_true]
    rw [show (5 : Int) = ((5 : Nat) : Int) by rfl, appendModeInfo_nat]
    cases eciOf inp m <;> rfl

theorem headerBits_len (eci : Option Nat) (g : Bool) (m : Mode) : 4 ≤ (headerBits eci g m).length := by
  unfold headerBits
  simp only [List.length_append, toBitsBE_length]
  omega

theorem refTables_row (v : Nat) (h1 : 1 ≤ v) (h40 : v ≤ 40) :
    QRVersionChoice.getVersionForNumber tables (v : Int) = .ok (versionInfo v) := by
  have := QRVersionChoice.getVersion_ok (T := QRVersionChoice.refTables) Gzx.Properties.C13.ref_wf h1 h40
  rw [(row_facts v h1 h40 .L .byte).1] at this
  exact this

/-- the version the call settles on, by the reference's rule -/
def versionChoice (inp : EncInput) (ec : EC) (m : Mode) (hdrLen dataLen : Nat) : Option Nat :=
  match inp.version with
  | some h =>
    if 1 ≤ versionHintInt h ∧ versionHintInt h ≤ 40 ∧ fitsBits (versionHintInt h).toNat ec m hdrLen dataLen = true
    then some (versionHintInt h).toNat else none
  | none => minVersion ec m hdrLen dataLen

theorem versionChoice_range {inp : EncInput} {ec : EC} {m : Mode} {h d v : Nat} (hv : versionChoice inp ec m h d = some v) :
    1 ≤ v ∧ v ≤ 40 ∧ fitsBits v ec m h d = true := by
  unfold versionChoice at hv
  cases hh : inp.version with
  | none => rw [hh] at hv; exact minVersion_range hv
  | some hint =>
    rw [hh] at hv
    simp only at hv
    split at hv
    · rename_i hc
      simp only [Option.some.injEq] at hv
      subst hv
      exact ⟨by omega, by omega, hc.2.2⟩
    · cases hv

/-- `encodeFront`: mode given by `chooseMode`, a segment whose packing is known — the reference's header, version
    and payload, or a refusal exactly when the reference refuses -/
theorem encodeFront_eq (inp : EncInput) (ec : EC) (hec : ecOfInt inp.ecLevel = some ec)
    (hcs : ∀ cs, inp.charset = some cs → cs.known = true) (m : Mode)
    (hmode : chooseMode inp.content (match inp.charset with | some cs => cs.isSJIS | none => false) inp.sjis = .ok m)
    (bytes : List Nat) (count : Nat) (data : Bits) (seg : Segment inp m bytes count data)
    (he : ∀ e, eciOf inp m = some e → e < 128) :
    encodeFront inp =
      match versionChoice inp ec m (headerBits (eciOf inp m) (gs1OfHint inp.gs1) m).length data.length with
      | some v => .ok ⟨ec, m, headerBits (eciOf inp m) (gs1OfHint inp.gs1) m, data, versionInfo v,
          payloadBits v (headerBits (eciOf inp m) (gs1OfHint inp.gs1) m) m count data⟩
      | none => .error .writer := by
  unfold encodeFront
  simp only [hec, bind, Except.bind, pure, Except.pure]
  have hsj : charsetIsSJIS inp = .ok (match inp.charset with | some cs => cs.isSJIS | none => false) := by
    unfold charsetIsSJIS
    cases hc : inp.charset with
    | none => rfl
    | some cs => simp [hcs cs hc, pure, Except.pure]
  rw [hsj]
  simp only
  rw [hmode]
  simp only
  rw [header_eq inp m he, seg.append]
  simp only
  generalize hH : headerBits (eciOf inp m) (gs1OfHint inp.gs1) m = hdr
  have hlen4 : 4 ≤ hdr.length := by rw [← hH]; exact headerBits_len _ _ _
  -- after the version decision both branches continue the same way
  have htail : ∀ v, 1 ≤ v → v ≤ 40 → fitsBits v ec m hdr.length data.length = true →
      appendLengthInfo (numLettersOf inp m data) (versionInfo v) m hdr = .ok (hdr ++ toBitsBE (countBits m v) count) := by
    intro v h1 h40 hfit
    rw [seg.letters, appendLengthInfo_eq v h1 h40 m count (seg.countFits v ec hdr.length h1 h40 hlen4 hfit)]
  unfold versionChoice
  cases hvh : inp.version with
  | none =>
    simp only
    rw [recommendVersion_eq_min]
    cases hmin : minVersion ec m hdr.length data.length with
    | none => rfl
    | some v =>
      simp only
      obtain ⟨h1, h40, hfit⟩ := minVersion_range hmin
      rw [htail v h1 h40 hfit]
      simp [payloadBits, List.append_assoc]
  | some hint =>
    simp only
    by_cases hr : 1 ≤ versionHintInt hint ∧ versionHintInt hint ≤ 40
    · obtain ⟨v, hv⟩ : ∃ v : Nat, versionHintInt hint = (v : Int) := ⟨(versionHintInt hint).toNat, by omega⟩
      rw [hv] at hr ⊢
      have h1 : 1 ≤ v := by omega
      have h40 : v ≤ 40 := by omega
      rw [refTables_row v h1 h40]
      simp only [Int.toNat_natCast]
      have hrow := (row_facts v h1 h40 ec m).1
      have hcb : QRVersionChoice.calculateBitsNeeded tables m hdr.length data.length (versionInfo v) =
          .ok (hdr.length + QRVersionChoice.cbOf QRVersionChoice.refTables m v + data.length) := by
        have := QRVersionChoice.calculateBitsNeeded_ok (T := QRVersionChoice.refTables) Gzx.Properties.C13.ref_wf m hdr.length data.length h1 h40
        rw [hrow] at this
        exact this
      rw [hcb]
      simp only
      have hwf : QRVersionChoice.willFit (hdr.length + QRVersionChoice.cbOf QRVersionChoice.refTables m v + data.length) (versionInfo v) ec =
          .ok (QRVersionChoice.fitsBytes (QRVersionChoice.dataBytes QRVersionChoice.refTables v ec)
            (hdr.length + QRVersionChoice.cbOf QRVersionChoice.refTables m v + data.length)) := by
        have := QRVersionChoice.willFit_ok (T := QRVersionChoice.refTables) Gzx.Properties.C13.ref_wf h1 h40 ec
          (hdr.length + QRVersionChoice.cbOf QRVersionChoice.refTables m v + data.length)
        rw [hrow] at this
        exact this
      rw [hwf]
      simp only
      have hfe := fits_eq_fitsBits v h1 h40 ec m hdr.length data.length
      unfold Gzx.Properties.C13.fits Gzx.Properties.C13.bitsNeeded at hfe
      rw [hfe]
      cases hfit : fitsBits v ec m hdr.length data.length
      · simp [hr]
      · simp only [Bool.not_true, Bool.false_eq_true, if_false]
        have : ((1 : Int) ≤ (v : Int) ∧ (v : Int) ≤ 40 ∧ True) := ⟨by omega, by omega, trivial⟩
        rw [if_pos this]
        rw [htail v h1 h40 hfit]
        simp [payloadBits, List.append_assoc]
    · have hno : ¬ (1 ≤ versionHintInt hint ∧ versionHintInt hint ≤ 40 ∧
          fitsBits (versionHintInt hint).toNat ec m hdr.length data.length = true) := fun h => hr ⟨h.1, h.2.1⟩
      rw [if_neg hno]
      unfold QRVersionChoice.getVersionForNumber
      have : versionHintInt hint < 1 ∨ versionHintInt hint > 40 := by omega
      simp [this]


/-! ### the three modes whose packing is proved -/

/-- a character count whose data bits fit a version fits that version's count indicator (from C13) -/
theorem count_fits (m : Mode) (n : Nat) (v : Nat) (ec : EC) (hdr : Nat) (h1 : 1 ≤ v) (h40 : v ≤ 40) (hh : 4 ≤ hdr)
    (hfit : fitsBits v ec m hdr (dataBitsLen m n) = true) : n < 2 ^ countBits m v := by
  have hf : Gzx.Properties.C13.fits QRVersionChoice.refTables ec m hdr (dataBitsLen m n) v = true := by
    rw [fits_eq_fitsBits v h1 h40]; exact hfit
  have := Gzx.Properties.C13.length_guard_never_fires QRVersionChoice.refTables Gzx.Properties.C13.ref_guard ec m hdr n v h1 h40 hh hf
  rw [(row_facts v h1 h40 ec m).2.2] at this
  exact this

theorem segment_byte (inp : EncInput) (bs : List Nat) (he : inp.encoded = some bs) :
    Segment inp .byte bs bs.length (bitsOfBytes bs) := by
  refine ⟨?_, rfl, ?_, ?_⟩
  · unfold appendBytes
    simp only
    rw [he, append8BitBytes_eq]
    simp
  · unfold numLettersOf sizeInBytes
    simp only
    rw [bitsOfBytes_length]
    congr 1; omega
  · intro v ec hdr h1 h40 hh hfit
    rw [bitsOfBytes_length] at hfit
    exact count_fits .byte bs.length v ec hdr h1 h40 hh (by simpa [dataBitsLen] using hfit)

theorem mapM_digitVal (content : List Nat) (hd : ∀ c ∈ content, isDigit c) :
    content.mapM digitVal = some (content.map (· - 48)) := by
  induction content with
  | nil => rfl
  | cons c cs ih =>
    have hc := hd c List.mem_cons_self
    rw [List.mapM_cons, ih (fun x hx => hd x (List.mem_cons_of_mem _ hx))]
    unfold digitVal
    unfold isDigit at hc
    simp [hc]

theorem segment_numeric (inp : EncInput) (hd : ∀ c ∈ inp.content, isDigit c) :
    Segment inp .numeric inp.content inp.content.length (packNumeric (inp.content.map (· - 48))) := by
  refine ⟨?_, ?_, rfl, ?_⟩
  · unfold appendBytes
    simp only
    rw [appendNumericBytes_eq _ hd]
    simp
  · unfold encodeData
    simp only
    rw [mapM_digitVal _ hd]
    simp
  · intro v ec hdr h1 h40 hh hfit
    rw [QRComp.packNumeric_length, List.length_map] at hfit
    exact count_fits .numeric _ v ec hdr h1 h40 hh (by simpa [dataBitsLen] using hfit)

theorem segment_alnum (inp : EncInput) (codes : List Nat) (hc : inp.content.mapM alnumCode = some codes) :
    Segment inp .alnum inp.content inp.content.length (packAlnum codes) := by
  have hlen : codes.length = inp.content.length := by
    have : ∀ (l : List Nat) (cs : List Nat), l.mapM alnumCode = some cs → cs.length = l.length := by
      intro l
      induction l with
      | nil => intro cs h; simp at h; subst h; rfl
      | cons a as ih =>
        intro cs h
        rw [List.mapM_cons] at h
        cases ha : alnumCode a with
        | none => simp [ha] at h
        | some k =>
          cases hr : as.mapM alnumCode with
          | none => simp [ha, hr] at h
          | some r =>
            simp [ha, hr] at h
            subst h
            simp [ih r hr]
    exact this _ _ hc
  refine ⟨?_, ?_, rfl, ?_⟩
  · unfold appendBytes
    simp only
    rw [appendAlphanumericBytes_eq _ codes hc]
    simp
  · unfold encodeData
    simp only
    rw [hc]
    simp [hlen]
  · intro v ec hdr h1 h40 hh hfit
    rw [QRComp.packAlnum_length, hlen] at hfit
    exact count_fits .alnum _ v ec hdr h1 h40 hh (by simpa [dataBitsLen] using hfit)

/-! ### the whole call -/

/-- the reference configuration an `Encoder_encode` call amounts to -/
def refConfig (inp : EncInput) (ec : EC) (m : Mode) : Config :=
  { ec := ec, eci := eciOf inp m, gs1 := gs1OfHint inp.gs1,
    version := inp.version.map (fun h => (versionHintInt h).toNat),
    mask := if maskOfHint inp.mask = -1 then none else some (maskOfHint inp.mask).toNat }

/-- `encode` = the reference construction, composed: with the mode `chooseMode` returns and a segment whose packing
    is known, `Encoder_encode` on the mirror model settles on the reference's version (`versionChoice`: the requested
    one if it is in 1..40 and fits, else the smallest that fits) and returns the reference symbol of the reference
    payload (header, character count, data) with the hinted or the reference's own mask — or a WriterException
    exactly when no version is admissible. -/
theorem encode_eq_ref {K : Kernels} (hK : KernelsOK K)
    (inp : EncInput) (ec : EC) (hec : ecOfInt inp.ecLevel = some ec)
    (hcs : ∀ cs, inp.charset = some cs → cs.known = true) (m : Mode)
    (hmode : chooseMode inp.content (match inp.charset with | some cs => cs.isSJIS | none => false) inp.sjis = .ok m)
    (bytes : List Nat) (count : Nat) (data : Bits) (seg : Segment inp m bytes count data)
    (he : ∀ e, eciOf inp m = some e → e < 128)
    (hfunc : ∀ v, versionChoice inp ec m (headerBits (eciOf inp m) (gs1OfHint inp.gs1) m).length data.length = some v → FuncOK v) :
    match versionChoice inp ec m (headerBits (eciOf inp m) (gs1OfHint inp.gs1) m).length data.length with
    | some v =>
      ∃ t, encode K inp = .ok t ∧ t.mode = m ∧ t.version = v ∧
        t.headerAndDataBits = payloadBits v (headerBits (eciOf inp m) (gs1OfHint inp.gs1) m) m count data ∧
        t.maskPattern = ((finalMask inp.mask v ec t.headerAndDataBits : Nat) : Int) ∧
        t.finalBits = bitsOfBytes (refCodewords v ec t.headerAndDataBits) ∧
        t.matrix = refByteMatrix v ec (finalMask inp.mask v ec t.headerAndDataBits) (refCodewords v ec t.headerAndDataBits)
    | none => encode K inp = .error .writer := by
  unfold encode
  rw [encodeFront_eq inp ec hec hcs m hmode bytes count data seg he]
  generalize hH : headerBits (eciOf inp m) (gs1OfHint inp.gs1) m = hdr
  cases hch : versionChoice inp ec m hdr.length data.length with
  | none => rfl
  | some v =>
    obtain ⟨h1, h40, hfit⟩ := versionChoice_range hch
    simp only [bind, Except.bind]
    have hpl : (payloadBits v hdr m count data).length ≤ 8 * dataCodewords v ec := by
      unfold fitsBits at hfit
      simp only [decide_eq_true_eq] at hfit
      unfold payloadBits
      simp only [List.length_append, toBitsBE_length]
      omega
    obtain ⟨t, ht, hm, hv, hhd, hmask, _, hfb, hmat⟩ := encodeBack_eq_ref hK v h1 h40 (hfunc v (by rw [hH]; exact hch)) inp.mask
      ⟨ec, m, hdr, data, versionInfo v, payloadBits v hdr m count data⟩ rfl hpl
    simp only at hhd hmask hfb hmat hm
    refine ⟨t, ht, hm, hv, hhd, ?_, ?_, ?_⟩
    · rw [hhd]; exact hmask
    · rw [hhd]; exact hfb
    · rw [hhd]; exact hmat

end Gzx.QREnc
