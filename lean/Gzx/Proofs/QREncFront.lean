/-
  wp `enc2` — the first half of `Encoder_encode` on the mirror model without hypotheses about the mode or the data
  segment: its closed form (`encodeFront_shape`), its totality (`encodeFront_total`: a result with a table row as
  version, or a WriterException — for every content and every hint value), the data segment of every mode
  (`segment_of_ref`, Kanji included), and the composed theorems `encode_total`, `encode_eq_ref_full`.
-/
import Gzx.Proofs.QREncEncode
import Gzx.Proofs.QREncKanji
import Gzx.Proofs.QREncMode
import Gzx.Proofs.QREncFuncAll40
namespace Gzx.QREnc
open Gzx Gzx.QRRef

/-! ### the data segment by mode -/

/-- the byte representation of the content in mode `m`: the content itself (numeric / alphanumeric), the bytes of
    the encoding in force (byte mode), the Shift_JIS bytes (Kanji mode) -/
def modeBytes (inp : EncInput) (m : Mode) : Option (List Nat) :=
  match m with
  | .byte => inp.encoded
  | .kanji => inp.sjis
  | _ => some inp.content

/-- the reference's data segment: (character count, data bits); `none` = not encodable -/
def refSegment (inp : EncInput) (m : Mode) : Option (Nat × Bits) := (modeBytes inp m).bind (encodeData m)

/-- the mode the call settles on -/
def modeOf (inp : EncInput) : Mode :=
  refMode inp.content (match inp.charset with | some cs => cs.isSJIS | none => false) inp.sjis

theorem refMode_numeric {content : List Nat} {s : Bool} {sj : Option (List Nat)} (h : refMode content s sj = .numeric) :
    content.all isDigitB = true := by
  unfold refMode at h
  split at h
  · cases h
  · split at h
    · rename_i hc; simp only [Bool.and_eq_true] at hc; exact hc.2
    · split at h <;> cases h

theorem refMode_alnum {content : List Nat} {s : Bool} {sj : Option (List Nat)} (h : refMode content s sj = .alnum) :
    content.all inTable = true := by
  unfold refMode at h
  split at h
  · cases h
  · split at h
    · cases h
    · split at h
      · rename_i hc; simp only [Bool.and_eq_true] at hc; exact hc.2
      · cases h

theorem mapM_alnum_of_all : ∀ (content : List Nat), content.all inTable = true → ∃ codes, content.mapM alnumCode = some codes := by
  intro content
  induction content with
  | nil => intro _; exact ⟨[], rfl⟩
  | cons c cs ih =>
    intro h
    simp only [List.all_cons, Bool.and_eq_true] at h
    obtain ⟨codes, hc⟩ := ih h.2
    have : (alnumCode c).isSome = true := h.1
    obtain ⟨k, hk⟩ := Option.isSome_iff_exists.mp this
    exact ⟨k :: codes, by rw [List.mapM_cons, hk, hc]; rfl⟩

theorem packKanji_len : ∀ (n : Nat) (bytes : List Nat) (d : Bits), bytes.length ≤ n → packKanji bytes = some d →
    d.length = 13 * (bytes.length / 2) := by
  intro n
  induction n with
  | zero =>
    intro bytes d hl h
    have : bytes = [] := List.length_eq_zero_iff.mp (by omega)
    subst this
    simp [packKanji] at h
    subst h; rfl
  | succ n ih =>
    intro bytes d hl h
    match bytes, hl, h with
    | [], _, h => simp [packKanji] at h; subst h; rfl
    | [_], _, h => simp [packKanji] at h
    | hi :: lo :: rest, hl, h =>
      simp only [packKanji] at h
      cases hk : kanjiCode hi lo with
      | none => simp [hk] at h
      | some c =>
        cases hr : packKanji rest with
        | none => simp [hk, hr] at h
        | some r =>
          simp [hk, hr] at h
          subst h
          have := ih rest r (by simp at hl; omega) hr
          simp only [List.length_append, toBitsBE_length, this, List.length_cons]
          omega

/-- the Kanji segment: codec parameters = the Shift_JIS encoder yields bytes, one rune per byte pair -/
theorem segment_kanji (inp : EncInput) (bytes : List Nat) (d : Bits) (hs : inp.sjis = some bytes)
    (hb : ∀ b ∈ bytes, b < 256) (hrc : inp.runeCount = bytes.length / 2) (hp : packKanji bytes = some d) :
    Segment inp .kanji bytes (bytes.length / 2) d := by
  refine ⟨?_, ?_, ?_, ?_⟩
  · unfold appendBytes
    simp only
    rw [appendKanjiBytes_eq inp.sjis (fun bs h b hbm => by rw [hs] at h; cases h; exact hb b hbm) [], hs]
    simp [hp]
  · unfold encodeData
    simp [hp]
  · unfold numLettersOf
    simp only
    rw [hrc]
  · intro v ec hdr h1 h40 hh hfit
    rw [packKanji_len bytes.length bytes d (Nat.le_refl _) hp] at hfit
    exact count_fits .kanji _ v ec hdr h1 h40 hh (by simpa [dataBitsLen] using hfit)

theorem isDigitB_isDigit {content : List Nat} (h : content.all isDigitB = true) : ∀ c ∈ content, isDigit c := by
  intro c hc
  have := List.all_eq_true.mp h c hc
  simpa [isDigitB, isDigit] using this

/-- the segment of the reference for the mode the call settles on IS the segment the mirror writes -/
theorem segment_of_ref (inp : EncInput) (count : Nat) (data : Bits)
    (hsj : ∀ bs, inp.sjis = some bs → ∀ b ∈ bs, b < 256)
    (hrc : ∀ bs, inp.sjis = some bs → modeOf inp = .kanji → inp.runeCount = bs.length / 2)
    (href : refSegment inp (modeOf inp) = some (count, data)) :
    ∃ bytes, Segment inp (modeOf inp) bytes count data := by
  unfold refSegment modeBytes at href
  cases hm : modeOf inp with
  | numeric =>
    rw [hm] at href
    have hd := isDigitB_isDigit (refMode_numeric hm)
    have := segment_numeric inp hd
    simp only [Option.bind_some] at href
    have href2 := this.ref
    rw [href] at href2
    cases href2
    exact ⟨_, this⟩
  | alnum =>
    rw [hm] at href
    obtain ⟨codes, hc⟩ := mapM_alnum_of_all _ (refMode_alnum hm)
    have := segment_alnum inp codes hc
    simp only [Option.bind_some] at href
    have href2 := this.ref
    rw [href] at href2
    cases href2
    exact ⟨_, this⟩
  | byte =>
    rw [hm] at href
    simp only at href
    cases he : inp.encoded with
    | none => rw [he] at href; cases href
    | some bs =>
      rw [he] at href
      have := segment_byte inp bs he
      simp only [Option.bind_some] at href
      have href2 := this.ref
      rw [href] at href2
      cases href2
      exact ⟨_, this⟩
  | kanji =>
    rw [hm] at href
    simp only at href
    cases hs : inp.sjis with
    | none => rw [hs] at href; cases href
    | some bs =>
      rw [hs] at href
      simp only [Option.bind_some, encodeData, Option.map_eq_some_iff] at href
      obtain ⟨d, hp, hcd⟩ := href
      simp only [Prod.mk.injEq] at hcd
      rw [← hcd.1, ← hcd.2]
      exact ⟨bs, segment_kanji inp bs d hs (hsj bs hs) (hrc bs hs hm) hp⟩

/-- … and where the reference has no segment the mirror's `appendBytes` answers with a WriterException -/
theorem appendBytes_refused (inp : EncInput)
    (hsj : ∀ bs, inp.sjis = some bs → ∀ b ∈ bs, b < 256)
    (href : refSegment inp (modeOf inp) = none) :
    appendBytes inp.content (modeOf inp) inp.encoded inp.sjis [] = .error .writer := by
  unfold refSegment modeBytes at href
  cases hm : modeOf inp with
  | numeric =>
    rw [hm] at href
    have := (segment_numeric inp (isDigitB_isDigit (refMode_numeric hm))).ref
    simp only [Option.bind_some] at href
    rw [href] at this; cases this
  | alnum =>
    rw [hm] at href
    obtain ⟨codes, hc⟩ := mapM_alnum_of_all _ (refMode_alnum hm)
    have := (segment_alnum inp codes hc).ref
    simp only [Option.bind_some] at href
    rw [href] at this; cases this
  | byte =>
    rw [hm] at href
    simp only at href
    cases he : inp.encoded with
    | none => rfl
    | some bs => rw [he] at href; simp [encodeData] at href
  | kanji =>
    rw [hm] at href
    simp only at href
    unfold appendBytes
    simp only
    rw [appendKanjiBytes_eq inp.sjis hsj []]
    cases hs : inp.sjis with
    | none => rfl
    | some bs =>
      rw [hs] at href
      simp only [Option.bind_some, encodeData, Option.map_eq_none_iff] at href
      simp [href]

/-! ### totality of the data-bit loops (no codec parameter needed) -/

/-- ok or WriterException -/
def OkOrWriter {α : Type} (r : Res α) : Prop := (∃ a, r = .ok a) ∨ r = .error .writer

theorem foldlM_okOrWriter {σ ι : Type} (f : σ → ι → Res σ) (l : List ι) (P : ι → Prop) (hP : ∀ i ∈ l, P i)
    (h : ∀ s i, P i → OkOrWriter (f s i)) : ∀ s, OkOrWriter (l.foldlM f s) := by
  induction l with
  | nil => intro s; exact Or.inl ⟨s, rfl⟩
  | cons i is ih =>
    intro s
    simp only [List.foldlM_cons, bind, Except.bind]
    rcases h s i (hP i List.mem_cons_self) with ⟨a, ha⟩ | he
    · rw [ha]; exact ih (fun j hj => hP j (List.mem_cons_of_mem _ hj)) a
    · rw [he]; exact Or.inr rfl

theorem appendKanjiBytes_total (sjis : Option (List Nat)) (bits : Bits) : OkOrWriter (appendKanjiBytes sjis bits) := by
  cases sjis with
  | none => exact Or.inr rfl
  | some bytes =>
    by_cases he : bytes.length % 2 = 0
    · rw [appendKanjiBytes_unfold bytes bits he]
      apply foldlM_okOrWriter (kanjiBody bytes) _ (fun k => 2 * k + 1 < bytes.length)
      · intro k hk; have := List.mem_range.mp hk; omega
      · intro s k hk
        unfold kanjiBody
        have hi1 := idx_nat bytes (2 * k) (by omega)
        have hi2 := idx_nat bytes (2 * k + 1) hk
        rw [show (((2 * k + 1 : Nat) : Int)) = ((2 * k : Nat) : Int) + 1 by omega] at hi2
        simp only [hi1, hi2, bind, Except.bind]
        repeat' split
        all_goals first | exact Or.inr rfl | exact Or.inl ⟨_, rfl⟩
    · unfold appendKanjiBytes
      simp only
      rw [if_pos (by omega)]
      exact Or.inr rfl

theorem appendBytes_total (inp : EncInput) : OkOrWriter (appendBytes inp.content (modeOf inp) inp.encoded inp.sjis []) := by
  cases hm : modeOf inp with
  | numeric => exact Or.inl ⟨_, (segment_numeric inp (isDigitB_isDigit (refMode_numeric hm))).append⟩
  | alnum =>
    obtain ⟨codes, hc⟩ := mapM_alnum_of_all _ (refMode_alnum hm)
    exact Or.inl ⟨_, (segment_alnum inp codes hc).append⟩
  | byte =>
    unfold appendBytes
    simp only
    cases inp.encoded with
    | none => exact Or.inr rfl
    | some bs => exact Or.inl ⟨_, rfl⟩
  | kanji => exact appendKanjiBytes_total _ _

theorem appendLengthInfo_total (v : Nat) (h1 : 1 ≤ v) (h40 : v ≤ 40) (m : Mode) (n : Int) (bits : Bits) :
    OkOrWriter (appendLengthInfo n (versionInfo v) m bits) := by
  unfold appendLengthInfo QRVersionChoice.characterCountBits tables QRVersionChoice.refTables
  have hnum : (versionInfo v).number = v := rfl
  simp only [hnum]
  have hsel : ([countBits m 1, countBits m 10, countBits m 27])[if v ≤ 9 then 0 else if v ≤ 26 then 1 else 2]? =
      some (countBits m v) := by
    by_cases h9 : v ≤ 9
    · simp [h9]; cases m <;> simp [countBits, h9]
    · by_cases h26 : v ≤ 26
      · simp [h9, h26]; cases m <;> simp [countBits, h9, h26]
      · simp [h9, h26]; cases m <;> simp [countBits, h9, h26]
  rw [hsel]
  simp only [bind, Except.bind]
  split
  · exact Or.inr rfl
  · exact Or.inl ⟨_, rfl⟩

/-! ### the first half: closed form and totality -/

theorem charsetIsSJIS_cases (inp : EncInput) :
    charsetIsSJIS inp = .ok (match inp.charset with | some cs => cs.isSJIS | none => false) ∨
    charsetIsSJIS inp = .error .writer := by
  unfold charsetIsSJIS
  cases inp.charset with
  | none => left; rfl
  | some cs =>
    simp only
    cases cs.known
    · right; rfl
    · left; rfl

/-- `encodeFront` once level, character set and data bits are settled: the version decision (requested version
    iff in 1..40 and fitting, else the smallest fitting one, else refusal) followed by the character count -/
theorem encodeFront_shape (inp : EncInput) (ec : EC) (hec : ecOfInt inp.ecLevel = some ec)
    (hcs : charsetIsSJIS inp = .ok (match inp.charset with | some cs => cs.isSJIS | none => false))
    (data : Bits) (happ : appendBytes inp.content (modeOf inp) inp.encoded inp.sjis [] = .ok data) :
    encodeFront inp =
      match versionChoice inp ec (modeOf inp) (headerOf inp (modeOf inp)).length data.length with
      | some v =>
        (appendLengthInfo (numLettersOf inp (modeOf inp) data) (versionInfo v) (modeOf inp) (headerOf inp (modeOf inp))).bind
          (fun hb => .ok ⟨ec, modeOf inp, headerOf inp (modeOf inp), data, versionInfo v, hb ++ data⟩)
      | none => .error .writer := by
  unfold encodeFront
  simp only [hec, bind, Except.bind, pure, Except.pure]
  rw [hcs]
  simp only
  rw [chooseMode_eq]
  simp only
  rw [show appendBytes inp.content (refMode inp.content (match inp.charset with | some cs => cs.isSJIS | none => false) inp.sjis) inp.encoded inp.sjis [] = Except.ok data from happ]
  simp only
  generalize hm : modeOf inp = m
  have hmm : refMode inp.content (match inp.charset with | some cs => cs.isSJIS | none => false) inp.sjis = m := hm
  simp only [hmm]
  generalize hH : headerOf inp m = hdr
  unfold versionChoice
  cases hvh : inp.version with
  | none =>
    simp only
    rw [recommendVersion_eq_min]
    cases hmin : minVersion ec m hdr.length data.length with
    | none => rfl
    | some v =>
      simp only
  | some hint =>
    simp only
    by_cases hr : 1 ≤ versionHintInt hint ∧ versionHintInt hint ≤ 40
    · obtain ⟨v, hv⟩ : ∃ v : Nat, versionHintInt hint = (v : Int) := ⟨(versionHintInt hint).toNat, by omega⟩
      rw [hv] at hr ⊢
      have h1 : 1 ≤ v := by omega
      have h40 : v ≤ 40 := by omega
      rw [refTables_row v h1 h40]
      simp only [Int.toNat_natCast]
      have hrow := (row_facts v h1 h40 ec m).1
      have hcb : QRVersionChoice.calculateBitsNeeded tables m hdr.length data.length (versionInfo v) =
          .ok (hdr.length + QRVersionChoice.cbOf QRVersionChoice.refTables m v + data.length) := by
        have := QRVersionChoice.calculateBitsNeeded_ok (T := QRVersionChoice.refTables) Gzx.Properties.C13.ref_wf m hdr.length data.length h1 h40
        rw [hrow] at this
        exact this
      rw [hcb]
      simp only
      have hwf : QRVersionChoice.willFit (hdr.length + QRVersionChoice.cbOf QRVersionChoice.refTables m v + data.length) (versionInfo v) ec =
          .ok (QRVersionChoice.fitsBytes (QRVersionChoice.dataBytes QRVersionChoice.refTables v ec)
            (hdr.length + QRVersionChoice.cbOf QRVersionChoice.refTables m v + data.length)) := by
        have := QRVersionChoice.willFit_ok (T := QRVersionChoice.refTables) Gzx.Properties.C13.ref_wf h1 h40 ec
          (hdr.length + QRVersionChoice.cbOf QRVersionChoice.refTables m v + data.length)
        rw [hrow] at this
        exact this
      rw [hwf]
      simp only
      have hfe := fits_eq_fitsBits v h1 h40 ec m hdr.length data.length
      unfold Gzx.Properties.C13.fits Gzx.Properties.C13.bitsNeeded at hfe
      rw [hfe]
      cases hfit : fitsBits v ec m hdr.length data.length
      · simp [hr]
      · simp only [Bool.not_true, Bool.false_eq_true, if_false]
        have : ((1 : Int) ≤ (v : Int) ∧ (v : Int) ≤ 40 ∧ True) := ⟨by omega, by omega, trivial⟩
        rw [if_pos this]
    · have hno : ¬ (1 ≤ versionHintInt hint ∧ versionHintInt hint ≤ 40 ∧
          fitsBits (versionHintInt hint).toNat ec m hdr.length data.length = true) := fun h => hr ⟨h.1, h.2.1⟩
      rw [if_neg hno]
      unfold QRVersionChoice.getVersionForNumber
      have : versionHintInt hint < 1 ∨ versionHintInt hint > 40 := by omega
      simp [this]

/-- `encodeFront` is total: a front result whose version is a row 1..40 of the table, or a WriterException — for
    every content, level value and hint values of any dynamic type -/
theorem encodeFront_total (inp : EncInput) :
    (∃ f v, encodeFront inp = .ok f ∧ 1 ≤ v ∧ v ≤ 40 ∧ f.version = versionInfo v) ∨ encodeFront inp = .error .writer := by
  cases hec : ecOfInt inp.ecLevel with
  | none => right; unfold encodeFront; simp [hec, bind, Except.bind]
  | some ec =>
    rcases charsetIsSJIS_cases inp with hcs | hcs
    · rcases appendBytes_total inp with ⟨data, happ⟩ | happ
      · rw [encodeFront_shape inp ec hec hcs data happ]
        cases hch : versionChoice inp ec (modeOf inp) (headerOf inp (modeOf inp)).length data.length with
        | none => right; rfl
        | some v =>
          obtain ⟨h1, h40, _⟩ := versionChoice_range hch
          simp only
          rcases appendLengthInfo_total v h1 h40 (modeOf inp) (numLettersOf inp (modeOf inp) data) (headerOf inp (modeOf inp)) with ⟨hb, hl⟩ | hl
          · rw [hl]; left; exact ⟨_, v, rfl, h1, h40, rfl⟩
          · rw [hl]; right; rfl
      · right
        unfold encodeFront
        simp only [hec, bind, Except.bind, pure, Except.pure]
        rw [hcs]
        simp only
        rw [chooseMode_eq]
        simp only
        rw [show appendBytes inp.content (refMode inp.content (match inp.charset with | some cs => cs.isSJIS | none => false) inp.sjis) inp.encoded inp.sjis [] = Except.error Fault.writer from happ]
    · right
      unfold encodeFront
      simp only [hec, bind, Except.bind, pure, Except.pure]
      rw [hcs]

/-- `encode_total`: the whole `Encoder_encode` mirror returns a symbol or a WriterException — never a panic, never out
    of fuel — for EVERY content, level value and hint values -/
theorem encode_total {K : Kernels} (hK : KernelsOK K) (inp : EncInput) :
    (∃ t, encode K inp = .ok t ∧ 1 ≤ t.version ∧ t.version ≤ 40) ∨ encode K inp = .error .writer := by
  unfold encode
  rcases encodeFront_total inp with ⟨f, v, hf, h1, h40, hv⟩ | he
  · rw [hf]
    simp only [bind, Except.bind]
    by_cases hfit : f.headerAndDataBits.length ≤ 8 * dataCodewords v f.ec
    · obtain ⟨t, ht, _, htv, _⟩ := encodeBack_eq_ref hK v h1 h40 (funcOK_all v h1 h40) inp.mask f hv hfit
      left; exact ⟨t, ht, by omega, by omega⟩
    · right
      obtain ⟨b, hb, hnb, hnd, htotal⟩ := ecBlocks_facts v h1 h40 f.ec
      unfold encodeBack
      rw [hv, hb]
      rw [htotal] at hnd
      simp only [bind, Except.bind, htotal, hnd]
      rw [terminateBits_refuses _ _ (by omega)]
  · rw [he]; right; rfl

/-- `encode_eq_ref_full`: the whole call = the reference construction, with no hypothesis about mode or segment.
    Codec parameters: the Shift_JIS encoder yields bytes and (in Kanji mode) one rune per byte pair; the ECI value
    of the registry is below 128 (the code writes it in 8 bits). -/
theorem encode_eq_ref_full {K : Kernels} (hK : KernelsOK K)
    (inp : EncInput) (ec : EC) (hec : ecOfInt inp.ecLevel = some ec)
    (hcs : ∀ cs, inp.charset = some cs → cs.known = true)
    (hsj : ∀ bs, inp.sjis = some bs → ∀ b ∈ bs, b < 256)
    (hrc : ∀ bs, inp.sjis = some bs → modeOf inp = .kanji → inp.runeCount = bs.length / 2)
    (he : ∀ e, eciOf inp (modeOf inp) = some e → e < 128) :
    match refSegment inp (modeOf inp) with
    | none => encode K inp = .error .writer
    | some (count, data) =>
      match versionChoice inp ec (modeOf inp) (headerBits (eciOf inp (modeOf inp)) (gs1OfHint inp.gs1) (modeOf inp)).length data.length with
      | some v =>
        ∃ t, encode K inp = .ok t ∧ t.mode = modeOf inp ∧ t.version = v ∧
          t.headerAndDataBits = payloadBits v (headerBits (eciOf inp (modeOf inp)) (gs1OfHint inp.gs1) (modeOf inp)) (modeOf inp) count data ∧
          t.maskPattern = ((finalMask inp.mask v ec t.headerAndDataBits : Nat) : Int) ∧
          t.finalBits = bitsOfBytes (refCodewords v ec t.headerAndDataBits) ∧
          t.matrix = refByteMatrix v ec (finalMask inp.mask v ec t.headerAndDataBits) (refCodewords v ec t.headerAndDataBits)
      | none => encode K inp = .error .writer := by
  have hsjis : charsetIsSJIS inp = .ok (match inp.charset with | some cs => cs.isSJIS | none => false) := by
    unfold charsetIsSJIS
    cases hc : inp.charset with
    | none => rfl
    | some cs => simp [hcs cs hc, pure, Except.pure]
  cases href : refSegment inp (modeOf inp) with
  | none =>
    simp only
    have happ := appendBytes_refused inp hsj href
    unfold encode encodeFront
    simp only [hec, bind, Except.bind, pure, Except.pure]
    rw [hsjis]
    simp only
    rw [chooseMode_eq]
    simp only
    rw [show appendBytes inp.content (refMode inp.content (match inp.charset with | some cs => cs.isSJIS | none => false) inp.sjis) inp.encoded inp.sjis [] = Except.error Fault.writer from happ]
  | some cd =>
    obtain ⟨count, data⟩ := cd
    simp only
    obtain ⟨bytes, seg⟩ := segment_of_ref inp count data hsj hrc href
    exact encode_eq_ref hK inp ec hec hcs (modeOf inp) (chooseMode_eq _ _ _) bytes count data seg he
      (fun v hv => funcOK_all v (versionChoice_range hv).1 (versionChoice_range hv).2.1)

/-! ### the whole call against `QRRef.refEncode` -/

theorem versionChoice_eq_ref (inp : EncInput) (ec : EC) (m : Mode) (h d : Nat) :
    versionChoice inp ec m h d =
      (match (refConfig inp ec m).version with
       | some v => if 1 ≤ v ∧ v ≤ 40 ∧ fitsBits v (refConfig inp ec m).ec m h d then some v else none
       | none => minVersion (refConfig inp ec m).ec m h d) := by
  unfold versionChoice refConfig
  cases hv : inp.version with
  | none => rfl
  | some hint =>
    simp only [Option.map_some]
    by_cases h1 : 1 ≤ versionHintInt hint ∧ versionHintInt hint ≤ 40
    · by_cases hf : fitsBits (versionHintInt hint).toNat ec m h d = true
      · rw [if_pos ⟨h1.1, h1.2, hf⟩, if_pos ⟨by omega, by omega, hf⟩]
      · rw [if_neg (fun hh => hf hh.2.2), if_neg (fun hh => hf hh.2.2)]
    · rw [if_neg (fun hh => h1 ⟨hh.1, hh.2.1⟩)]
      by_cases h0 : versionHintInt hint < 1
      · have : (versionHintInt hint).toNat = 0 := by omega
        rw [this]; simp
      · rw [if_neg]
        intro hh; omega

/-- the version `refEncode` settles on -/
def refVersion (cfg : Config) (m : Mode) (hl dl : Nat) : Option Nat :=
  match cfg.version with
  | some v => if 1 ≤ v ∧ v ≤ 40 ∧ fitsBits v cfg.ec m hl dl then some v else none
  | none => minVersion cfg.ec m hl dl

/-- the symbol `refEncode` returns once the version is settled -/
def refSymbolOf (m : Mode) (cfg : Config) (count : Nat) (data : List Bool) (v : Nat) : Symbol :=
  let hdr := headerBits cfg.eci cfg.gs1 m
  let dcw := dataCodewordsOf v cfg.ec hdr m count data
  let cw := finalCodewords v cfg.ec dcw
  let mask := match cfg.mask with
    | some k => k
    | none => chooseMask v cfg.ec cw
  { mode := m, version := v, mask := mask, dataCodewords := dcw, codewords := cw, matrix := refMatrix v cfg.ec mask cw }

theorem refEncode_unfold (m : Mode) (bytes : List Nat) (cfg : Config) :
    refEncode m bytes cfg =
      (encodeData m bytes).bind (fun cd =>
        (refVersion cfg m (headerBits cfg.eci cfg.gs1 m).length cd.2.length).map (fun v => refSymbolOf m cfg cd.1 cd.2 v)) := by
  unfold refEncode refVersion
  cases encodeData m bytes with
  | none => rfl
  | some cd =>
    obtain ⟨count, data⟩ := cd
    simp only [Option.bind_eq_bind, Option.bind_some]
    cases cfg.version with
    | none =>
      simp only
      cases minVersion cfg.ec m (headerBits cfg.eci cfg.gs1 m).length data.length <;> rfl
    | some v =>
      simp only
      split <;> rfl

/-- `encode_eq_refEncode`: the mirror of `Encoder_encode` IS the reference encoder `QRRef.refEncode` (ISO/IEC 18004)
    run on the mode of the reference mode analysis, the mode's byte representation of the content and the
    configuration the hints amount to: same refusals, and on success the same mode, version, mask pattern, final
    codeword sequence and matrix (every module). -/
theorem encode_eq_refEncode {K : Kernels} (hK : KernelsOK K)
    (inp : EncInput) (ec : EC) (hec : ecOfInt inp.ecLevel = some ec)
    (hcs : ∀ cs, inp.charset = some cs → cs.known = true)
    (hsj : ∀ bs, inp.sjis = some bs → ∀ b ∈ bs, b < 256)
    (hrc : ∀ bs, inp.sjis = some bs → modeOf inp = .kanji → inp.runeCount = bs.length / 2)
    (he : ∀ e, eciOf inp (modeOf inp) = some e → e < 128) :
    match (modeBytes inp (modeOf inp)).bind (fun bytes => refEncode (modeOf inp) bytes (refConfig inp ec (modeOf inp))) with
    | none => encode K inp = .error .writer
    | some s =>
      ∃ t, encode K inp = .ok t ∧ t.mode = s.mode ∧ t.version = s.version ∧ t.maskPattern = ((s.mask : Nat) : Int) ∧
        t.finalBits = bitsOfBytes s.codewords ∧ t.matrix = refByteMatrix s.version ec s.mask s.codewords ∧
        t.matrix.bytes.map (fun r => r.map (· == 1)) = s.matrix := by
  have hfull := encode_eq_ref_full hK inp ec hec hcs hsj hrc he
  generalize hm : modeOf inp = m at hfull ⊢
  unfold refSegment at hfull
  cases hb : modeBytes inp m with
  | none => rw [hb] at hfull; simpa using hfull
  | some bytes =>
    rw [hb] at hfull
    simp only [Option.bind_some] at hfull ⊢
    rw [refEncode_unfold]
    cases hd : encodeData m bytes with
    | none => rw [hd] at hfull; simpa using hfull
    | some cd =>
      obtain ⟨count, data⟩ := cd
      rw [hd] at hfull
      simp only at hfull
      simp only [Option.bind_some]
      have hvc : refVersion (refConfig inp ec m) m (headerBits (refConfig inp ec m).eci (refConfig inp ec m).gs1 m).length data.length =
          versionChoice inp ec m (headerBits (eciOf inp m) (gs1OfHint inp.gs1) m).length data.length :=
        (versionChoice_eq_ref inp ec m _ _).symm
      rw [hvc]
      cases hch : versionChoice inp ec m (headerBits (eciOf inp m) (gs1OfHint inp.gs1) m).length data.length with
      | none => rw [hch] at hfull; simpa using hfull
      | some v =>
        rw [hch] at hfull
        simp only at hfull
        obtain ⟨t, ht, hmode, hv, hhd, hmask, hfb, hmat⟩ := hfull
        simp only [Option.map_some]
        have hcw : (refSymbolOf m (refConfig inp ec m) count data v).codewords = refCodewords v ec t.headerAndDataBits := by
          rw [hhd]; rfl
        have hmk : (refSymbolOf m (refConfig inp ec m) count data v).mask = finalMask inp.mask v ec t.headerAndDataBits := by
          unfold finalMask
          rw [← hcw]
          unfold refSymbolOf refConfig
          simp only
          by_cases hauto : maskOfHint inp.mask = -1
          · simp only [hauto, if_true]
          · simp only [hauto, if_false]
        have hver : (refSymbolOf m (refConfig inp ec m) count data v).version = v := rfl
        have hmat2 : (refSymbolOf m (refConfig inp ec m) count data v).matrix =
            refMatrix v ec (refSymbolOf m (refConfig inp ec m) count data v).mask
              (refSymbolOf m (refConfig inp ec m) count data v).codewords := rfl
        refine ⟨t, ht, hmode, hv, ?_, ?_, ?_, ?_⟩
        · rw [hmk]; exact hmask
        · rw [hcw]; exact hfb
        · rw [hver, hmk, hcw]; exact hmat
        · rw [hmat, hmat2, hmk, hcw]
          unfold refByteMatrix
          simp only [List.map_map]
          rw [List.map_congr_left (g := id)]
          · simp
          · intro r _
            simp only [Function.comp, id]
            rw [List.map_map, List.map_congr_left (g := id)]
            · simp
            · intro b _; cases b <;> rfl

end Gzx.QREnc
