/- wp `qrenc` — function-pattern stage of the coded embed loops = the standard's modules, versions 1, 2, 3, 4, 5 (kernel evaluation, one theorem per version) -/
import Gzx.Proofs.QREncFuncDefs
set_option maxRecDepth 1000000
namespace Gzx.QREnc.Func
theorem funcOK_1 : FuncOK 1 := by decide +kernel
theorem funcOK_2 : FuncOK 2 := by decide +kernel
theorem funcOK_3 : FuncOK 3 := by decide +kernel
theorem funcOK_4 : FuncOK 4 := by decide +kernel
theorem funcOK_5 : FuncOK 5 := by decide +kernel
end Gzx.QREnc.Func
