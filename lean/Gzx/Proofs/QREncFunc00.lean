/- wp `qrenc` — function-pattern stage of the coded embed loops = the standard's modules, versions 40 (kernel evaluation, one theorem per version) -/
import Gzx.Proofs.QREncFuncDefs
set_option maxRecDepth 1000000
namespace Gzx.QREnc.Func
theorem funcOK_40 : FuncOK 40 := by decide +kernel
end Gzx.QREnc.Func
