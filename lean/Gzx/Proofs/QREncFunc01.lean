/- wp `qrenc` — function-pattern stage of the coded embed loops = the standard's modules, versions 11, 39 (kernel evaluation, one theorem per version) -/
import Gzx.Proofs.QREncFuncDefs
set_option maxRecDepth 1000000
namespace Gzx.QREnc.Func
theorem funcOK_11 : FuncOK 11 := by decide +kernel
theorem funcOK_39 : FuncOK 39 := by decide +kernel
end Gzx.QREnc.Func
