/- wp `qrenc` — function-pattern stage of the coded embed loops = the standard's modules, versions 2, 5, 14, 38 (kernel evaluation, one theorem per version) -/
import Gzx.Proofs.QREncFuncDefs
set_option maxRecDepth 1000000
namespace Gzx.QREnc.Func
theorem funcOK_2 : FuncOK 2 := by decide +kernel
theorem funcOK_5 : FuncOK 5 := by decide +kernel
theorem funcOK_14 : FuncOK 14 := by decide +kernel
theorem funcOK_38 : FuncOK 38 := by decide +kernel
end Gzx.QREnc.Func
