/- wp `qrenc` — function-pattern stage of the coded embed loops = the standard's modules, versions 20, 37 (kernel evaluation, one theorem per version) -/
import Gzx.Proofs.QREncFuncDefs
set_option maxRecDepth 1000000
namespace Gzx.QREnc.Func
theorem funcOK_20 : FuncOK 20 := by decide +kernel
theorem funcOK_37 : FuncOK 37 := by decide +kernel
end Gzx.QREnc.Func
