/- wp `qrenc` — function-pattern stage of the coded embed loops = the standard's modules, versions 8, 21, 36 (kernel evaluation, one theorem per version) -/
import Gzx.Proofs.QREncFuncDefs
set_option maxRecDepth 1000000
namespace Gzx.QREnc.Func
theorem funcOK_8 : FuncOK 8 := by decide +kernel
theorem funcOK_21 : FuncOK 21 := by decide +kernel
theorem funcOK_36 : FuncOK 36 := by decide +kernel
end Gzx.QREnc.Func
