/- wp `qrenc` — function-pattern stage of the coded embed loops = the standard's modules, versions 12, 22, 35 (kernel evaluation, one theorem per version) -/
import Gzx.Proofs.QREncFuncDefs
set_option maxRecDepth 1000000
namespace Gzx.QREnc.Func
theorem funcOK_12 : FuncOK 12 := by decide +kernel
theorem funcOK_22 : FuncOK 22 := by decide +kernel
theorem funcOK_35 : FuncOK 35 := by decide +kernel
end Gzx.QREnc.Func
