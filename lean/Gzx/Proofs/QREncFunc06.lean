/- wp `qrenc` — function-pattern stage of the coded embed loops = the standard's modules, versions 7, 13, 23, 34 (kernel evaluation, one theorem per version) -/
import Gzx.Proofs.QREncFuncDefs
set_option maxRecDepth 1000000
namespace Gzx.QREnc.Func
theorem funcOK_7 : FuncOK 7 := by decide +kernel
theorem funcOK_13 : FuncOK 13 := by decide +kernel
theorem funcOK_23 : FuncOK 23 := by decide +kernel
theorem funcOK_34 : FuncOK 34 := by decide +kernel
end Gzx.QREnc.Func
