/- wp `qrenc` — function-pattern stage of the coded embed loops = the standard's modules, versions 1, 6, 15, 24, 33 (kernel evaluation, one theorem per version) -/
import Gzx.Proofs.QREncFuncDefs
set_option maxRecDepth 1000000
namespace Gzx.QREnc.Func
theorem funcOK_1 : FuncOK 1 := by decide +kernel
theorem funcOK_6 : FuncOK 6 := by decide +kernel
theorem funcOK_15 : FuncOK 15 := by decide +kernel
theorem funcOK_24 : FuncOK 24 := by decide +kernel
theorem funcOK_33 : FuncOK 33 := by decide +kernel
end Gzx.QREnc.Func
