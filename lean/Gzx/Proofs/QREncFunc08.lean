/- wp `qrenc` — function-pattern stage of the coded embed loops = the standard's modules, versions 10, 16, 25, 32 (kernel evaluation, one theorem per version) -/
import Gzx.Proofs.QREncFuncDefs
set_option maxRecDepth 1000000
namespace Gzx.QREnc.Func
theorem funcOK_10 : FuncOK 10 := by decide +kernel
theorem funcOK_16 : FuncOK 16 := by decide +kernel
theorem funcOK_25 : FuncOK 25 := by decide +kernel
theorem funcOK_32 : FuncOK 32 := by decide +kernel
end Gzx.QREnc.Func
