/- wp `qrenc` — function-pattern stage of the coded embed loops = the standard's modules, versions 6, 7, 8 (kernel evaluation, one theorem per version) -/
import Gzx.Proofs.QREncFuncDefs
set_option maxRecDepth 1000000
namespace Gzx.QREnc.Func
theorem funcOK_6 : FuncOK 6 := by decide +kernel
theorem funcOK_7 : FuncOK 7 := by decide +kernel
theorem funcOK_8 : FuncOK 8 := by decide +kernel
end Gzx.QREnc.Func
