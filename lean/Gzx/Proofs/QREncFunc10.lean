/- wp `qrenc` — function-pattern stage of the coded embed loops = the standard's modules, versions 3, 4, 18, 27, 30 (kernel evaluation, one theorem per version) -/
import Gzx.Proofs.QREncFuncDefs
set_option maxRecDepth 1000000
namespace Gzx.QREnc.Func
theorem funcOK_3 : FuncOK 3 := by decide +kernel
theorem funcOK_4 : FuncOK 4 := by decide +kernel
theorem funcOK_18 : FuncOK 18 := by decide +kernel
theorem funcOK_27 : FuncOK 27 := by decide +kernel
theorem funcOK_30 : FuncOK 30 := by decide +kernel
end Gzx.QREnc.Func
