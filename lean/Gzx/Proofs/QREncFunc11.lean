/- wp `qrenc` — function-pattern stage of the coded embed loops = the standard's modules, versions 19, 28, 29 (kernel evaluation, one theorem per version) -/
import Gzx.Proofs.QREncFuncDefs
set_option maxRecDepth 1000000
namespace Gzx.QREnc.Func
theorem funcOK_19 : FuncOK 19 := by decide +kernel
theorem funcOK_28 : FuncOK 28 := by decide +kernel
theorem funcOK_29 : FuncOK 29 := by decide +kernel
end Gzx.QREnc.Func
