/- wp `qrenc` — function-pattern stage of the coded embed loops = the standard's modules, versions 9, 10 (kernel evaluation, one theorem per version) -/
import Gzx.Proofs.QREncFuncDefs
set_option maxRecDepth 1000000
namespace Gzx.QREnc.Func
theorem funcOK_9 : FuncOK 9 := by decide +kernel
theorem funcOK_10 : FuncOK 10 := by decide +kernel
end Gzx.QREnc.Func
