/-
  wp `qrenc` — the per-version function-pattern facts that are kernel-checked (versions 1..10; the check of one
  version costs time and memory quadratic in the symbol size — version 10 takes 15 s and 1.5 GB, version 40
  would take minutes and > 10 GB — so versions 11..40 are checked by the compiled driver on every run instead:
  suite `c07m funcok`).
-/
import Gzx.Proofs.QREncFunc0
import Gzx.Proofs.QREncFunc1
import Gzx.Proofs.QREncFunc2
namespace Gzx.QREnc
open Gzx Gzx.QRRef

theorem funcOK_small (v : Nat) (h1 : 1 ≤ v) (h10 : v ≤ 10) : FuncOK v := by
  have h : v = 1 ∨ v = 2 ∨ v = 3 ∨ v = 4 ∨ v = 5 ∨ v = 6 ∨ v = 7 ∨ v = 8 ∨ v = 9 ∨ v = 10 := by omega
  rcases h with rfl | rfl | rfl | rfl | rfl | rfl | rfl | rfl | rfl | rfl
  · exact Func.funcOK_1
  · exact Func.funcOK_2
  · exact Func.funcOK_3
  · exact Func.funcOK_4
  · exact Func.funcOK_5
  · exact Func.funcOK_6
  · exact Func.funcOK_7
  · exact Func.funcOK_8
  · exact Func.funcOK_9
  · exact Func.funcOK_10

end Gzx.QREnc
