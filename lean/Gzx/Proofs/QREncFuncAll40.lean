/-
  wp `enc2` — `FuncOK v` for EVERY version 1..40: the coded function-pattern loops (embedBasicPatterns, embedTypeInfo,
  maybeEmbedVersionInfo), started on the cleared matrix, leave exactly the standard's function modules and nothing else.
-/
import Gzx.Proofs.QREncFuncV01
import Gzx.Proofs.QREncFuncV06
import Gzx.Proofs.QREncFuncV11
import Gzx.Proofs.QREncFuncV16
import Gzx.Proofs.QREncFuncV21
import Gzx.Proofs.QREncFuncV24
import Gzx.Proofs.QREncFuncV27
import Gzx.Proofs.QREncFuncV30
import Gzx.Proofs.QREncFuncV33
import Gzx.Proofs.QREncFuncV36
import Gzx.Proofs.QREncFuncV39
namespace Gzx.QREnc
open Gzx Gzx.QRRef

theorem funcOK_all (v : Nat) (h1 : 1 ≤ v) (h40 : v ≤ 40) : FuncOK v := by
  have h : v = 1 ∨ v = 2 ∨ v = 3 ∨ v = 4 ∨ v = 5 ∨ v = 6 ∨ v = 7 ∨ v = 8 ∨ v = 9 ∨ v = 10 ∨ v = 11 ∨ v = 12 ∨ v = 13 ∨ v = 14 ∨ v = 15 ∨ v = 16 ∨ v = 17 ∨ v = 18 ∨ v = 19 ∨ v = 20 ∨ v = 21 ∨ v = 22 ∨ v = 23 ∨ v = 24 ∨ v = 25 ∨ v = 26 ∨ v = 27 ∨ v = 28 ∨ v = 29 ∨ v = 30 ∨ v = 31 ∨ v = 32 ∨ v = 33 ∨ v = 34 ∨ v = 35 ∨ v = 36 ∨ v = 37 ∨ v = 38 ∨ v = 39 ∨ v = 40 := by omega
  rcases h with rfl | rfl | rfl | rfl | rfl | rfl | rfl | rfl | rfl | rfl | rfl | rfl | rfl | rfl | rfl | rfl | rfl | rfl | rfl | rfl | rfl | rfl | rfl | rfl | rfl | rfl | rfl | rfl | rfl | rfl | rfl | rfl | rfl | rfl | rfl | rfl | rfl | rfl | rfl | rfl
  · exact FuncV.funcOK_1
  · exact FuncV.funcOK_2
  · exact FuncV.funcOK_3
  · exact FuncV.funcOK_4
  · exact FuncV.funcOK_5
  · exact FuncV.funcOK_6
  · exact FuncV.funcOK_7
  · exact FuncV.funcOK_8
  · exact FuncV.funcOK_9
  · exact FuncV.funcOK_10
  · exact FuncV.funcOK_11
  · exact FuncV.funcOK_12
  · exact FuncV.funcOK_13
  · exact FuncV.funcOK_14
  · exact FuncV.funcOK_15
  · exact FuncV.funcOK_16
  · exact FuncV.funcOK_17
  · exact FuncV.funcOK_18
  · exact FuncV.funcOK_19
  · exact FuncV.funcOK_20
  · exact FuncV.funcOK_21
  · exact FuncV.funcOK_22
  · exact FuncV.funcOK_23
  · exact FuncV.funcOK_24
  · exact FuncV.funcOK_25
  · exact FuncV.funcOK_26
  · exact FuncV.funcOK_27
  · exact FuncV.funcOK_28
  · exact FuncV.funcOK_29
  · exact FuncV.funcOK_30
  · exact FuncV.funcOK_31
  · exact FuncV.funcOK_32
  · exact FuncV.funcOK_33
  · exact FuncV.funcOK_34
  · exact FuncV.funcOK_35
  · exact FuncV.funcOK_36
  · exact FuncV.funcOK_37
  · exact FuncV.funcOK_38
  · exact FuncV.funcOK_39
  · exact FuncV.funcOK_40

end Gzx.QREnc
