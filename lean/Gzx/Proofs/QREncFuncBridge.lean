/-
  wp `enc2` — the packed matrix (Proofs/QREncFuncPacked.lean) simulates the `ByteMatrix` of the mirror model:
  get-after-set laws of the packed byte operations, the simulation relation, and
  "packed run succeeds with the standard's cells  ⇒  `FuncOK v`".
-/
import Gzx.Proofs.QREncFuncPacked
import Gzx.Proofs.QREncFuncSim
namespace Gzx.QREnc
open Gzx Gzx.QRRef

/-! ### bytes of a natural number -/

theorem byte_put (M k b j : Nat) (hb : b < 256) :
    ((M ^^^ ((((M >>> (8 * k)) % 256) ^^^ b) <<< (8 * k))) >>> (8 * j)) % 256 =
      if j = k then b else (M >>> (8 * j)) % 256 := by
  have hd : ((M >>> (8 * k)) % 256) ^^^ b < 2 ^ 8 :=
    Nat.xor_lt_two_pow (Nat.mod_lt _ (by decide)) hb
  apply Nat.eq_of_testBit_eq
  intro i
  show ((_ >>> _) % 2 ^ 8).testBit i = _
  rw [Nat.testBit_mod_two_pow, Nat.testBit_shiftRight, Nat.testBit_xor, Nat.testBit_shiftLeft]
  by_cases hi : i < 8
  · by_cases hjk : j = k
    · subst hjk
      rw [if_pos rfl]
      have h1 : 8 * j + i ≥ 8 * j := by omega
      have h2 : 8 * j + i - 8 * j = i := by omega
      rw [h2, Nat.testBit_xor]
      show (decide (i < 8) && (M.testBit (8 * j + i) ^^ (decide (8 * j + i ≥ 8 * j) && (((M >>> (8 * j)) % 2 ^ 8).testBit i ^^ b.testBit i)))) = _
      rw [Nat.testBit_mod_two_pow, Nat.testBit_shiftRight]
      simp only [hi, h1, decide_true, Bool.true_and]
      cases M.testBit (8 * j + i) <;> cases b.testBit i <;> rfl
    · rw [if_neg hjk]
      show _ = ((M >>> (8 * j)) % 2 ^ 8).testBit i
      rw [Nat.testBit_mod_two_pow, Nat.testBit_shiftRight]
      by_cases hlt : 8 * j + i ≥ 8 * k
      · have hge : 8 * j + i - 8 * k ≥ 8 := by omega
        have : (((M >>> (8 * k)) % 256) ^^^ b).testBit (8 * j + i - 8 * k) = false :=
          Nat.testBit_lt_two_pow (Nat.lt_of_lt_of_le hd (Nat.pow_le_pow_right (by decide : 2 > 0) hge))
        rw [this]
        simp
      · simp [hlt]
  · simp only [hi, decide_false, Bool.false_and]
    by_cases hjk : j = k
    · rw [if_pos hjk]
      exact (Nat.testBit_lt_two_pow (Nat.lt_of_lt_of_le hb (Nat.pow_le_pow_right (by decide : 2 > 0) (by omega : 8 ≤ i)))).symm
    · rw [if_neg hjk]
      show _ = ((M >>> (8 * j)) % 2 ^ 8).testBit i
      rw [Nat.testBit_mod_two_pow]
      simp [hi]

theorem pos_inj {n x y x' y' : Nat} (hx : x < n) (hx' : x' < n) (h : y' * n + x' = y * n + x) : x' = x ∧ y' = y := by
  have hn : 0 < n := by omega
  have m1 : (y * n + x) % n = x := by rw [Nat.mul_comm, Nat.mul_add_mod, Nat.mod_eq_of_lt hx]
  have m2 : (y' * n + x') % n = x' := by rw [Nat.mul_comm, Nat.mul_add_mod, Nat.mod_eq_of_lt hx']
  have d1 : (y * n + x) / n = y := by
    rw [Nat.mul_comm, Nat.mul_add_div hn y x, Nat.div_eq_of_lt hx]; rfl
  have d2 : (y' * n + x') / n = y' := by
    rw [Nat.mul_comm, Nat.mul_add_div hn y' x', Nat.div_eq_of_lt hx']; rfl
  rw [h] at m2 d2
  exact ⟨by omega, by omega⟩

theorem pbyte_pput {n : Nat} (M : Nat) {x y x' y' : Nat} (hx : x < n) (hx' : x' < n) (b : Nat) (hb : b < 256) :
    pbyte n (pput n M x y b) x' y' = if x' = x ∧ y' = y then b else pbyte n M x' y' := by
  unfold pput pbyte ppos
  rw [byte_put M (y * n + x) b (y' * n + x') hb]
  by_cases h : y' * n + x' = y * n + x
  · rw [if_pos h, if_pos (pos_inj hx hx' h)]
  · rw [if_neg h]
    have : ¬ (x' = x ∧ y' = y) := by
      intro hh; apply h; rw [hh.1, hh.2]
    rw [if_neg this]

theorem pcell_zero (n x y : Nat) : pcell n 0 x y = -1 := by
  unfold pcell pbyte
  simp

/-! ### the simulation relation -/

def PRel (n : Nat) (m : ByteMatrix) (M : Nat) : Prop :=
  WFM n m ∧ ∀ x y, x < n → y < n → cell m x y = pcell n M x y

theorem wfm_empty (n : Nat) : WFM n (emptyMatrix n) := by
  refine ⟨rfl, rfl, ?_, ?_⟩
  · simp [emptyMatrix]
  · intro r hr
    simp only [emptyMatrix] at hr
    rw [List.eq_of_mem_replicate hr]
    simp

theorem cell_empty (n x y : Nat) (hx : x < n) (hy : y < n) : cell (emptyMatrix n) x y = -1 := by
  unfold cell emptyMatrix
  simp [List.getD_eq_getElem?_getD, List.getElem?_replicate, hx, hy]

theorem prel_empty (n : Nat) : PRel n (emptyMatrix n) 0 :=
  ⟨wfm_empty n, fun x y hx hy => by rw [cell_empty n x y hx hy, pcell_zero]⟩

theorem simH_packed (n : Nat) : SimH bmI (pkI n) (PRel n) where
  get := by
    intro m M x y c hR h
    show m.get x y = .ok c
    change pGet n M x y = .ok c at h
    unfold pGet at h
    split at h
    · rename_i hr
      simp only [Except.ok.injEq] at h
      have hx : x = (x.toNat : Int) := by omega
      have hy : y = (y.toNat : Int) := by omega
      rw [hx, hy, get_nat hR.1 (by omega) (by omega), hR.2 _ _ (by omega) (by omega), h]
    · simp [panicIdx] at h
  set := by
    intro x y v m M M' hR h
    show ∃ m', m.set x y v = .ok m' ∧ PRel n m' M'
    change pSet n M x y v = .ok M' at h
    unfold pSet at h
    split at h
    · rename_i hr
      simp only [Except.ok.injEq] at h
      have hx : x = (x.toNat : Int) := by omega
      have hy : y = (y.toNat : Int) := by omega
      have hxn : x.toNat < n := by omega
      have hyn : y.toNat < n := by omega
      refine ⟨setC m x.toNat y.toNat v, ?_, setC_wfm hR.1 _ _ _, ?_⟩
      · conv => lhs; rw [hx, hy]
        exact set_nat hR.1 hxn hyn v
      · intro x' y' hx' hy'
        rw [cell_setC hR.1 hxn hyn, ← h]
        unfold pcell
        rw [pbyte_pput M hxn hx' _ (by omega)]
        by_cases hc : x' = x.toNat ∧ y' = y.toNat
        · rw [if_pos hc, if_pos hc]; omega
        · rw [if_neg hc, if_neg hc]
          have := hR.2 x' y' hx' hy'
          unfold pcell at this
          exact this
    · simp [panicIdx] at h
  width := fun m M hR => hR.1.w
  height := fun m M hR => hR.1.h

/-! ### from the packed run to `FuncOK` -/

theorem wfm_tagRows (v : Nat) : WFM (dimension v) ⟨tagRows v, dimension v, dimension v⟩ := by
  refine ⟨rfl, rfl, ?_, ?_⟩
  · simp [tagRows]
  · intro r hr
    simp only [tagRows, List.mem_map, List.mem_range] at hr
    obtain ⟨y, _, rfl⟩ := hr
    simp

theorem cell_tagRows (v x y : Nat) (hx : x < dimension v) (hy : y < dimension v) :
    cell ⟨tagRows v, dimension v, dimension v⟩ x y = tagCell v x y := by
  unfold cell tagRows
  simp [List.getD_eq_getElem?_getD, List.getElem?_map, List.getElem?_range, hx, hy]

/-- well-formed matrices with the same cells are equal -/
theorem wfm_ext' {n : Nat} {a b : ByteMatrix} (ha : WFM n a) (hb : WFM n b)
    (h : ∀ x y, x < n → y < n → cell a x y = cell b x y) : a = b := by
  have hbytes : a.bytes = b.bytes := by
    apply List.ext_getElem
    · rw [ha.rows, hb.rows]
    · intro y h1 h2
      have hy : y < n := by rw [← ha.rows]; exact h1
      apply List.ext_getElem
      · rw [ha.cols _ (List.getElem_mem h1), hb.cols _ (List.getElem_mem h2)]
      · intro x hx1 hx2
        have hx : x < n := by rw [← ha.cols _ (List.getElem_mem h1)]; exact hx1
        have := h x y hx hy
        unfold cell at this
        simpa [List.getD_eq_getElem?_getD, List.getElem?_eq_getElem h1, List.getElem?_eq_getElem h2,
          List.getElem?_eq_getElem hx1, List.getElem?_eq_getElem hx2] using this
  cases a with
  | mk ab aw ah =>
    cases b with
    | mk bb bw bh =>
      have h1 := ha.w; have h2 := ha.h; have h3 := hb.w; have h4 := hb.h
      simp only at hbytes h1 h2 h3 h4
      subst hbytes
      rw [h1, h2, h3, h4]

/-- the packed run leaving the standard's tag cells proves the per-version statement about the mirror model -/
theorem funcOK_of_packed (v : Nat) (M : Nat) (hrun : gFunctionTags (pkI (dimension v)) v 0 = .ok M)
    (hcells : ∀ x y, x < dimension v → y < dimension v → pcell (dimension v) M x y = tagCell v x y) : FuncOK v := by
  obtain ⟨m, hm, hR⟩ := fwd_FunctionTags (simH_packed (dimension v)) v _ _ _ (prel_empty (dimension v)) hrun
  unfold FuncOK
  rw [← gFunctionTags_bm, hm]
  congr 1
  apply wfm_ext' hR.1 (wfm_tagRows v)
  intro x y hx hy
  rw [hR.2 x y hx hy, hcells x y hx hy, cell_tagRows v x y hx hy]

end Gzx.QREnc
