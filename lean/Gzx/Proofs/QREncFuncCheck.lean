/-
  wp `enc2` — the per-version kernel check of the function-pattern stage, made cheap:
  the packed matrix is cut into rows (one shift + one `%` per row); a plain row is compared with one number, a
  plain column cell with one byte, only the crossings of the finder / format / version / alignment bands are
  compared with the standard's `tagCell`.  `funcOK_of_check` turns a successful check into `FuncOK v`.
-/
import Gzx.Proofs.QREncFuncBridge
import Gzx.Proofs.QREncFuncPlain
namespace Gzx.QREnc
open Gzx Gzx.QRRef

/-- evaluate a number once (the kernel reduces the scrutinee to a literal) and hand it on -/
def forceNat {β : Type} (m : Nat) (k : Nat → β) : β :=
  match m with
  | 0 => k 0
  | j + 1 => k (j + 1)

theorem forceNat_eq {β : Type} (m : Nat) (k : Nat → β) : forceNat m k = k m := by
  cases m <;> rfl

/-- stored byte of a timing module -/
def timB (x y : Nat) : Nat := if (x + y) % 2 == 0 then 2 else 1

theorem timB_cell (x y : Nat) : ((timB x y : Nat) : Int) - 1 = b2i ((x + y) % 2 == 0) := by
  unfold timB b2i
  cases (x + y) % 2 == 0 <;> simp

/-- row `y` of the packed matrix -/
def prow (n M y : Nat) : Nat := (M >>> (8 * (y * n))) % 2 ^ (8 * n)

theorem pbyte_prow {n x : Nat} (M y : Nat) (hx : x < n) : pbyte n M x y = (prow n M y >>> (8 * x)) % 256 := by
  unfold pbyte prow ppos
  apply Nat.eq_of_testBit_eq
  intro i
  show ((_ >>> _) % 2 ^ 8).testBit i = ((_ >>> _) % 2 ^ 8).testBit i
  rw [Nat.testBit_mod_two_pow, Nat.testBit_mod_two_pow, Nat.testBit_shiftRight, Nat.testBit_shiftRight,
    Nat.testBit_mod_two_pow, Nat.testBit_shiftRight]
  by_cases hi : i < 8
  · have h1 : 8 * x + i < 8 * n := by omega
    have h2 : 8 * (y * n + x) + i = 8 * (y * n) + (8 * x + i) := by omega
    simp [hi, h1, h2]
  · simp [hi]

theorem byte_of_shift48 (c x : Nat) (hc : c < 256) : ((c <<< 48) >>> (8 * x)) % 256 = if x = 6 then c else 0 := by
  apply Nat.eq_of_testBit_eq
  intro i
  show ((_ >>> _) % 2 ^ 8).testBit i = _
  rw [Nat.testBit_mod_two_pow, Nat.testBit_shiftRight, Nat.testBit_shiftLeft]
  by_cases hi : i < 8
  · by_cases hx : x = 6
    · subst hx
      have : 8 * 6 + i - 48 = i := by omega
      simp [hi, this]
    · rw [if_neg hx]
      by_cases hge : 8 * x + i ≥ 48
      · have : c.testBit (8 * x + i - 48) = false :=
          Nat.testBit_lt_two_pow (Nat.lt_of_lt_of_le hc (Nat.pow_le_pow_right (by decide : 2 > 0) (by omega : 8 ≤ 8 * x + i - 48)))
        simp [this]
      · simp [hge]
  · simp only [hi, decide_false, Bool.false_and]
    by_cases hx : x = 6
    · rw [if_pos hx]
      exact (Nat.testBit_lt_two_pow (Nat.lt_of_lt_of_le hc (Nat.pow_le_pow_right (by decide : 2 > 0) (by omega : 8 ≤ i)))).symm
    · rw [if_neg hx]; simp

/-- the cells of a row that is not plain -/
def rowChk (n : Nat) (cs : List Nat) (v y R : Nat) : Bool :=
  (List.range n).all (fun x =>
    if plainT n cs x then (R >>> (8 * x)) % 256 == (if y = 6 then timB x y else 0)
    else (((R >>> (8 * x)) % 256 : Nat) : Int) - 1 == tagCell v x y)

/-- all cells of the packed matrix against the standard's tag cells -/
def pcheck2 (n : Nat) (cs : List Nat) (v M : Nat) : Bool :=
  forceNat M (fun M =>
    (List.range n).all (fun y =>
      forceNat (prow n M y) (fun R =>
        if plainT n cs y then R == (timB 6 y) <<< 48 else rowChk n cs v y R)))

def pfuncCheck2 (v : Nat) (cs : List Nat) : Bool :=
  match gFunctionTags (pkI (dimension v)) v 0 with
  | .ok M => pcheck2 (dimension v) cs v M
  | .error _ => false

theorem timB_lt (x y : Nat) : timB x y < 256 := by unfold timB; split <;> decide

theorem pcheck2_cells (v : Nat) (cs : List Nat) (hcs : alignCentres v = cs) (M : Nat)
    (h : pcheck2 (dimension v) cs v M = true) (x y : Nat) (hx : x < dimension v) (hy : y < dimension v) :
    pcell (dimension v) M x y = tagCell v x y := by
  subst hcs
  unfold pcheck2 at h
  rw [forceNat_eq, List.all_eq_true] at h
  have hrow := h y (List.mem_range.mpr hy)
  rw [forceNat_eq] at hrow
  unfold pcell
  rw [pbyte_prow M y hx]
  by_cases hp : plainT (dimension v) (alignCentres v) y = true
  · rw [if_pos hp] at hrow
    have hR : prow (dimension v) M y = timB 6 y <<< 48 := by simpa using hrow
    rw [hR, byte_of_shift48 _ _ (timB_lt 6 y), tagCell_plainRow v x y hp]
    by_cases hx6 : x = 6
    · subst hx6
      rw [if_pos rfl, if_pos rfl, timB_cell]
    · rw [if_neg hx6, if_neg hx6]; rfl
  · rw [if_neg hp] at hrow
    unfold rowChk at hrow
    rw [List.all_eq_true] at hrow
    have hc := hrow x (List.mem_range.mpr hx)
    by_cases hq : plainT (dimension v) (alignCentres v) x = true
    · rw [if_pos hq] at hc
      have hb : (prow (dimension v) M y >>> (8 * x)) % 256 = if y = 6 then timB x y else 0 := by simpa using hc
      rw [hb, tagCell_plainCol v x y hq]
      by_cases hy6 : y = 6
      · rw [if_pos hy6, if_pos hy6, timB_cell]
      · rw [if_neg hy6, if_neg hy6]; rfl
    · rw [if_neg hq] at hc
      simpa using hc

/-- the per-version check proves the per-version statement about the mirror model -/
theorem funcOK_of_check (v : Nat) (cs : List Nat) (hcs : alignCentres v = cs) (h : pfuncCheck2 v cs = true) :
    FuncOK v := by
  unfold pfuncCheck2 at h
  generalize hM : gFunctionTags (pkI (dimension v)) v 0 = r at h
  cases r with
  | error e => cases h
  | ok M => exact funcOK_of_packed v M hM (pcheck2_cells v cs hcs M h)

end Gzx.QREnc
