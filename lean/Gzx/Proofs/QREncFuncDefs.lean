/-
  wp `qrenc` — the function-pattern stage of `MatrixUtil_buildMatrix` run with POSITION TAGS in place of the
  type-info / version-info bits: definitions for the per-version kernel checks `Proofs/QREncFunc*.lean`
  ("the coded embed loops, started on the cleared matrix, leave exactly this at every module").
-/
import Gzx.Model.QREncMatrix
namespace Gzx.QREnc
open Gzx Gzx.QRRef

/-- the matrix after `clearMatrix` -/
def emptyMatrix (n : Nat) : ByteMatrix := ⟨List.replicate n (List.replicate n (-1)), n, n⟩

/-- value written for type-info bit `i` (0 = least significant): `100 + i`; the list is most significant first -/
def tags15 : List Int := (List.range 15).map (fun p => ((100 + (14 - p) : Nat) : Int))
/-- value written for version-info bit `i`: `200 + i` -/
def tags18 : List Int := (List.range 18).map (fun p => ((200 + (17 - p) : Nat) : Int))

/-- embedBasicPatterns, embedTypeInfo, maybeEmbedVersionInfo with tags as bit values -/
def functionTags (v : Nat) : Res ByteMatrix := do
  let m ← embedBasicPatterns v (emptyMatrix (dimension v))
  let m ← embedTypeInfoVals tags15 m
  if v < 7 then pure m else embedVersionInfoVals tags18 m

/-- what the standard puts at module (x, y), with the format / version bits as tags; -1 = data module -/
def tagCell (v x y : Nat) : Int :=
  let n := dimension v
  match regionOf v x y with
  | .finder => b2i (finderDark v x y)
  | .separator => 0
  | .timing => b2i ((x + y) % 2 == 0)
  | .alignment => b2i (alignmentDark v x y)
  | .dark => 1
  | .format =>
    match (List.range 15).find? (fun i => formatPos1 i == (x, y) || formatPos2 n i == (x, y)) with
    | some i => ((100 + i : Nat) : Int)
    | none => 0      -- (never happens; the reference draws such a module light)
  | .version =>
    match (List.range 18).find? (fun i => versionPos1 n i == (x, y) || versionPos2 n i == (x, y)) with
    | some i => ((200 + i : Nat) : Int)
    | none => 0      -- (never happens; the reference draws such a module light)
  | .data => -1

def tagRows (v : Nat) : List (List Int) :=
  (List.range (dimension v)).map (fun y => (List.range (dimension v)).map (fun x => tagCell v x y))

/-- the per-version statement -/
def FuncOK (v : Nat) : Prop := functionTags v = .ok ⟨tagRows v, dimension v, dimension v⟩

instance (v : Nat) : Decidable (FuncOK v) := by unfold FuncOK; exact inferInstance

end Gzx.QREnc
