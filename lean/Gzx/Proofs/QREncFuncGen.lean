/-
  wp `enc2` — the function-pattern loops of matrix_util.go (Model/QREncMatrix.lean) written ONCE over an abstract
  matrix interface (`MI`: Get / Set / width / height).  Instantiated with the `ByteMatrix` operations they ARE the
  model's functions (`g…_bm`, by `rfl`); instantiated with a matrix packed into one natural number
  (Proofs/QREncFuncPacked.lean) they are a program the kernel evaluates in linear time and little memory.
  `Proofs/QREncFuncSim.lean` proves that the two instances simulate each other.
-/
import Gzx.Proofs.QREncFuncDefs
namespace Gzx.QREnc
open Gzx Gzx.QRRef

/-- the operations of byte_matrix.go the embed loops use -/
structure MI (σ : Type) where
  get : σ → Int → Int → Res Int
  set : σ → Int → Int → Int → Res σ
  width : σ → Int
  height : σ → Int

/-- the interface as `ByteMatrix` implements it -/
def bmI : MI ByteMatrix := ⟨ByteMatrix.get, ByteMatrix.set, ByteMatrix.width, ByteMatrix.height⟩

variable {σ : Type} (I : MI σ)

def gPDP (xStart yStart : Int) (m : σ) : Res σ :=
  forRange 0 7 (fun y m => do
    let patternY ← idx pdp y
    forRange 0 7 (fun x m => do
      let v ← idx patternY x
      I.set m (xStart + x) (yStart + y) v) m) m

def gPAP (xStart yStart : Int) (m : σ) : Res σ :=
  forRange 0 5 (fun y m => do
    let patternY ← idx pap y
    forRange 0 5 (fun x m => do
      let v ← idx patternY x
      I.set m (xStart + x) (yStart + y) v) m) m

def gHSep (xStart yStart : Int) (m : σ) : Res σ :=
  forRange 0 8 (fun x m => do
    if !isEmpty (← I.get m (xStart + x) yStart) then .error .writer
    I.set m (xStart + x) yStart 0) m

def gVSep (xStart yStart : Int) (m : σ) : Res σ :=
  forRange 0 7 (fun y m => do
    if !isEmpty (← I.get m xStart (yStart + y)) then .error .writer
    I.set m xStart (yStart + y) 0) m

def gPDPs (m : σ) : Res σ := do
  let pdpWidth : Int := 7
  let m ← gPDP I 0 0 m
  let m ← gPDP I (I.width m - pdpWidth) 0 m
  let m ← gPDP I 0 (I.width m - pdpWidth) m
  let hspWidth : Int := 8
  let m ← gHSep I 0 (hspWidth - 1) m
  let m ← gHSep I (I.width m - hspWidth) (hspWidth - 1) m
  let m ← gHSep I 0 (I.width m - hspWidth) m
  let vspSize : Int := 7
  let m ← gVSep I vspSize 0 m
  let m ← gVSep I (I.height m - vspSize - 1) 0 m
  gVSep I vspSize (I.height m - vspSize) m

def gDark (m : σ) : Res σ := do
  if (← I.get m 8 (I.height m - 8)) = 0 then .error .writer
  I.set m 8 (I.height m - 8) 1

def gPAPs (versionNumber : Int) (m : σ) : Res σ :=
  if versionNumber < 2 then .ok m
  else do
    let index := versionNumber - 1
    let coordinates ← idx alignTable index
    coordinates.foldlM (fun m y =>
      if y ≥ 0 then
        coordinates.foldlM (fun m x => do
          if x ≥ 0 then
            if isEmpty (← I.get m x y) then gPAP I (x - 2) (y - 2) m
            else pure m
          else pure m) m
      else pure m) m

def gTiming (m : σ) : Res σ :=
  forRange 8 (I.width m - 8) (fun i m => do
    let bit : Int := Int.tmod (i + 1) 2
    let m ← if isEmpty (← I.get m i 6) then I.set m i 6 bit else pure m
    if isEmpty (← I.get m 6 i) then I.set m 6 i bit else pure m) m

def gBasic (versionNumber : Int) (m : σ) : Res σ := do
  let m ← gPDPs I m
  let m ← gDark I m
  let m ← gPAPs I versionNumber m
  gTiming I m

def gTypeInfoVals (vals : List Int) (m : σ) : Res σ :=
  let size : Int := vals.length
  forRange 0 size (fun i m => do
    let bit ← idx vals (size - 1 - i)
    let coordinates ← idx typeInfoCoordinates i
    let x1 ← idx coordinates 0
    let y1 ← idx coordinates 1
    let m ← I.set m x1 y1 bit
    if i < 8 then
      I.set m (I.width m - i - 1) 8 bit
    else do
      let x2 : Int := 8
      let y2 : Int := I.height m - 7 + (i - 8)
      let m ← I.set m x2 y2 bit
      I.set m x2 y2 bit) m

def gVersionInfoVals (vals : List Int) (m : σ) : Res σ := do
  let r ← forRange 0 6 (fun i (st : σ × Int) =>
    forRange 0 3 (fun j (st : σ × Int) => do
      let (m, bitIndex) := st
      let bit ← idx vals bitIndex
      let m ← I.set m i (I.height m - 11 + j) bit
      let m ← I.set m (I.height m - 11 + j) i bit
      pure (m, bitIndex - 1)) st) (m, 6 * 3 - 1)
  pure r.1

/-- `functionTags` from a given start state -/
def gFunctionTags (v : Nat) (m : σ) : Res σ := do
  let m ← gBasic I v m
  let m ← gTypeInfoVals I tags15 m
  if v < 7 then pure m else gVersionInfoVals I tags18 m

/-! ### at `ByteMatrix` the generic loops are the model's loops -/

theorem gPDP_bm : gPDP bmI = embedPositionDetectionPattern := rfl
theorem gPAP_bm : gPAP bmI = embedPositionAdjustmentPattern := rfl
theorem gHSep_bm : gHSep bmI = embedHorizontalSeparationPattern := rfl
theorem gVSep_bm : gVSep bmI = embedVerticalSeparationPattern := rfl
theorem gPDPs_bm : gPDPs bmI = embedPositionDetectionPatternsAndSeparators := rfl
theorem gDark_bm : gDark bmI = embedDarkDotAtLeftBottomCorner := rfl
theorem gPAPs_bm : gPAPs bmI = maybeEmbedPositionAdjustmentPatterns := rfl
theorem gTiming_bm : gTiming bmI = embedTimingPatterns := rfl
theorem gBasic_bm : gBasic bmI = embedBasicPatterns := rfl
theorem gTypeInfoVals_bm : gTypeInfoVals bmI = embedTypeInfoVals := rfl
theorem gVersionInfoVals_bm : gVersionInfoVals bmI = embedVersionInfoVals := rfl

theorem gFunctionTags_bm (v : Nat) : gFunctionTags bmI v (emptyMatrix (dimension v)) = functionTags v := rfl

end Gzx.QREnc
