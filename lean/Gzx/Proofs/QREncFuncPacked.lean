/-
  wp `enc2` — an n×n byte matrix packed into ONE natural number, eight bits per cell (cell value + 1, so the
  empty marker -1 is 0 and the cleared matrix is the number 0).  `Get`/`Set` are shifts, `%` and `xor` — the
  operations the kernel evaluates on GMP numbers — so that the function-pattern loops of the encoder
  (Proofs/QREncFuncGen.lean) run in the kernel in linear time for every version (version 40: 1.3 s).
  The comparison of the result with the standard's modules is in Proofs/QREncFuncCheck.lean.
-/
import Gzx.Proofs.QREncFuncGen
namespace Gzx.QREnc
open Gzx Gzx.QRRef

/-- bit offset of cell (x, y) -/
def ppos (n x y : Nat) : Nat := 8 * (y * n + x)

/-- the stored byte of cell (x, y) -/
def pbyte (n M x y : Nat) : Nat := (M >>> ppos n x y) % 256

/-- cell value -/
def pcell (n M x y : Nat) : Int := (pbyte n M x y : Int) - 1

/-- overwrite the byte of cell (x, y) -/
def pput (n M x y b : Nat) : Nat := M ^^^ ((pbyte n M x y ^^^ b) <<< ppos n x y)

def pGet (n : Nat) (M : Nat) (x y : Int) : Res Int :=
  if 0 ≤ x ∧ x < n ∧ 0 ≤ y ∧ y < n then .ok (pcell n M x.toNat y.toNat) else panicIdx

def pSet (n : Nat) (M : Nat) (x y v : Int) : Res Nat :=
  if 0 ≤ x ∧ x < n ∧ 0 ≤ y ∧ y < n ∧ -1 ≤ v ∧ v < 255 then .ok (pput n M x.toNat y.toNat (v + 1).toNat) else panicIdx

/-- the packed interface (a value outside -1..254 is refused: the embed loops never write one) -/
def pkI (n : Nat) : MI Nat := ⟨pGet n, pSet n, fun _ => n, fun _ => n⟩

end Gzx.QREnc
