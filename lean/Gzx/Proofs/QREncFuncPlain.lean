/-
  wp `enc2` — "plain" rows and columns of a QR symbol: a row (column) that meets no finder, separator, format,
  version or alignment module carries the timing module of column (row) 6 and data modules only.  General in the
  version; lets the per-version kernel check (Proofs/QREncFuncCheck.lean) compare such a row with ONE number
  comparison and spend the expensive `tagCell` evaluation on the few remaining crossings only.
-/
import Gzx.Proofs.QREncFuncDefs
namespace Gzx.QREnc
open Gzx Gzx.QRRef

/-- coordinate `t` is clear of the finder / format / version bands and of every alignment band -/
def plainT (n : Nat) (cs : List Nat) (t : Nat) : Bool :=
  decide (9 ≤ t) && decide (t + 11 < n) && cs.all (fun c => !near c t 2)

theorem inAlignment_row_false (v x y : Nat) (h : (alignCentres v).all (fun c => !near c y 2) = true) :
    inAlignment v x y = false := by
  unfold inAlignment
  rw [List.all_eq_true] at h
  apply List.any_eq_false.mpr
  intro cx _ hcx
  simp only [Bool.and_eq_true] at hcx
  obtain ⟨cy, hcy, hp⟩ := List.any_eq_true.mp hcx.2
  simp only [Bool.and_eq_true] at hp
  have := h cy hcy
  rw [hp.1] at this
  simp at this

theorem inAlignment_col_false (v x y : Nat) (h : (alignCentres v).all (fun c => !near c x 2) = true) :
    inAlignment v x y = false := by
  unfold inAlignment
  rw [List.all_eq_true] at h
  apply List.any_eq_false.mpr
  intro cx hcx hn
  simp only [Bool.and_eq_true] at hn
  have := h cx hcx
  rw [hn.1] at this
  simp at this

theorem tagCell_plainRow (v x y : Nat) (h : plainT (dimension v) (alignCentres v) y = true) :
    tagCell v x y = if x = 6 then b2i ((x + y) % 2 == 0) else -1 := by
  unfold plainT at h
  simp only [Bool.and_eq_true, decide_eq_true_eq] at h
  obtain ⟨⟨h9, h11⟩, hal⟩ := h
  have ha := inAlignment_row_false v x y hal
  have e1 : ¬ y < 7 := by omega
  have e2 : ¬ y + 7 ≥ dimension v := by omega
  have e3 : ¬ y < 8 := by omega
  have e4 : ¬ y + 8 ≥ dimension v := by omega
  have e5 : ¬ y + 8 = dimension v := by omega
  have e6 : ¬ y ≤ 8 := by omega
  have e7 : ¬ y = 8 := by omega
  have e8 : ¬ y + 11 ≥ dimension v := by omega
  have e9 : ¬ y < 6 := by omega
  have e10 : ¬ y = 6 := by omega
  have hr : regionOf v x y = if x = 6 then .timing else .data := by
    unfold regionOf
    simp [e1, e2, e3, e4, e5, e6, e7, e8, e9, e10, ha]
  unfold tagCell
  rw [hr]
  by_cases hx : x = 6
  · simp [hx]
  · simp [hx]

theorem tagCell_plainCol (v x y : Nat) (h : plainT (dimension v) (alignCentres v) x = true) :
    tagCell v x y = if y = 6 then b2i ((x + y) % 2 == 0) else -1 := by
  unfold plainT at h
  simp only [Bool.and_eq_true, decide_eq_true_eq] at h
  obtain ⟨⟨h9, h11⟩, hal⟩ := h
  have ha := inAlignment_col_false v x y hal
  have e1 : ¬ x < 7 := by omega
  have e2 : ¬ x + 7 ≥ dimension v := by omega
  have e3 : ¬ x < 8 := by omega
  have e4 : ¬ x + 8 ≥ dimension v := by omega
  have e5 : ¬ x = 8 := by omega
  have e6 : ¬ x ≤ 8 := by omega
  have e8 : ¬ x + 11 ≥ dimension v := by omega
  have e9 : ¬ x < 6 := by omega
  have e10 : ¬ x = 6 := by omega
  have hr : regionOf v x y = if y = 6 then .timing else .data := by
    unfold regionOf
    simp [e1, e2, e3, e4, e5, e6, e8, e9, e10, ha]
  unfold tagCell
  rw [hr]
  by_cases hy : y = 6
  · simp [hy]
  · simp [hy]

end Gzx.QREnc
