/-
  wp `enc2` — forward simulation of the generic function-pattern loops (Proofs/QREncFuncGen.lean): if two matrix
  implementations are related by `R` such that a successful `Get`/`Set` of the second is matched by the first,
  then a successful run of every embed loop on the second is matched by a successful run on the first with related
  results.  Used with first = `ByteMatrix` (the mirror model), second = the packed matrix the kernel evaluates.
-/
import Gzx.Proofs.QREncFuncGen
import Gzx.Proofs.QREncInv
namespace Gzx.QREnc
open Gzx Gzx.QRRef

/-- `f₂` succeeding from a related state is matched by `f₁` -/
def Fwd {σ₁ σ₂ : Type} (R : σ₁ → σ₂ → Prop) (f₁ : σ₁ → Res σ₁) (f₂ : σ₂ → Res σ₂) : Prop :=
  ∀ s₁ s₂ s₂', R s₁ s₂ → f₂ s₂ = .ok s₂' → ∃ s₁', f₁ s₁ = .ok s₁' ∧ R s₁' s₂'

structure SimH {σ₁ σ₂ : Type} (I₁ : MI σ₁) (I₂ : MI σ₂) (R : σ₁ → σ₂ → Prop) : Prop where
  get : ∀ s₁ s₂ x y c, R s₁ s₂ → I₂.get s₂ x y = .ok c → I₁.get s₁ x y = .ok c
  set : ∀ x y v, Fwd R (fun s => I₁.set s x y v) (fun s => I₂.set s x y v)
  width : ∀ s₁ s₂, R s₁ s₂ → I₁.width s₁ = I₂.width s₂
  height : ∀ s₁ s₂, R s₁ s₂ → I₁.height s₁ = I₂.height s₂

theorem bind_ok_eq {α β} {x : Res α} {a : α} (h : x = .ok a) (f : α → Res β) : (x >>= f) = f a := by
  rw [h]; rfl

theorem fwd_foldlM {σ₁ σ₂ ι : Type} {R : σ₁ → σ₂ → Prop} (b₁ : σ₁ → ι → Res σ₁) (b₂ : σ₂ → ι → Res σ₂)
    (hb : ∀ k, Fwd R (fun s => b₁ s k) (fun s => b₂ s k)) :
    ∀ l : List ι, Fwd R (fun s => l.foldlM b₁ s) (fun s => l.foldlM b₂ s) := by
  intro l
  induction l with
  | nil =>
    intro s₁ s₂ s₂' hR h
    simp only [List.foldlM_nil, pure, Except.pure, Except.ok.injEq] at h ⊢
    subst h
    exact ⟨s₁, rfl, hR⟩
  | cons k ks ih =>
    intro s₁ s₂ s₂' hR h
    simp only [List.foldlM_cons] at h ⊢
    obtain ⟨t₂, ht₂, h⟩ := bind_ok h
    obtain ⟨t₁, ht₁, hR'⟩ := hb k s₁ s₂ t₂ hR ht₂
    simp only at ht₁
    rw [bind_ok_eq ht₁]
    exact ih t₁ t₂ s₂' hR' h

theorem fwd_forRange {σ₁ σ₂ : Type} {R : σ₁ → σ₂ → Prop} (lo hi : Int) (b₁ : Int → σ₁ → Res σ₁) (b₂ : Int → σ₂ → Res σ₂)
    (hb : ∀ i, Fwd R (b₁ i) (b₂ i)) : Fwd R (forRange lo hi b₁) (forRange lo hi b₂) := by
  unfold forRange
  exact fwd_foldlM _ _ (fun k => hb _) _

section
variable {σ₁ σ₂ : Type} {I₁ : MI σ₁} {I₂ : MI σ₂} {R : σ₁ → σ₂ → Prop} (H : SimH I₁ I₂ R)
include H

theorem fwd_block (pat : List (List Int)) (w h : Int) (xs ys : Int) :
    Fwd R
      (forRange 0 h (fun y m => do
        let patternY ← idx pat y
        forRange 0 w (fun x m => do
          let v ← idx patternY x
          I₁.set m (xs + x) (ys + y) v) m))
      (forRange 0 h (fun y m => do
        let patternY ← idx pat y
        forRange 0 w (fun x m => do
          let v ← idx patternY x
          I₂.set m (xs + x) (ys + y) v) m)) := by
  apply fwd_forRange
  intro y s₁ s₂ s₂' hR h
  have ⟨pY, hp, h2⟩ := bind_ok h
  clear h
  try dsimp only
  rw [bind_ok_eq hp]
  refine fwd_forRange 0 w _ _ (fun x s₁ s₂ s₂' hR h => ?_) s₁ s₂ s₂' hR h2
  have ⟨v, hv, h3⟩ := bind_ok h
  try dsimp only
  rw [bind_ok_eq hv]
  exact H.set _ _ _ s₁ s₂ s₂' hR h3

theorem fwd_PDP (xs ys : Int) : Fwd R (gPDP I₁ xs ys) (gPDP I₂ xs ys) := fwd_block H pdp 7 7 xs ys
theorem fwd_PAP (xs ys : Int) : Fwd R (gPAP I₁ xs ys) (gPAP I₂ xs ys) := fwd_block H pap 5 5 xs ys

theorem fwd_HSep (xs ys : Int) : Fwd R (gHSep I₁ xs ys) (gHSep I₂ xs ys) := by
  unfold gHSep
  apply fwd_forRange
  intro x s₁ s₂ s₂' hR h
  obtain ⟨c, hc, h⟩ := bind_ok h
  try dsimp only at h ⊢
  rw [bind_ok_eq (H.get _ _ _ _ _ hR hc)]
  try dsimp only
  by_cases he : (!isEmpty c) = true
  · rw [if_pos he] at h; simp [bind, Except.bind] at h
  · rw [if_neg he] at h ⊢
    exact H.set _ _ _ s₁ s₂ s₂' hR h

theorem fwd_VSep (xs ys : Int) : Fwd R (gVSep I₁ xs ys) (gVSep I₂ xs ys) := by
  unfold gVSep
  apply fwd_forRange
  intro y s₁ s₂ s₂' hR h
  obtain ⟨c, hc, h⟩ := bind_ok h
  try dsimp only at h ⊢
  rw [bind_ok_eq (H.get _ _ _ _ _ hR hc)]
  try dsimp only
  by_cases he : (!isEmpty c) = true
  · rw [if_pos he] at h; simp [bind, Except.bind] at h
  · rw [if_neg he] at h ⊢
    exact H.set _ _ _ s₁ s₂ s₂' hR h

theorem fwd_PDPs : Fwd R (gPDPs I₁) (gPDPs I₂) := by
  intro s₁ s₂ s₂' hR h
  unfold gPDPs at h ⊢
  obtain ⟨a₂, ha, h⟩ := bind_ok h
  obtain ⟨a₁, ha₁, hRa⟩ := fwd_PDP H _ _ s₁ s₂ a₂ hR ha
  rw [bind_ok_eq ha₁]
  obtain ⟨b₂, hb, h⟩ := bind_ok h
  rw [H.width _ _ hRa]
  obtain ⟨b₁, hb₁, hRb⟩ := fwd_PDP H _ _ a₁ a₂ b₂ hRa hb
  rw [bind_ok_eq hb₁]
  obtain ⟨c₂, hc, h⟩ := bind_ok h
  rw [H.width _ _ hRb]
  obtain ⟨c₁, hc₁, hRc⟩ := fwd_PDP H _ _ b₁ b₂ c₂ hRb hc
  rw [bind_ok_eq hc₁]
  obtain ⟨d₂, hd, h⟩ := bind_ok h
  obtain ⟨d₁, hd₁, hRd⟩ := fwd_HSep H _ _ c₁ c₂ d₂ hRc hd
  rw [bind_ok_eq hd₁]
  obtain ⟨e₂, he, h⟩ := bind_ok h
  rw [H.width _ _ hRd]
  obtain ⟨e₁, he₁, hRe⟩ := fwd_HSep H _ _ d₁ d₂ e₂ hRd he
  rw [bind_ok_eq he₁]
  obtain ⟨f₂, hf, h⟩ := bind_ok h
  rw [H.width _ _ hRe]
  obtain ⟨f₁, hf₁, hRf⟩ := fwd_HSep H _ _ e₁ e₂ f₂ hRe hf
  rw [bind_ok_eq hf₁]
  obtain ⟨g₂, hg, h⟩ := bind_ok h
  obtain ⟨g₁, hg₁, hRg⟩ := fwd_VSep H _ _ f₁ f₂ g₂ hRf hg
  rw [bind_ok_eq hg₁]
  obtain ⟨k₂, hk, h⟩ := bind_ok h
  rw [H.height _ _ hRg]
  obtain ⟨k₁, hk₁, hRk⟩ := fwd_VSep H _ _ g₁ g₂ k₂ hRg hk
  rw [bind_ok_eq hk₁]
  rw [H.height _ _ hRk]
  exact fwd_VSep H _ _ k₁ k₂ s₂' hRk h

theorem fwd_Dark : Fwd R (gDark I₁) (gDark I₂) := by
  intro s₁ s₂ s₂' hR h
  unfold gDark at h ⊢
  rw [H.height _ _ hR]
  obtain ⟨c, hc, h⟩ := bind_ok h
  try dsimp only at h ⊢
  rw [bind_ok_eq (H.get _ _ _ _ _ hR hc)]
  try dsimp only
  by_cases he : c = 0
  · rw [if_pos he] at h; simp [bind, Except.bind] at h
  · rw [if_neg he] at h ⊢
    exact H.set _ _ _ s₁ s₂ s₂' hR h

theorem fwd_PAPs (v : Int) : Fwd R (gPAPs I₁ v) (gPAPs I₂ v) := by
  intro s₁ s₂ s₂' hR h
  unfold gPAPs at h ⊢
  by_cases hv : v < 2
  · rw [if_pos hv] at h ⊢
    simp only [Except.ok.injEq] at h
    subst h
    exact ⟨s₁, rfl, hR⟩
  · rw [if_neg hv] at h ⊢
    have ⟨coords, hco, h2⟩ := bind_ok h
    clear h
    try dsimp only
    rw [bind_ok_eq hco]
    refine fwd_foldlM _ _ (fun y s₁ s₂ s₂' hR h => ?_) coords s₁ s₂ s₂' hR h2
    simp only at h ⊢
    by_cases hy : y ≥ 0
    · rw [if_pos hy] at h ⊢
      refine fwd_foldlM _ _ (fun x s₁ s₂ s₂' hR h => ?_) coords s₁ s₂ s₂' hR h
      simp only at h ⊢
      by_cases hx : x ≥ 0
      · rw [if_pos hx] at h ⊢
        obtain ⟨c, hc, h⟩ := bind_ok h
        rw [bind_ok_eq (H.get _ _ _ _ _ hR hc)]
        by_cases he : isEmpty c = true
        · rw [if_pos he] at h ⊢
          exact fwd_PAP H _ _ s₁ s₂ s₂' hR h
        · rw [if_neg he] at h ⊢
          simp only [pure, Except.pure, Except.ok.injEq] at h ⊢
          subst h
          exact ⟨s₁, rfl, hR⟩
      · rw [if_neg hx] at h ⊢
        simp only [pure, Except.pure, Except.ok.injEq] at h ⊢
        subst h
        exact ⟨s₁, rfl, hR⟩
    · rw [if_neg hy] at h ⊢
      simp only [pure, Except.pure, Except.ok.injEq] at h ⊢
      subst h
      exact ⟨s₁, rfl, hR⟩

/-- `if isEmpty (Get(x, y)) then Set(x, y, bit)` -/
theorem fwd_setIfEmpty (x y bit : Int) :
    Fwd R (fun m => do if isEmpty (← I₁.get m x y) then I₁.set m x y bit else pure m)
          (fun m => do if isEmpty (← I₂.get m x y) then I₂.set m x y bit else pure m) := by
  intro s₁ s₂ s₂' hR h
  simp only at h ⊢
  obtain ⟨c, hc, h⟩ := bind_ok h
  rw [bind_ok_eq (H.get _ _ _ _ _ hR hc)]
  by_cases he : isEmpty c = true
  · rw [if_pos he] at h ⊢
    exact H.set _ _ _ s₁ s₂ s₂' hR h
  · rw [if_neg he] at h ⊢
    simp only [pure, Except.pure, Except.ok.injEq] at h ⊢
    subst h
    exact ⟨s₁, rfl, hR⟩

theorem fwd_Timing : Fwd R (gTiming I₁) (gTiming I₂) := by
  intro s₁ s₂ s₂' hR h
  unfold gTiming at h ⊢
  rw [H.width _ _ hR]
  refine fwd_forRange _ _ _ _ (fun i s₁ s₂ s₂' hR h => ?_) s₁ s₂ s₂' hR h
  dsimp only at h ⊢
  obtain ⟨c, hc, h⟩ := bind_ok h
  rw [bind_ok_eq (H.get _ _ _ _ _ hR hc)]
  by_cases he : isEmpty c = true
  · rw [if_pos he] at h ⊢
    obtain ⟨t₂, ht, h⟩ := bind_ok h
    obtain ⟨t₁, ht₁, hRt⟩ := H.set _ _ _ s₁ s₂ t₂ hR ht
    dsimp only at ht₁
    rw [bind_ok_eq ht₁]
    exact fwd_setIfEmpty H 6 i _ t₁ t₂ s₂' hRt h
  · rw [if_neg he] at h ⊢
    exact fwd_setIfEmpty H 6 i _ s₁ s₂ s₂' hR h

theorem fwd_Basic (v : Int) : Fwd R (gBasic I₁ v) (gBasic I₂ v) := by
  intro s₁ s₂ s₂' hR h
  unfold gBasic at h ⊢
  obtain ⟨a₂, ha, h⟩ := bind_ok h
  obtain ⟨a₁, ha₁, hRa⟩ := fwd_PDPs H s₁ s₂ a₂ hR ha
  rw [bind_ok_eq ha₁]
  obtain ⟨b₂, hb, h⟩ := bind_ok h
  obtain ⟨b₁, hb₁, hRb⟩ := fwd_Dark H a₁ a₂ b₂ hRa hb
  rw [bind_ok_eq hb₁]
  obtain ⟨c₂, hc, h⟩ := bind_ok h
  obtain ⟨c₁, hc₁, hRc⟩ := fwd_PAPs H v b₁ b₂ c₂ hRb hc
  rw [bind_ok_eq hc₁]
  exact fwd_Timing H c₁ c₂ s₂' hRc h

theorem fwd_TypeInfoVals (vals : List Int) : Fwd R (gTypeInfoVals I₁ vals) (gTypeInfoVals I₂ vals) := by
  unfold gTypeInfoVals
  apply fwd_forRange
  intro i s₁ s₂ s₂' hR h
  obtain ⟨bit, hbit, h⟩ := bind_ok h
  try dsimp only
  rw [bind_ok_eq hbit]
  obtain ⟨co, hco, h⟩ := bind_ok h
  rw [bind_ok_eq hco]
  obtain ⟨x1, hx1, h⟩ := bind_ok h
  rw [bind_ok_eq hx1]
  obtain ⟨y1, hy1, h⟩ := bind_ok h
  rw [bind_ok_eq hy1]
  obtain ⟨t₂, ht, h⟩ := bind_ok h
  obtain ⟨t₁, ht₁, hRt⟩ := H.set _ _ _ s₁ s₂ t₂ hR ht
  simp only at ht₁
  rw [bind_ok_eq ht₁]
  by_cases hi : i < 8
  · rw [if_pos hi] at h ⊢
    rw [H.width _ _ hRt]
    exact H.set _ _ _ t₁ t₂ s₂' hRt h
  · rw [if_neg hi] at h ⊢
    obtain ⟨u₂, hu, h⟩ := bind_ok h
    rw [H.height _ _ hRt]
    obtain ⟨u₁, hu₁, hRu⟩ := H.set _ _ _ t₁ t₂ u₂ hRt hu
    simp only at hu₁
    rw [bind_ok_eq hu₁]
    exact H.set _ _ _ u₁ u₂ s₂' hRu h

theorem fwd_VersionInfoVals (vals : List Int) : Fwd R (gVersionInfoVals I₁ vals) (gVersionInfoVals I₂ vals) := by
  intro s₁ s₂ s₂' hR h
  unfold gVersionInfoVals at h ⊢
  obtain ⟨r₂, hr, h⟩ := bind_ok h
  have key : Fwd (fun (a : σ₁ × Int) (b : σ₂ × Int) => R a.1 b.1 ∧ a.2 = b.2)
      (forRange 0 6 (fun i (st : σ₁ × Int) =>
        forRange 0 3 (fun j (st : σ₁ × Int) => do
          let (m, bitIndex) := st
          let bit ← idx vals bitIndex
          let m ← I₁.set m i (I₁.height m - 11 + j) bit
          let m ← I₁.set m (I₁.height m - 11 + j) i bit
          pure (m, bitIndex - 1)) st))
      (forRange 0 6 (fun i (st : σ₂ × Int) =>
        forRange 0 3 (fun j (st : σ₂ × Int) => do
          let (m, bitIndex) := st
          let bit ← idx vals bitIndex
          let m ← I₂.set m i (I₂.height m - 11 + j) bit
          let m ← I₂.set m (I₂.height m - 11 + j) i bit
          pure (m, bitIndex - 1)) st)) := by
    apply fwd_forRange
    intro i
    apply fwd_forRange
    intro j a b b' hab hb
    obtain ⟨m₁, k₁⟩ := a
    obtain ⟨m₂, k₂⟩ := b
    obtain ⟨hRm, hk⟩ := hab
    simp only at hRm hk hb ⊢
    subst hk
    obtain ⟨bit, hbit, hb⟩ := bind_ok hb
    rw [bind_ok_eq hbit]
    obtain ⟨t₂, ht, hb⟩ := bind_ok hb
    rw [H.height _ _ hRm]
    obtain ⟨t₁, ht₁, hRt⟩ := H.set _ _ _ m₁ m₂ t₂ hRm ht
    simp only at ht₁
    rw [bind_ok_eq ht₁]
    obtain ⟨u₂, hu, hb⟩ := bind_ok hb
    rw [H.height _ _ hRt]
    obtain ⟨u₁, hu₁, hRu⟩ := H.set _ _ _ t₁ t₂ u₂ hRt hu
    simp only at hu₁
    rw [bind_ok_eq hu₁]
    simp only [pure, Except.pure, Except.ok.injEq] at hb ⊢
    subst hb
    exact ⟨_, rfl, hRu, rfl⟩
  obtain ⟨r₁, hr₁, hRr⟩ := key (s₁, 6 * 3 - 1) (s₂, 6 * 3 - 1) r₂ ⟨hR, rfl⟩ hr
  rw [bind_ok_eq hr₁]
  simp only [pure, Except.pure, Except.ok.injEq] at h ⊢
  subst h
  exact ⟨_, rfl, hRr.1⟩

theorem fwd_FunctionTags (v : Nat) : Fwd R (gFunctionTags I₁ v) (gFunctionTags I₂ v) := by
  intro s₁ s₂ s₂' hR h
  unfold gFunctionTags at h ⊢
  obtain ⟨a₂, ha, h⟩ := bind_ok h
  obtain ⟨a₁, ha₁, hRa⟩ := fwd_Basic H v s₁ s₂ a₂ hR ha
  rw [bind_ok_eq ha₁]
  obtain ⟨b₂, hb, h⟩ := bind_ok h
  obtain ⟨b₁, hb₁, hRb⟩ := fwd_TypeInfoVals H tags15 a₁ a₂ b₂ hRa hb
  rw [bind_ok_eq hb₁]
  by_cases hv : v < 7
  · rw [if_pos hv] at h ⊢
    simp only [pure, Except.pure, Except.ok.injEq] at h ⊢
    subst h
    exact ⟨b₁, rfl, hRb⟩
  · rw [if_neg hv] at h ⊢
    exact fwd_VersionInfoVals H tags18 b₁ b₂ s₂' hRb h

end

end Gzx.QREnc
