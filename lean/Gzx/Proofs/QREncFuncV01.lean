/- wp `enc2` — function-pattern stage of the coded embed loops = the standard's modules, versions 1..5
   (packed kernel evaluation, Proofs/QREncFuncCheck.lean; generated text, one theorem per version) -/
import Gzx.Proofs.QREncFuncCheck
set_option maxRecDepth 1000000
namespace Gzx.QREnc.FuncV
theorem funcOK_1 : FuncOK 1 := funcOK_of_check 1 [] (by decide) (by decide +kernel)
theorem funcOK_2 : FuncOK 2 := funcOK_of_check 2 [6, 18] (by decide) (by decide +kernel)
theorem funcOK_3 : FuncOK 3 := funcOK_of_check 3 [6, 22] (by decide) (by decide +kernel)
theorem funcOK_4 : FuncOK 4 := funcOK_of_check 4 [6, 26] (by decide) (by decide +kernel)
theorem funcOK_5 : FuncOK 5 := funcOK_of_check 5 [6, 30] (by decide) (by decide +kernel)
end Gzx.QREnc.FuncV
