/- wp `enc2` — function-pattern stage of the coded embed loops = the standard's modules, versions 6..10
   (packed kernel evaluation, Proofs/QREncFuncCheck.lean; generated text, one theorem per version) -/
import Gzx.Proofs.QREncFuncCheck
set_option maxRecDepth 1000000
namespace Gzx.QREnc.FuncV
theorem funcOK_6 : FuncOK 6 := funcOK_of_check 6 [6, 34] (by decide) (by decide +kernel)
theorem funcOK_7 : FuncOK 7 := funcOK_of_check 7 [6, 22, 38] (by decide) (by decide +kernel)
theorem funcOK_8 : FuncOK 8 := funcOK_of_check 8 [6, 24, 42] (by decide) (by decide +kernel)
theorem funcOK_9 : FuncOK 9 := funcOK_of_check 9 [6, 26, 46] (by decide) (by decide +kernel)
theorem funcOK_10 : FuncOK 10 := funcOK_of_check 10 [6, 28, 50] (by decide) (by decide +kernel)
end Gzx.QREnc.FuncV
