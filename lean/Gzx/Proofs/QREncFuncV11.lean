/- wp `enc2` — function-pattern stage of the coded embed loops = the standard's modules, versions 11..15
   (packed kernel evaluation, Proofs/QREncFuncCheck.lean; generated text, one theorem per version) -/
import Gzx.Proofs.QREncFuncCheck
set_option maxRecDepth 1000000
namespace Gzx.QREnc.FuncV
theorem funcOK_11 : FuncOK 11 := funcOK_of_check 11 [6, 30, 54] (by decide) (by decide +kernel)
theorem funcOK_12 : FuncOK 12 := funcOK_of_check 12 [6, 32, 58] (by decide) (by decide +kernel)
theorem funcOK_13 : FuncOK 13 := funcOK_of_check 13 [6, 34, 62] (by decide) (by decide +kernel)
theorem funcOK_14 : FuncOK 14 := funcOK_of_check 14 [6, 26, 46, 66] (by decide) (by decide +kernel)
theorem funcOK_15 : FuncOK 15 := funcOK_of_check 15 [6, 26, 48, 70] (by decide) (by decide +kernel)
end Gzx.QREnc.FuncV
