/- wp `enc2` — function-pattern stage of the coded embed loops = the standard's modules, versions 16..20
   (packed kernel evaluation, Proofs/QREncFuncCheck.lean; generated text, one theorem per version) -/
import Gzx.Proofs.QREncFuncCheck
set_option maxRecDepth 1000000
namespace Gzx.QREnc.FuncV
theorem funcOK_16 : FuncOK 16 := funcOK_of_check 16 [6, 26, 50, 74] (by decide) (by decide +kernel)
theorem funcOK_17 : FuncOK 17 := funcOK_of_check 17 [6, 30, 54, 78] (by decide) (by decide +kernel)
theorem funcOK_18 : FuncOK 18 := funcOK_of_check 18 [6, 30, 56, 82] (by decide) (by decide +kernel)
theorem funcOK_19 : FuncOK 19 := funcOK_of_check 19 [6, 30, 58, 86] (by decide) (by decide +kernel)
theorem funcOK_20 : FuncOK 20 := funcOK_of_check 20 [6, 34, 62, 90] (by decide) (by decide +kernel)
end Gzx.QREnc.FuncV
