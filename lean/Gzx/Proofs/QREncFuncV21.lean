/- wp `enc2` — function-pattern stage of the coded embed loops = the standard's modules, versions 21..23
   (packed kernel evaluation, Proofs/QREncFuncCheck.lean; generated text, one theorem per version) -/
import Gzx.Proofs.QREncFuncCheck
set_option maxRecDepth 1000000
namespace Gzx.QREnc.FuncV
theorem funcOK_21 : FuncOK 21 := funcOK_of_check 21 [6, 28, 50, 72, 94] (by decide) (by decide +kernel)
theorem funcOK_22 : FuncOK 22 := funcOK_of_check 22 [6, 26, 50, 74, 98] (by decide) (by decide +kernel)
theorem funcOK_23 : FuncOK 23 := funcOK_of_check 23 [6, 30, 54, 78, 102] (by decide) (by decide +kernel)
end Gzx.QREnc.FuncV
