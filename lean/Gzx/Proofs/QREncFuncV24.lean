/- wp `enc2` — function-pattern stage of the coded embed loops = the standard's modules, versions 24..26
   (packed kernel evaluation, Proofs/QREncFuncCheck.lean; generated text, one theorem per version) -/
import Gzx.Proofs.QREncFuncCheck
set_option maxRecDepth 1000000
namespace Gzx.QREnc.FuncV
theorem funcOK_24 : FuncOK 24 := funcOK_of_check 24 [6, 28, 54, 80, 106] (by decide) (by decide +kernel)
theorem funcOK_25 : FuncOK 25 := funcOK_of_check 25 [6, 32, 58, 84, 110] (by decide) (by decide +kernel)
theorem funcOK_26 : FuncOK 26 := funcOK_of_check 26 [6, 30, 58, 86, 114] (by decide) (by decide +kernel)
end Gzx.QREnc.FuncV
