/- wp `enc2` — function-pattern stage of the coded embed loops = the standard's modules, versions 27..29
   (packed kernel evaluation, Proofs/QREncFuncCheck.lean; generated text, one theorem per version) -/
import Gzx.Proofs.QREncFuncCheck
set_option maxRecDepth 1000000
namespace Gzx.QREnc.FuncV
theorem funcOK_27 : FuncOK 27 := funcOK_of_check 27 [6, 34, 62, 90, 118] (by decide) (by decide +kernel)
theorem funcOK_28 : FuncOK 28 := funcOK_of_check 28 [6, 26, 50, 74, 98, 122] (by decide) (by decide +kernel)
theorem funcOK_29 : FuncOK 29 := funcOK_of_check 29 [6, 30, 54, 78, 102, 126] (by decide) (by decide +kernel)
end Gzx.QREnc.FuncV
