/- wp `enc2` — function-pattern stage of the coded embed loops = the standard's modules, versions 30..32
   (packed kernel evaluation, Proofs/QREncFuncCheck.lean; generated text, one theorem per version) -/
import Gzx.Proofs.QREncFuncCheck
set_option maxRecDepth 1000000
namespace Gzx.QREnc.FuncV
theorem funcOK_30 : FuncOK 30 := funcOK_of_check 30 [6, 26, 52, 78, 104, 130] (by decide) (by decide +kernel)
theorem funcOK_31 : FuncOK 31 := funcOK_of_check 31 [6, 30, 56, 82, 108, 134] (by decide) (by decide +kernel)
theorem funcOK_32 : FuncOK 32 := funcOK_of_check 32 [6, 34, 60, 86, 112, 138] (by decide) (by decide +kernel)
end Gzx.QREnc.FuncV
