/- wp `enc2` — function-pattern stage of the coded embed loops = the standard's modules, versions 33..35
   (packed kernel evaluation, Proofs/QREncFuncCheck.lean; generated text, one theorem per version) -/
import Gzx.Proofs.QREncFuncCheck
set_option maxRecDepth 1000000
namespace Gzx.QREnc.FuncV
theorem funcOK_33 : FuncOK 33 := funcOK_of_check 33 [6, 30, 58, 86, 114, 142] (by decide) (by decide +kernel)
theorem funcOK_34 : FuncOK 34 := funcOK_of_check 34 [6, 34, 62, 90, 118, 146] (by decide) (by decide +kernel)
theorem funcOK_35 : FuncOK 35 := funcOK_of_check 35 [6, 30, 54, 78, 102, 126, 150] (by decide) (by decide +kernel)
end Gzx.QREnc.FuncV
