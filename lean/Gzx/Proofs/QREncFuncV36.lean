/- wp `enc2` — function-pattern stage of the coded embed loops = the standard's modules, versions 36..38
   (packed kernel evaluation, Proofs/QREncFuncCheck.lean; generated text, one theorem per version) -/
import Gzx.Proofs.QREncFuncCheck
set_option maxRecDepth 1000000
namespace Gzx.QREnc.FuncV
theorem funcOK_36 : FuncOK 36 := funcOK_of_check 36 [6, 24, 50, 76, 102, 128, 154] (by decide) (by decide +kernel)
theorem funcOK_37 : FuncOK 37 := funcOK_of_check 37 [6, 28, 54, 80, 106, 132, 158] (by decide) (by decide +kernel)
theorem funcOK_38 : FuncOK 38 := funcOK_of_check 38 [6, 32, 58, 84, 110, 136, 162] (by decide) (by decide +kernel)
end Gzx.QREnc.FuncV
