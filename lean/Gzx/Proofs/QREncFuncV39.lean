/- wp `enc2` — function-pattern stage of the coded embed loops = the standard's modules, versions 39..40
   (packed kernel evaluation, Proofs/QREncFuncCheck.lean; generated text, one theorem per version) -/
import Gzx.Proofs.QREncFuncCheck
set_option maxRecDepth 1000000
namespace Gzx.QREnc.FuncV
theorem funcOK_39 : FuncOK 39 := funcOK_of_check 39 [6, 26, 54, 82, 110, 138, 166] (by decide) (by decide +kernel)
theorem funcOK_40 : FuncOK 40 := funcOK_of_check 40 [6, 30, 58, 86, 114, 142, 170] (by decide) (by decide +kernel)
end Gzx.QREnc.FuncV
