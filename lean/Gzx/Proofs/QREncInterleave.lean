/-
  wp `qrenc` — `interleaveWithECBytes` of the mirror model (block loop with the regenerated block-size kernel,
  `ToBytes`, `generateECBytes` through the C04 Reed-Solomon encoder model, the two interleaving double loops)
  computes the reference codeword sequence `QRRef.finalCodewords`.
-/
import Gzx.Model.QREncMirror
import Gzx.Proofs.QREncBits
import Gzx.Proofs.QREncInv
import Gzx.Proofs.QREncData
import Gzx.Proofs.QRCompBlocks
namespace Gzx.QREnc
open Gzx Gzx.QRRef

/-! ### generic: loops whose steps all succeed -/

theorem foldlM_ok {σ ι} (body : σ → ι → Res σ) (g : σ → ι → σ) :
    ∀ (l : List ι) (s : σ), (∀ s k, k ∈ l → body s k = .ok (g s k)) → l.foldlM body s = .ok (l.foldl g s) := by
  intro l
  induction l with
  | nil => intro s _; rfl
  | cons k ks ih =>
    intro s h
    simp only [List.foldlM_cons, bind, Except.bind, List.foldl_cons]
    rw [h s k List.mem_cons_self]
    exact ih _ (fun s k' hk' => h s k' (List.mem_cons_of_mem _ hk'))

theorem mapM_ok {α β} (f : α → Res β) (g : α → β) :
    ∀ (l : List α), (∀ a ∈ l, f a = .ok (g a)) → l.mapM f = .ok (l.map g) := by
  intro l
  induction l with
  | nil => intro _; rfl
  | cons a as ih =>
    intro h
    rw [List.mapM_cons, h a List.mem_cons_self]
    simp only [bind, Except.bind]
    rw [ih (fun a' ha' => h a' (List.mem_cons_of_mem _ ha'))]
    rfl

/-! ### ToBytes on a whole-byte bit string -/

theorem toBitsBE_getElem? (b j : Nat) (hj : j < 8) : (toBitsBE 8 b)[j]? = some (b.testBit (7 - j)) := by
  unfold toBitsBE
  rw [List.getElem?_map, List.getElem?_range hj]
  rfl

theorem bitsOfBytes_getElem? : ∀ (data : List Nat) (k j : Nat) (hk : k < data.length), j < 8 →
    (bitsOfBytes data)[8 * k + j]? = some (data[k].testBit (7 - j)) := by
  intro data
  induction data with
  | nil => intro k j hk; simp at hk
  | cons b bs ih =>
    intro k j hk hj
    rw [bitsOfBytes_cons]
    cases k with
    | zero =>
      rw [List.getElem?_append_left (by rw [toBitsBE_length]; omega)]
      simpa using toBitsBE_getElem? b j hj
    | succ k =>
      rw [List.getElem?_append_right (by rw [toBitsBE_length]; omega), toBitsBE_length]
      have : 8 * (k + 1) + j - 8 = 8 * k + j := by omega
      rw [this, ih k j (by simpa using hk) hj]
      simp

/-- the byte assembled by the inner loop of `ToBytes` from the bits of `b` -/
def byteOf (b : Nat) : Nat :=
  (List.range 8).foldl (fun acc j => if b.testBit (7 - j) then acc ||| (1 <<< (7 - j)) else acc) 0

theorem byteOf_eq : ∀ b ∈ List.range 256, byteOf b = b := by decide +kernel

theorem toByte_eq (data : List Nat) (k : Nat) (hk : k < data.length) (hb : data[k] < 256) :
    toByte (bitsOfBytes data).toArray (8 * (k : Int)) = .ok data[k] := by
  unfold toByte
  rw [foldlM_ok _ (fun acc j => if data[k].testBit (7 - j) then acc ||| (1 <<< (7 - j)) else acc)]
  · have := byteOf_eq data[k] (List.mem_range.mpr hb)
    unfold byteOf at this
    rw [this]
  · intro s j hj
    have hj8 : j < 8 := List.mem_range.mp hj
    unfold getBitCap
    have hnn : ¬ (8 * (k : Int) + ((j : Nat) : Int) < 0) := by omega
    have hidx : (8 * (k : Int) + ((j : Nat) : Int)).toNat = 8 * k + j := by omega
    simp only [bind, Except.bind, hnn, if_false, hidx, List.getElem?_toArray,
      bitsOfBytes_getElem? data k j hk hj8, pure, Except.pure]

theorem toBytes_eq (data : List Nat) (hd : ∀ b ∈ data, b < 256) (off len : Nat) (h : off + len ≤ data.length) :
    toBytes (bitsOfBytes data) (8 * (off : Int)) (len : Int) = .ok ((data.drop off).take len) := by
  unfold toBytes
  have hnn : ¬ ((len : Int) < 0) := by omega
  rw [if_neg hnn]
  simp only [Int.toNat_natCast]
  rw [mapM_ok _ (fun i => data.getD (off + i) 0)]
  · congr 1
    apply List.ext_getElem
    · simp; omega
    · intro i h1 h2
      simp only [List.length_map, List.length_range] at h1
      simp [List.getD_eq_getElem?_getD, List.getElem?_eq_getElem (by omega : off + i < data.length)]
  · intro i hi
    have hi' : i < len := List.mem_range.mp hi
    have hlt : off + i < data.length := by omega
    have : 8 * (off : Int) + 8 * ((i : Nat) : Int) = 8 * ((off + i : Nat) : Int) := by omega
    rw [this, toByte_eq data (off + i) hlt (hd _ (List.getElem_mem hlt))]
    simp [List.getD_eq_getElem?_getD, List.getElem?_eq_getElem hlt]

/-! ### generateECBytes = reference parity -/

theorem generateECBytes_eq (block : List Nat) (e : Nat) (he : e ∈ QRComp.ecLens) (hne : block ≠ [])
    (hb : ∀ b ∈ block, b < 256) (hlen : block.length + e ≤ 255) :
    generateECBytes block (e : Int) = .ok (rsParity block e) := by
  have he0 : 0 < e := by
    have : ∀ m ∈ QRComp.ecLens, 0 < m := by decide
    exact this e he
  have hrs := QRComp.rsParity_eq_rs_encode e he block hne (by
    intro x hx; exact hb x hx) hlen
  unfold RS.encode RS.encodeWord at hrs
  obtain ⟨w, hw, hdrop⟩ := bind_ok hrs
  simp only [Except.ok.injEq] at hdrop
  have hwl : w.length = block.length + e := by
    have := congrArg List.length hdrop
    rw [List.length_drop, rsParity_length] at this
    omega
  unfold generateECBytes
  have h1 : ¬ ((block.length : Int) + (e : Int) < 0) := by omega
  have h2 : ¬ ((e : Int) < 0) := by omega
  have h3 : ¬ ((e : Int) ≤ 0) := by omega
  simp only [h1, h2, h3, if_false, Int.toNat_natCast]
  have hmod : block.map (· % 256) = block := by
    rw [List.map_congr_left (g := id)]
    · simp
    · intro b hbm; exact Nat.mod_eq_of_lt (hb b hbm)
  rw [hmod, hw]
  simp only
  rw [mapM_ok _ (fun i => (rsParity block e).getD i 0)]
  · congr 1
    apply List.ext_getElem
    · simp [rsParity_length]
    · intro i h1 h2
      simp [List.getD_eq_getElem?_getD, List.getElem?_eq_getElem h2]
  · intro i hi
    have hi' : i < e := List.mem_range.mp hi
    have hlt : block.length + i < w.length := by omega
    have : (block.length : Int) + ((i : Nat) : Int) = ((block.length + i : Nat) : Int) := by omega
    rw [this, idx_nat w _ hlt]
    simp only [bind, Except.bind, pure, Except.pure]
    have hget : w[block.length + i] = (rsParity block e)[i]'(by rw [rsParity_length]; exact hi') := by
      have h := congrArg (fun l => l[i]?) hdrop
      simp only [List.getElem?_drop] at h
      rw [List.getElem?_eq_getElem hlt, List.getElem?_eq_getElem (by rw [rsParity_length]; exact hi')] at h
      exact Option.some.inj h
    rw [hget]
    have hlt256 := rsParity_lt block e (by intro x hx; exact hb x hx) _ (List.getElem_mem (by rw [rsParity_length]; exact hi' : i < (rsParity block e).length))
    rw [Nat.mod_eq_of_lt hlt256]
    simp [List.getD_eq_getElem?_getD, List.getElem?_eq_getElem (by rw [rsParity_length]; exact hi' : i < (rsParity block e).length)]


/-! ### the block loop -/

def lsum (l : List Nat) : Nat := l.foldl (· + ·) 0
def lmax (l : List Nat) : Nat := l.foldl max 0

theorem lsum_append (a : List Nat) (x : Nat) : lsum (a ++ [x]) = lsum a + x := by
  unfold lsum; rw [List.foldl_append]; rfl

theorem lmax_append (a : List Nat) (x : Nat) : lmax (a ++ [x]) = max (lmax a) x := by
  unfold lmax; rw [List.foldl_append]; rfl

theorem lsum_cons (x : Nat) (a : List Nat) : lsum (x :: a) = x + lsum a := by
  unfold lsum
  rw [List.foldl_cons, QRRef.foldl_add_eq]
  omega

theorem splitBlocks_append : ∀ (a : List Nat) (x : Nat) (data : List Nat),
    splitBlocks (a ++ [x]) data = splitBlocks a data ++ [(data.drop (lsum a)).take x] := by
  intro a
  induction a with
  | nil => intro x data; simp [splitBlocks, lsum]
  | cons y ys ih =>
    intro x data
    rw [List.cons_append]
    unfold splitBlocks
    rw [ih x (data.drop y), lsum_cons, List.drop_drop]
    rfl

theorem take_succ_getElem {α} (l : List α) (j : Nat) (hj : j < l.length) : l.take (j + 1) = l.take j ++ [l[j]] := by
  rw [List.take_add_one, List.getElem?_eq_getElem hj]; rfl

theorem lsum_take_le (l : List Nat) (j : Nat) (hj : j < l.length) : lsum (l.take j) + l[j] ≤ lsum l := by
  have h1 : lsum (l.take (j + 1)) = lsum (l.take j) + l[j] := by rw [take_succ_getElem l j hj, lsum_append]
  have h2 : ∀ (a b : List Nat), lsum a ≤ lsum (a ++ b) := by
    intro a b
    induction b using QRComp.rev_ind with
    | h0 => simp
    | hs xs x ih => rw [← List.append_assoc, lsum_append]; omega
  have := h2 (l.take (j + 1)) (l.drop (j + 1))
  rw [List.take_append_drop] at this
  omega

/-- state of the block loop after `j` blocks -/
def blockStateAt (lens : List Nat) (e : Nat) (data : List Nat) (j : Nat) : BlockState :=
  { dataBytesOffset := lsum (lens.take j)
    maxNumDataBytes := lmax (lens.take j)
    maxNumEcBytes := if j = 0 then 0 else e
    blocks := (splitBlocks (lens.take j) data).map (fun b => (b, rsParity b e)) }

theorem blockLoop {K : Kernels} (lens : List Nat) (e : Nat) (he : e ∈ QRComp.ecLens) (data : List Nat)
    (hd : ∀ b ∈ data, b < 256) (hsum : data.length = lsum lens)
    (hpos : ∀ x ∈ lens, 0 < x ∧ x + e ≤ 255) (t : Int)
    (hK : ∀ (i : Nat) (hi : i < lens.length),
      K.blockSizes t (data.length : Int) (lens.length : Int) (i : Int) = ((lens[i] : Int), (e : Int), false)) :
    ∀ j, j ≤ lens.length →
      (List.range j).foldlM (fun (st : BlockState) (k : Nat) =>
        blockStep K (bitsOfBytes data) t (data.length : Int) (lens.length : Int) (0 + (k : Int)) st) {} =
        .ok (blockStateAt lens e data j) := by
  intro j
  induction j with
  | zero => intro _; simp [blockStateAt, lsum, lmax, splitBlocks, pure, Except.pure]
  | succ j ih =>
    intro hj
    have hjl : j < lens.length := by omega
    rw [List.range_succ, List.foldlM_append, ih (by omega)]
    simp only [bind, Except.bind, List.foldlM_cons, List.foldlM_nil, pure, Except.pure]
    unfold blockStep
    have h0 : (0 : Int) + (j : Int) = (j : Int) := by omega
    rw [h0, hK j hjl]
    simp only [bind, Except.bind, pure, Except.pure]
    simp only [Bool.false_eq_true, if_false]
    have hoff : (blockStateAt lens e data j).dataBytesOffset = ((lsum (lens.take j) : Nat) : Int) := rfl
    have hle := lsum_take_le lens j hjl
    rw [hoff, toBytes_eq data hd (lsum (lens.take j)) lens[j] (by rw [hsum]; exact hle)]
    simp only
    have hblk : ((data.drop (lsum (lens.take j))).take lens[j]).length = lens[j] := by
      rw [List.length_take, List.length_drop]; omega
    have hp := hpos lens[j] (List.getElem_mem hjl)
    rw [generateECBytes_eq _ e he (by
        intro hnil
        have := congrArg List.length hnil
        rw [hblk] at this
        simp at this; omega)
      (fun b hb => hd b (List.mem_of_mem_drop (List.mem_of_mem_take hb))) (by rw [hblk]; exact hp.2)]
    simp only [Except.ok.injEq]
    unfold blockStateAt
    rw [take_succ_getElem lens j hjl, lsum_append, lmax_append, splitBlocks_append, List.map_append]
    simp only [List.map_cons, List.map_nil, rsParity_length, BlockState.mk.injEq, Nat.add_eq_zero_iff, Nat.succ_ne_self, and_false, if_false]
    refine ⟨by omega, ?_, ?_⟩
    · by_cases h : lmax (lens.take j) < lens[j]
      · have : ((lmax (lens.take j) : Nat) : Int) < ((lens[j] : Nat) : Int) := by omega
        rw [if_pos this, Nat.max_eq_right (by omega)]
      · have : ¬ ((lmax (lens.take j) : Nat) : Int) < ((lens[j] : Nat) : Int) := by omega
        rw [if_neg this, Nat.max_eq_left (by omega)]
    · have he0 : 0 < e := by
        have : ∀ m ∈ QRComp.ecLens, 0 < m := by decide
        exact this e he
      by_cases hj0 : j = 0
      · simp only [hj0, if_true]
        have : (0 : Int) < (e : Int) := by omega
        rw [if_pos this]
        exact ⟨rfl, trivial⟩
      · simp only [hj0, if_false]
        have : ¬ ((e : Int) < (e : Int)) := by omega
        rw [if_neg this]
        exact ⟨rfl, trivial⟩


/-! ### the interleaving double loops -/

theorem interleaveInner (sel : List Nat × List Nat → List Nat) (i : Nat) :
    ∀ (blocks : List (List Nat × List Nat)) (res : Bits),
      interleaveRow sel i blocks res = res ++ bitsOfBytes (blocks.filterMap (fun b => (sel b)[i]?)) := by
  intro blocks
  unfold interleaveRow
  induction blocks with
  | nil => intro res; simp [bitsOfBytes]
  | cons b bs ih =>
    intro res
    rw [List.foldl_cons, List.filterMap_cons]
    cases hb : (sel b)[i]? with
    | none => simp only; exact ih res
    | some x =>
      simp only
      rw [ih, appendBitsIgn_byte, bitsOfBytes_cons, List.append_assoc]

theorem interleaveBytes_eq (sel : List Nat × List Nat → List Nat) (blocks : List (List Nat × List Nat)) :
    ∀ (n : Nat) (res : Bits), interleaveBytes sel (n : Int) blocks res =
      res ++ bitsOfBytes ((List.range n).flatMap (fun i => blocks.filterMap (fun b => (sel b)[i]?))) := by
  intro n
  unfold interleaveBytes
  simp only [Int.toNat_natCast]
  induction n with
  | zero => intro res; simp [bitsOfBytes]
  | succ n ih =>
    intro res
    rw [List.range_succ, List.foldl_append, ih res, List.flatMap_append, bitsOfBytes_append]
    simp only [List.foldl_cons, List.foldl_nil, List.flatMap_cons, List.flatMap_nil, List.append_nil]
    rw [interleaveInner sel n blocks, List.append_assoc]

/-! ### the standard's block table, as the block loop needs it -/

def kernOK (v : Nat) (ec : EC) : Bool :=
  let lens := blockDataLengths v ec
  let n := numBlocks v ec
  let D := dataCodewords v ec
  let e := ecPerBlock v ec
  lens.length == n && decide (0 < n) && totalCodewords v == D + e * n && lsum lens == D &&
    lens == (List.range n).map (fun i => if i < n - D % n then D / n else D / n + 1) &&
    lens.all (fun x => decide (0 < x) && decide (x + e ≤ 255)) && decide (e ∈ QRComp.ecLens)

theorem kernOK_all : ∀ v ∈ List.range 40, ∀ ec ∈ EC.all, kernOK (v + 1) ec = true := by decide +kernel

theorem maxLen_eq_lmax (bs : List (List Nat)) : maxLen bs = lmax (bs.map List.length) := by
  unfold maxLen lmax
  rw [List.foldl_map]

theorem lmax_replicate_ge (l : List Nat) (e : Nat) (h : ∀ x ∈ l, x = e) (hne : l ≠ []) : lmax l = e := by
  unfold lmax
  have : ∀ (l : List Nat) (a : Nat), (∀ x ∈ l, x = e) → l.foldl max a = if l = [] then a else max a e := by
    intro l
    induction l with
    | nil => intro a _; simp
    | cons x xs ih =>
      intro a h
      rw [List.foldl_cons, ih _ (fun y hy => h y (List.mem_cons_of_mem _ hy)), h x List.mem_cons_self]
      by_cases hx : xs = []
      · simp [hx]
      · simp only [hx, if_false, List.cons_ne_nil, Nat.max_assoc, Nat.max_self]
  rw [this l 0 h, if_neg hne]
  omega

/-- `interleaveWithECBytes` on the data codewords of a (version, level): the reference codeword sequence -/
theorem interleave_eq_ref {K : Kernels} (hK : KernelsOK K) (v : Nat) (h1 : 1 ≤ v) (h40 : v ≤ 40) (ec : EC)
    (data : List Nat) (hlen : data.length = dataCodewords v ec) (hb : ∀ b ∈ data, b < 256) :
    interleaveWithECBytes K (bitsOfBytes data) (totalCodewords v : Nat) (dataCodewords v ec : Nat) (numBlocks v ec : Nat) =
      .ok (bitsOfBytes (finalCodewords v ec data)) := by
  have hk := kernOK_all (v - 1) (List.mem_range.mpr (by omega)) ec (by cases ec <;> simp [EC.all])
  rw [show v - 1 + 1 = v by omega] at hk
  unfold kernOK at hk
  simp only [Bool.and_eq_true, beq_iff_eq, decide_eq_true_eq, List.all_eq_true] at hk
  obtain ⟨⟨⟨⟨⟨⟨hl, hn⟩, htot⟩, hsum⟩, hform⟩, hpos⟩, hecl⟩ := hk
  generalize hlens : blockDataLengths v ec = lens at *
  have hKi : ∀ (i : Nat) (hi : i < lens.length),
      K.blockSizes ((totalCodewords v : Nat) : Int) (data.length : Int) (lens.length : Int) (i : Int) =
        ((lens[i] : Int), (ecPerBlock v ec : Int), false) := by
    intro i hi
    rw [hl, hlen, htot, hK.block (dataCodewords v ec) (ecPerBlock v ec) (numBlocks v ec) i hn (by omega)]
    have : lens[i] = (if i < numBlocks v ec - dataCodewords v ec % numBlocks v ec then dataCodewords v ec / numBlocks v ec
        else dataCodewords v ec / numBlocks v ec + 1) := by
      have := congrArg (fun l => l[i]?) hform
      simp only [List.getElem?_eq_getElem hi, List.getElem?_map, List.getElem?_range (by omega : i < numBlocks v ec),
        Option.map_some] at this
      exact Option.some.inj this
    rw [this]
  have hloop := blockLoop (K := K) lens (ecPerBlock v ec) hecl data hb (by rw [hlen, hsum])
    (fun x hx => hpos x hx) ((totalCodewords v : Nat) : Int) hKi lens.length (Nat.le_refl _)
  unfold interleaveWithECBytes interleaveBlocks
  have hsz : sizeInBytes (bitsOfBytes data) = ((dataCodewords v ec : Nat) : Int) := by
    unfold sizeInBytes
    rw [bitsOfBytes_length, hlen]
    congr 1; omega
  simp only [bind, Except.bind, hsz, ne_eq, not_true_eq_false, if_false]
  unfold forRange
  have hcnt : (((numBlocks v ec : Nat) : Int) - 0).toNat = numBlocks v ec := by omega
  rw [hcnt, ← hl, ← hlen, hloop]
  simp only [blockStateAt, List.take_length]
  have hoff : ¬ (((data.length : Nat) : Int) ≠ ((lsum lens : Nat) : Int)) := by rw [hlen, hsum]; simp
  rw [if_neg hoff]
  simp only [pure, Except.pure]
  have hne : lens.length ≠ 0 := by omega
  rw [if_neg hne, interleaveBytes_eq, interleaveBytes_eq, List.nil_append, ← bitsOfBytes_append]
  -- the codeword sequence
  have hsplit := splitBlocks_lengths lens data (by rw [hlen, ← hsum]; rfl)
  have hcw : (List.range (lmax lens)).flatMap (fun i =>
        ((splitBlocks lens data).map (fun b => (b, rsParity b (ecPerBlock v ec)))).filterMap (fun b => b.1[i]?)) ++
      (List.range (ecPerBlock v ec)).flatMap (fun i =>
        ((splitBlocks lens data).map (fun b => (b, rsParity b (ecPerBlock v ec)))).filterMap (fun b => b.2[i]?)) =
      finalCodewords v ec data := by
    unfold finalCodewords
    simp only [hlens]
    rw [QRComp.roundRobin_eq, QRComp.roundRobin_eq, maxLen_eq_lmax, maxLen_eq_lmax, hsplit]
    have hecs : lmax ((List.map (fun b => rsParity b (ecPerBlock v ec)) (splitBlocks lens data)).map List.length) = ecPerBlock v ec := by
      apply lmax_replicate_ge
      · intro x hx
        simp only [List.map_map, List.mem_map, Function.comp] at hx
        obtain ⟨b, _, rfl⟩ := hx
        exact rsParity_length _ _
      · intro hnil
        have := congrArg List.length hnil
        simp only [List.length_map, List.length_nil] at this
        have h2 := congrArg List.length hsplit
        simp only [List.length_map] at h2
        omega
    rw [hecs]
    simp only [List.filterMap_map, Function.comp_def]
  rw [hcw]
  have hfl := Gzx.Properties.C07.final_codewords_length v h1 h40 ec data hlen
  have hsz2 : sizeInBytes (bitsOfBytes (finalCodewords v ec data)) = ((totalCodewords v : Nat) : Int) := by
    unfold sizeInBytes
    rw [bitsOfBytes_length, hfl]
    congr 1; omega
  rw [hsz2]
  simp

end Gzx.QREnc
