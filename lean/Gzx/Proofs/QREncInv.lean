/-
  wp `qrenc` — shape and value invariants of the ByteMatrix operations of the mirror model:
  well-formed n×n matrices, `get`/`set` on them, and "every cell is -1, 0 or 1" through `embedBasicPatterns`.
-/
import Gzx.Model.QREncMatrix
namespace Gzx.QREnc
open Gzx

/-- an `n × n` matrix as `NewByteMatrix(n, n)` makes it -/
structure WFM (n : Nat) (m : ByteMatrix) : Prop where
  w : m.width = n
  h : m.height = n
  rows : m.bytes.length = n
  cols : ∀ r ∈ m.bytes, r.length = n

/-- cell (x, y); 0 outside -/
def cell (m : ByteMatrix) (x y : Nat) : Int := (m.bytes.getD y []).getD x 0

theorem idx_nat {α} (l : List α) (i : Nat) (h : i < l.length) : idx l (i : Int) = .ok l[i] := by
  unfold idx
  have : ¬ ((i : Int) < 0) := by omega
  simp [this, h]

theorem idx_ok {α} {l : List α} {i : Int} {a : α} (h : idx l i = .ok a) :
    0 ≤ i ∧ i.toNat < l.length ∧ l[i.toNat]? = some a := by
  unfold idx panicIdx at h
  by_cases h0 : i < 0
  · simp [h0] at h
  · simp only [h0, if_false] at h
    cases hg : l[i.toNat]? with
    | none => rw [hg] at h; simp at h
    | some b =>
      rw [hg] at h
      simp only [Except.ok.injEq] at h
      subst h
      refine ⟨by omega, ?_, rfl⟩
      exact (List.getElem?_eq_some_iff.mp hg).1

/-- pure description of a successful `Set` -/
def setC (m : ByteMatrix) (x y : Nat) (v : Int) : ByteMatrix :=
  { m with bytes := m.bytes.set y ((m.bytes.getD y []).set x v) }

theorem WFM.row {n : Nat} {m : ByteMatrix} (hm : WFM n m) {y : Nat} (hy : y < n) :
    ∃ r, m.bytes[y]? = some r ∧ r.length = n := by
  have hy' : y < m.bytes.length := by rw [hm.rows]; exact hy
  exact ⟨m.bytes[y], List.getElem?_eq_getElem hy', hm.cols _ (List.getElem_mem hy')⟩

theorem get_nat {n : Nat} {m : ByteMatrix} (hm : WFM n m) {x y : Nat} (hx : x < n) (hy : y < n) :
    m.get (x : Int) (y : Int) = .ok (cell m x y) := by
  obtain ⟨r, hr, hl⟩ := hm.row hy
  have hy' : y < m.bytes.length := by rw [hm.rows]; exact hy
  unfold ByteMatrix.get cell
  rw [idx_nat _ _ hy']
  simp only [bind, Except.bind]
  have hr' : m.bytes[y] = r := by
    have := List.getElem?_eq_getElem hy'
    rw [this] at hr; exact Option.some.inj hr
  rw [hr', idx_nat _ _ (by rw [hl]; exact hx)]
  simp [List.getD_eq_getElem?_getD, hr, List.getElem?_eq_getElem (by rw [hl]; exact hx : x < r.length)]

theorem set_nat {n : Nat} {m : ByteMatrix} (hm : WFM n m) {x y : Nat} (hx : x < n) (hy : y < n) (v : Int) :
    m.set (x : Int) (y : Int) v = .ok (setC m x y v) := by
  obtain ⟨r, hr, hl⟩ := hm.row hy
  have hy' : y < m.bytes.length := by rw [hm.rows]; exact hy
  have hr' : m.bytes[y] = r := by
    have := List.getElem?_eq_getElem hy'
    rw [this] at hr; exact Option.some.inj hr
  unfold ByteMatrix.set setC
  rw [idx_nat _ _ hy']
  simp only [bind, Except.bind]
  rw [hr', idx_nat _ _ (by rw [hl]; exact hx)]
  simp [pure, Except.pure, List.getD_eq_getElem?_getD, hr]

theorem setC_wfm {n : Nat} {m : ByteMatrix} (hm : WFM n m) (x y : Nat) (v : Int) : WFM n (setC m x y v) := by
  refine ⟨hm.w, hm.h, ?_, ?_⟩
  · simp [setC, hm.rows]
  · intro r hr
    simp only [setC] at hr
    rcases List.mem_or_eq_of_mem_set hr with h | h
    · exact hm.cols r h
    · rw [h, List.length_set]
      by_cases hy : y < m.bytes.length
      · have : m.bytes.getD y [] = m.bytes[y] := by simp [List.getD_eq_getElem?_getD, List.getElem?_eq_getElem hy]
        rw [this]; exact hm.cols _ (List.getElem_mem hy)
      · -- the set was a no-op, r cannot be new … but then r ∈ m.bytes anyway
        have hno : m.bytes.set y ((m.bytes.getD y []).set x v) = m.bytes := List.set_eq_of_length_le (by omega)
        rw [hno] at hr
        have := hm.cols r hr
        rw [h, List.length_set] at this
        exact this

theorem cell_setC {n : Nat} {m : ByteMatrix} (hm : WFM n m) {x y : Nat} (hx : x < n) (hy : y < n) (v : Int)
    (x' y' : Nat) : cell (setC m x y v) x' y' = if x' = x ∧ y' = y then v else cell m x' y' := by
  obtain ⟨r, hr, hl⟩ := hm.row hy
  have hy' : y < m.bytes.length := by rw [hm.rows]; exact hy
  unfold cell setC
  simp only [List.getD_eq_getElem?_getD, List.getElem?_set]
  by_cases hyy : y = y'
  · subst hyy
    simp only [hy', if_true, hr, Option.getD_some, List.getElem?_set]
    by_cases hxx : x = x'
    · subst hxx
      simp [hl, hx]
    · have hxx' : ¬ x' = x := fun h => hxx h.symm
      simp [hxx, hxx']
  · have : ¬ (x' = x ∧ y' = y) := by intro h; exact hyy h.2.symm
    simp [hyy, this]

/-! ### a small-values invariant (cells written by the basic patterns are 0 or 1) -/

def Small (m : ByteMatrix) : Prop := ∀ r ∈ m.bytes, ∀ c ∈ r, c = -1 ∨ c = 0 ∨ c = 1

theorem small_set {m m' : ByteMatrix} {x y v : Int} (hs : Small m) (hv : v = -1 ∨ v = 0 ∨ v = 1)
    (h : m.set x y v = .ok m') : Small m' := by
  unfold ByteMatrix.set at h
  simp only [bind, Except.bind] at h
  cases h1 : idx m.bytes y with
  | error e => rw [h1] at h; simp at h
  | ok row =>
    rw [h1] at h
    simp only at h
    cases h2 : idx row x with
    | error e => rw [h2] at h; simp at h
    | ok c =>
      rw [h2] at h
      simp only [pure, Except.pure, Except.ok.injEq] at h
      subst h
      intro r hr c' hc'
      simp only at hr
      rcases List.mem_or_eq_of_mem_set hr with hmem | heq
      · exact hs r hmem c' hc'
      · subst heq
        rcases List.mem_or_eq_of_mem_set hc' with hmem | heq
        · have hrow : row ∈ m.bytes := by
            obtain ⟨_, hlt, hget⟩ := idx_ok h1
            exact List.mem_of_getElem? hget
          exact hs row hrow c' hmem
        · rw [heq]; exact hv

/-- invariants pass through `foldlM` -/
theorem foldlM_inv {σ ι} (P : σ → Prop) (body : σ → ι → Res σ)
    (hb : ∀ s k s', P s → body s k = .ok s' → P s') :
    ∀ (l : List ι) (s s' : σ), P s → l.foldlM body s = .ok s' → P s' := by
  intro l
  induction l with
  | nil => intro s s' hp h; simp [pure, Except.pure] at h; subst h; exact hp
  | cons k ks ih =>
    intro s s' hp h
    simp only [List.foldlM_cons, bind, Except.bind] at h
    cases hk : body s k with
    | error e => rw [hk] at h; simp at h
    | ok s1 => rw [hk] at h; exact ih s1 s' (hb s k s1 hp hk) h

theorem forRange_inv {σ} (P : σ → Prop) (lo hi : Int) (body : Int → σ → Res σ)
    (hb : ∀ (k : Nat) s s', P s → body (lo + (k : Nat)) s = .ok s' → P s') (s s' : σ) (hp : P s)
    (h : forRange lo hi body s = .ok s') : P s' := by
  unfold forRange at h
  exact foldlM_inv P _ (fun s k s' hp hk => hb k s s' hp hk) _ s s' hp h

theorem mem_of_idx {α} {l : List α} {i : Int} {a : α} (h : idx l i = .ok a) : a ∈ l :=
  List.mem_of_getElem? (idx_ok h).2.2

/-- peel one `bind` of a successful computation -/
theorem bind_ok {α β} {x : Res α} {f : α → Res β} {b : β} (h : (x >>= f) = .ok b) :
    ∃ a, x = .ok a ∧ f a = .ok b := by
  cases x with
  | error e => simp [bind, Except.bind] at h
  | ok a => exact ⟨a, rfl, h⟩

theorem pdp_small : ∀ r ∈ pdp, ∀ c ∈ r, c = -1 ∨ c = 0 ∨ c = 1 := by decide
theorem pap_small : ∀ r ∈ pap, ∀ c ∈ r, c = -1 ∨ c = 0 ∨ c = 1 := by decide

theorem small_pdp (xs ys : Int) {m m' : ByteMatrix} (hs : Small m)
    (h : embedPositionDetectionPattern xs ys m = .ok m') : Small m' := by
  unfold embedPositionDetectionPattern at h
  refine forRange_inv Small 0 7 _ ?_ m m' hs h
  intro ky s s' hs hb
  obtain ⟨patternY, hp, hb⟩ := bind_ok hb
  refine forRange_inv Small 0 7 _ ?_ s s' hs hb
  intro kx t t' ht hb2
  obtain ⟨v, hv, hb2⟩ := bind_ok hb2
  exact small_set ht (pdp_small _ (mem_of_idx hp) _ (mem_of_idx hv)) hb2

theorem small_pap (xs ys : Int) {m m' : ByteMatrix} (hs : Small m)
    (h : embedPositionAdjustmentPattern xs ys m = .ok m') : Small m' := by
  unfold embedPositionAdjustmentPattern at h
  refine forRange_inv Small 0 5 _ ?_ m m' hs h
  intro ky s s' hs hb
  obtain ⟨patternY, hp, hb⟩ := bind_ok hb
  refine forRange_inv Small 0 5 _ ?_ s s' hs hb
  intro kx t t' ht hb2
  obtain ⟨v, hv, hb2⟩ := bind_ok hb2
  exact small_set ht (pap_small _ (mem_of_idx hp) _ (mem_of_idx hv)) hb2

theorem small_hsep (xs ys : Int) {m m' : ByteMatrix} (hs : Small m)
    (h : embedHorizontalSeparationPattern xs ys m = .ok m') : Small m' := by
  unfold embedHorizontalSeparationPattern at h
  refine forRange_inv Small 0 8 _ ?_ m m' hs h
  intro k s s' hs hb
  simp only [bind, Except.bind] at hb
  cases hg : s.get (xs + (0 + (k : Int))) ys with
  | error e => rw [hg] at hb; simp at hb
  | ok c =>
    rw [hg] at hb
    simp only at hb
    split at hb
    · simp [bind, Except.bind] at hb
    · exact small_set hs (by simp) hb

theorem small_vsep (xs ys : Int) {m m' : ByteMatrix} (hs : Small m)
    (h : embedVerticalSeparationPattern xs ys m = .ok m') : Small m' := by
  unfold embedVerticalSeparationPattern at h
  refine forRange_inv Small 0 7 _ ?_ m m' hs h
  intro k s s' hs hb
  simp only [bind, Except.bind] at hb
  cases hg : s.get xs (ys + (0 + (k : Int))) with
  | error e => rw [hg] at hb; simp at hb
  | ok c =>
    rw [hg] at hb
    simp only at hb
    split at hb
    · simp [bind, Except.bind] at hb
    · exact small_set hs (by simp) hb

theorem small_pdps {m m' : ByteMatrix} (hs : Small m)
    (h : embedPositionDetectionPatternsAndSeparators m = .ok m') : Small m' := by
  unfold embedPositionDetectionPatternsAndSeparators at h
  obtain ⟨m1, h1, h⟩ := bind_ok h
  obtain ⟨m2, h2, h⟩ := bind_ok h
  obtain ⟨m3, h3, h⟩ := bind_ok h
  obtain ⟨m4, h4, h⟩ := bind_ok h
  obtain ⟨m5, h5, h⟩ := bind_ok h
  obtain ⟨m6, h6, h⟩ := bind_ok h
  obtain ⟨m7, h7, h⟩ := bind_ok h
  obtain ⟨m8, h8, h⟩ := bind_ok h
  have s1 := small_pdp _ _ hs h1
  have s2 := small_pdp _ _ s1 h2
  have s3 := small_pdp _ _ s2 h3
  have s4 := small_hsep _ _ s3 h4
  have s5 := small_hsep _ _ s4 h5
  have s6 := small_hsep _ _ s5 h6
  have s7 := small_vsep _ _ s6 h7
  have s8 := small_vsep _ _ s7 h8
  exact small_vsep _ _ s8 h

theorem small_dark {m m' : ByteMatrix} (hs : Small m) (h : embedDarkDotAtLeftBottomCorner m = .ok m') : Small m' := by
  unfold embedDarkDotAtLeftBottomCorner at h
  obtain ⟨c, _, h⟩ := bind_ok h
  split at h
  · simp [bind, Except.bind] at h
  · exact small_set hs (by simp) h

theorem small_paps (v : Int) {m m' : ByteMatrix} (hs : Small m)
    (h : maybeEmbedPositionAdjustmentPatterns v m = .ok m') : Small m' := by
  unfold maybeEmbedPositionAdjustmentPatterns at h
  split at h
  · simp only [Except.ok.injEq] at h; subst h; exact hs
  · obtain ⟨coords, _, h⟩ := bind_ok h
    refine foldlM_inv Small _ ?_ coords m m' hs h
    intro s y s' hs hb
    split at hb
    · refine foldlM_inv Small _ ?_ coords s s' hs hb
      intro t x t' ht hb2
      split at hb2
      · obtain ⟨c, _, hb2⟩ := bind_ok hb2
        split at hb2
        · exact small_pap _ _ ht hb2
        · simp only [pure, Except.pure, Except.ok.injEq] at hb2; subst hb2; exact ht
      · simp only [pure, Except.pure, Except.ok.injEq] at hb2; subst hb2; exact ht
    · simp only [pure, Except.pure, Except.ok.injEq] at hb; subst hb; exact hs

theorem tmod2_small (k : Nat) : Int.tmod (8 + (k : Int) + 1) 2 = -1 ∨ Int.tmod (8 + (k : Int) + 1) 2 = 0 ∨
    Int.tmod (8 + (k : Int) + 1) 2 = 1 := by
  rw [Int.tmod_eq_emod_of_nonneg (by omega)]
  omega

theorem small_timing {m m' : ByteMatrix} (hs : Small m) (h : embedTimingPatterns m = .ok m') : Small m' := by
  unfold embedTimingPatterns at h
  refine forRange_inv Small 8 _ _ ?_ m m' hs h
  intro k s s' hs hb
  have key : ∀ (t t' : ByteMatrix) (x y : Int), Small t →
      (do let c ← t.get x y; if isEmpty c then t.set x y ((8 + (k : Int) + 1).tmod 2) else pure t) = .ok t' → Small t' := by
    intro t t' x y ht h
    obtain ⟨c, _, h⟩ := bind_ok h
    split at h
    · exact small_set ht (tmod2_small k) h
    · simp only [pure, Except.pure, Except.ok.injEq] at h; subst h; exact ht
  obtain ⟨c1, hc1, hb⟩ := bind_ok hb
  simp only [] at hb
  split at hb
  · obtain ⟨s1, h1, hb⟩ := bind_ok hb
    exact key s1 s' _ _ (small_set hs (tmod2_small k) h1) hb
  · obtain ⟨s1, h1, hb⟩ := bind_ok hb
    simp only [pure, Except.pure, Except.ok.injEq] at h1
    subst h1
    exact key s s' _ _ hs hb

/-- every cell `embedBasicPatterns` leaves is -1, 0 or 1 -/
theorem small_basic (v : Int) {m m' : ByteMatrix} (hs : Small m) (h : embedBasicPatterns v m = .ok m') : Small m' := by
  unfold embedBasicPatterns at h
  obtain ⟨m1, h1, h⟩ := bind_ok h
  obtain ⟨m2, h2, h⟩ := bind_ok h
  obtain ⟨m3, h3, h⟩ := bind_ok h
  exact small_timing (small_paps v (small_dark (small_pdps hs h1) h2) h3) h

end Gzx.QREnc
