/-
  wp `enc2` — `appendKanjiBytes` of the mirror model = the reference's `packKanji`, for EVERY Shift_JIS byte string
  and including the error returns: no encoder result, an odd number of bytes, or a byte pair outside
  0x8140..0x9FFC / 0xE040..0xEBBF is the WriterException "Invalid byte sequence" exactly when `packKanji` has no
  value; otherwise the loop `for i := 0; i < maxI; i += 2` appends exactly the reference's 13-bit values.
-/
import Gzx.Proofs.QREncSegments
namespace Gzx.QREnc
open Gzx Gzx.QRRef

/-- what the reference makes of one byte pair, appended -/
def kanjiStepRef (bits : Bits) (b1 b2 : Nat) : Res Bits :=
  match kanjiCode b1 b2 with
  | some c => .ok (bits ++ toBitsBE 13 c)
  | none => .error .writer

/-- the body of the loop of `appendKanjiBytes` at pair `k` -/
def kanjiBody (bytes : List Nat) (bits : Bits) (k : Nat) : Res Bits := do
  let i : Int := ((2 * k : Nat) : Int)
  let byte1 ← idx bytes i
  let byte2 ← idx bytes (i + 1)
  let code : Nat := (byte1 % 256) <<< 8 ||| (byte2 % 256)
  let subtracted : Int :=
    if code ≥ 0x8140 ∧ code ≤ 0x9ffc then (code : Int) - 0x8140
    else if code ≥ 0xe040 ∧ code ≤ 0xebbf then (code : Int) - 0xc140
    else -1
  if subtracted = -1 then .error .writer
  else
    let encoded : Int := (subtracted >>> 8) * 0xc0 + subtracted % 256
    pure (appendBitsIgn encoded 13 bits)

theorem appendKanjiBytes_unfold (bytes : List Nat) (bits : Bits) (he : bytes.length % 2 = 0) :
    appendKanjiBytes (some bytes) bits = (List.range (bytes.length / 2)).foldlM (kanjiBody bytes) bits := by
  unfold appendKanjiBytes
  simp only
  have h : ¬ (bytes.length % 2 ≠ 0) := by omega
  rw [if_neg h]
  have : (((bytes.length : Int) - 1 + 1) / 2).toNat = bytes.length / 2 := by omega
  rw [this]
  rfl

theorem code_eq (b1 b2 : Nat) (h1 : b1 < 256) (h2 : b2 < 256) : (b1 % 256) <<< 8 ||| (b2 % 256) = b1 * 256 + b2 := by
  rw [Nat.mod_eq_of_lt h1, Nat.mod_eq_of_lt h2, ← Nat.shiftLeft_add_eq_or_of_lt (by simpa using h2), Nat.shiftLeft_eq]

theorem kanjiBody_eq (bytes : List Nat) (bits : Bits) (k : Nat) (hk : 2 * k + 1 < bytes.length)
    (hb : ∀ b ∈ bytes, b < 256) :
    kanjiBody bytes bits k = kanjiStepRef bits (bytes[2 * k]'(by omega)) (bytes[2 * k + 1]'hk) := by
  unfold kanjiBody
  have hi1 := idx_nat bytes (2 * k) (by omega)
  have hi2 := idx_nat bytes (2 * k + 1) hk
  rw [show (((2 * k + 1 : Nat) : Int)) = ((2 * k : Nat) : Int) + 1 by omega] at hi2
  simp only [hi1, hi2, bind, Except.bind]
  have h1 := hb _ (List.getElem_mem (by omega : 2 * k < bytes.length))
  have h2 := hb _ (List.getElem_mem hk)
  generalize bytes[2 * k]'(by omega) = b1 at *
  generalize bytes[2 * k + 1]'hk = b2 at *
  rw [code_eq b1 b2 h1 h2]
  unfold kanjiStepRef kanjiCode
  simp only
  by_cases ha : 0x8140 ≤ b1 * 256 + b2 ∧ b1 * 256 + b2 ≤ 0x9FFC
  · have ha' : b1 * 256 + b2 ≥ 0x8140 ∧ b1 * 256 + b2 ≤ 0x9ffc := ha
    rw [if_pos ha, if_pos ha']
    have hne : ¬ (((b1 * 256 + b2 : Nat) : Int) - 0x8140 = -1) := by omega
    rw [if_neg hne]
    simp only [pure, Except.pure]
    have henc : ((((b1 * 256 + b2 : Nat) : Int) - 0x8140) >>> 8) * 0xc0 + (((b1 * 256 + b2 : Nat) : Int) - 0x8140) % 256 =
        ((((b1 * 256 + b2 - 0x8140) / 256) * 0xC0 + (b1 * 256 + b2 - 0x8140) % 256 : Nat) : Int) := by
      rw [Int.shiftRight_eq_div_pow]
      have : ((2 ^ 8 : Nat) : Int) = 256 := by decide
      rw [this]
      omega
    rw [henc, show (13 : Int) = ((13 : Nat) : Int) by rfl, appendBitsIgn_nat _ 13 (by omega)]
  · have ha' : ¬ (b1 * 256 + b2 ≥ 0x8140 ∧ b1 * 256 + b2 ≤ 0x9ffc) := ha
    rw [if_neg ha, if_neg ha']
    by_cases hc : 0xE040 ≤ b1 * 256 + b2 ∧ b1 * 256 + b2 ≤ 0xEBBF
    · have hc' : b1 * 256 + b2 ≥ 0xe040 ∧ b1 * 256 + b2 ≤ 0xebbf := hc
      rw [if_pos hc, if_pos hc']
      have hne : ¬ (((b1 * 256 + b2 : Nat) : Int) - 0xc140 = -1) := by omega
      rw [if_neg hne]
      simp only [pure, Except.pure]
      have henc : ((((b1 * 256 + b2 : Nat) : Int) - 0xc140) >>> 8) * 0xc0 + (((b1 * 256 + b2 : Nat) : Int) - 0xc140) % 256 =
          ((((b1 * 256 + b2 - 0xC140) / 256) * 0xC0 + (b1 * 256 + b2 - 0xC140) % 256 : Nat) : Int) := by
        rw [Int.shiftRight_eq_div_pow]
        have : ((2 ^ 8 : Nat) : Int) = 256 := by decide
        rw [this]
        omega
      rw [henc, show (13 : Int) = ((13 : Nat) : Int) by rfl, appendBitsIgn_nat _ 13 (by omega)]
    · have hc' : ¬ (b1 * 256 + b2 ≥ 0xe040 ∧ b1 * 256 + b2 ≤ 0xebbf) := hc
      rw [if_neg hc, if_neg hc']
      simp

/-- `packKanji` of a concatenation whose first part has an even number of bytes -/
theorem packKanji_append : ∀ (n : Nat) (a b : List Nat), a.length = 2 * n →
    packKanji (a ++ b) = (packKanji a).bind (fun x => (packKanji b).map (x ++ ·)) := by
  intro n
  induction n with
  | zero =>
    intro a b ha
    have : a = [] := List.length_eq_zero_iff.mp (by omega)
    subst this
    simp only [List.nil_append, packKanji, Option.bind_some]
    cases packKanji b <;> simp
  | succ n ih =>
    intro a b ha
    match a, ha with
    | hi :: lo :: rest, ha =>
      have hr : rest.length = 2 * n := by simp at ha; omega
      simp only [List.cons_append, packKanji]
      rw [ih rest b hr]
      cases kanjiCode hi lo with
      | none => simp
      | some c =>
        cases packKanji rest with
        | none => simp
        | some r => cases packKanji b <;> simp

theorem packKanji_pair (b1 b2 : Nat) : packKanji [b1, b2] = (kanjiCode b1 b2).map (toBitsBE 13 ·) := by
  simp only [packKanji]
  cases kanjiCode b1 b2 <;> simp

/-- the loop over the first `k` pairs = `packKanji` of the first `2k` bytes -/
theorem kanjiLoop (bytes : List Nat) (hb : ∀ b ∈ bytes, b < 256) (bits : Bits) :
    ∀ k, 2 * k ≤ bytes.length →
      (List.range k).foldlM (kanjiBody bytes) bits =
        match packKanji (bytes.take (2 * k)) with
        | some d => .ok (bits ++ d)
        | none => .error .writer := by
  intro k
  induction k with
  | zero => intro _; simp [packKanji, pure, Except.pure]
  | succ k ih =>
    intro hk
    rw [List.range_succ, List.foldlM_append, ih (by omega)]
    have htake : bytes.take (2 * (k + 1)) = bytes.take (2 * k) ++ [bytes[2 * k]'(by omega), bytes[2 * k + 1]'(by omega)] := by
      have e1 : bytes.take (2 * k + 1 + 1) = bytes.take (2 * k + 1) ++ [bytes[2 * k + 1]'(by omega)] := by
        rw [List.take_succ, List.getElem?_eq_getElem (by omega : 2 * k + 1 < bytes.length)]; rfl
      have e0 : bytes.take (2 * k + 1) = bytes.take (2 * k) ++ [bytes[2 * k]'(by omega)] := by
        rw [List.take_succ, List.getElem?_eq_getElem (by omega : 2 * k < bytes.length)]; rfl
      rw [show 2 * (k + 1) = 2 * k + 1 + 1 by omega, e1, e0, List.append_assoc]
      rfl
    rw [htake, packKanji_append k _ _ (by rw [List.length_take]; omega), packKanji_pair]
    cases hp : packKanji (bytes.take (2 * k)) with
    | none => simp [bind, Except.bind]
    | some d =>
      simp only [bind, Except.bind, List.foldlM_cons, List.foldlM_nil, Option.bind_some]
      rw [kanjiBody_eq bytes (bits ++ d) k (by omega) hb]
      unfold kanjiStepRef
      cases kanjiCode (bytes[2 * k]'(by omega)) (bytes[2 * k + 1]'(by omega)) with
      | none => simp
      | some c => simp [pure, Except.pure, List.append_assoc]

theorem packKanji_odd : ∀ (n : Nat) (bytes : List Nat), bytes.length = 2 * n + 1 → packKanji bytes = none := by
  intro n
  induction n with
  | zero =>
    intro bytes h
    match bytes, h with
    | [b], _ => rfl
  | succ n ih =>
    intro bytes h
    match bytes, h with
    | hi :: lo :: rest, h =>
      simp only [packKanji]
      rw [ih rest (by simp at h; omega)]
      cases kanjiCode hi lo <;> simp

/-- `appendKanjiBytes` = `packKanji`, error returns included -/
theorem appendKanjiBytes_eq (sjis : Option (List Nat)) (hb : ∀ bytes, sjis = some bytes → ∀ b ∈ bytes, b < 256) (bits : Bits) :
    appendKanjiBytes sjis bits =
      match sjis.bind packKanji with
      | some d => .ok (bits ++ d)
      | none => .error .writer := by
  cases sjis with
  | none => rfl
  | some bytes =>
    simp only [Option.bind_some]
    by_cases he : bytes.length % 2 = 0
    · rw [appendKanjiBytes_unfold bytes bits he, kanjiLoop bytes (hb bytes rfl) bits (bytes.length / 2) (by omega)]
      rw [show 2 * (bytes.length / 2) = bytes.length by omega, List.take_length]
    · rw [packKanji_odd (bytes.length / 2) bytes (by omega)]
      unfold appendKanjiBytes
      simp only
      rw [if_pos (by omega)]

end Gzx.QREnc
