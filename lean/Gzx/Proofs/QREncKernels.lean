/-
  wp `qrenc` — the hand mirrors of the two regenerated kernels (`refKernels`, what the driver runs) satisfy
  `KernelsOK`: block sizes = the standard's short/long split, mask bit = the standard's mask condition.
-/
import Gzx.Proofs.QREncData
import Gzx.Proofs.QRKernels
namespace Gzx.QREnc
open Gzx Gzx.QRRef Gzx.QRKernels

theorem ring1' (Q E N R : Int) :
    (Q + (Q + E - Q)) * (N - R) + (Q + 1 + (Q + E + 1 - (Q + 1))) * R = N * Q + R + E * N := by
  grind

theorem refBlockSizes_formula (D e n b : Nat) (hn : 0 < n) (hb : b < n) :
    refBlockSizes ((D + e * n : Nat) : Int) (D : Int) (n : Int) (b : Int) =
      (((if b < n - D % n then D / n else D / n + 1 : Nat) : Int), (e : Int), false) := by
  unfold refBlockSizes
  have h1 : Int.tmod ((D + e * n : Nat) : Int) (n : Int) = ((D % n : Nat) : Int) := by
    rw [tmod_natCast, Nat.add_mul_mod_self_right]
  have h2 : Int.tdiv ((D + e * n : Nat) : Int) (n : Int) = ((D / n : Nat) : Int) + (e : Int) := by
    rw [tdiv_natCast, Nat.add_mul_div_right _ _ hn, Int.natCast_add]
  have h3 : Int.tdiv (D : Int) (n : Int) = ((D / n : Nat) : Int) := tdiv_natCast D n
  have hD : ((D + e * n : Nat) : Int) = (n : Int) * ((D / n : Nat) : Int) + ((D % n : Nat) : Int) + (e : Int) * (n : Int) := by
    have := Nat.div_add_mod D n
    rw [← Int.natCast_mul, ← Int.natCast_mul, ← Int.natCast_add, ← Int.natCast_add, this]
  have hr : D % n < n := Nat.mod_lt _ hn
  simp only [h1, h2, h3]
  have c0 : ¬ ((b : Int) ≥ (n : Int)) := by omega
  rw [if_neg c0]
  have c1 : ¬ (((D / n : Nat) : Int) + (e : Int) - ((D / n : Nat) : Int) ≠ ((D / n : Nat) : Int) + (e : Int) + 1 - (((D / n : Nat) : Int) + 1)) := by
    omega
  rw [if_neg c1]
  have c2 : ¬ ((n : Int) ≠ (n : Int) - ((D % n : Nat) : Int) + ((D % n : Nat) : Int)) := by omega
  rw [if_neg c2]
  have c3 : ¬ (((D + e * n : Nat) : Int) ≠
      (((D / n : Nat) : Int) + (((D / n : Nat) : Int) + (e : Int) - ((D / n : Nat) : Int))) * ((n : Int) - ((D % n : Nat) : Int)) +
      (((D / n : Nat) : Int) + 1 + (((D / n : Nat) : Int) + (e : Int) + 1 - (((D / n : Nat) : Int) + 1))) * ((D % n : Nat) : Int)) := by
    rw [hD, ring1']
    simp
  rw [if_neg c3]
  by_cases hlt : b < n - D % n
  · have : (b : Int) < (n : Int) - ((D % n : Nat) : Int) := by omega
    rw [if_pos this, if_pos hlt]
    clear c3 hD c1 c2
    simp only [Prod.mk.injEq, and_true]
    refine ⟨trivial, ?_⟩
    generalize ((D / n : Nat) : Int) = q
    omega
  · have : ¬ (b : Int) < (n : Int) - ((D % n : Nat) : Int) := by omega
    rw [if_neg this, if_neg hlt]
    clear c3 hD c1 c2
    simp only [Prod.mk.injEq, and_true, Int.natCast_add, Int.cast_ofNat_Int]
    refine ⟨trivial, ?_⟩
    generalize ((D / n : Nat) : Int) = q
    omega

theorem emod2_natCast (a : Nat) : ((a : Int) % 2 == 0) = (a % 2 == 0) := by
  rw [Bool.eq_iff_iff]; simp only [beq_iff_eq]; omega

theorem refMaskBit_formula (k x y : Nat) (hk : k < 8) :
    refMaskBit (k : Int) (x : Int) (y : Int) = (maskBit k x y, false) := by
  have hk' : k = 0 ∨ k = 1 ∨ k = 2 ∨ k = 3 ∨ k = 4 ∨ k = 5 ∨ k = 6 ∨ k = 7 := by omega
  rcases hk' with h | h | h | h | h | h | h | h <;> subst h <;>
    simp (decide := true) only [refMaskBit, maskBit, if_true, if_false, ← Int.natCast_add, ← Int.natCast_mul,
      tmod_natCast_2, tmod_natCast_3, tdiv_natCast_2, tdiv_natCast_3, emod2_natCast,
      Prod.mk.injEq, and_true] <;>
    (rw [Bool.eq_iff_iff]; simp only [beq_iff_eq]; generalize y * x = t; generalize y + x = s; omega)

theorem refKernels_ok : KernelsOK refKernels :=
  ⟨fun D e n b hn hb => refBlockSizes_formula D e n b hn hb, fun k x y hk => refMaskBit_formula k x y hk⟩

end Gzx.QREnc
