/-
  wp `qrenc` — `calculateMaskPenalty` and `chooseMaskPattern` of the mirror model = the reference penalty and
  mask choice (lowest penalty, lowest pattern reference on a tie; the `math.MaxInt32` start value is never reached).
-/
import Gzx.Proofs.QREncPenalty3
import Gzx.Proofs.QREncBuild
import Gzx.Proofs.QREncOrder
set_option linter.unusedSimpArgs false
namespace Gzx.QREnc
open Gzx Gzx.QRRef

/-- the four rules together -/
theorem calculateMaskPenalty_eq {n : Nat} {rows : List (List Bool)} (hs : Square n rows) (hn : 0 < n) :
    calculateMaskPenalty (ofRows rows n) = .ok ((penalty rows : Nat) : Int) := by
  unfold calculateMaskPenalty
  rw [rule1_eq hs, rule2_eq hs, rule3_eq hs, rule4_eq hs hn]
  simp only [bind, Except.bind, pure, Except.pure, Except.ok.injEq]
  unfold penalty
  omega

/-! ### bounds: the penalty of a symbol is far below `math.MaxInt32` -/

theorem runPenalty_le : ∀ (r : List Bool) (prev : Option Bool) (run : Nat), runPenalty r prev run ≤ r.length + run := by
  intro r
  induction r with
  | nil => intro prev run; unfold runPenalty; split <;> simp <;> omega
  | cons b bs ih =>
    intro prev run
    unfold runPenalty
    split
    · have := ih prev (run + 1); simp only [List.length_cons]; omega
    · have := ih (some b) 1
      simp only [List.length_cons]
      split <;> omega

theorem sumL_le (l : List Nat) (b : Nat) (h : ∀ x ∈ l, x ≤ b) : sumL l ≤ l.length * b := by
  induction l with
  | nil => simp [sumL]
  | cons x xs ih =>
    rw [sumL_cons, List.length_cons, Nat.succ_mul]
    have := ih (fun y hy => h y (List.mem_cons_of_mem _ hy))
    have := h x List.mem_cons_self
    omega

theorem blocks2_le : ∀ (r0 r1 : List Bool), blocks2 r0 r1 ≤ r0.length := by
  intro r0
  induction r0 with
  | nil => intro r1; simp [blocks2]
  | cons a r0' ih =>
    intro r1
    cases r0' with
    | nil => simp [blocks2]
    | cons b r0'' =>
      cases r1 with
      | nil => simp [blocks2]
      | cons c r1' =>
        cases r1' with
        | nil => simp [blocks2]
        | cons d r1'' =>
          have hb2 : blocks2 (a :: b :: r0'') (c :: d :: r1'') =
              (if a = b ∧ a = c ∧ a = d then 1 else 0) + blocks2 (b :: r0'') (d :: r1'') := rfl
          rw [hb2]
          have := ih (d :: r1'')
          simp only [List.length_cons] at this ⊢
          split <;> omega

theorem rowPairs_le (n : Nat) : ∀ (rows : List (List Bool)), (∀ r ∈ rows, r.length = n) → rowPairs rows ≤ rows.length * n := by
  intro rows
  induction rows with
  | nil => intro _; simp [rowPairs]
  | cons r0 rs ih =>
    intro h
    cases rs with
    | nil => simp [rowPairs]
    | cons r1 rs' =>
      have hrp : rowPairs (r0 :: r1 :: rs') = blocks2 r0 r1 + rowPairs (r1 :: rs') := rfl
      rw [hrp]
      have h1 := blocks2_le r0 r1
      have h2 := ih (fun r hr => h r (List.mem_cons_of_mem _ hr))
      have h3 := h r0 List.mem_cons_self
      rw [List.length_cons (a := r0), Nat.succ_mul]
      omega

theorem sumR_le (n : Nat) (f : Nat → Nat) (b : Nat) (h : ∀ k, k < n → f k ≤ b) : sumR n f ≤ n * b := by
  induction n with
  | zero => simp [sumR, sumL]
  | succ n ih =>
    rw [sumR_succ, Nat.succ_mul]
    have := ih (fun k hk => h k (by omega))
    have := h n (by omega)
    omega

theorem finderLike_le (l : List Bool) : finderLike [] l ≤ l.length := by
  rw [finderLike_sumR]
  have := sumR_le l.length (fun i => if n3At l i then 1 else 0) 1 (by intro k _; split <;> omega)
  omega

theorem sumL_map_le {α} (l : List α) (f g : α → Nat) (h : ∀ a ∈ l, f a ≤ g a) : sumL (l.map f) ≤ sumL (l.map g) := by
  induction l with
  | nil => simp [sumL]
  | cons a as ih =>
    rw [List.map_cons, List.map_cons, sumL_cons, sumL_cons]
    have := ih (fun b hb => h b (List.mem_cons_of_mem _ hb))
    have := h a List.mem_cons_self
    omega

theorem penalty4_le (rows : List (List Bool)) : penalty4 rows ≤ 100 := by
  unfold penalty4
  simp only
  have hdark : sumL (rows.map (fun r => r.count true)) ≤ sumL (rows.map List.length) :=
    sumL_map_le rows _ _ (fun r _ => List.count_le_length)
  generalize sumL (rows.map List.length) = total at hdark
  generalize sumL (rows.map (fun r => r.count true)) = dark at hdark
  by_cases ht : total = 0
  · subst ht; simp
  · have hle : ∀ dev, dev ≤ total → 10 * (dev * 10 / total) ≤ 100 := by
      intro dev hdev
      have : dev * 10 / total ≤ 10 := by
        apply Nat.div_le_of_le_mul
        rw [Nat.mul_comm total 10, Nat.mul_comm dev 10]
        exact Nat.mul_le_mul_left 10 hdev
      omega
    split
    · exact hle _ (by omega)
    · exact hle _ (by omega)

/-- the penalty of an `n × n` matrix is at most `85·n² + 100` -/
theorem penalty_le {n : Nat} {rows : List (List Bool)} (hs : Square n rows) : penalty rows ≤ 85 * (n * n) + 100 := by
  unfold penalty
  have h1 : penalty1 rows ≤ 2 * (n * n) := by
    unfold penalty1
    rw [hs.len, transpose_eq]
    have ha : sumL (rows.map (fun r => runPenalty r none 0)) ≤ rows.length * n := by
      have hh := sumL_le (rows.map (fun r => runPenalty r none 0)) n ?_
      · simpa using hh
      intro x hx
      obtain ⟨r, hr, rfl⟩ := List.mem_map.mp hx
      have := runPenalty_le r none 0
      rw [hs.cols r hr] at this
      omega
    have hb : sumL (((List.range n).map (column rows)).map (fun r => runPenalty r none 0)) ≤ n * n := by
      have := sumL_le (((List.range n).map (column rows)).map (fun r => runPenalty r none 0)) n (by
        intro x hx
        simp only [List.map_map, List.mem_map, List.mem_range, Function.comp] at hx
        obtain ⟨i, _, rfl⟩ := hx
        have := runPenalty_le (column rows i) none 0
        rw [column_length hs] at this
        omega)
      simpa using this
    rw [hs.len] at ha
    omega
  have h2 : penalty2 rows ≤ 3 * (n * n) := by
    unfold penalty2
    have := rowPairs_le n rows hs.cols
    rw [hs.len] at this
    omega
  have h3 : penalty3 rows ≤ 80 * (n * n) := by
    unfold penalty3
    rw [hs.len, transpose_eq]
    have ha : sumL (rows.map (finderLike [])) ≤ rows.length * n := by
      have hh := sumL_le (rows.map (finderLike [])) n ?_
      · simpa using hh
      intro x hx
      obtain ⟨r, hr, rfl⟩ := List.mem_map.mp hx
      have := finderLike_le r
      rw [hs.cols r hr] at this
      exact this
    have hb : sumL (((List.range n).map (column rows)).map (finderLike [])) ≤ n * n := by
      have := sumL_le (((List.range n).map (column rows)).map (finderLike [])) n (by
        intro x hx
        simp only [List.map_map, List.mem_map, List.mem_range, Function.comp] at hx
        obtain ⟨i, _, rfl⟩ := hx
        have := finderLike_le (column rows i)
        rw [column_length hs] at this
        exact this)
      simpa using this
    rw [hs.len] at ha
    omega
  have h4 := penalty4_le rows
  omega


/-! ### chooseMaskPattern -/

theorem foldlM_ok_inv {σ ι} (P : σ → Prop) (body : σ → ι → Res σ) (g : σ → ι → σ) :
    ∀ (l : List ι) (s : σ), P s → (∀ s k, k ∈ l → P s → body s k = .ok (g s k) ∧ P (g s k)) →
      l.foldlM body s = .ok (l.foldl g s) := by
  intro l
  induction l with
  | nil => intro s _ _; rfl
  | cons k ks ih =>
    intro s hp h
    simp only [List.foldlM_cons, bind, Except.bind, List.foldl_cons]
    obtain ⟨h1, h2⟩ := h s k List.mem_cons_self hp
    rw [h1]
    exact ih _ h2 (fun s k' hk' hp' => h s k' (List.mem_cons_of_mem _ hk') hp')

/-- (minPenalty, bestMaskPattern) of the Go loop over penalties `pen k` -/
def goStep (pen : Nat → Nat) (st : Int × Int) (k : Nat) : Int × Int :=
  if ((pen k : Nat) : Int) < st.1 then (((pen k : Nat) : Int), (k : Int)) else st

/-- (best pattern, its penalty + 1) of the reference -/
def refStep (pen : Nat → Nat) (best : Nat × Nat) (k : Nat) : Nat × Nat :=
  if best.2 = 0 ∨ pen k + 1 < best.2 then (k, pen k + 1) else best

theorem choose_agree (pen : Nat → Nat) : ∀ (l : List Nat) (st : Int × Int) (rs : Nat × Nat),
    (st.1 = ((rs.2 : Nat) : Int) - 1 ∧ st.2 = ((rs.1 : Nat) : Int) ∧ 1 ≤ rs.2) →
    ((l.foldl (goStep pen) st).1 = (((l.foldl (refStep pen) rs).2 : Nat) : Int) - 1 ∧
     (l.foldl (goStep pen) st).2 = (((l.foldl (refStep pen) rs).1 : Nat) : Int) ∧ 1 ≤ (l.foldl (refStep pen) rs).2) := by
  intro l
  induction l with
  | nil => intro st rs h; exact h
  | cons k ks ih =>
    intro st rs h
    rw [List.foldl_cons, List.foldl_cons]
    apply ih
    obtain ⟨h1, h2, h3⟩ := h
    unfold goStep refStep
    by_cases hlt : ((pen k : Nat) : Int) < st.1
    · have hr : rs.2 = 0 ∨ pen k + 1 < rs.2 := by right; omega
      rw [if_pos hlt, if_pos hr]
      refine ⟨?_, ?_, ?_⟩
      · show ((pen k : Nat) : Int) = ((pen k + 1 : Nat) : Int) - 1
        omega
      · rfl
      · show 1 ≤ pen k + 1
        omega
    · have hge : st.1 ≤ ((pen k : Nat) : Int) := by omega
      rw [h1] at hge
      have hr : ¬ (rs.2 = 0 ∨ pen k + 1 < rs.2) := by omega
      rw [if_neg hlt, if_neg hr]
      exact ⟨h1, h2, h3⟩

theorem choose_first (pen : Nat → Nat) (h0 : pen 0 < 2147483647) (l : List Nat) :
    ((0 :: l).foldl (goStep pen) (2147483647, -1)).2 = ((((0 :: l).foldl (refStep pen) (0, 0)).1 : Nat) : Int) := by
  rw [List.foldl_cons, List.foldl_cons]
  have hs : goStep pen (2147483647, -1) 0 = (((pen 0 : Nat) : Int), ((0 : Nat) : Int)) := by
    unfold goStep
    have : ((pen 0 : Nat) : Int) < (2147483647 : Int) := by omega
    simp [this]
  have hr : refStep pen (0, 0) 0 = (0, pen 0 + 1) := by unfold refStep; simp
  rw [hs, hr]
  exact (choose_agree pen l _ _ ⟨by simp, by simp, by simp⟩).2.1

/-- the penalties the reference compares -/
def refPenalty (v : Nat) (ec : EC) (cw : List Nat) (k : Nat) : Nat := penalty (refMatrix v ec k cw)

theorem chooseMask_eq_fold (v : Nat) (ec : EC) (cw : List Nat) :
    chooseMask v ec cw = ((List.range 8).foldl (refStep (refPenalty v ec cw)) (0, 0)).1 := rfl

theorem square_refMatrix (v : Nat) (ec : EC) (k : Nat) (cw : List Nat) : Square (dimension v) (refMatrix v ec k cw) := by
  refine ⟨?_, ?_⟩
  · simp [refMatrix_eq_spec, specMatrix]
  · intro r hr
    simp only [refMatrix_eq_spec, specMatrix, List.mem_map, List.mem_range] at hr
    obtain ⟨y, _, rfl⟩ := hr
    simp

theorem refPenalty_lt (v : Nat) (h40 : v ≤ 40) (ec : EC) (cw : List Nat) (k : Nat) : refPenalty v ec cw k < 2147483647 := by
  have := penalty_le (square_refMatrix v ec k cw)
  unfold refPenalty
  have hd : dimension v ≤ 177 := by unfold dimension; omega
  have : dimension v * dimension v ≤ 177 * 177 := Nat.mul_le_mul hd hd
  omega

/-- one iteration of the loop of `chooseMaskPattern` -/
def maskStep (v : Nat) (ec : EC) (cw : List Nat) (st : Int × Int × List Int × ByteMatrix) (k : Nat) :
    Int × Int × List Int × ByteMatrix :=
  if ((refPenalty v ec cw k : Nat) : Int) < st.1
  then (((refPenalty v ec cw k : Nat) : Int), (k : Int), st.2.2.1 ++ [((refPenalty v ec cw k : Nat) : Int)], refByteMatrix v ec k cw)
  else (st.1, st.2.1, st.2.2.1 ++ [((refPenalty v ec cw k : Nat) : Int)], refByteMatrix v ec k cw)

theorem maskStep_go (v : Nat) (ec : EC) (cw : List Nat) : ∀ (l : List Nat) (st : Int × Int × List Int × ByteMatrix),
    ((l.foldl (maskStep v ec cw) st).1, (l.foldl (maskStep v ec cw) st).2.1) =
      l.foldl (goStep (refPenalty v ec cw)) (st.1, st.2.1) := by
  intro l
  induction l with
  | nil => intro st; rfl
  | cons k ks ih =>
    intro st
    rw [List.foldl_cons, List.foldl_cons, ih]
    congr 1
    unfold maskStep goStep
    split <;> rfl

theorem maskStep_wfm (v : Nat) (ec : EC) (cw : List Nat) : ∀ (l : List Nat) (st : Int × Int × List Int × ByteMatrix),
    WFM (dimension v) st.2.2.2 → WFM (dimension v) (l.foldl (maskStep v ec cw) st).2.2.2 := by
  intro l
  induction l with
  | nil => intro st h; exact h
  | cons k ks ih =>
    intro st _
    rw [List.foldl_cons]
    apply ih
    unfold maskStep
    split <;> exact refByteMatrix_wfm v ec k cw

/-- `chooseMaskPattern`: the reference's choice (and all eight builds succeed) -/
theorem chooseMaskPattern_eq {K : Kernels} (hK : KernelsOK K) (v : Nat) (h1 : 1 ≤ v) (h40 : v ≤ 40)
    (hf : FuncOK v) (ec : EC) (cw : List Nat) (hlen : (bitsOfBytes cw).length ≤ (zigzag v).length)
    (m0 : ByteMatrix) (hm0 : WFM (dimension v) m0) :
    ∃ pens m, chooseMaskPattern K (bitsOfBytes cw) ec v m0 = .ok (((chooseMask v ec cw : Nat) : Int), pens, m) ∧
      WFM (dimension v) m := by
  unfold chooseMaskPattern
  simp only [bind, Except.bind]
  unfold forRange
  have h8 : ((8 : Int) - 0).toNat = 8 := by omega
  rw [h8, foldlM_ok_inv (fun (st : Int × Int × List Int × ByteMatrix) => WFM (dimension v) st.2.2.2) _
    (maskStep v ec cw) (List.range 8) (2147483647, -1, [], m0) hm0]
  · simp only [pure, Except.pure]
    have hgo := maskStep_go v ec cw (List.range 8) (2147483647, -1, [], m0)
    have hwfm : WFM (dimension v) (List.foldl (maskStep v ec cw) (2147483647, -1, [], m0) (List.range 8)).2.2.2 :=
      maskStep_wfm v ec cw (List.range 8) _ hm0
    generalize List.foldl (maskStep v ec cw) (2147483647, -1, [], m0) (List.range 8) = F at hgo hwfm
    obtain ⟨a, b, c, d⟩ := F
    refine ⟨c, d, ?_, hwfm⟩
    have h2 := congrArg Prod.snd hgo
    simp only at h2
    rw [h2, chooseMask_eq_fold]
    have hr : List.range 8 = 0 :: [1, 2, 3, 4, 5, 6, 7] := rfl
    rw [hr]
    rw [choose_first (refPenalty v ec cw) (refPenalty_lt v h40 ec cw 0) _]
  · intro st k hk hwf
    have hk8 : k < 8 := List.mem_range.mp hk
    obtain ⟨minP, best, pens, m⟩ := st
    have hk0 : (0 : Int) + ((k : Nat) : Int) = ((k : Nat) : Int) := by omega
    simp only [hk0]
    rw [buildMatrix_eq_ref hK v h1 h40 hf (orderOK_all v) ec k hk8 cw hlen m hwf]
    simp only [pure, Except.pure]
    have hcalc : calculateMaskPenalty (refByteMatrix v ec k cw) = .ok ((refPenalty v ec cw k : Nat) : Int) :=
      calculateMaskPenalty_eq (square_refMatrix v ec k cw) (by unfold dimension; omega)
    rw [hcalc]
    simp only [pure, Except.pure]
    constructor
    · unfold maskStep
      split <;> rfl
    · unfold maskStep
      split <;> exact refByteMatrix_wfm v ec k cw

end Gzx.QREnc
